//go:build verif

package cmd

// C20 recorder.  Every abstract configuration (the distributed example with a
// few fields moved to another value class) is rendered as YAML, parsed with the
// real parseConfig, validated with the real configuration.validate and
// environment.validateFromValidConfig, and -- when accepted -- pushed through
// the real conversions (toInternal) and constructors the values flow into,
// with representative queries on top.  Panics and unserviceable limits become
// the observation "unsafe".  One NDJSON line per configuration; TLC
// (TraceConfig.tla) decides.
//
// The abstraction functions are c20Classes / c20Concrete (class -> YAML value)
// and c20Named (error text -> mutated fields it names).

import (
	"context"
	"crypto/tls"
	"encoding/binary"
	"fmt"
	"io"
	"log/slog"
	"math/rand"
	"net"
	"net/http"
	"net/netip"
	"os"
	"os/exec"
	"slices"
	"path/filepath"
	"regexp"
	"runtime"
	"sort"
	"strconv"
	"strings"
	"sync"
	"testing"
	"time"

	"github.com/AdguardTeam/AdGuardDNS/internal/access"
	"github.com/AdguardTeam/AdGuardDNS/internal/agd"
	"github.com/AdguardTeam/AdGuardDNS/internal/agdtest"
	"github.com/AdguardTeam/AdGuardDNS/internal/dnsmsg"
	"github.com/AdguardTeam/AdGuardDNS/internal/dnsserver"
	"github.com/AdguardTeam/AdGuardDNS/internal/dnsserver/dnsservertest"
	"github.com/AdguardTeam/AdGuardDNS/internal/dnsserver/forward"
	"github.com/AdguardTeam/AdGuardDNS/internal/dnsserver/ratelimit"
	"github.com/AdguardTeam/AdGuardDNS/internal/dnssvc"
	"github.com/AdguardTeam/AdGuardDNS/internal/filter"
	"github.com/AdguardTeam/AdGuardDNS/internal/filter/hashprefix"
	"github.com/AdguardTeam/AdGuardDNS/internal/geoip"
	"github.com/AdguardTeam/AdGuardDNS/internal/profiledb"
	"github.com/AdguardTeam/AdGuardDNS/internal/querylog"
	"github.com/AdguardTeam/golibs/logutil/slogutil"
	"github.com/AdguardTeam/golibs/netutil"
	"github.com/miekg/dns"
	"gopkg.in/yaml.v2"
	"github.com/prometheus/client_golang/prometheus"
	"github.com/quic-go/quic-go"
)

// ---------------------------------------------------------------- field table

type c20Field struct {
	Path string
	Kind string // dur int uint size prefix4 prefix6 port enum
	// Enum: the classes of an enum field (its values plus bogus/missing).
	Enum []string
	// Alloc: the code allocates memory proportional to the value, so "huge"
	// is bounded (exhausting memory is not one of the failures the property
	// talks about).
	Alloc bool
	// Fixed: exactly one concretisation per class (cross-constrained fields
	// whose numbers the model knows, and fields used by the socket exercise).
	Fixed bool
	// Max: the field has a documented upper bound which "huge" must exceed.
	Max bool
}

var c20Fields = []c20Field{
	{Path: "ratelimit/response_size_estimate", Kind: "size"},
	{Path: "ratelimit/ipv4/count", Kind: "uint", Alloc: true},
	{Path: "ratelimit/ipv4/interval", Kind: "dur"},
	{Path: "ratelimit/ipv4/subnet_key_len", Kind: "prefix4"},
	{Path: "ratelimit/ipv6/count", Kind: "uint", Alloc: true},
	{Path: "ratelimit/ipv6/interval", Kind: "dur"},
	{Path: "ratelimit/ipv6/subnet_key_len", Kind: "prefix6"},
	{Path: "ratelimit/backoff_period", Kind: "dur"},
	{Path: "ratelimit/backoff_count", Kind: "uint"},
	{Path: "ratelimit/backoff_duration", Kind: "dur"},
	{Path: "ratelimit/allowlist/refresh_interval", Kind: "dur"},
	{Path: "ratelimit/allowlist/type", Kind: "enum", Enum: []string{"consul", "backend", "bogus", "missing"}},
	{Path: "ratelimit/connection_limit/stop", Kind: "uint", Fixed: true},
	{Path: "ratelimit/connection_limit/resume", Kind: "uint", Fixed: true},
	{Path: "ratelimit/quic/max_streams_per_peer", Kind: "int"},
	{Path: "ratelimit/tcp/max_pipeline_count", Kind: "uint"},
	{Path: "cache/type", Kind: "enum", Enum: []string{"simple", "ecs", "bogus", "missing"}},
	{Path: "cache/size", Kind: "int", Alloc: true},
	{Path: "cache/ecs_size", Kind: "int", Alloc: true},
	{Path: "cache/ttl_override/min", Kind: "dur"},
	{Path: "upstream/servers/0/timeout", Kind: "dur"},
	{Path: "upstream/fallback/servers/0/timeout", Kind: "dur"},
	{Path: "upstream/healthcheck/interval", Kind: "dur"},
	{Path: "upstream/healthcheck/timeout", Kind: "dur"},
	{Path: "upstream/healthcheck/backoff_duration", Kind: "dur"},
	{Path: "dns/read_timeout", Kind: "dur", Fixed: true},
	{Path: "dns/tcp_idle_timeout", Kind: "dur", Fixed: true, Max: true},
	{Path: "dns/write_timeout", Kind: "dur", Fixed: true},
	{Path: "dns/handle_timeout", Kind: "dur", Fixed: true},
	{Path: "dns/max_udp_response_size", Kind: "size", Max: true},
	{Path: "dnsdb/max_size", Kind: "int"},
	{Path: "backend/timeout", Kind: "dur"},
	{Path: "backend/refresh_interval", Kind: "dur"},
	{Path: "backend/full_refresh_interval", Kind: "dur"},
	{Path: "backend/full_refresh_retry_interval", Kind: "dur"},
	{Path: "backend/bill_stat_interval", Kind: "dur"},
	{Path: "geoip/host_cache_size", Kind: "int", Alloc: true},
	{Path: "geoip/ip_cache_size", Kind: "int", Alloc: true},
	{Path: "geoip/refresh_interval", Kind: "dur"},
	{Path: "check/kv/type", Kind: "enum", Enum: []string{"cache", "backend", "consul", "redis", "bogus", "missing"}},
	{Path: "check/kv/ttl", Kind: "dur", Fixed: true},
	{Path: "web/timeout", Kind: "dur"},
	{Path: "safe_browsing/cache_size", Kind: "int", Alloc: true},
	{Path: "safe_browsing/cache_ttl", Kind: "dur"},
	{Path: "safe_browsing/refresh_interval", Kind: "dur"},
	{Path: "safe_browsing/refresh_timeout", Kind: "dur"},
	{Path: "adult_blocking/cache_size", Kind: "int", Alloc: true},
	{Path: "adult_blocking/cache_ttl", Kind: "dur"},
	{Path: "adult_blocking/refresh_interval", Kind: "dur"},
	{Path: "adult_blocking/refresh_timeout", Kind: "dur"},
	{Path: "filters/response_ttl", Kind: "dur"},
	{Path: "filters/custom_filter_cache_size", Kind: "int", Alloc: true},
	{Path: "filters/safe_search_cache_size", Kind: "int", Alloc: true},
	{Path: "filters/refresh_interval", Kind: "dur"},
	{Path: "filters/refresh_timeout", Kind: "dur"},
	{Path: "filters/index_refresh_timeout", Kind: "dur"},
	{Path: "filters/rule_list_refresh_timeout", Kind: "dur"},
	{Path: "filters/max_size", Kind: "size"},
	{Path: "filters/rule_list_cache/size", Kind: "int", Alloc: true},
	{Path: "interface_listeners/channel_buffer_size", Kind: "int", Alloc: true},
	{Path: "interface_listeners/list/eth0_plain_dns/port", Kind: "port", Fixed: true},
	{Path: "network/so_sndbuf", Kind: "size", Max: true},
	{Path: "network/so_rcvbuf", Kind: "size", Max: true},
	{Path: "server_groups/0/ddr/public_records/dns.example.com/https_port", Kind: "port", Fixed: true},
	{Path: "server_groups/0/ddr/public_records/dns.example.com/quic_port", Kind: "port", Fixed: true},
	{Path: "server_groups/0/ddr/public_records/dns.example.com/tls_port", Kind: "port", Fixed: true},
	{Path: "server_groups/0/servers/1/protocol", Kind: "enum",
		Enum: []string{"tls", "https", "quic", "dns", "dnscrypt", "bogus", "missing"}},
	{Path: "server_groups/0/servers/5/dnscrypt/inline/es_version", Kind: "enum",
		Enum: []string{"1", "2", "0", "bogus", "missing"}},
}

// c20Classes returns the value classes of a field (the same sets as Classes(f)
// of Config.tla).
func c20Classes(f *c20Field) (cs []string) {
	num := []string{"missing", "neg", "zero", "one", "typ", "huge"}
	switch f.Kind {
	case "enum":
		return f.Enum
	case "prefix4", "prefix6":
		return append(num, "overfam")
	case "port":
		return append(num, "over")
	}
	if f.Path == "ratelimit/connection_limit/resume" {
		return append(num, "incons")
	}
	if f.Kind == "size" {
		// a size has no sign in its grammar: "-1KB" is a malformed token like
		// "abc", not a value of the field
		return []string{"missing", "zero", "one", "typ", "huge"}
	}
	return num
}

// c20Concrete returns the YAML value of class c of field f; del means "remove
// the line".  dist is the value of the distributed example.
func c20Concrete(f *c20Field, c, dist string, rng *rand.Rand, stop string) (val string, del bool) {
	pick := func(vs ...string) string {
		if f.Fixed {
			return vs[0]
		}
		return vs[rng.Intn(len(vs))]
	}
	if c == "missing" {
		return "", true
	}
	switch f.Kind {
	case "enum":
		if c == "bogus" {
			if strings.HasSuffix(f.Path, "es_version") {
				return "7", false
			}
			return pick("'bogus'", "'SIMPLE'", "''"), false
		}
		if strings.HasSuffix(f.Path, "es_version") {
			return c, false
		}
		return "'" + c + "'", false
	case "dur":
		switch c {
		case "neg":
			return pick("-1s", "-5m", "-1ns"), false
		case "zero":
			return pick("0s", "0"), false
		case "one":
			return pick("1s", "1ms", "1ns"), false
		case "typ":
			if f.Max {
				return pick(dist, "45s"), false
			}
			return pick(dist, "45s", "90m"), false
		case "huge":
			return pick("100000h", "2562047h"), false
		}
	case "int", "uint":
		switch c {
		case "neg":
			return pick("-1", "-5", "-2147483648"), false
		case "zero":
			return "0", false
		case "one":
			return "1", false
		case "typ":
			if f.Path == "ratelimit/connection_limit/resume" {
				return "800", false
			}
			if f.Path == "ratelimit/connection_limit/stop" {
				return "1000", false
			}
			return pick(dist, "1500", "64"), false
		case "huge":
			switch {
			case f.Fixed:
				return "2000000000", false
			case f.Alloc:
				return "1000000", false
			case f.Kind == "uint":
				return pick("2147483647", "4294967295"), false
			default:
				return pick("2147483647", "9223372036854775807"), false
			}
		case "incons":
			n, _ := strconv.ParseUint(stop, 10, 64)
			return strconv.FormatUint(n+1, 10), false
		}
	case "size":
		switch c {
		case "zero":
			return pick("0", "0B", "0KB"), false
		case "one":
			return pick("1B", "1"), false
		case "typ":
			if f.Max {
				return pick(dist, "1232B", "4KB"), false
			}
			return pick(dist, "2KB", "512B"), false
		case "huge":
			if strings.HasSuffix(f.Path, "max_udp_response_size") {
				return pick("64KB", "1MB", "8EB"), false
			}
			if f.Max {
				return pick("2GB", "8EB"), false
			}
			return pick("8EB", "1PB"), false
		}
	case "prefix4", "prefix6":
		fam := 32
		typ := []string{"24", "32", "16"}
		if f.Kind == "prefix6" {
			fam = 128
			typ = []string{"48", "64", "128"}
		}
		switch c {
		case "neg":
			return pick("-5", "-1"), false
		case "zero":
			return "0", false
		case "one":
			return "1", false
		case "typ":
			return pick(typ...), false
		case "overfam":
			return strconv.Itoa(fam + 1), false
		case "huge":
			return pick("1000", "2147483647"), false
		}
	case "port":
		switch c {
		case "neg":
			return "-1", false
		case "zero":
			return "0", false
		case "one":
			return "1", false
		case "typ":
			return dist, false
		case "huge":
			return "65535", false
		case "over":
			return "65536", false
		}
	}
	panic(fmt.Sprintf("c20: no concretisation for %s class %s", f.Path, c))
}

// ---------------------------------------------------------------- YAML template

type c20Yaml struct {
	lines []string
	at    map[string]int    // path -> line index
	dist  map[string]string // path -> distributed value (unquoted)
}

var c20KeyRe = regexp.MustCompile(`^(\s*)((?:- )?)('[^']*'|"[^"]*"|[A-Za-z0-9_.*/-]+):(?:\s+(.*))?$`)

func c20LoadDist(t testing.TB) (y *c20Yaml) {
	repo := os.Getenv("VERIF_REPO")
	if repo == "" {
		repo = "/repo"
	}
	b, err := os.ReadFile(filepath.Join(repo, "config.dist.yaml"))
	if err != nil {
		t.Fatal(err)
	}
	y = &c20Yaml{at: map[string]int{}, dist: map[string]string{}}
	text := string(b)
	// Environment adaptation (like the environment variables): the upstream
	// and fallback addresses of the example are public resolvers, which the
	// initial health check of forward.NewHandler would wait for.
	for old, repl := range map[string]string{
		"'tcp://1.1.1.1:53'": "'tcp://127.0.0.1:1'", "'8.8.4.4:53'": "'127.0.0.1:1'",
		"'1.1.1.1:53'": "'127.0.0.2:1'", "'8.8.8.8:53'": "'127.0.0.3:1'",
	} {
		if !strings.Contains(text, "address: "+old) {
			t.Fatalf("config.dist.yaml: upstream address %s not found", old)
		}
		text = strings.Replace(text, "address: "+old, "address: "+repl, 1)
	}
	y.lines = strings.Split(text, "\n")
	type ent struct {
		indent int
		key    string
	}
	var stack []ent
	counts := map[string]int{}
	path := func() string {
		ks := make([]string, len(stack))
		for i, e := range stack {
			ks[i] = e.key
		}
		return strings.Join(ks, "/")
	}
	for i, ln := range y.lines {
		tr := strings.TrimSpace(ln)
		if tr == "" || strings.HasPrefix(tr, "#") {
			continue
		}
		indent := len(ln) - len(strings.TrimLeft(ln, " "))
		if strings.HasPrefix(tr, "- ") {
			for len(stack) > 0 && stack[len(stack)-1].indent >= indent {
				stack = stack[:len(stack)-1]
			}
			p := path()
			idx := counts[p]
			counts[p] = idx + 1
			stack = append(stack, ent{indent, strconv.Itoa(idx)})
			m := c20KeyRe.FindStringSubmatch(ln)
			if m == nil {
				continue // a scalar item
			}
			key := strings.Trim(m[3], `'"`)
			stack = append(stack, ent{indent + 2, key})
			y.at[path()] = i
			y.dist[path()] = strings.Trim(m[4], `'"`)
			continue
		}
		m := c20KeyRe.FindStringSubmatch(ln)
		if m == nil {
			continue
		}
		for len(stack) > 0 && stack[len(stack)-1].indent >= indent {
			stack = stack[:len(stack)-1]
		}
		key := strings.Trim(m[3], `'"`)
		stack = append(stack, ent{indent, key})
		y.at[path()] = i
		y.dist[path()] = strings.Trim(m[4], `'"`)
	}
	return y
}

type c20Mut struct {
	F string `json:"f"`
	C string `json:"c"`
	V string `json:"v"`
}

// render returns the YAML text and, per mutated field, the 1-based line number
// it ends up on (0 when the line was removed).
func (y *c20Yaml) render(muts []c20Mut, dels map[string]bool) (text string, lineOf map[string]int) {
	repl := map[int]string{}
	drop := map[int]bool{}
	fieldAt := map[int]string{}
	for _, mu := range muts {
		i := y.at[mu.F]
		fieldAt[i] = mu.F
		if dels[mu.F] {
			drop[i] = true
			continue
		}
		ln := y.lines[i]
		k := strings.Index(ln, ":")
		// keys of the mutated fields contain no colon
		repl[i] = ln[:k+1] + " " + mu.V
	}
	lineOf = map[string]int{}
	var sb strings.Builder
	n := 0
	for i, ln := range y.lines {
		if drop[i] {
			lineOf[fieldAt[i]] = 0
			continue
		}
		if r, ok := repl[i]; ok {
			ln = r
		}
		n++
		if f, ok := fieldAt[i]; ok {
			lineOf[f] = n
		}
		sb.WriteString(ln)
		sb.WriteByte('\n')
	}
	return sb.String(), lineOf
}

// sections lists the paths of the mapping-valued keys (a key with nothing after the colon and deeper lines below).
func (y *c20Yaml) sections() (res []string) {
	for p, i := range y.at {
		if y.dist[p] != "" {
			continue
		}
		ind := len(y.lines[i]) - len(strings.TrimLeft(y.lines[i], " "))
		for j := i + 1; j < len(y.lines); j++ {
			tr := strings.TrimSpace(y.lines[j])
			if tr == "" || strings.HasPrefix(tr, "#") {
				continue
			}
			if len(y.lines[j])-len(strings.TrimLeft(y.lines[j], " ")) > ind && !strings.HasPrefix(strings.TrimSpace(y.lines[i]), "- ") {
				res = append(res, p)
			}
			break
		}
	}
	sort.Strings(res)
	return res
}

// renderSection returns the example with the section at path p set to null or removed.
func (y *c20Yaml) renderSection(p, mode string) string {
	i := y.at[p]
	ind := len(y.lines[i]) - len(strings.TrimLeft(y.lines[i], " "))
	var sb strings.Builder
	skip := false
	for j, ln := range y.lines {
		if j == i {
			skip = true
			if mode == "null" {
				sb.WriteString(ln[:strings.Index(ln, ":")+1] + " null\n")
			}
			continue
		}
		if skip {
			tr := strings.TrimSpace(ln)
			if tr == "" || strings.HasPrefix(tr, "#") || len(ln)-len(strings.TrimLeft(ln, " ")) > ind {
				continue
			}
			skip = false
		}
		sb.WriteString(ln)
		sb.WriteByte('\n')
	}
	return sb.String()
}

func (e *c20Env) runSection(id int, sec, mode string) (ev *c20Event) {
	ev = &c20Event{ID: id, Mut: []c20Mut{}, Named: []string{}, Unsafe: []string{}, Ran: []string{"not exercised"}, Ms: []int{},
		Section: sec + "=" + mode}
	if err := os.WriteFile(e.envs.ConfPath, []byte(e.yaml.renderSection(sec, mode)), 0o600); err != nil {
		e.t.Fatal(err)
	}
	var err error
	stage := "parse"
	crash := c20Recover("validation", func() {
		var c *configuration
		c, err = parseConfig(e.envs.ConfPath)
		if err != nil {
			return
		}
		stage = "validate"
		if err = c.validate(); err != nil {
			return
		}
		stage = "env"
		if err = e.envs.validateFromValidConfig(c); err != nil {
			return
		}
		stage = "accepted"
	})
	ev.Stage = stage
	switch {
	case crash != "":
		ev.Crashed, ev.Err = true, crash
	case err != nil:
		ev.Err = err.Error()
		if len(ev.Err) > 500 {
			ev.Err = ev.Err[:500]
		}
		// named: the section's own key, or any key on its path, appears as a word in the error text
		ks := strings.Split(sec, "/")
		for k := len(ks) - 1; k >= 0; k-- {
			if regexp.MustCompile(`(^|[^A-Za-z0-9_])` + regexp.QuoteMeta(ks[k]) + `($|[^A-Za-z0-9_])`).MatchString(ev.Err) {
				ev.Named = []string{sec}
				break
			}
		}
	default:
		ev.Accepted = true
	}
	if !ev.Accepted && !ev.Crashed {
		// what the harness does step by step above, the binary does in Main: the same file through the real
		// entry point, in a child process (a rejected configuration ends it before anything is started)
		outp, exited := c20RunMain(e.t, e.envs.ConfPath)
		switch {
		// (Main reports a rejected file through its panic handler: "recovered from panic err=<property: reason>";
		// a crash is a run-time error of the Go runtime)
		case strings.Contains(outp, "runtime error") || strings.Contains(outp, "nil pointer dereference") ||
			strings.Contains(outp, "invalid memory address"):
			ev.Crashed, ev.Stage = true, "main"
			ev.Err = "cmd.Main with this file: " + c20Head(outp, 600)
		case !exited:
			e.t.Fatalf("section %s=%s: cmd.Main did not end with a rejected configuration: %s", sec, mode, c20Head(outp, 600))
		}
		ev.Ran = []string{"main"}
	}
	return ev
}

// runServers: the example with only the servers of the given protocols kept in its server group, and the
// group's tls section kept or removed ("missing values" for list elements and for the section that only some
// of them need).  An accepted file is taken through the start-up steps that are functions of the file alone.
func (e *c20Env) runServers(id int, keep []string, tlsMode string) (ev *c20Event) {
	ev = &c20Event{ID: id, Mut: []c20Mut{}, Named: []string{}, Unsafe: []string{}, Ran: []string{"not exercised"}, Ms: []int{},
		Section: fmt.Sprintf("server_groups/servers=%s;tls=%s", strings.Join(keep, "+"), tlsMode)}
	doc := yaml.MapSlice{}
	if err := yaml.Unmarshal([]byte(strings.Join(e.yaml.lines, "\n")+"\n"), &doc); err != nil {
		e.t.Fatal(err)
	}
	for i, it := range doc {
		if it.Key != "server_groups" {
			continue
		}
		grps := it.Value.([]any)
		g := grps[0].(yaml.MapSlice)
		var ng yaml.MapSlice
		for _, f := range g {
			switch f.Key {
			case "tls":
				if tlsMode == "removed" {
					continue
				}
			case "servers":
				var ns []any
				for _, sv := range f.Value.([]any) {
					for _, sf := range sv.(yaml.MapSlice) {
						if sf.Key == "protocol" && slices.Contains(keep, sf.Value.(string)) {
							ns = append(ns, sv)
						}
					}
				}
				f.Value = ns
			}
			ng = append(ng, f)
		}
		grps[0] = ng
		doc[i].Value = grps[:1]
	}
	b, err := yaml.Marshal(doc)
	if err != nil {
		e.t.Fatal(err)
	}
	if err = os.WriteFile(e.envs.ConfPath, b, 0o600); err != nil {
		e.t.Fatal(err)
	}
	stage := "parse"
	crash := c20Recover("start-up", func() {
		var c *configuration
		c, err = parseConfig(e.envs.ConfPath)
		if err != nil {
			return
		}
		stage = "validate"
		if err = c.validate(); err != nil {
			return
		}
		stage = "env"
		if err = e.envs.validateFromValidConfig(c); err != nil {
			return
		}
		// what builder.initTLSManager and the server-group conversion compute from the file
		stage = "startup"
		_ = c.ServerGroups.collectSessTicketPaths()
		stage = "accepted"
	})
	ev.Stage = stage
	switch {
	case crash != "":
		ev.Crashed, ev.Err = true, crash
	case err != nil:
		ev.Err = c20Head(err.Error(), 500)
		if strings.Contains(ev.Err, "tls") || strings.Contains(ev.Err, "servers") || strings.Contains(ev.Err, "server_groups") {
			ev.Named = []string{"server_groups"}
		}
	default:
		ev.Accepted, ev.Ran = true, []string{"startup"}
	}
	return ev
}

const c20MainChildEnv = "VERIF_C20_MAIN_CHILD"

// TestVerifC20MainChild is not a test: with c20MainChildEnv set the test binary
// IS the server binary.
func TestVerifC20MainChild(t *testing.T) {
	if os.Getenv(c20MainChildEnv) != "1" {
		t.Skip("only used as a child process")
	}
	Main(nil)
}

func c20Head(s string, n int) string {
	if len(s) > n {
		return s[:n]
	}
	return s
}

// c20RunMain starts the real entry point with the configuration file and
// returns its output and whether it ended by itself with a failure status.
func c20RunMain(t testing.TB, confPath string) (outp string, exited bool) {
	ctx, cancel := context.WithTimeout(context.Background(), 20*time.Second)
	defer cancel()
	cmd := exec.CommandContext(ctx, os.Args[0], "-test.run=^TestVerifC20MainChild$", "-test.count=1")
	dir, err := os.MkdirTemp(os.Getenv("VERIF_SCRATCH"), "c20main")
	if err != nil {
		t.Fatal(err)
	}
	defer os.RemoveAll(dir)
	cmd.Dir = dir
	cmd.Env = []string{c20MainChildEnv + "=1", "PATH=" + os.Getenv("PATH"), "HOME=" + dir, "CONFIG_PATH=" + confPath,
		"SENTRY_DSN=stderr", "FILTER_INDEX_URL=http://127.0.0.1:1/filters.json", "ADULT_BLOCKING_ENABLED=0",
		"BLOCKED_SERVICE_ENABLED=0", "GENERAL_SAFE_SEARCH_ENABLED=0", "NEW_REG_DOMAINS_ENABLED=0", "SAFE_BROWSING_ENABLED=0",
		"YOUTUBE_SAFE_SEARCH_ENABLED=0", "GOCOVERDIR=" + dir}
	b, rerr := cmd.CombinedOutput()
	return string(b), rerr != nil && ctx.Err() == nil
}

// ---------------------------------------------------------------- events

type c20Event struct {
	ID       int      `json:"id"`
	Mut      []c20Mut `json:"mut"`
	Stage    string   `json:"stage"`
	Accepted bool     `json:"accepted"`
	Crashed  bool     `json:"crashed"`
	Err      string   `json:"err"`
	Named    []string `json:"named"`
	FullPath bool     `json:"fullpath"`
	Unsafe   []string `json:"unsafe"`
	Ran      []string `json:"ran"`
	Ms       []int    `json:"ms"`
	// Section: not a field mutation but a whole section of the example made null or removed
	Section string `json:"section"`
}

// c20Named returns the mutated fields which the error text names: by the name
// of the property (last path component as a whole word), or, for YAML type
// errors, by the number of the line the field is on.  full reports whether the
// whole path of every named field appears in order.
func c20Named(errText string, muts []c20Mut, lineOf map[string]int) (named []string, full bool) {
	named = []string{}
	full = true
	word := func(w string) bool {
		return regexp.MustCompile(`(^|[^A-Za-z0-9_])` + regexp.QuoteMeta(w) + `([^A-Za-z0-9_]|$)`).MatchString(errText)
	}
	for _, mu := range muts {
		parts := strings.Split(mu.F, "/")
		leaf := parts[len(parts)-1]
		ok := word(leaf)
		if !ok && lineOf[mu.F] == 0 && len(parts) >= 2 && strings.HasSuffix(errText, parts[len(parts)-2]+": no value") {
			// the line was removed and with it the last property of the
			// enclosing object, which is then reported as missing
			ok = true
		}
		if !ok {
			if n := lineOf[mu.F]; n > 0 && regexp.MustCompile(`line `+strconv.Itoa(n)+`([^0-9]|$)`).MatchString(errText) {
				ok = true
			}
		}
		if !ok {
			continue
		}
		named = append(named, mu.F)
		rest := errText
		for _, p := range parts {
			if _, err := strconv.Atoi(p); err == nil {
				p = "index " + p
			}
			k := strings.Index(rest, p)
			if k < 0 {
				full = false
				break
			}
			rest = rest[k+len(p):]
		}
	}
	return named, full && len(named) > 0
}

// c20Recover runs f and converts a panic into a description.
func c20Recover(what string, f func()) (unsafe string) {
	defer func() {
		if v := recover(); v != nil {
			msg := fmt.Sprint(v)
			if len(msg) > 300 {
				msg = msg[:300]
			}
			unsafe = what + ": panic: " + msg
		}
	}()
	f()
	return ""
}

// ---------------------------------------------------------------- environment

type c20Env struct {
	t      testing.TB
	dir    string
	envs   *environment
	logger *slog.Logger
	tlsSrv *tls.Config
	yaml   *c20Yaml
	rng    *rand.Rand
	force  map[string]string // focus mode: concrete values
	// bad: (field=class) cells that already fail when mutated alone -> the
	// first failure seen.  A multi-field configuration containing such a cell
	// is not exercised again (that bounds the run on a badly broken tree).
	bad map[string]string
}

func c20Setup(t *testing.T) (e *c20Env) {
	dir := t.TempDir()
	confPath := filepath.Join(dir, "config.yaml")
	for k, v := range map[string]string{
		"CONFIG_PATH":                 confPath,
		"FILTER_INDEX_URL":            "http://127.0.0.1:1/filters.json",
		"FILTER_CACHE_PATH":           filepath.Join(dir, "filters"),
		"ADULT_BLOCKING_URL":          "http://127.0.0.1:1/adult.txt",
		"SAFE_BROWSING_URL":           "http://127.0.0.1:1/sb.txt",
		"NEW_REG_DOMAINS_URL":         "http://127.0.0.1:1/nrd.txt",
		"BLOCKED_SERVICE_INDEX_URL":   "http://127.0.0.1:1/services.json",
		"GENERAL_SAFE_SEARCH_URL":     "http://127.0.0.1:1/gss.txt",
		"YOUTUBE_SAFE_SEARCH_URL":     "http://127.0.0.1:1/yss.txt",
		"LINKED_IP_TARGET_URL":        "http://127.0.0.1:1/",
		"RULESTAT_URL":                "http://127.0.0.1:1/rulestat",
		"CONSUL_ALLOWLIST_URL":        "http://127.0.0.1:1/allow",
		"CONSUL_DNSCHECK_KV_URL":      "http://127.0.0.1:1/kv",
		"CONSUL_DNSCHECK_SESSION_URL": "http://127.0.0.1:1/session",
		"BACKEND_RATELIMIT_URL":       "grpc://127.0.0.1:1",
		"BACKEND_RATELIMIT_API_KEY":   "k",
		"BILLSTAT_URL":                "grpc://127.0.0.1:1",
		"PROFILES_URL":                "grpc://127.0.0.1:1",
		"DNSCHECK_REMOTEKV_URL":       "grpc://127.0.0.1:1",
		"DNSCHECK_CACHE_KV_SIZE":      "1000",
		"REDIS_ADDR":                  "127.0.0.1",
		"GEOIP_ASN_PATH":              filepath.Join(dir, "asn.mmdb"),
		"GEOIP_COUNTRY_PATH":          filepath.Join(dir, "country.mmdb"),
		"PROFILES_CACHE_PATH":         "none",
		"QUERYLOG_PATH":               filepath.Join(dir, "querylog.jsonl"),
		"SENTRY_DSN":                  "stderr",
		"VERBOSE":                     "0",
	} {
		t.Setenv(k, v)
	}
	envs, err := parseEnvironment()
	if err != nil {
		t.Fatalf("environment: %v", err)
	}
	if err = envs.validate(); err != nil {
		t.Fatalf("environment invalid: %v", err)
	}
	if err = os.MkdirAll(envs.FilterCachePath, 0o700); err != nil {
		t.Fatal(err)
	}
	tlsSrv := dnsservertest.CreateServerTLSConfig("verif.example")
	return &c20Env{
		t:      t,
		dir:    dir,
		envs:   envs,
		logger: slogutil.NewDiscardLogger(),
		tlsSrv: tlsSrv,
		yaml:   c20LoadDist(t),
		rng:    rand.New(rand.NewSource(vhSeed())),
		bad:    map[string]string{},
	}
}

// ---------------------------------------------------------------- one configuration

type c20Abs struct {
	F *c20Field
	C string
}

var c20FieldByPath = map[string]*c20Field{}

func init() {
	for i := range c20Fields {
		c20FieldByPath[c20Fields[i].Path] = &c20Fields[i]
	}
}

func (e *c20Env) concretise(abs []c20Abs) (muts []c20Mut, dels map[string]bool) {
	dels = map[string]bool{}
	// the concrete value of stop is needed for resume's class "incons"
	stop := "1000"
	vals := map[string]string{}
	order := make([]c20Abs, len(abs))
	copy(order, abs)
	sort.SliceStable(order, func(i, j int) bool {
		return order[i].F.Path == "ratelimit/connection_limit/stop" && order[j].F.Path != order[i].F.Path
	})
	for _, a := range order {
		dist, ok := e.yaml.dist[a.F.Path]
		if !ok {
			e.t.Fatalf("field %s not found in config.dist.yaml", a.F.Path)
		}
		v, del := c20Concrete(a.F, a.C, dist, e.rng, stop)
		if fv, ok := e.force[a.F.Path]; ok && !del {
			v = fv
		}
		if a.F.Path == "ratelimit/connection_limit/stop" {
			stop = v
			if del {
				stop = "0"
			}
		}
		vals[a.F.Path] = v
		dels[a.F.Path] = del
	}
	for _, a := range abs {
		muts = append(muts, c20Mut{F: a.F.Path, C: a.C, V: vals[a.F.Path]})
	}
	return muts, dels
}

func (e *c20Env) run(id int, abs []c20Abs) (ev *c20Event) {
	muts, dels := e.concretise(abs)
	if muts == nil {
		muts = []c20Mut{}
	}
	ev = &c20Event{ID: id, Mut: muts, Named: []string{}, Unsafe: []string{}, Ran: []string{}, Ms: []int{}}
	text, lineOf := e.yaml.render(muts, dels)
	if err := os.WriteFile(e.envs.ConfPath, []byte(text), 0o600); err != nil {
		e.t.Fatal(err)
	}
	var c *configuration
	var err error
	stage := "parse"
	crash := c20Recover("validation", func() {
		c, err = parseConfig(e.envs.ConfPath)
		if err != nil {
			return
		}
		stage = "validate"
		err = c.validate()
		if err != nil {
			return
		}
		stage = "env"
		err = e.envs.validateFromValidConfig(c)
		if err != nil {
			return
		}
		stage = "accepted"
	})
	ev.Stage = stage
	if crash != "" {
		ev.Crashed = true
		ev.Err = crash
		return ev
	}
	if err != nil {
		ev.Err = err.Error()
		if len(ev.Err) > 500 {
			ev.Err = ev.Err[:500]
		}
		ev.Named, ev.FullPath = c20Named(err.Error(), muts, lineOf)
		return ev
	}
	ev.Accepted = true
	if len(muts) >= 1 {
		for _, mu := range muts {
			if why, ok := e.bad[mu.F+"="+mu.C]; ok {
				ev.Ran = append(ev.Ran, "inferred")
				ev.Unsafe = append(ev.Unsafe, "(not exercised again) "+mu.F+"="+mu.C+" fails on its own: "+why)
				return ev
			}
		}
	}
	e.exercise(c, muts, ev)
	if len(muts) == 1 && len(ev.Unsafe) > 0 {
		if _, ok := e.bad[muts[0].F+"="+muts[0].C]; !ok {
			e.bad[muts[0].F+"="+muts[0].C] = ev.Unsafe[0]
		}
	}
	return ev
}

// ---------------------------------------------------------------- exercising an accepted configuration

func c20Touches(muts []c20Mut, prefixes ...string) bool {
	if len(muts) == 0 {
		return true // the baseline runs everything
	}
	for _, mu := range muts {
		for _, p := range prefixes {
			if strings.HasPrefix(mu.F, p) {
				return true
			}
		}
	}
	return false
}

func (e *c20Env) exercise(c *configuration, muts []c20Mut, ev *c20Event) {
	add := func(s ...string) {
		for _, x := range s {
			if x != "" {
				ev.Unsafe = append(ev.Unsafe, x)
			}
		}
	}
	t0 := time.Now()
	lap := func() {
		ev.Ms = append(ev.Ms, int(time.Since(t0).Milliseconds()))
		t0 = time.Now()
	}
	if c20Touches(muts, "ratelimit/") {
		ev.Ran = append(ev.Ran, "ratelimit")
		add(e.exRateLimit(c)...)
		lap()
	}
	if c20Touches(muts, "ratelimit/", "cache/", "dns/", "dnsdb/", "network/", "filters/response_ttl") {
		sockets := c20Touches(muts, "dns/", "ratelimit/tcp/", "ratelimit/quic/", "ratelimit/connection_limit/", "network/")
		ev.Ran = append(ev.Ran, "service")
		if sockets {
			ev.Ran = append(ev.Ran, "sockets")
		}
		u, sockFail := e.exService(c, sockets, 1500*time.Millisecond)
		if sockFail {
			// An unserviceable limit fails every time.  A lost datagram, a
			// stalled machine or a port shared with another SO_REUSEPORT
			// socket (the servers set that option, and so do the servers of
			// other test processes) does not: once more, on fresh ports,
			// with more patience.
			ev.Ran = append(ev.Ran, "sockets-again")
			u, _ = e.exService(c, sockets, 4*time.Second)
		}
		add(u...)
		lap()
	}
	if c20Touches(muts, "filters/") {
		ev.Ran = append(ev.Ran, "filterstorage")
		add(e.exFilterStorage(c)...)
		lap()
	}
	if c20Touches(muts, "upstream/") {
		ev.Ran = append(ev.Ran, "upstream")
		add(e.exUpstream(c)...)
		lap()
	}
}

func c20Msg(name string, qt uint16, ecs net.IP) (m *dns.Msg) {
	m = dnsservertest.NewReq(name, qt, dns.ClassINET)
	if ecs != nil {
		fam, mask := uint16(1), uint8(24)
		if ecs.To4() == nil {
			fam, mask = 2, 48
		}
		m.Extra = append(m.Extra, dnsservertest.NewECSExtra(ecs, fam, mask, 0))
	}
	return m
}

func c20BigResp(req *dns.Msg) (resp *dns.Msg) {
	resp = (&dns.Msg{}).SetReply(req)
	for i := 0; i < 16; i++ {
		resp.Answer = append(resp.Answer, dnsservertest.NewTXT(req.Question[0].Name, 300, strings.Repeat("x", 250)))
	}
	return resp
}

// exRateLimit: rateLimitConfig.toInternal -> ratelimit.NewBackoff, then
// IsRateLimited and CountResponses for IPv4 and IPv6 clients with small and
// large responses.
func (e *c20Env) exRateLimit(c *configuration) (unsafe []string) {
	ctx := context.Background()
	var rl *ratelimit.Backoff
	if u := c20Recover("ratelimit.NewBackoff", func() {
		al := ratelimit.NewDynamicAllowlist(netutil.UnembedPrefixes(c.RateLimit.Allowlist.List), nil)
		rl = ratelimit.NewBackoff(c.RateLimit.toInternal(al))
	}); u != "" {
		return []string{u}
	}
	// Only the first IPv4 and the first IPv6 request of the limiter's life must
	// pass: later clients may legitimately share a bucket with earlier ones.
	first := map[bool]bool{}
	for _, cl := range []string{"1.2.3.4", "203.0.113.77", "2001:db8::1", "2a00:1450:4001:81b::200e", "127.0.0.1"} {
		ip := netip.MustParseAddr(cl)
		mustPass := !first[ip.Is4()]
		first[ip.Is4()] = true
		req := c20Msg("rl.example.", dns.TypeA, nil)
		small := (&dns.Msg{}).SetReply(req)
		small.Answer = append(small.Answer, dnsservertest.NewA("rl.example.", 60, netip.MustParseAddr("192.0.2.1")))
		big := c20BigResp(req)
		u := c20Recover("Backoff.IsRateLimited("+cl+")", func() {
			drop, _, err := rl.IsRateLimited(ctx, req, ip)
			if err != nil {
				panic(fmt.Errorf("error: %w", err))
			}
			if drop && mustPass {
				panic("unserviceable: the very first request is dropped")
			}
		})
		if u != "" {
			unsafe = append(unsafe, u)
			continue
		}
		if u = c20Recover("Backoff.CountResponses("+cl+", small response)", func() { rl.CountResponses(ctx, small, ip) }); u != "" {
			unsafe = append(unsafe, u)
		}
		if u = c20Recover("Backoff.CountResponses("+cl+", large response)", func() { rl.CountResponses(ctx, big, ip) }); u != "" {
			unsafe = append(unsafe, u)
		}
	}
	return unsafe
}

type c20TLSManager struct{ conf *tls.Config }

func (m *c20TLSManager) Add(_ context.Context, _, _ string) (err error) { return nil }
func (m *c20TLSManager) Clone() (c *tls.Config)                         { return m.conf.Clone() }
func (m *c20TLSManager) CloneWithMetrics(_, _ string, _ []string) (c *tls.Config) {
	return m.conf.Clone()
}

type c20ErrColl struct {
	mu   sync.Mutex
	errs []string
}

func (c *c20ErrColl) Collect(_ context.Context, err error) {
	c.mu.Lock()
	defer c.mu.Unlock()
	c.errs = append(c.errs, err.Error())
}

func (c *c20ErrColl) panics() (res []string) {
	c.mu.Lock()
	defer c.mu.Unlock()
	for _, s := range c.errs {
		if strings.Contains(s, "panic") || strings.Contains(s, "runtime error") {
			res = append(res, "collected: "+s)
		}
	}
	return res
}

// exService builds the DNS handlers and (optionally) the listening servers the
// way builder.initRateLimiter / initMsgConstructor / initDNS do, from the real
// conversions, and sends representative queries.
func (e *c20Env) exService(c *configuration, sockets bool, wait time.Duration) (unsafe []string, sockFail bool) {
	ctx := context.Background()
	dnsAddr, doqAddr := c20FreeAddr(), c20FreeAddr()
	errColl := &c20ErrColl{}
	oldReg, oldGath := prometheus.DefaultRegisterer, prometheus.DefaultGatherer
	reg := prometheus.NewRegistry()
	prometheus.DefaultRegisterer, prometheus.DefaultGatherer = reg, reg
	defer func() { prometheus.DefaultRegisterer, prometheus.DefaultGatherer = oldReg, oldGath }()

	b := newBuilder(&builderConfig{envs: e.envs, conf: c, baseLogger: e.logger, plugins: nil, errColl: errColl})
	b.promRegisterer = prometheus.NewRegistry()

	var handlers dnssvc.Handlers
	var srvGrps []*agd.ServerGroup
	u := c20Recover("building the DNS handlers", func() {
		if err := b.initMsgConstructor(ctx); err != nil {
			panic(fmt.Errorf("initMsgConstructor: %w", err))
		}
		// the tail of builder.initRateLimiter
		al := ratelimit.NewDynamicAllowlist(netutil.UnembedPrefixes(c.RateLimit.Allowlist.List), nil)
		b.connLimit = c.RateLimit.ConnectionLimit.toInternal(b.baseLogger)
		b.rateLimit = ratelimit.NewBackoff(c.RateLimit.toInternal(al))
		// builder.initBindToDevice / initDNS
		_, b.controlConf = c.Network.toInternal()
		b.dnsDB = c.DNSDB.toInternal(b.baseLogger, b.errColl)

		srvs := servers{{
			Name: "verif_dns", Protocol: srvProtoDNS, LinkedIPEnabled: true,
			BindAddresses: []netip.AddrPort{dnsAddr},
		}, {
			Name: "verif_doq", Protocol: srvProtoQUIC,
			BindAddresses: []netip.AddrPort{doqAddr},
		}}
		if err := (serverGroups{{
			DDR: c.ServerGroups[0].DDR, TLS: c.ServerGroups[0].TLS, Name: "verif", FilteringGroup: "default",
			Servers: srvs, ProfilesEnabled: true,
		}}).validate(); err != nil {
			panic(fmt.Errorf("harness server group invalid: %w", err))
		}
		dnsSrvs, err := srvs.toInternal(nil, &c20TLSManager{conf: e.tlsSrv}, c.RateLimit, c.DNS, nil)
		if err != nil {
			panic(fmt.Errorf("servers.toInternal: %w", err))
		}
		fltGrp := &agd.FilteringGroup{
			FilterConfig: &filter.ConfigGroup{
				Parental:     &filter.ConfigParental{},
				RuleList:     &filter.ConfigRuleList{},
				SafeBrowsing: &filter.ConfigSafeBrowsing{},
			},
			ID: "default",
		}
		srvGrps = []*agd.ServerGroup{{
			DDR:             c.ServerGroups[0].DDR.toInternal(b.messages),
			Name:            "verif",
			FilteringGroup:  "default",
			Servers:         dnsSrvs,
			ProfilesEnabled: true,
		}}
		handlers, err = dnssvc.NewHandlers(ctx, e.handlersConfig(b, c, srvGrps, fltGrp, errColl))
		if err != nil {
			panic(fmt.Errorf("dnssvc.NewHandlers: %w", err))
		}
	})
	if u != "" {
		return []string{u}, false
	}

	// in-process queries through the plain-DNS handler (the one the global
	// rate limiter is applied to)
	var h dnsserver.Handler
	for k, v := range handlers {
		if k.Server.Name == "verif_dns" {
			h = v
		}
	}
	local := &net.UDPAddr{IP: net.IP{127, 0, 0, 1}, Port: 53}
	type q struct {
		client string
		name   string
		ecs    net.IP
	}
	qs := []q{
		{"1.2.3.4", "small.example.", nil}, {"1.2.3.4", "small.example.", nil},
		{"1.2.3.4", "big.example.", nil}, {"1.2.3.4", "big.example.", nil},
		{"198.51.100.7", "small.example.", net.IP{198, 51, 100, 0}}, {"198.51.100.7", "small.example.", net.IP{198, 51, 100, 0}},
		{"2001:db8::1", "small.example.", nil}, {"2001:db8::1", "big.example.", nil}, {"2001:db8::1", "big.example.", nil},
		{"2001:db8:7::1", "small.example.", net.ParseIP("2001:db8:7::")},
		{"5.6.7.8", "small.example.", nil}, {"5.6.7.8", "big.example.", nil},
	}
	seen := map[bool]bool{} // address family -> a query was already sent
	for _, x := range qs {
		for _, qt := range []uint16{dns.TypeA, dns.TypeTXT} {
			req := c20Msg(x.name, qt, x.ecs)
			raddr := &net.UDPAddr{IP: net.ParseIP(x.client), Port: 40000}
			rw := dnsserver.NewNonWriterResponseWriter(local, raddr)
			qctx := dnsserver.ContextWithServerInfo(ctx, &dnsserver.ServerInfo{Name: "verif_dns", Addr: "127.0.0.1:53", Proto: dnsserver.ProtoDNS})
			qctx = dnsserver.ContextWithRequestInfo(qctx, &dnsserver.RequestInfo{StartTime: time.Now()})
			what := fmt.Sprintf("handler %s %s from %s", dns.TypeToString[qt], x.name, x.client)
			u = c20Recover(what, func() {
				err := h.ServeDNS(qctx, rw, req)
				if err != nil {
					panic(fmt.Errorf("error: %w", err))
				}
				if !seen[raddr.IP.To4() != nil] && rw.Msg() == nil {
					panic("unserviceable: the very first query got no answer")
				}
			})
			seen[raddr.IP.To4() != nil] = true
			if u != "" {
				unsafe = append(unsafe, u)
			}
		}
	}
	unsafe = append(unsafe, errColl.panics()...)
	if len(unsafe) > 0 || !sockets {
		return unsafe, false
	}
	su := e.exSockets(c, b, handlers, srvGrps, errColl, wait)
	return append(unsafe, su...), len(su) > 0
}

// c20FreeAddr returns a loopback address whose port is free for TCP and UDP.
// The probe sockets are bound WITHOUT SO_REUSEPORT, so the port is not one
// that another SO_REUSEPORT listener (of this or another process) shares.
func c20FreeAddr() (ap netip.AddrPort) {
	for i := 0; i < 50; i++ {
		l, err := net.Listen("tcp", "127.0.0.1:0")
		if err != nil {
			continue
		}
		port := l.Addr().(*net.TCPAddr).Port
		pc, err := net.ListenPacket("udp", "127.0.0.1:"+strconv.Itoa(port))
		_ = l.Close()
		if err != nil {
			continue
		}
		_ = pc.Close()
		return netip.AddrPortFrom(netip.MustParseAddr("127.0.0.1"), uint16(port))
	}
	panic("c20: no free loopback port")
}

func (e *c20Env) handlersConfig(
	b *builder,
	c *configuration,
	srvGrps []*agd.ServerGroup,
	fltGrp *agd.FilteringGroup,
	errColl *c20ErrColl,
) (hc *dnssvc.HandlersConfig) {
	loc := &geoip.Location{Country: geoip.CountryAD, Continent: geoip.ContinentEU, ASN: 42}
	gi := agdtest.NewGeoIP()
	gi.OnData = func(_ string, _ netip.Addr) (l *geoip.Location, err error) { return loc, nil }
	gi.OnSubnetByLocation = func(_ *geoip.Location, fam netutil.AddrFamily) (n netip.Prefix, err error) {
		if fam == netutil.AddrFamilyIPv6 {
			return netip.MustParsePrefix("2001:db8:ff::/48"), nil
		}
		return netip.MustParsePrefix("192.0.2.0/24"), nil
	}
	// the profile's rate limiter receives the configured response-size
	// estimate exactly as backendpb.ProfileStorage passes it on
	prof := &agd.Profile{
		FilterConfig: &filter.ConfigClient{
			Custom: &filter.ConfigCustom{}, Parental: &filter.ConfigParental{},
			RuleList: &filter.ConfigRuleList{}, SafeBrowsing: &filter.ConfigSafeBrowsing{},
		},
		Access:       access.EmptyProfile{},
		BlockingMode: &dnsmsg.BlockingModeNullIP{},
		Ratelimiter: agd.NewDefaultRatelimiter(&agd.RatelimitConfig{RPS: 100, Enabled: true},
			c.RateLimit.ResponseSizeEstimate),
		ID:                  "prof1234",
		DeviceIDs:           []agd.DeviceID{"dev1234"},
		FilteredResponseTTL: 10 * time.Second,
		FilteringEnabled:    true,
		QueryLogEnabled:     true,
	}
	dev := &agd.Device{Auth: &agd.AuthSettings{}, ID: "dev1234", LinkedIP: netip.MustParseAddr("5.6.7.8"), FilteringEnabled: true}
	pdb := agdtest.NewProfileDB()
	pdb.OnProfileByLinkedIP = func(_ context.Context, ip netip.Addr) (*agd.Profile, *agd.Device, error) {
		if ip == dev.LinkedIP {
			return prof, dev, nil
		}
		return nil, nil, profiledb.ErrDeviceNotFound
	}
	pdb.OnProfileByDedicatedIP = func(_ context.Context, _ netip.Addr) (*agd.Profile, *agd.Device, error) {
		return nil, nil, profiledb.ErrDeviceNotFound
	}
	pdb.OnProfileByDeviceID = func(_ context.Context, _ agd.DeviceID) (*agd.Profile, *agd.Device, error) {
		return nil, nil, profiledb.ErrDeviceNotFound
	}
	upstream := dnsserver.HandlerFunc(func(ctx context.Context, rw dnsserver.ResponseWriter, req *dns.Msg) error {
		var resp *dns.Msg
		if strings.HasPrefix(req.Question[0].Name, "big.") {
			resp = c20BigResp(req)
		} else {
			resp = (&dns.Msg{}).SetReply(req)
			resp.Answer = append(resp.Answer, dnsservertest.NewA(req.Question[0].Name, 100, netip.MustParseAddr("192.0.2.1")))
		}
		return rw.WriteMsg(ctx, req, resp)
	})
	return &dnssvc.HandlersConfig{
		BaseLogger:       e.logger,
		Cache:            c.Cache.toInternal(),
		Cloner:           b.cloner,
		HumanIDParser:    agd.NewHumanIDParser(),
		Messages:         b.messages,
		PluginRegistry:   nil,
		StructuredErrors: b.sdeConf,
		AccessManager: &agdtest.AccessManager{
			OnIsBlockedHost: func(_ string, _ uint16) (blocked bool) { return false },
			OnIsBlockedIP:   func(_ netip.Addr) (blocked bool) { return false },
		},
		BillStat: &agdtest.BillStatRecorder{OnRecord: func(context.Context, agd.DeviceID, geoip.Country, geoip.ASN,
			time.Time, agd.Protocol) {
		}},
		CacheManager: b.cacheManager,
		DNSCheck: &agdtest.DNSCheck{OnCheck: func(context.Context, *dns.Msg, *agd.RequestInfo) (*dns.Msg, error) {
			return nil, nil
		}},
		DNSDB:   b.dnsDB,
		ErrColl: errColl,
		FilterStorage: &agdtest.FilterStorage{
			OnForConfig: func(_ context.Context, _ filter.Config) (f filter.Interface) { return filter.Empty{} },
			OnHasListID: func(_ filter.ID) (ok bool) { return true },
		},
		GeoIP:                gi,
		Handler:              upstream,
		HashMatcher:          hashprefix.NewMatcher(nil),
		ProfileDB:            pdb,
		PrometheusRegisterer: prometheus.NewRegistry(),
		QueryLog:             &agdtest.QueryLog{OnWrite: func(context.Context, *querylog.Entry) (err error) { return nil }},
		RateLimit:            b.rateLimit,
		RuleStat:             &agdtest.RuleStat{OnCollect: func(context.Context, filter.ID, filter.RuleText) {}},
		MetricsNamespace:     "verif",
		FilteringGroups:      map[agd.FilteringGroupID]*agd.FilteringGroup{"default": fltGrp},
		ServerGroups:         srvGrps,
		EDEEnabled:           c.Filters.EDEEnabled,
	}
}

// exSockets starts the real dnssvc.Service (a plain-DNS and a DoQ listener built
// by dnssvc.NewListener from the converted configuration, with the configured
// connection limiter and socket options) on loopback and sends one UDP query,
// two pipelined TCP queries and one DoQ query.  There is exactly one stream
// listener: how many listeners a connection limit can serve is a relation
// between connection_limit and the bind addresses of the server groups which
// the documentation only recommends ("resume should be greater than the number
// of bound addresses") and which is not part of this check.
func (e *c20Env) exSockets(
	c *configuration,
	b *builder,
	handlers dnssvc.Handlers,
	srvGrps []*agd.ServerGroup,
	errColl *c20ErrColl,
	wait time.Duration,
) (unsafe []string) {
	ctx := context.Background()
	lsnrs := map[string]dnssvc.Listener{}
	var svc *dnssvc.Service
	started := false
	u := ""
	// The ports were free a moment ago (c20FreeAddr); should one have been
	// taken since, starting fails, which is the environment's doing.
	for attempt := 0; attempt < 1; attempt++ {
		u = c20Recover("starting the DNS service", func() {
			var err error
			svc, err = dnssvc.New(&dnssvc.Config{
				Handlers: handlers,
				NewListener: func(s *agd.Server, bc dnsserver.ConfigBase, nonDNS http.Handler) (l dnssvc.Listener, err error) {
					l, err = dnssvc.NewListener(s, bc, nonDNS)
					if err == nil {
						lsnrs[string(s.Name)] = l
					}
					return l, err
				},
				Cloner:           b.cloner,
				ControlConf:      b.controlConf,
				ConnLimiter:      b.connLimit,
				ErrColl:          errColl,
				NonDNS:           http.NotFoundHandler(),
				MetricsNamespace: "verif",
				ServerGroups:     srvGrps,
				HandleTimeout:    c.DNS.HandleTimeout.Duration,
			})
			if err != nil {
				panic(fmt.Errorf("dnssvc.New: %w", err))
			}
			if err = svc.Start(ctx); err != nil {
				panic(fmt.Errorf("start: %w", err))
			}
			started = true
		})
		if strings.Contains(u, "address already in use") {
			sctx, cancel := context.WithTimeout(ctx, time.Second)
			_ = c20Recover("shutdown", func() { _ = svc.Shutdown(sctx) })
			cancel()
			return []string{"environment: " + u}
		}
	}
	defer func() {
		if svc != nil && started {
			sctx, cancel := context.WithTimeout(ctx, 3*time.Second)
			_ = svc.Shutdown(sctx)
			cancel()
		}
	}()
	if u != "" {
		return []string{u}
	}
	if a, b := lsnrs["verif_dns"], lsnrs["verif_doq"]; a != nil && b != nil {
		if pa, pb := a.LocalUDPAddr().(*net.UDPAddr), b.LocalUDPAddr().(*net.UDPAddr); pa != nil && pb != nil && pa.Port == pb.Port {
			return []string{"environment: both UDP listeners were given port " + strconv.Itoa(pa.Port)}
		}
	}
	// UDP
	if l := lsnrs["verif_dns"]; l != nil {
		if err := c20UDPQuery(l.LocalUDPAddr().String(), wait); err != nil {
			unsafe = append(unsafe, "unserviceable: UDP query to the plain-DNS server: "+err.Error())
		}
		if err := c20TCPQueries(l.LocalTCPAddr().String(), wait, nil); err != nil {
			unsafe = append(unsafe, "unserviceable: two pipelined TCP queries to the plain-DNS server: "+err.Error())
		}
	}
	if l := lsnrs["verif_doq"]; l != nil {
		qTLS := e.tlsSrv.Clone()
		qTLS.NextProtos = append([]string{}, dnsserver.NextProtoDoQ...)
		if err := c20QUICQuery(l.LocalUDPAddr().String(), wait, qTLS); err != nil {
			unsafe = append(unsafe, "unserviceable: DoQ query: "+err.Error())
		}
	}
	unsafe = append(unsafe, errColl.panics()...)
	return unsafe
}

func c20UDPQuery(addr string, wait time.Duration) (err error) {
	conn, err := net.Dial("udp", addr)
	if err != nil {
		return err
	}
	defer conn.Close()
	req := c20Msg("small.example.", dns.TypeA, nil)
	b, _ := req.Pack()
	buf := make([]byte, 65535)
	deadline := time.Now().Add(wait)
	// a datagram may be lost on a loaded machine: resend every 500 ms
	for time.Now().Before(deadline) {
		if _, err = conn.Write(b); err != nil {
			return err
		}
		_ = conn.SetReadDeadline(time.Now().Add(500 * time.Millisecond))
		var n int
		n, err = conn.Read(buf)
		if err == nil {
			resp := &dns.Msg{}
			if err = resp.Unpack(buf[:n]); err != nil {
				return err
			}
			if resp.Id != req.Id {
				return fmt.Errorf("answer with another id")
			}
			return nil
		}
	}
	return fmt.Errorf("no answer within %s: %w", wait, err)
}

func c20TCPQueries(addr string, wait time.Duration, tlsConf *tls.Config) (err error) {
	var conn net.Conn
	d := &net.Dialer{Timeout: wait}
	if tlsConf != nil {
		conn, err = tls.DialWithDialer(d, "tcp", addr, tlsConf)
	} else {
		conn, err = d.Dial("tcp", addr)
	}
	if err != nil {
		return err
	}
	defer conn.Close()
	_ = conn.SetDeadline(time.Now().Add(wait))
	var out []byte
	ids := map[uint16]bool{}
	for _, name := range []string{"small.example.", "big.example."} {
		req := c20Msg(name, dns.TypeA, nil)
		ids[req.Id] = true
		b, _ := req.Pack()
		out = binary.BigEndian.AppendUint16(out, uint16(len(b)))
		out = append(out, b...)
	}
	if _, err = conn.Write(out); err != nil {
		return err
	}
	for i := 0; i < 2; i++ {
		var l [2]byte
		if _, err = io.ReadFull(conn, l[:]); err != nil {
			return fmt.Errorf("answer %d: %w", i+1, err)
		}
		buf := make([]byte, binary.BigEndian.Uint16(l[:]))
		if _, err = io.ReadFull(conn, buf); err != nil {
			return fmt.Errorf("answer %d: %w", i+1, err)
		}
		resp := &dns.Msg{}
		if err = resp.Unpack(buf); err != nil {
			return err
		}
		if !ids[resp.Id] {
			return fmt.Errorf("answer with an unknown id")
		}
	}
	return nil
}

func c20QUICQuery(addr string, wait time.Duration, tlsConf *tls.Config) (err error) {
	ctx, cancel := context.WithTimeout(context.Background(), wait)
	defer cancel()
	conn, err := quic.DialAddr(ctx, addr, tlsConf, nil)
	if err != nil {
		return fmt.Errorf("dial: %w", err)
	}
	defer func() { _ = conn.CloseWithError(0, "") }()
	stream, err := conn.OpenStreamSync(ctx)
	if err != nil {
		return fmt.Errorf("opening a stream: %w", err)
	}
	_ = stream.SetDeadline(time.Now().Add(wait))
	req := c20Msg("small.example.", dns.TypeA, nil)
	req.Id = 0
	b, _ := req.Pack()
	out := binary.BigEndian.AppendUint16(nil, uint16(len(b)))
	out = append(out, b...)
	if _, err = stream.Write(out); err != nil {
		return fmt.Errorf("write: %w", err)
	}
	if err = stream.Close(); err != nil {
		return fmt.Errorf("close: %w", err)
	}
	buf, err := io.ReadAll(stream)
	if err != nil && len(buf) < 2 {
		return fmt.Errorf("read: %w", err)
	}
	if len(buf) < 14 {
		return fmt.Errorf("short answer (%d bytes)", len(buf))
	}
	resp := &dns.Msg{}
	return resp.Unpack(buf[2:])
}

// exFilterStorage runs the real builder.initFilterStorage: filterstorage.New is
// constructed from the configured cache sizes; the initial refresh then fails
// on the unreachable index URL, which is an ordinary error (ignored).
func (e *c20Env) exFilterStorage(c *configuration) (unsafe []string) {
	ctx, cancel := context.WithTimeout(context.Background(), 5*time.Second)
	defer cancel()
	b := newBuilder(&builderConfig{envs: e.envs, conf: c, baseLogger: e.logger, plugins: nil, errColl: &c20ErrColl{}})
	b.promRegisterer = prometheus.NewRegistry()
	u := c20Recover("builder.initFilterStorage", func() {
		var err error
		b.filterMtrc = filter.EmptyMetrics{}
		err = b.initFilterStorage(ctx)
		_ = err
	})
	if u != "" {
		unsafe = append(unsafe, u)
	}
	return unsafe
}

// exUpstream: upstreamConfig.toInternal -> forward.NewHandler and the
// healthcheck refresher constructor.
func (e *c20Env) exUpstream(c *configuration) (unsafe []string) {
	oldReg, oldGath := prometheus.DefaultRegisterer, prometheus.DefaultGatherer
	reg := prometheus.NewRegistry()
	prometheus.DefaultRegisterer, prometheus.DefaultGatherer = reg, reg
	defer func() { prometheus.DefaultRegisterer, prometheus.DefaultGatherer = oldReg, oldGath }()
	u := c20Recover("forward.NewHandler / newUpstreamHealthcheck", func() {
		h := forward.NewHandler(c.Upstream.toInternal(e.logger))
		_ = newUpstreamHealthcheck(e.logger, h, c.Upstream, &c20ErrColl{})
	})
	if u != "" {
		unsafe = append(unsafe, u)
	}
	return unsafe
}

// ---------------------------------------------------------------- the test

func TestVerifC20(t *testing.T) {
	out := vhOpen(t)
	e := c20Setup(t)
	for i := range c20Fields {
		if _, ok := e.yaml.at[c20Fields[i].Path]; !ok {
			t.Fatalf("field %s not found in config.dist.yaml", c20Fields[i].Path)
		}
	}
	id := 0
	emit := func(abs []c20Abs) {
		id++
		ev := e.run(id, abs)
		out.Emit(ev)
	}
	// the distributed example itself
	emit(nil)
	// every section (mapping) of the example missing: set to null, or removed with everything below it.
	// Whatever the verdict, it must be a verdict (accepted, or rejected naming the section), not a crash.
	// (control of the child-process set-up: a file that is rejected for a value in a section that IS there
	// must get as far as the validation of the file and be answered with the name of that value)
	ctl := strings.Replace(strings.Join(e.yaml.lines, "\n")+"\n", "handle_timeout: ", "handle_timeout: 0s # ", 1)
	if werr := os.WriteFile(e.envs.ConfPath, []byte(ctl), 0o600); werr != nil {
		t.Fatal(werr)
	}
	if outp, exited := c20RunMain(t, e.envs.ConfPath); !exited || !strings.Contains(outp, "handle_timeout") {
		t.Fatalf("control run of cmd.Main did not reach the validation of the file: exited=%v %s", exited, c20Head(outp, 800))
	}
	for _, sec := range e.yaml.sections() {
		for _, mode := range []string{"null", "removed"} {
			id++
			out.Emit(e.runSection(id, sec, mode))
		}
	}
	for _, keep := range [][]string{{"dns"}, {"dns", "dnscrypt"}, {"dnscrypt"}, {"tls"}, {"dns", "https", "quic"}, {"dns", "tls", "https", "quic", "dnscrypt"}} {
		for _, tlsMode := range []string{"kept", "removed"} {
			id++
			out.Emit(e.runServers(id, keep, tlsMode))
		}
	}
	// Replay / focus mode: VERIF_C20_FOCUS="field=class[:value],field=class" runs
	// only that vector, VERIF_N times.
	if focus := os.Getenv("VERIF_C20_FOCUS"); focus != "" {
		var abs []c20Abs
		e.force = map[string]string{}
		for _, it := range strings.Split(focus, ",") {
			fc := strings.SplitN(it, "=", 2)
			f := c20FieldByPath[fc[0]]
			if f == nil || len(fc) != 2 {
				t.Fatalf("bad focus item %q", it)
			}
			cv := strings.SplitN(fc[1], ":", 2)
			if len(cv) == 2 {
				e.force[f.Path] = cv[1]
			}
			abs = append(abs, c20Abs{f, cv[0]})
		}
		for n := 0; n < vhEnvInt("VERIF_N", 1); n++ {
			emit(abs)
		}
		return
	}
	// every field in every class, several concretisations each
	reps := vhEnvInt("VERIF_REPS", 2)
	var singles []c20Abs
	for i := range c20Fields {
		f := &c20Fields[i]
		for _, cl := range c20Classes(f) {
			singles = append(singles, c20Abs{f, cl})
			n := reps
			if f.Fixed || f.Kind == "enum" {
				n = 1
			}
			for r := 0; r < n; r++ {
				emit([]c20Abs{{f, cl}})
			}
		}
	}
	// pairs: the cross-constrained groups completely, the rest seeded
	groups := [][]string{
		{"ratelimit/connection_limit/stop", "ratelimit/connection_limit/resume"},
		{"cache/type", "cache/size", "cache/ecs_size"},
		{"check/kv/type", "check/kv/ttl"},
		{"server_groups/0/ddr/public_records/dns.example.com/https_port",
			"server_groups/0/ddr/public_records/dns.example.com/tls_port",
			"server_groups/0/ddr/public_records/dns.example.com/quic_port"},
		{"ratelimit/ipv4/count", "ratelimit/ipv4/subnet_key_len"},
		{"ratelimit/response_size_estimate", "ratelimit/ipv6/subnet_key_len"},
	}
	for _, g := range groups {
		for a := 0; a < len(g); a++ {
			for b := a + 1; b < len(g); b++ {
				fa, fb := c20FieldByPath[g[a]], c20FieldByPath[g[b]]
				for _, ca := range c20Classes(fa) {
					for _, cb := range c20Classes(fb) {
						emit([]c20Abs{{fa, ca}, {fb, cb}})
					}
				}
			}
		}
	}
	// a triple for the cache group: type ecs with every size combination
	{
		ft, fs, fe := c20FieldByPath["cache/type"], c20FieldByPath["cache/size"], c20FieldByPath["cache/ecs_size"]
		for _, cs := range c20Classes(fs) {
			for _, ce := range c20Classes(fe) {
				emit([]c20Abs{{ft, "ecs"}, {fs, cs}, {fe, ce}})
			}
		}
	}
	if vhThorough() {
		// every pair of (field, class) cells: the same product TLC enumerates
		inGroup := func(a, b string) bool {
			for _, g := range groups {
				na, nb := false, false
				for _, x := range g {
					na = na || x == a
					nb = nb || x == b
				}
				if na && nb {
					return true
				}
			}
			return false
		}
		for i := range c20Fields {
			for j := i + 1; j < len(c20Fields); j++ {
				fa, fb := &c20Fields[i], &c20Fields[j]
				if inGroup(fa.Path, fb.Path) {
					continue
				}
				for _, ca := range c20Classes(fa) {
					for _, cb := range c20Classes(fb) {
						emit([]c20Abs{{fa, ca}, {fb, cb}})
					}
				}
			}
		}
	}
	// seeded pairs (in the thorough tier: further concretisations)
	budget := vhEnvInt("VERIF_N", 2000)
	for n := 0; n < budget; n++ {
		a := singles[e.rng.Intn(len(singles))]
		b := singles[e.rng.Intn(len(singles))]
		if a.F == b.F {
			continue
		}
		emit([]c20Abs{a, b})
	}
	runtime.GC()
}
