//go:build verif

package backendpb

// C14, backend leg: the real backendpb.ProfileStorage (gRPC client, trailer
// handling, protobuf -> internal conversion of profile.go / device.go) feeding
// the real profiledb.Default, against an in-process DNSService that follows the
// synchronisation protocol the repository relies upon:
//
//   - a request whose sync_time is the zero time (anything before the year 2000)
//     is a FULL synchronisation: every live profile with all its devices, never a
//     deleted one (see the comment in profiledb.setProfiles);
//   - any other request is INCREMENTAL: the profiles changed after that moment;
//     a changed profile that is deleted is sent with deleted=true, either as a
//     bare tombstone (as in backendpb's own "deleted" unit test) or with its
//     devices (as the stepper of c14_test.go assumes) -- alternating between histories;
//   - the trailer "sync_time" always carries the backend's current time in
//     milliseconds, also when nothing was streamed.
//
// The harness owns profiledb's clock (VerifNow) and its clean-up goroutines
// (VerifGo), both installed by the overlay of tools/checks/c14.py.  Whether a
// refresh ought to be full or incremental follows from the harness's own
// bookkeeping of the virtual time.  After every sync (and look-up / clean-up
// step) all four look-ups are probed for the whole key universe and compared
// with a map-based reference of the records a correct sync of the SCHEDULED kind
// delivers; every request the server saw is recorded.  TLC (TraceProfileSync.tla)
// judges the lines.
//
// The file only builds together with the overlay of c14.py (it sets
// profiledb.VerifNow / profiledb.VerifGo): go_harness(..., files=["c14pb_test.go"],
// rewrites=overlay(c)).

import (
	"context"
	"fmt"
	"math/rand"
	"net"
	"net/netip"
	"net/url"
	"sort"
	"strconv"
	"strings"
	"sync"
	"testing"
	"time"

	"github.com/AdguardTeam/AdGuardDNS/internal/access"
	"github.com/AdguardTeam/AdGuardDNS/internal/agd"
	"github.com/AdguardTeam/AdGuardDNS/internal/agdpasswd"
	"github.com/AdguardTeam/AdGuardDNS/internal/dnsmsg"
	"github.com/AdguardTeam/AdGuardDNS/internal/filter"
	"github.com/AdguardTeam/AdGuardDNS/internal/profiledb"
	"github.com/AdguardTeam/golibs/logutil/slogutil"
	"github.com/AdguardTeam/golibs/netutil"
	"github.com/c2h5oh/datasize"
	"google.golang.org/grpc"
	"google.golang.org/grpc/credentials/insecure"
	"google.golang.org/grpc/metadata"
	"google.golang.org/protobuf/types/known/durationpb"
)

var (
	c14pbProfs  = []string{"p1", "p2", "p3", "p4"}
	c14pbDevs   = []string{"d1", "d2", "d3", "d4", "d5", "d6"}
	c14pbLKeys  = []string{"i1", "i2", "i3", "i4"}
	c14pbLinked = map[string]netip.Addr{
		"i1": netip.MustParseAddr("192.0.2.1"),
		"i2": netip.MustParseAddr("2001:db8::2"),
		"i3": netip.MustParseAddr("192.0.2.3"),
		"i4": netip.MustParseAddr("::ffff:192.0.2.4"), // 16 bytes on the wire: stays an IPv4-mapped address
	}
	c14pbDKeys = []string{"e1", "e2", "e3", "e4"}
	c14pbDed   = map[string]netip.Addr{
		"e1": netip.MustParseAddr("198.51.100.1"),
		"e2": netip.MustParseAddr("198.51.100.2"),
		"e3": netip.MustParseAddr("2001:db8:de::3"),
		"e4": netip.MustParseAddr("198.51.100.4"),
	}
	c14pbHumans = []string{"h1", "h2", "h3"}
	c14pbBind   = netutil.SliceSubnetSet{netip.MustParsePrefix("198.51.100.0/24"), netip.MustParsePrefix("2001:db8:de::/48")}
	c14pbBase   = time.Unix(1_760_000_000, 0)
	c14pbY2000  = time.Date(2000, 1, 1, 0, 0, 0, 0, time.UTC)
)

// ---------------------------------------------------------------- settings

// c14pbPS are the settings of a backend profile in plain values; the protobuf
// message and the expected digest are both derived from it, independently.
type c14pbPS struct {
	flt, ql, ipl, bpr, bfc, bcp bool
	bm                          int // 0 unset, 1 null ip, 2 nxdomain, 3 refused, 4 custom v4, 5 custom v4+v6, 6 custom v6
	ttl                         int // seconds, 0: field absent
	acc                         *c14pbAcc
	rl                          *c14pbRL
	par                         *c14pbPar
	sb                          *[3]bool
	lists                       *c14pbLists
	custom                      []string
}

type c14pbAcc struct {
	enabled          bool
	allow, block     []string
	allowASN, blkASN []uint32
	rules            []string
	// junk: the backend's allow-list also holds entries whose address is neither 4 nor 16 bytes long;
	// they are reported and skipped, and change nothing about the other entries of either list
	junk int
}

type c14pbRL struct {
	enabled bool
	rps     uint32
	nets    []string
}

type c14pbPar struct {
	enabled, adult, gss, yss bool
	svcs                     []string
	sched                    bool
}

type c14pbLists struct {
	enabled bool
	ids     []string
}

func c14pbSettings(p string, salt int) (s c14pbPS) {
	r := rand.New(rand.NewSource(int64(salt)*131 + int64(p[1])))
	b := func() bool { return r.Intn(2) == 0 }
	s.flt, s.ql, s.ipl, s.bpr, s.bfc, s.bcp = b(), b(), b(), b(), b(), b()
	s.bm = r.Intn(7)
	if r.Intn(4) > 0 {
		s.ttl = 1 + r.Intn(3600)
	}
	if r.Intn(4) > 0 {
		s.acc = &c14pbAcc{
			enabled:  r.Intn(4) > 0,
			allow:    [][]string{{"10.0.0.0/8"}, {"192.0.2.7/32", "2001:db8::7/128"}, nil}[r.Intn(3)],
			block:    [][]string{{"2.2.2.0/24"}, {"0.0.0.0/0", "::/0"}, {"203.0.113.9/32", "2.0.0.0/7"}}[r.Intn(3)],
			allowASN: []uint32{uint32(1 + r.Intn(100))},
			blkASN:   [][]uint32{{2}, {65535, 65536}, {4294967295}, nil}[r.Intn(4)],
			rules:    []string{fmt.Sprintf("block%d.test", r.Intn(10))},
			junk:     []int{0, 0, 1, 2}[r.Intn(4)],
		}
	}
	if r.Intn(3) > 0 {
		s.rl = &c14pbRL{
			enabled: r.Intn(4) > 0,
			rps:     uint32(1 + r.Intn(500)),
			nets:    [][]string{{"5.5.5.0/24"}, {"0.0.0.0/0"}, {"2001:db8:5::/48", "5.5.5.5/32"}, nil}[r.Intn(4)],
		}
	}
	if r.Intn(4) > 0 {
		s.par = &c14pbPar{enabled: b(), adult: b(), gss: b(), yss: b(), sched: r.Intn(3) == 0}
		if r.Intn(2) == 0 {
			s.par.svcs = []string{fmt.Sprintf("svc%d", r.Intn(5)), "youtube"}
		}
	}
	if r.Intn(4) > 0 {
		s.sb = &[3]bool{b(), b(), b()}
	}
	if r.Intn(4) > 0 {
		s.lists = &c14pbLists{enabled: b(), ids: []string{fmt.Sprintf("list_%d", r.Intn(5)), "adguard_dns_filter"}[:1+r.Intn(2)]}
	}
	if r.Intn(2) == 0 {
		s.custom = []string{fmt.Sprintf("||custom%d.example^", r.Intn(10)), "@@||allowed.example^"}[:1+r.Intn(2)]
	}
	return s
}

func c14pbCIDRs(ss []string) (out []*CidrRange) {
	for _, s := range ss {
		pr := netip.MustParsePrefix(s)
		out = append(out, &CidrRange{Address: pr.Addr().AsSlice(), Prefix: uint32(pr.Bits())})
	}
	return out
}

func c14pbList(ss []string) string { return "[" + strings.Join(ss, " ") + "]" }

// pb renders the settings as the backend sends them.
func (s c14pbPS) pb(p string, deleted bool, devs []*DeviceSettings) *DNSProfile {
	m := &DNSProfile{
		DnsId: p, FilteringEnabled: s.flt, QueryLogEnabled: s.ql, IpLogEnabled: s.ipl, BlockPrivateRelay: s.bpr,
		BlockFirefoxCanary: s.bfc, BlockChromePrefetch: s.bcp, Deleted: deleted, Devices: devs, CustomRules: s.custom,
	}
	switch s.bm {
	case 1:
		m.BlockingMode = &DNSProfile_BlockingModeNullIp{BlockingModeNullIp: &BlockingModeNullIP{}}
	case 2:
		m.BlockingMode = &DNSProfile_BlockingModeNxdomain{BlockingModeNxdomain: &BlockingModeNXDOMAIN{}}
	case 3:
		m.BlockingMode = &DNSProfile_BlockingModeRefused{BlockingModeRefused: &BlockingModeREFUSED{}}
	case 4:
		m.BlockingMode = &DNSProfile_BlockingModeCustomIp{BlockingModeCustomIp: &BlockingModeCustomIP{Ipv4: []byte{10, 0, 0, 1}}}
	case 5:
		m.BlockingMode = &DNSProfile_BlockingModeCustomIp{BlockingModeCustomIp: &BlockingModeCustomIP{Ipv4: []byte{10, 0, 0, 2},
			Ipv6: netip.MustParseAddr("fd00::1").AsSlice()}}
	case 6:
		m.BlockingMode = &DNSProfile_BlockingModeCustomIp{BlockingModeCustomIp: &BlockingModeCustomIP{
			Ipv6: netip.MustParseAddr("fd00::2").AsSlice()}}
	}
	if s.ttl > 0 {
		m.FilteredResponseTtl = durationpb.New(time.Duration(s.ttl) * time.Second)
	}
	if a := s.acc; a != nil {
		m.Access = &AccessSettings{Enabled: a.enabled, AllowlistCidr: c14pbCIDRs(a.allow), BlocklistCidr: c14pbCIDRs(a.block),
			AllowlistAsn: a.allowASN, BlocklistAsn: a.blkASN, BlocklistDomainRules: a.rules}
		for i := 0; i < a.junk; i++ {
			m.Access.AllowlistCidr = append([]*CidrRange{{Address: []byte{1, 2, byte(3 + i)}, Prefix: 24}}, m.Access.AllowlistCidr...)
		}
	}
	if r := s.rl; r != nil {
		m.RateLimit = &RateLimitSettings{Enabled: r.enabled, Rps: r.rps, ClientCidr: c14pbCIDRs(r.nets)}
	}
	if pa := s.par; pa != nil {
		m.Parental = &ParentalSettings{Enabled: pa.enabled, BlockAdult: pa.adult, GeneralSafeSearch: pa.gss,
			YoutubeSafeSearch: pa.yss, BlockedServices: pa.svcs}
		if pa.sched {
			m.Parental.Schedule = &ScheduleSettings{Tmz: "UTC", WeeklyRange: &WeeklyRange{
				Mon: &DayRange{Start: durationpb.New(0), End: durationpb.New(59 * time.Minute)},
				Sat: &DayRange{Start: durationpb.New(8 * time.Hour), End: durationpb.New(17*time.Hour + 59*time.Minute)},
			}}
		}
	}
	if s.sb != nil {
		m.SafeBrowsing = &SafeBrowsingSettings{Enabled: s.sb[0], BlockDangerousDomains: s.sb[1], BlockNrd: s.sb[2]}
	}
	if s.lists != nil {
		m.RuleLists = &RuleListsSettings{Enabled: s.lists.enabled, Ids: s.lists.ids}
	}
	return m
}

// want is the digest a correct conversion of these settings has (same format
// as c14pbObsProf, written from the plain values).
func (s c14pbPS) want(p string, devs []string) string {
	var b strings.Builder
	fmt.Fprintf(&b, "flt=%t ql=%t ipl=%t bpr=%t bfc=%t bcp=%t auto=false ttl=%ds", s.flt, s.ql, s.ipl, s.bpr, s.bfc, s.bcp, s.ttl)
	b.WriteString(" bm=" + []string{"null", "null", "nx", "refused", "custom[10.0.0.1][]", "custom[10.0.0.2][fd00::1]", "custom[][fd00::2]"}[s.bm])
	if a := s.acc; a == nil || !a.enabled {
		b.WriteString(" acc=off")
	} else {
		fmt.Fprintf(&b, " acc=allow=%s block=%s aasn=%v basn=%v rules=%s", c14pbList(a.allow), c14pbList(a.block),
			append([]uint32{}, a.allowASN...), append([]uint32{}, a.blkASN...), c14pbList(a.rules))
	}
	if r := s.rl; r == nil || !r.enabled {
		b.WriteString(" rl=global")
	} else {
		fmt.Fprintf(&b, " rl=rps=%d nets=%s", r.rps, c14pbList(r.nets))
	}
	fmt.Fprintf(&b, " custom=%s/%t/%s", p, len(s.custom) > 0, c14pbList(s.custom))
	if pa := s.par; pa == nil {
		b.WriteString(" par=false/false/false/false svcs=[] sched=none")
	} else {
		fmt.Fprintf(&b, " par=%t/%t/%t/%t svcs=%s", pa.enabled, pa.adult, pa.gss, pa.yss, c14pbList(pa.svcs))
		if pa.sched {
			b.WriteString(" sched=UTC[- 0-60 - - - - 480-1080]")
		} else {
			b.WriteString(" sched=none")
		}
	}
	if s.lists == nil {
		b.WriteString(" lists=false/[]")
	} else {
		fmt.Fprintf(&b, " lists=%t/%s", s.lists.enabled, c14pbList(s.lists.ids))
	}
	if s.sb == nil {
		b.WriteString(" sb=false/false/false")
	} else {
		fmt.Fprintf(&b, " sb=%t/%t/%t", s.sb[0], s.sb[1], s.sb[2])
	}
	b.WriteString(" devs=" + c14pbList(devs))
	return b.String()
}

// c14pbObsProf is the digest of a profile as the database returned it.
func c14pbObsProf(p *agd.Profile) string {
	var b strings.Builder
	fmt.Fprintf(&b, "flt=%t ql=%t ipl=%t bpr=%t bfc=%t bcp=%t auto=%t ttl=%ds", p.FilteringEnabled, p.QueryLogEnabled,
		p.IPLogEnabled, p.BlockPrivateRelay, p.BlockFirefoxCanary, p.BlockChromePrefetch, p.AutoDevicesEnabled,
		int(p.FilteredResponseTTL/time.Second))
	switch m := p.BlockingMode.(type) {
	case *dnsmsg.BlockingModeNullIP:
		b.WriteString(" bm=null")
	case *dnsmsg.BlockingModeNXDOMAIN:
		b.WriteString(" bm=nx")
	case *dnsmsg.BlockingModeREFUSED:
		b.WriteString(" bm=refused")
	case *dnsmsg.BlockingModeCustomIP:
		fmt.Fprintf(&b, " bm=custom%v%v", append([]netip.Addr{}, m.IPv4...), append([]netip.Addr{}, m.IPv6...))
	default:
		fmt.Fprintf(&b, " bm=%T", m)
	}
	switch a := p.Access.(type) {
	case access.EmptyProfile:
		b.WriteString(" acc=off")
	case *access.DefaultProfile:
		c := a.Config()
		fmt.Fprintf(&b, " acc=allow=%v block=%v aasn=%v basn=%v rules=%v", c.AllowedNets, c.BlockedNets, c.AllowedASN,
			c.BlockedASN, c.BlocklistDomainRules)
	default:
		fmt.Fprintf(&b, " acc=%T", a)
	}
	switch r := p.Ratelimiter.(type) {
	case agd.GlobalRatelimiter:
		b.WriteString(" rl=global")
	case *agd.DefaultRatelimiter:
		c := r.Config()
		fmt.Fprintf(&b, " rl=rps=%d nets=%v", c.RPS, append([]netip.Prefix{}, c.ClientSubnets...))
	default:
		fmt.Fprintf(&b, " rl=%T", r)
	}
	fc := p.FilterConfig
	if fc == nil || fc.Custom == nil || fc.Parental == nil || fc.RuleList == nil || fc.SafeBrowsing == nil {
		b.WriteString(" filter-config incomplete")
		return b.String()
	}
	fmt.Fprintf(&b, " custom=%s/%t/%v", fc.Custom.ID, fc.Custom.Enabled, append([]string{}, c14pbStrs(fc.Custom.Rules)...))
	pa := fc.Parental
	fmt.Fprintf(&b, " par=%t/%t/%t/%t svcs=%v", pa.Enabled, pa.AdultBlockingEnabled, pa.SafeSearchGeneralEnabled,
		pa.SafeSearchYouTubeEnabled, c14pbStrs(pa.BlockedServices))
	if sc := pa.PauseSchedule; sc == nil {
		b.WriteString(" sched=none")
	} else {
		var days []string
		if sc.Week == nil {
			sc = &filter.ConfigSchedule{Week: &filter.WeeklySchedule{}, TimeZone: sc.TimeZone}
			days = append(days, "nil-week")
		}
		for _, d := range sc.Week {
			if d == nil {
				days = append(days, "-")
			} else {
				days = append(days, fmt.Sprintf("%d-%d", d.Start, d.End))
			}
		}
		tz := "nil"
		if sc.TimeZone != nil {
			tz = sc.TimeZone.Location.String()
		}
		b.WriteString(" sched=" + tz + c14pbList(days))
	}
	fmt.Fprintf(&b, " lists=%t/%v", fc.RuleList.Enabled, c14pbStrs(fc.RuleList.IDs))
	fmt.Fprintf(&b, " sb=%t/%t/%t", fc.SafeBrowsing.Enabled, fc.SafeBrowsing.DangerousDomainsEnabled,
		fc.SafeBrowsing.NewlyRegisteredDomainsEnabled)
	var devs []string
	for _, id := range p.DeviceIDs {
		devs = append(devs, string(id))
	}
	sort.Strings(devs)
	b.WriteString(" devs=" + c14pbList(devs))
	return b.String()
}

func c14pbStrs[T ~string](in []T) []string {
	out := []string{}
	for _, s := range in {
		out = append(out, string(s))
	}
	return out
}

// ---------------------------------------------------------------- backend truth

type c14pbTDev struct {
	linked string // "" or a key of c14pbLinked
	ded    map[string]bool
	human  string // "" or a human id
	salt   int
}

type c14pbTProf struct {
	devs      map[string]bool
	deleted   bool
	salt      int
	changedMs int64
}

type c14pbReq struct {
	full                     bool
	reqMs, trailerMs         int64
	isPrev                   bool
	nStreamed, nDel, nDevice int
}

type c14pbBackend struct {
	UnimplementedDNSServiceServer
	mu          sync.Mutex
	prof        map[string]*c14pbTProf
	dev         map[string]*c14pbTDev
	nowMs       int64
	lastTrailer int64
	tombDevs    bool
	reqs        []c14pbReq
	order       *rand.Rand
}

func (b *c14pbBackend) devAttrs(d string) (name string, flt bool, auth int, dohOnly bool, hash string) {
	r := rand.New(rand.NewSource(int64(b.dev[d].salt)*17 + int64(d[1])))
	return fmt.Sprintf("Name of %s #%d", d, r.Intn(100)), r.Intn(2) == 0, r.Intn(3), r.Intn(2) == 0, fmt.Sprintf("$2a$04$hash%d", r.Intn(9))
}

func (b *c14pbBackend) devPB(d string) *DeviceSettings {
	td := b.dev[d]
	name, flt, auth, dohOnly, hash := b.devAttrs(d)
	m := &DeviceSettings{Id: d, Name: name, FilteringEnabled: flt, HumanIdLower: td.human}
	if td.linked != "" {
		m.LinkedIp, _ = c14pbLinked[td.linked].MarshalBinary()
	}
	for _, k := range c14pbDKeys {
		if td.ded[k] {
			m.DedicatedIps = append(m.DedicatedIps, c14pbDed[k].AsSlice())
		}
	}
	switch auth {
	case 1:
		m.Authentication = &AuthenticationSettings{DohAuthOnly: dohOnly}
	case 2:
		m.Authentication = &AuthenticationSettings{DohAuthOnly: dohOnly,
			DohPasswordHash: &AuthenticationSettings_PasswordHashBcrypt{PasswordHashBcrypt: []byte(hash)}}
	}
	return m
}

func (b *c14pbBackend) devWant(d string) string {
	td := b.dev[d]
	name, flt, auth, dohOnly, hash := b.devAttrs(d)
	a := "false/false/allow"
	switch auth {
	case 1:
		a = fmt.Sprintf("true/%t/allow", dohOnly)
	case 2:
		a = fmt.Sprintf("true/%t/bcrypt:%s", dohOnly, hash)
	}
	linked := "none"
	if td.linked != "" {
		linked = c14pbLinked[td.linked].String()
	}
	var ded []string
	for _, k := range c14pbDKeys {
		if td.ded[k] {
			ded = append(ded, c14pbDed[k].String())
		}
	}
	sort.Strings(ded)
	return fmt.Sprintf("name=%q flt=%t auth=%s linked=%s ded=%s human=%q", name, flt, a, linked, c14pbList(ded), td.human)
}

func c14pbObsDev(d *agd.Device) string {
	a := "nil"
	if d.Auth != nil {
		h := fmt.Sprintf("%T", d.Auth.PasswordHash)
		switch ph := d.Auth.PasswordHash.(type) {
		case agdpasswd.AllowAuthenticator:
			h = "allow"
		case *agdpasswd.PasswordHashBcrypt:
			h = "bcrypt:" + string(ph.PasswordHash())
		}
		a = fmt.Sprintf("%t/%t/%s", d.Auth.Enabled, d.Auth.DoHAuthOnly, h)
	}
	linked := "none"
	if d.LinkedIP != (netip.Addr{}) {
		linked = d.LinkedIP.String()
	}
	var ded []string
	for _, x := range d.DedicatedIPs {
		ded = append(ded, x.String())
	}
	sort.Strings(ded)
	return fmt.Sprintf("name=%q flt=%t auth=%s linked=%s ded=%s human=%q", string(d.Name), d.FilteringEnabled, a, linked,
		c14pbList(ded), string(d.HumanIDLower))
}

func (b *c14pbBackend) sortedDevs(p string) (ds []string) {
	for _, d := range c14pbDevs {
		if b.prof[p].devs[d] {
			ds = append(ds, d)
		}
	}
	return ds
}

// GetDNSProfiles implements the backend side of the protocol.
func (b *c14pbBackend) GetDNSProfiles(req *DNSProfilesRequest, srv grpc.ServerStreamingServer[DNSProfile]) error {
	b.mu.Lock()
	defer b.mu.Unlock()
	rt := req.GetSyncTime().AsTime()
	r := c14pbReq{full: rt.Before(c14pbY2000), reqMs: -1, trailerMs: b.nowMs}
	if !r.full {
		r.reqMs = rt.UnixMilli()
		r.isPrev = r.reqMs == b.lastTrailer
	}
	// the trailer is set first: it is sent whatever is (or is not) streamed
	srv.SetTrailer(metadata.Pairs("sync_time", strconv.FormatInt(b.nowMs, 10)))
	ps := append([]string{}, c14pbProfs...)
	b.order.Shuffle(len(ps), func(i, j int) { ps[i], ps[j] = ps[j], ps[i] })
	for _, p := range ps {
		tp := b.prof[p]
		if r.full && tp.deleted {
			continue
		} else if !r.full && tp.changedMs <= r.reqMs {
			continue
		}
		var devs []*DeviceSettings
		if !tp.deleted || b.tombDevs {
			ds := b.sortedDevs(p)
			b.order.Shuffle(len(ds), func(i, j int) { ds[i], ds[j] = ds[j], ds[i] })
			for _, d := range ds {
				devs = append(devs, b.devPB(d))
			}
		}
		if err := srv.Send(c14pbSettings(p, tp.salt).pb(p, tp.deleted, devs)); err != nil {
			return err
		}
		r.nStreamed++
		r.nDevice += len(devs)
		if tp.deleted {
			r.nDel++
		}
	}
	b.lastTrailer = b.nowMs
	b.reqs = append(b.reqs, r)
	return nil
}

// ---------------------------------------------------------------- reference

type c14pbRProf struct {
	deleted bool
	devs    map[string]bool
	dig     string
}

type c14pbRDev struct {
	linked, human string
	ded           map[string]bool
	dig           string
}

type c14pbRes struct {
	found   bool
	p, d    string
	deleted bool
	pdig    string
	ddig    string
}

func (r c14pbRes) String() string {
	if !r.found {
		return "not-found"
	}
	return fmt.Sprintf("(%s,%s,deleted=%t)", r.p, r.d, r.deleted)
}

type c14pbRef struct {
	prof map[string]*c14pbRProf
	dev  map[string]*c14pbRDev
}

// deliver records what a correct sync of the scheduled kind hands to the
// database: all live profiles on a full sync (everything else is forgotten),
// the profiles changed since the previous sync otherwise.
func (rf *c14pbRef) deliver(b *c14pbBackend, full bool, dirty map[string]bool) (nprof, ndel int) {
	if full {
		rf.prof, rf.dev = map[string]*c14pbRProf{}, map[string]*c14pbRDev{}
	}
	for _, p := range c14pbProfs {
		tp := b.prof[p]
		if full && tp.deleted || !full && !dirty[p] {
			continue
		}
		nprof++
		rp := &c14pbRProf{deleted: tp.deleted, devs: map[string]bool{}}
		var ds []string
		if !tp.deleted || b.tombDevs {
			ds = b.sortedDevs(p)
		}
		if tp.deleted {
			ndel++
		}
		for _, d := range ds {
			rp.devs[d] = true
			td := b.dev[d]
			rd := &c14pbRDev{linked: td.linked, human: td.human, ded: map[string]bool{}, dig: b.devWant(d)}
			for k := range td.ded {
				rd.ded[k] = true
			}
			rf.dev[d] = rd
		}
		rp.dig = c14pbSettings(p, tp.salt).want(p, ds)
		rf.prof[p] = rp
	}
	return nprof, ndel
}

func (rf *c14pbRef) res(t *testing.T, cands []string, what string) c14pbRes {
	if len(cands) == 0 {
		return c14pbRes{}
	}
	if len(cands) > 1 {
		t.Fatalf("harness: reference is ambiguous for %s: %v", what, cands)
	}
	d := cands[0]
	var owners []string
	for _, p := range c14pbProfs {
		if rp := rf.prof[p]; rp != nil && rp.devs[d] {
			owners = append(owners, p)
		}
	}
	if len(owners) != 1 {
		t.Fatalf("harness: reference has device %s in profiles %v", d, owners)
	}
	rp := rf.prof[owners[0]]
	return c14pbRes{found: true, p: owners[0], d: d, deleted: rp.deleted, pdig: rp.dig, ddig: rf.dev[d].dig}
}

func (rf *c14pbRef) attached(pred func(d string, rd *c14pbRDev) bool) (ds []string) {
	for _, d := range c14pbDevs {
		for _, p := range c14pbProfs {
			if rp := rf.prof[p]; rp != nil && rp.devs[d] && pred(d, rf.dev[d]) {
				ds = append(ds, d)
			}
		}
	}
	return ds
}

// ---------------------------------------------------------------- world

type c14pbErrColl struct{ w *c14pbWorld }

func (c c14pbErrColl) Collect(_ context.Context, err error) {
	c.w.collected = append(c.w.collected, err.Error())
}

type c14pbEvent struct {
	Ev           string   `json:"ev"`
	Hist         int      `json:"hist"`
	Step         int      `json:"step"`
	Op           string   `json:"op"`
	FullExpected bool     `json:"full_expected"`
	ReqFull      bool     `json:"req_full"`
	ReqIsPrev    bool     `json:"req_time_is_prev_trailer"`
	NReq         int      `json:"nreq"`
	ReqRel       int64    `json:"req_rel_ms"`     // request time relative to the harness epoch; -1: zero time (full); -2: no request
	TrailerRel   int64    `json:"trailer_rel_ms"` // -2: no request
	NStreamed    int      `json:"nstreamed"`
	NDelStreamed int      `json:"ndeleted_streamed"`
	NDevStreamed int      `json:"ndevices_streamed"`
	ExpStreamed  int      `json:"exp_streamed"` // what the schedule calls for
	ExpDeleted   int      `json:"exp_deleted"`
	PrevEmpty    bool     `json:"prev_sync_empty"` // the previous sync was an incremental one with nothing to deliver
	ProbesBad    []string `json:"probes_bad"`
	NProbes      int      `json:"nprobes"`
	NFound       int      `json:"nfound"`
	NDelFound    int      `json:"ndeleted_found"`
	Err          string   `json:"err"`
	Collected    []string `json:"collected"`
	TombDevices  bool     `json:"tomb_devices"`
	Cleanups     string   `json:"cleanups"`
	Pending      int      `json:"pending"`
}

type c14pbWorld struct {
	t          *testing.T
	rng        *rand.Rand
	be         *c14pbBackend
	db         *profiledb.Default
	now        time.Time
	hadFull    bool
	lastFullAt time.Time
	prevEmpty  bool
	dirty      map[string]bool
	ref        *c14pbRef
	queue      []func()
	mode       string // eager | lazy | never
	collected  []string
	broken     bool
	// the last delivery of each profile seen through the look-ups, with the update time of its custom rules
	seenProf map[agd.ProfileID]c14pbSeen
}

type c14pbSeen struct {
	p   *agd.Profile
	upd time.Time
}

func (w *c14pbWorld) advance(d time.Duration) {
	// the backend's clock has a millisecond part: the trailer is in milliseconds
	w.now = w.now.Add(d + time.Duration(w.rng.Intn(1000))*time.Millisecond)
	w.be.mu.Lock()
	w.be.nowMs = w.now.UnixMilli()
	w.be.mu.Unlock()
}

func (w *c14pbWorld) touch(ps ...string) {
	for _, p := range ps {
		if p != "" {
			w.be.prof[p].changedMs = w.be.nowMs
			w.be.prof[p].salt++
			w.dirty[p] = true
		}
	}
}

func (w *c14pbWorld) profOf(d string) string {
	for _, p := range c14pbProfs {
		if w.be.prof[p].devs[d] {
			return p
		}
	}
	return ""
}

func (w *c14pbWorld) humanClash(d, p, h string) bool {
	if h == "" {
		return false
	}
	for e := range w.be.prof[p].devs {
		if e != d && w.be.dev[e].human == h {
			return true
		}
	}
	return false
}

func (w *c14pbWorld) pick(ss []string) string { return ss[w.rng.Intn(len(ss))] }

// mutate performs one random backend mutation (guards permitting) and returns
// its description, or "" if the drawn mutation was not applicable.
func (w *c14pbWorld) mutate(preferDelete bool) string {
	w.be.mu.Lock()
	defer w.be.mu.Unlock()
	for i := 0; i < 40; i++ {
		if op := w.mutate1(preferDelete); op != "" {
			return op
		}
	}
	return ""
}

func (w *c14pbWorld) mutate1(preferDelete bool) string {
	b, rng := w.be, w.rng
	d, p := w.pick(c14pbDevs), w.pick(c14pbProfs)
	td := b.dev[d]
	cur := w.profOf(d)
	r := rng.Intn(100)
	if preferDelete && rng.Intn(3) > 0 {
		r = 95
		// a live profile that has devices, if there is one
		for _, q := range rng.Perm(len(c14pbProfs)) {
			if tp := b.prof[c14pbProfs[q]]; !tp.deleted && len(tp.devs) > 0 {
				p = c14pbProfs[q]
				break
			}
		}
	}
	switch {
	case r < 12: // a new device
		if cur != "" {
			return ""
		}
		*td = c14pbTDev{ded: map[string]bool{}, salt: td.salt + 1}
		b.prof[p].devs[d] = true
		w.touch(p)
		return fmt.Sprintf("AddDev %s %s", d, p)
	case r < 19: // the device is removed
		if cur == "" {
			return ""
		}
		delete(b.prof[cur].devs, d)
		*td = c14pbTDev{ded: map[string]bool{}, salt: td.salt + 1}
		w.touch(cur)
		return fmt.Sprintf("RemoveDev %s (was in %s)", d, cur)
	case r < 31:
		if cur == "" || cur == p || w.humanClash(d, p, td.human) {
			return ""
		}
		delete(b.prof[cur].devs, d)
		b.prof[p].devs[d] = true
		w.touch(cur, p)
		return fmt.Sprintf("Move %s %s->%s", d, cur, p)
	case r < 43:
		k := w.pick(append([]string{""}, c14pbLKeys...))
		if cur == "" || td.linked == k {
			return ""
		}
		if k != "" {
			for _, e := range c14pbDevs {
				if e != d && b.dev[e].linked == k {
					b.dev[e].linked = ""
					w.touch(w.profOf(e))
				}
			}
		}
		td.linked = k
		w.touch(cur)
		return fmt.Sprintf("SetLinked %s %q", d, k)
	case r < 49:
		e := w.pick(c14pbDevs)
		pe := w.profOf(e)
		if e == d || cur == "" || pe == "" || td.linked == b.dev[e].linked {
			return ""
		}
		td.linked, b.dev[e].linked = b.dev[e].linked, td.linked
		w.touch(cur, pe)
		return fmt.Sprintf("SwapLinked %s %s", d, e)
	case r < 60:
		k := w.pick(c14pbDKeys)
		if cur == "" {
			return ""
		}
		for _, e := range c14pbDevs {
			if e != d && b.dev[e].ded[k] {
				delete(b.dev[e].ded, k)
				w.touch(w.profOf(e))
			}
		}
		if td.ded[k] {
			delete(td.ded, k)
		} else {
			td.ded[k] = true
		}
		w.touch(cur)
		return fmt.Sprintf("ToggleDed %s %s", d, k)
	case r < 65:
		e := w.pick(c14pbDevs)
		pe := w.profOf(e)
		if e == d || cur == "" || pe == "" || len(td.ded)+len(b.dev[e].ded) == 0 {
			return ""
		}
		td.ded, b.dev[e].ded = b.dev[e].ded, td.ded
		w.touch(cur, pe)
		return fmt.Sprintf("SwapDed %s %s", d, e)
	case r < 76:
		h := w.pick(append([]string{""}, c14pbHumans...))
		if cur == "" || td.human == h || w.humanClash(d, cur, h) {
			return ""
		}
		td.human = h
		w.touch(cur)
		return fmt.Sprintf("SetHuman %s %q", d, h)
	case r < 84:
		w.touch(p)
		return fmt.Sprintf("Settings %s", p)
	case r < 90:
		if cur == "" {
			return ""
		}
		td.salt++
		w.touch(cur)
		return fmt.Sprintf("DevSettings %s", d)
	default: // deletion, or un-deletion
		var gone []string
		for _, q := range c14pbProfs {
			if b.prof[q].deleted {
				gone = append(gone, q)
			}
		}
		if !preferDelete && len(gone) > 0 && rng.Intn(4) < len(gone) {
			p = w.pick(gone) // keep most of the profiles alive most of the time
		}
		tp := b.prof[p]
		tp.deleted = !tp.deleted
		w.touch(p)
		return fmt.Sprintf("SetDeleted %s %t (devices %v)", p, tp.deleted, b.sortedDevs(p))
	}
}

func (w *c14pbWorld) obs(p *agd.Profile, d *agd.Device, err error) c14pbRes {
	if err != nil {
		return c14pbRes{}
	}
	if p == nil || d == nil {
		return c14pbRes{found: true, p: "nil", d: "nil"}
	}
	return c14pbRes{found: true, p: string(p.ID), d: string(d.ID), deleted: p.Deleted, pdig: c14pbObsProf(p), ddig: c14pbObsDev(d)}
}

func c14pbCompare(what string, got, want c14pbRes, bad *[]string) {
	switch {
	case got.found != want.found || got.p != want.p || got.d != want.d || got.deleted != want.deleted:
		*bad = append(*bad, fmt.Sprintf("%s: got %s, the latest synchronised records say %s", what, got, want))
	case got.found && got.pdig != want.pdig:
		*bad = append(*bad, fmt.Sprintf("%s: profile %s converted as {%s}, the backend holds {%s}", what, got.p, got.pdig, want.pdig))
	case got.found && got.ddig != want.ddig:
		*bad = append(*bad, fmt.Sprintf("%s: device %s converted as {%s}, the backend holds {%s}", what, got.d, got.ddig, want.ddig))
	}
}

// probe runs all four look-ups over the whole key universe and compares them
// with the reference.
func (w *c14pbWorld) probe(ev *c14pbEvent) {
	ctx := context.Background()
	bad := []string{}
	rf := w.ref
	count := func(r c14pbRes) {
		ev.NProbes++
		if r.found {
			ev.NFound++
			if r.deleted {
				ev.NDelFound++
			}
		}
	}
	// A profile that is delivered again (a new object) carries its custom rules with an update time that
	// has advanced: the filters compiled from a profile's custom rules are cached by that time, and one
	// that does not advance leaves the filter of the OLD rules in use.
	if w.seenProf == nil {
		w.seenProf = map[agd.ProfileID]c14pbSeen{}
	}
	for _, d := range c14pbDevs {
		p, _, err := w.db.ProfileByDeviceID(ctx, agd.DeviceID(d))
		if err != nil || p == nil || p.FilterConfig == nil || p.FilterConfig.Custom == nil {
			continue
		}
		upd := p.FilterConfig.Custom.UpdateTime
		if prev, ok := w.seenProf[p.ID]; ok && prev.p != p && !upd.After(prev.upd) {
			bad = append(bad, fmt.Sprintf("profile %s was delivered again but the update time of its custom rules did not advance (%s -> %s)",
				p.ID, prev.upd.UTC().Format(time.RFC3339Nano), upd.UTC().Format(time.RFC3339Nano)))
		}
		w.seenProf[p.ID] = c14pbSeen{p: p, upd: upd}
	}
	for _, d := range c14pbDevs {
		got := w.obs(w.db.ProfileByDeviceID(ctx, agd.DeviceID(d)))
		count(got)
		c14pbCompare("device id "+d, got, rf.res(w.t, rf.attached(func(e string, _ *c14pbRDev) bool { return e == d }), d), &bad)
	}
	for _, k := range c14pbLKeys {
		got := w.obs(w.db.ProfileByLinkedIP(ctx, c14pbLinked[k]))
		count(got)
		c14pbCompare("linked ip "+k, got, rf.res(w.t, rf.attached(func(_ string, rd *c14pbRDev) bool { return rd.linked == k }), k), &bad)
	}
	for _, k := range c14pbDKeys {
		got := w.obs(w.db.ProfileByDedicatedIP(ctx, c14pbDed[k]))
		count(got)
		c14pbCompare("dedicated ip "+k, got, rf.res(w.t, rf.attached(func(_ string, rd *c14pbRDev) bool { return rd.ded[k] }), k), &bad)
	}
	for _, h := range c14pbHumans {
		for _, p := range c14pbProfs {
			got := w.obs(w.db.ProfileByHumanID(ctx, agd.ProfileID(p), agd.HumanIDLower(h)))
			count(got)
			var cands []string
			if rp := rf.prof[p]; rp != nil {
				for _, d := range c14pbDevs {
					if rp.devs[d] && rf.dev[d].human == h {
						cands = append(cands, d)
					}
				}
			}
			c14pbCompare("human id "+h+" in "+p, got, rf.res(w.t, cands, h+"|"+p), &bad)
		}
	}
	ev.ProbesBad = append(ev.ProbesBad, bad...)
}

func (w *c14pbWorld) runCleanups(all bool) (n int) {
	q := w.queue
	w.queue = nil
	w.rng.Shuffle(len(q), func(i, j int) { q[i], q[j] = q[j], q[i] })
	for _, f := range q {
		if all || w.rng.Intn(2) == 0 {
			f()
			n++
		} else {
			w.queue = append(w.queue, f)
		}
	}
	return n
}

func (w *c14pbWorld) emit(out *vhOut, ev *c14pbEvent) {
	if ev.ProbesBad == nil {
		ev.ProbesBad = []string{}
	}
	ev.Collected = w.collected
	if ev.Collected == nil {
		ev.Collected = []string{}
	}
	w.collected = nil
	ev.TombDevices, ev.Cleanups, ev.Pending = w.be.tombDevs, w.mode, len(w.queue)
	out.Emit(ev)
}

// afterLookups lets the clean-ups the look-ups have spawned run as the mode of
// the history says; with "eager" the probes are repeated after them.
func (w *c14pbWorld) afterLookups(out *vhOut, hist int, step *int) {
	if len(w.queue) > 64 {
		w.queue = w.queue[len(w.queue)-64:] // goroutines that never get to run
	}
	if w.mode != "eager" || len(w.queue) == 0 {
		return
	}
	n := w.runCleanups(true)
	*step++
	ev := &c14pbEvent{Ev: "Cleanup", Hist: hist, Step: *step, Op: fmt.Sprintf("ran %d clean-ups right after the look-ups", n), ReqRel: -2, TrailerRel: -2}
	w.probe(ev)
	w.queue = nil // the ones of these probes would be the same again
	w.emit(out, ev)
}

func (w *c14pbWorld) sync(out *vhOut, hist int, step *int, adv time.Duration, op string) {
	w.advance(adv)
	*step++
	ev := &c14pbEvent{Ev: "Sync", Hist: hist, Step: *step, Op: op, ReqRel: -2, TrailerRel: -2, PrevEmpty: w.prevEmpty}
	ev.FullExpected = !w.hadFull || w.now.Sub(w.lastFullAt) >= time.Hour
	w.be.mu.Lock()
	n0 := len(w.be.reqs)
	w.be.mu.Unlock()
	ctx, cancel := context.WithTimeout(context.Background(), 20*time.Second)
	err := w.db.Refresh(ctx)
	cancel()
	w.be.mu.Lock()
	reqs := append([]c14pbReq{}, w.be.reqs[n0:]...)
	ev.ExpStreamed, ev.ExpDeleted = w.ref.deliver(w.be, ev.FullExpected, w.dirty)
	w.be.mu.Unlock()
	ev.NReq = len(reqs)
	base := c14pbBase.UnixMilli()
	if len(reqs) > 0 {
		r := reqs[len(reqs)-1]
		ev.ReqFull, ev.ReqIsPrev, ev.NStreamed, ev.NDelStreamed, ev.NDevStreamed = r.full, r.isPrev, r.nStreamed, r.nDel, r.nDevice
		ev.TrailerRel = r.trailerMs - base
		ev.ReqRel = -1
		if !r.full {
			ev.ReqRel = r.reqMs - base
			if ev.ReqRel < 0 || ev.ReqRel > 2_000_000_000 {
				ev.ReqRel = -3 // some other moment, far away from anything the backend has ever said
			}
		}
	}
	w.prevEmpty = !ev.FullExpected && ev.ExpStreamed == 0
	w.dirty = map[string]bool{}
	if ev.FullExpected && err == nil {
		w.hadFull, w.lastFullAt = true, w.now
	}
	w.probe(ev)
	if err != nil {
		ev.Err = err.Error()
		ev.ProbesBad = append(ev.ProbesBad, "the refresh failed against a well-behaved backend: "+err.Error())
		w.broken = true
	}
	w.emit(out, ev)
	w.afterLookups(out, hist, step)
}

func (w *c14pbWorld) lookup(out *vhOut, hist int, step *int) {
	ctx := context.Background()
	*step++
	ev := &c14pbEvent{Ev: "Lookup", Hist: hist, Step: *step, ReqRel: -2, TrailerRel: -2}
	switch w.rng.Intn(4) {
	case 0:
		d := w.pick(c14pbDevs)
		_, _, _ = w.db.ProfileByDeviceID(ctx, agd.DeviceID(d))
		ev.Op = "by device id " + d
	case 1:
		k := w.pick(c14pbLKeys)
		_, _, _ = w.db.ProfileByLinkedIP(ctx, c14pbLinked[k])
		ev.Op = "by linked ip " + k
	case 2:
		k := w.pick(c14pbDKeys)
		_, _, _ = w.db.ProfileByDedicatedIP(ctx, c14pbDed[k])
		ev.Op = "by dedicated ip " + k
	default:
		h, p := w.pick(c14pbHumans), w.pick(c14pbProfs)
		_, _, _ = w.db.ProfileByHumanID(ctx, agd.ProfileID(p), agd.HumanIDLower(h))
		ev.Op = "by human id " + h + " in " + p
	}
	w.probe(ev)
	w.emit(out, ev)
	w.afterLookups(out, hist, step)
}

func c14pbHistory(t *testing.T, out *vhOut, hist int, rng *rand.Rand, nsteps int) {
	be := &c14pbBackend{prof: map[string]*c14pbTProf{}, dev: map[string]*c14pbTDev{}, lastTrailer: -1,
		tombDevs: (int64(hist)+vhSeed())%2 == 0, order: rand.New(rand.NewSource(rng.Int63()))}
	w := &c14pbWorld{t: t, rng: rng, be: be, now: c14pbBase, dirty: map[string]bool{},
		ref:  &c14pbRef{prof: map[string]*c14pbRProf{}, dev: map[string]*c14pbRDev{}},
		mode: []string{"eager", "lazy", "lazy", "never"}[rng.Intn(4)]}
	be.nowMs = w.now.UnixMilli()
	for _, p := range c14pbProfs {
		be.prof[p] = &c14pbTProf{devs: map[string]bool{}, changedMs: be.nowMs, salt: rng.Intn(1000)}
	}
	for _, d := range c14pbDevs {
		be.dev[d] = &c14pbTDev{ded: map[string]bool{}, salt: rng.Intn(1000)}
	}

	l, err := net.Listen("tcp", "127.0.0.1:0")
	if err != nil {
		t.Fatal(err)
	}
	gs := grpc.NewServer(grpc.ConnectionTimeout(5*time.Second), grpc.Creds(insecure.NewCredentials()))
	RegisterDNSServiceServer(gs, be)
	go func() { _ = gs.Serve(l) }()
	defer gs.Stop()

	strg, err := NewProfileStorage(&ProfileStorageConfig{
		BindSet:              c14pbBind,
		ErrColl:              c14pbErrColl{w},
		Logger:               slogutil.NewDiscardLogger(),
		GRPCMetrics:          EmptyGRPCMetrics{},
		Metrics:              EmptyProfileDBMetrics{},
		Endpoint:             &url.URL{Scheme: "grpc", Host: l.Addr().String()},
		ResponseSizeEstimate: 1 * datasize.KB,
		MaxProfilesSize:      64 * datasize.MB,
	})
	if err != nil {
		t.Fatal(err)
	}

	profiledb.VerifNow = func() time.Time { return w.now }
	profiledb.VerifGo = func(_ string, _ any, f func()) { w.queue = append(w.queue, f) }
	w.db, err = profiledb.New(&profiledb.Config{
		Logger:               slogutil.NewDiscardLogger(),
		Storage:              strg,
		ErrColl:              c14pbErrColl{w},
		Metrics:              profiledb.EmptyMetrics{},
		CacheFilePath:        "none",
		FullSyncIvl:          time.Hour,
		FullSyncRetryIvl:     time.Hour,
		ResponseSizeEstimate: 1 * datasize.KB,
	})
	if err != nil {
		t.Fatal(err)
	}

	step := 0
	w.emit(out, &c14pbEvent{Ev: "Reset", Hist: hist, ReqRel: -2, TrailerRel: -2})
	initial := true
	mut := func(preferDelete bool) {
		w.advance(time.Second)
		if op := w.mutate(preferDelete); op != "" {
			if !initial {
				step++
			}
			w.emit(out, &c14pbEvent{Ev: "Mutate", Hist: hist, Step: step, Op: op, ReqRel: -2, TrailerRel: -2})
		}
	}
	// some initial population, then the first (necessarily full) sync
	for _, d := range c14pbDevs {
		if rng.Intn(6) > 0 {
			be.prof[w.pick(c14pbProfs)].devs[d] = true
		}
	}
	for i := 0; i < 20; i++ {
		mut(false)
	}
	initial = false
	w.sync(out, hist, &step, time.Minute, "first")
	idleAt, fullAt := 3+rng.Intn(nsteps/2+1), 3+rng.Intn(nsteps-3)
	idle := func() {
		// everything is delivered, then nothing is (an empty stream), then something changes --
		// preferably a profile disappears -- and the next incremental sync has to deliver it
		w.sync(out, hist, &step, time.Minute, "idle pattern: flush")
		if w.broken {
			return
		}
		w.sync(out, hist, &step, time.Minute, "idle pattern: nothing changed")
		for i, n := 0, 1+rng.Intn(3); i < n && !w.broken; i++ {
			mut(i == 0)
		}
		if !w.broken {
			w.sync(out, hist, &step, time.Minute, "idle pattern: after the idle sync")
		}
	}
	for n := 0; step < nsteps && !w.broken; n++ {
		switch r := rng.Intn(100); {
		case idleAt >= 0 && step >= idleAt:
			idleAt = -1
			idle()
		case fullAt >= 0 && step >= fullAt:
			fullAt = -1
			w.sync(out, hist, &step, 2*time.Hour, "full")
		case r < 50:
			mut(false)
		case r < 68:
			adv := time.Minute
			if rng.Intn(8) == 0 {
				adv = 25 * time.Minute // now and then the hour runs out between two scheduled full syncs
			}
			w.sync(out, hist, &step, adv, "partial")
		case r < 74:
			w.sync(out, hist, &step, 2*time.Hour, "full")
		case r < 80:
			idle()
		case r < 92:
			w.lookup(out, hist, &step)
		default:
			if len(w.queue) == 0 {
				continue
			}
			nrun := w.runCleanups(false)
			step++
			ev := &c14pbEvent{Ev: "Cleanup", Hist: hist, Step: step, Op: fmt.Sprintf("ran %d pending clean-ups", nrun), ReqRel: -2, TrailerRel: -2}
			w.probe(ev)
			w.emit(out, ev)
		}
		if n > 50*nsteps {
			t.Fatalf("harness: history %d does not make progress", hist)
		}
	}
}

func TestVerifC14Backend(t *testing.T) {
	out := vhOpen(t)
	rng := rand.New(rand.NewSource(vhSeed()*7919 + 14))
	nhist, nsteps := vhEnvInt("VERIF_NHIST", 6), vhEnvInt("VERIF_NSTEPS", 40)
	if nsteps < 12 {
		nsteps = 12
	}
	for h := 0; h < nhist; h++ {
		c14pbHistory(t, out, h, rng, nsteps)
	}
}
