//go:build verif

package backendpb_test

// C16, uploader part: the real backendpb.BillStat gRPC uploader behind the real
// RuntimeRecorder, against an in-process transactional backend that accepts a
// batch, rejects it when the stream is opened, after the first record, or only
// in the final status of the stream.  Recorded: every Record, and for every
// Refresh whether the BACKEND committed the batch (that, not the error returned,
// decides between UploadOK and UploadFail in the trace), the error Refresh
// returned and the backend's totals.  TLC (TraceBillStat.tla) decides.

import (
	"context"
	"errors"
	"fmt"
	"io"
	"math/rand"
	"net"
	"net/url"
	"sync"
	"testing"
	"time"

	"github.com/AdguardTeam/AdGuardDNS/internal/agd"
	"github.com/AdguardTeam/AdGuardDNS/internal/agdtest"
	"github.com/AdguardTeam/AdGuardDNS/internal/backendpb"
	"github.com/AdguardTeam/AdGuardDNS/internal/billstat"
	"github.com/AdguardTeam/AdGuardDNS/internal/geoip"
	"github.com/AdguardTeam/AdGuardDNS/internal/metrics"
	"github.com/AdguardTeam/golibs/logutil/slogutil"
	"github.com/prometheus/client_golang/prometheus"
	"google.golang.org/protobuf/types/known/durationpb"
	"google.golang.org/grpc"
	"google.golang.org/grpc/codes"
	"google.golang.org/grpc/credentials/insecure"
	"google.golang.org/grpc/status"
	"google.golang.org/protobuf/types/known/emptypb"
)

type c16bBackend struct {
	backendpb.UnimplementedDNSServiceServer
	mu        sync.Mutex
	mode      string // ok | open | mid | final
	committed map[string]int
	meta      map[string]int
	last      string // outcome of the last batch: committed | rejected | none
}

var c16bBase = time.Unix(1_700_000_000, 0)

func (s *c16bBackend) SaveDevicesBillingStat(srv grpc.ClientStreamingServer[backendpb.DeviceBillingStat, emptypb.Empty]) error {
	s.mu.Lock()
	mode := s.mode
	s.mu.Unlock()
	if mode == "open" {
		s.mu.Lock()
		s.last = "rejected"
		s.mu.Unlock()
		return status.Error(codes.Unavailable, "scripted: unavailable")
	}
	// the structured refusals of the backend protocol, and a backend that does not answer in time:
	// every kind of error the client's error handling (and its metrics decorator) distinguishes
	if mode == "deadline" || mode == "auth" || mode == "badreq" || mode == "ratelimit" || mode == "quota" {
		s.mu.Lock()
		s.last = "rejected"
		s.mu.Unlock()
		var st *status.Status
		var derr error
		switch mode {
		case "deadline":
			<-srv.Context().Done()
			return status.Error(codes.DeadlineExceeded, "scripted: too late")
		case "auth":
			st, derr = status.New(codes.Unauthenticated, "scripted").WithDetails(&backendpb.AuthenticationFailedError{Message: "scripted"})
		case "badreq":
			st, derr = status.New(codes.InvalidArgument, "scripted").WithDetails(&backendpb.BadRequestError{Message: "scripted"})
		case "quota":
			st, derr = status.New(codes.ResourceExhausted, "scripted").WithDetails(&backendpb.DeviceQuotaExceededError{Message: "scripted"})
		default:
			st, derr = status.New(codes.ResourceExhausted, "scripted").WithDetails(&backendpb.RateLimitedError{Message: "scripted",
				RetryDelay: durationpb.New(time.Second)})
		}
		if derr != nil {
			return status.Error(codes.Internal, derr.Error())
		}
		return st.Err()
	}
	batch, meta := map[string]int{}, map[string]int{}
	n := 0
	for {
		d, err := srv.Recv()
		if errors.Is(err, io.EOF) {
			break
		} else if err != nil {
			s.mu.Lock()
			s.last = "rejected"
			s.mu.Unlock()
			return err
		}
		n++
		batch[d.DeviceId] += int(d.Queries)
		meta[d.DeviceId] = int(d.LastActivityTime.AsTime().Sub(c16bBase) / time.Second)
		if mode == "mid" && n == 1 {
			s.mu.Lock()
			s.last = "rejected"
			s.mu.Unlock()
			return status.Error(codes.Internal, "scripted: failed in the middle of the stream")
		}
		if mode == "earlyok" && n == 1 {
			// a backend that ends the call with OK without having read (or kept) the stream: whatever the
			// status says, the records the client could not send were not delivered
			s.mu.Lock()
			s.last = "rejected"
			s.mu.Unlock()
			return srv.SendAndClose(&emptypb.Empty{})
		}
	}
	s.mu.Lock()
	defer s.mu.Unlock()
	if mode == "final" {
		s.last = "rejected"
		return status.Error(codes.Unavailable, "scripted: transaction rolled back")
	}
	for id, q := range batch {
		s.committed[id] += q
		s.meta[id] = meta[id]
	}
	s.last = "committed"
	return srv.SendAndClose(&emptypb.Empty{})
}

// c16bListener hands the connections it accepts to the gRPC server, or -- while stalled -- keeps them
// open without a word: a backend host that is up while its service is not (restarting, overloaded).  Going
// into the stall also drops the connections made so far, so that the client has to come back.
type c16bListener struct {
	net.Listener
	mu      sync.Mutex
	stalled bool
	live    []net.Conn
	parked  []net.Conn
}

func (l *c16bListener) Accept() (net.Conn, error) {
	for {
		c, err := l.Listener.Accept()
		if err != nil {
			return nil, err
		}
		l.mu.Lock()
		if l.stalled {
			l.parked = append(l.parked, c)
			l.mu.Unlock()
			continue
		}
		l.live = append(l.live, c)
		l.mu.Unlock()
		return c, nil
	}
}

func (l *c16bListener) stall(on bool) {
	l.mu.Lock()
	defer l.mu.Unlock()
	l.stalled = on
	drop := l.parked
	l.parked = nil
	if on {
		drop = append(drop, l.live...)
		l.live = nil
	}
	for _, c := range drop {
		_ = c.Close()
	}
}

type c16bEvent struct {
	Ev        string         `json:"ev"`
	D         string         `json:"d"`
	R         string         `json:"r"`
	Delivered map[string]int `json:"delivered"`
	DelivMeta map[string]int `json:"delivMeta"`
	Err       *bool          `json:"err,omitempty"`
	Mode      string         `json:"mode"`
	Beh       int            `json:"beh"`
}

func TestVerifC16Uploader(t *testing.T) {
	out := vhOpen(t)
	rng := rand.New(rand.NewSource(vhSeed()))
	devs := []string{"d1", "d2", "d3"}
	nhist := vhEnvInt("VERIF_NHIST", 40)
	for beh := 0; beh < nhist; beh++ {
		be := &c16bBackend{committed: map[string]int{}, meta: map[string]int{}, mode: "ok"}
		tl, err := net.Listen("tcp", "127.0.0.1:0")
		if err != nil {
			t.Fatal(err)
		}
		l := &c16bListener{Listener: tl}
		gs := grpc.NewServer(grpc.ConnectionTimeout(time.Second), grpc.Creds(insecure.NewCredentials()))
		backendpb.RegisterDNSServiceServer(gs, be)
		go func() { _ = gs.Serve(l) }()
		errColl := &agdtest.ErrorCollector{OnCollect: func(context.Context, error) {}}
		// the metrics decorator of the production wiring (cmd.initGRPCMetrics)
		grpcMtrc, err := metrics.NewBackendGRPC(fmt.Sprintf("c16b_%d", beh), prometheus.NewRegistry())
		if err != nil {
			t.Fatal(err)
		}
		upl, err := backendpb.NewBillStat(&backendpb.BillStatConfig{Logger: slogutil.NewDiscardLogger(), ErrColl: errColl,
			GRPCMetrics: grpcMtrc, Endpoint: &url.URL{Scheme: "grpc", Host: l.Addr().String()}})
		if err != nil {
			t.Fatal(err)
		}
		r := billstat.NewRuntimeRecorder(&billstat.RuntimeRecorderConfig{Logger: slogutil.NewDiscardLogger(), ErrColl: errColl, Uploader: upl,
			Metrics: billstat.EmptyMetrics{}})
		snapshot := func() (map[string]int, map[string]int) {
			be.mu.Lock()
			defer be.mu.Unlock()
			d, m := map[string]int{}, map[string]int{}
			for _, id := range devs {
				d[id], m[id] = be.committed[id], be.meta[id]
			}
			return d, m
		}
		d0, m0 := snapshot()
		out.Emit(c16bEvent{Ev: "Reset", Beh: beh, Delivered: d0, DelivMeta: m0})
		clock := 0
		pendingAny := false
		_ = pendingAny
		steps := 15 + rng.Intn(30)
		bulk := vhEnvInt("VERIF_BULK", 30000)
		refresh := func(mode string) {
			if (mode == "mid" && beh%2 == 0) || mode == "earlyok" {
				// a large batch: the backend's abort arrives while the client is still sending, so the
				// failure surfaces in Send (as io.EOF) and not in CloseAndRecv.  The filler devices are
				// not part of the judged set; the judged devices' records travel in the same batch.
				for i := 0; i < bulk; i++ {
					r.Record(context.Background(), agd.DeviceID(fmt.Sprintf("bulk%06d", i)), geoip.CountryAD, geoip.ASN(1),
						c16bBase, agd.ProtoDNS)
				}
			}
			be.mu.Lock()
			be.mode, be.last = mode, "none"
			be.mu.Unlock()
			before, _ := snapshot()
			tmo := 10 * time.Second
			if mode == "deadline" || mode == "stall" {
				tmo = 300 * time.Millisecond
			}
			if mode == "stall" {
				l.stall(true)
			}
			ctx, cancel := context.WithTimeout(context.Background(), tmo)
			var rerr error
			func() {
				// an upload that panics is an upload that failed (the periodic worker recovers it as well)
				defer func() {
					if v := recover(); v != nil {
						rerr = fmt.Errorf("refresh panicked: %v", v)
					}
				}()
				rerr = r.Refresh(ctx)
			}()
			cancel()
			if mode == "stall" {
				l.stall(false)
			}
			be.mu.Lock()
			last := be.last
			be.mu.Unlock()
			d, m := snapshot()
			out.Emit(c16bEvent{Ev: "RefreshReset", R: "r1", Beh: beh, Delivered: before, DelivMeta: nil, Mode: mode})
			ev := "UploadOK"
			// an empty batch is not sent at all: nothing to lose, counts as delivered
			// ... and a call that failed without ever reaching the backend's handler delivered nothing either
			if last == "rejected" || (last == "none" && rerr != nil) {
				ev = "UploadFail"
			}
			e := rerr != nil
			out.Emit(c16bEvent{Ev: ev, R: "r1", Beh: beh, Delivered: d, DelivMeta: m, Err: &e, Mode: mode})
			if ev == "UploadOK" {
				pendingAny = false
			}
		}
		for i := 0; i < steps; i++ {
			if rng.Intn(10) < 6 {
				clock++
				d := devs[rng.Intn(len(devs))]
				r.Record(context.Background(), agd.DeviceID(d), geoip.CountryAD, geoip.ASN(clock), c16bBase.Add(time.Duration(clock)*time.Second), agd.ProtoDNS)
				pendingAny = true
				dd, _ := snapshot()
				out.Emit(c16bEvent{Ev: "Record", D: d, Beh: beh, Delivered: dd})
			} else {
				refresh([]string{"ok", "ok", "open", "mid", "final", "ok", "earlyok", "deadline", "auth", "badreq", "ratelimit", "quota", "ok", "stall"}[rng.Intn(14)])
			}
		}
		refresh("ok")
		gs.Stop()
	}
}
