//go:build verif

package querylog

// C15 part B recorder.  N goroutines write entries with unique request ids
// through the REAL querylog.NewFileSystem(...).Write into one file.
//
// Observation (both are recorded, TLC/TraceQueryLogFile.tla decides):
//  1. syscall level: the writers run in a re-executed copy of this test binary
//     under `strace -f -y -xx -e trace=openat,write,writev,pwrite64,...`; one
//     event per openat of the log file (O_APPEND?) and one per write to a log
//     descriptor with its byte count and the chunk, tokenised;
//  2. the file is read back: one event per line (tokens, decoded object vs the
//     documented object of the entry with that id), the bytes after the last
//     line feed, and the number of Write calls that returned nil per writer.
// If strace cannot be used the writers run in-process and only (2) is
// recorded; an "Info" event says so.

import (
	"bufio"
	"bytes"
	"context"
	"encoding/base64"
	"encoding/binary"
	"encoding/json"
	"fmt"
	"io"
	"math/rand"
	"net/netip"
	"os"
	"os/exec"
	"path/filepath"
	"regexp"
	"runtime"
	"strconv"
	"strings"
	"sync"
	"testing"
	"time"

	"github.com/AdguardTeam/AdGuardDNS/internal/agd"
	"github.com/AdguardTeam/AdGuardDNS/internal/filter"
	"github.com/AdguardTeam/AdGuardDNS/internal/geoip"
	"github.com/AdguardTeam/golibs/logutil/slogutil"
)

// ---------------------------------------------------------------- entries

var c15Magic = [4]byte{'c', '1', '5', 0xb5}

func c15ID(seed int64, w, k int) (id agd.RequestID) {
	copy(id[0:4], c15Magic[:])
	binary.BigEndian.PutUint32(id[4:8], uint32(w))
	binary.BigEndian.PutUint32(id[8:12], uint32(k))
	binary.BigEndian.PutUint32(id[12:16], uint32(seed))
	return id
}

// c15FromID decodes the "u" property of a line.
func c15FromID(u string) (seed int64, w, k int, ok bool) {
	b, err := base64.URLEncoding.WithPadding(base64.NoPadding).DecodeString(u)
	if err != nil || len(b) != agd.RequestIDLen || !bytes.Equal(b[0:4], c15Magic[:]) {
		return 0, 0, 0, false
	}
	return int64(binary.BigEndian.Uint32(b[12:16])), int(binary.BigEndian.Uint32(b[4:8])),
		int(binary.BigEndian.Uint32(b[8:12])), true
}

var c15Texts = []string{
	"||example.com^", "@@||good.example^$important", "||a.example^$dnsrewrite=NOERROR;CNAME;b.example",
	"quote\"in\"rule", "back\\slash\\rule", "<script>&amp;</script>", "юникод.рф^", "tab\there",
	"line\nfeed inside a rule text", "crlf\r\nrule", "line\u2028separator", "{\"u\":\"fake\"}",
	"}\n{", "emoji \U0001F600", "youtube", "",
}

var c15Names = []string{"example.com.", "Example.ORG.", "xn--e1afmkfd.xn--p1ai.", "a\\.b.example.", "q\\\"uote.example.",
	"a-label-that-is-exactly-sixty-three-characters-long-0123456789abc.example.", ".", "_dmarc.x.example."}

// c15Gen returns the k-th entry of writer w and its documented JSON object
// (doc/querylog.md), every value rendered as a string, omitted properties
// absent, "rn" (a random number) replaced by "ok".
func c15Gen(seed int64, w, k int) (e *Entry, want map[string]string) {
	rng := rand.New(rand.NewSource(seed*1_000_003 + int64(w)*100_003 + int64(k)))
	e = &Entry{
		Time:         time.Unix(1_600_000_000+rng.Int63n(200_000_000), rng.Int63n(1_000_000_000)),
		RequestID:    c15ID(seed, w, k),
		ProfileID:    agd.ProfileID(fmt.Sprintf("p%d", w)),
		DeviceID:     agd.DeviceID(fmt.Sprintf("d%dx%d", w, k)),
		DomainFQDN:   fmt.Sprintf("w%d-k%d.", w, k) + c15Names[rng.Intn(len(c15Names))],
		Elapsed:      time.Duration(rng.Intn(5_000_000_000)),
		RequestType:  []uint16{1, 28, 65, 16, 15, 255, 65535}[rng.Intn(7)],
		ResponseCode: []uint16{0, 2, 3, 5, 0}[rng.Intn(5)],
		Protocol:     []agd.Protocol{agd.ProtoDNS, agd.ProtoDoH, agd.ProtoDoQ, agd.ProtoDoT, agd.ProtoDNSCrypt}[rng.Intn(5)],
		DNSSEC:       rng.Intn(2) == 0,
	}
	want = map[string]string{"rn": "ok"}
	if rng.Intn(2) == 0 {
		if rng.Intn(2) == 0 {
			e.RemoteIP = netip.AddrFrom4([4]byte{192, 0, 2, byte(rng.Intn(256))})
		} else {
			e.RemoteIP = netip.MustParseAddr(fmt.Sprintf("2001:db8::%x", rng.Intn(65536)))
		}
		want["ip"] = e.RemoteIP.String()
	}
	if rng.Intn(3) != 0 {
		e.ClientCountry = []geoip.Country{"US", "DE", "XK", "JP"}[rng.Intn(4)]
		want["c"] = string(e.ClientCountry)
	}
	if rng.Intn(3) != 0 {
		e.ResponseCountry = []geoip.Country{"QN", "US", "FR"}[rng.Intn(3)]
		want["d"] = string(e.ResponseCountry)
	}
	if rng.Intn(3) != 0 {
		e.ClientASN = geoip.ASN(1 + rng.Intn(4_000_000))
		want["a"] = strconv.Itoa(int(e.ClientASN))
	}
	list := filter.ID([]string{"adguard_dns_filter", "custom", "blocked_service", "safe_browsing", "flt\"1"}[rng.Intn(5)])
	rule := filter.RuleText(c15Texts[rng.Intn(len(c15Texts))])
	if rng.Intn(12) == 0 {
		rule = filter.RuleText(strings.Repeat(string(rule)+"|", 1+rng.Intn(300)))
	}
	code := 1
	switch rng.Intn(8) {
	case 0:
		e.RequestResult, code = &filter.ResultBlocked{List: list, Rule: rule}, 2
	case 1:
		e.ResponseResult, code = &filter.ResultBlocked{List: list, Rule: rule}, 3
	case 2:
		e.RequestResult, code = &filter.ResultAllowed{List: list, Rule: rule}, 4
	case 3:
		e.ResponseResult, code = &filter.ResultAllowed{List: list, Rule: rule}, 5
	case 4:
		e.RequestResult, code = &filter.ResultModifiedResponse{List: list, Rule: rule}, 6
	case 5:
		e.RequestResult, code = &filter.ResultModifiedRequest{List: list, Rule: rule}, 6
	}
	if code != 1 {
		want["l"] = string(list)
		if rule != "" {
			want["m"] = string(rule)
		}
	}
	want["u"] = e.RequestID.String()
	want["b"] = string(e.ProfileID)
	want["i"] = string(e.DeviceID)
	want["n"] = e.DomainFQDN
	want["t"] = strconv.FormatInt(e.Time.UnixMilli(), 10)
	want["e"] = strconv.FormatInt(e.Elapsed.Milliseconds(), 10)
	want["q"] = strconv.Itoa(int(e.RequestType))
	want["r"] = strconv.Itoa(int(e.ResponseCode))
	want["f"] = strconv.Itoa(code)
	want["p"] = strconv.Itoa(map[agd.Protocol]int{agd.ProtoDNS: 8, agd.ProtoDoH: 3, agd.ProtoDoQ: 4, agd.ProtoDoT: 5,
		agd.ProtoDNSCrypt: 9}[e.Protocol])
	if e.DNSSEC {
		want["s"] = "1"
	} else {
		want["s"] = "0"
	}
	return e, want
}

// ---------------------------------------------------------------- tokeniser

type c15Tok struct {
	T string `json:"t"`
	W int    `json:"w"`
	K int    `json:"k"`
}

var (
	c15NL   = c15Tok{T: "nl"}
	c15Junk = c15Tok{T: "junk"}
)

// c15Object renders a decoded JSON object with string values.
func c15Object(m map[string]any) (got map[string]string) {
	got = map[string]string{}
	for k, v := range m {
		switch v := v.(type) {
		case string:
			got[k] = v
		case json.Number:
			got[k] = v.String()
		default:
			got[k] = fmt.Sprintf("%T:%v", v, v)
		}
	}
	if n, err := strconv.Atoi(got["rn"]); err == nil && n >= 0 && n <= 65535 {
		if _, isNum := m["rn"].(json.Number); isNum {
			got["rn"] = "ok"
		}
	}
	return got
}

// c15Tokens is the abstraction function from bytes to the tokens of
// QueryLogFile.tla: a complete JSON object that carries the id of entry (w, k)
// is obj(w, k), a line feed is nl, anything else is junk.  It also returns
// the objects it decoded.
func c15Tokens(seed int64, chunk []byte) (toks []c15Tok, objs []map[string]string) {
	toks = []c15Tok{}
	for len(chunk) > 0 {
		i := bytes.IndexByte(chunk, '\n')
		seg := chunk
		if i >= 0 {
			seg = chunk[:i]
		}
		if len(seg) > 0 {
			dec := json.NewDecoder(bytes.NewReader(seg))
			dec.UseNumber()
			for {
				var v any
				err := dec.Decode(&v)
				if err == io.EOF {
					break
				} else if err != nil {
					toks = append(toks, c15Junk)
					break
				}
				m, isObj := v.(map[string]any)
				u, _ := m["u"].(string)
				sd, w, k, ok := c15FromID(u)
				if !isObj || !ok || sd != int64(uint32(seed)) {
					toks = append(toks, c15Junk)
					continue
				}
				toks = append(toks, c15Tok{T: "obj", W: w, K: k})
				objs = append(objs, c15Object(m))
			}
		}
		if i < 0 {
			break
		}
		toks = append(toks, c15NL)
		chunk = chunk[i+1:]
	}
	return toks, objs
}

// ---------------------------------------------------------------- the writers

type c15Run struct {
	Writers  int   `json:"writers"`
	Per      int   `json:"per"`
	Procs    int   `json:"procs"`
	Returned []int `json:"returned"`
	Errors   int   `json:"errors"`
}

func c15Write(path string, seed int64, n, per, procs int) (res c15Run) {
	if procs > 0 {
		defer runtime.GOMAXPROCS(runtime.GOMAXPROCS(procs))
	}
	l := NewFileSystem(&FileSystemConfig{Logger: slogutil.NewDiscardLogger(), Path: path, RandSeed: uint64(seed)})
	res = c15Run{Writers: n, Per: per, Procs: runtime.GOMAXPROCS(0), Returned: make([]int, n)}
	var wg sync.WaitGroup
	var mu sync.Mutex
	start := make(chan struct{})
	for w := 1; w <= n; w++ {
		wg.Add(1)
		go func(w int) {
			defer wg.Done()
			ctx := context.Background()
			<-start
			ok, bad := 0, 0
			for k := 1; k <= per; k++ {
				e, _ := c15Gen(seed, w, k)
				if err := l.Write(ctx, e); err != nil {
					bad++
				} else {
					ok++
				}
				if (w+k)%7 == 0 {
					runtime.Gosched()
				}
			}
			mu.Lock()
			res.Returned[w-1] = ok
			res.Errors += bad
			mu.Unlock()
		}(w)
	}
	close(start)
	wg.Wait()
	return res
}

// TestVerifC15FileChild is the body that runs under strace.
func TestVerifC15FileChild(t *testing.T) {
	if os.Getenv("C15_CHILD") != "1" {
		t.Skip("only as the child of TestVerifC15File")
	}
	seed, _ := strconv.ParseInt(os.Getenv("C15_SEED"), 10, 64)
	n, _ := strconv.Atoi(os.Getenv("C15_N"))
	per, _ := strconv.Atoi(os.Getenv("C15_PER"))
	procs, _ := strconv.Atoi(os.Getenv("C15_PROCS"))
	res := c15Write(os.Getenv("C15_LOG"), seed, n, per, procs)
	b, _ := json.Marshal(res)
	if err := os.WriteFile(os.Getenv("C15_RET"), b, 0o600); err != nil {
		t.Fatal(err)
	}
}

// ---------------------------------------------------------------- strace

func c15Hex(s string) string {
	var b strings.Builder
	for i := 0; i < len(s); i++ {
		fmt.Fprintf(&b, "\\x%02x", s[i])
	}
	return b.String()
}

var (
	c15StrRe = regexp.MustCompile(`"((?:\\x[0-9a-f]{2})*)"(\.\.\.)?`)
	c15RetRe = regexp.MustCompile(`\)\s*= (-?\d+)`)
)

func c15Unhex(s string) []byte {
	out := make([]byte, 0, len(s)/4)
	for i := 0; i+3 < len(s); i += 4 {
		v, _ := strconv.ParseUint(s[i+2:i+4], 16, 8)
		out = append(out, byte(v))
	}
	return out
}

type c15Sys struct {
	Ev     string   `json:"ev"`
	Call   string   `json:"call"`
	Tid    int      `json:"tid"`
	Append bool     `json:"append"`
	N      int      `json:"n"`
	Ret    int      `json:"ret"`
	Toks   []c15Tok `json:"toks"`
	Flags  string   `json:"flags"`
	Head   string   `json:"head"`
}

// c15ParseStrace turns the strace output into Open / Write events for the log
// file, in the order in which the calls completed.
func c15ParseStrace(path, logPath string, seed int64, emit func(c15Sys)) (nOpen, nWrite int, err error) {
	f, err := os.Open(path)
	if err != nil {
		return 0, 0, err
	}
	defer f.Close()
	hexPath := c15Hex(logPath)
	pending := map[string]string{}
	sc := bufio.NewScanner(f)
	sc.Buffer(make([]byte, 1<<20), 64<<20)
	for sc.Scan() {
		line := sc.Text()
		sp := strings.IndexByte(line, ' ')
		if sp <= 0 {
			continue
		}
		tid, rest := line[:sp], strings.TrimLeft(line[sp:], " ")
		if strings.HasSuffix(rest, "<unfinished ...>") {
			pending[tid] = strings.TrimSuffix(rest, "<unfinished ...>")
			continue
		}
		if strings.HasPrefix(rest, "<... ") {
			i := strings.Index(rest, "resumed>")
			if i < 0 {
				continue
			}
			rest = pending[tid] + rest[i+len("resumed>"):]
			delete(pending, tid)
		}
		if !strings.Contains(rest, hexPath) {
			continue
		}
		par := strings.IndexByte(rest, '(')
		if par <= 0 {
			continue
		}
		call := rest[:par]
		rm := c15RetRe.FindAllStringSubmatch(rest, -1)
		if len(rm) == 0 {
			continue
		}
		ret, _ := strconv.Atoi(rm[len(rm)-1][1])
		tidN, _ := strconv.Atoi(tid)
		switch call {
		case "openat", "open", "creat", "openat2":
			if !strings.Contains(rest, "\""+hexPath+"\"") {
				continue
			}
			fl := ""
			if m := regexp.MustCompile(`O_[A-Z_|0-9]+`).FindString(rest); m != "" {
				fl = m
			}
			nOpen++
			emit(c15Sys{Ev: "Open", Call: call, Tid: tidN, Ret: ret, Flags: fl, Toks: []c15Tok{},
				Append: strings.Contains(fl, "O_APPEND") && strings.Contains(fl, "O_WRONLY")})
		case "write", "writev", "pwrite64", "pwritev", "pwritev2":
			if !strings.Contains(rest[:strings.Index(rest, ",")+1], "<"+hexPath+">") {
				continue
			}
			var data []byte
			trunc := false
			for _, m := range c15StrRe.FindAllStringSubmatch(rest, -1) {
				data = append(data, c15Unhex(m[1])...)
				trunc = trunc || m[2] != ""
			}
			toks, _ := c15Tokens(seed, data)
			if trunc {
				toks = append(toks, c15Junk)
			}
			head := string(data)
			if len(head) > 160 {
				head = head[:160]
			}
			nWrite++
			emit(c15Sys{Ev: "Write", Call: call, Tid: tidN, N: len(data), Ret: ret, Toks: toks, Head: head})
		}
	}
	return nOpen, nWrite, sc.Err()
}

// ---------------------------------------------------------------- the test

type c15LineEv struct {
	Ev   string            `json:"ev"`
	Idx  int               `json:"idx"`
	Toks []c15Tok          `json:"toks"`
	Got  map[string]string `json:"got"`
	Want map[string]string `json:"want"`
	Raw  string            `json:"raw"`
}

func TestVerifC15File(t *testing.T) {
	out := vhOpen(t)
	seed := vhSeed()
	scratch := os.Getenv("VERIF_SCRATCH")
	if scratch == "" {
		scratch = t.TempDir()
	}
	n, per, procs := vhEnvInt("VERIF_WRITERS", 16), vhEnvInt("VERIF_PER", 200), vhEnvInt("VERIF_PROCS", 0)
	tag := fmt.Sprintf("c15b-%d-%d", os.Getpid(), n)
	logPath := filepath.Join(scratch, tag+".jsonl")
	stPath := filepath.Join(scratch, tag+".strace")
	retPath := filepath.Join(scratch, tag+".ret")
	for _, p := range []string{logPath, stPath, retPath} {
		_ = os.Remove(p)
	}
	defer func() {
		for _, p := range []string{logPath, stPath, retPath} {
			_ = os.Remove(p)
		}
	}()

	var res c15Run
	straced, crashed := false, false
	why := ""
	if os.Getenv("VERIF_NOSTRACE") != "" {
		why = "VERIF_NOSTRACE set"
	} else if st, err := exec.LookPath("strace"); err != nil {
		why = "strace not found"
	} else {
		cmd := exec.Command(st, "-f", "-y", "-xx", "-s", "1048576", "--seccomp-bpf",
			"-e", "trace=open,openat,creat,write,writev,pwrite64,pwritev,pwritev2", "-o", stPath,
			os.Args[0], "-test.run", "^TestVerifC15FileChild$", "-test.count=1", "-test.timeout=20m")
		cmd.Env = append(os.Environ(), "C15_CHILD=1", "C15_LOG="+logPath, "C15_RET="+retPath,
			"C15_SEED="+strconv.FormatInt(seed, 10), "C15_N="+strconv.Itoa(n), "C15_PER="+strconv.Itoa(per),
			"C15_PROCS="+strconv.Itoa(procs), "VERIF_OUT=")
		o, err := cmd.CombinedOutput()
		b, rerr := os.ReadFile(retPath)
		st, _ := os.Stat(stPath)
		switch {
		case err == nil && rerr == nil && json.Unmarshal(b, &res) == nil:
			straced = true
		case st != nil && st.Size() > 0 && !bytes.Contains(o, []byte("strace: ")):
			// strace worked but the writers died: what they did so far is still observed
			straced, crashed = true, true
			tail := string(o)
			if len(tail) > 1500 {
				tail = tail[:1500]
			}
			why = fmt.Sprintf("writer process failed: %v: %s", err, tail)
		default:
			why = fmt.Sprintf("strace run failed: %v: %.300s", err, o)
			_ = os.Remove(logPath)
		}
	}
	if !straced {
		res = c15Write(logPath, seed, n, per, procs)
	}
	out.Emit(map[string]any{"ev": "Info", "straced": straced, "crashed": crashed, "why": why, "writers": n,
		"per": per, "procs": res.Procs, "write_errors": res.Errors})

	if straced {
		nOpen, nWrite, err := c15ParseStrace(stPath, logPath, seed, func(e c15Sys) { out.Emit(e) })
		if err != nil {
			t.Fatalf("parsing strace output: %v", err)
		}
		out.Emit(map[string]any{"ev": "Info", "straced": true, "opens": nOpen, "writes": nWrite})
	}

	out.Emit(map[string]any{"ev": "Reopen"})
	data, err := os.ReadFile(logPath)
	if err != nil {
		t.Fatal(err)
	}
	idx := 0
	for len(data) > 0 {
		i := bytes.IndexByte(data, '\n')
		if i < 0 {
			toks, _ := c15Tokens(seed, data)
			raw := string(data)
			if len(raw) > 300 {
				raw = raw[:300]
			}
			out.Emit(c15LineEv{Ev: "Rest", Idx: idx, Toks: toks, Raw: raw,
				Got: map[string]string{"_": ""}, Want: map[string]string{"_": ""}})
			break
		}
		line := data[:i+1]
		data = data[i+1:]
		idx++
		toks, objs := c15Tokens(seed, line)
		ev := c15LineEv{Ev: "Line", Idx: idx, Toks: toks, Got: map[string]string{"_": "no single object"},
			Want: map[string]string{"_": "one object"}}
		if len(objs) == 1 && len(toks) == 2 && toks[0].T == "obj" {
			ev.Got = objs[0]
			_, ev.Want = c15Gen(seed, toks[0].W, toks[0].K)
		}
		if fmt.Sprint(ev.Got) != fmt.Sprint(ev.Want) || idx <= 3 {
			ev.Raw = string(line)
			if len(ev.Raw) > 600 {
				ev.Raw = ev.Raw[:600]
			}
		}
		out.Emit(ev)
	}
	if !crashed {
		out.Emit(map[string]any{"ev": "Done", "returned": res.Returned, "lines": idx})
	}
}
