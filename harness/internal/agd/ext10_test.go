//go:build verif

package agd

// EXT10 (a): the real NewHumanID, NewHumanIDLower, HumanIDToLower, HumanIDParser.ParseNormalized,
// NewDeviceID, NewProfileID and NewDeviceName evaluated on every row of the table TLC enumerated from
// specs/HumanID.tla (VERIF_IN), plus a seeded random leg.  One NDJSON event per string; the trace spec
// TraceHumanID re-derives the contract's answers for every line.

import (
	"fmt"
	"math/rand"
	"os"
	"strings"
	"sync"
	"testing"
)

type ext10Row struct {
	Pre  []string `json:"pre"`
	Fill string   `json:"fill"`
	N    int      `json:"n"`
	Post []string `json:"post"`
}

type ext10Res struct {
	Ok  bool     `json:"ok"`
	Out []string `json:"out"`
}

type ext10Ev struct {
	Src    string   `json:"src"`
	In     []string `json:"in"`
	H      ext10Res `json:"h"`
	Lo     ext10Res `json:"lo"`
	Tl     []string `json:"tl"`
	P      ext10Res `json:"p"`
	PFresh ext10Res `json:"pfresh"`
	PAgain ext10Res `json:"pagain"`
	PConc  ext10Res `json:"pconc"`
	P2     ext10Res `json:"p2"`
	Hv     bool     `json:"hv"`
	D      bool     `json:"d"`
	F      bool     `json:"f"`
	N      bool     `json:"n"`
	Same   bool     `json:"same"`
	Chain  bool     `json:"chain"`
	Text   string   `json:"text"`
	Errs   []string `json:"errs"`
}

var ext10Sym = map[string]string{
	"a": "a", "b": "b", "z": "z", "A": "A", "B": "B", "Z": "Z", "7": "7", "0": "0", "9": "9", "-": "-",
	"_": "_", ".": ".", "!": "!", "~": "~", "/": "/", "@": "@", "[": "[", "`": "`", "{": "{", ":": ":",
	"sp": " ", "nl": "\n", "del": "\x7f",
	"e2": "é", "e3": "€", "e4": "\U0001F600",
}

var ext10Rev = func() map[rune]string {
	m := map[rune]string{}
	for k, v := range ext10Sym {
		m[[]rune(v)[0]] = k
	}
	return m
}()

func ext10Str(t testing.TB, syms []string) string {
	var b strings.Builder
	for _, s := range syms {
		c, ok := ext10Sym[s]
		if !ok {
			t.Fatalf("unknown symbol %q", s)
		}
		b.WriteString(c)
	}
	return b.String()
}

func ext10Syms(s string) []string {
	res := []string{}
	for _, r := range s {
		k, ok := ext10Rev[r]
		if !ok {
			k = fmt.Sprintf("?%x", r)
		}
		res = append(res, k)
	}
	return res
}

func ext10Parse(p *HumanIDParser, s string) (ext10Res, error) {
	id, err := p.ParseNormalized(s)
	return ext10Res{Ok: err == nil, Out: ext10Syms(string(id))}, err
}

func ext10Short(s string) string {
	if len(s) > 80 {
		return fmt.Sprintf("%q...(%d bytes)", s[:80], len(s))
	}
	return fmt.Sprintf("%q", s)
}

func TestVerifEXT10HumanID(t *testing.T) {
	out := vhOpen(t)
	var rows []ext10Row
	vhReadJSON(t, os.Getenv("VERIF_IN"), &rows)
	type input struct {
		src  string
		syms []string
	}
	var ins []input
	for _, r := range rows {
		syms := append([]string{}, r.Pre...)
		for i := 0; i < r.N; i++ {
			syms = append(syms, r.Fill)
		}
		syms = append(syms, r.Post...)
		ins = append(ins, input{"table", syms})
	}

	// the random leg
	rng := rand.New(rand.NewSource(vhSeed()*104729 + 10))
	all := []string{"a", "b", "z", "A", "B", "Z", "7", "0", "9", "-", "-", "-", "-", "_", ".", "!", "~", "/", "@", "[", "`", "{", ":",
		"sp", "nl", "del", "e2", "e3", "e4"}
	idish := []string{"a", "b", "z", "A", "B", "Z", "7", "0", "9", "-", "-", "-", "a", "7"}
	n := vhEnvInt("VERIF_NRANDOM", 500)
	for i := 0; i < n; i++ {
		var ln int
		switch rng.Intn(6) {
		case 0:
			ln = 58 + rng.Intn(10)
		case 1:
			ln = 248 + rng.Intn(10)
		case 2:
			ln = 120 + rng.Intn(12)
		case 3:
			ln = 5 + rng.Intn(6)
		default:
			ln = rng.Intn(30)
		}
		alpha := all
		if rng.Intn(2) == 0 {
			alpha = idish
		}
		syms := make([]string, ln)
		for j := range syms {
			syms[j] = alpha[rng.Intn(len(alpha))]
		}
		if ln > 0 && rng.Intn(3) == 0 { // mostly an id with one foreign character
			syms[rng.Intn(ln)] = all[rng.Intn(len(all))]
		}
		ins = append(ins, input{"random", syms})
	}

	strs := make([]string, len(ins))
	for i, in := range ins {
		strs[i] = ext10Str(t, in.syms)
	}

	// the long-lived parser: used by every call of the test, from several goroutines first
	shared := NewHumanIDParser()
	conc := make([]ext10Res, len(ins))
	var wg sync.WaitGroup
	const workers = 8
	for w := 0; w < workers; w++ {
		wg.Add(1)
		go func(w int) {
			defer wg.Done()
			for i := w; i < len(strs); i += workers {
				conc[i], _ = ext10Parse(shared, strs[i])
			}
		}(w)
	}
	wg.Wait()

	emit := func(src string, syms []string, s string, pconc *ext10Res, chain bool) ext10Ev {
		ev := ext10Ev{Src: src, In: syms, Chain: chain, Text: ext10Short(s), Same: true, Tl: []string{}}
		same := func(ok bool, got string) {
			if (ok && got != s) || (!ok && got != "") {
				ev.Same = false
			}
		}
		note := func(what string, err error) {
			if err != nil && len(ev.Errs) < 8 {
				e := err.Error()
				if len(e) > 160 {
					e = e[:160] + "..."
				}
				ev.Errs = append(ev.Errs, what+": "+e)
			}
		}
		h, err := NewHumanID(s)
		ev.H = ext10Res{Ok: err == nil, Out: ext10Syms(string(h))}
		note("NewHumanID", err)
		lo, err := NewHumanIDLower(s)
		ev.Lo = ext10Res{Ok: err == nil, Out: ext10Syms(string(lo))}
		if ev.H.Ok {
			ev.Tl = ext10Syms(string(HumanIDToLower(h)))
		}
		ev.P, err = ext10Parse(shared, s)
		note("ParseNormalized", err)
		ev.PFresh, _ = ext10Parse(NewHumanIDParser(), s)
		ev.PAgain, _ = ext10Parse(shared, s)
		if pconc != nil {
			ev.PConc = *pconc
		} else {
			ev.PConc = ev.P
		}
		if ev.P.Ok {
			normalized := ext10StrNoFail(ev.P.Out)
			ev.P2, _ = ext10Parse(shared, normalized)
			_, err = NewHumanID(normalized)
			ev.Hv = err == nil
		} else {
			ev.P2 = ext10Res{Out: []string{}}
		}
		d, err := NewDeviceID(s)
		ev.D = err == nil
		same(ev.D, string(d))
		note("NewDeviceID", err)
		f, err := NewProfileID(s)
		ev.F = err == nil
		same(ev.F, string(f))
		note("NewProfileID", err)
		nm, err := NewDeviceName(s)
		ev.N = err == nil
		same(ev.N, string(nm))
		note("NewDeviceName", err)
		out.Emit(ev)
		return ev
	}

	for i, in := range ins {
		ev := emit(in.src, in.syms, strs[i], &conc[i], false)
		// idempotence across lines: now and then the normalised id is the next line's input
		if ev.P.Ok && (i%53 == 0 || (len(in.syms) > 60 && i%5 == 0)) {
			emit("chain", ev.P.Out, ext10StrNoFail(ev.P.Out), nil, true)
		}
	}
}

func ext10StrNoFail(syms []string) string {
	var b strings.Builder
	for _, s := range syms {
		if c, ok := ext10Sym[s]; ok {
			b.WriteString(c)
		} else {
			// a character outside the vocabulary (never expected in an output): keep it visible
			var r rune
			fmt.Sscanf(s, "?%x", &r)
			b.WriteRune(r)
		}
	}
	return b.String()
}
