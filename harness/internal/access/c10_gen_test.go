//go:build verif

package access

// C10 concretiser and abstraction function, shared by the unit-level harness
// (this package) and the full-stack harness in internal/dnssvc (tools/checks/
// c10.py injects a copy of this file with the package clause rewritten).
//
// Only the standard library is used here.  The abstraction function
// (c10Abstract) is deliberately independent of the code under test: subnets are
// compared bit by bit on the byte slices, ASNs by ==, and name rules by a
// twenty-line matcher for the documented subset of the AdBlock rule syntax
// (plain domain = exactly that name; ||domain^ = the domain and its
// subdomains; leading @@ = exception; $dnstype=T|U or $dnstype=~T|~U).

import (
	"fmt"
	"math/rand"
	"net/netip"
	"strings"
)

// c10Vec is the abstract vector of specs/Access.tla (Access!Vectors).
type c10Vec struct {
	GIP   bool   `json:"gip"`
	GHost string `json:"ghost"`
	Prof  bool   `json:"prof"`
	ANet  bool   `json:"anet"`
	BNet  bool   `json:"bnet"`
	AASN  bool   `json:"aasn"`
	BASN  bool   `json:"basn"`
	PHost string `json:"phost"`
}

func (v c10Vec) String() string {
	b := func(x bool) byte {
		if x {
			return '1'
		}
		return '0'
	}
	return fmt.Sprintf("gip%c/%s/prof%c/an%c/bn%c/aa%c/ba%c/%s", b(v.GIP), v.GHost, b(v.Prof), b(v.ANet), b(v.BNet),
		b(v.AASN), b(v.BASN), v.PHost)
}

// c10Global is one global access configuration.
type c10Global struct {
	Nets  []netip.Prefix
	Rules []string
	// doms are the domains the rules talk about (source of candidate names).
	doms []string
}

// c10Case is one concrete request plus the profile access settings built for it.
type c10Case struct {
	Addr     netip.Addr // the client address proper (never 4in6, no zone)
	Mapped   bool       // transport presents it as ::ffff:a.b.c.d
	Zone     string     // transport presents a link-local address with this zone (fe80::1%eth0)
	ASNKnown bool
	ASN      uint32
	Name     string // FQDN as on the wire (mixed case)
	QType    uint16
	Prof     bool
	ANets    []netip.Prefix
	BNets    []netip.Prefix
	AASNs    []uint32
	BASNs    []uint32
	PRules   []string
}

// ---------------------------------------------------------------- abstraction

// c10InNet: the first p.Bits() bits of a and of the prefix address agree and
// both are of the same family.
func c10InNet(p netip.Prefix, a netip.Addr) bool {
	pa := p.Addr()
	if pa.Is4() != a.Is4() || a.Is4In6() || pa.Is4In6() {
		return false
	}
	x, y := pa.AsSlice(), a.AsSlice()
	n := p.Bits()
	for i := 0; i < n; i++ {
		m := byte(0x80 >> (i % 8))
		if x[i/8]&m != y[i/8]&m {
			return false
		}
	}
	return true
}

func c10InNets(ps []netip.Prefix, a netip.Addr) bool {
	for _, p := range ps {
		if c10InNet(p, a) {
			return true
		}
	}
	return false
}

func c10InASNs(l []uint32, known bool, asn uint32) bool {
	if !known {
		return false
	}
	for _, x := range l {
		if x == asn {
			return true
		}
	}
	return false
}

var c10Types = map[string]uint16{"a": 1, "ns": 2, "mx": 15, "txt": 16, "aaaa": 28, "https": 65}

type c10Rule struct {
	all   bool // the regular expression /.*/: every name, the root name included
	dom   string
	sub   bool
	exc   bool
	types []uint16 // empty = any
	neg   bool     // types are excluded instead of permitted
}

func c10ParseRule(s string) c10Rule {
	var r c10Rule
	s = strings.ToLower(strings.TrimSpace(s))
	if strings.HasPrefix(s, "@@") {
		r.exc = true
		s = s[2:]
	}
	if i := strings.IndexByte(s, '$'); i >= 0 {
		mod := s[i+1:]
		s = s[:i]
		if !strings.HasPrefix(mod, "dnstype=") {
			panic("c10: unsupported modifier in " + mod)
		}
		for k, t := range strings.Split(mod[len("dnstype="):], "|") {
			neg := strings.HasPrefix(t, "~")
			t = strings.TrimPrefix(t, "~")
			if k > 0 && neg != r.neg {
				panic("c10: mixed dnstype list")
			}
			r.neg = neg
			q, ok := c10Types[t]
			if !ok {
				panic("c10: unknown type " + t)
			}
			r.types = append(r.types, q)
		}
	}
	if s == "/.*/" {
		r.all = true
	} else if strings.HasPrefix(s, "||") && strings.HasSuffix(s, "^") {
		r.sub = true
		r.dom = s[2 : len(s)-1]
	} else {
		if r.exc || len(r.types) > 0 {
			panic("c10: plain-domain rules carry no exception mark or modifier")
		}
		if !c10PlainOK(s) {
			panic("c10: not a plain domain: " + s)
		}
		r.dom = s
	}
	return r
}

// c10PlainOK: s is a name the plain-domain form is documented for (two or more
// labels of letters, digits and inner hyphens, alphabetic TLD).
func c10PlainOK(s string) bool {
	ls := strings.Split(strings.ToLower(s), ".")
	if len(ls) < 2 {
		return false
	}
	for i, l := range ls {
		if l == "" || l[0] == '-' || l[len(l)-1] == '-' {
			return false
		}
		for _, c := range []byte(l) {
			alpha := c >= 'a' && c <= 'z'
			if !(alpha || (i < len(ls)-1 && (c == '-' || (c >= '0' && c <= '9')))) {
				return false
			}
		}
	}
	return len(ls[len(ls)-1]) >= 2
}

func (r c10Rule) matches(fqdn string, qt uint16) bool {
	h := strings.ToLower(strings.TrimSuffix(fqdn, "."))
	if !(r.all || h == r.dom || (r.sub && strings.HasSuffix(h, "."+r.dom))) {
		return false
	}
	if len(r.types) == 0 {
		return true
	}
	in := false
	for _, t := range r.types {
		in = in || t == qt
	}
	return in != r.neg
}

// c10HostClass is "none" / "block" / "exc" of Access.tla.
func c10HostClass(rules []string, fqdn string, qt uint16) string {
	blk, exc := false, false
	for _, s := range rules {
		r := c10ParseRule(s)
		if r.matches(fqdn, qt) {
			if r.exc {
				exc = true
			} else {
				blk = true
			}
		}
	}
	switch {
	case !blk:
		return "none"
	case exc:
		return "exc"
	default:
		return "block"
	}
}

// c10Abstract maps a concrete case to its abstract vector.
func c10Abstract(g *c10Global, c *c10Case) c10Vec {
	v := c10Vec{GIP: c10InNets(g.Nets, c.Addr), GHost: c10HostClass(g.Rules, c.Name, c.QType), Prof: c.Prof,
		PHost: "none"}
	if c.Prof {
		v.ANet = c10InNets(c.ANets, c.Addr)
		v.BNet = c10InNets(c.BNets, c.Addr)
		v.AASN = c10InASNs(c.AASNs, c.ASNKnown, c.ASN)
		v.BASN = c10InASNs(c.BASNs, c.ASNKnown, c.ASN)
		v.PHost = c10HostClass(c.PRules, c.Name, c.QType)
	}
	return v
}

// c10AllVecs lists the abstract vectors a request can realise: without a
// profile the five profile classes are fixed to false / "none".
func c10AllVecs() (res []c10Vec) {
	hc := []string{"none", "block", "exc"}
	bb := []bool{false, true}
	for _, gip := range bb {
		for _, gh := range hc {
			res = append(res, c10Vec{GIP: gip, GHost: gh, PHost: "none"})
			for m := 0; m < 16; m++ {
				for _, ph := range hc {
					res = append(res, c10Vec{GIP: gip, GHost: gh, Prof: true, ANet: m&1 != 0, BNet: m&2 != 0,
						AASN: m&4 != 0, BASN: m&8 != 0, PHost: ph})
				}
			}
		}
	}
	return res
}

// ---------------------------------------------------------------- concretiser

func c10Pick[T any](rng *rand.Rand, xs []T) T { return xs[rng.Intn(len(xs))] }

func c10MixCase(rng *rand.Rand, s string) string {
	switch rng.Intn(6) {
	case 0:
		return s
	case 1:
		return strings.ToUpper(s)
	case 2, 3:
		// every occurrence of one letter (the ends of the alphabet more often
		// than the rest), nothing else: what 0x20 randomisation can produce
		letters := "azazmzybnAZ"
		var present []byte
		for i := 0; i < len(s); i++ {
			if s[i] >= 'a' && s[i] <= 'z' {
				present = append(present, s[i])
			}
		}
		if len(present) == 0 {
			return s
		}
		l := letters[rng.Intn(len(letters))]
		if l < 'a' || !strings.ContainsRune(s, rune(l)) {
			l = present[rng.Intn(len(present))]
		}
		return strings.ReplaceAll(s, string(l), strings.ToUpper(string(l)))
	}
	b := []byte(s)
	for i := range b {
		if b[i] >= 'a' && b[i] <= 'z' && rng.Intn(2) == 0 {
			b[i] -= 32
		}
	}
	return string(b)
}

var c10V4Bits = []int{0, 1, 7, 8, 9, 16, 23, 24, 25, 30, 31, 32}
var c10V6Bits = []int{0, 1, 16, 32, 48, 63, 64, 65, 96, 120, 127, 128}

func c10RandAddr(rng *rand.Rand, v6 bool) netip.Addr {
	if v6 {
		var b [16]byte
		rng.Read(b[:])
		switch rng.Intn(4) {
		case 0:
			b[0], b[1], b[2], b[3] = 0x20, 0x01, 0x0d, 0xb8
		case 1:
			b[0] = 0xfd
		case 2:
			// link-local, fe80::/64
			b[0], b[1], b[2], b[3], b[4], b[5], b[6], b[7] = 0xfe, 0x80, 0, 0, 0, 0, 0, 0
		default:
			b[0] = 0x2a // never 4in6, never ::
		}
		return netip.AddrFrom16(b)
	}
	var b [4]byte
	rng.Read(b[:])
	switch rng.Intn(4) {
	case 0:
		b[0] = 10
	case 1:
		b[0], b[1], b[2] = 192, 0, 2
	case 2:
		b[0], b[1], b[2] = 198, 51, 100
	}
	return netip.AddrFrom4(b)
}

// c10PrefixAround returns a prefix of the given length that contains a;
// sometimes its address part is left unmasked (e.g. 2.2.2.0/8 as in the
// documentation's own example).
func c10PrefixAround(rng *rand.Rand, a netip.Addr, bits int) netip.Prefix {
	p := netip.PrefixFrom(a, bits)
	if rng.Intn(3) != 0 {
		p = p.Masked()
	}
	return p
}

func c10Bits(rng *rand.Rand, a netip.Addr) int {
	if a.Is4() {
		return c10Pick(rng, c10V4Bits)
	}
	return c10Pick(rng, c10V6Bits)
}

// c10Sibling flips bit (bits-1) of a: the neighbouring subnet of equal size.
func c10Sibling(a netip.Addr, bits int) netip.Prefix {
	s := a.AsSlice()
	i := bits - 1
	s[i/8] ^= byte(0x80 >> (i % 8))
	n, _ := netip.AddrFromSlice(s)
	return netip.PrefixFrom(n, bits).Masked()
}

// c10Edge returns the first or last address of p, or the address just outside.
func c10Edge(p netip.Prefix, which int) netip.Addr {
	m := p.Masked()
	first := m.Addr()
	s := first.AsSlice()
	for i := p.Bits(); i < len(s)*8; i++ {
		s[i/8] |= byte(0x80 >> (i % 8))
	}
	last, _ := netip.AddrFromSlice(s)
	switch which {
	case 0:
		return first
	case 1:
		return last
	case 2:
		return first.Prev() // invalid (zero) when first is 0.0.0.0 / ::
	default:
		return last.Next()
	}
}

// c10NoiseNets returns up to n prefixes none of which contains a: the sibling
// subnet, /0 and a host route of the other family, far-away nets.
func c10NoiseNets(rng *rand.Rand, a netip.Addr, n int) (res []netip.Prefix) {
	for len(res) < n {
		var p netip.Prefix
		switch rng.Intn(5) {
		case 0, 1:
			b := c10Bits(rng, a)
			if b == 0 {
				continue
			}
			p = c10Sibling(a, b)
		case 2:
			if a.Is4() {
				p = netip.MustParsePrefix("::/0")
			} else {
				p = netip.MustParsePrefix("0.0.0.0/0")
			}
		case 3:
			o := c10RandAddr(rng, a.Is4())
			p = netip.PrefixFrom(o, o.BitLen())
		default:
			o := c10RandAddr(rng, !a.Is4())
			b := c10Bits(rng, o)
			if b < 4 {
				continue
			}
			p = netip.PrefixFrom(o, b).Masked()
		}
		if !c10InNet(p, a) {
			res = append(res, p)
		}
	}
	return res
}

func c10Shuffle[T any](rng *rand.Rand, xs []T) []T {
	rng.Shuffle(len(xs), func(i, j int) { xs[i], xs[j] = xs[j], xs[i] })
	return xs
}

var c10QTypes = []uint16{1, 28, 65, 16, 15, 2}
var c10TypeName = map[uint16]string{1: "A", 2: "NS", 15: "MX", 16: "TXT", 28: "AAAA", 65: "HTTPS"}

func c10OtherType(rng *rand.Rand, qt uint16) uint16 {
	for {
		if t := c10Pick(rng, c10QTypes); t != qt {
			return t
		}
	}
}

// c10NewGlobal draws a global configuration: overlapping subnets of both
// families (now and then a /0 of one family) and name rules of every shape.
func c10NewGlobal(rng *rand.Rand, n int) *c10Global {
	g := &c10Global{}
	fixed := []string{"10.0.0.0/8", "10.1.2.0/24", "192.0.2.0/24", "192.0.2.128/25", "198.51.100.7/32",
		"203.0.113.4/31", "100.64.0.0/10", "2.2.2.0/8", "2001:db8::/32", "2001:db8:1::/48", "2001:db8:ffff::1/128",
		"fd00::/8", "2001:db8:2::2/127", "2a00:1:2:3::/64", "fe80::/10", "fe80::/64"}
	for _, s := range fixed {
		if rng.Intn(2) == 0 {
			g.Nets = append(g.Nets, netip.MustParsePrefix(s))
		}
	}
	for i := 0; i < 2+rng.Intn(4); i++ {
		a := c10RandAddr(rng, rng.Intn(3) == 0)
		b := c10Bits(rng, a)
		if b < 2 {
			continue
		}
		g.Nets = append(g.Nets, c10PrefixAround(rng, a, b))
	}
	switch n % 5 {
	case 3:
		g.Nets = append(g.Nets, netip.MustParsePrefix("0.0.0.0/0"))
	case 4:
		g.Nets = append(g.Nets, netip.MustParsePrefix("::/0"))
	}
	c10Shuffle(rng, g.Nets)

	dom := func(stem, tld string) string {
		d := fmt.Sprintf("%s%s-%d.%s", stem, c10Pick(rng, []string{"", "z", "az", "zone"}), rng.Intn(1000), tld)
		g.doms = append(g.doms, d)
		return d
	}
	add := func(s string) { g.Rules = append(g.Rules, s) }
	add("||" + c10MixCase(rng, dom("gblock", "example")) + "^")
	add(c10MixCase(rng, dom("gexact", "test")))
	add("||" + dom("gtyped", "example") + "^$dnstype=" + c10Pick(rng, []string{"AAAA", "aaaa", "A|AAAA", "HTTPS"}))
	add("||" + dom("gneg", "example") + "^$dnstype=" + c10Pick(rng, []string{"~A", "~A|~AAAA", "~TXT"}))
	d := dom("gwl", "example")
	add("||" + d + "^")
	add("@@||ok." + c10MixCase(rng, d) + "^")
	g.doms = append(g.doms, "ok."+d)
	d = dom("gwlt", "test")
	add(d)
	add("||" + d + "^")
	add("@@||" + d + "^$dnstype=" + c10Pick(rng, []string{"HTTPS", "A", "~AAAA"}))
	d = dom("gonlyexc", "example")
	add("@@||" + d + "^")
	if rng.Intn(2) == 0 {
		add("||" + c10Pick(rng, []string{"blockedtld", "sub.deep.chain.example"}) + "^")
		g.doms = append(g.doms, "blockedtld", "sub.deep.chain.example")
	}
	c10Shuffle(rng, g.Rules)
	return g
}

// c10NameCandidates derives names around a rule domain: the domain itself, sub
// domains, a glued prefix, a glued suffix, the parent.
func c10NameAround(rng *rand.Rand, d string) string {
	switch rng.Intn(8) {
	case 0, 1:
		return d
	case 2:
		return "www." + d
	case 3:
		return "a.b-c.d0." + d
	case 4:
		return "_dns." + d
	case 5:
		return "x" + d
	case 6:
		return d + ".evil.test"
	default:
		if i := strings.IndexByte(d, '.'); i >= 0 {
			return d[i+1:]
		}
		return "www." + d
	}
}

// c10DrawAddr draws a client address with the wanted global class; candidates
// are boundary addresses of the configured subnets and random ones.
func c10DrawAddr(rng *rand.Rand, g *c10Global, wantIn bool) (a netip.Addr, ok bool) {
	for try := 0; try < 400; try++ {
		if rng.Intn(3) != 0 && len(g.Nets) > 0 {
			p := c10Pick(rng, g.Nets)
			a = c10Edge(p, rng.Intn(4))
			if rng.Intn(4) == 0 {
				// some address inside p
				r := c10RandAddr(rng, p.Addr().Is6())
				x, y := p.Masked().Addr().AsSlice(), r.AsSlice()
				for i := p.Bits(); i < len(x)*8; i++ {
					m := byte(0x80 >> (i % 8))
					x[i/8] |= y[i/8] & m
				}
				a, _ = netip.AddrFromSlice(x)
			}
		} else {
			a = c10RandAddr(rng, rng.Intn(3) == 0)
		}
		if !a.IsValid() || a.Is4In6() || a.IsUnspecified() {
			continue
		}
		if c10InNets(g.Nets, a) == wantIn {
			return a, true
		}
	}
	return netip.Addr{}, false
}

// c10DrawName draws (name, type) with the wanted global host class.
func c10DrawName(rng *rand.Rand, g *c10Global, want string) (name string, qt uint16, ok bool) {
	for try := 0; try < 2000; try++ {
		var n string
		if rng.Intn(5) == 0 {
			n = fmt.Sprintf("free-%d.%s", rng.Intn(100000), c10Pick(rng, []string{"test", "example", "invalid"}))
		} else {
			n = c10NameAround(rng, c10Pick(rng, g.doms))
		}
		qt = c10Pick(rng, c10QTypes)
		if rng.Intn(25) == 0 && c10HostClass(g.Rules, ".", qt) == want {
			// the root name (agdnet.NormalizeQueryDomain exists to let rules match `dig NS .`)
			return ".", qt, true
		}
		if c10HostClass(g.Rules, n, qt) == want {
			return c10MixCase(rng, n) + ".", qt, true
		}
	}
	return "", 0, false
}

// c10ProfileRules builds profile block-list rules that put (name, qt) into the
// wanted class.
func c10ProfileRules(rng *rand.Rand, fqdn string, qt uint16, want string) (rules []string) {
	h := strings.ToLower(strings.TrimSuffix(fqdn, "."))
	parent := h
	if i := strings.IndexByte(h, '.'); i >= 0 && rng.Intn(2) == 0 {
		parent = h[i+1:]
	}
	tn, on := c10TypeName[qt], c10TypeName[c10OtherType(rng, qt)]
	if h == "" {
		// the root name: only the match-everything expression reaches it
		miss := []string{"/.*/$dnstype=" + on, "/.*/$dnstype=~" + tn, "||example.org^", "@@/.*/$dnstype=" + on, "root-servers.net"}
		block := []string{"/.*/", "/.*/$dnstype=" + tn, "/.*/$dnstype=~" + on, "/.*/$dnstype=" + strings.ToLower(tn) + "|" + on}
		exc := []string{"@@/.*/", "@@/.*/$dnstype=" + tn, "@@/.*/$dnstype=~" + on}
		for i := rng.Intn(3); i > 0; i-- {
			rules = append(rules, c10Pick(rng, miss))
		}
		switch want {
		case "none":
			if rng.Intn(4) == 0 {
				rules = append(rules, c10Pick(rng, exc))
			}
		case "block":
			rules = append(rules, c10Pick(rng, block))
		case "exc":
			rules = append(rules, c10Pick(rng, block), c10Pick(rng, exc))
		}
		return c10Shuffle(rng, rules)
	}
	// rules that do not match (name, qt)
	miss := []string{
		"||x" + h + "^",
		"||" + h + ".evil.test^",
		"||" + h + "^$dnstype=" + on,
		"||" + h + "^$dnstype=~" + tn,
		"||unrelated-" + fmt.Sprint(rng.Intn(1000)) + ".example^",
		"@@||" + h + "^$dnstype=" + on,
	}
	if parent != h && c10PlainOK(parent) {
		miss = append(miss, parent) // a plain domain is that name only, not its subdomains
	}
	if c10PlainOK(h) {
		miss = append(miss, "sub."+h)
	}
	plain := "||" + h + "^"
	if c10PlainOK(h) {
		plain = c10MixCase(rng, h)
	}
	block := []string{
		plain,
		"||" + c10MixCase(rng, h) + "^",
		"||" + parent + "^",
		"||" + h + "^$dnstype=" + tn,
		"||" + parent + "^$dnstype=" + strings.ToLower(tn) + "|" + on,
		"||" + h + "^$dnstype=~" + on,
	}
	exc := []string{
		"@@||" + c10MixCase(rng, h) + "^",
		"@@||" + parent + "^",
		"@@||" + h + "^$dnstype=" + tn,
		"@@||" + h + "^$dnstype=~" + on,
	}
	for i := rng.Intn(3); i > 0; i-- {
		rules = append(rules, c10Pick(rng, miss))
	}
	switch want {
	case "none":
		if rng.Intn(4) == 0 {
			rules = append(rules, c10Pick(rng, exc)) // an exception alone blocks nothing
		}
	case "block":
		rules = append(rules, c10Pick(rng, block))
		if rng.Intn(3) == 0 {
			rules = append(rules, c10Pick(rng, block))
		}
	case "exc":
		rules = append(rules, c10Pick(rng, block), c10Pick(rng, exc))
	}
	return c10Shuffle(rng, rules)
}

var c10ASNs = []uint32{1, 2, 42, 1234, 64512, 65535, 65536, 4200000000, 4294967295}

func c10ASNList(rng *rand.Rand, asn uint32, known, want bool) (l []uint32) {
	for i := rng.Intn(3); i > 0; i-- {
		x := c10Pick(rng, c10ASNs)
		if rng.Intn(2) == 0 && asn > 1 {
			x = asn - 1 + 2*uint32(rng.Intn(2)) // neighbour of the client's ASN
		}
		if x != asn && x != 0 {
			l = append(l, x)
		}
	}
	if want {
		if !known {
			panic("c10: ASN class wanted for a client without location")
		}
		l = append(l, asn)
	} else if !known && rng.Intn(2) == 0 {
		// the client has no location; listing the zero ASN must not match it
		l = append(l, asn)
	}
	return c10Shuffle(rng, l)
}

func c10NetList(rng *rand.Rand, a netip.Addr, want bool) (l []netip.Prefix) {
	l = c10NoiseNets(rng, a, rng.Intn(3))
	if want {
		l = append(l, c10PrefixAround(rng, a, c10Bits(rng, a)))
		if rng.Intn(4) == 0 {
			l = append(l, c10PrefixAround(rng, a, a.BitLen()))
		}
	}
	return c10Shuffle(rng, l)
}

// c10Concretise draws a concrete case that realises want under g.  The result
// is checked with the abstraction function; ok is false if the scenario cannot
// realise the vector (e.g. no address outside a /0).
func c10Concretise(rng *rand.Rand, g *c10Global, want c10Vec) (c *c10Case, ok bool) {
	c = &c10Case{Prof: want.Prof}
	if c.Addr, ok = c10DrawAddr(rng, g, want.GIP); !ok {
		return nil, false
	}
	c.Mapped = c.Addr.Is4() && rng.Intn(3) == 0
	if c.Addr.IsLinkLocalUnicast() && c.Addr.Is6() && rng.Intn(3) != 0 {
		c.Zone = c10Pick(rng, []string{"eth0", "2", "lo"})
	}
	if c.Name, c.QType, ok = c10DrawName(rng, g, want.GHost); !ok {
		return nil, false
	}
	c.ASNKnown = want.AASN || want.BASN || rng.Intn(3) != 0
	if c.ASNKnown {
		c.ASN = c10Pick(rng, c10ASNs)
		if rng.Intn(8) == 0 && !want.AASN && !want.BASN {
			c.ASN = 0 // location known, ASN not
		}
	}
	if want.Prof {
		c.ANets = c10NetList(rng, c.Addr, want.ANet)
		c.BNets = c10NetList(rng, c.Addr, want.BNet)
		c.AASNs = c10ASNList(rng, c.ASN, c.ASNKnown, want.AASN)
		c.BASNs = c10ASNList(rng, c.ASN, c.ASNKnown, want.BASN)
		c.PRules = c10ProfileRules(rng, c.Name, c.QType, want.PHost)
	}
	if got := c10Abstract(g, c); got != want {
		panic(fmt.Sprintf("c10: concretiser missed its class: want %v got %v for %+v under %+v", want, got, *c, *g))
	}
	return c, true
}

// c10Conc is the JSON form of a case (replay information).
type c10Conc struct {
	GNets    []string `json:"gnets"`
	GRules   []string `json:"grules"`
	Addr     string   `json:"addr"`
	Mapped   bool     `json:"mapped"`
	Zone     string   `json:"zone"`
	ASNKnown bool     `json:"asn_known"`
	ASN      string   `json:"asn"`
	Name     string   `json:"name"`
	QType    string   `json:"qtype"`
	ANets    []string `json:"anets"`
	BNets    []string `json:"bnets"`
	AASNs    []string `json:"aasns"`
	BASNs    []string `json:"basns"`
	PRules   []string `json:"prules"`
	Via      string   `json:"via"`
}

func c10Strs(ps []netip.Prefix) []string {
	res := make([]string, 0, len(ps))
	for _, p := range ps {
		res = append(res, p.String())
	}
	return res
}

// c10U32 renders ASNs as strings: TLC integers are 32-bit signed.
func c10U32(l []uint32) []string {
	res := make([]string, 0, len(l))
	for _, x := range l {
		res = append(res, fmt.Sprint(x))
	}
	return res
}

func c10S(l []string) []string {
	if l == nil {
		return []string{}
	}
	return l
}

func c10MkConc(g *c10Global, c *c10Case, via string) c10Conc {
	return c10Conc{GNets: c10Strs(g.Nets), GRules: c10S(g.Rules), Addr: c.Addr.String(), Mapped: c.Mapped, Zone: c.Zone,
		ASNKnown: c.ASNKnown, ASN: fmt.Sprint(c.ASN), Name: c.Name, QType: c10TypeName[c.QType], ANets: c10Strs(c.ANets),
		BNets: c10Strs(c.BNets), AASNs: c10U32(c.AASNs), BASNs: c10U32(c.BASNs), PRules: c10S(c.PRules), Via: via}
}

// c10Line is one NDJSON line (see specs/TraceAccess.tla).
type c10Line struct {
	ID    int      `json:"id"`
	Level string   `json:"level"`
	Vec   c10Vec   `json:"vec"`
	Got   bool     `json:"got"`
	Eff   []string `json:"eff"`
	Err   string   `json:"err"`
	Conc  c10Conc  `json:"conc"`
}
