//go:build verif

package access

// C10 unit-level recorder: the real access.Global and access.DefaultProfile are
// asked about every abstract vector of specs/Access.tla, several concrete
// inputs each (c10_gen_test.go).  One NDJSON line per call; TLC
// (TraceAccess.tla) decides.  Nothing is asserted here.

import (
	"math/rand"
	"net/netip"
	"testing"

	"github.com/AdguardTeam/AdGuardDNS/internal/agdnet"
	"github.com/AdguardTeam/AdGuardDNS/internal/geoip"
	"github.com/miekg/dns"
)

func c10ASNs32(l []uint32) (res []geoip.ASN) {
	for _, x := range l {
		res = append(res, geoip.ASN(x))
	}
	return res
}

func TestVerifC10Unit(t *testing.T) {
	out := vhOpen(t)
	rng := rand.New(rand.NewSource(vhSeed()*7919 + 10))
	scen := vhEnvInt("VERIF_SCEN", 5)
	per := vhEnvInt("VERIF_PER", 1)
	vecs := c10AllVecs()
	id := 0
	for s := 0; s < scen; s++ {
		g := c10NewGlobal(rng, s)
		global, err := NewGlobal(g.Rules, g.Nets)
		if err != nil {
			t.Fatalf("NewGlobal(%q, %v): %v", g.Rules, g.Nets, err)
		}
		for _, want := range vecs {
			for k := 0; k < per; k++ {
				c, ok := c10Concretise(rng, g, want)
				if !ok {
					continue
				}
				conc := c10MkConc(g, c, "unit")
				// the middleware hands the address over as the transport gave it,
				// including the zone of a link-local client
				addr := c.Addr.WithZone(c.Zone)
				// Global, by address.
				id++
				out.Emit(c10Line{ID: id, Level: "unit_global", Vec: c10Vec{GIP: want.GIP, GHost: "none", PHost: "none"},
					Got: global.IsBlockedIP(addr), Eff: []string{}, Conc: conc})
				// Global, by name: the middleware passes the lowercased name
				// without the trailing dot (agd.RequestInfo.Host).
				id++
				out.Emit(c10Line{ID: id, Level: "unit_global", Vec: c10Vec{GHost: want.GHost, PHost: "none"},
					Got: global.IsBlockedHost(agdnet.NormalizeDomain(c.Name), c.QType), Eff: []string{}, Conc: conc})
				if !want.Prof {
					continue
				}
				p := NewDefaultProfile(&ProfileConfig{
					AllowedNets:          c.ANets,
					BlockedNets:          c.BNets,
					AllowedASN:           c10ASNs32(c.AASNs),
					BlockedASN:           c10ASNs32(c.BASNs),
					BlocklistDomainRules: c.PRules,
				})
				var loc *geoip.Location
				if c.ASNKnown {
					loc = &geoip.Location{Country: geoip.CountryAD, Continent: geoip.ContinentEU, ASN: geoip.ASN(c.ASN)}
				}
				req := &dns.Msg{Question: []dns.Question{{Name: c.Name, Qtype: c.QType, Qclass: dns.ClassINET}}}
				pv := want
				pv.GIP, pv.GHost = false, "none"
				id++
				out.Emit(c10Line{ID: id, Level: "unit_profile", Vec: pv,
					Got: p.IsBlocked(req, netip.AddrPortFrom(addr, uint16(1024+rng.Intn(60000))), loc),
					Eff: []string{}, Conc: conc})
			}
		}
	}
}
