//go:build verif

package dnsmsg

// C07 clone / release histories on the production Cloner.  Random messages
// containing every record type the cloner special-cases (A, AAAA, CNAME, HTTPS
// with all SVCB parameters, MX, PTR, SRV, TXT, SOA, OPT with options) and some
// it does not, are cloned, rewritten by their owner and disposed in random
// order.  Every event carries the addresses of the poolable objects of the
// message concerned and the list of OTHER live messages whose content differs
// from the snapshot taken when they were created.  TLC (TraceMsgPool.tla)
// checks the ownership invariants on the real addresses.

import (
	"fmt"
	"math/rand"
	"net"
	"sort"
	"strings"
	"testing"
	"unsafe"

	"github.com/miekg/dns"
)

type c07Event struct {
	Ev      string   `json:"ev"`
	Beh     int      `json:"beh"`
	M       string   `json:"m"`
	Src     string   `json:"src"`
	Objs    []string `json:"objs"`
	Damaged []string `json:"damaged"`
	Equal   bool     `json:"equal"` // a clone equals its source
}

func c07Addr(p unsafe.Pointer) string { return fmt.Sprintf("%x", uintptr(p)) }

// c07Objs lists the addresses of everything in m that a pool may hand out again.
func c07Objs(m *dns.Msg) (objs []string) {
	add := func(p unsafe.Pointer) {
		if p != nil {
			objs = append(objs, c07Addr(p))
		}
	}
	add(unsafe.Pointer(m))
	for _, rrs := range [][]dns.RR{m.Answer, m.Ns, m.Extra} {
		for _, rr := range rrs {
			switch rr := rr.(type) {
			case *dns.A:
				add(unsafe.Pointer(rr))
				if len(rr.A) > 0 {
					add(unsafe.Pointer(&rr.A[0]))
				}
			case *dns.AAAA:
				add(unsafe.Pointer(rr))
				if len(rr.AAAA) > 0 {
					add(unsafe.Pointer(&rr.AAAA[0]))
				}
			case *dns.CNAME:
				add(unsafe.Pointer(rr))
			case *dns.MX:
				add(unsafe.Pointer(rr))
			case *dns.PTR:
				add(unsafe.Pointer(rr))
			case *dns.SRV:
				add(unsafe.Pointer(rr))
			case *dns.TXT:
				add(unsafe.Pointer(rr))
				if len(rr.Txt) > 0 {
					add(unsafe.Pointer(&rr.Txt[0]))
				}
			case *dns.SOA:
				add(unsafe.Pointer(rr))
			case *dns.HTTPS:
				add(unsafe.Pointer(rr))
				for _, v := range rr.Value {
					switch v := v.(type) {
					case *dns.SVCBAlpn:
						add(unsafe.Pointer(v))
						if len(v.Alpn) > 0 {
							add(unsafe.Pointer(&v.Alpn[0]))
						}
					case *dns.SVCBIPv4Hint:
						add(unsafe.Pointer(v))
						if len(v.Hint) > 0 {
							add(unsafe.Pointer(&v.Hint[0]))
							for _, h := range v.Hint {
								if len(h) > 0 {
									add(unsafe.Pointer(&h[0]))
								}
							}
						}
					case *dns.SVCBIPv6Hint:
						add(unsafe.Pointer(v))
						if len(v.Hint) > 0 {
							add(unsafe.Pointer(&v.Hint[0]))
							for _, h := range v.Hint {
								if len(h) > 0 {
									add(unsafe.Pointer(&h[0]))
								}
							}
						}
					case *dns.SVCBMandatory:
						add(unsafe.Pointer(v))
						if len(v.Code) > 0 {
							add(unsafe.Pointer(&v.Code[0]))
						}
					case *dns.SVCBPort:
						add(unsafe.Pointer(v))
					case *dns.SVCBECHConfig:
						add(unsafe.Pointer(v))
						if len(v.ECH) > 0 {
							add(unsafe.Pointer(&v.ECH[0]))
						}
					case *dns.SVCBDoHPath:
						add(unsafe.Pointer(v))
					case *dns.SVCBNoDefaultAlpn:
						// zero-size: every instance has the same address and holds no data
					case *dns.SVCBLocal:
						add(unsafe.Pointer(v))
						if len(v.Data) > 0 {
							add(unsafe.Pointer(&v.Data[0]))
						}
					}
				}
			case *dns.OPT:
				add(unsafe.Pointer(rr))
				for _, o := range rr.Option {
					switch o := o.(type) {
					case *dns.EDNS0_SUBNET:
						add(unsafe.Pointer(o))
						if len(o.Address) > 0 {
							add(unsafe.Pointer(&o.Address[0]))
						}
					case *dns.EDNS0_COOKIE:
						add(unsafe.Pointer(o))
					case *dns.EDNS0_PADDING:
						add(unsafe.Pointer(o))
						if len(o.Padding) > 0 {
							add(unsafe.Pointer(&o.Padding[0]))
						}
					case *dns.EDNS0_EDE:
						add(unsafe.Pointer(o))
					case *dns.EDNS0_NSID:
						add(unsafe.Pointer(o))
					case *dns.EDNS0_TCP_KEEPALIVE:
						add(unsafe.Pointer(o))
					case *dns.EDNS0_EXPIRE:
						add(unsafe.Pointer(o))
					}
				}
			}
		}
	}
	sort.Strings(objs)
	// one object may be reachable twice (e.g. an empty slice base); duplicates
	// inside ONE message are not ownership conflicts
	out := objs[:0]
	for i, o := range objs {
		if i == 0 || o != objs[i-1] {
			out = append(out, o)
		}
	}
	return out
}

func c07Snap(m *dns.Msg) string {
	var sb strings.Builder
	fmt.Fprintf(&sb, "%+v|%v|", m.MsgHdr, m.Compress)
	for _, q := range m.Question {
		fmt.Fprintf(&sb, "Q%s/%d/%d|", q.Name, q.Qtype, q.Qclass)
	}
	for si, rrs := range [][]dns.RR{m.Answer, m.Ns, m.Extra} {
		for _, rr := range rrs {
			fmt.Fprintf(&sb, "%d:%s|", si, rr.String())
		}
	}
	return sb.String()
}

func c07RandMsg(rng *rand.Rand, n int) *dns.Msg {
	name := fmt.Sprintf("h%d.c07.example.", n)
	m := new(dns.Msg)
	m.SetQuestion(name, dns.TypeA)
	m.Id = uint16(rng.Intn(65536))
	m.Response = rng.Intn(2) == 0
	m.RecursionAvailable = rng.Intn(2) == 0
	hdr := func(t uint16) dns.RR_Header {
		return dns.RR_Header{Name: name, Rrtype: t, Class: dns.ClassINET, Ttl: uint32(rng.Intn(5000))}
	}
	ip4 := func() net.IP { return net.IPv4(byte(1+rng.Intn(200)), byte(rng.Intn(255)), byte(rng.Intn(255)), byte(n)).To4() }
	ip6 := func() net.IP {
		b := make(net.IP, 16)
		b[0], b[1], b[15], b[14] = 0x20, 0x01, byte(n), byte(rng.Intn(255))
		return b
	}
	ips := func(f func() net.IP, k int) (l []net.IP) {
		for ; k > 0; k-- {
			l = append(l, f())
		}
		return l
	}
	for k := rng.Intn(6); k >= 0; k-- {
		switch rng.Intn(10) {
		case 0:
			m.Answer = append(m.Answer, &dns.A{Hdr: hdr(dns.TypeA), A: ip4()})
		case 1:
			m.Answer = append(m.Answer, &dns.AAAA{Hdr: hdr(dns.TypeAAAA), AAAA: ip6()})
		case 2:
			m.Answer = append(m.Answer, &dns.CNAME{Hdr: hdr(dns.TypeCNAME), Target: fmt.Sprintf("t%d.%s", rng.Intn(99), name)})
		case 3:
			h := &dns.HTTPS{SVCB: dns.SVCB{Hdr: hdr(dns.TypeHTTPS), Priority: uint16(1 + rng.Intn(3)), Target: "."}}
			vals := []dns.SVCBKeyValue{
				&dns.SVCBAlpn{Alpn: []string{"h2", "h3"}}, &dns.SVCBIPv4Hint{Hint: ips(ip4, 1+rng.Intn(8))}, &dns.SVCBIPv6Hint{Hint: ips(ip6, 1+rng.Intn(3))},
				&dns.SVCBPort{Port: uint16(rng.Intn(65535))}, &dns.SVCBECHConfig{ECH: []byte{1, 2, 3, byte(n)}}, &dns.SVCBDoHPath{Template: "/dns-query{?dns}"},
				&dns.SVCBMandatory{Code: []dns.SVCBKey{dns.SVCB_ALPN}}, &dns.SVCBNoDefaultAlpn{}, &dns.SVCBLocal{KeyCode: 65400, Data: []byte{byte(n), 9}},
			}
			rng.Shuffle(len(vals), func(i, j int) { vals[i], vals[j] = vals[j], vals[i] })
			h.Value = vals[:1+rng.Intn(len(vals))]
			m.Answer = append(m.Answer, h)
		case 4:
			m.Answer = append(m.Answer, &dns.MX{Hdr: hdr(dns.TypeMX), Preference: uint16(rng.Intn(50)), Mx: "mx." + name})
		case 5:
			m.Answer = append(m.Answer, &dns.PTR{Hdr: hdr(dns.TypePTR), Ptr: "ptr." + name})
		case 6:
			m.Answer = append(m.Answer, &dns.SRV{Hdr: hdr(dns.TypeSRV), Priority: 1, Weight: 2, Port: uint16(rng.Intn(9999)), Target: "srv." + name})
		case 7:
			m.Answer = append(m.Answer, &dns.TXT{Hdr: hdr(dns.TypeTXT), Txt: []string{fmt.Sprintf("txt-%d", n), "second"}})
		case 8:
			m.Answer = append(m.Answer, &dns.NS{Hdr: hdr(dns.TypeNS), Ns: "ns." + name}) // not special-cased
		default:
			m.Ns = append(m.Ns, &dns.SOA{Hdr: hdr(dns.TypeSOA), Ns: "ns." + name, Mbox: "m." + name, Serial: uint32(n), Refresh: 1, Retry: 2,
				Expire: 3, Minttl: uint32(rng.Intn(900))})
		}
	}
	if rng.Intn(2) == 0 {
		m.SetEdns0(uint16(512+rng.Intn(4000)), rng.Intn(2) == 0)
		o := m.IsEdns0()
		opts := []dns.EDNS0{
			&dns.EDNS0_SUBNET{Code: dns.EDNS0SUBNET, Family: 1, SourceNetmask: 24, Address: net.IPv4(10, byte(n), 3, 0).To4()},
			&dns.EDNS0_COOKIE{Code: dns.EDNS0COOKIE, Cookie: fmt.Sprintf("%016x", n)},
			&dns.EDNS0_PADDING{Padding: make([]byte, 1+rng.Intn(40))},
			&dns.EDNS0_EDE{InfoCode: dns.ExtendedErrorCodeFiltered, ExtraText: fmt.Sprintf("ede-%d", n)},
			&dns.EDNS0_NSID{Code: dns.EDNS0NSID, Nsid: "abcd"},
			&dns.EDNS0_TCP_KEEPALIVE{Code: dns.EDNS0TCPKEEPALIVE, Timeout: uint16(n)},
		}
		rng.Shuffle(len(opts), func(i, j int) { opts[i], opts[j] = opts[j], opts[i] })
		o.Option = opts[:rng.Intn(len(opts))]
	}
	return m
}

// c07Rewrite changes a message in place, as its owner may (TTL rewriting, ECS
// rewriting, answer truncation by the normaliser).
func c07Rewrite(rng *rand.Rand, m *dns.Msg) {
	m.Id++
	for _, rrs := range [][]dns.RR{m.Answer, m.Ns, m.Extra} {
		for _, rr := range rrs {
			rr.Header().Ttl = uint32(rng.Intn(100))
			switch rr := rr.(type) {
			case *dns.A:
				if len(rr.A) == 4 {
					rr.A[3] ^= 0xff
				}
			case *dns.AAAA:
				if len(rr.AAAA) == 16 {
					rr.AAAA[15] ^= 0xff
				}
			case *dns.TXT:
				if len(rr.Txt) > 0 {
					rr.Txt[0] = "rewritten"
				}
			case *dns.HTTPS:
				for _, v := range rr.Value {
					switch v := v.(type) {
					case *dns.SVCBIPv4Hint:
						for _, h := range v.Hint {
							if len(h) >= 4 {
								h[len(h)-1] ^= 0xff
							}
						}
					case *dns.SVCBIPv6Hint:
						for _, h := range v.Hint {
							if len(h) == 16 {
								h[7] ^= 0xff
							}
						}
					case *dns.SVCBAlpn:
						if len(v.Alpn) > 0 {
							v.Alpn[0] = "rw"
						}
					case *dns.SVCBECHConfig:
						if len(v.ECH) > 0 {
							v.ECH[0] ^= 0xff
						}
					}
				}
			case *dns.OPT:
				for _, o := range rr.Option {
					switch o := o.(type) {
					case *dns.EDNS0_SUBNET:
						// as ecscache.setECS does: a new address slice, not a write into the old one
						o.Address = net.IPv4(10, 9, byte(rng.Intn(250)), 0).To4()
						o.SourceScope = 7
					case *dns.EDNS0_PADDING:
						if len(o.Padding) > 0 {
							o.Padding[0] = 0xee
						}
					}
				}
			}
		}
	}
	if len(m.Answer) > 1 && rng.Intn(3) == 0 {
		m.Answer = m.Answer[:len(m.Answer)-1]
	}
	// a section emptied IN PLACE keeps its array (ecscache drops the upstream's OPT like this) ...
	switch rng.Intn(8) {
	case 0:
		m.Extra = m.Extra[:0]
	case 1:
		m.Ns = m.Ns[:0]
	case 2:
		m.Answer = m.Answer[:0]
	}
	// ... and the owner of a message appends to its sections (the ECS echo, the OPT added by the server)
	switch rng.Intn(6) {
	case 0:
		o := &dns.OPT{Hdr: dns.RR_Header{Name: ".", Rrtype: dns.TypeOPT}}
		o.SetUDPSize(uint16(512 + rng.Intn(4000)))
		o.Option = append(o.Option, &dns.EDNS0_SUBNET{Code: dns.EDNS0SUBNET, Family: 1, SourceNetmask: 24, SourceScope: uint8(rng.Intn(25)),
			Address: net.IPv4(10, byte(rng.Intn(250)), byte(rng.Intn(250)), 0).To4()})
		m.Extra = append(m.Extra, o)
	case 1:
		m.Answer = append(m.Answer, &dns.A{Hdr: dns.RR_Header{Name: "appended.c07.example.", Rrtype: dns.TypeA, Class: dns.ClassINET, Ttl: 5},
			A: net.IPv4(192, 0, 2, byte(rng.Intn(250))).To4()})
	}
}

func TestVerifC07Cloner(t *testing.T) {
	out := vhOpen(t)
	rng := rand.New(rand.NewSource(vhSeed()))
	nhist := vhEnvInt("VERIF_NHIST", 200)
	for beh := 0; beh < nhist; beh++ {
		c := NewCloner(EmptyClonerStat{})
		type liveMsg struct {
			m    *dns.Msg
			snap string
		}
		live := map[string]*liveMsg{}
		var ids []string
		n := 0
		newID := func() string { n++; return fmt.Sprintf("m%d", n) }
		damaged := func(except string) []string {
			d := []string{}
			for id, lm := range live {
				if id != except && c07Snap(lm.m) != lm.snap {
					d = append(d, id)
				}
			}
			sort.Strings(d)
			return d
		}
		out.Emit(c07Event{Ev: "Reset", Beh: beh, Objs: []string{}, Damaged: []string{}})
		steps := 20 + rng.Intn(40)
		for i := 0; i < steps; i++ {
			r := rng.Intn(100)
			switch {
			case r < 20 || len(ids) == 0:
				id := newID()
				m := c07RandMsg(rng, n)
				if rng.Intn(2) == 0 {
					// as it comes from an upstream: unpacked from the wire by miekg/dns,
					// whose unpackers may hand out sub-slices of one array
					if b, err := m.Pack(); err == nil {
						if u := new(dns.Msg); u.Unpack(b) == nil {
							m = u
						}
					}
				}
				live[id] = &liveMsg{m: m, snap: c07Snap(m)}
				ids = append(ids, id)
				out.Emit(c07Event{Ev: "New", Beh: beh, M: id, Objs: c07Objs(m), Damaged: damaged(""), Equal: true})
			case r < 55:
				src := ids[rng.Intn(len(ids))]
				id := newID()
				cl := c.Clone(live[src].m)
				live[id] = &liveMsg{m: cl, snap: c07Snap(cl)}
				ids = append(ids, id)
				out.Emit(c07Event{Ev: "Clone", Beh: beh, M: id, Src: src, Objs: c07Objs(cl), Damaged: damaged(""),
					Equal: c07Snap(cl) == live[src].snap})
			case r < 75:
				id := ids[rng.Intn(len(ids))]
				c07Rewrite(rng, live[id].m)
				live[id].snap = c07Snap(live[id].m)
				out.Emit(c07Event{Ev: "Rewrite", Beh: beh, M: id, Objs: c07Objs(live[id].m), Damaged: damaged(id), Equal: true})
			default:
				k := rng.Intn(len(ids))
				id := ids[k]
				c.Dispose(live[id].m)
				delete(live, id)
				ids = append(ids[:k], ids[k+1:]...)
				out.Emit(c07Event{Ev: "Dispose", Beh: beh, M: id, Objs: []string{}, Damaged: damaged(""), Equal: true})
			}
		}
	}
}
