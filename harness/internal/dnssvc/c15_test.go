//go:build verif

// C15, stack level: the handlers that dnssvc.NewHandlers wires for SEVERAL
// servers of different protocols in SEVERAL server groups, with recording
// query-log and billing fakes.  Every request goes through the handler of one
// server; what is logged and billed while it is being processed must describe
// that request: its server's protocol, its name and type, its device and
// profile -- and must exist exactly when the profile opted in.
package dnssvc

import (
	"context"
	"fmt"
	"math/rand"
	"net"
	"net/netip"
	"net/url"
	"strings"
	"sync"
	"testing"
	"time"

	"github.com/AdguardTeam/AdGuardDNS/internal/access"
	"github.com/AdguardTeam/AdGuardDNS/internal/agd"
	"github.com/AdguardTeam/AdGuardDNS/internal/agdcache"
	"github.com/AdguardTeam/AdGuardDNS/internal/agdnet"
	"github.com/AdguardTeam/AdGuardDNS/internal/agdpasswd"
	"github.com/AdguardTeam/AdGuardDNS/internal/agdtest"
	"github.com/AdguardTeam/AdGuardDNS/internal/dnsmsg"
	"github.com/AdguardTeam/AdGuardDNS/internal/dnsserver"
	"github.com/AdguardTeam/AdGuardDNS/internal/dnsserver/dnsservertest"
	"github.com/AdguardTeam/AdGuardDNS/internal/filter"
	"github.com/AdguardTeam/AdGuardDNS/internal/geoip"
	"github.com/AdguardTeam/AdGuardDNS/internal/profiledb"
	"github.com/AdguardTeam/AdGuardDNS/internal/querylog"
	"github.com/AdguardTeam/golibs/logutil/slogutil"
	"github.com/miekg/dns"
	"github.com/prometheus/client_golang/prometheus"
)

type c15SLog struct {
	Proto int    `json:"proto"`
	Name  string `json:"name"`
	QType int    `json:"qt"`
	Dev   string `json:"dev"`
	Prof  string `json:"prof"`
	HasIP bool   `json:"hasip"`
	ReqID string `json:"reqid"`
}

type c15SBill struct {
	Proto int    `json:"proto"`
	Dev   string `json:"dev"`
}

type c15SEvent struct {
	Ev    string     `json:"ev"`
	Mode  string     `json:"mode"`
	Grp   string     `json:"grp"`
	Srv   string     `json:"srv"`
	Proto int        `json:"proto"`
	Attr  string     `json:"attr"`
	QLog  bool       `json:"qlog"`
	IPLog bool       `json:"iplog"`
	Name  string     `json:"name"`
	QType int        `json:"qt"`
	Dev   string     `json:"dev"`
	Prof  string     `json:"prof"`
	Via   string     `json:"via"`
	Err   string     `json:"err"`
	Logs  []c15SLog  `json:"logs"`
	Bills []c15SBill `json:"bills"`
}

type c15SRW struct{ local, remote net.Addr }

func (w *c15SRW) LocalAddr() net.Addr                                { return w.local }
func (w *c15SRW) RemoteAddr() net.Addr                               { return w.remote }
func (w *c15SRW) WriteMsg(context.Context, *dns.Msg, *dns.Msg) error { return nil }

type c15SProf struct {
	p      *agd.Profile
	d      *agd.Device
	linked netip.Addr
	ded    netip.Addr
}

const c15SDevDomain = "d.c15.example"

type c15STarget struct {
	g *agd.ServerGroup
	s *agd.Server
	h dnsserver.Handler
}

type c15SJob struct {
	ev  c15SEvent
	tg  c15STarget
	ri  *dnsserver.RequestInfo
	ra  net.Addr
	la  net.Addr
	req *dns.Msg
	key string
}

func TestVerifC15Stack(t *testing.T) {
	out := vhOpen(t)
	rng := rand.New(rand.NewSource(vhSeed()*7907 + 15))
	rounds := vhEnvInt("VERIF_ROUNDS", 3)
	per := vhEnvInt("VERIF_PER", 120)

	var mu sync.Mutex
	logs := map[string][]c15SLog{}   // by lower-case FQDN (unique per request)
	bills := map[string][]c15SBill{} // by device + start time is not unique: keyed through the request's context
	type ctxKey struct{}

	mkProf := func(id string, qlog, iplog bool, linked string) *c15SProf {
		d := &agd.Device{Auth: &agd.AuthSettings{Enabled: false, PasswordHash: agdpasswd.AllowAuthenticator{}},
			ID: agd.DeviceID("dev" + id), FilteringEnabled: true}
		if linked != "" {
			d.LinkedIP = netip.MustParseAddr(linked)
		}
		p := &agd.Profile{
			FilterConfig: &filter.ConfigClient{Custom: &filter.ConfigCustom{}, Parental: &filter.ConfigParental{},
				RuleList: &filter.ConfigRuleList{}, SafeBrowsing: &filter.ConfigSafeBrowsing{}},
			Access: access.EmptyProfile{}, BlockingMode: &dnsmsg.BlockingModeNullIP{}, Ratelimiter: agd.GlobalRatelimiter{},
			ID: agd.ProfileID("prof" + id), DeviceIDs: []agd.DeviceID{d.ID}, FilteredResponseTTL: 10 * time.Second,
			FilteringEnabled: true, QueryLogEnabled: qlog, IPLogEnabled: iplog,
		}
		return &c15SProf{p: p, d: d, linked: d.LinkedIP}
	}

	for round := 0; round < rounds; round++ {
		profs := []*c15SProf{mkProf("aaaa", true, true, "10.15.0.1"), mkProf("bbbb", true, false, "10.15.0.2"),
			mkProf("cccc", false, true, "10.15.0.3"), mkProf("dddd", true, rng.Intn(2) == 0, ""),
			// a profile deleted at the backend and not yet purged: its devices' queries are nobody's
			mkProf("eeee", true, true, "10.15.0.5")}
		profs[4].p.Deleted = true
		profs[0].ded, profs[1].ded, profs[4].ded = netip.MustParseAddr("94.149.16.1"), netip.MustParseAddr("94.149.16.2"),
			netip.MustParseAddr("94.149.16.5")
		byDev, byIP, byDed := map[agd.DeviceID]*c15SProf{}, map[netip.Addr]*c15SProf{}, map[netip.Addr]*c15SProf{}
		for _, x := range profs {
			byDev[x.d.ID] = x
			if x.linked.IsValid() {
				byIP[x.linked] = x
			}
			if x.ded.IsValid() {
				x.d.DedicatedIPs = []netip.Addr{x.ded}
				byDed[x.ded] = x
			}
		}
		profDB := agdtest.NewProfileDB()
		profDB.OnProfileByDeviceID = func(_ context.Context, id agd.DeviceID) (*agd.Profile, *agd.Device, error) {
			if x, ok := byDev[id]; ok {
				return x.p, x.d, nil
			}
			return nil, nil, profiledb.ErrDeviceNotFound
		}
		profDB.OnProfileByLinkedIP = func(_ context.Context, ip netip.Addr) (*agd.Profile, *agd.Device, error) {
			if x, ok := byIP[ip]; ok {
				return x.p, x.d, nil
			}
			return nil, nil, profiledb.ErrDeviceNotFound
		}
		profDB.OnProfileByDedicatedIP = func(_ context.Context, ip netip.Addr) (*agd.Profile, *agd.Device, error) {
			if x, ok := byDed[ip]; ok {
				return x.p, x.d, nil
			}
			return nil, nil, profiledb.ErrDeviceNotFound
		}
		profDB.OnProfileByHumanID = func(context.Context, agd.ProfileID, agd.HumanIDLower) (*agd.Profile, *agd.Device, error) {
			return nil, nil, profiledb.ErrDeviceNotFound
		}
		flt := &agdtest.Filter{
			OnFilterRequest:  func(context.Context, *filter.Request) (filter.Result, error) { return nil, nil },
			OnFilterResponse: func(context.Context, *filter.Response) (filter.Result, error) { return nil, nil },
		}
		fltStrg := &agdtest.FilterStorage{
			OnForConfig: func(context.Context, filter.Config) filter.Interface { return flt },
			OnHasListID: func(filter.ID) bool { return true },
		}
		upstream := dnsserver.HandlerFunc(func(ctx context.Context, rw dnsserver.ResponseWriter, req *dns.Msg) error {
			resp := dnsservertest.NewResp(dns.RcodeSuccess, req, dnsservertest.SectionAnswer{
				dnsservertest.NewA(req.Question[0].Name, 300, netip.MustParseAddr("192.0.2.15"))})
			return rw.WriteMsg(ctx, req, resp)
		})
		rl := agdtest.NewRateLimit()
		rl.OnIsRateLimited = func(context.Context, *dns.Msg, netip.Addr) (bool, bool, error) { return false, false, nil }
		rl.OnCountResponses = func(context.Context, *dns.Msg, netip.Addr) {}
		geoIP := agdtest.NewGeoIP()
		geoIP.OnData = func(string, netip.Addr) (*geoip.Location, error) { return nil, nil }
		global, err := access.NewGlobal(nil, nil)
		if err != nil {
			t.Fatal(err)
		}
		reg := prometheus.NewRegistry()
		prometheus.DefaultRegisterer, prometheus.DefaultGatherer = reg, reg

		// two server groups; the order of the servers inside a group varies with the round
		type srvSpec struct {
			name  string
			proto agd.Protocol
			port  int
		}
		specs := [][]srvSpec{
			{{"g1_dns", agd.ProtoDNS, 53}, {"g1_dot", agd.ProtoDoT, 853}, {"g1_doh", agd.ProtoDoH, 443}, {"g1_doq", agd.ProtoDoQ, 8853},
				{"g1_dnscrypt", agd.ProtoDNSCrypt, 5443},
				// a second server of a protocol the group already has, with other settings
				{"g1_dns_nolinked", agd.ProtoDNS, 5353}},
			{{"g2_doh", agd.ProtoDoH, 1443}, {"g2_dns", agd.ProtoDNS, 1053}, {"g2_dot", agd.ProtoDoT, 1853},
				{"g2_dns_plain", agd.ProtoDNS, 2053}},
		}
		var groups []*agd.ServerGroup
		fltGrps := map[agd.FilteringGroupID]*agd.FilteringGroup{}
		for gi, ss := range specs {
			rng.Shuffle(len(ss), func(i, j int) { ss[i], ss[j] = ss[j], ss[i] })
			fgID := agd.FilteringGroupID(fmt.Sprintf("fg%d", gi+1))
			fltGrps[fgID] = &agd.FilteringGroup{FilterConfig: &filter.ConfigGroup{Parental: &filter.ConfigParental{},
				RuleList: &filter.ConfigRuleList{}, SafeBrowsing: &filter.ConfigSafeBrowsing{}}, ID: fgID}
			g := &agd.ServerGroup{DDR: &agd.DDR{Enabled: false}, DeviceDomains: []string{c15SDevDomain},
				Name: agd.ServerGroupName(fmt.Sprintf("grp%d", gi+1)), FilteringGroup: fgID, ProfilesEnabled: true}
			for _, s := range ss {
				srv := &agd.Server{Name: agd.ServerName(s.name), Protocol: s.proto, ReadTimeout: 5 * time.Second,
					WriteTimeout: 5 * time.Second, LinkedIPEnabled: (s.proto == agd.ProtoDNS || s.proto == agd.ProtoDNSCrypt) && s.name != "g1_dns_nolinked"}
				if s.name == "g2_dns" {
					// bound to an interface prefix: clients are recognised by the dedicated address they sent to
					srv.SetBindData([]*agd.ServerBindData{{ListenConfig: &agdtest.ListenConfig{}, PrefixAddr: &agdnet.PrefixNetAddr{
						Prefix: netip.MustParsePrefix("94.149.16.0/24"), Net: "udp", Port: uint16(s.port)}}})
				} else {
					srv.SetBindData([]*agd.ServerBindData{{AddrPort: netip.AddrPortFrom(netip.MustParseAddr("94.149.15.15"), uint16(s.port))}})
				}
				g.Servers = append(g.Servers, srv)
			}
			groups = append(groups, g)
		}
		handlers, err := NewHandlers(context.Background(), &HandlersConfig{
			BaseLogger: slogutil.NewDiscardLogger(), Cloner: agdtest.NewCloner(),
			Cache:         &CacheConfig{Type: CacheTypeNone},
			HumanIDParser: agd.NewHumanIDParser(), Messages: agdtest.NewConstructor(t), StructuredErrors: agdtest.NewSDEConfig(true),
			AccessManager: global,
			BillStat: &agdtest.BillStatRecorder{OnRecord: func(ctx context.Context, id agd.DeviceID, _ geoip.Country, _ geoip.ASN,
				_ time.Time, p agd.Protocol) {
				k, _ := ctx.Value(ctxKey{}).(string)
				mu.Lock()
				bills[k] = append(bills[k], c15SBill{Proto: int(p), Dev: string(id)})
				mu.Unlock()
			}},
			CacheManager: agdcache.EmptyManager{},
			DNSCheck:     &agdtest.DNSCheck{OnCheck: func(context.Context, *dns.Msg, *agd.RequestInfo) (*dns.Msg, error) { return nil, nil }},
			DNSDB:        &agdtest.DNSDB{OnRecord: func(context.Context, *dns.Msg, *agd.RequestInfo) {}},
			ErrColl:      &agdtest.ErrorCollector{OnCollect: func(context.Context, error) {}}, FilterStorage: fltStrg, GeoIP: geoIP,
			Handler:     upstream,
			HashMatcher: &agdtest.HashMatcher{OnMatchByPrefix: func(context.Context, string) ([]string, bool, error) { return nil, false, nil }},
			ProfileDB:   profDB, PrometheusRegisterer: agdtest.NewTestPrometheusRegisterer(),
			QueryLog: &agdtest.QueryLog{OnWrite: func(ctx context.Context, e *querylog.Entry) error {
				k, _ := ctx.Value(ctxKey{}).(string)
				mu.Lock()
				logs[k] = append(logs[k], c15SLog{Proto: int(e.Protocol), Name: strings.ToLower(e.DomainFQDN), QType: int(e.RequestType),
					Dev: string(e.DeviceID), Prof: string(e.ProfileID), HasIP: e.RemoteIP.IsValid(), ReqID: e.RequestID.String()})
				mu.Unlock()
				return nil
			}},
			RateLimit: rl, RuleStat: &agdtest.RuleStat{OnCollect: func(context.Context, filter.ID, filter.RuleText) {}},
			MetricsNamespace: fmt.Sprintf("c15s_%d", round), FilteringGroups: fltGrps, ServerGroups: groups, EDEEnabled: true,
		})
		if err != nil {
			t.Fatalf("NewHandlers: %v", err)
		}
		var targets []c15STarget
		for _, g := range groups {
			for _, s := range g.Servers {
				h := handlers[HandlerKey{Server: s, ServerGroup: g}]
				if h == nil {
					t.Fatalf("no handler for %s/%s", g.Name, s.Name)
				}
				targets = append(targets, c15STarget{g, s, h})
			}
		}
		mk := func(i int, mode string) *c15SJob {
			tg := targets[rng.Intn(len(targets))]
			j := &c15SJob{tg: tg, ri: &dnsserver.RequestInfo{StartTime: time.Now()}}
			var who *c15SProf
			if rng.Intn(4) != 0 {
				who = profs[rng.Intn(len(profs))]
			}
			cip := netip.AddrFrom4([4]byte{198, 51, 100, byte(1 + rng.Intn(200))})
			via := "anonymous"
			laddr := tg.s.BindData()[0].AddrPort
			switch {
			case tg.s.BindsToInterfaces():
				// a dedicated address of the client's, or, for nobody, one that no device owns (such a
				// request is dropped without a trace)
				laddr = netip.AddrPortFrom(netip.MustParseAddr("94.149.16.200"), 1053)
				if who != nil && who.ded.IsValid() {
					laddr, via = netip.AddrPortFrom(who.ded, 1053), "dedicated-ip"
				} else {
					who = nil
				}
				j.ra, j.la = &net.UDPAddr{IP: cip.AsSlice(), Port: 1024 + rng.Intn(60000)}, net.UDPAddrFromAddrPort(laddr)
			default:
				c15SAddrs(rng, j, tg.s, &who, &cip, &via, laddr)
			}
			name := fmt.Sprintf("r%d-%d-%s.c15.example.", round, i, mode)
			qt := []uint16{dns.TypeA, dns.TypeAAAA, dns.TypeTXT, dns.TypeHTTPS}[rng.Intn(4)]
			j.key = name
			j.req = &dns.Msg{MsgHdr: dns.MsgHdr{Id: uint16(rng.Intn(65536)), RecursionDesired: true},
				Question: []dns.Question{{Name: name, Qtype: qt, Qclass: dns.ClassINET}}}
			j.ev = c15SEvent{Ev: "Req", Mode: mode, Grp: string(tg.g.Name), Srv: string(tg.s.Name), Proto: int(tg.s.Protocol), Attr: "anon",
				Name: name, QType: int(qt), Via: via, Logs: []c15SLog{}, Bills: []c15SBill{}}
			if who != nil && who.p.Deleted {
				j.ev.Via += "/deleted-profile"
			} else if who != nil {
				j.ev.Attr, j.ev.QLog, j.ev.IPLog, j.ev.Dev, j.ev.Prof = "profile", who.p.QueryLogEnabled, who.p.IPLogEnabled,
					string(who.d.ID), string(who.p.ID)
			}
			return j
		}
		run := func(j *c15SJob) {
			ctx, cancel := context.WithTimeout(context.WithValue(context.Background(), ctxKey{}, j.key), 5*time.Second)
			defer cancel()
			ctx = dnsserver.ContextWithServerInfo(ctx, &dnsserver.ServerInfo{Name: string(j.tg.s.Name),
				Addr: j.tg.s.BindData()[0].AddrPort.String(), Proto: j.tg.s.Protocol})
			ctx = dnsserver.ContextWithRequestInfo(ctx, j.ri)
			if err := j.tg.h.ServeDNS(ctx, &c15SRW{local: j.la, remote: j.ra}, j.req); err != nil {
				j.ev.Err = err.Error()
			}
		}
		collect := func(j *c15SJob) {
			mu.Lock()
			if l := logs[j.key]; l != nil {
				j.ev.Logs = l
			}
			if b := bills[j.key]; b != nil {
				j.ev.Bills = b
			}
			delete(logs, j.key)
			delete(bills, j.key)
			mu.Unlock()
			out.Emit(j.ev)
		}
		// one after another (the very first requests of every handler find its pools empty)
		for i := 0; i < per; i++ {
			j := mk(i, "seq")
			run(j)
			collect(j)
		}
		// several at once over all handlers
		var js []*c15SJob
		for i := 0; i < per; i++ {
			js = append(js, mk(i, "conc"))
		}
		var wg sync.WaitGroup
		for w := 0; w < 8; w++ {
			wg.Add(1)
			go func(w int) {
				defer wg.Done()
				for i := w; i < len(js); i += 8 {
					run(js[i])
				}
			}(w)
		}
		wg.Wait()
		for _, j := range js {
			collect(j)
		}
		mu.Lock()
		left := len(logs) + len(bills)
		mu.Unlock()
		if left != 0 {
			t.Fatalf("%d log/billing records of no request of this harness", left)
		}
	}
}

// c15SAddrs fills the addresses and the transport data of a request to a server bound to a socket address.
func c15SAddrs(rng *rand.Rand, j *c15SJob, srv *agd.Server, whoP **c15SProf, cipP *netip.Addr, viaP *string, laddr netip.AddrPort) {
	who, cip, via := *whoP, *cipP, *viaP
	defer func() { *whoP, *cipP, *viaP = who, cip, via }()
	tg := struct{ s *agd.Server }{srv}
	switch tg.s.Protocol {
	case agd.ProtoDNS, agd.ProtoDNSCrypt:
		// (DNSCrypt clients are never recognised: no device ID, and linked addresses are a plain-DNS thing)
		// a linked address counts only at a plain-DNS server that has linked addresses enabled
		switch {
		case who != nil && who.linked.IsValid() && tg.s.Protocol == agd.ProtoDNS && tg.s.LinkedIPEnabled:
			cip, via = who.linked, "linked-ip"
		case who != nil && who.linked.IsValid():
			cip, via, who = who.linked, "linked-ip-not-enabled-here", nil
		default:
			who = nil
		}
		j.ra, j.la = &net.UDPAddr{IP: cip.AsSlice(), Port: 1024 + rng.Intn(60000)}, net.UDPAddrFromAddrPort(laddr)
	case agd.ProtoDoT, agd.ProtoDoQ:
		j.ri.TLSServerName = "dns.c15.example"
		if who != nil {
			j.ri.TLSServerName, via = string(who.d.ID)+"."+c15SDevDomain, "sni"
		}
		j.ra, j.la = &net.TCPAddr{IP: cip.AsSlice(), Port: 1024 + rng.Intn(60000)}, net.TCPAddrFromAddrPort(laddr)
		if tg.s.Protocol == agd.ProtoDoQ {
			j.ra, j.la = &net.UDPAddr{IP: cip.AsSlice(), Port: 1024 + rng.Intn(60000)}, net.UDPAddrFromAddrPort(laddr)
		}
	case agd.ProtoDoH:
		j.ri.TLSServerName = "dns.c15.example"
		j.ri.URL = &url.URL{Path: dnsserver.PathDoH}
		if who != nil {
			j.ri.URL, via = &url.URL{Path: dnsserver.PathDoH + "/" + string(who.d.ID)}, "url-path"
		}
		j.ra, j.la = &net.TCPAddr{IP: cip.AsSlice(), Port: 1024 + rng.Intn(60000)}, net.TCPAddrFromAddrPort(laddr)
	}
}
