//go:build verif

package ratelimitmw

// C09 at the middleware: the real Middleware.Wrap with the real Backoff as the
// global limiter and profiles carrying a real agd.DefaultRatelimiter, under a
// virtual clock.  Recorded per request: the decision (nothing written and the
// next handler not run = drop), which bucket the harness expects to be charged
// (the client's subnet, or the profile when the client is inside the profile's
// configured client subnets).  TLC (TraceRateLimit.tla) decides.

import (
	"context"
	"math/rand"
	"net"
	"net/netip"
	"testing"
	"time"

	"github.com/AdguardTeam/AdGuardDNS/internal/access"
	"github.com/AdguardTeam/AdGuardDNS/internal/agd"
	"github.com/AdguardTeam/AdGuardDNS/internal/agdpasswd"
	"github.com/AdguardTeam/AdGuardDNS/internal/agdtest"
	"github.com/AdguardTeam/AdGuardDNS/internal/dnsmsg"
	"github.com/AdguardTeam/AdGuardDNS/internal/dnsserver"
	"github.com/AdguardTeam/AdGuardDNS/internal/dnsserver/ratelimit"
	"github.com/AdguardTeam/AdGuardDNS/internal/filter"
	"github.com/AdguardTeam/AdGuardDNS/internal/geoip"
	"github.com/AdguardTeam/golibs/logutil/slogutil"
	"github.com/c2h5oh/datasize"
	"github.com/miekg/dns"
	gocache "github.com/patrickmn/go-cache"
)

type c09LI struct {
	L int `json:"L"`
	I int `json:"I"`
}
type c09Par struct {
	V4   c09LI `json:"v4"`
	V6   c09LI `json:"v6"`
	Prof c09LI `json:"prof"`
	B    int   `json:"B"`
	Dur  int   `json:"Dur"`
	Per  int   `json:"Per"`
}
type c09Event struct {
	Ev      string  `json:"ev"`
	Par     *c09Par `json:"par,omitempty"`
	T       int     `json:"t"`
	Bucket  string  `json:"bucket"`
	Fam     string  `json:"fam"`
	Kind    string  `json:"kind"`
	Extra   int     `json:"extra"`
	Drop    bool    `json:"drop"`
	Written bool    `json:"written"`
	Next    bool    `json:"next"`
	Client  string  `json:"client"`
	Beh     int     `json:"beh"`
}

// the profile limiter works on a 1 s interval: one tick is 100 ms here
const c09Tick = 100 * time.Millisecond

var c09Epoch = time.Unix(1_800_000_000, 0)

type c09Clock struct{ ticks int }

func (c *c09Clock) Now() time.Time { return c09Epoch.Add(time.Duration(c.ticks) * c09Tick) }

type c09RW struct {
	written       bool
	local, remote net.Addr
}

func (w *c09RW) LocalAddr() net.Addr  { return w.local }
func (w *c09RW) RemoteAddr() net.Addr { return w.remote }
func (w *c09RW) WriteMsg(_ context.Context, _, _ *dns.Msg) error {
	w.written = true
	return nil
}

type c09Finder struct{ res map[netip.Addr]agd.DeviceResult }

func (f *c09Finder) Find(_ context.Context, _ *dns.Msg, raddr, _ netip.AddrPort) agd.DeviceResult {
	return f.res[raddr.Addr()]
}

func TestVerifC09MW(t *testing.T) {
	out := vhOpen(t)
	rng := rand.New(rand.NewSource(vhSeed() + 99))
	n := vhEnvInt("VERIF_NRANDOM", 100)
	const est = 200
	allowed := netip.MustParseAddr("198.51.100.77")
	// clients: anonymous ones in two subnets; profile devices inside and outside
	// the profile's configured client subnets; a profile without client subnets
	anon := []netip.Addr{netip.MustParseAddr("192.0.2.1"), netip.MustParseAddr("192.0.2.200"), netip.MustParseAddr("192.0.3.5"),
		netip.MustParseAddr("2001:db8:1::5"), netip.MustParseAddr("2001:db8:1:0:ffff::6")}
	p1In := []netip.Addr{netip.MustParseAddr("10.1.0.7"), netip.MustParseAddr("10.1.200.9")} // inside 10.1.0.0/16
	p1Out := []netip.Addr{netip.MustParseAddr("10.2.0.7")}                                      // profile p1, outside its subnets
	p2Any := []netip.Addr{netip.MustParseAddr("10.3.0.1"), netip.MustParseAddr("2001:db8:9::1")} // p2: no client subnets
	for beh := 0; beh < n; beh++ {
		par := c09Par{V4: c09LI{1 + rng.Intn(4), 5 + rng.Intn(20)}, V6: c09LI{1 + rng.Intn(3), 5 + rng.Intn(20)},
			Prof: c09LI{1 + rng.Intn(3), 10}, B: 1 + rng.Intn(3), Dur: 10 + rng.Intn(40), Per: 5 + rng.Intn(40)}
		clk := &c09Clock{}
		ratelimit.VerifNow, gocache.VerifNow, agd.VerifNow = clk.Now, clk.Now, clk.Now
		bo := ratelimit.NewBackoff(&ratelimit.BackoffConfig{
			Allowlist: ratelimit.NewDynamicAllowlist([]netip.Prefix{netip.PrefixFrom(allowed, 32)}, nil),
			Period:    time.Duration(par.Per) * c09Tick, Duration: time.Duration(par.Dur) * c09Tick, Count: uint(par.B),
			ResponseSizeEstimate: est * datasize.B,
			IPv4Count:            uint(par.V4.L), IPv4Interval: time.Duration(par.V4.I) * c09Tick, IPv4SubnetKeyLen: 24,
			IPv6Count: uint(par.V6.L), IPv6Interval: time.Duration(par.V6.I) * c09Tick, IPv6SubnetKeyLen: 48,
			RefuseANY: true,
		})
		mkProf := func(id string, nets []netip.Prefix) *agd.DeviceResultOK {
			return &agd.DeviceResultOK{
				Device: &agd.Device{Auth: &agd.AuthSettings{PasswordHash: agdpasswd.AllowAuthenticator{}}, ID: agd.DeviceID("dev" + id),
					FilteringEnabled: true},
				Profile: &agd.Profile{
					FilterConfig: &filter.ConfigClient{Custom: &filter.ConfigCustom{}, Parental: &filter.ConfigParental{},
						RuleList: &filter.ConfigRuleList{}, SafeBrowsing: &filter.ConfigSafeBrowsing{}},
					Access:       access.EmptyProfile{},
					BlockingMode: &dnsmsg.BlockingModeNullIP{},
					Ratelimiter: agd.NewDefaultRatelimiter(&agd.RatelimitConfig{ClientSubnets: nets, RPS: uint32(par.Prof.L),
						Enabled: true}, est*datasize.B),
					ID: agd.ProfileID(id), DeviceIDs: []agd.DeviceID{agd.DeviceID("dev" + id)}, FilteredResponseTTL: 10 * time.Second,
					FilteringEnabled: true,
				},
			}
		}
		p1 := mkProf("p1", []netip.Prefix{netip.MustParsePrefix("10.1.0.0/16")})
		p2 := mkProf("p2", nil)
		finder := &c09Finder{res: map[netip.Addr]agd.DeviceResult{}}
		for _, a := range append(append([]netip.Addr{}, p1In...), p1Out...) {
			finder.res[a] = p1
		}
		for _, a := range p2Any {
			finder.res[a] = p2
		}
		geo := agdtest.NewGeoIP()
		geo.OnData = func(string, netip.Addr) (*geoip.Location, error) { return nil, nil }
		global, err := access.NewGlobal(nil, nil)
		if err != nil {
			t.Fatal(err)
		}
		srv := &agd.Server{Name: "c09", Protocol: agd.ProtoDNS}
		srv.SetBindData([]*agd.ServerBindData{{AddrPort: netip.MustParseAddrPort("94.149.14.14:53")}})
		mw := New(&Config{
			Logger: slogutil.NewDiscardLogger(), Messages: agdtest.NewConstructor(t), FilteringGroup: &agd.FilteringGroup{},
			ServerGroup: &agd.ServerGroup{}, Server: srv, StructuredErrors: agdtest.NewSDEConfig(true), AccessManager: global,
			DeviceFinder: finder, ErrColl: agdtest.NewErrorCollector(), GeoIP: geo, Metrics: EmptyMetrics{}, Limiter: bo,
			Protocols: []agd.Protocol{agd.ProtoDNS}, EDEEnabled: true,
		})
		respSize := 0
		nextRan := false
		next := dnsserver.HandlerFunc(func(ctx context.Context, rw dnsserver.ResponseWriter, req *dns.Msg) error {
			nextRan = true
			resp := new(dns.Msg).SetReply(req)
			for resp.Len() < respSize {
				resp.Answer = append(resp.Answer, &dns.TXT{Hdr: dns.RR_Header{Name: req.Question[0].Name, Rrtype: dns.TypeTXT,
					Class: dns.ClassINET, Ttl: 1}, Txt: []string{"0123456789012345678901234567890123456789"}})
			}
			respSize = resp.Len()
			return rw.WriteMsg(ctx, req, resp)
		})
		h := mw.Wrap(next)
		out.Emit(c09Event{Ev: "Reset", Beh: beh, Par: &par})
		steps := 25 + rng.Intn(60)
		for i := 0; i < steps; i++ {
			if rng.Intn(10) < 3 {
				base := []int{par.V4.I, par.V6.I, par.Prof.I, par.Dur}[rng.Intn(4)]
				clk.ticks += []int{1, 1, 2, base - 1, base, base + 1}[rng.Intn(6)]
			}
			var ip netip.Addr
			bucket, fam, kind := "", "", "q"
			switch r := rng.Intn(100); {
			case r < 45:
				ip = anon[rng.Intn(len(anon))]
			case r < 60:
				ip = p1In[rng.Intn(len(p1In))]
				bucket, fam = "prof:p1", "prof"
			case r < 72:
				ip = p1Out[0]
			case r < 90:
				ip = p2Any[rng.Intn(len(p2Any))]
				bucket, fam = "prof:p2", "prof"
			default:
				ip, kind = allowed, "allow"
			}
			qt := dns.TypeA
			if rng.Intn(12) == 0 {
				qt = dns.TypeANY
				if fam != "prof" {
					// refusal of ANY is part of the global limiter; a profile's own
					// limiter counts an ANY query like any other
					kind = "any"
				}
			}
			if bucket == "" {
				fam = "v4"
				kl := 24
				if ip.Is6() {
					fam, kl = "v6", 48
				}
				pfx, _ := ip.Prefix(kl)
				bucket = pfx.String()
			}
			respSize = []int{0, 0, 0, est + 10, 2*est + 10}[rng.Intn(5)]
			req := new(dns.Msg).SetQuestion("example.org.", qt)
			rw := &c09RW{local: &net.UDPAddr{IP: net.IPv4(94, 149, 14, 14), Port: 53},
				remote: net.UDPAddrFromAddrPort(netip.AddrPortFrom(ip, uint16(2000+i)))}
			nextRan = false
			ctx := dnsserver.ContextWithServerInfo(context.Background(), &dnsserver.ServerInfo{Name: "c09", Addr: "94.149.14.14:53",
				Proto: agd.ProtoDNS})
			ctx = dnsserver.ContextWithRequestInfo(ctx, &dnsserver.RequestInfo{StartTime: clk.Now()})
			if err = h.ServeDNS(ctx, rw, req); err != nil {
				t.Fatalf("ServeDNS: %v", err)
			}
			extra := 0
			if nextRan && kind != "allow" {
				extra = respSize / est
			}
			drop := !rw.written && !nextRan
			out.Emit(c09Event{Ev: "Q", T: clk.ticks, Bucket: bucket, Fam: fam, Kind: kind, Extra: extra, Drop: drop,
				Written: rw.written, Next: nextRan, Client: ip.String(), Beh: beh})
		}
	}
}
