//go:build verif

package preservice

// C11, TXT protocol.  Replays the concrete sequences written by the
// hashprefix harness ($VERIF_C11_STEPS) through the real preservice
// middleware in front of the real hashprefix.Matcher and Storages: every
// PrefixQuery step becomes a TXT question, the recorded outcome is what the
// client would see (TXT strings / REFUSED) and whether the next handler was
// called.  The verdict is TLC's (TraceHashPrefix.tla).

import (
	"context"
	"net"
	"os"
	"strings"
	"testing"
	"time"

	"github.com/AdguardTeam/AdGuardDNS/internal/agd"
	"github.com/AdguardTeam/AdGuardDNS/internal/agdtest"
	"github.com/AdguardTeam/AdGuardDNS/internal/dnsmsg"
	"github.com/AdguardTeam/AdGuardDNS/internal/dnsserver"
	"github.com/AdguardTeam/AdGuardDNS/internal/filter"
	"github.com/AdguardTeam/AdGuardDNS/internal/filter/hashprefix"
	"github.com/AdguardTeam/golibs/logutil/slogutil"
	"github.com/miekg/dns"
)

type c11Name struct {
	N []string `json:"n"`
	P string   `json:"p"`
	R string   `json:"r"`
}

type c11CStep struct {
	A     string    `json:"a"`
	ID    string    `json:"id"`
	Names []c11Name `json:"names"`
	Text  string    `json:"text"`
	Host  []string  `json:"host"`
	QT    string    `json:"qt"`
	Strs  []string  `json:"strs"`
	QName string    `json:"qname"`
}

type c11Seq struct {
	Src   string     `json:"src"`
	Steps []c11CStep `json:"steps"`
}

type c11Event struct {
	Ev     string    `json:"ev"`
	Seg    int       `json:"seg"`
	Src    string    `json:"src"`
	ID     string    `json:"id"`
	Via    string    `json:"via"`
	Names  []c11Name `json:"names"`
	Obs    []string  `json:"obs"`
	Text   string    `json:"text"`
	Strs   []string  `json:"strs"`
	QName  string    `json:"qname"`
	Resp   string    `json:"resp"`
	Hashes []string  `json:"hashes"`
	Next   bool      `json:"next"`
	RCode  int       `json:"rcode"`
}

func c11NewEvent(ev string, seg int, src string) *c11Event {
	return &c11Event{Ev: ev, Seg: seg, Src: src, Names: []c11Name{}, Obs: []string{}, Strs: []string{},
		Hashes: []string{}}
}

func TestVerifC11Middleware(t *testing.T) {
	out := vhOpen(t)
	p := os.Getenv("VERIF_C11_STEPS")
	if p == "" {
		t.Fatal("VERIF_C11_STEPS not set")
	}
	var seqs []c11Seq
	vhReadJSON(t, p, &seqs)

	msgs, err := dnsmsg.NewConstructor(&dnsmsg.ConstructorConfig{
		Cloner:              agdtest.NewCloner(),
		BlockingMode:        &dnsmsg.BlockingModeNullIP{},
		StructuredErrors:    agdtest.NewSDEConfig(true),
		FilteredResponseTTL: 10 * time.Second,
		EDEEnabled:          true,
	})
	if err != nil {
		t.Fatal(err)
	}
	ctx := context.Background()
	ctx = dnsserver.ContextWithRequestInfo(ctx, &dnsserver.RequestInfo{StartTime: time.Now()})
	ctx = dnsserver.ContextWithServerInfo(ctx, &dnsserver.ServerInfo{})
	remote := &net.TCPAddr{IP: net.IP{192, 0, 2, 7}, Port: 12345}

	for seg, sq := range seqs {
		strg := map[string]*hashprefix.Storage{}
		for _, id := range []string{"sb", "pc"} {
			if strg[id], err = hashprefix.NewStorage(""); err != nil {
				t.Fatal(err)
			}
		}
		matcher := hashprefix.NewMatcher(map[string]*hashprefix.Storage{
			filter.GeneralTXTSuffix:       strg["sb"],
			filter.AdultBlockingTXTSuffix: strg["pc"],
		})
		mw := New(&Config{
			Logger:      slogutil.NewDiscardLogger(),
			Messages:    msgs,
			HashMatcher: matcher,
			Checker: &agdtest.DNSCheck{OnCheck: func(context.Context, *dns.Msg, *agd.RequestInfo) (*dns.Msg, error) {
				return nil, nil
			}},
		})
		nextCalled := false
		next := dnsserver.HandlerFunc(func(ctx context.Context, rw dnsserver.ResponseWriter, req *dns.Msg) error {
			nextCalled = true
			resp := (&dns.Msg{}).SetReply(req)
			return rw.WriteMsg(ctx, req, resp)
		})
		h := mw.Wrap(next)
		out.Emit(c11NewEvent("Start", seg, sq.Src))
		for _, s := range sq.Steps {
			switch s.A {
			case "Reset":
				if _, err = strg[s.ID].Reset(s.Text); err != nil {
					t.Fatalf("Storage.Reset: %v", err)
				}
				e := c11NewEvent("Reset", seg, sq.Src)
				e.ID, e.Via, e.Names, e.Text = s.ID, "unobserved", s.Names, s.Text
				out.Emit(e)
			case "PrefixQuery":
				// The initial middleware hands the host over lowercased and
				// not fully qualified.
				qname := strings.ToLower(s.QName)
				if qname == "" {
					continue
				}
				e := c11NewEvent("PrefixQuery", seg, sq.Src)
				e.ID, e.Via, e.QName = s.ID, "mw", qname
				for _, str := range s.Strs {
					e.Strs = append(e.Strs, strings.ToLower(str))
				}
				req := &dns.Msg{}
				req.SetQuestion(dns.Fqdn(qname), dns.TypeTXT)
				ri := &agd.RequestInfo{Messages: msgs, Host: qname, QType: dns.TypeTXT, QClass: dns.ClassINET}
				rw := dnsserver.NewNonWriterResponseWriter(nil, remote)
				nextCalled = false
				if err = h.ServeDNS(agd.ContextWithRequestInfo(ctx, ri), rw, req); err != nil {
					t.Fatalf("ServeDNS(%q): %v", qname, err)
				}
				resp := rw.Msg()
				e.Next = nextCalled
				switch {
				case resp == nil:
					e.Resp, e.RCode = "no-response", -1
				case nextCalled:
					e.Resp, e.RCode = "passed", resp.Rcode
				case resp.Rcode == dns.RcodeRefused && len(resp.Answer) == 0:
					e.Resp, e.RCode = "refused", resp.Rcode
				case resp.Rcode == dns.RcodeSuccess:
					e.Resp, e.RCode = "answer", resp.Rcode
					for _, rr := range resp.Answer {
						txt, ok := rr.(*dns.TXT)
						if !ok {
							e.Resp = "answer-with-" + dns.TypeToString[rr.Header().Rrtype]
							continue
						}
						e.Hashes = append(e.Hashes, txt.Txt...)
					}
				default:
					e.Resp, e.RCode = "rcode-"+dns.RcodeToString[resp.Rcode], resp.Rcode
				}
				out.Emit(e)
			}
		}
	}
}
