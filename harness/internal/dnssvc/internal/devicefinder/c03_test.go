//go:build verif

package devicefinder

// C03 recorder.  For every abstract vector (see specs/DeviceAuth.tla) a fresh,
// real profiledb.Default is filled through scripted profiledb.Storage syncs (a
// full sync with everything alive, then a partial sync that deletes the profile
// and/or detaches the device), a real devicefinder.Default is built for the
// server settings of the vector, and one request is sent through the real
// ratelimitmw.Middleware.  Recorded: what Find returned and what the handler
// behind the middleware saw in agd.RequestInfo.  TLC (TraceDeviceAuth.tla)
// decides; nothing is asserted here.

import (
	"context"
	"fmt"
	"math/rand"
	"net"
	"net/http"
	"net/netip"
	"net/url"
	"strings"
	"testing"
	"time"

	"github.com/AdguardTeam/AdGuardDNS/internal/access"
	"github.com/AdguardTeam/AdGuardDNS/internal/agd"
	"github.com/AdguardTeam/AdGuardDNS/internal/agdnet"
	"github.com/AdguardTeam/AdGuardDNS/internal/agdpasswd"
	"github.com/AdguardTeam/AdGuardDNS/internal/agdtest"
	"github.com/AdguardTeam/AdGuardDNS/internal/dnsmsg"
	"github.com/AdguardTeam/AdGuardDNS/internal/dnsserver"
	"github.com/AdguardTeam/AdGuardDNS/internal/dnssvc/internal/ratelimitmw"
	"github.com/AdguardTeam/AdGuardDNS/internal/geoip"
	"github.com/AdguardTeam/AdGuardDNS/internal/profiledb"
	"github.com/AdguardTeam/golibs/logutil/slogutil"
	"github.com/c2h5oh/datasize"
	"github.com/miekg/dns"
	"golang.org/x/crypto/bcrypt"
)

// c03Vec is the abstract vector; field names and values as in DeviceAuth.tla.
type c03Vec struct {
	Proto   string `json:"proto"`
	Path    string `json:"path"`
	UI      string `json:"ui"`
	SNI     string `json:"sni"`
	EDNS    string `json:"edns"`
	Local   string `json:"local"`
	Remote  string `json:"remote"`
	Linked  bool   `json:"linked"`
	BindIf  bool   `json:"bindif"`
	DD      bool   `json:"dd"`
	Auth    string `json:"auth"`
	Live    bool   `json:"live"`
	Att     bool   `json:"att"`
	AutoDev bool   `json:"autodev"`
}

var (
	c03Protos  = []string{"DNS", "DoT", "DoQ", "DoH", "DNSCrypt"}
	c03Paths   = []string{"none", "dev", "oth", "unk", "bad", "human"}
	c03UIs     = []string{"absent", "user", "empty", "wrong", "right", "unkuser", "baduser"}
	c03SNIs    = []string{"none", "dev", "devcase", "nested", "other", "oth", "unk", "bad", "human"}
	c03EDNSs   = []string{"none", "dev", "oth", "unk", "bad"}
	c03Locals  = []string{"own", "deddev", "dedoth", "dedunk"}
	c03Remotes = []string{"linkdev", "linkoth", "other"}
	c03Auths   = []string{"off", "on", "dohonly"}
	c03Bools   = []bool{false, true}
)

type c03DB struct {
	auth      string
	live, att bool
}

func c03DBStates() (res []c03DB) {
	for _, a := range c03Auths {
		for _, l := range c03Bools {
			for _, at := range c03Bools {
				res = append(res, c03DB{a, l, at})
			}
		}
	}
	return res
}

// c03Factored enumerates the factored product exactly as Init of
// DeviceAuth.tla does (InitPlain, InitTLS, InitDoH, InitCrypt).
func c03Factored() (vs []c03Vec) {
	dbs := c03DBStates()
	autoOK := func(path, sni string, a bool) bool { return !a || path == "human" || sni == "human" }
	for _, e := range c03EDNSs {
		for _, lo := range c03Locals {
			for _, re := range c03Remotes {
				for _, li := range c03Bools {
					for _, bi := range c03Bools {
						for _, db := range dbs {
							vs = append(vs, c03Vec{"DNS", "none", "absent", "none", e, lo, re, li, bi, false,
								db.auth, db.live, db.att, false})
						}
					}
				}
			}
		}
	}
	for _, p := range []string{"DoT", "DoQ"} {
		for _, s := range c03SNIs {
			for _, e := range []string{"none", "dev"} {
				for _, lo := range []string{"own", "deddev"} {
					for _, re := range []string{"linkdev", "other"} {
						for _, li := range c03Bools {
							for _, bi := range c03Bools {
								for _, dd := range c03Bools {
									for _, db := range dbs {
										for _, a := range c03Bools {
											if autoOK("none", s, a) {
												vs = append(vs, c03Vec{p, "none", "absent", s, e, lo, re, li, bi, dd,
													db.auth, db.live, db.att, a})
											}
										}
									}
								}
							}
						}
					}
				}
			}
		}
	}
	for _, pa := range c03Paths {
		for _, u := range c03UIs {
			for _, s := range c03SNIs {
				for _, dec := range c03Bools {
					for _, dd := range c03Bools {
						for _, db := range dbs {
							for _, a := range c03Bools {
								if !autoOK(pa, s, a) {
									continue
								}
								v := c03Vec{"DoH", pa, u, s, "none", "own", "other", false, false, dd,
									db.auth, db.live, db.att, a}
								if dec {
									v.EDNS, v.Local, v.Remote, v.Linked, v.BindIf = "dev", "deddev", "linkdev", true, true
								}
								vs = append(vs, v)
							}
						}
					}
				}
			}
		}
	}
	for _, e := range []string{"none", "dev"} {
		for _, lo := range []string{"own", "deddev"} {
			for _, re := range []string{"linkdev", "other"} {
				for _, li := range c03Bools {
					for _, bi := range c03Bools {
						for _, db := range dbs {
							vs = append(vs, c03Vec{"DNSCrypt", "none", "absent", "none", e, lo, re, li, bi, false,
								db.auth, db.live, db.att, false})
						}
					}
				}
			}
		}
	}
	return vs
}

// c03Random draws a vector from the complete, unfactored product.
func c03Random(rng *rand.Rand) (v c03Vec) {
	pick := func(s []string) string { return s[rng.Intn(len(s))] }
	v = c03Vec{pick(c03Protos), pick(c03Paths), pick(c03UIs), pick(c03SNIs), pick(c03EDNSs), pick(c03Locals),
		pick(c03Remotes), rng.Intn(2) == 0, rng.Intn(2) == 0, rng.Intn(2) == 0, pick(c03Auths), rng.Intn(2) == 0,
		rng.Intn(2) == 0, false}
	if v.Path == "human" || v.SNI == "human" {
		v.AutoDev = rng.Intn(2) == 0
	}
	return v
}

// ---------------------------------------------------------------- concretiser

const c03Alnum = "abcdefghijklmnopqrstuvwxyz0123456789"

// c03ID returns a valid lower-case device or profile id of length n with at
// most one inner hyphen (two hyphens would read as an extended human id).
func c03ID(rng *rand.Rand, n int, hyphen bool) string {
	b := make([]byte, n)
	for i := range b {
		b[i] = c03Alnum[rng.Intn(len(c03Alnum))]
	}
	if hyphen && n >= 3 && rng.Intn(4) == 0 {
		b[1+rng.Intn(n-2)] = '-'
	}
	return string(b)
}

func c03IDLen(rng *rand.Rand) int {
	switch rng.Intn(8) {
	case 0, 1:
		return 1
	case 2, 3, 4:
		return 8
	default:
		return 2 + rng.Intn(6)
	}
}

// c03Case flips the case of some letters; if force, at least one letter is
// upper-case whenever s has a letter.
func c03Case(rng *rand.Rand, s string, force bool) string {
	b := []byte(s)
	done := false
	for i, c := range b {
		if c >= 'a' && c <= 'z' && rng.Intn(2) == 0 {
			b[i] = c - 32
			done = true
		}
	}
	if force && !done {
		for i, c := range b {
			if c >= 'a' && c <= 'z' {
				b[i] = c - 32
				break
			}
		}
	}
	return string(b)
}

func c03HasLetter(s string) bool { return strings.ContainsAny(s, "abcdefghijklmnopqrstuvwxyz") }

type c03Pw struct {
	pw   string
	hash []byte
}

// c03World is the concrete database content and server of one case.
type c03World struct {
	DevID, OthID, UnkID  agd.DeviceID
	PDev, POth           agd.ProfileID
	DevHuman             string // as configured (mixed case allowed by the backend? kept lower)
	DevLinked, OthLinked netip.Addr
	DevDed, OthDed       []netip.Addr
	UnkDed               netip.Addr
	Own                  []netip.AddrPort
	Domains              []string
	Password             string
	AuthNote             string
	DeletedKeepsDevs     bool
	Sibling              bool
	autoID               agd.DeviceID
	autoCalls            int
	db                   *profiledb.Default
	srv                  *agd.Server
}

type c03Conc struct {
	Server   string   `json:"server"`
	Domains  []string `json:"domains"`
	URL      string   `json:"url"`
	User     string   `json:"user"`
	Pass     string   `json:"pass"`
	PassSet  bool     `json:"pass_set"`
	HasUI    bool     `json:"has_userinfo"`
	SNI      string   `json:"sni"`
	EDNS     []string `json:"edns"`
	LAddr    string   `json:"laddr"`
	RAddr    string   `json:"raddr"`
	DevID    string   `json:"dev_id"`
	OthID    string   `json:"oth_id"`
	PDev     string   `json:"pdev"`
	POth     string   `json:"poth"`
	DevHuman string   `json:"dev_human"`
	DevLink  string   `json:"dev_linked"`
	DevDed   []string `json:"dev_dedicated"`
	DBNote   string   `json:"db"`
	Password string   `json:"dev_password"`
}

type c03Find struct {
	Kind   string `json:"kind"`
	Dev    string `json:"dev"`
	Prof   string `json:"prof"`
	DevID  string `json:"dev_id"`
	ProfID string `json:"prof_id"`
	Err    string `json:"err"`
}

type c03Down struct {
	Served bool   `json:"served"`
	Kind   string `json:"kind"`
	Dev    string `json:"dev"`
	Prof   string `json:"prof"`
}

type c03Event struct {
	ID       int     `json:"id"`
	Src      string  `json:"src"`
	V        c03Vec  `json:"v"`
	Conc     c03Conc `json:"conc"`
	Find     c03Find `json:"find"`
	Down     c03Down `json:"down"`
	MwErr    bool    `json:"mwerr"`
	MwErrStr string  `json:"mwerr_str"`
	AutoNew  int     `json:"auto_created"`
	FindN    int     `json:"find_calls"`
}

// c03Finder records what the real finder returned to the middleware.
type c03Finder struct {
	inner *Default
	res   agd.DeviceResult
	calls int
	// prime, if not nil, is returned (once) instead of asking the real finder:
	// the result of an unrelated EARLIER request through the same middleware.
	prime agd.DeviceResult
}

func (f *c03Finder) Find(ctx context.Context, req *dns.Msg, raddr, laddr netip.AddrPort) (r agd.DeviceResult) {
	if f.prime != nil {
		r, f.prime = f.prime, nil

		return r
	}
	f.calls++
	f.res = f.inner.Find(ctx, req, raddr, laddr)
	return f.res
}

func c03Addr(rng *rand.Rand, net4 string, net6 string, used map[netip.Addr]bool) netip.Addr {
	for {
		var a netip.Addr
		if rng.Intn(3) == 0 {
			a = netip.MustParseAddr(fmt.Sprintf("%s%x:%x", net6, rng.Intn(0xffff), 1+rng.Intn(0xfffe)))
		} else {
			a = netip.MustParseAddr(fmt.Sprintf("%s%d.%d", net4, rng.Intn(256), 1+rng.Intn(254)))
		}
		if !used[a] {
			used[a] = true
			return a
		}
	}
}

var c03Humans = []string{"iphone", "My-Phone", "xiaomi-redmi-9", "a", "tv--living", "Pixel-8-Pro", "x1", "Kids-Tablet-2"}
var c03Types = []string{"win", "adr", "mac", "ios", "lnx", "rtr", "stv", "gam", "otr"}

func c03NewProfile(id agd.ProfileID, devs []agd.DeviceID, autodev bool) *agd.Profile {
	return &agd.Profile{
		Access:              access.EmptyProfile{},
		BlockingMode:        &dnsmsg.BlockingModeNullIP{},
		Ratelimiter:         agd.GlobalRatelimiter{},
		ID:                  id,
		DeviceIDs:           devs,
		FilteredResponseTTL: 10 * time.Second,
		AutoDevicesEnabled:  autodev,
		FilteringEnabled:    true,
	}
}

// c03Build creates the world of one vector.
func c03Build(t testing.TB, rng *rand.Rand, v c03Vec, pws []c03Pw) (w *c03World) {
	w = &c03World{}
	ids := map[string]bool{}
	newID := func(n int) agd.DeviceID {
		for {
			s := c03ID(rng, n, true)
			if !ids[s] {
				ids[s] = true
				return agd.DeviceID(s)
			}
		}
	}
	w.DevID = newID(c03IDLen(rng))
	w.OthID = newID(c03IDLen(rng))
	// the unknown id is often a near miss of dev's id
	switch n := len(w.DevID); {
	case rng.Intn(3) == 0 && n < 8 && !ids[string(w.DevID)+"0"]:
		w.UnkID = agd.DeviceID(string(w.DevID) + "0")
		ids[string(w.UnkID)] = true
	case rng.Intn(3) == 0 && n > 1 && !ids[string(w.DevID[:n-1])] && w.DevID[n-2] != '-':
		w.UnkID = w.DevID[:n-1]
		ids[string(w.UnkID)] = true
	default:
		w.UnkID = newID(c03IDLen(rng))
	}
	w.PDev = agd.ProfileID(c03ID(rng, 1+rng.Intn(8), false))
	for {
		w.POth = agd.ProfileID(c03ID(rng, 1+rng.Intn(8), false))
		if w.POth != w.PDev {
			break
		}
	}
	w.DevHuman = c03Humans[rng.Intn(len(c03Humans))]
	used := map[netip.Addr]bool{}
	w.DevLinked = c03Addr(rng, "198.51.", "2001:db8:1::", used)
	w.OthLinked = c03Addr(rng, "198.51.", "2001:db8:1::", used)
	w.DevDed = []netip.Addr{c03Addr(rng, "192.0.", "2001:db8:2::", used)}
	if rng.Intn(2) == 0 {
		w.DevDed = append(w.DevDed, c03Addr(rng, "192.0.", "2001:db8:2::", used))
	}
	w.OthDed = []netip.Addr{c03Addr(rng, "192.0.", "2001:db8:2::", used)}
	w.UnkDed = c03Addr(rng, "192.0.", "2001:db8:2::", used)
	w.Own = []netip.AddrPort{netip.MustParseAddrPort("203.0.113.1:53"), netip.MustParseAddrPort("[2001:db8:ffff::1]:53")}
	if v.DD {
		w.Domains = [][]string{{"d.example.com"}, {"dns.example.net", "d.example.com"}, {"d.example.com", "subdomain.d.example.com"}}[rng.Intn(3)]
	}

	pw := pws[rng.Intn(len(pws))]
	w.Password = pw.pw
	if (v.UI == "wrong" || v.UI == "empty") && rng.Intn(3) == 0 {
		// a stored hash no password can match (empty, cut, not a hash, impossible cost): every password is
		// a wrong one (the backend passes the bytes through unvalidated)
		pw.hash = [][]byte{{}, []byte("$2a$04$tooshort"), []byte(pw.pw), []byte("$2a$99$" + strings.Repeat("A", 53)),
			[]byte("$9z$04$" + strings.Repeat("A", 53))}[rng.Intn(5)]
		w.AuthNote = "unusable-stored-hash"
	}
	auth := &agd.AuthSettings{PasswordHash: agdpasswd.AllowAuthenticator{}}
	switch v.Auth {
	case "off":
		if rng.Intn(2) == 0 {
			// everything set but not enabled: must behave as no authentication
			auth = &agd.AuthSettings{PasswordHash: agdpasswd.NewPasswordHashBcrypt(pw.hash), DoHAuthOnly: true}
			w.AuthNote = "disabled-with-hash-and-dohonly"
		}
	case "on":
		auth = &agd.AuthSettings{PasswordHash: agdpasswd.NewPasswordHashBcrypt(pw.hash), Enabled: true}
	case "dohonly":
		auth = &agd.AuthSettings{PasswordHash: agdpasswd.NewPasswordHashBcrypt(pw.hash), Enabled: true, DoHAuthOnly: true}
	}
	noAuth := &agd.AuthSettings{PasswordHash: agdpasswd.AllowAuthenticator{}}

	dev := &agd.Device{Auth: auth, ID: w.DevID, LinkedIP: w.DevLinked, Name: "dev",
		HumanIDLower: agd.HumanIDLower(strings.ToLower(w.DevHuman)), DedicatedIPs: w.DevDed, FilteringEnabled: true}
	oth := &agd.Device{Auth: noAuth, ID: w.OthID, LinkedIP: w.OthLinked, Name: "oth", DedicatedIPs: w.OthDed,
		FilteringEnabled: true}
	devIDs := []agd.DeviceID{w.DevID}
	devices := []*agd.Device{dev, oth}
	w.Sibling = rng.Intn(2) == 0
	if w.Sibling {
		sib := &agd.Device{Auth: noAuth, ID: newID(c03IDLen(rng)), Name: "sibling", FilteringEnabled: true}
		devices = append(devices, sib)
		if rng.Intn(2) == 0 {
			devIDs = []agd.DeviceID{sib.ID, w.DevID}
		} else {
			devIDs = append(devIDs, sib.ID)
		}
	}
	pdev := c03NewProfile(w.PDev, devIDs, v.AutoDev)
	poth := c03NewProfile(w.POth, []agd.DeviceID{w.OthID}, false)

	w.DeletedKeepsDevs = rng.Intn(2) == 0
	var second *profiledb.StorageProfilesResponse
	if !v.Live || !v.Att {
		// the partial sync: the profile comes again, deleted and/or without
		// dev; dev stays listed whenever the vector says "attached"
		var rest []agd.DeviceID
		for _, id := range devIDs {
			if id != w.DevID || v.Att {
				rest = append(rest, id)
			}
		}
		if !v.Live && !v.Att && !w.DeletedKeepsDevs {
			rest = nil
		}
		p2 := c03NewProfile(w.PDev, rest, v.AutoDev)
		p2.Deleted = !v.Live
		second = &profiledb.StorageProfilesResponse{Profiles: []*agd.Profile{p2}}
	}

	calls := 0
	strg := &agdtest.ProfileStorage{
		OnCreateAutoDevice: func(
			_ context.Context,
			req *profiledb.StorageCreateAutoDeviceRequest,
		) (resp *profiledb.StorageCreateAutoDeviceResponse, err error) {
			w.autoCalls++
			w.autoID = agd.DeviceID(fmt.Sprintf("auto%04d", w.autoCalls))
			return &profiledb.StorageCreateAutoDeviceResponse{Device: &agd.Device{
				Auth: noAuth, ID: w.autoID, Name: agd.DeviceName(req.HumanID),
				HumanIDLower: agd.HumanIDToLower(req.HumanID), FilteringEnabled: true,
			}}, nil
		},
		OnProfiles: func(
			_ context.Context,
			_ *profiledb.StorageProfilesRequest,
		) (resp *profiledb.StorageProfilesResponse, err error) {
			calls++
			if calls == 1 {
				return &profiledb.StorageProfilesResponse{SyncTime: time.Now(), Profiles: []*agd.Profile{pdev, poth},
					Devices: devices}, nil
			}
			second.SyncTime = time.Now()
			return second, nil
		},
	}
	db, err := profiledb.New(&profiledb.Config{
		Logger:               slogutil.NewDiscardLogger(),
		Storage:              strg,
		ErrColl:              agdtest.NewErrorCollector(),
		Metrics:              profiledb.EmptyMetrics{},
		CacheFilePath:        "none",
		FullSyncIvl:          time.Hour,
		FullSyncRetryIvl:     time.Hour,
		ResponseSizeEstimate: 1 * datasize.KB,
	})
	if err != nil {
		t.Fatalf("profiledb.New: %v", err)
	}
	ctx := context.Background()
	if err = db.Refresh(ctx); err != nil {
		t.Fatalf("full refresh: %v", err)
	}
	if second != nil {
		if err = db.Refresh(ctx); err != nil {
			t.Fatalf("partial refresh: %v", err)
		}
		if calls != 2 {
			t.Fatalf("storage called %d times", calls)
		}
	}
	w.db = db

	protos := map[string]agd.Protocol{"DNS": agd.ProtoDNS, "DoT": agd.ProtoDoT, "DoQ": agd.ProtoDoQ, "DoH": agd.ProtoDoH,
		"DNSCrypt": agd.ProtoDNSCrypt}
	w.srv = &agd.Server{Name: "verif_srv", Protocol: protos[v.Proto], LinkedIPEnabled: v.Linked}
	netw := "udp"
	if v.Proto == "DoT" || v.Proto == "DoH" || rng.Intn(3) == 0 && v.Proto == "DNS" {
		netw = "tcp"
	}
	if v.BindIf {
		var bd []*agd.ServerBindData
		for _, o := range w.Own {
			bd = append(bd, &agd.ServerBindData{ListenConfig: &agdtest.ListenConfig{},
				PrefixAddr: &agdnet.PrefixNetAddr{Prefix: netip.PrefixFrom(o.Addr(), o.Addr().BitLen()), Net: netw, Port: o.Port()}})
		}
		w.srv.SetBindData(bd)
	} else if rng.Intn(2) == 0 {
		var bd []*agd.ServerBindData
		for _, o := range w.Own {
			bd = append(bd, &agd.ServerBindData{AddrPort: o})
		}
		w.srv.SetBindData(bd)
	}
	return w
}

func c03NetAddr(rng *rand.Rand, netw string, a netip.Addr, port uint16) net.Addr {
	ip := net.IP(a.AsSlice())
	if a.Is4() && rng.Intn(2) == 0 {
		ip = ip.To16() // 4-in-6 form as the kernel reports it on dual-stack sockets
	}
	if netw == "tcp" {
		return &net.TCPAddr{IP: ip, Port: int(port)}
	}
	return &net.UDPAddr{IP: ip, Port: int(port)}
}

func c03Pick(rng *rand.Rand, s ...string) string { return s[rng.Intn(len(s))] }

// c03BadID returns a malformed identifier for a label/path position.
// forLabel: usable as a DNS label of a server name; humanParse: the position is
// scanned for extended human ids (path and server name, not userinfo / EDNS).
func (w *c03World) badID(rng *rand.Rand, forLabel, humanParse bool) string {
	d := string(w.DevID)
	pad := d + strings.Repeat("x", 9-len(d)) // 9 chars, dev's id as prefix
	opts := []string{pad, c03ID(rng, 9, false), "ab_cd", "-abc", "abc-", "otr-" + string(w.PDev) + "-", c03ID(rng, 20, false)}
	if humanParse {
		opts = append(opts, "x-y-z", "zzz-"+string(w.PDev)+"-"+w.DevHuman)
	}
	if !forLabel {
		opts = append(opts, "a!b", "dév", d+"%")
	}
	return opts[rng.Intn(len(opts))]
}

func (w *c03World) humanExt(rng *rand.Rand) string {
	typ := c03Types[rng.Intn(len(c03Types))]
	h := w.DevHuman
	if rng.Intn(2) == 0 {
		typ = c03Case(rng, typ, false)
		h = c03Case(rng, h, false)
	}
	prof := string(w.PDev)
	if rng.Intn(3) == 0 {
		prof = c03Case(rng, prof, false)
	}
	return typ + "-" + prof + "-" + h
}

// idFor returns the concrete identifier string for class x in {dev, oth, unk}.
func (w *c03World) idFor(x string) string {
	switch x {
	case "dev", "devcase":
		return string(w.DevID)
	case "oth":
		return string(w.OthID)
	default:
		return string(w.UnkID)
	}
}

func (w *c03World) path(rng *rand.Rand, cls string) string {
	base := c03Pick(rng, "/dns-query", "/dns-query", "/resolve", "/query", "/y")
	wrap := func(id string) string {
		switch rng.Intn(8) {
		case 0:
			return base + "/" + id + "/"
		case 1:
			return "/" + base + "//" + id
		case 2:
			return base + "/./" + id
		case 3:
			return base + "/zz/../" + id
		case 4:
			return base + "/" + id + "/."
		default:
			return base + "/" + id
		}
	}
	switch cls {
	case "none":
		return c03Pick(rng, base, base+"/", base+"/.", base+"/x/..", "/"+base)
	case "dev", "oth", "unk":
		id := w.idFor(cls)
		if rng.Intn(2) == 0 {
			id = c03Case(rng, id, false)
		}
		return wrap(id)
	case "human":
		return wrap(w.humanExt(rng))
	default: // bad
		if rng.Intn(4) == 0 {
			return base + "/" + string(w.DevID) + "/" + c03Pick(rng, "extra", string(w.DevID), "x/y")
		}
		return wrap(w.badID(rng, false, true))
	}
}

func (w *c03World) sni(rng *rand.Rand, cls string, dd bool) string {
	dom := "d.example.com"
	if dd {
		dom = w.Domains[rng.Intn(len(w.Domains))]
	}
	d := string(w.DevID)
	switch cls {
	case "none":
		return ""
	case "dev", "oth", "unk":
		return w.idFor(cls) + "." + dom
	case "devcase":
		s := d + "." + dom
		if !c03HasLetter(d) || rng.Intn(2) == 0 {
			return c03Case(rng, s, true)
		}
		return c03Case(rng, d, true) + "." + dom
	case "nested":
		// one label too many (never an immediate subdomain of a configured domain:
		// the only configured subdomain label has 9 characters, ids have <= 8)
		return c03Pick(rng, "a."+d+"."+dom, d+".y."+dom, d+"."+d+"."+dom)
	case "other":
		bare := "d.example.com"
		if dd {
			bare = w.Domains[0]
		}
		return c03Pick(rng, d+".other.example.org", d+".z"+dom, d+"."+dom+".evil.org", bare, d, d+".example.com",
			d+".example.net")
	case "human":
		return w.humanExt(rng) + "." + dom
	default: // bad
		return w.badID(rng, true, true) + "." + dom
	}
}

// c03Run executes one vector and returns the event.
func c03Run(t testing.TB, rng *rand.Rand, v c03Vec, pws []c03Pw) (ev c03Event) {
	w := c03Build(t, rng, v, pws)
	ev.V = v
	conc := &ev.Conc
	conc.Server = fmt.Sprintf("proto=%s linked_ip=%v binds_to_interfaces=%v", v.Proto, v.Linked, w.srv.BindsToInterfaces())
	conc.Domains = w.Domains
	conc.DevID, conc.OthID, conc.PDev, conc.POth = string(w.DevID), string(w.OthID), string(w.PDev), string(w.POth)
	conc.DevHuman, conc.DevLink, conc.Password = w.DevHuman, w.DevLinked.String(), w.Password
	for _, a := range w.DevDed {
		conc.DevDed = append(conc.DevDed, a.String())
	}
	conc.DBNote = fmt.Sprintf("auth=%s(%s) live=%v attached=%v autodev=%v deleted_keeps_devs=%v sibling=%v", v.Auth, w.AuthNote,
		v.Live, v.Att, v.AutoDev, w.DeletedKeepsDevs, w.Sibling)

	// request
	sri := &dnsserver.RequestInfo{StartTime: time.Now()}
	doh := v.Proto == "DoH"
	if doh || v.Path != "none" {
		p := w.path(rng, v.Path)
		sri.URL = &url.URL{Scheme: "https", Host: "dns.example.com", Path: p}
		if strings.HasPrefix(p, "/resolve") {
			sri.URL.RawQuery = "name=example.org"
		}
		conc.URL = p
	}
	if v.UI != "absent" {
		user, pass, set := string(w.DevID), "", true
		switch v.UI {
		case "user":
			set = false
		case "empty":
		case "wrong":
			pass = c03Pick(rng, w.Password+"x", w.Password[:len(w.Password)-1], strings.ToUpper(w.Password),
				"password", w.Password+" ", " "+w.Password, w.Password+strings.Repeat("a", 40), string(w.DevID))
			if pass == w.Password || pass == "" {
				pass += "1"
			}
		case "right":
			pass = w.Password
		case "unkuser":
			user, pass = string(w.UnkID), w.Password
		case "baduser":
			user, pass = c03Pick(rng, "", w.badID(rng, false, false)), w.Password
		}
		if set && rng.Intn(2) == 0 {
			// through the header, as dnsserver's addRequestInfo does
			hr := &http.Request{Header: http.Header{}}
			hr.SetBasicAuth(user, pass)
			if u2, p2, ok := hr.BasicAuth(); ok {
				sri.Userinfo = url.UserPassword(u2, p2)
			}
		} else if set {
			sri.Userinfo = url.UserPassword(user, pass)
		} else {
			sri.Userinfo = url.User(user)
		}
		conc.HasUI, conc.User, conc.Pass, conc.PassSet = true, user, pass, set
		if sri.Userinfo != nil {
			conc.User = sri.Userinfo.Username()
			conc.Pass, conc.PassSet = sri.Userinfo.Password()
		}
	}
	sri.TLSServerName = w.sni(rng, v.SNI, v.DD)
	conc.SNI = sri.TLSServerName

	req := &dns.Msg{}
	req.SetQuestion("example.org.", dns.TypeA)
	var opts []dns.EDNS0
	cpe := func(data string) {
		opts = append(opts, &dns.EDNS0_LOCAL{Code: DnsmasqCPEIDOption, Data: []byte(data)})
		conc.EDNS = append(conc.EDNS, fmt.Sprintf("65074:%q", data))
	}
	other := func() {
		opts = append(opts, &dns.EDNS0_LOCAL{Code: 65001, Data: []byte(w.DevID)})
		conc.EDNS = append(conc.EDNS, fmt.Sprintf("65001:%q", string(w.DevID)))
	}
	switch v.EDNS {
	case "none":
		switch rng.Intn(3) {
		case 0:
			other() // an OPT record without the CPE-ID option
		case 1:
			opts = []dns.EDNS0{} // empty OPT
		}
	case "bad":
		if rng.Intn(2) == 0 {
			other()
		}
		cpe(c03Pick(rng, "", w.badID(rng, false, false), "!!!"))
		if rng.Intn(2) == 0 {
			cpe(string(w.DevID)) // a valid one after the malformed one
		}
	default:
		if rng.Intn(2) == 0 {
			other()
		}
		cpe(w.idFor(v.EDNS))
		if rng.Intn(3) == 0 {
			cpe(string(w.OthID)) // the first option decides
		}
	}
	if opts != nil && rng.Intn(4) == 0 {
		// an unrelated, well-formed client-subnet option next to it
		ecs := &dns.EDNS0_SUBNET{Code: dns.EDNS0SUBNET, Family: 1, SourceNetmask: 24, Address: net.IP{192, 0, 2, 0}}
		if rng.Intn(2) == 0 {
			opts = append([]dns.EDNS0{ecs}, opts...)
		} else {
			opts = append(opts, ecs)
		}
		conc.EDNS = append(conc.EDNS, "ecs:192.0.2.0/24")
	}
	if opts != nil {
		o := &dns.OPT{Hdr: dns.RR_Header{Name: ".", Rrtype: dns.TypeOPT}, Option: opts}
		o.SetUDPSize(1232)
		req.Extra = append(req.Extra, o)
	}

	netw := "udp"
	if v.Proto == "DoT" || v.Proto == "DoH" {
		netw = "tcp"
	}
	var la netip.AddrPort
	switch v.Local {
	case "own":
		la = w.Own[rng.Intn(len(w.Own))]
	case "deddev":
		la = netip.AddrPortFrom(w.DevDed[rng.Intn(len(w.DevDed))], 53)
	case "dedoth":
		la = netip.AddrPortFrom(w.OthDed[0], 53)
	default:
		la = netip.AddrPortFrom(w.UnkDed, 53)
	}
	var ra netip.Addr
	switch v.Remote {
	case "linkdev":
		ra = w.DevLinked
	case "linkoth":
		ra = w.OthLinked
	default:
		ra = netip.MustParseAddr(c03Pick(rng, "203.0.113.77", "2001:db8:99::77", "198.51.255.255"))
	}
	laddr := c03NetAddr(rng, netw, la.Addr(), la.Port())
	raddr := c03NetAddr(rng, netw, ra, uint16(1024+rng.Intn(60000)))
	conc.LAddr, conc.RAddr = laddr.String(), raddr.String()

	// the real finder behind the real middleware
	rec := &c03Finder{inner: NewDefault(&Config{
		Logger:        slogutil.NewDiscardLogger(),
		ProfileDB:     w.db,
		HumanIDParser: agd.NewHumanIDParser(),
		Server:        w.srv,
		DeviceDomains: w.Domains,
	})}
	accessMgr, err := access.NewGlobal(nil, nil)
	if err != nil {
		t.Fatalf("access.NewGlobal: %v", err)
	}
	geoIP := agdtest.NewGeoIP()
	geoIP.OnData = func(_ string, _ netip.Addr) (l *geoip.Location, err error) { return nil, nil }
	mw := ratelimitmw.New(&ratelimitmw.Config{
		Logger:           slogutil.NewDiscardLogger(),
		Messages:         agdtest.NewConstructor(t),
		FilteringGroup:   &agd.FilteringGroup{},
		ServerGroup:      &agd.ServerGroup{},
		Server:           w.srv,
		StructuredErrors: agdtest.NewSDEConfig(true),
		AccessManager:    accessMgr,
		DeviceFinder:     rec,
		ErrColl:          agdtest.NewErrorCollector(),
		GeoIP:            geoIP,
		Metrics:          ratelimitmw.EmptyMetrics{},
		Limiter:          agdtest.NewRateLimit(),
		Protocols:        nil,
		EDEEnabled:       true,
	})
	abstract := func(res agd.DeviceResult) (kind, dev, prof, devID, profID, errStr string) {
		dev, prof = "none", "none"
		switch res := res.(type) {
		case nil:
			kind = "anon"
		case *agd.DeviceResultOK:
			kind = "ok"
			dev, prof = "foreign", "foreign"
			if res.Device != nil {
				devID = string(res.Device.ID)
				switch {
				case res.Device.ID == w.DevID:
					dev = "dev"
				case res.Device.ID == w.OthID:
					dev = "oth"
				case w.autoID != "" && res.Device.ID == w.autoID:
					dev = "auto"
				}
			}
			if res.Profile != nil {
				profID = string(res.Profile.ID)
				switch res.Profile.ID {
				case w.PDev:
					prof = "pdev"
				case w.POth:
					prof = "poth"
				}
			}
		case *agd.DeviceResultAuthenticationFailure:
			kind, errStr = "authfail", fmt.Sprint(res.Err)
		case *agd.DeviceResultUnknownDedicated:
			kind, errStr = "drop", fmt.Sprint(res.Err)
		case *agd.DeviceResultError:
			kind, errStr = "error", fmt.Sprint(res.Err)
		default:
			kind = fmt.Sprintf("%T", res)
		}
		return kind, dev, prof, devID, profID, errStr
	}
	ev.Down = c03Down{Kind: "none", Dev: "none", Prof: "none"}
	next := dnsserver.HandlerFunc(func(ctx context.Context, _ dnsserver.ResponseWriter, _ *dns.Msg) (err error) {
		ri := agd.MustRequestInfoFromContext(ctx)
		ev.Down.Served = true
		ev.Down.Kind, _, _, _, _, _ = abstract(ri.DeviceResult)
		p, d := ri.DeviceData()
		if p != nil || d != nil {
			_, ev.Down.Dev, ev.Down.Prof, _, _, _ = abstract(&agd.DeviceResultOK{Device: d, Profile: p})
		}
		return nil
	})
	ctx := dnsserver.ContextWithRequestInfo(context.Background(), sri)
	rw := dnsserver.NewNonWriterResponseWriter(laddr, raddr)
	// an unrelated earlier request of somebody else through the same middleware (whose
	// request context is recycled): what it was recognised as must leave no trace
	switch rng.Intn(5) {
	case 0:
		rec.prime = &agd.DeviceResultOK{
			Device:  &agd.Device{ID: "stale001", Auth: &agd.AuthSettings{Enabled: false, PasswordHash: agdpasswd.AllowAuthenticator{}}},
			Profile: c03NewProfile("stalepr1", []agd.DeviceID{"stale001"}, false),
		}
	case 1:
		rec.prime = &agd.DeviceResultAuthenticationFailure{Err: fmt.Errorf("stale authentication failure")}
	case 2:
		rec.prime = &agd.DeviceResultUnknownDedicated{Err: fmt.Errorf("stale unknown dedicated")}
	case 3:
		rec.prime = &agd.DeviceResultError{Err: fmt.Errorf("stale error")}
	}
	if rec.prime != nil {
		preq := new(dns.Msg).SetQuestion("earlier.example.", dns.TypeA)
		_ = mw.Wrap(dnsserver.HandlerFunc(func(context.Context, dnsserver.ResponseWriter, *dns.Msg) error { return nil })).ServeDNS(
			ctx, dnsserver.NewNonWriterResponseWriter(laddr, c03NetAddr(rng, netw, netip.MustParseAddr("203.0.113.200"), 4444)), preq)
		rec.prime = nil
	}
	mwErr := mw.Wrap(next).ServeDNS(ctx, rw, req)
	ev.MwErr = mwErr != nil
	if mwErr != nil {
		ev.MwErrStr = mwErr.Error()
	}
	ev.FindN = rec.calls
	ev.AutoNew = w.autoCalls
	ev.Find.Kind, ev.Find.Dev, ev.Find.Prof, ev.Find.DevID, ev.Find.ProfID, ev.Find.Err = abstract(rec.res)
	return ev
}

func TestVerifC03(t *testing.T) {
	out := vhOpen(t)
	seed := vhSeed()
	rng := rand.New(rand.NewSource(seed))

	// bcrypt at minimal cost: the hash function itself is not under test
	var pws []c03Pw
	for _, p := range []string{"123456", "correct horse battery staple", "p", "P@ss:w0rd with:colons", "пароль"} {
		h, err := bcrypt.GenerateFromPassword([]byte(p), bcrypt.MinCost)
		if err != nil {
			t.Fatal(err)
		}
		pws = append(pws, c03Pw{p, h})
	}

	rounds := vhEnvInt("VERIF_ROUNDS", 1)
	nRandom := vhEnvInt("VERIF_RANDOM", 4000)
	budget := vhEnvInt("VERIF_N", 0) // 0 = the whole factored product
	id := 0
	emit := func(src string, v c03Vec) {
		id++
		ev := c03Run(t, rng, v, pws)
		ev.ID, ev.Src = id, src
		out.Emit(ev)
	}
	for r := 0; r < rounds; r++ {
		vs := c03Factored()
		if budget > 0 && len(vs) > budget {
			rng.Shuffle(len(vs), func(i, j int) { vs[i], vs[j] = vs[j], vs[i] })
			vs = vs[:budget]
		}
		for _, v := range vs {
			emit("factored", v)
		}
	}
	for i := 0; i < nRandom; i++ {
		emit("random", c03Random(rng))
	}
	// let the clean-up goroutines of the last databases finish
	time.Sleep(20 * time.Millisecond)
	t.Logf("C03: %d executions", id)
}
