//go:build verif

package mainmw

// C02: the package-specific names used by the shared c02_world_test.go (a copy
// of harness/internal/filter/filterstorage/c02_world_test.go with the package
// clause replaced, injected by tools/checks/c02.py).

import "github.com/AdguardTeam/AdGuardDNS/internal/filter/filterstorage"

type (
	c02FSDefault               = filterstorage.Default
	c02FSConfig                = filterstorage.Config
	c02FSConfigBlockedServices = filterstorage.ConfigBlockedServices
	c02FSConfigCustom          = filterstorage.ConfigCustom
	c02FSConfigHashPrefix      = filterstorage.ConfigHashPrefix
	c02FSConfigRuleLists       = filterstorage.ConfigRuleLists
	c02FSConfigSafeSearch      = filterstorage.ConfigSafeSearch
)

var c02FSNew = filterstorage.New
