//go:build verif

package mainmw

// C15 part A recorder.  Requests are sent through the REAL access/rate-limit
// middleware (ratelimitmw, which builds the request info and drops) wrapped
// around the REAL main middleware, with the REAL querylog.FileSystem writing a
// JSONL file and a recording billing fake behind it; the filter, the upstream,
// the device finder and the GeoIP database are scripted per request.  After a
// phase the JSONL file is read back and every request is reported with the
// lines / billing records that carry its id.  One NDJSON event per request:
// abstract vector `a`, the request's own facts `q`, the observation `o`.
// TLC (TraceQueryLog.tla) decides.

import (
	"bufio"
	"bytes"
	"context"
	"encoding/json"
	"errors"
	"fmt"
	"math/rand"
	"net"
	"net/netip"
	"os"
	"path/filepath"
	"sort"
	"strconv"
	"strings"
	"sync"
	"testing"
	"time"

	"github.com/AdguardTeam/AdGuardDNS/internal/access"
	"github.com/AdguardTeam/AdGuardDNS/internal/agd"
	"github.com/AdguardTeam/AdGuardDNS/internal/agdtest"
	"github.com/AdguardTeam/AdGuardDNS/internal/dnsmsg"
	"github.com/AdguardTeam/AdGuardDNS/internal/dnsserver"
	"github.com/AdguardTeam/AdGuardDNS/internal/dnssvc/internal/ratelimitmw"
	"github.com/AdguardTeam/AdGuardDNS/internal/filter"
	"github.com/AdguardTeam/AdGuardDNS/internal/geoip"
	"github.com/AdguardTeam/AdGuardDNS/internal/querylog"
	"github.com/AdguardTeam/golibs/logutil/slogutil"
	"github.com/miekg/dns"
)

// ---------------------------------------------------------------- scenario

type c15Abs struct {
	Attr    string `json:"attr"`
	QLog    bool   `json:"qlog"`
	IPLog   bool   `json:"iplog"`
	Fate    string `json:"fate"`
	Outcome string `json:"outcome"`
	Proto   string `json:"proto"`
	Loc     bool   `json:"loc"`
}

type c15Scn struct {
	ID  int
	Abs c15Abs
	// concretisation
	AnonKind string // "none" | "authfail"
	DropKind string
	FailKind string
	Name     string // FQDN as sent (mixed case possible)
	CNAME    string // rewrite target for "modreq"
	QType    uint16
	Client   netip.AddrPort
	Mode     string
	FltOn    bool
	UpsRcode int
	UpsAD    bool
	UpsIP    netip.Addr
	ModRcode int
	ModIP    netip.Addr
	List     filter.ID
	Rule     filter.RuleText
	// Both: the response stage produces a result of its own (of the opposite kind, from another list) although
	// the request stage has already decided; what is logged is the verdict that was acted on
	Both  bool
	Start time.Time
	ReqID    agd.RequestID
	Prof     *agd.Profile
	Dev      *agd.Device
	EDNS     bool

	// run-time
	cancel  context.CancelFunc
	mu      sync.Mutex
	upsSeen int
	sent    *dns.Msg
	serveEr string
}

var c15Countries = []geoip.Country{"US", "DE", "JP", "AD", "XK", "FR", "BR"}

// c15Geo is the scripted GeoIP database: a pure function of the address.
func c15Geo(ip netip.Addr) (l *geoip.Location) {
	ip = ip.Unmap()
	b := ip.AsSlice()
	last := int(b[len(b)-1])
	known := false
	switch {
	case netip.MustParsePrefix("198.51.100.0/24").Contains(ip), netip.MustParsePrefix("2001:db8:a::/48").Contains(ip):
		known = true
	case netip.MustParsePrefix("198.18.5.0/24").Contains(ip):
		known = last%2 == 0
	case netip.MustParsePrefix("192.0.2.0/24").Contains(ip):
		known = last < 200
	case netip.MustParsePrefix("2001:db8:c::/48").Contains(ip):
		known = true
	}
	if !known {
		return nil
	}
	return &geoip.Location{Country: c15Countries[last%len(c15Countries)], Continent: "EU", ASN: geoip.ASN(64512 + last)}
}

func c15ClientIP(rng *rand.Rand, loc bool) netip.Addr {
	x := byte(1 + rng.Intn(250))
	v6 := rng.Intn(3) == 0
	switch {
	case loc && !v6:
		return netip.AddrFrom4([4]byte{198, 51, 100, x})
	case loc && v6:
		return netip.MustParseAddr(fmt.Sprintf("2001:db8:a::%x", x))
	case !loc && !v6:
		return netip.AddrFrom4([4]byte{203, 0, 113, x})
	default:
		return netip.MustParseAddr(fmt.Sprintf("2001:db8:b::%x", x))
	}
}

var c15Bases = []string{
	"example.org.", "Sub.Example.COM.", "xn--e1afmkfd.xn--p1ai.", "_dmarc.example.net.",
	"x.y.z.w.v.u.example.co.uk.", "a-label-that-is-exactly-sixty-three-characters-long-0123456789abc.example.",
	"MiXeD.CaSe.TEST.", "tracker.ads.example.", "local.",
}

var c15Rules = []string{
	"||%s^", "@@||%s^", "||%s^$dnsrewrite=NOERROR;A;192.0.2.77", "%s", "|%s^$dnstype=A", "/^r[0-9]+-.*$/",
	"||%s^$client='Kids \"tablet\"'",
}

var c15Lists = []filter.ID{"flt_1", "adguard_dns_filter", "custom", "blocked_service", "safe_browsing",
	"adult_blocking", "general_safe_search", "newly_registered_domains"}

// ---------------------------------------------------------------- fakes

type c15World struct {
	mu     sync.Mutex
	byName map[string]*c15Scn
	bills  map[agd.RequestID][]c15BillRec
	orphan []string
}

type c15BillRec struct {
	Dev   string
	Ctry  string
	ASN   int
	Start time.Time
	Proto int
}

func (w *c15World) scn(name string) *c15Scn {
	w.mu.Lock()
	defer w.mu.Unlock()
	return w.byName[strings.ToLower(name)]
}

type c15Ratelimiter struct{ res agd.RatelimitResult }

func (r c15Ratelimiter) Check(_ context.Context, _ *dns.Msg, _ netip.Addr) agd.RatelimitResult {
	return r.res
}
func (r c15Ratelimiter) Config() *agd.RatelimitConfig                         { return &agd.RatelimitConfig{Enabled: true} }
func (r c15Ratelimiter) CountResponses(_ context.Context, _ *dns.Msg, _ netip.Addr) {}

// c15RW is the outermost response writer (the "socket").
type c15RW struct {
	local, remote net.Addr
	fail          bool
	msg           *dns.Msg
}

func (r *c15RW) LocalAddr() net.Addr  { return r.local }
func (r *c15RW) RemoteAddr() net.Addr { return r.remote }
func (r *c15RW) WriteMsg(_ context.Context, _, resp *dns.Msg) error {
	if r.fail {
		// the response the server tried to send is still this request's response
		r.msg = resp
		return errors.New("c15: scripted socket write error")
	}
	r.msg = resp
	return nil
}

func c15RR(name string, qt uint16, ip netip.Addr, rng *rand.Rand) dns.RR {
	h := dns.RR_Header{Name: name, Rrtype: qt, Class: dns.ClassINET, Ttl: 60}
	switch qt {
	case dns.TypeA:
		return &dns.A{Hdr: h, A: ip.AsSlice()}
	case dns.TypeAAAA:
		return &dns.AAAA{Hdr: h, AAAA: ip.AsSlice()}
	case dns.TypeHTTPS:
		rr := &dns.HTTPS{SVCB: dns.SVCB{Hdr: h, Priority: 1, Target: "."}}
		if ip.IsValid() {
			if ip.Is4() {
				rr.Value = append(rr.Value, &dns.SVCBIPv4Hint{Hint: []net.IP{ip.AsSlice()}})
			} else {
				rr.Value = append(rr.Value, &dns.SVCBIPv6Hint{Hint: []net.IP{ip.AsSlice()}})
			}
		}
		return rr
	case dns.TypeMX:
		return &dns.MX{Hdr: h, Preference: 10, Mx: "mail." + name}
	default:
		h.Rrtype = dns.TypeTXT
		return &dns.TXT{Hdr: h, Txt: []string{"v=c15"}}
	}
}

func c15Resp(req *dns.Msg, rcode int, ad bool, rrs ...dns.RR) *dns.Msg {
	m := &dns.Msg{}
	m.SetRcode(req, rcode)
	m.RecursionAvailable = true
	m.AuthenticatedData = ad
	m.Answer = rrs
	return m
}

// c15FirstIP: the first address of a message (A, AAAA, or an HTTPS hint).
func c15FirstIP(m *dns.Msg) (ip netip.Addr) {
	if m == nil {
		return ip
	}
	for _, rr := range m.Answer {
		switch v := rr.(type) {
		case *dns.A:
			a, _ := netip.AddrFromSlice(v.A.To4())
			return a
		case *dns.AAAA:
			a, _ := netip.AddrFromSlice(v.AAAA)
			return a
		case *dns.HTTPS:
			for _, kv := range v.Value {
				switch h := kv.(type) {
				case *dns.SVCBIPv4Hint:
					if len(h.Hint) > 0 {
						a, _ := netip.AddrFromSlice(h.Hint[0].To4())
						return a
					}
				case *dns.SVCBIPv6Hint:
					if len(h.Hint) > 0 {
						a, _ := netip.AddrFromSlice(h.Hint[0])
						return a
					}
				}
			}
			return ip
		}
	}
	return ip
}

func c15Ctry(ip netip.Addr) string {
	if !ip.IsValid() || ip.IsUnspecified() {
		return ""
	}
	if l := c15Geo(ip); l != nil {
		return string(l.Country)
	}
	return ""
}

// ---------------------------------------------------------------- events

type c15Facts struct {
	ID       string `json:"id"`
	Prof     string `json:"prof"`
	Dev      string `json:"dev"`
	Name     string `json:"name"`
	QT       int    `json:"qt"`
	Time     string `json:"time"`
	TimeNS   string `json:"timens"`
	IP       string `json:"ip"`
	Rcode    int    `json:"rcode"`
	AD       bool   `json:"ad"`
	List     string `json:"list"`
	Rule     string `json:"rule"`
	UpsRcode int    `json:"upsrcode"`
	Ctry     string `json:"ctry"`
	ASN      int    `json:"asn"`
	DSent    string `json:"dsent"`
	DUps     string `json:"dups"`
}

type c15Entry struct {
	U  string `json:"u"`
	B  string `json:"b"`
	I  string `json:"i"`
	N  string `json:"n"`
	Q  int    `json:"q"`
	T  string `json:"t"`
	R  int    `json:"r"`
	S  int    `json:"s"`
	F  int    `json:"f"`
	P  int    `json:"p"`
	L  string `json:"l"`
	M  string `json:"m"`
	C  string `json:"c"`
	A  int    `json:"a"`
	D  string `json:"d"`
	IP string `json:"ip"`
}

type c15Bill struct {
	Dev   string `json:"dev"`
	Time  string `json:"time"`
	Proto int    `json:"proto"`
	Ctry  string `json:"ctry"`
	ASN   int    `json:"asn"`
}

type c15Obs struct {
	Logged int      `json:"logged"`
	Billed int      `json:"billed"`
	Entry  c15Entry `json:"entry"`
	Keys   []string `json:"keys"`
	Bill   c15Bill  `json:"bill"`
	Raw    string   `json:"raw"`
}

type c15Event struct {
	Ev    string            `json:"ev"`
	ID    int               `json:"id"`
	Phase string            `json:"phase"`
	A     c15Abs            `json:"a"`
	Q     c15Facts          `json:"q"`
	O     c15Obs            `json:"o"`
	Conc  map[string]string `json:"conc"`
}

// c15ParseLine decodes one JSONL line into the fixed-shape entry.
func c15ParseLine(line []byte) (e c15Entry, keys []string, err error) {
	dec := json.NewDecoder(bytes.NewReader(line))
	dec.UseNumber()
	m := map[string]any{}
	if err = dec.Decode(&m); err != nil {
		return e, nil, err
	}
	if dec.More() {
		return e, nil, errors.New("more than one JSON value on the line")
	}
	str := func(k string) string {
		switch v := m[k].(type) {
		case string:
			return v
		case json.Number:
			return v.String()
		case nil:
			return ""
		default:
			return fmt.Sprint(v)
		}
	}
	num := func(k string) int {
		if v, ok := m[k].(json.Number); ok {
			n, cerr := strconv.ParseInt(v.String(), 10, 32)
			if cerr == nil {
				return int(n)
			}
			return -1 // does not fit: never equal to an expected value
		}
		if m[k] == nil {
			return 0
		}
		return -1
	}
	for k := range m {
		keys = append(keys, k)
	}
	sort.Strings(keys)
	e = c15Entry{U: str("u"), B: str("b"), I: str("i"), N: strings.ToLower(str("n")), Q: num("q"), T: str("t"),
		R: num("r"), S: num("s"), F: num("f"), P: num("p"), L: str("l"), M: str("m"), C: str("c"), A: num("a"),
		D: str("d"), IP: str("ip")}
	return e, keys, nil
}

var c15ProtoOf = map[string]agd.Protocol{"dns": agd.ProtoDNS, "doh": agd.ProtoDoH, "doq": agd.ProtoDoQ,
	"dot": agd.ProtoDoT, "dnscrypt": agd.ProtoDNSCrypt}

// ---------------------------------------------------------------- the test

func TestVerifC15(t *testing.T) {
	out := vhOpen(t)
	rng := rand.New(rand.NewSource(vhSeed()))
	scratch := os.Getenv("VERIF_SCRATCH")
	if scratch == "" {
		scratch = t.TempDir()
	}
	logPath := filepath.Join(scratch, fmt.Sprintf("c15a-%d.jsonl", os.Getpid()))
	_ = os.Remove(logPath)
	defer os.Remove(logPath)

	w := &c15World{byName: map[string]*c15Scn{}, bills: map[agd.RequestID][]c15BillRec{}}

	// --- the real objects
	ql := querylog.NewFileSystem(&querylog.FileSystemConfig{
		Logger: slogutil.NewDiscardLogger(), Path: logPath, RandSeed: uint64(vhSeed()),
	})
	bill := &agdtest.BillStatRecorder{OnRecord: func(ctx context.Context, id agd.DeviceID, ctry geoip.Country,
		asn geoip.ASN, start time.Time, proto agd.Protocol) {
		rec := c15BillRec{Dev: string(id), Ctry: string(ctry), ASN: int(asn), Start: start, Proto: int(proto)}
		ri, ok := agd.RequestInfoFromContext(ctx)
		w.mu.Lock()
		defer w.mu.Unlock()
		if !ok {
			w.orphan = append(w.orphan, fmt.Sprintf("billing record without request info: %+v", rec))
			return
		}
		w.bills[ri.ID] = append(w.bills[ri.ID], rec)
	}}
	emptyFlt := &agdtest.Filter{
		OnFilterRequest:  func(context.Context, *filter.Request) (filter.Result, error) { return nil, nil },
		OnFilterResponse: func(context.Context, *filter.Response) (filter.Result, error) { return nil, nil },
	}
	flt := &agdtest.Filter{
		OnFilterRequest: func(_ context.Context, req *filter.Request) (r filter.Result, err error) {
			s := w.scn(req.DNS.Question[0].Name)
			if s == nil {
				panic("c15: filter request for an unknown name " + req.DNS.Question[0].Name)
			}
			if s.Abs.Fate == "failed" && s.FailKind == "ctx" {
				s.cancel()
			}
			switch s.Abs.Outcome {
			case "reqblock":
				return &filter.ResultBlocked{List: s.List, Rule: s.Rule}, nil
			case "reqallow":
				return &filter.ResultAllowed{List: s.List, Rule: s.Rule}, nil
			case "modresp":
				var rrs []dns.RR
				if s.ModRcode == dns.RcodeSuccess {
					rrs = append(rrs, c15RR(req.DNS.Question[0].Name, s.QType, s.ModIP, nil))
				}
				return &filter.ResultModifiedResponse{List: s.List, Rule: s.Rule,
					Msg: c15Resp(req.DNS, s.ModRcode, false, rrs...)}, nil
			case "modreq":
				m := req.DNS.Copy()
				m.Question[0].Name = s.CNAME
				return &filter.ResultModifiedRequest{List: s.List, Rule: s.Rule, Msg: m}, nil
			}
			return nil, nil
		},
		OnFilterResponse: func(_ context.Context, resp *filter.Response) (r filter.Result, err error) {
			s := w.scn(resp.DNS.Question[0].Name)
			if s == nil {
				panic("c15: filter response for an unknown name " + resp.DNS.Question[0].Name)
			}
			switch s.Abs.Outcome {
			case "respblock":
				return &filter.ResultBlocked{List: s.List, Rule: s.Rule}, nil
			case "respallow":
				return &filter.ResultAllowed{List: s.List, Rule: s.Rule}, nil
			case "reqallow":
				if s.Both {
					return &filter.ResultBlocked{List: "other_stage_list", Rule: "||answer.of.the.other.stage^"}, nil
				}
			case "reqblock":
				if s.Both {
					return &filter.ResultAllowed{List: "other_stage_list", Rule: "@@||answer.of.the.other.stage^"}, nil
				}
			}
			return nil, nil
		},
	}
	fltStrg := &agdtest.FilterStorage{
		OnForConfig: func(_ context.Context, c filter.Config) filter.Interface {
			if c == nil {
				return emptyFlt
			}
			return flt
		},
		OnHasListID: func(filter.ID) bool { return true },
	}
	geo := agdtest.NewGeoIP()
	geo.OnData = func(_ string, ip netip.Addr) (*geoip.Location, error) { return c15Geo(ip), nil }
	cloner := agdtest.NewCloner()
	msgs := agdtest.NewConstructor(t)
	mw := New(&Config{
		Cloner: cloner, Logger: slogutil.NewDiscardLogger(), Messages: msgs, BillStat: bill,
		ErrColl: agdtest.NewErrorCollector(), FilterStorage: fltStrg, GeoIP: geo, Metrics: EmptyMetrics{},
		QueryLog: ql, RuleStat: &agdtest.RuleStat{OnCollect: func(context.Context, filter.ID, filter.RuleText) {}},
	})
	ups := dnsserver.HandlerFunc(func(ctx context.Context, rw dnsserver.ResponseWriter, req *dns.Msg) error {
		s := w.scn(req.Question[0].Name)
		if s == nil {
			panic("c15: upstream request for an unknown name " + req.Question[0].Name)
		}
		s.mu.Lock()
		s.upsSeen++
		s.mu.Unlock()
		if s.Abs.Fate == "failed" && s.FailKind == "upstream" {
			return errors.New("c15: scripted upstream failure")
		}
		var rrs []dns.RR
		if s.UpsRcode == dns.RcodeSuccess {
			rrs = append(rrs, c15RR(req.Question[0].Name, req.Question[0].Qtype, s.UpsIP, nil))
		}
		return rw.WriteMsg(ctx, req, c15Resp(req, s.UpsRcode, s.UpsAD, rrs...))
	})
	mainH := mw.Wrap(ups)

	glob, err := access.NewGlobal([]string{"||c15-denied.example^"},
		[]netip.Prefix{netip.MustParsePrefix("198.18.5.0/24")})
	if err != nil {
		t.Fatal(err)
	}
	limiter := &agdtest.RateLimit{
		OnIsRateLimited: func(_ context.Context, req *dns.Msg, _ netip.Addr) (drop, allow bool, err error) {
			s := w.scn(req.Question[0].Name)
			if s != nil && s.Abs.Fate == "ratelimited" && s.DropKind == "global" {
				return true, false, nil
			}
			return false, s != nil && s.ID%5 == 0, nil
		},
		OnCountResponses: func(context.Context, *dns.Msg, netip.Addr) {},
	}
	finder := &agdtest.DeviceFinder{OnFind: func(_ context.Context, req *dns.Msg, _, _ netip.AddrPort) agd.DeviceResult {
		s := w.scn(req.Question[0].Name)
		if s == nil {
			panic("c15: device lookup for an unknown name")
		}
		switch {
		case s.Abs.Fate == "unknowndedicated":
			return &agd.DeviceResultUnknownDedicated{Err: errors.New("c15: unknown dedicated address")}
		case s.Abs.Attr == "profile":
			return &agd.DeviceResultOK{Device: s.Dev, Profile: s.Prof}
		case s.AnonKind == "authfail":
			return &agd.DeviceResultAuthenticationFailure{Err: errors.New("c15: bad password")}
		}
		return nil
	}}
	limited := []agd.Protocol{agd.ProtoDNS, agd.ProtoDNSCrypt, agd.ProtoDoQ}
	isLimited := func(p string) bool { return p == "dns" || p == "dnscrypt" || p == "doq" }
	protos := []string{"dns", "doh", "doq", "dot", "dnscrypt"}
	handlers := map[string]dnsserver.Handler{}
	for _, p := range protos {
		rl := ratelimitmw.New(&ratelimitmw.Config{
			Logger: slogutil.NewDiscardLogger(), Messages: msgs,
			FilteringGroup: &agd.FilteringGroup{ID: "c15_group", FilterConfig: &filter.ConfigGroup{
				Parental: &filter.ConfigParental{}, RuleList: &filter.ConfigRuleList{Enabled: true},
				SafeBrowsing: &filter.ConfigSafeBrowsing{}}},
			ServerGroup: &agd.ServerGroup{Name: "c15_sg"},
			Server:      &agd.Server{Name: agd.ServerName("c15_" + p), Protocol: c15ProtoOf[p]},
			StructuredErrors: agdtest.NewSDEConfig(true), AccessManager: glob, DeviceFinder: finder,
			ErrColl: agdtest.NewErrorCollector(), GeoIP: geo, Metrics: ratelimitmw.EmptyMetrics{},
			Limiter: limiter, Protocols: limited, EDEEnabled: true,
		})
		handlers[p] = rl.Wrap(mainH)
	}

	// --- the vectors
	type who struct {
		attr        string
		qlog, iplog bool
	}
	whos := []who{{"anon", false, false}, {"profile", false, false}, {"profile", false, true},
		{"profile", true, false}, {"profile", true, true}}
	outcomes := []string{"none", "reqblock", "respblock", "reqallow", "respallow", "modresp", "modreq"}
	qtypes := []uint16{dns.TypeA, dns.TypeAAAA, dns.TypeHTTPS, dns.TypeTXT}
	var vecs []c15Scn
	add := func(a c15Abs, qt uint16, kind string) {
		s := c15Scn{Abs: a, QType: qt}
		switch a.Fate {
		case "failed", "undelivered":
			s.FailKind = kind
		default:
			s.DropKind = kind
		}
		vecs = append(vecs, s)
	}
	for _, wh := range whos {
		base := c15Abs{Attr: wh.attr, QLog: wh.qlog, IPLog: wh.iplog, Outcome: "none"}
		for _, p := range protos {
			base.Proto = p
			for _, oc := range outcomes {
				a := base
				a.Outcome = oc
				a.Fate = "processed"
				for _, qt := range qtypes {
					add(a, qt, "")
				}
				a.Fate = "debug"
				add(a, 0, "")
			}
			a := base
			a.Fate = "failed"
			for _, k := range []string{"upstream", "ctx"} {
				add(a, 0, k)
			}
			a.Fate = "undelivered"
			add(a, 0, "write")
			a.Fate = "accessblocked"
			kinds := []string{"global_ip", "global_host"}
			if wh.attr == "profile" {
				kinds = append(kinds, "profile_net", "profile_rule", "profile_asn")
			}
			for _, k := range kinds {
				add(a, 0, k)
			}
			if isLimited(p) {
				a.Fate = "ratelimited"
				add(a, 0, "global")
				if wh.attr == "profile" {
					add(a, 0, "profile")
				}
			}
			if wh.attr == "anon" {
				a.Fate = "unknowndedicated"
				add(a, 0, "")
			}
		}
	}

	reps := vhEnvInt("VERIF_REPS", 2)
	workers := vhEnvInt("VERIF_WORKERS", 8)
	nextID := 0
	otherQT := []uint16{dns.TypeA, dns.TypeAAAA, dns.TypeHTTPS, dns.TypeTXT, dns.TypeMX}

	concretise := func(v c15Scn) *c15Scn {
		s := &c15Scn{Abs: v.Abs, QType: v.QType, DropKind: v.DropKind, FailKind: v.FailKind}
		nextID++
		s.ID = nextID
		a := &s.Abs
		a.Loc = rng.Intn(3) != 0
		if s.DropKind == "profile_asn" {
			a.Loc = true
		}
		if s.QType == 0 {
			s.QType = otherQT[rng.Intn(len(otherQT))]
		}
		base := c15Bases[rng.Intn(len(c15Bases))]
		if s.DropKind == "global_host" {
			base = "c15-denied.example."
		}
		s.Name = fmt.Sprintf("r%d-%x.%s", s.ID, rng.Intn(1<<16), base)
		if rng.Intn(4) == 0 {
			s.Name = "R" + s.Name[1:]
		}
		s.CNAME = fmt.Sprintf("cname-%d.target.example.", s.ID)
		ip := c15ClientIP(rng, a.Loc)
		if s.DropKind == "global_ip" {
			x := byte(2 * (1 + rng.Intn(100)))
			if !a.Loc {
				x++
			}
			ip = netip.AddrFrom4([4]byte{198, 18, 5, x})
		}
		s.Client = netip.AddrPortFrom(ip, uint16(1024+rng.Intn(60000)))
		s.AnonKind = []string{"none", "authfail"}[rng.Intn(2)]
		s.Mode = []string{"null_ip", "nxdomain", "refused", "custom_ip"}[rng.Intn(4)]
		s.UpsRcode = []int{0, 0, 0, dns.RcodeNameError, dns.RcodeServerFailure}[rng.Intn(5)]
		s.UpsAD = rng.Intn(3) == 0
		s.ModRcode = []int{0, 0, dns.RcodeNameError, dns.RcodeRefused}[rng.Intn(4)]
		ansX := byte(1 + rng.Intn(250))
		if s.QType == dns.TypeAAAA {
			s.UpsIP = netip.MustParseAddr(fmt.Sprintf("2001:db8:c::%x", ansX))
			s.ModIP = netip.MustParseAddr(fmt.Sprintf("2001:db8:c::%x", byte(1+rng.Intn(250))))
		} else {
			s.UpsIP = netip.AddrFrom4([4]byte{192, 0, 2, ansX})
			s.ModIP = netip.AddrFrom4([4]byte{192, 0, 2, byte(1 + rng.Intn(250))})
		}
		if s.QType == dns.TypeHTTPS && rng.Intn(2) == 0 {
			s.UpsIP = netip.Addr{} // no hints
		}
		s.List = c15Lists[rng.Intn(len(c15Lists))]
		s.Rule = filter.RuleText(strings.ReplaceAll(c15Rules[rng.Intn(len(c15Rules))], "%s",
			strings.TrimSuffix(strings.ToLower(s.Name), ".")))
		if s.List == "blocked_service" {
			s.Rule = filter.RuleText([]string{"youtube", "tiktok", "9gag"}[rng.Intn(3)])
		}
		s.Both = (a.Outcome == "reqblock" || a.Outcome == "reqallow") && rng.Intn(3) == 0
		s.Start = time.Now().Add(-time.Duration(rng.Intn(40_000_000)) * time.Nanosecond)
		_, _ = rng.Read(s.ReqID[:])
		s.EDNS = rng.Intn(2) == 0
		s.FltOn = !(a.Outcome == "none" && s.FailKind != "ctx" && rng.Intn(4) == 0)
		if a.Attr == "profile" {
			var mode dnsmsg.BlockingMode
			switch s.Mode {
			case "null_ip":
				mode = &dnsmsg.BlockingModeNullIP{}
			case "nxdomain":
				mode = &dnsmsg.BlockingModeNXDOMAIN{}
			case "refused":
				mode = &dnsmsg.BlockingModeREFUSED{}
			default:
				mode = &dnsmsg.BlockingModeCustomIP{IPv4: []netip.Addr{netip.MustParseAddr("192.0.2.99")},
					IPv6: []netip.Addr{netip.MustParseAddr("2001:db8:c::99")}}
			}
			var acc access.Profile = access.EmptyProfile{}
			switch s.DropKind {
			case "profile_net":
				acc = access.NewDefaultProfile(&access.ProfileConfig{
					BlockedNets: []netip.Prefix{netip.PrefixFrom(ip, ip.BitLen())}})
			case "profile_rule":
				acc = access.NewDefaultProfile(&access.ProfileConfig{
					BlocklistDomainRules: []string{"||" + strings.TrimSuffix(strings.ToLower(s.Name), ".") + "^"}})
			case "profile_asn":
				acc = access.NewDefaultProfile(&access.ProfileConfig{BlockedASN: []geoip.ASN{c15Geo(ip).ASN}})
			}
			var rlim agd.Ratelimiter = agd.GlobalRatelimiter{}
			if s.DropKind == "profile" {
				rlim = c15Ratelimiter{res: agd.RatelimitResultDrop}
			} else if isLimited(a.Proto) && a.Fate != "ratelimited" && rng.Intn(3) == 0 {
				rlim = c15Ratelimiter{res: agd.RatelimitResultPass}
			}
			s.Dev = &agd.Device{ID: agd.DeviceID("d" + strconv.FormatInt(int64(s.ID), 36)),
				Name: agd.DeviceName("dev " + strconv.Itoa(s.ID)), FilteringEnabled: true}
			s.Prof = &agd.Profile{
				FilterConfig: &filter.ConfigClient{}, Access: acc, BlockingMode: mode, Ratelimiter: rlim,
				ID: agd.ProfileID("p" + strconv.FormatInt(int64(s.ID), 36)), DeviceIDs: []agd.DeviceID{s.Dev.ID},
				FilteredResponseTTL: 10 * time.Second, FilteringEnabled: s.FltOn,
				IPLogEnabled: a.IPLog, QueryLogEnabled: a.QLog,
			}
		}
		w.mu.Lock()
		w.byName[strings.ToLower(s.Name)] = s
		w.byName[strings.ToLower(s.CNAME)] = s
		w.mu.Unlock()
		return s
	}

	serve := func(s *c15Scn) {
		req := &dns.Msg{}
		req.Id = uint16(s.ID)
		req.RecursionDesired = true
		qc := uint16(dns.ClassINET)
		if s.Abs.Fate == "debug" {
			qc = dns.ClassCHAOS
		}
		req.Question = []dns.Question{{Name: s.Name, Qtype: s.QType, Qclass: qc}}
		if s.EDNS {
			req.SetEdns0(1232, s.ID%2 == 0)
		}
		ctx, cancel := context.WithCancel(context.Background())
		defer cancel()
		s.cancel = cancel
		ctx = dnsserver.ContextWithRequestInfo(ctx, &dnsserver.RequestInfo{StartTime: s.Start})
		ctx = agd.WithRequestID(ctx, s.ReqID)
		rw := &c15RW{
			local:  &net.UDPAddr{IP: net.IP{192, 0, 2, 253}, Port: 53},
			remote: &net.UDPAddr{IP: s.Client.Addr().AsSlice(), Port: int(s.Client.Port())},
			fail:   s.Abs.Fate == "undelivered",
		}
		func() {
			defer func() {
				if r := recover(); r != nil {
					s.serveEr = fmt.Sprint("panic: ", r)
				}
			}()
			if e := handlers[s.Abs.Proto].ServeDNS(ctx, rw, req); e != nil {
				s.serveEr = e.Error()
			}
		}()
		s.sent = rw.msg
	}

	// report reads the file back and emits one event per request of the phase.
	var offset int64
	report := func(phase string, scns []*c15Scn) {
		f, oerr := os.Open(logPath)
		lines := map[string][][]byte{}
		if oerr == nil {
			_, _ = f.Seek(offset, 0)
			rd := bufio.NewReaderSize(f, 1<<20)
			for {
				line, rerr := rd.ReadBytes('\n')
				offset += int64(len(line))
				if len(line) > 0 {
					e, _, perr := c15ParseLine(bytes.TrimSuffix(line, []byte("\n")))
					if perr != nil || !bytes.HasSuffix(line, []byte("\n")) {
						w.orphan = append(w.orphan, fmt.Sprintf("unparsable or unterminated log line %q", line))
					} else {
						lines[e.U] = append(lines[e.U], append([]byte{}, line...))
					}
				}
				if rerr != nil {
					break
				}
			}
			f.Close()
		}
		known := map[string]bool{}
		for _, s := range scns {
			a := s.Abs
			id := s.ReqID.String()
			known[id] = true
			q := c15Facts{ID: id, Name: strings.ToLower(s.Name), QT: int(s.QType),
				Time: strconv.FormatInt(s.Start.UnixMilli(), 10), TimeNS: strconv.FormatInt(s.Start.UnixNano(), 10),
				IP: s.Client.Addr().String(), Rcode: 999, List: string(s.List), Rule: string(s.Rule),
				UpsRcode: s.UpsRcode}
			if s.Prof != nil {
				q.Prof, q.Dev = string(s.Prof.ID), string(s.Dev.ID)
			}
			if l := c15Geo(s.Client.Addr()); l != nil {
				q.Ctry, q.ASN = string(l.Country), int(l.ASN)
			}
			if s.sent != nil {
				q.Rcode, q.AD = s.sent.Rcode, s.sent.AuthenticatedData
				q.DSent = c15Ctry(c15FirstIP(s.sent))
			}
			if s.UpsRcode == 0 {
				q.DUps = c15Ctry(s.UpsIP)
			}
			o := c15Obs{Keys: []string{}}
			ls := lines[id]
			o.Logged = len(ls)
			if len(ls) > 0 {
				o.Entry, o.Keys, _ = c15ParseLine(bytes.TrimSuffix(ls[0], []byte("\n")))
				o.Raw = string(ls[0])
			}
			w.mu.Lock()
			bs := w.bills[s.ReqID]
			delete(w.bills, s.ReqID)
			w.mu.Unlock()
			o.Billed = len(bs)
			if len(bs) > 0 {
				o.Bill = c15Bill{Dev: bs[0].Dev, Time: strconv.FormatInt(bs[0].Start.UnixNano(), 10),
					Proto: bs[0].Proto, Ctry: bs[0].Ctry, ASN: bs[0].ASN}
			}
			sentStr := "none"
			if s.sent != nil {
				sentStr = fmt.Sprintf("rcode=%d answers=%d", s.sent.Rcode, len(s.sent.Answer))
			}
			out.Emit(c15Event{Ev: "req", ID: s.ID, Phase: phase, A: a, Q: q, O: o, Conc: map[string]string{
				"name": s.Name, "client": s.Client.String(), "anon": s.AnonKind, "drop": s.DropKind,
				"fail": s.FailKind, "mode": s.Mode, "filtering_enabled": strconv.FormatBool(s.FltOn),
				"ups_ip": s.UpsIP.String(), "sent": sentStr, "serve_err": s.serveEr,
				"upstream_calls": strconv.Itoa(s.upsSeen),
			}})
		}
		for id, ls := range lines {
			if !known[id] {
				w.orphan = append(w.orphan, fmt.Sprintf("log line with the id of no request: %q", ls[0]))
			}
		}
		w.mu.Lock()
		for id, bs := range w.bills {
			w.orphan = append(w.orphan, fmt.Sprintf("billing record for unknown request %s: %+v", id, bs[0]))
			delete(w.bills, id)
		}
		orph := w.orphan
		w.orphan = nil
		w.mu.Unlock()
		for _, what := range orph {
			out.Emit(c15Event{Ev: "orphan", Phase: phase, Conc: map[string]string{"what": what}, O: c15Obs{Keys: []string{}}})
		}
	}

	for rep := 0; rep < reps; rep++ {
		order := rng.Perm(len(vecs))
		scns := make([]*c15Scn, 0, len(vecs))
		for _, i := range order {
			scns = append(scns, concretise(vecs[i]))
		}
		if rep == 0 {
			for _, s := range scns {
				serve(s)
			}
			report("sequential", scns)
			continue
		}
		ch := make(chan *c15Scn)
		var wg sync.WaitGroup
		for i := 0; i < workers; i++ {
			wg.Add(1)
			go func() {
				defer wg.Done()
				for s := range ch {
					serve(s)
				}
			}()
		}
		for _, s := range scns {
			ch <- s
		}
		close(ch)
		wg.Wait()
		report("concurrent", scns)
	}
}
