//go:build verif

package mainmw

// C02 full-stack recorder.  The REAL ratelimitmw (which builds the request
// info and the requester's message constructor from the profile's blocking
// mode and TTL) wraps the REAL main middleware, whose filter storage is a REAL
// filterstorage.Default built by the shared concretiser (c02_world_test.go);
// the upstream is scripted (every record carries a marker and the upstream
// TTL), the device finder returns the profile/device of the case, and a
// recording query log reports the verdicts the middleware acted on.  One
// NDJSON line per query: abstract vector, concrete input, observed verdicts,
// the written message.  TraceFiltering.tla decides.

import (
	"context"
	"fmt"
	"math/rand"
	"net"
	"net/netip"
	"strings"
	"testing"
	"time"

	"github.com/AdguardTeam/AdGuardDNS/internal/access"
	"github.com/AdguardTeam/AdGuardDNS/internal/agd"
	"github.com/AdguardTeam/AdGuardDNS/internal/agdtest"
	"github.com/AdguardTeam/AdGuardDNS/internal/dnsmsg"
	"github.com/AdguardTeam/AdGuardDNS/internal/dnsserver"
	"github.com/AdguardTeam/AdGuardDNS/internal/dnssvc/internal/ratelimitmw"
	"github.com/AdguardTeam/AdGuardDNS/internal/filter"
	"github.com/AdguardTeam/AdGuardDNS/internal/geoip"
	"github.com/AdguardTeam/AdGuardDNS/internal/querylog"
	"github.com/AdguardTeam/golibs/logutil/slogutil"
	"github.com/miekg/dns"
)

type c02RW struct {
	local, remote net.Addr
	msg           *dns.Msg
	n             int
}

func (r *c02RW) LocalAddr() net.Addr  { return r.local }
func (r *c02RW) RemoteAddr() net.Addr { return r.remote }
func (r *c02RW) WriteMsg(_ context.Context, _, resp *dns.Msg) error {
	r.msg = resp
	r.n++
	return nil
}

type c02QueryLog struct{ last *querylog.Entry }

func (q *c02QueryLog) Write(_ context.Context, e *querylog.Entry) error {
	q.last = e
	return nil
}

// c02Scenarios: the verdict vectors exercised through the full stack.
func c02Scenarios() (vs []c02Vec) {
	n := func() c02Vec {
		return c02Vec{C: "none", R1: "none", R2: "none", S: "none", SF: c02AllOff(), RC: "none", RR: "none",
			Pen: true, Den: true}
	}
	add := func(f func(v *c02Vec)) {
		v := n()
		f(&v)
		vs = append(vs, v)
	}
	one := func(k int) []string {
		sf := c02SF("nomatch", "nomatch", "nomatch", "nomatch", "nomatch")
		sf[k] = "match"
		return sf
	}
	add(func(v *c02Vec) {})
	add(func(v *c02Vec) { v.C = "block" })
	add(func(v *c02Vec) { v.R1 = "block" })
	add(func(v *c02Vec) { v.S = "block" })
	add(func(v *c02Vec) { v.R2 = "hosts" })
	add(func(v *c02Vec) { v.C, v.R1 = "allow", "block" })
	add(func(v *c02Vec) { v.C, v.R1, v.S = "block", "allow", "block" })
	add(func(v *c02Vec) { v.C = "rwip" })
	add(func(v *c02Vec) { v.R1, v.C = "rwip", "allow" })
	add(func(v *c02Vec) { v.R1 = "rwrcode" })
	add(func(v *c02Vec) { v.R2, v.R1 = "rwrcode", "block" })
	add(func(v *c02Vec) { v.R2 = "rwcname" })
	add(func(v *c02Vec) { v.C, v.R1, v.RR = "rwcname", "block", "block" })
	add(func(v *c02Vec) { v.RR = "block" })
	add(func(v *c02Vec) { v.RC = "block" })
	add(func(v *c02Vec) { v.RC, v.RR = "allow", "block" })
	add(func(v *c02Vec) { v.R1, v.RR = "allow", "block" })
	add(func(v *c02Vec) { v.C, v.RC = "block", "allow" })
	add(func(v *c02Vec) { v.C, v.RC = "allow", "block" })
	add(func(v *c02Vec) { v.R2, v.RC, v.RR = "hosts", "allow", "allow" })
	for k := 0; k < 5; k++ {
		k := k
		add(func(v *c02Vec) { v.SF = one(k) })
	}
	add(func(v *c02Vec) { v.SF = c02FirstMatch(1) })
	add(func(v *c02Vec) { v.R1, v.SF = "allow", c02FirstMatch(2) })
	add(func(v *c02Vec) { v.C, v.SF = "allow", c02FirstMatch(1) })
	add(func(v *c02Vec) { v.S, v.SF, v.RC = "block", c02FirstMatch(1), "allow" })
	add(func(v *c02Vec) { v.SF, v.RR = c02FirstMatch(3), "block" })
	// filtering disabled for the profile and / or the device
	add(func(v *c02Vec) { v.C, v.Pen = "block", false })
	add(func(v *c02Vec) { v.R1, v.RR, v.Den = "block", "block", false })
	add(func(v *c02Vec) { v.C, v.SF, v.Pen, v.Den = "rwip", c02FirstMatch(1), false, false })
	add(func(v *c02Vec) { v.RR, v.Den = "block", false })
	add(func(v *c02Vec) { v.S, v.SF, v.Pen = "block", c02FirstMatch(2), false })
	add(func(v *c02Vec) { v.R2, v.Den = "rwcname", false })
	add(func(v *c02Vec) { v.C, v.RC, v.Pen = "allow", "block", false })
	return vs
}

func TestVerifC02Full(t *testing.T) {
	out := vhOpen(t)
	rng := rand.New(rand.NewSource(vhSeed()))

	var cases []*c02Case
	scen := c02Scenarios()
	for r, n := 1, len(scen); r < vhEnvInt("VERIF_REPS", 1); r++ {
		scen = append(scen, scen[:n]...)
	}
	for _, v := range scen {
		for _, mode := range c02Modes {
			for _, qt := range c02QTName {
				for _, ups := range c02UpsCls {
					if qt == "TXT" && v.anyMatch() {
						continue // the safety filters do not look at TXT queries
					}
					if v.RC != "none" || v.RR != "none" {
						// response rules need something to match
						if ups == "nodata" || ups == "nxdomain" || (ups == "addr" && (qt == "AAAA" || qt == "TXT")) {
							continue
						}
					}
					cases = append(cases, &c02Case{V: v, Mode: mode, QT: qt, Ups: ups})
				}
			}
		}
	}
	rng.Shuffle(len(cases), func(i, j int) { cases[i], cases[j] = cases[j], cases[i] })
	nw := vhEnvInt("VERIF_WORLDS", 2)
	ws := c02Worlds(t, rng, nw, cases)

	var cur *c02Case
	var lastUps *dns.Msg
	upsCalls := 0
	ups := dnsserver.HandlerFunc(func(ctx context.Context, rw dnsserver.ResponseWriter, req *dns.Msg) error {
		upsCalls++
		lastUps = c02UpsAnswer(cur, req)
		return rw.WriteMsg(ctx, req, lastUps.Copy())
	})
	finder := &agdtest.DeviceFinder{OnFind: func(_ context.Context, _ *dns.Msg, _, _ netip.AddrPort) agd.DeviceResult {
		c := cur
		dev := &agd.Device{ID: agd.DeviceID(fmt.Sprintf("c02dev%d", c.ID)), Name: "c02 device",
			FilteringEnabled: c.V.Den}
		prof := &agd.Profile{FilterConfig: c.Conf, Access: access.EmptyProfile{}, BlockingMode: c02BlockingMode(c),
			Ratelimiter: agd.GlobalRatelimiter{}, ID: agd.ProfileID(fmt.Sprintf("c02prof%d", c.ID)),
			DeviceIDs: []agd.DeviceID{dev.ID}, FilteredResponseTTL: time.Duration(c.K.TTL) * time.Second,
			FilteringEnabled: c.V.Pen, QueryLogEnabled: true, IPLogEnabled: true}
		return &agd.DeviceResultOK{Device: dev, Profile: prof}
	}}
	glob, err := access.NewGlobal([]string{"||c02-denied.example^"}, nil)
	if err != nil {
		t.Fatal(err)
	}
	limiter := &agdtest.RateLimit{
		OnIsRateLimited:  func(context.Context, *dns.Msg, netip.Addr) (bool, bool, error) { return false, false, nil },
		OnCountResponses: func(context.Context, *dns.Msg, netip.Addr) {},
	}
	geo := agdtest.NewGeoIP()
	geo.OnData = func(string, netip.Addr) (*geoip.Location, error) { return nil, nil }
	cloner := agdtest.NewCloner()
	ql := &c02QueryLog{}
	bill := &agdtest.BillStatRecorder{OnRecord: func(context.Context, agd.DeviceID, geoip.Country, geoip.ASN,
		time.Time, agd.Protocol) {
	}}

	// per world one main middleware; per default blocking mode one ratelimitmw:
	// the server-wide constructor (anonymous clients) always differs from the
	// requester's profile in mode and TTL
	type stack struct{ refusedDefault, nullDefault dnsserver.Handler }
	stacks := make([]stack, len(ws))
	for i, w := range ws {
		mk := func(mode dnsmsg.BlockingMode) dnsserver.Handler {
			msgs, cerr := dnsmsg.NewConstructor(&dnsmsg.ConstructorConfig{Cloner: cloner,
				StructuredErrors: agdtest.NewSDEConfig(true), BlockingMode: mode,
				FilteredResponseTTL: c02DefTTL * time.Second, EDEEnabled: true})
			if cerr != nil {
				t.Fatal(cerr)
			}
			mw := New(&Config{Cloner: cloner, Logger: slogutil.NewDiscardLogger(), Messages: msgs, BillStat: bill,
				ErrColl: agdtest.NewErrorCollector(), FilterStorage: w.strg, GeoIP: geo, Metrics: EmptyMetrics{},
				QueryLog: ql, RuleStat: &agdtest.RuleStat{OnCollect: func(context.Context, filter.ID, filter.RuleText) {}}})
			rl := ratelimitmw.New(&ratelimitmw.Config{
				Logger: slogutil.NewDiscardLogger(), Messages: msgs,
				FilteringGroup: &agd.FilteringGroup{ID: "c02_group", FilterConfig: &filter.ConfigGroup{
					Parental: &filter.ConfigParental{}, RuleList: &filter.ConfigRuleList{},
					SafeBrowsing: &filter.ConfigSafeBrowsing{}}},
				ServerGroup: &agd.ServerGroup{Name: "c02_sg"},
				Server:      &agd.Server{Name: "c02_srv", Protocol: agd.ProtoDoT},
				StructuredErrors: agdtest.NewSDEConfig(true), AccessManager: glob, DeviceFinder: finder,
				// errors reported while a request is prepared are not fatal for the harness: what they lead to
				// (e.g. another blocking shape than the profile's) is judged on the answer
				ErrColl: &agdtest.ErrorCollector{OnCollect: func(context.Context, error) {}}, GeoIP: geo, Metrics: ratelimitmw.EmptyMetrics{},
				Limiter: limiter, Protocols: []agd.Protocol{agd.ProtoDNS}, EDEEnabled: true,
			})
			return rl.Wrap(mw.Wrap(ups))
		}
		stacks[i] = stack{refusedDefault: mk(&dnsmsg.BlockingModeREFUSED{}), nullDefault: mk(&dnsmsg.BlockingModeNullIP{})}
	}

	for _, c := range cases {
		cur, lastUps, ql.last = c, nil, nil
		h := stacks[c.K.World].refusedDefault
		if c.Mode == "refused" {
			h = stacks[c.K.World].nullDefault
		}
		qname := c.K.QName
		if c.ID%3 == 0 {
			qname = strings.ToUpper(qname[:1]) + qname[1:]
		}
		req := &dns.Msg{}
		req.SetQuestion(qname, uint16(c.K.QType))
		req.Id = uint16(1 + c.ID%60000)
		if c.ID%2 == 0 {
			req.SetEdns0(1232, c.ID%4 == 0)
		}
		ctx, cancel := context.WithTimeout(context.Background(), 10*time.Second)
		ctx = dnsserver.ContextWithRequestInfo(ctx, &dnsserver.RequestInfo{StartTime: time.Now()})
		var rid agd.RequestID
		_, _ = rng.Read(rid[:])
		ctx = agd.WithRequestID(ctx, rid)
		rw := &c02RW{local: &net.TCPAddr{IP: net.IP{192, 0, 2, 253}, Port: 853},
			remote: &net.TCPAddr{IP: net.IP{192, 0, 2, byte(1 + c.ID%200)}, Port: 1024 + c.ID%60000}}
		ev := c02Event{H: "full", ID: c.ID, V: c.V, Mode: c.Mode, QT: c.QT, Ups: c.Ups, K: c.K}
		serveErr := ""
		func() {
			defer func() {
				if r := recover(); r != nil {
					serveErr = fmt.Sprint("panic: ", r)
				}
			}()
			if e := h.ServeDNS(ctx, rw, req); e != nil {
				serveErr = e.Error()
			}
		}()
		cancel()
		ev.Msg = c02AbsMsg(req, rw.msg, lastUps)
		ev.Msg.Err = serveErr
		if rw.n != 1 {
			ev.Msg.Err += fmt.Sprintf(" written %d times", rw.n)
			ev.Msg.Written = false
		}
		if ql.last == nil {
			ev.Req = c02Obs{Type: "error", Src: "-", Val: "no query log entry", ATTL: -1}
			ev.Resp = ev.Req
		} else {
			ev.Req = c02AbsResult(&c.K, ql.last.RequestResult, nil, false)
			ev.Resp = c02AbsResult(&c.K, ql.last.ResponseResult, nil, true)
		}
		out.Emit(ev)
	}
	if upsCalls != len(cases) {
		t.Errorf("c02: upstream called %d times for %d queries", upsCalls, len(cases))
	}
}
