//go:build verif

// C18, wiring level: the listeners that dnssvc builds for the servers of the
// configuration (newListeners / NewListener), with one shared connection
// limiter.  Whatever way a server is bound -- a socket address, or bind data
// that brings its own listen configuration (bind_interfaces) -- and whatever
// its protocol (plain DNS over TCP, DoT), the stream connections being served
// across ALL of them never exceed the stop threshold, and the ones kept waiting
// are served once the others are gone.
package dnssvc

import (
	"context"
	"crypto/tls"
	"encoding/binary"
	"fmt"
	"math/rand"
	"net"
	"net/netip"
	"sync"
	"testing"
	"time"

	"github.com/AdguardTeam/AdGuardDNS/internal/agd"
	"github.com/AdguardTeam/AdGuardDNS/internal/agdnet"
	"github.com/AdguardTeam/AdGuardDNS/internal/connlimiter"
	"github.com/AdguardTeam/AdGuardDNS/internal/dnsmsg"
	"github.com/AdguardTeam/AdGuardDNS/internal/dnsserver"
	"github.com/AdguardTeam/AdGuardDNS/internal/dnsserver/dnsservertest"
	"github.com/AdguardTeam/AdGuardDNS/internal/dnsserver/netext"
	"github.com/AdguardTeam/golibs/logutil/slogutil"
	"github.com/miekg/dns"
)

// c18OwnLC stands for a listen configuration that a server's bind data brings
// along (package bindtodevice in production): the prefix address it is given is
// mapped to the loop-back interface.
type c18OwnLC struct{ lc netext.ListenConfig }

func c18Loop(address string) string {
	if _, err := netip.ParseAddrPort(address); err != nil {
		return "127.0.0.1:0"
	}
	return address
}

func (c *c18OwnLC) Listen(ctx context.Context, network, address string) (net.Listener, error) {
	return c.lc.Listen(ctx, network, c18Loop(address))
}

func (c *c18OwnLC) ListenPacket(ctx context.Context, network, address string) (net.PacketConn, error) {
	return c.lc.ListenPacket(ctx, network, c18Loop(address))
}

// c18WGate blocks every request until released and keeps count.
type c18WGate struct {
	mu      sync.Mutex
	cur     int
	max     int
	total   int
	release chan struct{}
}

func (g *c18WGate) ServeDNS(ctx context.Context, rw dnsserver.ResponseWriter, req *dns.Msg) error {
	g.mu.Lock()
	g.cur++
	g.total++
	if g.cur > g.max {
		g.max = g.cur
	}
	rel := g.release
	g.mu.Unlock()
	<-rel
	g.mu.Lock()
	g.cur--
	g.mu.Unlock()
	return rw.WriteMsg(ctx, req, new(dns.Msg).SetReply(req))
}

func (g *c18WGate) snap() (cur, max, total int) {
	g.mu.Lock()
	defer g.mu.Unlock()
	return g.cur, g.max, g.total
}

type c18WEvent struct {
	Ev       string   `json:"ev"`
	Stop     int      `json:"stop"`
	Resume   int      `json:"resume"`
	Servers  []string `json:"servers"`
	Opened   int      `json:"opened"`
	MaxAct   int      `json:"max_active"`
	ServedAll bool    `json:"served_all"`
	Served   int      `json:"served"`
	Conns    []string `json:"conns"`
}

func TestVerifC18Wiring(t *testing.T) {
	out := vhOpen(t)
	rng := rand.New(rand.NewSource(vhSeed()*31 + 18))
	rounds := vhEnvInt("VERIF_ROUNDS", 3)
	tlsConf := dnsservertest.CreateServerTLSConfig("c18.example")
	for round := 0; round < rounds; round++ {
		// The limiter counts a slot for every listener that is waiting for its next connection (a pending
		// accept), so with as many listeners as slots nothing could ever be served: more slots than listeners.
		nsrv := 2 + rng.Intn(3)
		stop := nsrv + 1 + rng.Intn(3)
		// (for the same reason accepting can only resume if the resume threshold is not below the number of
		// listeners: the slots of the pending accepts never go away)
		resume := nsrv + rng.Intn(stop-nsrv+1)
		lim, err := connlimiter.New(&connlimiter.Config{Logger: slogutil.NewDiscardLogger(), Stop: uint64(stop), Resume: uint64(resume)})
		if err != nil {
			t.Fatal(err)
		}
		c := &Config{Cloner: dnsmsg.NewCloner(dnsmsg.EmptyClonerStat{}), ConnLimiter: lim, HandleTimeout: 30 * time.Second}
		mk := func(name string, proto agd.Protocol, own bool) *agd.Server {
			s := &agd.Server{Name: agd.ServerName(name), Protocol: proto, ReadTimeout: 30 * time.Second, WriteTimeout: 30 * time.Second,
				TCPConf: &agd.TCPConfig{IdleTimeout: 30 * time.Second}, UDPConf: &agd.UDPConfig{MaxRespSize: dns.MaxMsgSize}}
			if proto == agd.ProtoDoT {
				s.TLS = &agd.TLSConfig{Default: tlsConf.Clone()}
			}
			bd := &agd.ServerBindData{AddrPort: netip.MustParseAddrPort("127.0.0.1:0")}
			if own {
				bd = &agd.ServerBindData{ListenConfig: &c18OwnLC{lc: netext.DefaultListenConfigWithOOB(nil)},
					PrefixAddr: &agdnet.PrefixNetAddr{Prefix: netip.MustParsePrefix("127.0.0.0/8"), Net: "", Port: 53}}
			}
			s.SetBindData([]*agd.ServerBindData{bd})
			return s
		}
		specs := []struct {
			name  string
			proto agd.Protocol
			own   bool
		}{{"dns_addr", agd.ProtoDNS, false}, {"dns_iface", agd.ProtoDNS, true}, {"dot_addr", agd.ProtoDoT, false}, {"dot_iface", agd.ProtoDoT, true}}
		rng.Shuffle(len(specs), func(i, j int) { specs[i], specs[j] = specs[j], specs[i] })
		specs = specs[:nsrv]
		g := &c18WGate{release: make(chan struct{})}
		mtrc := &errCollMetricsListener{errColl: nil, baseListener: dnsserver.EmptyMetricsListener{}}
		type tgt struct {
			addr string
			dot  bool
		}
		var tgts []tgt
		var names []string
		var stops []func()
		for _, sp := range specs {
			ls, lerr := newListeners(c, mk(sp.name, sp.proto, sp.own), g, mtrc, NewListener)
			if lerr != nil || len(ls) != 1 {
				t.Fatalf("newListeners(%s): %v", sp.name, lerr)
			}
			l := ls[0]
			if serr := l.Start(context.Background()); serr != nil {
				t.Fatalf("start %s: %v", sp.name, serr)
			}
			stops = append(stops, func() {
				ctx, cancel := context.WithTimeout(context.Background(), 3*time.Second)
				defer cancel()
				_ = l.Shutdown(ctx)
			})
			tgts = append(tgts, tgt{l.LocalTCPAddr().String(), sp.proto == agd.ProtoDoT})
			names = append(names, sp.name)
		}
		// more connections than the limiter admits, spread over all listeners, each with a query
		opened := stop + nsrv + rng.Intn(3)
		var conns []net.Conn
		var cmu sync.Mutex
		var wg sync.WaitGroup
		notes := make([]string, opened)
		note := func(i int, s string) {
			cmu.Lock()
			notes[i] = s
			cmu.Unlock()
		}
		for i := 0; i < opened; i++ {
			tg := tgts[i%len(tgts)]
			wg.Add(1)
			go func(i int, tg tgt) {
				defer wg.Done()
				var conn net.Conn
				var derr error
				if tg.dot {
					// the handshake of a connection that is kept waiting completes only when it is accepted
					conn, derr = tls.DialWithDialer(&net.Dialer{Timeout: 15 * time.Second}, "tcp", tg.addr, &tls.Config{InsecureSkipVerify: true})
				} else {
					conn, derr = net.DialTimeout("tcp", tg.addr, 3*time.Second)
				}
				if derr != nil {
					note(i, "dial: "+derr.Error())
					return
				}
				cmu.Lock()
				conns = append(conns, conn)
				cmu.Unlock()
				m := new(dns.Msg).SetQuestion(fmt.Sprintf("w%d.c18.example.", i), dns.TypeA)
				b, _ := m.Pack()
				_, _ = conn.Write(append(binary.BigEndian.AppendUint16(nil, uint16(len(b))), b...))
				_ = conn.SetReadDeadline(time.Now().Add(12 * time.Second))
				buf := make([]byte, 512)
				n, rerr := conn.Read(buf)
				note(i, fmt.Sprintf("%s read %d %v", tg.addr, n, rerr))
				_ = conn.Close()
			}(i, tg)
		}
		// let the servers accept whatever they are going to accept
		deadline := time.Now().Add(3 * time.Second)
		for time.Now().Before(deadline) {
			if cur, _, _ := g.snap(); cur >= stop-nsrv+1 {
				break
			}
			time.Sleep(10 * time.Millisecond)
		}
		time.Sleep(400 * time.Millisecond)
		_, maxAct, _ := g.snap()
		close(g.release)
		wg.Wait()
		_, _, total := g.snap()
		for _, f := range stops {
			f()
		}
		out.Emit(c18WEvent{Ev: "Wiring", Stop: stop, Resume: resume, Servers: names, Opened: opened, MaxAct: maxAct,
			Served: total, ServedAll: total == opened, Conns: notes})
	}
}
