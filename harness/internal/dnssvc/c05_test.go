//go:build verif

package dnssvc

// C05 recorder.  Histories of clients (IPv4/IPv6, known/unknown location, ECS
// option absent / valid / zero-length / malformed) asking overlapping questions
// go through a handler built by the real NewHandlers with cache type ECS:
// ratelimitmw (location and ECS parsing), initial, preservice, mainmw,
// preupstream and the real ecscache.  The upstream fake records the ECS option
// it receives and answers as a function of (question, received subnet): names
// under "s." are scoped to the subnet, names under "u." are not.  Client
// address, client-supplied subnet and GeoIP subnet are pairwise different.
// TLC (TraceEcsCache.tla) decides.

import (
	"sync"
	"context"
	"fmt"
	"math/rand"
	"net"
	"net/netip"
	"strings"
	"testing"
	"time"

	"github.com/AdguardTeam/AdGuardDNS/internal/access"
	"github.com/AdguardTeam/AdGuardDNS/internal/agd"
	"github.com/AdguardTeam/AdGuardDNS/internal/agdcache"
	"github.com/AdguardTeam/AdGuardDNS/internal/agdnet"
	"github.com/AdguardTeam/AdGuardDNS/internal/agdtest"
	"github.com/AdguardTeam/AdGuardDNS/internal/dnsserver"
	"github.com/AdguardTeam/AdGuardDNS/internal/filter"
	"github.com/AdguardTeam/AdGuardDNS/internal/geoip"
	"github.com/AdguardTeam/AdGuardDNS/internal/profiledb"
	"github.com/AdguardTeam/AdGuardDNS/internal/querylog"
	"github.com/AdguardTeam/golibs/logutil/slogutil"
	"github.com/AdguardTeam/golibs/netutil"
	"github.com/miekg/dns"
	"github.com/prometheus/client_golang/prometheus"
)

// where addresses are
var c05Where = []struct {
	p   netip.Prefix
	loc string
}{
	{netip.MustParsePrefix("203.0.113.0/24"), "AU"}, {netip.MustParsePrefix("192.0.2.0/24"), "AU"},
	{netip.MustParsePrefix("198.51.100.0/24"), "BE"}, {netip.MustParsePrefix("2001:db8:a::/48"), "AU"},
	{netip.MustParsePrefix("2001:db8:b::/48"), "BE"},
	// CH and DE: GeoIP subnets that are not byte-aligned and differ only in the last, partly covered byte
	{netip.MustParsePrefix("100.65.0.0/24"), "CH"}, {netip.MustParsePrefix("100.65.1.0/24"), "DE"},
	{netip.MustParsePrefix("2001:db8:c::/48"), "CH"}, {netip.MustParsePrefix("2001:db8:d::/48"), "DE"},
}

var c05Geo = map[string]netip.Prefix{
	"AU|v4": netip.MustParsePrefix("1.2.0.0/16"), "BE|v4": netip.MustParsePrefix("5.6.0.0/16"),
	"AU|v6": netip.MustParsePrefix("2a00:1::/32"), "BE|v6": netip.MustParsePrefix("2a00:2::/32"),
	"CH|v4": netip.MustParsePrefix("9.9.9.0/25"), "DE|v4": netip.MustParsePrefix("9.9.9.128/25"),
	"CH|v6": netip.MustParsePrefix("2a00:3:0:10::/60"), "DE|v6": netip.MustParsePrefix("2a00:3:0:20::/60"),
}

func c05Loc(ip netip.Addr) string {
	for _, w := range c05Where {
		if w.p.Contains(ip) {
			return w.loc
		}
	}
	return "unknown"
}

func c05Fam(ip netip.Addr) string {
	if ip.Is4() {
		return "v4"
	}
	return "v6"
}

type c05Client struct {
	Addr string `json:"addr"`
	Fam  string `json:"fam"`
	Loc  string `json:"loc"`
}

type c05Event struct {
	Ev        string            `json:"ev"`
	ID        int               `json:"id"`
	Geo       map[string]string `json:"geo"`
	Client    c05Client         `json:"client"`
	Opt       string            `json:"opt"`    // absent | valid | zero | malformed
	OptSub    string            `json:"optsub"` // client-supplied subnet
	OptAddr   string            `json:"optaddr"`
	OptLen    int               `json:"optlen"`
	EchoAddr  string            `json:"echoaddr"`
	EchoLen   int               `json:"echolen"`
	EchoScope int               `json:"echoscope"`
	OptLoc    string            `json:"optloc"`
	OptFam    string            `json:"optfam"`
	Q         string            `json:"q"`
	Scoped    bool              `json:"scoped"`
	Fwd       string            `json:"fwd"` // subnet received by the upstream, "none" if not called, "noecs" if no option
	FwdAll    []string          `json:"fwdall"` // every ECS option the upstream received, in order
	FwdScope  int               `json:"fwdscope"`
	Rcode     int               `json:"rcode"`
	ExpRc     int               `json:"exprc"` // rcode the upstream gives this name
	Written   bool              `json:"written"`
	Content   string            `json:"content"` // "q@subnet" the answer was made for, recovered from the answer data
	Beh       int               `json:"beh"`
	// socket-level queries only: what the client advertised and what it was sent (C08's clauses on
	// a reply that went through the whole handler stack)
	Sock     bool `json:"sock"`
	QOpt     bool `json:"qopt"`
	QSize    int  `json:"qsize"`
	Wire     int  `json:"wire"`
	TC       bool `json:"tc"`
	An       int  `json:"an"`
	ROpt     bool `json:"ropt"`
	ROptSize int  `json:"roptsize"`
	ROptVer  int  `json:"roptver"`
}

type c05RW struct {
	msg           *dns.Msg
	local, remote net.Addr
}

func (w *c05RW) LocalAddr() net.Addr  { return w.local }
func (w *c05RW) RemoteAddr() net.Addr { return w.remote }
func (w *c05RW) WriteMsg(_ context.Context, _, resp *dns.Msg) error {
	w.msg = resp.Copy()
	return nil
}

type c05World struct {
	h dnsserver.Handler
	// a real plain-DNS server in front of the handler: what a client gets has also gone
	// through the server's response normalisation
	sockAddr string
	lastFwd  string
	fwdAll  []string
	lastSc   int
	called   bool
	// answers are TXT records "q@subnet": recoverable from the response
}

func c05NewWorld(t *testing.T, ns string) *c05World {
	w := &c05World{}
	reg := prometheus.NewRegistry()
	prometheus.DefaultRegisterer, prometheus.DefaultGatherer = reg, reg
	g := agdtest.NewGeoIP()
	// Like the real database (geoip.File.Data), the scripted one hands out ONE location object per /24 (/56)
	// for as long as it lives, also for addresses it knows nothing about (a location without a country):
	// callers share these objects and must not write to them.
	var geoMu sync.Mutex
	geoCache := map[netip.Prefix]*geoip.Location{}
	g.OnData = func(_ string, ip netip.Addr) (*geoip.Location, error) {
		bits := 24
		if ip.Is6() {
			bits = 56
		}
		key, _ := ip.Prefix(bits)
		geoMu.Lock()
		defer geoMu.Unlock()
		if l, ok := geoCache[key]; ok {
			return l, nil
		}
		l := &geoip.Location{ASN: 64999}
		if c := c05Loc(ip); c != "unknown" {
			l = &geoip.Location{Country: geoip.Country(c), Continent: geoip.ContinentEU, ASN: 64500}
		}
		geoCache[key] = l
		return l, nil
	}
	g.OnSubnetByLocation = func(l *geoip.Location, fam netutil.AddrFamily) (netip.Prefix, error) {
		f := "v4"
		if fam == netutil.AddrFamilyIPv6 {
			f = "v6"
		}
		if p, ok := c05Geo[string(l.Country)+"|"+f]; ok {
			return p, nil
		}
		return netutil.ZeroPrefix(fam), nil
	}
	upstream := dnsserver.HandlerFunc(func(ctx context.Context, rw dnsserver.ResponseWriter, req *dns.Msg) error {
		w.called = true
		w.lastFwd, w.lastSc, w.fwdAll = "noecs", 0, nil
		name := strings.ToLower(req.Question[0].Name)
		scoped := strings.HasPrefix(name, "s.") || strings.HasSuffix(name, c05AndroidSuffix)
		resp := new(dns.Msg).SetReply(req)
		resp.RecursionAvailable = true
		made := name
		if o := req.IsEdns0(); o != nil {
			resp.SetEdns0(1232, o.Do())
			for _, e := range o.Option {
				if s, ok := e.(*dns.EDNS0_SUBNET); ok {
					ip, _ := netip.AddrFromSlice(s.Address)
					w.lastFwd = fmt.Sprintf("%s/%d", ip.Unmap(), s.SourceNetmask)
					if s.Family == 2 {
						w.lastFwd = fmt.Sprintf("%s/%d", ip, s.SourceNetmask)
					}
					w.fwdAll = append(w.fwdAll, w.lastFwd)
					w.lastSc = int(s.SourceScope)
					scope := uint8(0)
					if scoped && s.SourceNetmask > 0 {
						scope = s.SourceNetmask
						made = name + "@" + w.lastFwd
					}
					ro := resp.IsEdns0()
					echo := &dns.EDNS0_SUBNET{Code: dns.EDNS0SUBNET, Family: s.Family,
						SourceNetmask: s.SourceNetmask, SourceScope: scope, Address: s.Address}
					if strings.Contains(name, ".be.") && s.SourceNetmask > 0 {
						// an upstream that breaks the protocol: its answer does depend on the subnet, but the
						// option it echoes is malformed (address bits set beyond the prefix)
						b := append([]byte{}, s.Address...)
						b[len(b)-1] |= 1
						echo.Address = b
					}
					ro.Option = append(ro.Option, echo)
				}
			}
		}
		txt := &dns.TXT{Hdr: dns.RR_Header{Name: req.Question[0].Name, Rrtype: dns.TypeTXT,
			Class: dns.ClassINET, Ttl: 3600}, Txt: []string{made}}
		if strings.Contains(name, "big.") {
			// an answer of about 2.4 KB
			for i := 0; i < 60; i++ {
				resp.Answer = append(resp.Answer, &dns.TXT{Hdr: dns.RR_Header{Name: req.Question[0].Name, Rrtype: dns.TypeTXT,
					Class: dns.ClassINET, Ttl: 3600}, Txt: []string{fmt.Sprintf("filler-%02d-%s", i, strings.Repeat("x", 16))}})
			}
		}
		if strings.Contains(name, ".nx") {
			// a negative answer (scoped like any other answer of an "s." name): what it was made
			// for travels in the authority section next to the SOA
			resp.Rcode = dns.RcodeNameError
			resp.Ns = append(resp.Ns, &dns.SOA{Hdr: dns.RR_Header{Name: "example.", Rrtype: dns.TypeSOA, Class: dns.ClassINET, Ttl: 3600},
				Ns: "ns.example.", Mbox: "m.example.", Serial: 1, Refresh: 1, Retry: 1, Expire: 1, Minttl: 3600}, txt)
		} else {
			resp.Answer = append(resp.Answer, txt)
		}
		return rw.WriteMsg(ctx, req, resp)
	})
	global, err := access.NewGlobal(nil, nil)
	if err != nil {
		t.Fatal(err)
	}
	profDB := agdtest.NewProfileDB()
	profDB.OnProfileByLinkedIP = func(context.Context, netip.Addr) (*agd.Profile, *agd.Device, error) {
		return nil, nil, profiledb.ErrDeviceNotFound
	}
	profDB.OnProfileByDedicatedIP = func(context.Context, netip.Addr) (*agd.Profile, *agd.Device, error) {
		return nil, nil, profiledb.ErrDeviceNotFound
	}
	flt := &agdtest.Filter{
		OnFilterRequest:  func(context.Context, *filter.Request) (filter.Result, error) { return nil, nil },
		OnFilterResponse: func(context.Context, *filter.Response) (filter.Result, error) { return nil, nil },
	}
	fltStrg := &agdtest.FilterStorage{
		OnForConfig: func(context.Context, filter.Config) filter.Interface { return flt },
		OnHasListID: func(filter.ID) bool { return true },
	}
	rl := agdtest.NewRateLimit()
	rl.OnIsRateLimited = func(context.Context, *dns.Msg, netip.Addr) (bool, bool, error) { return false, false, nil }
	rl.OnCountResponses = func(context.Context, *dns.Msg, netip.Addr) {}
	srv := &agd.Server{Name: "c05srv", Protocol: agd.ProtoDNS, ReadTimeout: time.Second, WriteTimeout: time.Second}
	srv.SetBindData([]*agd.ServerBindData{{AddrPort: netip.MustParseAddrPort("94.149.14.14:53")}})
	const fg = "c05fg"
	grp := &agd.ServerGroup{DDR: &agd.DDR{Enabled: false}, Name: "c05grp", FilteringGroup: fg, Servers: []*agd.Server{srv}}
	fltGrp := &agd.FilteringGroup{FilterConfig: &filter.ConfigGroup{Parental: &filter.ConfigParental{},
		RuleList: &filter.ConfigRuleList{Enabled: true}, SafeBrowsing: &filter.ConfigSafeBrowsing{}}, ID: fg}
	handlers, err := NewHandlers(context.Background(), &HandlersConfig{
		BaseLogger:           slogutil.NewDiscardLogger(),
		Cloner:               agdtest.NewCloner(),
		Cache:                &CacheConfig{Type: CacheTypeECS, NoECSCount: 10000, ECSCount: 10000, MinTTL: 10 * time.Second},
		HumanIDParser:        agd.NewHumanIDParser(),
		Messages:             agdtest.NewConstructor(t),
		StructuredErrors:     agdtest.NewSDEConfig(true),
		AccessManager:        global,
		BillStat:             &agdtest.BillStatRecorder{OnRecord: func(context.Context, agd.DeviceID, geoip.Country, geoip.ASN, time.Time, agd.Protocol) {}},
		CacheManager:         agdcache.EmptyManager{},
		DNSCheck:             &agdtest.DNSCheck{OnCheck: func(context.Context, *dns.Msg, *agd.RequestInfo) (*dns.Msg, error) { return nil, nil }},
		DNSDB:                &agdtest.DNSDB{OnRecord: func(context.Context, *dns.Msg, *agd.RequestInfo) {}},
		ErrColl:              &agdtest.ErrorCollector{OnCollect: func(context.Context, error) {}},
		FilterStorage:        fltStrg,
		GeoIP:                g,
		Handler:              upstream,
		HashMatcher:          &agdtest.HashMatcher{OnMatchByPrefix: func(context.Context, string) ([]string, bool, error) { return nil, false, nil }},
		ProfileDB:            profDB,
		PrometheusRegisterer: agdtest.NewTestPrometheusRegisterer(),
		QueryLog:             &agdtest.QueryLog{OnWrite: func(context.Context, *querylog.Entry) error { return nil }},
		RateLimit:            rl,
		RuleStat:             &agdtest.RuleStat{OnCollect: func(context.Context, filter.ID, filter.RuleText) {}},
		MetricsNamespace:     ns,
		FilteringGroups:      map[agd.FilteringGroupID]*agd.FilteringGroup{fg: fltGrp},
		ServerGroups:         []*agd.ServerGroup{grp},
		EDEEnabled:           true,
	})
	if err != nil {
		t.Fatalf("NewHandlers: %v", err)
	}
	w.h = handlers[HandlerKey{Server: srv, ServerGroup: grp}]
	var ds *dnsserver.ServerDNS
	for i := 0; i < 8; i++ {
		ds = dnsserver.NewServerDNS(dnsserver.ConfigDNS{ConfigBase: dnsserver.ConfigBase{Name: "c05srv", Addr: "127.0.0.1:0",
			Handler: w.h, Network: dnsserver.NetworkUDP}, MaxUDPRespSize: dns.MaxMsgSize})
		if err = ds.Start(context.Background()); err == nil || !strings.Contains(err.Error(), "in use") {
			break
		}
	}
	if err != nil {
		t.Fatalf("starting the plain-DNS server: %v", err)
	}
	t.Cleanup(func() { _ = ds.Shutdown(context.Background()) })
	w.sockAddr = ds.LocalUDPAddr().String()
	return w
}

type c05Query struct {
	client netip.Addr
	opt    string
	sub    netip.Prefix // client-supplied
	bad    int          // kind of malformation
	name   string
	// sock: sent over a loop-back socket to the real server (the client is then 127.0.0.1), with
	// one more EDNS option of the kind the server itself answers next to the client-subnet option
	sock  bool
	extra string
	// double: a second ECS option follows the first (valid or zero-length) one
	double bool
}

func (w *c05World) ask(t *testing.T, q c05Query, id int, beh int) c05Event {
	req := new(dns.Msg)
	req.Id = uint16(1000 + id)
	req.RecursionDesired = true
	req.Question = []dns.Question{{Name: q.name, Qtype: dns.TypeTXT, Qclass: dns.ClassINET}}
	ev := c05Event{Ev: "Query", ID: id, Beh: beh, Opt: q.opt, OptSub: "none", OptLoc: "unknown", OptFam: "none",
		Client: c05Client{Addr: q.client.String(), Fam: c05Fam(q.client), Loc: c05Loc(q.client)},
		Q:      c05Norm(q.name), Scoped: strings.HasPrefix(c05Norm(q.name), "s.") || strings.HasSuffix(c05Norm(q.name), c05AndroidSuffix),
		ExpRc: c05ExpRc(strings.ToLower(q.name)), Fwd: "none", FwdAll: []string{}, Content: "none",
		EchoAddr: "none", OptAddr: "none", Geo: map[string]string{}}
	if q.opt == "absent" && id%3 == 0 {
		// EDNS with the DO bit but without a client-subnet option: still "no ECS option in the query"
		req.SetEdns0(1232, true)
	}
	if q.opt != "absent" {
		req.SetEdns0(1232, id%2 == 0)
		o := req.IsEdns0()
		fam := uint16(1)
		if q.sub.Addr().Is6() {
			fam = 2
		}
		e := &dns.EDNS0_SUBNET{Code: dns.EDNS0SUBNET, Family: fam, SourceNetmask: uint8(q.sub.Bits()), Address: q.sub.Addr().AsSlice()}
		if q.opt == "malformed" {
			switch q.bad {
			case 0:
				e.Family = 3
			case 1:
				e.SourceNetmask = 33
				if fam == 2 {
					e.SourceNetmask = 129
				}
			case 3:
				// FAMILY 0 with SOURCE PREFIX-LENGTH 0 and no address (what `dig +subnet=0` sends): not an
				// address family the server knows
				e.Family, e.SourceNetmask, e.Address = 0, 0, nil
			default: // bits beyond the prefix
				b := q.sub.Addr().AsSlice()
				b[len(b)-1] |= 1
				e.Address = b
				if e.SourceNetmask >= uint8(len(b)*8) {
					e.SourceNetmask = uint8(len(b)*8) - 8
				}
			}
		}
		o.Option = append(o.Option, e)
		if q.double {
			// a SECOND client-subnet option (nothing in the protocol allows two): the client's own address.
			// Whatever the server makes of such a query, that subnet is not for the upstream to see
			o.Option = append(o.Option, &dns.EDNS0_SUBNET{Code: dns.EDNS0SUBNET, Family: 1, SourceNetmask: 32,
				Address: net.IPv4(203, 0, 113, 99).To4()})
			ev.ExpRc = 99
		}
		ev.OptSub = q.sub.String()
		ev.OptAddr, ev.OptLen = q.sub.Addr().String(), q.sub.Bits()
		ev.OptLoc = c05Loc(q.sub.Addr())
		ev.OptFam = c05Fam(q.sub.Addr())
	}
	if q.sock {
		ev.Client = c05Client{Addr: "127.0.0.1", Fam: "v4", Loc: c05Loc(netip.MustParseAddr("127.0.0.1"))}
		if o := req.IsEdns0(); o != nil {
			switch q.extra {
			case "nsid":
				o.Option = append(o.Option, &dns.EDNS0_NSID{Code: dns.EDNS0NSID})
			case "expire":
				o.Option = append(o.Option, &dns.EDNS0_EXPIRE{Code: dns.EDNS0EXPIRE, Empty: true})
			case "cookie":
				o.Option = append(o.Option, &dns.EDNS0_COOKIE{Code: dns.EDNS0COOKIE, Cookie: "0102030405060708"})
			case "keepalive":
				o.Option = append(o.Option, &dns.EDNS0_TCP_KEEPALIVE{Code: dns.EDNS0TCPKEEPALIVE})
			}
		}
		if o := req.IsEdns0(); o != nil {
			o.SetUDPSize([]uint16{512, 1232, 4096, 1232}[id%4])
			ev.QOpt, ev.QSize = true, int(o.UDPSize())
		}
		ev.Sock = true
		w.called = false
		// (a socket of our own with a buffer for the largest datagram: the client library reads only as
		// many bytes as the query advertised and would hide an oversized reply behind a read error)
		resp, wire, xerr := c05RawUDP(req, w.sockAddr)
		if resp != nil {
			ev.Wire, ev.TC, ev.An = wire, resp.Truncated, len(resp.Answer)
			if ro := resp.IsEdns0(); ro != nil {
				ev.ROpt, ev.ROptSize, ev.ROptVer = true, int(ro.UDPSize()), int(ro.Version())
			}
		}
		if w.called {
			ev.Fwd, ev.FwdScope = w.lastFwd, w.lastSc
		}
		c05Observe(&ev, req, resp)
		if resp != nil && resp.Truncated {
			// a truncated reply carries no answer at all (the size clauses are C08's): nothing to attribute
			ev.ExpRc = 99
		}
		if xerr != nil {
			// no (decodable) reply within the client's patience: nothing to attribute; whether every
			// query is answered is C01's business
			ev.ExpRc, ev.Content, ev.Written = 99, "none", false
		}
		return ev
	}
	port := 4000 + id%1000
	rw := &c05RW{local: &net.UDPAddr{IP: net.IPv4(94, 149, 14, 14), Port: 53},
		remote: net.UDPAddrFromAddrPort(netip.AddrPortFrom(q.client, uint16(port)))}
	ctx, cancel := context.WithTimeout(context.Background(), 5*time.Second)
	defer cancel()
	ctx = dnsserver.ContextWithServerInfo(ctx, &dnsserver.ServerInfo{Name: "c05srv", Addr: "94.149.14.14:53", Proto: agd.ProtoDNS})
	ctx = dnsserver.ContextWithRequestInfo(ctx, &dnsserver.RequestInfo{StartTime: time.Now()})
	w.called = false
	// a handler error is what the server logs; what counts is what was written
	_ = w.h.ServeDNS(ctx, rw, req)
	if w.called {
		ev.Fwd, ev.FwdScope = w.lastFwd, w.lastSc
		ev.FwdAll = append(ev.FwdAll, w.fwdAll...)
		if len(w.fwdAll) > 0 {
			ev.Fwd = w.fwdAll[0]
		}
	}
	c05Observe(&ev, req, rw.msg)
	return ev
}

const c05AndroidSuffix = "-ds.metric.gstatic.com."

// c05Norm is the name the resolver works with: lower case, and the random
// Android DoT / DoH probe names folded into one name each (so that they share
// a cache entry); their answers depend on the subnet like those of "s." names.
func c05Norm(name string) string {
	name = strings.ToLower(name)
	if r := agdnet.AndroidMetricDomainReplacement(name); r != "" {
		return r
	}
	return name
}

func c05RawUDP(req *dns.Msg, addr string) (resp *dns.Msg, wire int, err error) {
	b, err := req.Pack()
	if err != nil {
		return nil, 0, err
	}
	c, err := net.DialTimeout("udp", addr, 2*time.Second)
	if err != nil {
		return nil, 0, err
	}
	defer c.Close()
	if _, err = c.Write(b); err != nil {
		return nil, 0, err
	}
	buf := make([]byte, 65535)
	for {
		_ = c.SetReadDeadline(time.Now().Add(3 * time.Second))
		n, rerr := c.Read(buf)
		if rerr != nil {
			return nil, 0, rerr
		}
		m := new(dns.Msg)
		if uerr := m.Unpack(buf[:n]); uerr != nil {
			return nil, n, uerr
		}
		if m.Id == req.Id {
			return m, n, nil
		}
	}
}

// c05Observe records what the client was sent.
func c05Observe(evp *c05Event, req, msg *dns.Msg) {
	ev := *evp
	defer func() { *evp = ev }()
	rw := struct{ msg *dns.Msg }{msg}
	if rw.msg != nil {
		ev.Written = true
		ev.Rcode = rw.msg.Rcode
		for _, rr := range append(append([]dns.RR{}, rw.msg.Answer...), rw.msg.Ns...) {
			if x, ok := rr.(*dns.TXT); ok && len(x.Txt) > 0 {
				ev.Content = x.Txt[0]
			}
		}
		if o := rw.msg.IsEdns0(); o != nil {
			for _, e := range o.Option {
				if s, ok := e.(*dns.EDNS0_SUBNET); ok {
					ip, _ := netip.AddrFromSlice(s.Address)
					if s.Family == 1 {
						ip = ip.Unmap()
					}
					ev.EchoAddr, ev.EchoLen, ev.EchoScope = ip.String(), int(s.SourceNetmask), int(s.SourceScope)
				}
			}
		}
		if rw.msg.Id != req.Id {
			ev.Content = "foreign-id"
		}
	}
}

func TestVerifC05(t *testing.T) {
	out := vhOpen(t)
	rng := rand.New(rand.NewSource(vhSeed()))
	clients := []netip.Addr{
		netip.MustParseAddr("203.0.113.7"), netip.MustParseAddr("192.0.2.33"), netip.MustParseAddr("198.51.100.9"),
		netip.MustParseAddr("100.64.7.7"), // unknown location
		netip.MustParseAddr("2001:db8:a::7"), netip.MustParseAddr("2001:db8:b::9"), netip.MustParseAddr("2001:db8:ffff::1"),
		netip.MustParseAddr("100.65.0.5"), netip.MustParseAddr("100.65.1.5"), netip.MustParseAddr("2001:db8:c::5"),
		netip.MustParseAddr("2001:db8:d::5"),
	}
	subs := []netip.Prefix{
		netip.MustParsePrefix("198.51.100.0/24"), netip.MustParsePrefix("203.0.113.128/25"), netip.MustParsePrefix("192.0.2.0/24"),
		netip.MustParsePrefix("100.64.0.0/16"), netip.MustParsePrefix("2001:db8:b::/48"), netip.MustParsePrefix("2001:db8:a:1::/64"),
		netip.MustParsePrefix("2001:db8:ffff::/48"), netip.MustParsePrefix("203.0.113.7/32"),
	}
	n := vhEnvInt("VERIF_NHIST", 100)
	id := 0
	geo := map[string]string{}
	for k, v := range c05Geo {
		geo[k] = v.String()
	}
	for beh := 0; beh < n; beh++ {
		w := c05NewWorld(t, fmt.Sprintf("c05_%d", beh))
		out.Emit(c05Event{Ev: "Reset", Beh: beh, Geo: geo})
		names := []string{fmt.Sprintf("s.n%d.example.", rng.Intn(2)), fmt.Sprintf("u.n%d.example.", rng.Intn(2)), "s.shared.example.",
			"s.nx.example.", "u.nx.example.", "s.be.example.", "s.big.example.", "u.big.example.",
			fmt.Sprintf("%08x-dnsotls%s", rng.Uint32(), c05AndroidSuffix), fmt.Sprintf("%06x-dnsohttps%s", rng.Intn(1<<24), c05AndroidSuffix)}
		// a few fixed socket-level queries in every history: large answers for clients that opted out of
		// ECS, that sent a subnet, and that sent no option, with small advertised sizes
		if beh%4 == 0 {
			for _, q := range []c05Query{
				{client: clients[0], name: "u.big.example.", opt: "zero", sub: netip.MustParsePrefix("0.0.0.0/0"), sock: true, extra: "none"},
				{client: clients[0], name: "s.big.example.", opt: "zero", sub: netip.MustParsePrefix("::/0"), sock: true, extra: "nsid"},
				{client: clients[0], name: "s.big.example.", opt: "valid", sub: subs[0], sock: true, extra: "none"},
				{client: clients[0], name: "u.big.example.", opt: "absent", sock: true, extra: "none"},
			} {
				id++
				out.Emit(w.ask(t, q, id, beh))
			}
		}
		steps := 8 + rng.Intn(24)
		for i := 0; i < steps; i++ {
			q := c05Query{client: clients[rng.Intn(len(clients))], name: names[rng.Intn(len(names))]}
			if rng.Intn(3) == 0 {
				q.name = strings.ToUpper(q.name[:3]) + q.name[3:]
			}
			switch r := rng.Intn(10); {
			case r < 4:
				q.opt = "absent"
			case r < 7:
				q.opt, q.sub = "valid", subs[rng.Intn(len(subs))]
			case r < 9:
				q.opt = "zero"
				if rng.Intn(2) == 0 {
					q.sub = netip.MustParsePrefix("0.0.0.0/0")
				} else {
					q.sub = netip.MustParsePrefix("::/0")
				}
			default:
				q.opt, q.sub, q.bad = "malformed", subs[rng.Intn(len(subs))], rng.Intn(4)
			}
			if (q.opt == "valid" || q.opt == "zero") && rng.Intn(5) == 0 {
				q.double = true
			}
			// (a malformed option cannot be put on the wire faithfully by the client library's packer)
			if rng.Intn(4) == 0 && q.opt != "malformed" && !q.double {
				q.sock, q.extra = true, []string{"none", "nsid", "expire", "cookie", "keepalive"}[rng.Intn(5)]
			}
			id++
			out.Emit(w.ask(t, q, id, beh))
		}
	}
}

// c05ExpRc: the rcode the upstream gives the name; 99 where the upstream breaks the protocol (any
// outcome is admitted, but never an answer made for somebody else's subnet).
func c05ExpRc(name string) int {
	switch {
	case strings.Contains(name, ".be."):
		return 99
	case strings.Contains(name, ".nx"):
		return dns.RcodeNameError
	default:
		return dns.RcodeSuccess
	}
}
