//go:build verif

package dnssvc

// EXT1 (extension beyond the listed properties): special-domain decisions of the
// initial middleware, pre-service and pre-upstream stages observed on the full
// NewHandlers stack with recording fakes.  TLC (TraceInitial.tla) decides.

import (
	"context"
	"fmt"
	"math/rand"
	"net"
	"net/netip"
	"net/url"
	"sort"
	"strings"
	"testing"
	"time"

	"github.com/AdguardTeam/AdGuardDNS/internal/access"
	"github.com/AdguardTeam/AdGuardDNS/internal/agd"
	"github.com/AdguardTeam/AdGuardDNS/internal/agdcache"
	"github.com/AdguardTeam/AdGuardDNS/internal/agdpasswd"
	"github.com/AdguardTeam/AdGuardDNS/internal/agdtest"
	"github.com/AdguardTeam/AdGuardDNS/internal/dnsmsg"
	"github.com/AdguardTeam/AdGuardDNS/internal/dnsserver"
	"github.com/AdguardTeam/AdGuardDNS/internal/filter"
	"github.com/AdguardTeam/AdGuardDNS/internal/geoip"
	"github.com/AdguardTeam/AdGuardDNS/internal/profiledb"
	"github.com/AdguardTeam/AdGuardDNS/internal/querylog"
	"github.com/AdguardTeam/golibs/container"
	"github.com/AdguardTeam/golibs/logutil/slogutil"
	"github.com/AdguardTeam/golibs/netutil"
	"github.com/miekg/dns"
	"github.com/prometheus/client_golang/prometheus"
	"golang.org/x/crypto/bcrypt"
)

type ext1Vec struct {
	QClass   string `json:"qclass"`
	QType    string `json:"qtype"`
	Host     string `json:"host"`
	Dev      string `json:"dev"`
	DDROn    bool   `json:"ddrOn"`
	PRelay   bool   `json:"pRelay"`
	PChrome  bool   `json:"pChrome"`
	PFirefox bool   `json:"pFirefox"`
	GRelay   bool   `json:"gRelay"`
	GChrome  bool   `json:"gChrome"`
	GFirefox bool   `json:"gFirefox"`
}

type ext1Event struct {
	ID     int      `json:"id"`
	V      ext1Vec  `json:"v"`
	Name   string   `json:"name"`
	Via    string   `json:"via"`
	Rcode  string   `json:"rcode"`
	Ans    string   `json:"ans"`
	Eff    []string `json:"eff"`
	ReqAD  bool     `json:"reqad"`
	ReqDO  bool     `json:"reqdo"`
	AD     bool     `json:"ad"`
	UpName string   `json:"upname"`
	Err    string   `json:"err"`
}

type ext1RW struct {
	msg           *dns.Msg
	local, remote net.Addr
}

func (w *ext1RW) LocalAddr() net.Addr  { return w.local }
func (w *ext1RW) RemoteAddr() net.Addr { return w.remote }
func (w *ext1RW) WriteMsg(_ context.Context, _, resp *dns.Msg) error {
	w.msg = resp.Copy()
	return nil
}

const (
	ext1DevID  = "dev1234x"
	ext1PubTgt = "dns.ext1.example"
	ext1DevTgt = "d.ext1.example"
)

func TestVerifEXT1(t *testing.T) {
	out := vhOpen(t)
	rng := rand.New(rand.NewSource(vhSeed()))
	eff := map[string]bool{}
	upName := ""
	hash, err := bcrypt.GenerateFromPassword([]byte("pw"), bcrypt.MinCost)
	if err != nil {
		t.Fatal(err)
	}
	var cur ext1Vec
	mkProf := func(dohOnly bool) (*agd.Profile, *agd.Device) {
		auth := &agd.AuthSettings{Enabled: false, PasswordHash: agdpasswd.AllowAuthenticator{}}
		if dohOnly {
			auth = &agd.AuthSettings{Enabled: true, DoHAuthOnly: true, PasswordHash: agdpasswd.NewPasswordHashBcrypt(hash)}
		}
		return &agd.Profile{
				FilterConfig: &filter.ConfigClient{Custom: &filter.ConfigCustom{}, Parental: &filter.ConfigParental{},
					RuleList: &filter.ConfigRuleList{Enabled: true}, SafeBrowsing: &filter.ConfigSafeBrowsing{}},
				Access: access.EmptyProfile{}, BlockingMode: &dnsmsg.BlockingModeNullIP{}, Ratelimiter: agd.GlobalRatelimiter{}, ID: "prof1234",
				DeviceIDs: []agd.DeviceID{ext1DevID}, FilteredResponseTTL: 10 * time.Second, FilteringEnabled: true,
				BlockPrivateRelay: cur.PRelay, BlockChromePrefetch: cur.PChrome, BlockFirefoxCanary: cur.PFirefox,
			}, &agd.Device{Auth: auth, ID: ext1DevID, FilteringEnabled: true}
	}
	profDB := agdtest.NewProfileDB()
	find := func() (*agd.Profile, *agd.Device, error) {
		switch cur.Dev {
		case "ok":
			p, d := mkProf(false)
			return p, d, nil
		case "dohonly", "authfail":
			p, d := mkProf(true)
			return p, d, nil
		}
		return nil, nil, profiledb.ErrDeviceNotFound
	}
	profDB.OnProfileByLinkedIP = func(context.Context, netip.Addr) (*agd.Profile, *agd.Device, error) { return find() }
	profDB.OnProfileByDeviceID = func(context.Context, agd.DeviceID) (*agd.Profile, *agd.Device, error) { return find() }
	profDB.OnProfileByDedicatedIP = func(context.Context, netip.Addr) (*agd.Profile, *agd.Device, error) {
		return nil, nil, profiledb.ErrDeviceNotFound
	}
	flt := &agdtest.Filter{
		OnFilterRequest: func(_ context.Context, r *filter.Request) (filter.Result, error) {
			eff["filtered"] = true
			if strings.HasPrefix(r.Host, "blocked") {
				return &filter.ResultBlocked{List: "ext1", Rule: "||blocked^"}, nil
			}
			return nil, nil
		},
		OnFilterResponse: func(context.Context, *filter.Response) (filter.Result, error) {
			eff["filtered"] = true
			return nil, nil
		},
	}
	fltStrg := &agdtest.FilterStorage{OnForConfig: func(context.Context, filter.Config) filter.Interface { return flt },
		OnHasListID: func(filter.ID) bool { return true }}
	upstream := dnsserver.HandlerFunc(func(ctx context.Context, rw dnsserver.ResponseWriter, req *dns.Msg) error {
		eff["resolved"] = true
		upName = req.Question[0].Name
		resp := new(dns.Msg).SetReply(req)
		resp.AuthenticatedData = true
		resp.Answer = append(resp.Answer, &dns.TXT{Hdr: dns.RR_Header{Name: req.Question[0].Name, Rrtype: dns.TypeTXT, Class: req.Question[0].Qclass, Ttl: 60},
			Txt: []string{"upstream"}})
		return rw.WriteMsg(ctx, req, resp)
	})
	g := agdtest.NewGeoIP()
	g.OnData = func(string, netip.Addr) (*geoip.Location, error) { return nil, nil }
	g.OnSubnetByLocation = func(_ *geoip.Location, fam netutil.AddrFamily) (netip.Prefix, error) { return netutil.ZeroPrefix(fam), nil }
	rl := agdtest.NewRateLimit()
	rl.OnIsRateLimited = func(context.Context, *dns.Msg, netip.Addr) (bool, bool, error) { return false, false, nil }
	rl.OnCountResponses = func(context.Context, *dns.Msg, netip.Addr) {}
	global, _ := access.NewGlobal(nil, nil)
	msgs := agdtest.NewConstructor(t)
	mkTmpl := func(target string) *dns.SVCB {
		return &dns.SVCB{Hdr: dns.RR_Header{Rrtype: dns.TypeSVCB, Class: dns.ClassINET, Ttl: 60}, Priority: 1, Target: dns.Fqdn(target),
			Value: []dns.SVCBKeyValue{&dns.SVCBAlpn{Alpn: []string{"dot"}}, &dns.SVCBPort{Port: 853}}}
	}
	id := 0
	build := func(ddrOn, gRelay, gChrome, gFirefox bool, ns string) (map[string]dnsserver.Handler, *agd.ServerGroup) {
		reg := prometheus.NewRegistry()
		prometheus.DefaultRegisterer, prometheus.DefaultGatherer = reg, reg
		srvDNS := &agd.Server{Name: "ext1dns", Protocol: agd.ProtoDNS, LinkedIPEnabled: true, ReadTimeout: time.Second, WriteTimeout: time.Second}
		srvDNS.SetBindData([]*agd.ServerBindData{{AddrPort: netip.MustParseAddrPort("94.149.14.14:53")}})
		srvDoH := &agd.Server{Name: "ext1doh", Protocol: agd.ProtoDoH, ReadTimeout: time.Second, WriteTimeout: time.Second}
		srvDoH.SetBindData([]*agd.ServerBindData{{AddrPort: netip.MustParseAddrPort("94.149.14.14:443")}})
		const fg = "ext1fg"
		grp := &agd.ServerGroup{
			DDR: &agd.DDR{Enabled: ddrOn, DeviceTargets: container.NewMapSet(ext1DevTgt), PublicTargets: container.NewMapSet(ext1PubTgt),
				DeviceRecordTemplates: []*dns.SVCB{mkTmpl(ext1DevTgt)}, PublicRecordTemplates: []*dns.SVCB{mkTmpl(ext1PubTgt)}},
			DeviceDomains: []string{ext1DevTgt}, Name: "ext1grp", FilteringGroup: fg, Servers: []*agd.Server{srvDNS, srvDoH}, ProfilesEnabled: true,
		}
		fltGrp := &agd.FilteringGroup{FilterConfig: &filter.ConfigGroup{Parental: &filter.ConfigParental{},
			RuleList: &filter.ConfigRuleList{Enabled: true}, SafeBrowsing: &filter.ConfigSafeBrowsing{}}, ID: fg,
			BlockPrivateRelay: gRelay, BlockChromePrefetch: gChrome, BlockFirefoxCanary: gFirefox}
		hs, herr := NewHandlers(context.Background(), &HandlersConfig{
			BaseLogger: slogutil.NewDiscardLogger(), Cloner: agdtest.NewCloner(), Cache: &CacheConfig{Type: CacheTypeNone},
			HumanIDParser: agd.NewHumanIDParser(), Messages: msgs, StructuredErrors: agdtest.NewSDEConfig(true), AccessManager: global,
			BillStat:     &agdtest.BillStatRecorder{OnRecord: func(context.Context, agd.DeviceID, geoip.Country, geoip.ASN, time.Time, agd.Protocol) {}},
			CacheManager: agdcache.EmptyManager{},
			DNSCheck: &agdtest.DNSCheck{OnCheck: func(_ context.Context, req *dns.Msg, _ *agd.RequestInfo) (*dns.Msg, error) {
				eff["dnscheck"] = true
				if strings.HasSuffix(strings.ToLower(req.Question[0].Name), ".check.ext1.example.") {
					r := new(dns.Msg).SetReply(req)
					r.Answer = append(r.Answer, &dns.TXT{Hdr: dns.RR_Header{Name: req.Question[0].Name, Rrtype: dns.TypeTXT, Class: dns.ClassINET, Ttl: 1},
						Txt: []string{"check"}})
					return r, nil
				}
				return nil, nil
			}},
			DNSDB:   &agdtest.DNSDB{OnRecord: func(context.Context, *dns.Msg, *agd.RequestInfo) { eff["dnsdb"] = true }},
			ErrColl: &agdtest.ErrorCollector{OnCollect: func(context.Context, error) {}}, FilterStorage: fltStrg, GeoIP: g, Handler: upstream,
			HashMatcher: &agdtest.HashMatcher{OnMatchByPrefix: func(_ context.Context, host string) ([]string, bool, error) {
				eff["hashmatch"] = true
				if strings.HasSuffix(host, ".sb.ext1.example") {
					return []string{"00112233"}, true, nil
				}
				return nil, false, nil
			}},
			ProfileDB: profDB, PrometheusRegisterer: agdtest.NewTestPrometheusRegisterer(),
			QueryLog:  &agdtest.QueryLog{OnWrite: func(context.Context, *querylog.Entry) error { return nil }}, RateLimit: rl,
			RuleStat:  &agdtest.RuleStat{OnCollect: func(context.Context, filter.ID, filter.RuleText) {}}, MetricsNamespace: ns,
			FilteringGroups: map[agd.FilteringGroupID]*agd.FilteringGroup{fg: fltGrp}, ServerGroups: []*agd.ServerGroup{grp}, EDEEnabled: true,
		})
		if herr != nil {
			t.Fatalf("NewHandlers: %v", herr)
		}
		return map[string]dnsserver.Handler{"dns": hs[HandlerKey{Server: srvDNS, ServerGroup: grp}], "doh": hs[HandlerKey{Server: srvDoH, ServerGroup: grp}]}, grp
	}
	qtypes := map[string][]uint16{"A": {dns.TypeA}, "AAAA": {dns.TypeAAAA}, "SVCB": {dns.TypeSVCB}, "TXT": {dns.TypeTXT},
		"OTHER": {dns.TypeHTTPS, dns.TypeMX, dns.TypeNS}}
	hostsOf := func(h string, n int) []string {
		u := fmt.Sprintf("u%d", n)
		switch h {
		case "normal":
			return []string{u + ".normal.ext1.example.", "_dns." + u + ".other.example."}
		case "ddr":
			return []string{"_dns.resolver.arpa.", "_DNS.Resolver.ARPA."}
		case "ddrpub":
			return []string{"_dns." + ext1PubTgt + "."}
		case "ddrdev":
			return []string{"_dns." + ext1DevID + "." + ext1DevTgt + "."}
		case "ddrforeign":
			return []string{"_dns.otherdev1." + ext1DevTgt + "."}
		case "arpa":
			return []string{u + ".resolver.arpa.", "_dns." + u + ".resolver.arpa.", "a.b.resolver.arpa."}
		case "relay":
			return []string{"mask.icloud.com.", "mask-h2.icloud.com.", "mask-canary.icloud.com.", "Mask.iCloud.com."}
		case "chrome":
			return []string{"dns-tunnel-check.googlezip.net."}
		case "firefox":
			return []string{"use-application-dns.net.", "USE-application-dns.NET."}
		case "android":
			return []string{u + "-dnsotls-ds.metric.gstatic.com.", u + "-dnsohttps-ds.metric.gstatic.com."}
		case "check":
			return []string{u + ".check.ext1.example."}
		case "sbtxt":
			return []string{"abcd.sb.ext1.example.", "abcd.ef01.sb.ext1.example."}
		default:
			return []string{"blocked" + u + ".ext1.example."}
		}
	}
	hostKinds := []string{"normal", "ddr", "ddrpub", "ddrdev", "ddrforeign", "arpa", "relay", "chrome", "firefox", "android", "check", "sbtxt", "blocked"}
	per := vhEnvInt("VERIF_PER", 1)
	for gi := 0; gi < 16; gi++ {
		ddrOn, gRelay, gChrome, gFirefox := gi&1 != 0, gi&2 != 0, gi&4 != 0, gi&8 != 0
		hs, _ := build(ddrOn, gRelay, gChrome, gFirefox, fmt.Sprintf("ext1_%d", gi))
		for _, qclass := range []string{"IN", "CH"} {
			for qtName, qts := range qtypes {
				for _, hk := range hostKinds {
					for _, dev := range []string{"none", "ok", "dohonly", "authfail"} {
						if qclass == "CH" && rng.Intn(4) != 0 {
							continue
						}
						for k := 0; k < per; k++ {
							id++
							cur = ext1Vec{QClass: qclass, QType: qtName, Host: hk, Dev: dev, DDROn: ddrOn, GRelay: gRelay, GChrome: gChrome,
								GFirefox: gFirefox, PRelay: rng.Intn(2) == 0, PChrome: rng.Intn(2) == 0, PFirefox: rng.Intn(2) == 0}
							hsn := hostsOf(hk, id)
							name := hsn[rng.Intn(len(hsn))]
							req := new(dns.Msg).SetQuestion(name, qts[rng.Intn(len(qts))])
							if qclass == "CH" {
								req.Question[0].Qclass = dns.ClassCHAOS
							}
							req.Id = uint16(id)
							ev := ext1Event{ID: id, V: cur, Name: name, ReqAD: rng.Intn(3) == 0, ReqDO: rng.Intn(3) == 0, Eff: []string{}}
							req.AuthenticatedData = ev.ReqAD
							if ev.ReqDO {
								req.SetEdns0(1232, true)
							}
							ri := &dnsserver.RequestInfo{StartTime: time.Now()}
							h, via := hs["dns"], "dns"
							si := &dnsserver.ServerInfo{Name: "ext1dns", Addr: "94.149.14.14:53", Proto: agd.ProtoDNS}
							var laddr, raddr net.Addr = &net.UDPAddr{IP: net.IPv4(94, 149, 14, 14), Port: 53}, &net.UDPAddr{IP: net.IPv4(192, 0, 2, 7), Port: 4000 + id%1000}
							if dev == "dohonly" {
								// recognised on DoH with the right password
								h, via = hs["doh"], "doh"
								si = &dnsserver.ServerInfo{Name: "ext1doh", Addr: "94.149.14.14:443", Proto: agd.ProtoDoH}
								laddr, raddr = &net.TCPAddr{IP: net.IPv4(94, 149, 14, 14), Port: 443}, &net.TCPAddr{IP: net.IPv4(192, 0, 2, 7), Port: 4000 + id%1000}
								ri.TLSServerName = "dns.ext1.example"
								ri.URL = &url.URL{Path: dnsserver.PathDoH}
								ri.Userinfo = url.UserPassword(ext1DevID, "pw")
							}
							ev.Via = via
							ctx, cancel := context.WithTimeout(context.Background(), 5*time.Second)
							ctx = dnsserver.ContextWithServerInfo(ctx, si)
							ctx = dnsserver.ContextWithRequestInfo(ctx, ri)
							for e := range eff {
								delete(eff, e)
							}
							upName = ""
							rw := &ext1RW{local: laddr, remote: raddr}
							if herr := h.ServeDNS(ctx, rw, req); herr != nil {
								ev.Err = herr.Error()
							}
							cancel()
							ev.UpName = upName
							if rw.msg != nil {
								eff["written"] = true
								ev.Rcode = dns.RcodeToString[rw.msg.Rcode]
								ev.AD = rw.msg.AuthenticatedData
								ev.Ans = ext1AnsKind(req, rw.msg, upName)
								if rw.msg.Id != req.Id || len(rw.msg.Question) != 1 || rw.msg.Question[0].Name != name {
									ev.Ans = "foreign"
								}
							} else {
								ev.Rcode, ev.Ans = "none", "none"
							}
							for e := range eff {
								ev.Eff = append(ev.Eff, e)
							}
							sort.Strings(ev.Eff)
							out.Emit(ev)
						}
					}
				}
			}
		}
	}
}

func ext1AnsKind(req, m *dns.Msg, upName string) string {
	if len(m.Answer) == 0 {
		return "empty"
	}
	name := req.Question[0].Name
	kinds := map[string]bool{}
	for _, rr := range m.Answer {
		switch rr := rr.(type) {
		case *dns.SVCB:
			if strings.HasPrefix(rr.Target, ext1DevID+".") {
				kinds["device-templates"] = true
			} else {
				kinds["public-templates"] = true
			}
			if rr.Hdr.Name != name {
				kinds["misnamed"] = true
			}
		case *dns.TXT:
			switch rr.Txt[0] {
			case "upstream":
				if upName != name && rr.Hdr.Name == name {
					kinds["renamed"] = true
				} else if rr.Hdr.Name == name {
					kinds["upstream"] = true
				} else {
					kinds["misnamed"] = true
				}
			case "check":
				kinds["check"] = true
			default:
				kinds["txt"] = true
			}
		default:
			kinds["blocked"] = true
		}
	}
	var ks []string
	for k := range kinds {
		ks = append(ks, k)
	}
	sort.Strings(ks)
	return strings.Join(ks, "+")
}
