//go:build verif

package dnssvc

// C07 concurrent differential.  A real plain-DNS server (UDP and TCP) runs the
// handler built by the real NewHandlers with the PRODUCTION message cloner as
// cloner and as the server's disposer, the ECS cache, and profiles recognised
// by linked IP with different blocking modes and TTLs.  N clients, each bound to
// its own loopback address, send overlapping queries concurrently; afterwards
// every request is repeated alone.  Recorded per response: whether ID and
// question are the request's own, and the digest of the concurrent and of the
// sequential answer.  Run under the race detector.  TLC (TraceMsgPool.tla)
// decides.

import (
	"os"
	"bytes"
	"context"
	"crypto/ecdsa"
	"crypto/elliptic"
	crand "crypto/rand"
	"crypto/tls"
	"crypto/x509"
	"crypto/x509/pkix"
	"encoding/binary"
	"fmt"
	"io"
	"math/big"
	"math/rand"
	"net"
	"net/http"
	"net/netip"
	"strings"
	"sync"
	"testing"
	"time"

	"github.com/AdguardTeam/AdGuardDNS/internal/access"
	"github.com/AdguardTeam/AdGuardDNS/internal/agd"
	"github.com/AdguardTeam/AdGuardDNS/internal/agdcache"
	"github.com/AdguardTeam/AdGuardDNS/internal/agdpasswd"
	"github.com/AdguardTeam/AdGuardDNS/internal/agdtest"
	"github.com/AdguardTeam/AdGuardDNS/internal/dnsmsg"
	"github.com/AdguardTeam/AdGuardDNS/internal/dnsserver"
	"github.com/AdguardTeam/AdGuardDNS/internal/filter"
	"github.com/AdguardTeam/AdGuardDNS/internal/geoip"
	"github.com/AdguardTeam/AdGuardDNS/internal/profiledb"
	"github.com/AdguardTeam/AdGuardDNS/internal/querylog"
	"github.com/AdguardTeam/golibs/logutil/slogutil"
	"github.com/AdguardTeam/golibs/netutil"
	"github.com/miekg/dns"
	"github.com/prometheus/client_golang/prometheus"
	"github.com/quic-go/quic-go"
)

type c07Resp struct {
	Ev     string `json:"ev"`
	Client string `json:"client"`
	Prof   string `json:"prof"`
	Net    string `json:"net"`
	Name   string `json:"name"`
	QType  uint16 `json:"qtype"`
	IDOK   bool   `json:"idok"`
	QOK    bool   `json:"qok"`
	Conc   string `json:"conc"`
	Seq    string `json:"seq"`
	Same   bool   `json:"same"`
	// ShapeOK: a blocked A answer has the shape (rcode / address / TTL) of the requester's own
	// blocking mode -- the server's default for anonymous clients and for a profile whose own
	// message constructor cannot be built
	ShapeOK bool `json:"shapeok"`
}

func c07Digest(m *dns.Msg) string {
	if m == nil {
		return "none"
	}
	var parts []string
	parts = append(parts, fmt.Sprintf("rcode=%d;aa=%v;tc=%v;ra=%v", m.Rcode, m.Authoritative, m.Truncated, m.RecursionAvailable))
	for si, rrs := range [][]dns.RR{m.Answer, m.Ns, m.Extra} {
		for _, rr := range rrs {
			if o, ok := rr.(*dns.OPT); ok {
				var os []string
				for _, e := range o.Option {
					if ede, ok := e.(*dns.EDNS0_EDE); ok {
						os = append(os, fmt.Sprintf("ede%d:%s", ede.InfoCode, ede.ExtraText))
					} else if sn, ok := e.(*dns.EDNS0_SUBNET); ok {
						os = append(os, fmt.Sprintf("ecs%d:%s/%d/%d", sn.Family, sn.Address, sn.SourceNetmask, sn.SourceScope))
					} else {
						os = append(os, fmt.Sprint(e.Option()))
					}
				}
				parts = append(parts, fmt.Sprintf("%d:OPT do=%v %s", si, o.Do(), strings.Join(os, "+")))
				continue
			}
			c := dns.Copy(rr)
			// upstream TTLs count down in the cache; the TTL of a blocked answer is the profile's
			if !strings.HasPrefix(strings.ToLower(c.Header().Name), "blocked") {
				c.Header().Ttl = 0
			}
			parts = append(parts, fmt.Sprintf("%d:%s", si, strings.Join(strings.Fields(c.String()), " ")))
		}
	}
	return strings.Join(parts, ";")
}

func c07Upstream(rng *rand.Rand, mu *sync.Mutex) dnsserver.Handler {
	return dnsserver.HandlerFunc(func(ctx context.Context, rw dnsserver.ResponseWriter, req *dns.Msg) error {
		mu.Lock()
		d := time.Duration(rng.Intn(1500)) * time.Microsecond
		mu.Unlock()
		time.Sleep(d)
		q := req.Question[0]
		name := q.Name
		low := strings.ToLower(name)
		h := uint32(0)
		for _, c := range low {
			h = h*31 + uint32(c)
		}
		resp := new(dns.Msg).SetReply(req)
		resp.RecursionAvailable = true
		if strings.HasPrefix(low, "signed") {
			// a validating upstream (RFC 6840, 5.7 and 5.8): the data is authentic, and it says so to those who ask
			o := req.IsEdns0()
			resp.AuthenticatedData = req.AuthenticatedData || (o != nil && o.Do())
		}
		hdr := func(t uint16) dns.RR_Header { return dns.RR_Header{Name: name, Rrtype: t, Class: dns.ClassINET, Ttl: 3600} }
		switch q.Qtype {
		case dns.TypeA:
			resp.Answer = append(resp.Answer, &dns.CNAME{Hdr: hdr(dns.TypeCNAME), Target: "cn." + low},
				&dns.A{Hdr: dns.RR_Header{Name: "cn." + low, Rrtype: dns.TypeA, Class: dns.ClassINET, Ttl: 3600}, A: net.IPv4(203, 0, byte(h>>8), byte(h)).To4()},
				&dns.A{Hdr: dns.RR_Header{Name: "cn." + low, Rrtype: dns.TypeA, Class: dns.ClassINET, Ttl: 3600}, A: net.IPv4(203, 1, byte(h>>16), byte(h)).To4()})
		case dns.TypeAAAA:
			ip := net.ParseIP("2001:db8::1")
			ip[14], ip[15] = byte(h>>8), byte(h)
			resp.Answer = append(resp.Answer, &dns.AAAA{Hdr: hdr(dns.TypeAAAA), AAAA: ip})
		case dns.TypeHTTPS:
			resp.Answer = append(resp.Answer, &dns.HTTPS{SVCB: dns.SVCB{Hdr: hdr(dns.TypeHTTPS), Priority: 1, Target: ".",
				Value: []dns.SVCBKeyValue{&dns.SVCBAlpn{Alpn: []string{"h2", fmt.Sprintf("x%d", h%97)}},
					&dns.SVCBIPv4Hint{Hint: []net.IP{net.IPv4(203, 2, byte(h>>8), byte(h)).To4()}}, &dns.SVCBPort{Port: uint16(h)}}}})
		case dns.TypeTXT:
			resp.Answer = append(resp.Answer, &dns.TXT{Hdr: hdr(dns.TypeTXT), Txt: []string{low, fmt.Sprint(h)}})
		case dns.TypeMX:
			resp.Answer = append(resp.Answer, &dns.MX{Hdr: hdr(dns.TypeMX), Preference: uint16(h % 50), Mx: "mx." + low})
		case dns.TypeSRV:
			resp.Answer = append(resp.Answer, &dns.SRV{Hdr: hdr(dns.TypeSRV), Priority: 1, Weight: uint16(h % 9), Port: uint16(h), Target: "srv." + low})
		default:
			resp.Ns = append(resp.Ns, &dns.SOA{Hdr: dns.RR_Header{Name: "c07.example.", Rrtype: dns.TypeSOA, Class: dns.ClassINET, Ttl: 3600},
				Ns: "ns.c07.example.", Mbox: "m.c07.example.", Serial: h, Refresh: 1, Retry: 1, Expire: 1, Minttl: 3600})
		}
		return rw.WriteMsg(ctx, req, resp)
	})
}

// c07CacheConf is the cache of the world: the ECS-aware one or (VERIF_CACHE=simple)
// the plain one of the default configuration.
func c07CacheConf() *CacheConfig {
	if os.Getenv("VERIF_CACHE") == "simple" {
		return &CacheConfig{Type: CacheTypeSimple, NoECSCount: 10000, MinTTL: 10 * time.Second}
	}
	return &CacheConfig{Type: CacheTypeECS, NoECSCount: 10000, ECSCount: 10000, MinTTL: 10 * time.Second}
}

func TestVerifC07Stack(t *testing.T) {
	out := vhOpen(t)
	rng := rand.New(rand.NewSource(vhSeed()))
	var rmu sync.Mutex
	reg := prometheus.NewRegistry()
	prometheus.DefaultRegisterer, prometheus.DefaultGatherer = reg, reg
	cloner := dnsmsg.NewCloner(dnsmsg.EmptyClonerStat{})
	mkProf := func(id string, mode dnsmsg.BlockingMode, ttl int) (*agd.Profile, *agd.Device) {
		return &agd.Profile{
				FilterConfig: &filter.ConfigClient{Custom: &filter.ConfigCustom{}, Parental: &filter.ConfigParental{},
					RuleList: &filter.ConfigRuleList{Enabled: true}, SafeBrowsing: &filter.ConfigSafeBrowsing{}},
				Access: access.EmptyProfile{}, BlockingMode: mode, Ratelimiter: agd.GlobalRatelimiter{}, ID: agd.ProfileID(id),
				DeviceIDs: []agd.DeviceID{agd.DeviceID("dev" + id)}, FilteredResponseTTL: time.Duration(ttl) * time.Second,
				FilteringEnabled: true, QueryLogEnabled: true,
			}, &agd.Device{Auth: &agd.AuthSettings{PasswordHash: agdpasswd.AllowAuthenticator{}}, ID: agd.DeviceID("dev" + id),
				FilteringEnabled: true}
	}
	type pd struct {
		p *agd.Profile
		d *agd.Device
	}
	profs := map[string]pd{}
	for i, spec := range []struct {
		id   string
		mode dnsmsg.BlockingMode
		ttl  int
	}{{"pa", &dnsmsg.BlockingModeNullIP{}, 11}, {"pb", &dnsmsg.BlockingModeREFUSED{}, 99}, {"pc", &dnsmsg.BlockingModeNXDOMAIN{}, 33},
		{"pd", &dnsmsg.BlockingModeCustomIP{IPv4: []netip.Addr{netip.MustParseAddr("10.9.8.7")}}, 5},
		// a profile whose constructor cannot be built (negative TTL): it is served with the default one
		{"pe", &dnsmsg.BlockingModeCustomIP{IPv4: []netip.Addr{netip.MustParseAddr("10.66.66.66")}}, -5}} {
		p, d := mkProf(spec.id, spec.mode, spec.ttl)
		profs[fmt.Sprintf("127.0.0.%d", 10+i)] = pd{p, d}
	}
	profDB := agdtest.NewProfileDB()
	profDB.OnProfileByLinkedIP = func(_ context.Context, ip netip.Addr) (*agd.Profile, *agd.Device, error) {
		if x, ok := profs[ip.String()]; ok {
			return x.p, x.d, nil
		}
		return nil, nil, profiledb.ErrDeviceNotFound
	}
	profDB.OnProfileByDedicatedIP = func(context.Context, netip.Addr) (*agd.Profile, *agd.Device, error) {
		return nil, nil, profiledb.ErrDeviceNotFound
	}
	flt := &agdtest.Filter{
		OnFilterRequest: func(_ context.Context, r *filter.Request) (filter.Result, error) {
			if strings.HasPrefix(r.Host, "blocked") {
				return &filter.ResultBlocked{List: "c07_list", Rule: filter.RuleText("||" + r.Host + "^")}, nil
			}
			return nil, nil
		},
		OnFilterResponse: func(context.Context, *filter.Response) (filter.Result, error) { return nil, nil },
	}
	fltStrg := &agdtest.FilterStorage{
		OnForConfig: func(context.Context, filter.Config) filter.Interface { return flt },
		OnHasListID: func(filter.ID) bool { return true },
	}
	g := agdtest.NewGeoIP()
	g.OnData = func(string, netip.Addr) (*geoip.Location, error) { return nil, nil }
	g.OnSubnetByLocation = func(_ *geoip.Location, fam netutil.AddrFamily) (netip.Prefix, error) { return netutil.ZeroPrefix(fam), nil }
	rl := agdtest.NewRateLimit()
	rl.OnIsRateLimited = func(context.Context, *dns.Msg, netip.Addr) (bool, bool, error) { return false, false, nil }
	rl.OnCountResponses = func(context.Context, *dns.Msg, netip.Addr) {}
	global, err := access.NewGlobal(nil, nil)
	if err != nil {
		t.Fatal(err)
	}
	srvA := &agd.Server{Name: "c07srv", Protocol: agd.ProtoDNS, LinkedIPEnabled: true, ReadTimeout: 2 * time.Second, WriteTimeout: 2 * time.Second}
	srvA.SetBindData([]*agd.ServerBindData{{AddrPort: netip.MustParseAddrPort("127.0.0.1:53")}})
	const fg = "c07fg"
	grp := &agd.ServerGroup{DDR: &agd.DDR{Enabled: false}, Name: "c07grp", FilteringGroup: fg, Servers: []*agd.Server{srvA}, ProfilesEnabled: true}
	fltGrp := &agd.FilteringGroup{FilterConfig: &filter.ConfigGroup{Parental: &filter.ConfigParental{},
		RuleList: &filter.ConfigRuleList{Enabled: true}, SafeBrowsing: &filter.ConfigSafeBrowsing{}}, ID: fg}
	msgs, err := dnsmsg.NewConstructor(&dnsmsg.ConstructorConfig{Cloner: cloner, BlockingMode: &dnsmsg.BlockingModeNullIP{},
		StructuredErrors: agdtest.NewSDEConfig(true), FilteredResponseTTL: 7 * time.Second, EDEEnabled: true})
	if err != nil {
		t.Fatal(err)
	}
	handlers, err := NewHandlers(context.Background(), &HandlersConfig{
		BaseLogger: slogutil.NewDiscardLogger(), Cloner: cloner,
		Cache:         c07CacheConf(),
		HumanIDParser: agd.NewHumanIDParser(), Messages: msgs, StructuredErrors: agdtest.NewSDEConfig(true), AccessManager: global,
		BillStat:     &agdtest.BillStatRecorder{OnRecord: func(context.Context, agd.DeviceID, geoip.Country, geoip.ASN, time.Time, agd.Protocol) {}},
		CacheManager: agdcache.EmptyManager{},
		DNSCheck:     &agdtest.DNSCheck{OnCheck: func(context.Context, *dns.Msg, *agd.RequestInfo) (*dns.Msg, error) { return nil, nil }},
		DNSDB:        &agdtest.DNSDB{OnRecord: func(context.Context, *dns.Msg, *agd.RequestInfo) {}},
		ErrColl:      &agdtest.ErrorCollector{OnCollect: func(context.Context, error) {}}, FilterStorage: fltStrg, GeoIP: g,
		Handler:     c07Upstream(rand.New(rand.NewSource(vhSeed()+7)), &rmu),
		HashMatcher: &agdtest.HashMatcher{OnMatchByPrefix: func(context.Context, string) ([]string, bool, error) { return nil, false, nil }},
		ProfileDB:   profDB, PrometheusRegisterer: agdtest.NewTestPrometheusRegisterer(),
		QueryLog:    &agdtest.QueryLog{OnWrite: func(context.Context, *querylog.Entry) error { return nil }}, RateLimit: rl,
		RuleStat:    &agdtest.RuleStat{OnCollect: func(context.Context, filter.ID, filter.RuleText) {}}, MetricsNamespace: "c07",
		FilteringGroups: map[agd.FilteringGroupID]*agd.FilteringGroup{fg: fltGrp}, ServerGroups: []*agd.ServerGroup{grp}, EDEEnabled: true,
	})
	if err != nil {
		t.Fatalf("NewHandlers: %v", err)
	}
	h := handlers[HandlerKey{Server: srvA, ServerGroup: grp}]
	var srv *dnsserver.ServerDNS
	for i := 0; i < 8; i++ {
		srv = dnsserver.NewServerDNS(dnsserver.ConfigDNS{
			ConfigBase: dnsserver.ConfigBase{Name: "c07srv", Addr: "127.0.0.1:0", Handler: h, Disposer: cloner,
				RequestContext: newContextConstructor(5 * time.Second)},
			MaxUDPRespSize: 4096,
		})
		if err = srv.Start(context.Background()); err == nil || !strings.Contains(err.Error(), "in use") {
			break
		}
	}
	if err != nil {
		t.Fatal(err)
	}
	defer func() { _ = srv.Shutdown(context.Background()) }()
	addr := srv.LocalUDPAddr().String()
	// DoH and DoQ servers in front of the same handler with the same recycling disposer: there the
	// response is normalised and serialised AFTER the handler chain has returned
	tlsConf := c07TLSConfig(t)
	dohTLS := tlsConf.Clone()
	dohTLS.NextProtos = dnsserver.NextProtoDoH
	doh := dnsserver.NewServerHTTPS(dnsserver.ConfigHTTPS{TLSConfDefault: dohTLS,
		ConfigBase: dnsserver.ConfigBase{Name: "c07doh", Addr: "127.0.0.1:0", Handler: h, Disposer: cloner, Network: dnsserver.NetworkTCP,
			RequestContext: newContextConstructor(5 * time.Second)}})
	if err = doh.Start(context.Background()); err != nil {
		t.Fatal(err)
	}
	defer func() { _ = doh.Shutdown(context.Background()) }()
	dohAddr := doh.LocalTCPAddr().String()
	doqTLS := tlsConf.Clone()
	doqTLS.NextProtos = dnsserver.NextProtoDoQ
	doq := dnsserver.NewServerQUIC(dnsserver.ConfigQUIC{TLSConfig: doqTLS,
		ConfigBase: dnsserver.ConfigBase{Name: "c07doq", Addr: "127.0.0.1:0", Handler: h, Disposer: cloner,
			RequestContext: newContextConstructor(5 * time.Second)}})
	if err = doq.Start(context.Background()); err != nil {
		t.Fatal(err)
	}
	defer func() { _ = doq.Shutdown(context.Background()) }()
	doqAddr := doq.LocalUDPAddr().String()
	clientTLS := &tls.Config{InsecureSkipVerify: true}
	dohClients := map[string]*http.Client{}
	var dohMu sync.Mutex
	dohClient := func(local string) *http.Client {
		dohMu.Lock()
		defer dohMu.Unlock()
		if c, ok := dohClients[local]; ok {
			return c
		}
		d := &net.Dialer{LocalAddr: &net.TCPAddr{IP: net.ParseIP(local)}, Timeout: 3 * time.Second}
		c := &http.Client{Timeout: 5 * time.Second, Transport: &http.Transport{DialContext: d.DialContext, TLSClientConfig: clientTLS.Clone(),
			ForceAttemptHTTP2: true, MaxIdleConnsPerHost: 4}}
		dohClients[local] = c
		return c
	}

	names := []string{"one.c07.example.", "two.c07.example.", "three.c07.example.", "blocked1.c07.example.", "blocked2.c07.example.",
		"four.c07.example.", "Five.C07.example.", "signed1.c07.example.", "signed2.c07.example."}
	types := []uint16{dns.TypeA, dns.TypeAAAA, dns.TypeHTTPS, dns.TypeTXT, dns.TypeMX, dns.TypeSRV, dns.TypeNS}
	type job struct {
		client, netw, name string
		qt             uint16
		do             bool
		ad, opt        bool // the AD bit set in the query; an OPT record without the DO bit
		ch             bool // CHAOS class: the debug variant of the query
		ecs            bool // a client-subnet option (with an OPT record)
		ecs0           bool // ... that declines the use of the client's subnet (0.0.0.0/0)
		conc           *dns.Msg
		idok, qok      bool
	}
	exchange := func(j *job, id uint16) (*dns.Msg, bool, bool) {
		if j.netw == "doh" || j.netw == "doq" {
			m := new(dns.Msg).SetQuestion(j.name, j.qt)
			m.Id = id
			m.AuthenticatedData = j.ad
			if j.ch {
				m.Question[0].Qclass = dns.ClassCHAOS
			}
			if j.do || j.opt || j.ecs {
				m.SetEdns0(4096, j.do)
			}
			if j.ecs {
				m.IsEdns0().Option = append(m.IsEdns0().Option, c07ECSOpt(j.ecs0, j.client))
			}
			b, _ := m.Pack()
			var raw []byte
			if j.netw == "doh" {
				resp, herr := dohClient(j.client).Post("https://"+dohAddr+"/dns-query", "application/dns-message", bytes.NewReader(b))
				if herr != nil {
					return nil, false, false
				}
				raw, _ = io.ReadAll(resp.Body)
				_ = resp.Body.Close()
				if resp.StatusCode != http.StatusOK {
					return nil, false, false
				}
			} else {
				raw = c07DoQ(doqAddr, j.client, b)
			}
			r := new(dns.Msg)
			if raw == nil || r.Unpack(raw) != nil {
				return nil, false, false
			}
			qok := len(r.Question) == 1 && r.Question[0].Name == j.name && r.Question[0].Qtype == j.qt
			// DoQ clients send ID 0 on the wire by convention; here the real ID is kept and must be echoed
			return r, r.Id == id, qok
		}
		if j.netw == "tcp-abort" {
			// a client that goes away before its answer: the server's write fails (error paths of the
			// response writers run while other clients are being answered)
			d := &net.Dialer{LocalAddr: &net.TCPAddr{IP: net.ParseIP(j.client)}, Timeout: 3 * time.Second}
			c, derr := d.Dial("tcp", addr)
			if derr != nil {
				return nil, false, false
			}
			m := new(dns.Msg).SetQuestion(j.name, j.qt)
			m.Id = id
			b, _ := m.Pack()
			_, _ = c.Write(append(binary.BigEndian.AppendUint16(nil, uint16(len(b))), b...))
			if tc, ok := c.(*net.TCPConn); ok {
				_ = tc.SetLinger(0)
			}
			_ = c.Close()
			return nil, false, false
		}
		cl := &dns.Client{Net: j.netw, Timeout: 3 * time.Second}
		la := net.ParseIP(j.client)
		if j.netw == "tcp" {
			cl.Dialer = &net.Dialer{LocalAddr: &net.TCPAddr{IP: la}, Timeout: 3 * time.Second}
		} else {
			cl.Dialer = &net.Dialer{LocalAddr: &net.UDPAddr{IP: la}, Timeout: 3 * time.Second}
		}
		m := new(dns.Msg).SetQuestion(j.name, j.qt)
		m.Id = id
		m.AuthenticatedData = j.ad
		if j.ch {
			m.Question[0].Qclass = dns.ClassCHAOS
		}
		if j.do || j.opt || j.ecs {
			m.SetEdns0(4096, j.do)
		}
		if j.ecs {
			m.IsEdns0().Option = append(m.IsEdns0().Option, c07ECSOpt(j.ecs0, j.client))
		}
		// dns.Client rejects replies with a foreign id: read them ourselves
		conn, derr := cl.Dial(addr)
		if derr != nil {
			return nil, false, false
		}
		defer conn.Close()
		_ = conn.SetDeadline(time.Now().Add(3 * time.Second))
		if werr := conn.WriteMsg(m); werr != nil {
			return nil, false, false
		}
		r, rerr := conn.ReadMsg()
		if rerr != nil || r == nil {
			return nil, false, false
		}
		qok := len(r.Question) == 1 && r.Question[0].Name == j.name && r.Question[0].Qtype == j.qt
		return r, r.Id == id, qok
	}
	nclients := 8
	lost := 0
	defer func() {
		if lost > 40 {
			t.Fatalf("%d requests got no reply at all: the laboratory is not usable", lost)
		}
	}()
	per := vhEnvInt("VERIF_PER", 150)
	rounds := vhEnvInt("VERIF_ROUNDS", 2)
	for round := 0; round < rounds; round++ {
		jobs := make([][]*job, nclients)
		for c := 0; c < nclients; c++ {
			for i := 0; i < per; i++ {
				jobs[c] = append(jobs[c], &job{client: fmt.Sprintf("127.0.0.%d", 10+c), netw: []string{"udp", "udp", "tcp", "doh", "doh", "doq", "tcp", "tcp-abort"}[rng.Intn(8)],
					name: names[rng.Intn(len(names))], qt: types[rng.Intn(len(types))], do: rng.Intn(4) == 0, ad: rng.Intn(3) == 0, opt: rng.Intn(2) == 0, ch: rng.Intn(8) == 0, ecs: rng.Intn(4) == 0})
				if j := jobs[c][len(jobs[c])-1]; j.ecs && rng.Intn(3) == 0 {
					j.ecs0 = true
				}
			}
		}
		// every client starts the round with the same few names nobody has asked for yet: simultaneous
		// misses for one cache key, their answers stored one after the other while the first hits come in
		for c := 0; c < nclients; c++ {
			var burst []*job
			for k := 0; k < 10; k++ {
				burst = append(burst, &job{client: fmt.Sprintf("127.0.0.%d", 10+c), netw: []string{"udp", "tcp"}[(c+k)%2],
					name: fmt.Sprintf("burst%d-%d.c07.example.", round, k), qt: dns.TypeA})
			}
			jobs[c] = append(burst, jobs[c]...)
		}
		var wg sync.WaitGroup
		for c := 0; c < nclients; c++ {
			wg.Add(1)
			go func(c int) {
				defer wg.Done()
				for i, j := range jobs[c] {
					j.conc, j.idok, j.qok = exchange(j, uint16(c*1000+i+1))
				}
			}(c)
		}
		wg.Wait()
		for c := 0; c < nclients; c++ {
			for i, j := range jobs[c] {
				if j.netw == "tcp-abort" {
					continue
				}
				if j.conc == nil {
					// no reply at all within the client's patience (a machine loaded by other jobs): whether
					// every query is answered is C01's business; there is nothing to compare here
					lost++
					continue
				}
				seq, _, _ := exchange(j, uint16(c*1000+i+1))
				prof := "anonymous"
				if x, ok := profs[j.client]; ok {
					prof = string(x.p.ID)
				}
				cd, sd := c07Digest(j.conc), c07Digest(seq)
				out.Emit(c07Resp{Ev: "Resp", Client: j.client, Prof: prof, Net: j.netw, Name: j.name, QType: j.qt, IDOK: j.idok, QOK: j.qok,
					Conc: cd, Seq: sd, Same: cd == sd && j.conc != nil, ShapeOK: c07ShapeOK(prof, j.name, j.qt, j.conc) && c07ADOK(j.name, j.ad, j.do, j.conc) &&
						c07ECSOK(j.ecs, j.ecs0, j.client, j.conc) && c07ECSOK(j.ecs, j.ecs0, j.client, seq)})
			}
		}
	}
}

// c07DoQ performs one DoQ exchange from the given local address.
func c07DoQ(addr, local string, payload []byte) []byte {
	ctx, cancel := context.WithTimeout(context.Background(), 4*time.Second)
	defer cancel()
	pc, err := net.ListenUDP("udp", &net.UDPAddr{IP: net.ParseIP(local)})
	if err != nil {
		return nil
	}
	defer pc.Close()
	ra, err := net.ResolveUDPAddr("udp", addr)
	if err != nil {
		return nil
	}
	conn, err := quic.Dial(ctx, pc, ra, &tls.Config{InsecureSkipVerify: true, NextProtos: dnsserver.NextProtoDoQ}, &quic.Config{})
	if err != nil {
		return nil
	}
	defer func() { _ = conn.CloseWithError(0, "") }()
	stream, err := conn.OpenStreamSync(ctx)
	if err != nil {
		return nil
	}
	msg := binary.BigEndian.AppendUint16(nil, uint16(len(payload)))
	msg = append(msg, payload...)
	if _, err = stream.Write(msg); err != nil {
		return nil
	}
	_ = stream.Close()
	_ = stream.SetReadDeadline(time.Now().Add(3 * time.Second))
	all, _ := io.ReadAll(stream)
	if len(all) < 2 || len(all) < 2+int(binary.BigEndian.Uint16(all)) {
		return nil
	}
	return all[2 : 2+int(binary.BigEndian.Uint16(all))]
}

func c07TLSConfig(t testing.TB) *tls.Config {
	key, err := ecdsa.GenerateKey(elliptic.P256(), crand.Reader)
	if err != nil {
		t.Fatal(err)
	}
	tmpl := &x509.Certificate{
		SerialNumber: big.NewInt(1), Subject: pkix.Name{CommonName: "c07.example"},
		NotBefore: time.Now().Add(-time.Hour), NotAfter: time.Now().Add(24 * time.Hour),
		KeyUsage: x509.KeyUsageDigitalSignature | x509.KeyUsageCertSign, IsCA: true,
		ExtKeyUsage: []x509.ExtKeyUsage{x509.ExtKeyUsageServerAuth}, BasicConstraintsValid: true,
		DNSNames: []string{"c07.example"}, IPAddresses: []net.IP{net.IPv4(127, 0, 0, 1)},
	}
	der, err := x509.CreateCertificate(crand.Reader, tmpl, tmpl, &key.PublicKey, key)
	if err != nil {
		t.Fatal(err)
	}
	return &tls.Config{Certificates: []tls.Certificate{{Certificate: [][]byte{der}, PrivateKey: key}}, MinVersion: tls.VersionTLS12}
}

// c07ECSOpt is the client-subnet option of the jobs that carry one: every client has a subnet of its own.
func c07ECSOpt(decline bool, client string) *dns.EDNS0_SUBNET {
	if decline {
		return &dns.EDNS0_SUBNET{Code: dns.EDNS0SUBNET, Family: 1, SourceNetmask: 0, Address: net.IPv4zero.To4()}
	}
	last := byte(0)
	if ip := net.ParseIP(client).To4(); ip != nil {
		last = ip[3]
	}
	return &dns.EDNS0_SUBNET{Code: dns.EDNS0SUBNET, Family: 1, SourceNetmask: 24, Address: net.IPv4(198, 51, 100+last%4, 0).To4()}
}

// c07ECSOK: a client-subnet option in an answer belongs to its own request (RFC 7871, 7.2.1: family, source
// prefix length and address of the query), never to somebody else's; only answers that carry one are judged.
func c07ECSOK(ecs, decline bool, client string, m *dns.Msg) bool {
	if m == nil {
		return true
	}
	o := m.IsEdns0()
	if o == nil {
		return true
	}
	for _, e := range o.Option {
		sn, ok := e.(*dns.EDNS0_SUBNET)
		if !ok {
			continue
		}
		if !ecs {
			return false
		}
		want := c07ECSOpt(decline, client)
		if sn.Family != want.Family || sn.SourceNetmask != want.SourceNetmask || !sn.Address.Equal(want.Address) {
			return false
		}
	}
	return true
}

// c07ShapeOK judges blocked A answers only.
// c07ADOK: the AD bit of an answer belongs to its own request: authentic data is
// marked as such for exactly those who asked (AD or DO in their query), whoever
// filled the cache.
func c07ADOK(name string, ad, do bool, m *dns.Msg) bool {
	if m == nil || !strings.HasPrefix(strings.ToLower(name), "signed") || m.Rcode != dns.RcodeSuccess {
		return true
	}
	return m.AuthenticatedData == (ad || do)
}

func c07ShapeOK(prof, name string, qt uint16, m *dns.Msg) bool {
	if m == nil || qt != dns.TypeA || !strings.HasPrefix(strings.ToLower(name), "blocked") {
		return true
	}
	oneA := func(ip string, ttl uint32) bool {
		if m.Rcode != dns.RcodeSuccess || len(m.Answer) != 1 {
			return false
		}
		a, ok := m.Answer[0].(*dns.A)
		return ok && a.A.String() == ip && a.Hdr.Ttl == ttl
	}
	switch prof {
	case "pa":
		return oneA("0.0.0.0", 11)
	case "pb":
		return m.Rcode == dns.RcodeRefused && len(m.Answer) == 0
	case "pc":
		return m.Rcode == dns.RcodeNameError && len(m.Answer) == 0
	case "pd":
		return oneA("10.9.8.7", 5)
	default: // anonymous, and pe (no constructor of its own)
		return oneA("0.0.0.0", 7)
	}
}
