//go:build verif

package dnssvc

// C10 full-stack recorder.  Every abstract vector of specs/Access.tla is sent,
// in several concretisations (c10_gen_test.go, injected by tools/checks/c10.py),
// through a handler built by the real NewHandlers: ratelimitmw (real
// access.Global, real devicefinder, real access.DefaultProfile inside the
// profile), initial, preservice, mainmw, preupstream and the simple cache are
// all the repository's code.  Upstream, filter storage, query log, billing,
// rule statistics, DNSDB, GeoIP and the profile database are recording fakes,
// the ResponseWriter records, and the cache is observed through its own
// Prometheus metrics.  One NDJSON line per request with everything that was
// observed; TLC (TraceAccess.tla) decides.  Nothing is asserted here.

import (
	"context"
	"fmt"
	"math/rand"
	"net"
	"net/netip"
	"net/url"
	"sort"
	"strings"
	"testing"
	"time"

	"github.com/AdguardTeam/AdGuardDNS/internal/access"
	"github.com/AdguardTeam/AdGuardDNS/internal/agd"
	"github.com/AdguardTeam/AdGuardDNS/internal/agdcache"
	"github.com/AdguardTeam/AdGuardDNS/internal/agdpasswd"
	"github.com/AdguardTeam/AdGuardDNS/internal/agdtest"
	"github.com/AdguardTeam/AdGuardDNS/internal/dnsmsg"
	"github.com/AdguardTeam/AdGuardDNS/internal/dnsserver"
	"github.com/AdguardTeam/AdGuardDNS/internal/dnsserver/dnsservertest"
	"github.com/AdguardTeam/AdGuardDNS/internal/filter"
	"github.com/AdguardTeam/AdGuardDNS/internal/geoip"
	"github.com/AdguardTeam/AdGuardDNS/internal/profiledb"
	"github.com/AdguardTeam/AdGuardDNS/internal/querylog"
	"github.com/AdguardTeam/golibs/logutil/slogutil"
	"github.com/miekg/dns"
	"github.com/prometheus/client_golang/prometheus"
)

// c10Rec collects what happened to the request in flight.  The harness is
// single-threaded: one request at a time.
type c10Rec struct {
	eff  map[string]bool
	errs []string
	cur  *c10Case
	prof *agd.Profile
	dev  *agd.Device
	// the subnet address of the request's ECS option, if any, and the ASN it geolocates to
	ecsAddr netip.Addr
	ecsASN  uint32
}

func (r *c10Rec) hit(what string) { r.eff[what] = true }

// c10RW is the recording ResponseWriter.
type c10RW struct {
	rec           *c10Rec
	local, remote net.Addr
}

func (w *c10RW) LocalAddr() net.Addr  { return w.local }
func (w *c10RW) RemoteAddr() net.Addr { return w.remote }
func (w *c10RW) WriteMsg(_ context.Context, _, _ *dns.Msg) error {
	w.rec.hit("written")
	return nil
}

// c10CacheActivity sums the look-up counters and the size gauge of the simple
// cache from the scenario's own registry.
func c10CacheActivity(reg *prometheus.Registry) (sum float64, err error) {
	mfs, err := reg.Gather()
	if err != nil {
		return 0, err
	}
	n := 0
	for _, mf := range mfs {
		name := mf.GetName()
		if !strings.Contains(name, "cache") {
			continue
		}
		for _, m := range mf.GetMetric() {
			n++
			if m.Counter != nil {
				sum += m.Counter.GetValue()
			}
			if m.Gauge != nil {
				sum += m.Gauge.GetValue()
			}
		}
	}
	return sum, nil
}

const (
	c10DeviceID     = "dev1234"
	c10DevDomain    = "d.dns.example"
	c10FltGrp       = "fg"
	c10SrvGrpName   = "sg"
	c10SrvDNS       = "srv_dns"
	c10SrvDoT       = "srv_dot"
	c10SrvDoH       = "srv_doh"
	c10ReqTimeout   = 5 * time.Second
	c10UpstreamAddr = "192.0.2.77"
)

type c10Entry struct {
	name  string
	h     dnsserver.Handler
	proto agd.Protocol
	laddr netip.AddrPort
}

func TestVerifC10Stack(t *testing.T) {
	out := vhOpen(t)
	rng := rand.New(rand.NewSource(vhSeed()*104729 + 10))
	scen := vhEnvInt("VERIF_SCEN", 5)
	per := vhEnvInt("VERIF_PER", 1)
	vecs := c10AllVecs()
	rec := &c10Rec{eff: map[string]bool{}}

	// ---- recording fakes (shared by all scenarios; they only look at rec)
	geoIP := agdtest.NewGeoIP()
	geoIP.OnData = func(host string, ip netip.Addr) (l *geoip.Location, err error) {
		c := rec.cur
		if host == "" && c != nil && ip.WithZone("") == c.Addr && c.ASNKnown {
			return &geoip.Location{Country: geoip.CountryAD, Continent: geoip.ContinentEU, ASN: geoip.ASN(c.ASN)}, nil
		}
		if host == "" && rec.ecsAddr.IsValid() && ip == rec.ecsAddr {
			// the place the client's ECS option points to: somewhere else, in another ASN
			return &geoip.Location{Country: geoip.CountryBE, Continent: geoip.ContinentEU, ASN: geoip.ASN(rec.ecsASN)}, nil
		}
		return nil, nil
	}
	find := func() (p *agd.Profile, d *agd.Device, err error) {
		if rec.prof == nil {
			return nil, nil, profiledb.ErrDeviceNotFound
		}
		return rec.prof, rec.dev, nil
	}
	profDB := agdtest.NewProfileDB()
	profDB.OnProfileByLinkedIP = func(_ context.Context, _ netip.Addr) (*agd.Profile, *agd.Device, error) { return find() }
	profDB.OnProfileByDeviceID = func(_ context.Context, _ agd.DeviceID) (*agd.Profile, *agd.Device, error) { return find() }
	profDB.OnProfileByDedicatedIP = func(_ context.Context, _ netip.Addr) (*agd.Profile, *agd.Device, error) {
		return find()
	}
	errColl := &agdtest.ErrorCollector{OnCollect: func(_ context.Context, err error) {
		rec.errs = append(rec.errs, err.Error())
	}}
	flt := &agdtest.Filter{
		OnFilterRequest: func(_ context.Context, _ *filter.Request) (filter.Result, error) {
			rec.hit("filtered")
			return nil, nil
		},
		OnFilterResponse: func(_ context.Context, _ *filter.Response) (filter.Result, error) {
			rec.hit("filtered")
			return nil, nil
		},
	}
	fltStrg := &agdtest.FilterStorage{
		OnForConfig: func(_ context.Context, _ filter.Config) filter.Interface {
			rec.hit("filtered")
			return flt
		},
		OnHasListID: func(_ filter.ID) bool { return true },
	}
	upstream := dnsserver.HandlerFunc(func(ctx context.Context, rw dnsserver.ResponseWriter, req *dns.Msg) error {
		rec.hit("resolved")
		resp := dnsservertest.NewResp(dns.RcodeSuccess, req, dnsservertest.SectionAnswer{
			dnsservertest.NewA(req.Question[0].Name, 300, netip.MustParseAddr(c10UpstreamAddr)),
		})
		return rw.WriteMsg(ctx, req, resp)
	})
	rl := agdtest.NewRateLimit()
	rl.OnIsRateLimited = func(_ context.Context, _ *dns.Msg, _ netip.Addr) (bool, bool, error) { return false, false, nil }
	rl.OnCountResponses = func(_ context.Context, _ *dns.Msg, _ netip.Addr) {}

	id := 0
	for s := 0; s < scen; s++ {
		g := c10NewGlobal(rng, s)
		global, err := access.NewGlobal(g.Rules, g.Nets)
		if err != nil {
			t.Fatalf("NewGlobal(%q, %v): %v", g.Rules, g.Nets, err)
		}
		// the cache middleware registers its metrics with promauto on the
		// default registerer: give every scenario a registry of its own
		reg := prometheus.NewRegistry()
		prometheus.DefaultRegisterer, prometheus.DefaultGatherer = reg, reg

		srvDNS := &agd.Server{Name: c10SrvDNS, Protocol: agd.ProtoDNS, LinkedIPEnabled: true,
			ReadTimeout: c10ReqTimeout, WriteTimeout: c10ReqTimeout}
		srvDNS.SetBindData([]*agd.ServerBindData{{AddrPort: netip.MustParseAddrPort("94.149.14.14:53")}})
		srvDoT := &agd.Server{Name: c10SrvDoT, Protocol: agd.ProtoDoT, ReadTimeout: c10ReqTimeout,
			WriteTimeout: c10ReqTimeout}
		srvDoT.SetBindData([]*agd.ServerBindData{{AddrPort: netip.MustParseAddrPort("94.149.14.14:853")}})
		srvDoH := &agd.Server{Name: c10SrvDoH, Protocol: agd.ProtoDoH, ReadTimeout: c10ReqTimeout,
			WriteTimeout: c10ReqTimeout}
		srvDoH.SetBindData([]*agd.ServerBindData{{AddrPort: netip.MustParseAddrPort("[2001:db8:53::1]:443")}})
		srvGrp := &agd.ServerGroup{
			DDR:             &agd.DDR{Enabled: false},
			DeviceDomains:   []string{c10DevDomain},
			Name:            c10SrvGrpName,
			FilteringGroup:  c10FltGrp,
			Servers:         []*agd.Server{srvDNS, srvDoT, srvDoH},
			ProfilesEnabled: true,
		}
		fltGrp := &agd.FilteringGroup{
			FilterConfig: &filter.ConfigGroup{
				Parental:     &filter.ConfigParental{},
				RuleList:     &filter.ConfigRuleList{Enabled: true},
				SafeBrowsing: &filter.ConfigSafeBrowsing{},
			},
			ID: c10FltGrp,
		}
		handlers, err := NewHandlers(context.Background(), &HandlersConfig{
			BaseLogger:       slogutil.NewDiscardLogger(),
			Cloner:           agdtest.NewCloner(),
			Cache:            &CacheConfig{Type: CacheTypeSimple, NoECSCount: 100000, MinTTL: 10 * time.Second},
			HumanIDParser:    agd.NewHumanIDParser(),
			Messages:         agdtest.NewConstructor(t),
			StructuredErrors: agdtest.NewSDEConfig(true),
			AccessManager:    global,
			BillStat: &agdtest.BillStatRecorder{OnRecord: func(_ context.Context, _ agd.DeviceID, _ geoip.Country,
				_ geoip.ASN, _ time.Time, _ agd.Protocol) {
				rec.hit("billed")
			}},
			CacheManager: agdcache.EmptyManager{},
			DNSCheck: &agdtest.DNSCheck{OnCheck: func(_ context.Context, _ *dns.Msg, _ *agd.RequestInfo) (*dns.Msg, error) {
				return nil, nil
			}},
			DNSDB: &agdtest.DNSDB{OnRecord: func(_ context.Context, _ *dns.Msg, _ *agd.RequestInfo) {
				rec.hit("dnsdb")
			}},
			ErrColl:       errColl,
			FilterStorage: fltStrg,
			GeoIP:         geoIP,
			Handler:       upstream,
			HashMatcher: &agdtest.HashMatcher{OnMatchByPrefix: func(_ context.Context, _ string) ([]string, bool, error) {
				return nil, false, nil
			}},
			ProfileDB:            profDB,
			PrometheusRegisterer: agdtest.NewTestPrometheusRegisterer(),
			QueryLog: &agdtest.QueryLog{OnWrite: func(_ context.Context, _ *querylog.Entry) error {
				rec.hit("logged")
				return nil
			}},
			RateLimit: rl,
			RuleStat: &agdtest.RuleStat{OnCollect: func(_ context.Context, _ filter.ID, _ filter.RuleText) {
				rec.hit("rulestat")
			}},
			MetricsNamespace: fmt.Sprintf("c10_%d", s),
			FilteringGroups:  map[agd.FilteringGroupID]*agd.FilteringGroup{c10FltGrp: fltGrp},
			ServerGroups:     []*agd.ServerGroup{srvGrp},
			EDEEnabled:       true,
		})
		if err != nil {
			t.Fatalf("NewHandlers: %v", err)
		}
		var entries []c10Entry
		for _, srv := range srvGrp.Servers {
			h := handlers[HandlerKey{Server: srv, ServerGroup: srvGrp}]
			if h == nil {
				t.Fatalf("no handler for %s", srv.Name)
			}
			entries = append(entries, c10Entry{name: string(srv.Name), h: h, proto: srv.Protocol,
				laddr: srv.BindData()[0].AddrPort})
		}

		for _, want := range vecs {
			// sampling weight only: the few vectors without a profile and the
			// ones no global rule touches get more concretisations
			reps := per
			if !want.Prof {
				reps *= 8
			} else if !want.GIP && want.GHost != "block" {
				reps *= 2
			}
			for k := 0; k < reps; k++ {
				c, ok := c10Concretise(rng, g, want)
				if !ok {
					continue
				}
				e := entries[rng.Intn(len(entries))]

				rec.cur, rec.prof, rec.dev = c, nil, nil
				if c.Prof {
					rec.dev = &agd.Device{
						Auth:             &agd.AuthSettings{Enabled: false, PasswordHash: agdpasswd.AllowAuthenticator{}},
						ID:               c10DeviceID,
						// the filtering switches of the device and the profile have nothing to do with access control
						FilteringEnabled: rng.Intn(4) != 0,
					}
					asns := func(l []uint32) (res []geoip.ASN) {
						for _, x := range l {
							res = append(res, geoip.ASN(x))
						}
						return res
					}
					rec.prof = &agd.Profile{
						FilterConfig: &filter.ConfigClient{
							Custom:       &filter.ConfigCustom{},
							Parental:     &filter.ConfigParental{},
							RuleList:     &filter.ConfigRuleList{Enabled: true},
							SafeBrowsing: &filter.ConfigSafeBrowsing{},
						},
						Access: access.NewDefaultProfile(&access.ProfileConfig{
							AllowedNets:          c.ANets,
							BlockedNets:          c.BNets,
							AllowedASN:           asns(c.AASNs),
							BlockedASN:           asns(c.BASNs),
							BlocklistDomainRules: c.PRules,
						}),
						BlockingMode:        &dnsmsg.BlockingModeNullIP{},
						Ratelimiter:         agd.GlobalRatelimiter{},
						ID:                  "prof1234",
						DeviceIDs:           []agd.DeviceID{c10DeviceID},
						FilteredResponseTTL: 10 * time.Second,
						FilteringEnabled:    rng.Intn(4) != 0,
						QueryLogEnabled:     rng.Intn(4) != 0,
						IPLogEnabled:        rng.Intn(2) == 0,
					}
				}

				// transport view of the client address
				ipb := c.Addr.AsSlice()
				if c.Mapped {
					ipb = net.IP(ipb).To16() // ::ffff:a.b.c.d
				}
				port := 1024 + rng.Intn(60000)
				var raddr, laddr net.Addr
				ri := &dnsserver.RequestInfo{StartTime: time.Now()}
				via := e.name
				switch e.proto {
				case agd.ProtoDNS:
					if rng.Intn(4) == 0 {
						raddr, laddr = &net.TCPAddr{IP: ipb, Port: port, Zone: c.Zone}, net.TCPAddrFromAddrPort(e.laddr)
						via += "/tcp"
					} else {
						raddr, laddr = &net.UDPAddr{IP: ipb, Port: port, Zone: c.Zone}, net.UDPAddrFromAddrPort(e.laddr)
						via += "/udp"
					}
					via += "/linked-ip"
				case agd.ProtoDoT:
					raddr, laddr = &net.TCPAddr{IP: ipb, Port: port, Zone: c.Zone}, net.TCPAddrFromAddrPort(e.laddr)
					if c.Prof {
						ri.TLSServerName = c10DeviceID + "." + c10DevDomain
						via += "/sni"
					} else {
						ri.TLSServerName = c10Pick(rng, []string{"", "dns.example", c10DevDomain})
					}
				case agd.ProtoDoH:
					raddr, laddr = &net.TCPAddr{IP: ipb, Port: port, Zone: c.Zone}, net.TCPAddrFromAddrPort(e.laddr)
					ri.TLSServerName = "dns.example"
					ri.URL = &url.URL{Path: dnsserver.PathDoH}
					if c.Prof {
						ri.URL = &url.URL{Path: dnsserver.PathDoH + "/" + c10DeviceID}
						via += "/url-path"
					}
				}
				req := &dns.Msg{
					MsgHdr:   dns.MsgHdr{Id: uint16(rng.Intn(65536)), RecursionDesired: true},
					Question: []dns.Question{{Name: c.Name, Qtype: c.QType, Qclass: dns.ClassINET}},
				}
				// a valid ECS option pointing into ANOTHER autonomous system (one the profile lists, if any): access
				// control is about the client's own address and ASN, never about what its ECS option says
				rec.ecsAddr, rec.ecsASN = netip.Addr{}, 0
				if rng.Intn(3) == 0 {
					decoy := uint32(64999)
					for _, l := range [][]uint32{c.BASNs, c.AASNs} {
						for _, x := range l {
							if x != c.ASN && x != 0 {
								decoy = x
							}
						}
					}
					rec.ecsAddr, rec.ecsASN = netip.AddrFrom4([4]byte{45, 45, byte(rng.Intn(250)), 0}), decoy
					bits := uint8(24)
					if a := c.Addr.Unmap(); a.Is4() && rng.Intn(2) == 0 {
						// a short prefix that COVERS the client's own address (its /8, or everything): the place of
						// the subnet's base address is still not the place of the client
						bits = []uint8{8, 8, 0}[rng.Intn(3)]
						rec.ecsAddr = netip.PrefixFrom(a, int(bits)).Masked().Addr()
						if rec.ecsAddr == a {
							// the client's address IS the base address of that prefix: the scripted GeoIP database could
							// not tell the two apart
							bits, rec.ecsAddr = 24, netip.AddrFrom4([4]byte{45, 45, byte(rng.Intn(250)), 0})
						}
					}
					req.SetEdns0(1232, false)
					o := req.IsEdns0()
					o.Option = append(o.Option, &dns.EDNS0_SUBNET{Code: dns.EDNS0SUBNET, Family: 1, SourceNetmask: bits,
						Address: rec.ecsAddr.AsSlice()})
					via += fmt.Sprintf("/ecs=%s/%d(asn %d)", rec.ecsAddr, bits, decoy)
				}
				ctx, cancel := context.WithTimeout(context.Background(), c10ReqTimeout)
				ctx = dnsserver.ContextWithServerInfo(ctx, &dnsserver.ServerInfo{Name: e.name, Addr: e.laddr.String(),
					Proto: e.proto})
				ctx = dnsserver.ContextWithRequestInfo(ctx, ri)

				rec.eff, rec.errs = map[string]bool{}, nil
				before, gerr := c10CacheActivity(reg)
				if gerr != nil {
					t.Fatal(gerr)
				}
				herr := e.h.ServeDNS(ctx, &c10RW{rec: rec, local: laddr, remote: raddr}, req)
				cancel()
				after, gerr := c10CacheActivity(reg)
				if gerr != nil {
					t.Fatal(gerr)
				}
				if after != before {
					rec.hit("cached")
				}
				if len(rec.errs) > 0 {
					// the error collector is not part of the effect set; an
					// unexpected error report means the harness set-up is wrong
					t.Fatalf("error collector got %q for %+v via %s", rec.errs, *c, via)
				}
				eff := make([]string, 0, len(rec.eff))
				for x := range rec.eff {
					eff = append(eff, x)
				}
				sort.Strings(eff)
				line := c10Line{Level: "stack", Vec: c10Abstract(g, c), Eff: eff, Conc: c10MkConc(g, c, via)}
				if herr != nil {
					line.Err = herr.Error()
				}
				line.Got = len(eff) == 0 && herr == nil
				id++
				line.ID = id
				out.Emit(line)
			}
		}
	}
}
