//go:build verif

package tlsconfig

// EXT6 harness for the TLS manager (specs/TLSManager.tla).
//
// A world is one real DefaultManager over a scratch directory with real
// certificate / key files (self-signed ECDSA, generated here) and real session
// ticket key files.  Every step of a behaviour printed by TLC (and of a few
// scripted ones) is executed on it; every observation is made through real TLS
// handshakes over loop-back TCP against the *tls.Config values handed out by
// Clone / CloneWithMetrics: which certificate the client saw, and whether a
// session resumed.
//
// TestVerifEXT6TLSStepper     sequential behaviours (quiescent points only)
// TestVerifEXT6TLSConcurrent  (-race) handshakes while Refresh / RotateTickets run
//
// Nothing is judged here: TLC decides (specs/TraceTLSManager.tla).

import (
	"context"
	"crypto/ecdsa"
	"crypto/elliptic"
	"crypto/rand"
	"crypto/sha256"
	"crypto/tls"
	"crypto/x509"
	"crypto/x509/pkix"
	"encoding/pem"
	"fmt"
	"io"
	"log/slog"
	"math/big"
	mrand "math/rand"
	"net"
	"os"
	"path/filepath"
	"strings"
	"sync"
	"sync/atomic"
	"testing"
	"time"
)

// ---------------------------------------------------------------- fakes

type ext6Coll struct{ n atomic.Int64 }

func (c *ext6Coll) Collect(_ context.Context, _ error) { c.n.Add(1) }

type ext6Metrics struct {
	mu     sync.Mutex
	before int
	after  int
	infos  []string
	status []bool
}

func (m *ext6Metrics) BeforeHandshake(_ string) func(*tls.ClientHelloInfo) (*tls.Config, error) {
	return func(*tls.ClientHelloInfo) (*tls.Config, error) {
		m.mu.Lock()
		m.before++
		m.mu.Unlock()
		return nil, nil
	}
}

func (m *ext6Metrics) AfterHandshake(_, _ string, _ []string, _ []*tls.Certificate) func(tls.ConnectionState) error {
	return func(tls.ConnectionState) error {
		m.mu.Lock()
		m.after++
		m.mu.Unlock()
		return nil
	}
}

func (m *ext6Metrics) SetCertificateInfo(_ context.Context, _, subj string, _ time.Time) {
	m.mu.Lock()
	m.infos = append(m.infos, subj)
	m.mu.Unlock()
}

func (m *ext6Metrics) SetSessionTicketRotationStatus(_ context.Context, enabled bool) {
	m.mu.Lock()
	m.status = append(m.status, enabled)
	m.mu.Unlock()
}

func (m *ext6Metrics) snap() (b, a, i, s int) {
	m.mu.Lock()
	defer m.mu.Unlock()
	return m.before, m.after, len(m.infos), len(m.status)
}

// ---------------------------------------------------------------- certificates

type ext6Cert struct {
	id      string
	serial  int64
	certPEM []byte
	keyPEM  []byte
}

var ext6Kinds = map[string][]string{
	"A": {"a.example"}, "B": {"b.example"}, "AB": {"a.example", "b.example"}, "W": {"*.w.example"}, "N": nil,
}

func ext6KindOf(id string) string { return strings.TrimRight(id, "0123456789") }

type ext6CertFactory struct {
	mu     sync.Mutex
	byID   map[string]*ext6Cert
	bySer  map[string]string
	nextSN int64
}

func newExt6CertFactory() *ext6CertFactory {
	return &ext6CertFactory{byID: map[string]*ext6Cert{}, bySer: map[string]string{}, nextSN: 1000}
}

func (f *ext6CertFactory) get(tb testing.TB, id string) *ext6Cert {
	f.mu.Lock()
	defer f.mu.Unlock()
	if c, ok := f.byID[id]; ok {
		return c
	}
	names, ok := ext6Kinds[ext6KindOf(id)]
	if !ok {
		tb.Fatalf("unknown certificate kind of %q", id)
	}
	f.nextSN++
	key, err := ecdsa.GenerateKey(elliptic.P256(), rand.Reader)
	if err != nil {
		tb.Fatal(err)
	}
	tmpl := &x509.Certificate{
		SerialNumber: big.NewInt(f.nextSN),
		Subject:      pkix.Name{CommonName: "verif " + id},
		DNSNames:     names,
		NotBefore:    time.Now().Add(-time.Hour),
		NotAfter:     time.Now().Add(240 * time.Hour),
		KeyUsage:     x509.KeyUsageDigitalSignature,
		ExtKeyUsage:  []x509.ExtKeyUsage{x509.ExtKeyUsageServerAuth},
	}
	der, err := x509.CreateCertificate(rand.Reader, tmpl, tmpl, &key.PublicKey, key)
	if err != nil {
		tb.Fatal(err)
	}
	kb, err := x509.MarshalECPrivateKey(key)
	if err != nil {
		tb.Fatal(err)
	}
	c := &ext6Cert{id: id, serial: f.nextSN,
		certPEM: pem.EncodeToMemory(&pem.Block{Type: "CERTIFICATE", Bytes: der}),
		keyPEM:  pem.EncodeToMemory(&pem.Block{Type: "EC PRIVATE KEY", Bytes: kb})}
	f.byID[id] = c
	f.bySer[fmt.Sprint(f.nextSN)] = id
	return c
}

func (f *ext6CertFactory) idOf(c *x509.Certificate) string {
	f.mu.Lock()
	defer f.mu.Unlock()
	if id, ok := f.bySer[c.SerialNumber.String()]; ok {
		return id
	}
	return "unknown-serial-" + c.SerialNumber.String()
}

// ---------------------------------------------------------------- world

var ext6SNI = map[string]string{
	"a": "a.example", "aU": "A.EXAMPLE", "adot": "a.example.", "b": "b.example", "xw": "x.w.example",
	"xyw": "x.y.w.example", "w": "w.example", "unk": "unknown.test", "empty": "", "ip": "192.0.2.1",
}

var ext6SNIOrder = []string{"a", "aU", "adot", "b", "xw", "xyw", "w", "unk", "empty", "ip"}

type ext6Sess struct {
	mu sync.Mutex
	s  *tls.ClientSessionState
	tv uint16
}

func (c *ext6Sess) Get(string) (*tls.ClientSessionState, bool) {
	c.mu.Lock()
	defer c.mu.Unlock()
	return c.s, c.s != nil
}

// Put keeps the first ticket only: the session under observation must not be
// replaced by the ticket a later (resumed) handshake hands out.
func (c *ext6Sess) Put(_ string, s *tls.ClientSessionState) {
	c.mu.Lock()
	defer c.mu.Unlock()
	if c.s == nil && s != nil {
		c.s = s
	}
}

type ext6World struct {
	tb    testing.TB
	dir   string
	fac   *ext6CertFactory
	ntp   int
	mgr   *DefaultManager
	coll  *ext6Coll
	mtr   *ext6Metrics
	cfgs  []*tls.Config
	kinds []string
	sess  []*ext6Sess
	ln    net.Listener
	n     int
}

func newExt6World(tb testing.TB, fac *ext6CertFactory, ntp int) *ext6World {
	dir, err := os.MkdirTemp(os.Getenv("VERIF_SCRATCH"), "ext6tls-")
	if err != nil {
		tb.Fatal(err)
	}
	w := &ext6World{tb: tb, dir: dir, fac: fac, ntp: ntp, coll: &ext6Coll{}, mtr: &ext6Metrics{}}
	var tps []string
	for i := 1; i <= ntp; i++ {
		tps = append(tps, w.ticketPath(i))
	}
	w.mgr, err = NewDefaultManager(&DefaultManagerConfig{
		Logger:             slog.New(slog.NewTextHandler(io.Discard, nil)),
		ErrColl:            w.coll,
		Metrics:            w.mtr,
		SessionTicketPaths: tps,
	})
	if err != nil {
		tb.Fatal(err)
	}
	w.ln, err = net.Listen("tcp", "127.0.0.1:0")
	if err != nil {
		tb.Fatal(err)
	}
	return w
}

func (w *ext6World) close() {
	w.ln.Close()
	os.RemoveAll(w.dir)
}

func (w *ext6World) pairPaths(p string) (string, string) {
	return filepath.Join(w.dir, p+".crt"), filepath.Join(w.dir, p+".key")
}

func (w *ext6World) ticketPath(i int) string { return filepath.Join(w.dir, fmt.Sprintf("t%d", i)) }

func ext6Must(tb testing.TB, err error) {
	if err != nil {
		tb.Fatal(err)
	}
}

// writeFile replaces a file atomically (rename), like an operator's tooling.
func ext6WriteFile(tb testing.TB, path string, b []byte) {
	tmp := path + ".tmp"
	ext6Must(tb, os.WriteFile(tmp, b, 0o600))
	ext6Must(tb, os.Rename(tmp, path))
}

func (w *ext6World) writePair(p, content string) {
	cp, kp := w.pairPaths(p)
	switch content {
	case "none":
		os.Remove(cp)
		os.Remove(kp)
	case "garbage":
		ext6WriteFile(w.tb, cp, []byte("-----BEGIN CERTIFICATE-----\nnot base64 at all\n-----END CERTIFICATE-----\n"))
		ext6WriteFile(w.tb, kp, w.fac.get(w.tb, "A1").keyPEM)
	case "mismatch":
		ext6WriteFile(w.tb, cp, w.fac.get(w.tb, "A1").certPEM)
		ext6WriteFile(w.tb, kp, w.fac.get(w.tb, "B1").keyPEM)
	default:
		c := w.fac.get(w.tb, content)
		ext6WriteFile(w.tb, cp, c.certPEM)
		ext6WriteFile(w.tb, kp, c.keyPEM)
	}
}

func ext6Key(k int) []byte {
	h := sha256.Sum256([]byte(fmt.Sprintf("verif session ticket key %d", k)))
	return h[:]
}

func (w *ext6World) writeTicket(i, content int) {
	path := w.ticketPath(i)
	switch {
	case content == 0:
		os.Remove(path)
	case content == 9:
		ext6WriteFile(w.tb, path, ext6Key(1)[:16])
	case content > 10:
		b := append(append([]byte{}, ext6Key(content-10)...), []byte("trailing bytes after the key")...)
		ext6WriteFile(w.tb, path, b)
	default:
		ext6WriteFile(w.tb, path, ext6Key(content))
	}
}

// handshake performs one real handshake against conf.  res is the id of the
// certificate the client saw, "fail" when the handshake failed, "panic" when
// the server side panicked (recovered here the way net/http does).
func (w *ext6World) handshake(conf *tls.Config, sni string, tv uint16, cache *ext6Sess) (res string, resumed bool, detail string) {
	type sres struct {
		err string
		pan bool
	}
	done := make(chan sres, 1)
	go func() {
		var r sres
		conn, err := w.ln.Accept()
		if err != nil {
			done <- sres{err: "accept: " + err.Error()}
			return
		}
		defer conn.Close()
		defer func() {
			if p := recover(); p != nil {
				r.pan = true
				r.err = fmt.Sprint("panic: ", p)
			}
			done <- r
		}()
		_ = conn.SetDeadline(time.Now().Add(20 * time.Second))
		s := tls.Server(conn, conf)
		if err = s.Handshake(); err != nil {
			r.err = err.Error()
			return
		}
		_, _ = s.Write([]byte("x"))
		_ = s.Close()
	}()
	ccfg := &tls.Config{ServerName: sni, InsecureSkipVerify: true, MinVersion: tls.VersionTLS12, MaxVersion: tv}
	if cache != nil {
		ccfg.ClientSessionCache = cache
	}
	raw, err := net.DialTimeout("tcp", w.ln.Addr().String(), 10*time.Second)
	if err != nil {
		w.tb.Fatalf("dial: %v", err)
	}
	defer raw.Close()
	_ = raw.SetDeadline(time.Now().Add(20 * time.Second))
	c := tls.Client(raw, ccfg)
	herr := c.Handshake()
	var st tls.ConnectionState
	if herr == nil {
		b := make([]byte, 1)
		_, _ = c.Read(b) // lets a TLS 1.3 client take the session ticket
		st = c.ConnectionState()
	}
	raw.Close()
	sr := <-done
	switch {
	case sr.pan:
		return "panic", false, sr.err
	case herr != nil:
		return "fail", false, fmt.Sprintf("client: %v; server: %s", herr, sr.err)
	case len(st.PeerCertificates) == 0:
		return "fail", false, "no peer certificate"
	}
	return w.fac.idOf(st.PeerCertificates[0]), st.DidResume, ""
}

type ext6Probe struct {
	I int    `json:"i"`
	S string `json:"s"`
	R string `json:"r"`
}

func (w *ext6World) probeAll(only int) (ps []ext6Probe, details []string) {
	ps = []ext6Probe{}
	for i, conf := range w.cfgs {
		if only > 0 && i+1 != only {
			continue
		}
		for _, s := range ext6SNIOrder {
			r, _, d := w.handshake(conf, ext6SNI[s], tls.VersionTLS13, nil)
			ps = append(ps, ext6Probe{I: i + 1, S: s, R: r})
			if r == "panic" && len(details) < 2 {
				details = append(details, d)
			}
		}
	}
	return ps, details
}

// whiteBox describes the store as the package sees it (for the description of
// a rejected trace only; no verdict depends on it).
func (w *ext6World) whiteBox() []string {
	w.mgr.mu.Lock()
	defer w.mgr.mu.Unlock()
	res := []string{}
	for i, c := range w.mgr.certStorage.certs {
		p := strings.TrimSuffix(filepath.Base(w.mgr.certStorage.paths[i].certPath), ".crt")
		switch {
		case c == nil:
			res = append(res, p+":nil")
		case c.Leaf == nil:
			res = append(res, p+":noleaf")
		default:
			res = append(res, p+":"+w.fac.idOf(c.Leaf))
		}
	}
	return res
}

type ext6Step struct {
	A string `json:"a"`
	P string `json:"p"`
	C string `json:"c"`
	I int    `json:"i"`
	K int    `json:"k"`
}

type ext6Res struct {
	S int    `json:"s"`
	I int    `json:"i"`
	R string `json:"r"`
}

type ext6X struct {
	I int    `json:"i"`
	J int    `json:"j"`
	R string `json:"r"`
}

func ext6Ret(err error) (string, string) {
	if err != nil {
		return "err", err.Error()
	}
	return "ok", ""
}

// ext6Call runs a manager call; a panic of the code under test is an outcome
// to record ("panic"), not a reason to lose the run.
func ext6Call(f func() error) (ret, msg string) {
	defer func() {
		if p := recover(); p != nil {
			ret, msg = "panic", fmt.Sprint(p)
		}
	}()
	return ext6Ret(f())
}

func (w *ext6World) tvFor(n int) uint16 {
	if n%2 == 0 {
		return tls.VersionTLS12
	}
	return tls.VersionTLS13
}

// step executes one abstract step and emits its event.
func (w *ext6World) step(out *vhOut, st ext6Step) {
	ctx := context.Background()
	w.n++
	switch st.A {
	case "WriteFile":
		w.writePair(st.P, st.C)
		out.Emit(map[string]any{"ev": "WriteFile", "p": st.P, "c": st.C})
	case "WriteTicket":
		w.writeTicket(st.I, st.K)
		out.Emit(map[string]any{"ev": "WriteTicket", "i": st.I, "k": st.K})
	case "Add":
		cp, kp := w.pairPaths(st.P)
		_, _, i0, _ := w.mtr.snap()
		c0 := w.coll.n.Load()
		ret, es := ext6Call(func() error { return w.mgr.Add(ctx, cp, kp) })
		_, _, i1, _ := w.mtr.snap()
		hs, det := w.probeAll(0)
		out.Emit(map[string]any{"ev": "Add", "p": st.P, "ret": ret, "err": es, "loads": i1 - i0,
			"coll": w.coll.n.Load() > c0, "hs": hs, "wb": w.whiteBox(), "detail": det})
	case "Refresh":
		_, _, i0, _ := w.mtr.snap()
		c0 := w.coll.n.Load()
		ret, es := ext6Call(func() error { return w.mgr.Refresh(ctx) })
		_, _, i1, _ := w.mtr.snap()
		hs, det := w.probeAll(0)
		out.Emit(map[string]any{"ev": "Refresh", "ret": ret, "err": es, "loads": i1 - i0,
			"coll": w.coll.n.Load() > c0, "hs": hs, "wb": w.whiteBox(), "detail": det})
	case "Clone":
		var conf *tls.Config
		if st.P == "metrics" {
			conf = w.mgr.CloneWithMetrics("verif-proto", "verif-srv", []string{"d.example"})
		} else {
			conf = w.mgr.Clone()
		}
		w.cfgs = append(w.cfgs, conf)
		w.kinds = append(w.kinds, st.P)
		hs, det := w.probeAll(len(w.cfgs))
		out.Emit(map[string]any{"ev": "Clone", "kind": st.P, "hs": hs, "detail": det,
			"minver": int(conf.MinVersion), "maxver": int(conf.MaxVersion)})
	case "Rotate":
		_, _, _, s0 := w.mtr.snap()
		c0 := w.coll.n.Load()
		ret, es := ext6Call(func() error { return w.mgr.RotateTickets(ctx) })
		status := ""
		w.mtr.mu.Lock()
		if len(w.mtr.status) > s0 {
			status = fmt.Sprint(w.mtr.status[len(w.mtr.status)-1])
		}
		w.mtr.mu.Unlock()
		// every held session against every configuration, and a brand-new
		// session of every configuration against every configuration
		res := []ext6Res{}
		for si, s := range w.sess {
			for ci, conf := range w.cfgs {
				r, resumed, _ := w.handshake(conf, "", s.tv, s)
				res = append(res, ext6Res{S: si + 1, I: ci + 1, R: ext6ResumeWord(r, resumed)})
			}
		}
		x := []ext6X{}
		for i, ci := range w.cfgs {
			fresh := &ext6Sess{tv: w.tvFor(w.n + i)}
			r, _, _ := w.handshake(ci, "", fresh.tv, fresh)
			if r == "fail" || r == "panic" || fresh.s == nil {
				continue
			}
			for j, cj := range w.cfgs {
				r2, resumed, _ := w.handshake(cj, "", fresh.tv, fresh)
				x = append(x, ext6X{I: i + 1, J: j + 1, R: ext6ResumeWord(r2, resumed)})
			}
		}
		out.Emit(map[string]any{"ev": "Rotate", "ret": ret, "err": es, "coll": w.coll.n.Load() > c0,
			"status": status, "res": res, "x": x})
	case "Handshake":
		if st.I < 1 || st.I > len(w.cfgs) {
			out.Emit(map[string]any{"ev": "Handshake", "i": st.I, "s": st.P, "r": "noconfig", "mb": 0, "ma": 0, "tv": 0, "detail": ""})
			return
		}
		conf := w.cfgs[st.I-1]
		b0, a0, _, _ := w.mtr.snap()
		tv := w.tvFor(w.n)
		r, _, det := w.handshake(conf, ext6SNI[st.P], tv, nil)
		b1, a1, _, _ := w.mtr.snap()
		out.Emit(map[string]any{"ev": "Handshake", "i": st.I, "s": st.P, "r": r, "mb": b1 - b0, "ma": a1 - a0,
			"tv": int(tv), "detail": det})
	case "Issue":
		if st.I < 1 || st.I > len(w.cfgs) {
			out.Emit(map[string]any{"ev": "Issue", "i": st.I, "ok": false, "tv": 0, "detail": "noconfig"})
			return
		}
		conf := w.cfgs[st.I-1]
		s := &ext6Sess{tv: w.tvFor(w.n)}
		r, _, det := w.handshake(conf, "", s.tv, s)
		ok := r != "fail" && r != "panic" && s.s != nil
		if ok {
			w.sess = append(w.sess, s)
		}
		out.Emit(map[string]any{"ev": "Issue", "i": st.I, "ok": ok, "tv": int(s.tv), "detail": det})
	case "Resume":
		if st.K < 1 || st.K > len(w.sess) || st.I < 1 || st.I > len(w.cfgs) {
			// the session was never issued on the real code (the trace is rejected earlier)
			out.Emit(map[string]any{"ev": "Resume", "s": st.K, "i": st.I, "r": "nosession", "tv": 0, "detail": ""})
			return
		}
		s := w.sess[st.K-1]
		conf := w.cfgs[st.I-1]
		r, resumed, det := w.handshake(conf, "", s.tv, s)
		out.Emit(map[string]any{"ev": "Resume", "s": st.K, "i": st.I, "r": ext6ResumeWord(r, resumed), "tv": int(s.tv),
			"detail": det})
	case "RotateLock", "RotateApply", "RotateDone":
		// parts of the Rotate call already executed
	default:
		w.tb.Fatalf("unknown step %q", st.A)
	}
}

func ext6ResumeWord(r string, resumed bool) string {
	switch {
	case r == "fail" || r == "panic":
		return r
	case resumed:
		return "resumed"
	}
	return "full"
}

// scripted behaviours: corners the random walks may miss.
func ext6Scripted() (res []struct {
	ntp   int
	steps []ext6Step
}) {
	wf := func(p, c string) ext6Step { return ext6Step{A: "WriteFile", P: p, C: c} }
	wt := func(i, k int) ext6Step { return ext6Step{A: "WriteTicket", I: i, K: k} }
	add := func(p string) ext6Step { return ext6Step{A: "Add", P: p} }
	cl := func(k string) ext6Step { return ext6Step{A: "Clone", P: k} }
	hs := func(i int, s string) ext6Step { return ext6Step{A: "Handshake", I: i, P: s} }
	is := func(i int) ext6Step { return ext6Step{A: "Issue", I: i} }
	rs := func(s, i int) ext6Step { return ext6Step{A: "Resume", K: s, I: i} }
	rf := ext6Step{A: "Refresh"}
	ro := ext6Step{A: "Rotate"}
	type sc = struct {
		ntp   int
		steps []ext6Step
	}
	return []sc{
		// renewal of one pair, order of selection, the no-SNI default
		{2, []ext6Step{cl("clone"), cl("metrics"), hs(1, "a"), is(1), wf("p1", "N1"), add("p1"), wf("p2", "A1"), add("p2"),
			wf("p3", "AB1"), add("p3"), hs(1, "a"), hs(2, "b"), hs(1, "empty"), hs(2, "unk"), wf("p2", "A2"), rf, hs(1, "a"),
			add("p2"), wf("p1", "B1"), rf, hs(2, "b"), hs(1, "empty")}},
		// ticket keys: rotation reaches both kinds of configuration, old sessions, late clone
		{2, []ext6Step{wf("p1", "A1"), add("p1"), cl("clone"), cl("metrics"), is(1), rs(1, 1), rs(1, 2), wt(1, 1), wt(2, 2),
			ro, is(1), is(2), rs(2, 2), rs(3, 1), rs(1, 1), wt(1, 3), ro, rs(2, 1), wt(1, 2), wt(2, 1), ro, rs(2, 1), rs(2, 2),
			cl("clone"), is(3), rs(2, 3), rs(4, 1), ro, rs(2, 3), wt(2, 9), ro, rs(2, 3), wt(2, 0), ro, wt(2, 12), ro, rs(2, 1)}},
		// a refresh that meets an unusable pair in front of a renewed one; repair and refresh again
		{1, []ext6Step{wf("p1", "A1"), add("p1"), wf("p2", "B1"), add("p2"), cl("clone"), cl("metrics"), wf("p1", "garbage"),
			wf("p2", "B2"), rf, hs(1, "a"), hs(2, "b"), wf("p1", "A2"), rf, hs(1, "a"), wf("p2", "none"), rf, hs(2, "b"),
			wf("p2", "mismatch"), wf("p1", "A1"), rf, hs(1, "a"), hs(1, "b")}},
		// no ticket paths configured
		{0, []ext6Step{wf("p1", "A1"), add("p1"), cl("clone"), cl("metrics"), ro, is(1), rs(1, 1), rs(1, 2), ro, rs(1, 1)}},
		// one path; failed add, add again after repair; a removed pair at refresh time
		{1, []ext6Step{cl("metrics"), wf("p1", "garbage"), add("p1"), wf("p1", "mismatch"), add("p1"), wf("p1", "W1"), add("p1"),
			hs(1, "xw"), hs(1, "xyw"), hs(1, "w"), wt(1, 11), ro, is(1), wt(1, 1), ro, rs(1, 1)}},
	}
}

func TestVerifEXT6TLSStepper(t *testing.T) {
	out := vhOpen(t)
	fac := newExt6CertFactory()
	var behs []struct {
		NTP   int        `json:"ntp"`
		Steps []ext6Step `json:"steps"`
	}
	if p := os.Getenv("VERIF_IN"); p != "" {
		vhReadJSON(t, p, &behs)
	}
	run := func(src string, ntp int, steps []ext6Step) {
		w := newExt6World(t, fac, ntp)
		defer w.close()
		out.Emit(map[string]any{"ev": "Reset", "ntp": ntp, "src": src})
		for _, st := range steps {
			w.step(out, st)
		}
		out.Emit(map[string]any{"ev": "End"})
	}
	for _, sc := range ext6Scripted() {
		run("scripted", sc.ntp, sc.steps)
	}
	for _, b := range behs {
		run("sim", b.NTP, b.Steps)
	}
}

// TestVerifEXT6TLSConcurrent: handshakes race with Refresh and RotateTickets.
// Every handshake is recorded with the number of refreshes completed before it
// started (v0) and started before it ended (v1); the certificate it saw must be
// one of the versions v0..v1.
func TestVerifEXT6TLSConcurrent(t *testing.T) {
	out := vhOpen(t)
	fac := newExt6CertFactory()
	nRefresh := vhEnvInt("VERIF_NREFRESH", 30)
	nWorkers := vhEnvInt("VERIF_NWORKERS", 4)
	rng := mrand.New(mrand.NewSource(vhSeed()))
	w := newExt6World(t, fac, 2)
	defer w.close()
	ctx := context.Background()
	// version k of the pair is certificate "A<k>" (all of kind A)
	ver := func(k int) string { return fmt.Sprintf("A%d", 100+k) }
	w.writePair("p1", ver(0))
	cp, kp := w.pairPaths("p1")
	ext6Must(t, w.mgr.Add(ctx, cp, kp))
	w.writeTicket(1, 1)
	w.writeTicket(2, 2)
	confs := []*tls.Config{w.mgr.Clone(), w.mgr.CloneWithMetrics("p", "s", nil)}
	ext6Must(t, w.mgr.RotateTickets(ctx))
	out.Emit(map[string]any{"ev": "ConcReset", "n": nRefresh})
	var started, completed, nreads atomic.Int64
	var stop atomic.Bool
	var wg sync.WaitGroup
	lns := make([]net.Listener, nWorkers)
	for g := 0; g < nWorkers; g++ {
		ln, err := net.Listen("tcp", "127.0.0.1:0")
		ext6Must(t, err)
		lns[g] = ln
		wg.Add(1)
		go func(g int) {
			defer wg.Done()
			ww := &ext6World{tb: t, fac: fac, ln: lns[g]}
			sess := &ext6Sess{tv: tls.VersionTLS13}
			for n := 0; !stop.Load(); n++ {
				conf := confs[(g+n)%2]
				v0 := completed.Load()
				var r string
				var resumed bool
				if n%3 == 2 {
					r, resumed, _ = ww.handshake(conf, "a.example", tls.VersionTLS13, sess)
				} else {
					r, _, _ = ww.handshake(conf, "a.example", tls.VersionTLS13, nil)
				}
				v1 := started.Load()
				v := -1
				if strings.HasPrefix(r, "A") {
					fmt.Sscanf(r, "A%d", &v)
					v -= 100
				}
				nreads.Add(1)
				if !resumed {
					out.Emit(map[string]any{"ev": "ConcRead", "g": g, "v": v, "v0": v0, "v1": v1, "r": r})
				}
			}
		}(g)
	}
	for k := 1; k <= nRefresh; k++ {
		w.writePair("p1", ver(k))
		w.writeTicket(1, 1+rng.Intn(3))
		started.Add(1)
		ext6Must(t, w.mgr.Refresh(ctx))
		completed.Add(1)
		ext6Must(t, w.mgr.RotateTickets(ctx))
		// pacing only (no verdict depends on it): let a few handshakes pass per version
		n0, t0 := nreads.Load(), time.Now()
		for nreads.Load() < n0+int64(4+rng.Intn(4)) && time.Since(t0) < 20*time.Second {
			time.Sleep(200 * time.Microsecond)
		}
	}
	stop.Store(true)
	wg.Wait()
	for _, ln := range lns {
		ln.Close()
	}
	out.Emit(map[string]any{"ev": "ConcEnd", "n": nRefresh})
}
