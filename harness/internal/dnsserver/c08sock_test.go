//go:build verif

package dnsserver_test

// C08 at socket level.  The real servers of the transport laboratory (vlab)
// run with a handler that returns a response of the size and shape named in
// the question; queries with generated EDNS settings go over plain UDP, TCP,
// DoT, DoH (POST and GET), DoQ and DNSCrypt (UDP and TCP), and the bytes that
// a client actually receives are recorded.  Nothing is asserted here;
// TraceNormalize.tla decides.  Builders and the observation function are the
// exported VerifC08* helpers of c08_test.go (package dnsserver).

import (
	"context"
	"encoding/binary"
	"fmt"
	"io"
	"math/rand"
	"net"
	"net/url"
	"strings"
	"sync"
	"testing"
	"time"

	"github.com/AdguardTeam/AdGuardDNS/internal/dnsserver"
	"github.com/ameshkov/dnscrypt/v2"
	"github.com/ameshkov/dnsstamps"
	"github.com/miekg/dns"
)

type c08Handler struct{}

func (c08Handler) ServeDNS(ctx context.Context, rw dnsserver.ResponseWriter, req *dns.Msg) error {
	if len(req.Question) == 1 {
		if sh, ok := dnsserver.VerifC08ParseShape(req.Question[0].Name); ok {
			return rw.WriteMsg(ctx, req, dnsserver.VerifC08BuildResp(req, sh))
		}
	}
	m := new(dns.Msg).SetRcode(req, dns.RcodeServerFailure)
	return rw.WriteMsg(ctx, req, m)
}

// c08DC performs DNSCrypt exchanges by hand so that the encrypted packet
// length and the exact decrypted bytes are observable.
type c08DC struct {
	l    *vlab
	mu   sync.Mutex
	info map[string]*dnscrypt.ResolverInfo
}

func (d *c08DC) resolver(network string) (ri *dnscrypt.ResolverInfo, err error) {
	d.mu.Lock()
	defer d.mu.Unlock()
	if ri = d.info[network]; ri != nil {
		return ri, nil
	}
	cl := &dnscrypt.Client{Net: network, Timeout: 3 * time.Second}
	stamp := dnsstamps.ServerStamp{ServerAddrStr: d.l.dc.ServerAddr, ServerPk: d.l.dc.ResolverPk,
		ProviderName: d.l.dc.ProviderName, Proto: dnsstamps.StampProtoTypeDNSCrypt}
	for i := 0; i < 3 && ri == nil; i++ {
		ri, err = cl.DialStamp(stamp)
	}
	if err != nil {
		return nil, err
	}
	d.info[network] = ri
	return ri, nil
}

func (d *c08DC) exchange(network string, payload []byte, wait time.Duration) (replies [][]byte, enc int, note string) {
	ri, err := d.resolver(network)
	if err != nil {
		return nil, 0, "err:dial " + err.Error()
	}
	q := dnscrypt.EncryptedQuery{EsVersion: ri.ResolverCert.EsVersion, ClientMagic: ri.ResolverCert.ClientMagic, ClientPk: ri.PublicKey}
	b, err := q.Encrypt(payload, ri.SharedKey)
	if err != nil {
		return nil, 0, "err:encrypt " + err.Error()
	}
	conn, err := net.DialTimeout(network, ri.ServerAddress, 2*time.Second)
	if err != nil {
		return nil, 0, "err:" + err.Error()
	}
	defer conn.Close()
	_ = conn.SetDeadline(time.Now().Add(wait))
	var raw []byte
	if network == "udp" {
		if _, err = conn.Write(b); err != nil {
			return nil, 0, "err:" + err.Error()
		}
		buf := make([]byte, 65536)
		n, rerr := conn.Read(buf)
		if rerr != nil {
			return nil, 0, "timeout"
		}
		raw = buf[:n]
	} else {
		msg := binary.BigEndian.AppendUint16(nil, uint16(len(b)))
		if _, err = conn.Write(append(msg, b...)); err != nil {
			return nil, 0, "err:" + err.Error()
		}
		var n uint16
		if err = binary.Read(conn, binary.BigEndian, &n); err != nil {
			return nil, 0, "timeout"
		}
		raw = make([]byte, n)
		if _, err = io.ReadFull(conn, raw); err != nil {
			return nil, 0, "err:short reply"
		}
	}
	dr := dnscrypt.EncryptedResponse{EsVersion: ri.ResolverCert.EsVersion}
	plain, err := dr.Decrypt(raw, ri.SharedKey)
	if err != nil {
		return nil, len(raw), "err:decrypt " + err.Error()
	}
	return [][]byte{plain}, len(raw), ""
}

var c08Via = []struct{ via, proto string }{
	{"udp", "dns-udp"}, {"udp", "dns-udp"}, {"tcp", "dns-tcp"}, {"dot", "dot"}, {"doh-post", "doh"}, {"doh-get", "doh"}, {"doq", "doq"},
	{"dnscrypt-udp", "dnscrypt-udp"}, {"dnscrypt-tcp", "dnscrypt-tcp"},
	// the JSON API asked for a wire-format answer (/resolve?...&ct=application/dns-message):
	// the server builds the query itself (OPT with size 65535 iff do=1 or sde=1)
	{"doh-json-wire", "doh"},
}

// advertised sizes usable over a loopback datagram socket (one datagram
// carries at most 65507 bytes)
var c08SockSizes = []uint16{0, 100, 511, 512, 513, 1232, 4096, 16384}

func TestVerifC08Sock(t *testing.T) {
	out := vhOpen(t)
	n := vhEnvInt("VERIF_SOCK_N", 320)
	par := vhEnvInt("VERIF_SOCK_PAR", 12)
	rng := rand.New(rand.NewSource(vhSeed()*104729 + 808))
	g := &dnsserver.VerifC08Gen{Rng: rng}

	// one laboratory per configured maximum of the plain-DNS server; the first
	// one also carries DoT/DoH/DoQ/DNSCrypt traffic
	// (also maxima below the classic 512 bytes, zero included: the bound is then 512)
	cfgs := []int{dns.MaxMsgSize, 512, 1232, 4096, 0, 300}
	labs := map[int]*vlab{}
	for i, c := range cfgs {
		labs[c] = vlabStart(t, c08Handler{}, vlabConf{MaxUDPRespSize: uint16(c), ZeroMaxUDP: c == 0, NoDNSCrypt: i != 0})
		labs[c].Wait = 150 * time.Millisecond
	}
	main := labs[dns.MaxMsgSize]
	dc := &c08DC{l: main, info: map[string]*dnscrypt.ResolverInfo{}}

	type job struct {
		i   int
		via string
		c   dnsserver.VerifC08Case
	}
	jobs := make([]job, 0, n)
	for i := 0; i < n; i++ {
		v := c08Via[i%len(c08Via)]
		cfg := dns.MaxMsgSize
		if v.proto == "dns-udp" {
			// (the small maxima more often: there the bound is the classic 512 whatever the client advertises)
			cfg = append(cfgs, 0, 300, 512)[rng.Intn(len(cfgs)+3)]
		}
		c := g.Next(v.proto, c08SockSizes, cfg)
		if v.proto == "doq" {
			// RFC 9250 5.5.2: a DoQ query with edns-tcp-keepalive is a protocol
			// error (validQUICMsg closes the connection), not a valid input
			c.Req.KA = false
		}
		if v.via == "doh-json-wire" {
			c.Req.Pad, c.Req.KA, c.Req.NSID, c.Req.PadLen, c.Req.NSIDLen = false, false, false, 0, 0
			if c.Req.Opt {
				c.Req.Size = dns.MaxMsgSize
			}
		}
		if v.proto == "dns-udp" && c.Req.NSIDLen > 4 {
			// the plain-DNS server reads datagrams into ConfigDNS.UDPSize = 512
			// bytes: a longer query is not a valid input on this transport
			c.Req.NSIDLen = 4
		}
		if (v.proto == "dns-udp" || v.proto == "dnscrypt-udp") && c.Shape.Target > 40000 {
			c.Shape.Target = 20000 + rng.Intn(20000) // far above every datagram limit used here
		}
		jobs = append(jobs, job{i: i, via: v.via, c: c})
	}

	// directed: the boundary of the DNSCrypt library over TCP (65535 - 64): the
	// complete reply (handler response + the 11-byte OPT record) is 65470,
	// 65471 and 65472 bytes long
	for d := -1; d <= 1; d++ {
		for _, kind := range []string{"manyA", "bigtxt"} {
			jobs = append(jobs, job{i: len(jobs), via: "dnscrypt-tcp", c: dnsserver.VerifC08Case{Proto: "dnscrypt-tcp",
				Req: dnsserver.VerifC08Req{Opt: true, Size: 4096}, Cfg: dns.MaxMsgSize,
				Shape: dnsserver.VerifC08Shape{Kind: kind, Bulk: "an", Fill: "an", HOpt: "none", Target: dns.MaxMsgSize - 64 + d - 11}}})
		}
	}

	// directed: a query whose NSID option carries data, over DNSCrypt/UDP (the
	// plain-DNS server does not read datagrams of that size)
	for _, sz := range []uint16{0, 512, 1232} {
		jobs = append(jobs, job{i: len(jobs), via: "dnscrypt-udp", c: dnsserver.VerifC08Case{Proto: "dnscrypt-udp",
			Req: dnsserver.VerifC08Req{Opt: true, Size: sz, NSID: true, NSIDLen: 600}, Cfg: dns.MaxMsgSize,
			Shape: dnsserver.VerifC08Shape{Kind: "manyA", Bulk: "an", Fill: "an", HOpt: "none", Target: 300}}})
	}

	// directed: plain UDP with a configured maximum of 0 or 300 (the bound is the classic 512 then) and a client
	// that advertises more: answers just below, at and above 512 bytes and a large one
	for _, cfg := range []int{0, 300} {
		for _, sz := range []uint16{513, 1232, 4096} {
			for _, target := range []int{500, 512 - 11, 513 - 11, 700, 1200} {
				jobs = append(jobs, job{i: len(jobs), via: "udp", c: dnsserver.VerifC08Case{Proto: "dns-udp",
					Req: dnsserver.VerifC08Req{Opt: true, Size: sz, Do: sz == 1232}, Cfg: cfg,
					Shape: dnsserver.VerifC08Shape{Kind: "manyA", Bulk: "an", Fill: "an", HOpt: "none", Target: target}}})
			}
		}
	}

	res := make([]dnsserver.VerifC08Obs, len(jobs))
	exchange := func(k int) {
		j := jobs[k]
		name := j.c.Shape.Name(j.i)
		req := dnsserver.VerifC08BuildReq(name, uint16(1000+j.i), j.c.Req)
		payload, err := req.Pack()
		if err != nil {
			panic(err)
		}
		orig := dnsserver.VerifC08BuildResp(req, j.c.Shape)
		var replies [][]byte
		var note string
		enc := 0
		switch j.via {
		case "dnscrypt-udp":
			replies, enc, note = dc.exchange("udp", payload, 8*main.Wait)
		case "dnscrypt-tcp":
			replies, enc, note = dc.exchange("tcp", payload, 8*main.Wait)
		case "doh-json-wire":
			q := url.Values{"name": {name}, "type": {fmt.Sprint(req.Question[0].Qtype)}, "ct": {"application/dns-message"}}
			if j.c.Req.Opt && j.c.Req.Do {
				q.Set("do", "1")
			} else if j.c.Req.Opt {
				q.Set("sde", "1")
			}
			status, body, jerr := main.SendJSON(q.Encode())
			switch {
			case jerr != nil:
				note = "err:" + jerr.Error()
			case status != 200:
				note = fmt.Sprintf("http %d", status)
			default:
				replies = [][]byte{body}
			}
		default:
			r := labs[j.c.Cfg].SendRaw(j.via, payload)
			replies, note = r.Replies, r.Note
		}
		o := dnsserver.VerifC08Observe("sock", j.via, j.c.Proto, name, j.c.Req, j.c.Cfg, j.c.Shape, orig, replies)
		o.Enc = enc
		o.Note = strings.TrimSpace(o.Note + " " + note)
		o.Vec = dnsserver.VerifC08Vec(&o, dnsserver.VerifC08Limit(j.c.Proto, j.c.Req, j.c.Cfg))
		res[k] = o
	}
	var wg sync.WaitGroup
	ch := make(chan int)
	for w := 0; w < par; w++ {
		wg.Add(1)
		go func() {
			defer wg.Done()
			for k := range ch {
				exchange(k)
			}
		}()
	}
	for k := range jobs {
		ch <- k
	}
	close(ch)
	wg.Wait()
	// a lost datagram or a slow machine must not look like a missing reply:
	// unanswered queries are repeated one at a time with longer waits
	// (up to 3.2 s in the end: the machine may be shared with many other jobs)
	for attempt := 1; attempt <= 4; attempt++ {
		for _, l := range labs {
			l.Wait = time.Duration(1<<(attempt-1)) * 400 * time.Millisecond
		}
		if attempt >= 3 {
			// (the DNSCrypt client data -- certificate, shared key -- are fetched anew for the last attempts)
			dc.mu.Lock()
			dc.info = map[string]*dnscrypt.ResolverInfo{}
			dc.mu.Unlock()
		}
		for k := range jobs {
			if !res[k].Sent {
				exchange(k)
			}
		}
	}
	// A query that is still unanswered is followed by a CONTROL on the same transport of the same
	// laboratory: a small query with a small answer.  If even that gets no reply the laboratory is at fault
	// (the check then cannot decide); if it does, the silence is the server's answer to the query above.
	for k := range jobs {
		if res[k].Sent {
			continue
		}
		ctl := jobs[k]
		ctl.c.Req = dnsserver.VerifC08Req{}
		ctl.c.Shape = dnsserver.VerifC08Shape{Kind: "single", Bulk: "an", Fill: "an", HOpt: "none", Target: 60}
		saved := res[k]
		jobs = append(jobs, ctl)
		res = append(res, dnsserver.VerifC08Obs{})
		exchange(len(jobs) - 1)
		cres := res[len(res)-1]
		jobs, res = jobs[:len(jobs)-1], res[:len(res)-1]
		res[k] = saved
		if cres.Sent {
			res[k].Note = strings.TrimSpace(res[k].Note + " control=answered")
		} else {
			res[k].Note = strings.TrimSpace(res[k].Note + " control=silent")
		}
	}
	for _, o := range res {
		out.Emit(o)
	}
}
