//go:build verif

package ratelimit

// C09 recorders on the real RequestCounter and Backoff.
//  - TestVerifC09Counter: RequestCounter.Add takes the time as an argument:
//    ALL non-decreasing timestamp sequences up to a length over a small horizon.
//  - TestVerifC09Backoff: TLC-generated and seeded event sequences (two IPv4
//    subnets with two addresses each, one IPv6 subnet, an address just outside
//    it, one allow-listed address; equal timestamps, gaps of I-1, I, I+1;
//    response sizes of 0-2 estimates; ANY) under a virtual clock.
// One event per decision; TLC (TraceRateLimit.tla) decides.

import (
	"github.com/AdguardTeam/AdGuardDNS/internal/dnsserver"
	"context"
	"math/rand"
	"net/netip"
	"os"
	"testing"
	"time"

	"github.com/c2h5oh/datasize"
	"github.com/miekg/dns"
	gocache "github.com/patrickmn/go-cache"
)

type c09LI struct {
	L int `json:"L"`
	I int `json:"I"`
}
type c09Par struct {
	K4   int   `json:"k4"`
	K6   int   `json:"k6"`
	V4   c09LI `json:"v4"`
	V6   c09LI `json:"v6"`
	Prof c09LI `json:"prof"`
	B    int   `json:"B"`
	Dur  int   `json:"Dur"`
	Per  int   `json:"Per"`
}
type c09Event struct {
	Ev      string  `json:"ev"`
	Par     *c09Par `json:"par,omitempty"`
	T       int     `json:"t"`
	Bucket  string  `json:"bucket"`
	Fam     string  `json:"fam"`
	Kind    string  `json:"kind"`
	Extra   int     `json:"extra"`
	Drop    bool    `json:"drop"`
	Written bool    `json:"written"`
	Next    bool    `json:"next"`
	Client  string  `json:"client"`
	Beh     int     `json:"beh"`
}

const c09Tick = time.Millisecond // one model tick

var c09Epoch = time.Unix(1_800_000_000, 0)

func TestVerifC09Counter(t *testing.T) {
	out := vhOpen(t)
	beh := 0
	maxLen := vhEnvInt("VERIF_SEQLEN", 6)
	horizon := 5
	for _, L := range []int{1, 2, 3} {
		for _, I := range []int{1, 2, 3} {
			var rec func(seq []int)
			rec = func(seq []int) {
				if len(seq) > 0 {
					// run the whole sequence on a fresh counter
					c := NewRequestCounter(uint(L), time.Duration(I)*c09Tick)
					out.Emit(c09Event{Ev: "Reset", Beh: beh, Par: &c09Par{K4: 24, K6: 48, V4: c09LI{L, I}, V6: c09LI{L, I}, Prof: c09LI{L, I}, B: 0, Dur: 1, Per: 1}})
					for _, ts := range seq {
						above := c.Add(c09Epoch.Add(time.Duration(ts) * c09Tick))
						out.Emit(c09Event{Ev: "Q", T: ts, Bucket: "counter", Fam: "prof", Kind: "q", Drop: above,
							Written: !above, Next: !above, Beh: beh})
					}
					beh++
				}
				if len(seq) == maxLen {
					return
				}
				start := 0
				if len(seq) > 0 {
					start = seq[len(seq)-1]
				}
				for ts := start; ts <= horizon; ts++ {
					rec(append(append([]int{}, seq...), ts))
				}
			}
			// only maximal sequences are needed (every prefix is covered by them)
			var recMax func(seq []int)
			recMax = func(seq []int) {
				if len(seq) == maxLen {
					c := NewRequestCounter(uint(L), time.Duration(I)*c09Tick)
					out.Emit(c09Event{Ev: "Reset", Beh: beh, Par: &c09Par{K4: 24, K6: 48, V4: c09LI{L, I}, V6: c09LI{L, I}, Prof: c09LI{L, I}, B: 0, Dur: 1, Per: 1}})
					for _, ts := range seq {
						above := c.Add(c09Epoch.Add(time.Duration(ts) * c09Tick))
						out.Emit(c09Event{Ev: "Q", T: ts, Bucket: "counter", Fam: "prof", Kind: "q", Drop: above,
							Written: !above, Next: !above, Beh: beh})
					}
					beh++
					return
				}
				start := 0
				if len(seq) > 0 {
					start = seq[len(seq)-1]
				}
				for ts := start; ts <= horizon; ts++ {
					recMax(append(append([]int{}, seq...), ts))
				}
			}
			_ = rec
			recMax(nil)
		}
	}
}

type c09Step struct {
	A     string `json:"a"`
	D     int    `json:"d"`
	S     string `json:"s"`
	Kind  string `json:"kind"`
	Extra int    `json:"extra"`
}

type c09Clock struct{ ticks int }

func (c *c09Clock) Now() time.Time { return c09Epoch.Add(time.Duration(c.ticks) * c09Tick) }

// clients of the abstract buckets s1..s3 (+ extras for the random driver)
var c09Clients = map[string][]netip.Addr{
	"s1": {netip.MustParseAddr("192.0.2.1"), netip.MustParseAddr("192.0.2.254"), netip.MustParseAddr("192.0.2.17")},
	"s2": {netip.MustParseAddr("192.0.3.7"), netip.MustParseAddr("192.0.3.0")},
	"s3": {netip.MustParseAddr("2001:db8:1:2::1"), netip.MustParseAddr("2001:db8:1:ffff:ffff::9"), netip.MustParseAddr("2001:db8:1:2ff::3")},
	"s4": {netip.MustParseAddr("2001:db8:2::1")},
}
// the allow-listed address (a /32 entry) lies INSIDE bucket s1: its neighbours may drive the bucket into back-off
var c09Allowed = netip.MustParseAddr("192.0.2.77")

func c09Msg(qtype uint16, size int) *dns.Msg {
	m := new(dns.Msg)
	m.SetQuestion("example.org.", qtype)
	if size > 0 {
		m.Response = true
		for m.Len() < size {
			m.Answer = append(m.Answer, &dns.TXT{Hdr: dns.RR_Header{Name: "example.org.", Rrtype: dns.TypeTXT, Class: dns.ClassINET, Ttl: 1},
				Txt: []string{"0123456789012345678901234567890123456789"}})
		}
	}
	return m
}

func c09RunBackoff(t *testing.T, out *vhOut, beh int, par c09Par, steps []c09Step, rng *rand.Rand) {
	clk := &c09Clock{}
	VerifNow = clk.Now
	gocache.VerifNow = clk.Now
	const est = 200
	bo := NewBackoff(&BackoffConfig{
		Allowlist:            NewDynamicAllowlist([]netip.Prefix{netip.PrefixFrom(c09Allowed, 32)}, nil),
		Period:               time.Duration(par.Per) * c09Tick,
		Duration:             time.Duration(par.Dur) * c09Tick,
		Count:                uint(par.B),
		ResponseSizeEstimate: est * datasize.B,
		IPv4Count:            uint(par.V4.L), IPv4Interval: time.Duration(par.V4.I) * c09Tick, IPv4SubnetKeyLen: par.K4,
		IPv6Count: uint(par.V6.L), IPv6Interval: time.Duration(par.V6.I) * c09Tick, IPv6SubnetKeyLen: par.K6,
		RefuseANY: true,
	})
	out.Emit(c09Event{Ev: "Reset", Beh: beh, Par: &par})
	ctx := context.Background()
	for _, s := range steps {
		if s.A == "Tick" {
			clk.ticks += s.D
			continue
		}
		var ip netip.Addr
		kind := s.Kind
		if kind == "allow" {
			ip = c09Allowed
		} else {
			cs := c09Clients[s.S]
			ip = cs[rng.Intn(len(cs))]
		}
		qt := dns.TypeA
		if kind == "any" {
			qt = dns.TypeANY
		}
		// the server stamps every request with its time of ARRIVAL; an event counts at the time it is counted
		// (the response of a slow handler long after the request arrived)
		ctx = dnsserver.ContextWithRequestInfo(context.Background(), &dnsserver.RequestInfo{
			StartTime: VerifNow().Add(-time.Duration(rng.Intn(4)) * c09Tick)})
		drop, allowlisted, err := bo.IsRateLimited(ctx, c09Msg(qt, 0), ip)
		if err != nil {
			t.Fatal(err)
		}
		extra := 0
		if !drop && !allowlisted {
			// response of s.Extra estimates (plus a bit): floor(len/est) more events
			if s.Extra > 0 {
				resp := c09Msg(dns.TypeA, s.Extra*est+10)
				extra = resp.Len() / est
				bo.CountResponses(ctx, resp, ip)
			}
		}
		fam, keyLen := "v4", par.K4
		if ip.Is6() {
			fam, keyLen = "v6", par.K6
		}
		pfx, _ := ip.Prefix(keyLen)
		out.Emit(c09Event{Ev: "Q", T: clk.ticks, Bucket: pfx.String(), Fam: fam, Kind: kind, Extra: extra, Drop: drop,
			Written: !drop, Next: !drop, Client: ip.String(), Beh: beh})
	}
}

func c09Random(rng *rand.Rand, par c09Par) (steps []c09Step) {
	n := 20 + rng.Intn(60)
	subs := []string{"s1", "s1", "s1", "s2", "s3", "s3", "s4"}
	ivls := []int{par.V4.I, par.V6.I, par.Dur, par.Per}
	for len(steps) < n {
		switch r := rng.Intn(100); {
		case r < 30:
			base := ivls[rng.Intn(len(ivls))]
			d := []int{0, 1, 1, 2, base - 1, base, base + 1, 2*base + 1}[rng.Intn(8)]
			if d > 0 {
				steps = append(steps, c09Step{A: "Tick", D: d})
			}
		case r < 35:
			steps = append(steps, c09Step{A: "Query", S: subs[rng.Intn(len(subs))], Kind: "any"})
		case r < 42:
			steps = append(steps, c09Step{A: "Query", Kind: "allow"})
		default:
			steps = append(steps, c09Step{A: "Query", S: subs[rng.Intn(len(subs))], Kind: "q", Extra: []int{0, 0, 0, 1, 2}[rng.Intn(5)]})
		}
	}
	return steps
}

func TestVerifC09Backoff(t *testing.T) {
	out := vhOpen(t)
	rng := rand.New(rand.NewSource(vhSeed()))
	beh := 0
	if p := os.Getenv("VERIF_IN"); p != "" {
		var behs [][]c09Step
		vhReadJSON(t, p, &behs)
		// parameters of RateLimit_sim.cfg
		par := c09Par{K4: 24, K6: 48, V4: c09LI{3, 4}, V6: c09LI{3, 4}, Prof: c09LI{1, 1}, B: 2, Dur: 12, Per: 6}
		for _, b := range behs {
			c09RunBackoff(t, out, beh, par, b, rng)
			beh++
		}
	}
	n := vhEnvInt("VERIF_NRANDOM", 100)
	for i := 0; i < n; i++ {
		// key lengths that are and are not multiples of eight: the clients below fall into
		// the same or into different buckets depending on them
		par := c09Par{K4: []int{24, 24, 20, 28, 32, 23}[rng.Intn(6)], K6: []int{48, 48, 52, 56, 64, 44}[rng.Intn(6)],
			V4: c09LI{1 + rng.Intn(4), 2 + rng.Intn(8)}, V6: c09LI{1 + rng.Intn(3), 2 + rng.Intn(8)}, Prof: c09LI{1, 1},
			B: 1 + rng.Intn(4), Dur: 3 + rng.Intn(30), Per: 2 + rng.Intn(30)}
		c09RunBackoff(t, out, beh, par, c09Random(rng, par), rng)
		beh++
	}
}
