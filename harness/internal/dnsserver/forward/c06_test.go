//go:build verif

package forward

// C06 on the upstream reply paths (UpstreamPlain over UDP and TCP).  A fake
// upstream on 127.0.0.1 sends RAW replies.  The WARM UpstreamPlain first
// performs many exchanges whose large sentinel replies (answer records, LEAK
// filler) stay in its pooled read buffers; the FRESH one is newly created.
// Then both receive the same crafted reply to the same query: a reply that
// declares an answer it does not carry, a reply cut inside the question, ...
// and controls.  Recorded: decoded reply or error class on both.  TLC decides.

import (
	"context"
	"encoding/binary"
	"encoding/hex"
	"fmt"
	"io"
	"net"
	"net/netip"
	"runtime"
	"strings"
	"sync"
	"testing"
	"time"

	"github.com/miekg/dns"
)

type c06USide struct {
	Err     string `json:"err"`
	Decoded string `json:"decoded"`
}
type c06UEvent struct {
	Ev      string   `json:"ev"`
	Path    string   `json:"path"`
	Variant string   `json:"variant"`
	Round   int      `json:"round"`
	NextHex string   `json:"nexthex"`
	Warm    c06USide `json:"warm"`
	Fresh   c06USide `json:"fresh"`
	Leak    bool     `json:"leak"`
	Same    bool     `json:"same"`
}

const (
	c06USent = "xxxxxxxx.sentinel-leak.example."
	c06UNext = "yyyyyyyy.benign-name00.example."
)

// c06UReply builds the raw reply the fake upstream sends for a request.
func c06UReply(req *dns.Msg, variant string) []byte {
	name := req.Question[0].Name
	if strings.EqualFold(name, c06USent) {
		m := new(dns.Msg).SetReply(req)
		m.Compress = true
		m.Answer = append(m.Answer, &dns.A{Hdr: dns.RR_Header{Name: name, Rrtype: dns.TypeA, Class: dns.ClassINET, Ttl: 600}, A: net.IPv4(6, 6, 6, 6)})
		for i := 0; i < 3; i++ {
			m.Answer = append(m.Answer, &dns.TXT{Hdr: dns.RR_Header{Name: name, Rrtype: dns.TypeTXT, Class: dns.ClassINET, Ttl: 600},
				Txt: []string{strings.Repeat("LEAK", 20)}})
		}
		b, _ := m.Pack()
		return b
	}
	hdr := func(qd, an, ns, ar uint16) []byte {
		return []byte{byte(req.Id >> 8), byte(req.Id), 0x81, 0x80, byte(qd >> 8), byte(qd), byte(an >> 8), byte(an), byte(ns >> 8), byte(ns),
			byte(ar >> 8), byte(ar)}
	}
	var q []byte
	for _, l := range dns.SplitDomainName(name) {
		q = append(q, byte(len(l)))
		q = append(q, l...)
	}
	q = append(q, 0, 0, 1, 0, 1)
	switch variant {
	case "control-nodata":
		return append(hdr(1, 0, 0, 0), q...)
	case "control-answer":
		m := new(dns.Msg).SetReply(req)
		m.Answer = append(m.Answer, &dns.A{Hdr: dns.RR_Header{Name: name, Rrtype: dns.TypeA, Class: dns.ClassINET, Ttl: 60}, A: net.IPv4(192, 0, 2, 1)})
		b, _ := m.Pack()
		return b
	case "declares-answer":
		return append(hdr(1, 1, 0, 0), q...)
	case "declares-4-answers":
		return append(hdr(1, 4, 0, 0), q...)
	case "declares-extra":
		return append(hdr(1, 0, 0, 1), q...)
	case "cut-in-question":
		return append(hdr(1, 0, 0, 0), q[:12]...)
	case "cut-before-qtype":
		return append(hdr(1, 1, 0, 0), q[:len(q)-4]...)
	case "hdr-only":
		return hdr(1, 1, 0, 0)
	}
	return append(hdr(1, 0, 0, 0), q...)
}

var c06UVariants = []string{"control-nodata", "control-answer", "declares-answer", "declares-4-answers", "declares-extra",
	"cut-in-question", "cut-before-qtype", "hdr-only"}

type c06UServer struct {
	mu      sync.Mutex
	variant string
	udp     *net.UDPConn
	tcp     net.Listener
}

func c06UStart(t *testing.T) *c06UServer {
	s := &c06UServer{}
	var err error
	// a UDP and a TCP socket on the same port: retry when the TCP port is taken
	for i := 0; i < 20; i++ {
		s.udp, err = net.ListenUDP("udp", &net.UDPAddr{IP: net.IPv4(127, 0, 0, 1)})
		if err != nil {
			t.Fatal(err)
		}
		s.tcp, err = net.Listen("tcp", fmt.Sprintf("127.0.0.1:%d", s.udp.LocalAddr().(*net.UDPAddr).Port))
		if err == nil {
			break
		}
		s.udp.Close()
	}
	if err != nil {
		t.Fatal(err)
	}
	reply := func(b []byte) []byte {
		req := new(dns.Msg)
		if req.Unpack(b) != nil || len(req.Question) != 1 {
			return nil
		}
		s.mu.Lock()
		v := s.variant
		s.mu.Unlock()
		return c06UReply(req, v)
	}
	go func() {
		buf := make([]byte, 65536)
		for {
			n, addr, rerr := s.udp.ReadFromUDP(buf)
			if rerr != nil {
				return
			}
			if r := reply(buf[:n]); r != nil {
				_, _ = s.udp.WriteToUDP(r, addr)
			}
		}
	}()
	go func() {
		for {
			c, aerr := s.tcp.Accept()
			if aerr != nil {
				return
			}
			go func() {
				defer c.Close()
				for {
					var l uint16
					if binary.Read(c, binary.BigEndian, &l) != nil {
						return
					}
					b := make([]byte, l)
					if _, rerr := io.ReadFull(c, b); rerr != nil {
						return
					}
					if r := reply(b); r != nil {
						_, _ = c.Write(append(binary.BigEndian.AppendUint16(nil, uint16(len(r))), r...))
					}
				}
			}()
		}
	}()
	t.Cleanup(func() { s.udp.Close(); s.tcp.Close() })
	return s
}

func c06UDecode(resp *dns.Msg, err error) (d c06USide) {
	if err != nil {
		d.Err = "error"
	}
	if resp != nil {
		var parts []string
		parts = append(parts, fmt.Sprintf("rcode=%d;qd=%d;an=%d;ns=%d;ar=%d", resp.Rcode, len(resp.Question), len(resp.Answer), len(resp.Ns), len(resp.Extra)))
		for _, rrs := range [][]dns.RR{resp.Answer, resp.Ns, resp.Extra} {
			for _, rr := range rrs {
				parts = append(parts, strings.Join(strings.Fields(rr.String()), " "))
			}
		}
		d.Decoded = strings.Join(parts, "|")
	}
	// a reply that is rejected must not be handed on; what counts is what the caller gets
	if err != nil {
		d.Decoded = ""
	}
	return d
}

func TestVerifC06Upstream(t *testing.T) {
	out := vhOpen(t)
	old := runtime.GOMAXPROCS(2)
	defer runtime.GOMAXPROCS(old)
	srv := c06UStart(t)
	addr := netip.MustParseAddrPort(srv.udp.LocalAddr().String())
	rounds := vhEnvInt("VERIF_ROUNDS", 3)
	flood := vhEnvInt("VERIF_FLOOD", 32)
	for _, nw := range []Network{NetworkUDP, NetworkTCP} {
		warm := NewUpstreamPlain(&UpstreamPlainConfig{Network: nw, Address: addr, Timeout: 2 * time.Second})
		for round := 0; round < rounds; round++ {
			for _, v := range c06UVariants {
				// dirty every pooled buffer of the warm upstream
				var wg sync.WaitGroup
				for g := 0; g < 8; g++ {
					wg.Add(1)
					go func() {
						defer wg.Done()
						for i := 0; i < flood/8; i++ {
							ctx, cancel := context.WithTimeout(context.Background(), 2*time.Second)
							_, _, _ = warm.Exchange(ctx, new(dns.Msg).SetQuestion(c06USent, dns.TypeA))
							cancel()
						}
					}()
				}
				wg.Wait()
				srv.mu.Lock()
				srv.variant = v
				srv.mu.Unlock()
				req := new(dns.Msg).SetQuestion(c06UNext, dns.TypeA)
				req.Id = 0x5151
				ctx, cancel := context.WithTimeout(context.Background(), 2*time.Second)
				rw, _, ew := warm.Exchange(ctx, req.Copy())
				cancel()
				fresh := NewUpstreamPlain(&UpstreamPlainConfig{Network: nw, Address: addr, Timeout: 2 * time.Second})
				ctx, cancel = context.WithTimeout(context.Background(), 2*time.Second)
				rf, _, ef := fresh.Exchange(ctx, req.Copy())
				cancel()
				_ = fresh.Close()
				ev := c06UEvent{Ev: "Pair", Path: "upstream-" + string(nw), Variant: v, Round: round,
					NextHex: hex.EncodeToString(c06UReply(req, v)), Warm: c06UDecode(rw, ew), Fresh: c06UDecode(rf, ef)}
				low := strings.ToLower(ev.Warm.Decoded)
				ev.Leak = strings.Contains(low, "leakleak") || strings.Contains(low, "6.6.6.6") || strings.Contains(low, "sentinel-leak")
				ev.Same = ev.Warm == ev.Fresh
				out.Emit(ev)
			}
		}
		_ = warm.Close()
	}
}
