//go:build verif

package forward

// C17 recorder.  The real Handler is built with NewHandler and its upstreams are
// then replaced (in-package) by scripted ones whose behaviour follows a health
// table the harness changes freely: up / servfail / down (a net.Error) /
// garbage (the error the plain upstream returns for a reply that does not match
// the query).  Health-check probes and queries are told apart by the probe
// domain.  Queries can be run from inside a probe's Exchange, i.e. between two
// probes of one refresh, where the old active set must still be in use.  The
// clock of healthcheck.go is virtual.  TLC (TraceForward.tla) decides.

import (
	"context"
	"errors"
	"fmt"
	"io"
	"log/slog"
	"math/rand"
	"net"
	"net/netip"
	"os"
	"sort"
	"strings"
	"testing"
	"time"

	"github.com/miekg/dns"
)

type c17Event struct {
	Ev      string   `json:"ev"`
	Main    []string `json:"main"`
	Fall    []string `json:"fall"`
	Backoff int      `json:"backoff"`
	U       string   `json:"u"`
	H       string   `json:"h"`
	D       int      `json:"d"`
	OK      bool     `json:"ok"`
	Active  []string `json:"active"`
	Tried   []string `json:"tried"`
	By      string   `json:"by"`
	Rcode   int      `json:"rcode"`
	Beh     int      `json:"beh"`
	Init    string   `json:"init"`
}

type c17Step struct {
	A string `json:"a"`
	U string `json:"u"`
	H string `json:"h"`
}

type c17World struct {
	t      *testing.T
	out    *vhOut
	beh    int
	h      *Handler
	health map[string]string
	ticks  int
	probes int
	tried  []string
	// queries to run from inside the next probe exchange
	inProbe int
	rng     *rand.Rand
}

type c17Ups struct {
	id string
	w  *c17World
}

// c17NetErr is the network error of an upstream that is down: silent (a time-out) or refusing.
type c17NetErr struct{ timeout bool }

func (e c17NetErr) Error() string {
	if e.timeout {
		return "scripted i/o timeout"
	}
	return "scripted connection refused"
}
func (e c17NetErr) Timeout() bool   { return e.timeout }
func (e c17NetErr) Temporary() bool { return e.timeout }

func (u *c17Ups) Close() error   { return nil }
func (u *c17Ups) String() string { return u.id }
func (u *c17Ups) Exchange(ctx context.Context, req *dns.Msg) (resp *dns.Msg, nw Network, err error) {
	probe := strings.HasSuffix(strings.ToLower(req.Question[0].Name), ".probe.example.")
	h := u.w.health[u.id]
	if probe {
		// queries that arrive between two probes of this refresh
		for u.w.inProbe > 0 {
			u.w.inProbe--
			u.w.query()
		}
		u.w.probes++
		if h == "down" && u.w.probes%2 == 0 {
			// a silent upstream: the probe BLOCKS until its time-out; the clock reading that counts for the
			// back-off is the one taken when the probe has failed, not one taken before it was sent
			u.w.ticks++
			u.w.out.Emit(c17Event{Ev: "ProbeBlocking", U: u.id, OK: false, D: 1, Beh: u.w.beh, Main: []string{}, Fall: []string{}, Active: []string{}, Tried: []string{}})
		} else {
			u.w.out.Emit(c17Event{Ev: "Probe", U: u.id, OK: h == "up", Beh: u.w.beh, Main: []string{}, Fall: []string{}, Active: []string{}, Tried: []string{}})
		}
	} else {
		u.w.tried = append(u.w.tried, u.id)
	}
	switch h {
	case "up":
		resp = new(dns.Msg).SetReply(req)
		resp.Answer = append(resp.Answer, &dns.TXT{Hdr: dns.RR_Header{Name: req.Question[0].Name, Rrtype: dns.TypeTXT, Class: dns.ClassINET, Ttl: 5},
			Txt: []string{u.id}})
		return resp, NetworkUDP, nil
	case "servfail":
		resp = new(dns.Msg).SetRcode(req, dns.RcodeServerFailure)
		resp.Extra = append(resp.Extra, &dns.TXT{Hdr: dns.RR_Header{Name: req.Question[0].Name, Rrtype: dns.TypeTXT, Class: dns.ClassINET, Ttl: 5},
			Txt: []string{u.id}})
		return resp, NetworkUDP, nil
	case "down":
		return nil, NetworkUDP, fmt.Errorf("udp network reading: %w", &net.OpError{Op: "read", Net: "udp", Err: c17NetErr{timeout: u.w.probes%3 != 0}})
	default: // garbage
		return nil, NetworkTCP, fmt.Errorf("validating tcp response: %w", dns.ErrId)
	}
}

type c17RW struct{ msg *dns.Msg }

func (w *c17RW) LocalAddr() net.Addr  { return &net.UDPAddr{IP: net.IPv4(127, 0, 0, 1), Port: 53} }
func (w *c17RW) RemoteAddr() net.Addr { return &net.UDPAddr{IP: net.IPv4(127, 0, 0, 1), Port: 5353} }
func (w *c17RW) WriteMsg(_ context.Context, _, resp *dns.Msg) error {
	w.msg = resp
	return nil
}

func (w *c17World) query() {
	w.tried = nil
	req := new(dns.Msg).SetQuestion(fmt.Sprintf("q%d.example.", w.rng.Intn(1000)), dns.TypeTXT)
	rw := &c17RW{}
	err := w.h.ServeDNS(context.Background(), rw, req)
	ev := c17Event{Ev: "Query", Tried: append([]string{}, w.tried...), By: "error", Rcode: -1, Beh: w.beh, Main: []string{}, Fall: []string{}, Active: []string{}}
	if err == nil && rw.msg != nil {
		ev.Rcode = rw.msg.Rcode
		for _, rrs := range [][]dns.RR{rw.msg.Answer, rw.msg.Extra} {
			for _, rr := range rrs {
				if x, ok := rr.(*dns.TXT); ok && len(x.Txt) > 0 {
					ev.By = x.Txt[0]
				}
			}
		}
		if rw.msg.Id != req.Id || !strings.EqualFold(rw.msg.Question[0].Name, req.Question[0].Name) {
			ev.By = "foreign"
		}
	} else if err == nil {
		ev.By = "nothing"
	}
	w.out.Emit(ev)
}

func (w *c17World) refresh() {
	empty := []string{}
	w.out.Emit(c17Event{Ev: "RefreshStart", Beh: w.beh, Main: empty, Fall: empty, Active: empty, Tried: empty})
	_ = w.h.Refresh(context.Background())
	w.inProbe = 0
	var act []string
	w.h.activeUpstreamsMu.RLock()
	for _, u := range w.h.activeUpstreams {
		act = append(act, u.String())
	}
	w.h.activeUpstreamsMu.RUnlock()
	sort.Strings(act)
	if act == nil {
		act = empty
	}
	w.out.Emit(c17Event{Ev: "RefreshEnd", Active: act, Beh: w.beh, Main: empty, Fall: empty, Tried: empty})
}

func c17Run(t *testing.T, out *vhOut, beh int, rng *rand.Rand, mains, falls []string, backoff int, steps []c17Step, nrand int, initProbe bool) {
	w := &c17World{t: t, out: out, beh: beh, health: map[string]string{}, rng: rng}
	VerifNow = func() time.Time { return time.Unix(1_900_000_000, 0).Add(time.Duration(w.ticks) * time.Second) }
	mk := func(n int) (cs []*UpstreamPlainConfig) {
		for i := 0; i < n; i++ {
			cs = append(cs, &UpstreamPlainConfig{Network: NetworkAny, Address: netip.MustParseAddrPort(fmt.Sprintf("127.0.0.1:%d", 1+i)),
				Timeout: time.Second})
		}
		return cs
	}
	w.h = NewHandler(&HandlerConfig{
		Logger: slog.New(slog.NewTextHandler(io.Discard, nil)), HealthcheckDomainTmpl: "${RANDOM}.probe.example",
		UpstreamsAddresses: mk(len(mains)), FallbackAddresses: mk(len(falls)),
		HealthcheckBackoffDuration: time.Duration(backoff) * time.Second,
		// with initProbe the constructor runs the start-up health check: nothing
		// listens on the configured addresses, so every main upstream fails it
		HealthcheckInitDuration: map[bool]time.Duration{true: 2 * time.Second, false: 0}[initProbe],
	})
	wasActive := map[Upstream]bool{}
	for _, u := range w.h.activeUpstreams {
		wasActive[u] = true
	}
	w.h.activeUpstreams = w.h.activeUpstreams[:0]
	for i, id := range mains {
		u := &c17Ups{id: id, w: w}
		real := w.h.upstreams[i].upstream
		_ = real.Close()
		w.h.upstreams[i].upstream = u
		if wasActive[real] {
			w.h.activeUpstreams = append(w.h.activeUpstreams, u)
		}
		w.health[id] = "up"
	}
	for i, id := range falls {
		_ = w.h.fallbacks[i].Close()
		w.h.fallbacks[i] = &c17Ups{id: id, w: w}
		w.health[id] = "up"
	}
	if falls == nil {
		falls = []string{}
	}
	empty := []string{}
	initS := "none"
	if initProbe {
		initS = "alldown"
	}
	var act0 []string
	for _, u := range w.h.activeUpstreams {
		act0 = append(act0, u.String())
	}
	sort.Strings(act0)
	if act0 == nil {
		act0 = empty
	}
	out.Emit(c17Event{Ev: "Reset", Main: mains, Fall: falls, Backoff: backoff, Beh: beh, Active: act0, Tried: empty, Init: initS})
	all := append(append([]string{}, mains...), falls...)
	hs := []string{"up", "up", "down", "down", "servfail", "garbage"}
	do := func(s c17Step) {
		switch s.A {
		case "SetHealth":
			if w.health[s.U] == s.H {
				return
			}
			w.health[s.U] = s.H
			out.Emit(c17Event{Ev: "SetHealth", U: s.U, H: s.H, Beh: beh, Main: empty, Fall: empty, Active: empty, Tried: empty})
		case "Tick":
			w.ticks++
			out.Emit(c17Event{Ev: "Tick", D: 1, Beh: beh, Main: empty, Fall: empty, Active: empty, Tried: empty})
		case "RefreshStart":
			w.inProbe = rng.Intn(3)
			w.refresh()
		case "Query":
			w.query()
		}
	}
	for _, s := range steps {
		do(s)
	}
	for i := 0; i < nrand; i++ {
		switch r := rng.Intn(100); {
		case r < 25:
			do(c17Step{A: "SetHealth", U: all[rng.Intn(len(all))], H: hs[rng.Intn(len(hs))]})
		case r < 45:
			for k := 1 + rng.Intn(backoff+1); k > 0; k-- {
				do(c17Step{A: "Tick"})
			}
		case r < 65:
			do(c17Step{A: "RefreshStart"})
		default:
			do(c17Step{A: "Query"})
		}
	}
}

func TestVerifC17(t *testing.T) {
	out := vhOpen(t)
	rng := rand.New(rand.NewSource(vhSeed()))
	beh := 0
	if p := os.Getenv("VERIF_IN"); p != "" {
		var behs [][]c17Step
		vhReadJSON(t, p, &behs)
		for _, b := range behs {
			// Forward_sim.cfg: two mains, two fallbacks, back-off 3
			c17Run(t, out, beh, rng, []string{"m1", "m2"}, []string{"f1", "f2"}, 3, b, 0, false)
			beh++
		}
	}
	n := vhEnvInt("VERIF_NRANDOM", 100)
	for i := 0; i < n; i++ {
		mains := []string{"m1", "m2", "m3"}[:1+rng.Intn(3)]
		falls := []string{"f1", "f2"}[:rng.Intn(3)]
		c17Run(t, out, beh, rng, mains, falls, 1+rng.Intn(4), nil, 30+rng.Intn(60), i%5 == 0)
		beh++
	}
	_ = errors.New
}
