//go:build verif

package forward

// C17, reply validation: the real UpstreamPlain (network any / udp / tcp)
// against a fake upstream whose UDP and TCP sides each answer with a scripted
// reply class: valid, valid but truncated, same name in another case, wrong ID,
// wrong name, wrong type, no question, two questions, or nothing at all (UDP:
// silence; TCP: nothing listens).  Recorded: what Exchange returned.  TLC
// (TraceForward.tla, event Exchange) decides.

import (
	"context"
	"encoding/binary"
	"fmt"
	"io"
	"net"
	"net/netip"
	"strings"
	"sync"
	"testing"
	"time"

	"github.com/miekg/dns"
)

// (badidtc / badnametc: a reply that is BOTH truncated and not an answer to this query)
var c17bClasses = []string{"valid", "validtc", "casename", "badid", "badname", "badtype", "qd0", "qd2", "none", "badidtc", "badnametc"}

func c17bReply(req *dns.Msg, class string) *dns.Msg {
	if class == "none" {
		return nil
	}
	r := new(dns.Msg).SetReply(req)
	r.Answer = append(r.Answer, &dns.A{Hdr: dns.RR_Header{Name: req.Question[0].Name, Rrtype: dns.TypeA, Class: dns.ClassINET, Ttl: 5}, A: net.IPv4(192, 0, 2, 1)})
	switch class {
	case "validtc":
		r.Truncated = true
		r.Answer = nil
	case "casename":
		r.Question[0].Name = strings.ToUpper(r.Question[0].Name)
	case "badid":
		r.Id = req.Id + 1
	case "badidtc":
		r.Id, r.Truncated = req.Id+1, true
	case "badnametc":
		r.Question[0].Name, r.Truncated = "other."+r.Question[0].Name, true
	case "badname":
		r.Question[0].Name = "other." + r.Question[0].Name
	case "badtype":
		r.Question[0].Qtype = dns.TypeAAAA
	case "qd0":
		r.Question = nil
	case "qd2":
		r.Question = append(r.Question, dns.Question{Name: "second.example.", Qtype: dns.TypeA, Qclass: dns.ClassINET})
	}
	return r
}

type c17bSrv struct {
	mu       sync.Mutex
	udpClass string
	tcpClass string
	// oneShot: a stream connection is closed by the upstream after every reply
	// (an idle timeout of zero), so that a pooled connection is always dead
	oneShot bool
	nlate   int
	udp     *net.UDPConn
	tcp      net.Listener
}

func c17bStart(t *testing.T, withTCP bool) *c17bSrv {
	s := &c17bSrv{}
	var err error
	for i := 0; i < 30; i++ {
		s.udp, err = net.ListenUDP("udp", &net.UDPAddr{IP: net.IPv4(127, 0, 0, 1)})
		if err != nil {
			t.Fatal(err)
		}
		port := s.udp.LocalAddr().(*net.UDPAddr).Port
		s.tcp, err = net.Listen("tcp", fmt.Sprintf("127.0.0.1:%d", port))
		if err == nil {
			if !withTCP {
				s.tcp.Close() // the port is known to be free: nothing listens on it now
				s.tcp = nil
			}
			break
		}
		s.udp.Close()
	}
	if err != nil {
		t.Fatal(err)
	}
	pack := func(b []byte, class string) []byte {
		req := new(dns.Msg)
		if req.Unpack(b) != nil || len(req.Question) != 1 {
			return nil
		}
		r := c17bReply(req, class)
		if r == nil {
			return nil
		}
		out, _ := r.Pack()
		return out
	}
	go func() {
		buf := make([]byte, 65536)
		for {
			n, addr, rerr := s.udp.ReadFromUDP(buf)
			if rerr != nil {
				return
			}
			s.mu.Lock()
			c := s.udpClass
			first := s.nlate == 0
			if c == "latefirst" {
				s.nlate++
			}
			s.mu.Unlock()
			if c == "latefirst" {
				// answers made for the subnet of the request's ECS option; the first one of the series is sent
				// only after the client has given up
				if r := c17bForReply(buf[:n]); r != nil {
					if first {
						go func(r []byte, addr *net.UDPAddr) {
							time.Sleep(450 * time.Millisecond)
							_, _ = s.udp.WriteToUDP(r, addr)
						}(r, addr)
					} else {
						_, _ = s.udp.WriteToUDP(r, addr)
					}
				}
				continue
			}
			if r := pack(buf[:n], c); r != nil {
				_, _ = s.udp.WriteToUDP(r, addr)
			}
		}
	}()
	if s.tcp != nil {
		go func() {
			for {
				c, aerr := s.tcp.Accept()
				if aerr != nil {
					return
				}
				go func() {
					defer c.Close()
					for {
						var l uint16
						if binary.Read(c, binary.BigEndian, &l) != nil {
							return
						}
						b := make([]byte, l)
						if _, rerr := io.ReadFull(c, b); rerr != nil {
							return
						}
						s.mu.Lock()
						cl := s.tcpClass
						s.mu.Unlock()
						r := pack(b, cl)
						if r == nil {
							return // "none" over TCP: the connection is closed without an answer
						}
						_, _ = c.Write(append(binary.BigEndian.AppendUint16(nil, uint16(len(r))), r...))
						s.mu.Lock()
						one := s.oneShot
						s.mu.Unlock()
						if one {
							return
						}
					}
				}()
			}
		}()
	}
	t.Cleanup(func() {
		s.udp.Close()
		if s.tcp != nil {
			s.tcp.Close()
		}
	})
	return s
}

// c17bForReply answers a TXT query with "for:<address of its ECS option>".
func c17bForReply(b []byte) []byte {
	req := new(dns.Msg)
	if req.Unpack(b) != nil || len(req.Question) != 1 {
		return nil
	}
	r := new(dns.Msg).SetReply(req)
	r.Answer = append(r.Answer, &dns.TXT{Hdr: dns.RR_Header{Name: req.Question[0].Name, Rrtype: dns.TypeTXT, Class: dns.ClassINET, Ttl: 60},
		Txt: []string{"for:" + c17bECS(req)}})
	out, _ := r.Pack()
	return out
}

func c17bECS(m *dns.Msg) string {
	if o := m.IsEdns0(); o != nil {
		for _, e := range o.Option {
			if s, ok := e.(*dns.EDNS0_SUBNET); ok {
				return s.Address.String()
			}
		}
	}
	return "none"
}

// c17bClassOf classifies the message Exchange handed back against the query.
func c17bClassOf(req, r *dns.Msg) string {
	switch {
	case r == nil:
		return "none"
	case r.Id != req.Id:
		return "badid"
	case len(r.Question) == 0:
		return "qd0"
	case len(r.Question) > 1:
		return "qd2"
	case r.Question[0].Qtype != req.Question[0].Qtype:
		return "badtype"
	case r.Question[0].Name == req.Question[0].Name && r.Truncated:
		return "validtc"
	case r.Question[0].Name == req.Question[0].Name:
		return "valid"
	case strings.EqualFold(r.Question[0].Name, req.Question[0].Name):
		return "casename"
	}
	return "badname"
}

func TestVerifC17Exchange(t *testing.T) {
	out := vhOpen(t)
	both := c17bStart(t, true)
	udpOnly := c17bStart(t, false)
	id := uint16(100)
	for _, nw := range []Network{NetworkAny, NetworkUDP, NetworkTCP} {
		for _, uc := range c17bClasses {
			for _, tc := range append(append([]string{}, c17bClasses...), "refused") {
				srv := both
				if tc == "refused" {
					srv = udpOnly
				}
				srv.mu.Lock()
				srv.udpClass, srv.tcpClass = uc, tc
				srv.mu.Unlock()
				u := NewUpstreamPlain(&UpstreamPlainConfig{Network: nw, Address: netip.MustParseAddrPort(srv.udp.LocalAddr().String()), Timeout: 300 * time.Millisecond})
				id++
				req := new(dns.Msg).SetQuestion("exchange.c17.example.", dns.TypeA)
				req.Id = id
				ctx, cancel := context.WithTimeout(context.Background(), 400*time.Millisecond)
				r, got, err := u.Exchange(ctx, req)
				cancel()
				_ = u.Close()
				ev := map[string]any{"ev": "Exchange", "net": string(nw), "udp": uc, "tcp": tc, "err": err != nil, "via": string(got),
					"got": c17bClassOf(req, r), "beh": 0}
				if err != nil {
					// a rejected reply must not be used by the caller; what counts is that an error is reported
					ev["got"] = "error"
				}
				out.Emit(ev)
			}
		}
	}
	// one client instance, several queries in a row: its pooled stream connection is alive (the
	// upstream keeps it open) or dead (the upstream closes after every reply) when the next query comes
	for _, one := range []bool{false, true} {
		for _, v := range []struct {
			nw Network
			uc string
		}{{NetworkTCP, "valid"}, {NetworkAny, "validtc"}} {
			both.mu.Lock()
			both.udpClass, both.tcpClass, both.oneShot = v.uc, "valid", one
			both.mu.Unlock()
			u := NewUpstreamPlain(&UpstreamPlainConfig{Network: v.nw, Address: netip.MustParseAddrPort(both.udp.LocalAddr().String()), Timeout: 300 * time.Millisecond})
			for k := 0; k < 6; k++ {
				id++
				req := new(dns.Msg).SetQuestion(fmt.Sprintf("reuse%d.c17.example.", k), dns.TypeA)
				req.Id = id
				ctx, cancel := context.WithTimeout(context.Background(), 400*time.Millisecond)
				r, got, err := u.Exchange(ctx, req)
				cancel()
				ev := map[string]any{"ev": "Exchange", "net": string(v.nw), "udp": v.uc, "tcp": "valid", "err": err != nil, "via": string(got),
					"got": c17bClassOf(req, r), "beh": 0, "reuse": k, "oneshot": one}
				if err != nil {
					ev["got"] = "error"
				}
				out.Emit(ev)
				time.Sleep(15 * time.Millisecond) // lets the upstream's FIN arrive
			}
			_ = u.Close()
		}
	}
	both.mu.Lock()
	both.oneShot = false
	both.mu.Unlock()
	// a reply that arrives after the client has given up belongs to nobody: queries that differ only in
	// their ECS subnet (same ID, same question -- the ID on the upstream leg is the client's own, 0 for DoH
	// and DoQ clients) each get the answer made for their own subnet, or an error
	for rep := 0; rep < 2; rep++ {
		udpOnly.mu.Lock()
		udpOnly.udpClass, udpOnly.nlate = "latefirst", 0
		udpOnly.mu.Unlock()
		u := NewUpstreamPlain(&UpstreamPlainConfig{Network: NetworkUDP, Address: netip.MustParseAddrPort(udpOnly.udp.LocalAddr().String()), Timeout: 300 * time.Millisecond})
		for k, sub := range []string{"192.0.2.0", "198.51.100.0", "203.0.113.0", "100.64.1.0"} {
			req := new(dns.Msg).SetQuestion("late.c17.example.", dns.TypeTXT)
			req.Id = 0
			req.SetEdns0(1232, false)
			req.IsEdns0().Option = append(req.IsEdns0().Option, &dns.EDNS0_SUBNET{Code: dns.EDNS0SUBNET, Family: 1, SourceNetmask: 24,
				Address: net.ParseIP(sub).To4()})
			ctx, cancel := context.WithTimeout(context.Background(), 400*time.Millisecond)
			r, got, err := u.Exchange(ctx, req)
			cancel()
			cls := c17bClassOf(req, r)
			if err == nil && r != nil && len(r.Answer) == 1 {
				if t, ok := r.Answer[0].(*dns.TXT); !ok || len(t.Txt) != 1 || t.Txt[0] != "for:"+sub {
					cls = "foreign" // a well-formed reply to this ID and question, made for another request
				}
			}
			ev := map[string]any{"ev": "Exchange", "net": "udp", "udp": "valid", "tcp": "refused", "err": err != nil, "via": string(got),
				"got": cls, "beh": 0, "late": k, "rep": rep}
			if err != nil {
				ev["got"] = "error"
			}
			if k == 0 || err != nil {
				// the reply to the first query comes too late, which is as good as none; so does any reply
				// that a loaded machine delivers after the client's time-out
				ev["udp"] = "none"
			}
			out.Emit(ev)
			time.Sleep(120 * time.Millisecond)
		}
		_ = u.Close()
	}
}
