//go:build verif

package cache

// C04, simple cache, the item-level part: calls the unexported item functions
// directly (kept apart from the middleware-level harness so that a tree whose
// internal signatures differ still gets the middleware-level verdict).

import (
	"testing"

	"github.com/bluele/gcache"
	"github.com/miekg/dns"
)

// TestVerifC04SimpleAges calls fromCacheItem directly with items of every age
// from 0 to ttl+1 s in quarter seconds (DESIGN C04 B(ii)).
func TestVerifC04SimpleAges(t *testing.T) {
	out := vhOpen(t)
	clk := &c04Clock{}
	VerifNow = clk.Now
	gcache.VerifNow = clk.Now
	mw := NewMiddleware(&MiddlewareConfig{Count: 10})
	beh := 0
	for _, name := range []string{"a.1.k.example.", "a.2.k.example.", "c.3.k.example.", "n.2.k.example.", "x.1.k.example.", "g.3.k.example."} {
		q := c04Q{Name: name, QType: dns.TypeA, QClass: dns.ClassINET}
		req := c04Req(q, 7)
		resp := c04Upstream(req)
		cacheable, life := c04Oracle(resp, false, 0)
		fresh := c04Digest(resp)
		out.Emit(c04Event{Ev: "Reset", Cache: "simple-item", Beh: beh, Fresh: c04Ans{TTLs: []int{}}, Got: c04Ans{TTLs: []int{}}})
		clk.q = 0
		item := mw.toCacheItem(resp)
		// the miss that stored it
		out.Emit(c04Event{Ev: "Query", Now: 0, Key: c04Key(q, false), Q: q, Up: true, Cacheable: cacheable, Life: life,
			Fresh: fresh, Got: fresh, Beh: beh, Cache: "simple-item"})
		for age := 0; age <= life*4; age++ {
			clk.q = age
			got := c04Digest(mw.fromCacheItem(item, req))
			out.Emit(c04Event{Ev: "Query", Now: age, Key: c04Key(q, false), Q: q, Up: false, Cacheable: cacheable, Life: life,
				Fresh: fresh, Got: got, Beh: beh, Cache: "simple-item"})
			out.Emit(c04Event{Ev: "Tick", D: 1, Now: age + 1, Beh: beh, Fresh: c04Ans{TTLs: []int{}}, Got: c04Ans{TTLs: []int{}}})
		}
		beh++
	}
}
