//go:build verif

package cache

// C04 on the simple response cache: histories of queries and clock advances are
// run through a WARM Middleware.Wrap(upstream) under a virtual clock; every
// query is also answered by a COLD instance (the "fresh answer").  TLC
// (TraceCacheCore.tla) decides.

import (
	"context"
	"math/rand"
	"net"
	"os"
	"testing"
	"time"

	"github.com/AdguardTeam/AdGuardDNS/internal/dnsserver"
	"github.com/bluele/gcache"
	"github.com/miekg/dns"
)

type c04RW struct{ msg *dns.Msg }

func (w *c04RW) LocalAddr() net.Addr  { return &net.UDPAddr{IP: net.IPv4(127, 0, 0, 1), Port: 53} }
func (w *c04RW) RemoteAddr() net.Addr { return &net.UDPAddr{IP: net.IPv4(10, 1, 2, 3), Port: 4000} }
func (w *c04RW) WriteMsg(_ context.Context, _, resp *dns.Msg) error {
	w.msg = resp.Copy()
	// A written response belongs to the writer: the real ones edit it in place
	// (OPT, padding, truncation) and hand its parts to the message pools.
	c04Scribble(resp)
	return nil
}

type c04Inst struct {
	h      dnsserver.Handler
	called *bool
}

func c04New(override bool, minTTL int) c04Inst {
	called := new(bool)
	up := dnsserver.HandlerFunc(func(ctx context.Context, rw dnsserver.ResponseWriter, req *dns.Msg) error {
		*called = true
		return rw.WriteMsg(ctx, req, c04Upstream(req))
	})
	mw := NewMiddleware(&MiddlewareConfig{Count: 1000, MinTTL: time.Duration(minTTL) * time.Second, OverrideTTL: override})
	return c04Inst{h: mw.Wrap(up), called: called}
}

func (i c04Inst) ask(t *testing.T, q c04Q, id uint16) (a c04Ans, up bool, raw *dns.Msg) {
	*i.called = false
	rw := &c04RW{}
	// the server stamps every request with its time of ARRIVAL; the cache's clock is the time of
	// processing, which may be later (worker queue, rate limiting, filtering)
	ctx := dnsserver.ContextWithRequestInfo(context.Background(), &dnsserver.RequestInfo{
		StartTime: VerifNow().Add(-[]time.Duration{0, 250 * time.Millisecond, 2 * time.Second, 5 * time.Second}[int(id)%4])})
	if err := i.h.ServeDNS(ctx, rw, c04Req(q, id)); err != nil {
		t.Fatalf("ServeDNS: %v", err)
	}
	return c04Digest(rw.msg), *i.called, rw.msg
}

func c04RunHistory(t *testing.T, out *vhOut, beh int, steps []c04Step, override bool, minTTL int) {
	clk := &c04Clock{}
	VerifNow = clk.Now
	gcache.VerifNow = clk.Now
	warm := c04New(override, minTTL)
	out.Emit(c04Event{Ev: "Reset", Cache: "simple", Override: override, MinTTL: minTTL, Beh: beh,
		Fresh: c04Ans{TTLs: []int{}}, Got: c04Ans{TTLs: []int{}}})
	id := uint16(100)
	for _, s := range steps {
		switch s.A {
		case "Tick":
			clk.q += s.D
			out.Emit(c04Event{Ev: "Tick", D: s.D, Now: clk.q, Beh: beh, Fresh: c04Ans{TTLs: []int{}}, Got: c04Ans{TTLs: []int{}}})
		case "Query":
			q := s.Q
			if q == nil {
				qq := c04Abstract(s.K)
				q = &qq
			}
			id++
			cold := c04New(override, minTTL)
			fresh, _, _ := cold.ask(t, *q, id)
			rawUp := c04Upstream(c04Req(*q, id))
			cacheable, life := c04Oracle(rawUp, override, minTTL)
			got, up, _ := warm.ask(t, *q, id)
			out.Emit(c04Event{Ev: "Query", Now: clk.q, Key: c04Key(*q, false), Q: *q, Up: up, Cacheable: cacheable,
				Life: life, Fresh: fresh, Got: got, Beh: beh, Cache: "simple"})
		}
	}
}

func TestVerifC04Simple(t *testing.T) {
	out := vhOpen(t)
	rng := rand.New(rand.NewSource(vhSeed()))
	beh := 0
	if p := os.Getenv("VERIF_IN"); p != "" {
		var behs [][]c04Step
		vhReadJSON(t, p, &behs)
		for _, b := range behs {
			c04RunHistory(t, out, beh, b, false, 0)
			beh++
		}
	}
	n := vhEnvInt("VERIF_NRANDOM", 100)
	for i := 0; i < n; i++ {
		override := rng.Intn(3) == 0
		c04RunHistory(t, out, beh, c04RandomHistory(rng, []string{""}), override, 1+rng.Intn(8))
		beh++
	}
}

