//go:build verif

package dnsserver

// C01, in-package part.  Arbitrary byte strings and structured mutations of
// DNS messages are fed into the per-request entry points of every transport
// (ServerBase.serveDNS; ServerDNS.acceptUDPMsg; ServerDNS.acceptTCPMsg for plain
// TCP and DoT; httpHandler.ServeHTTP for DoH POST / GET / JSON;
// ServerQUIC.serveQUICStreamAsync; dnsCryptHandler.ServeDNS) with recording
// fakes in place of the sockets.  One NDJSON line per (input, lane) -- lines
// with the same abstract content are merged, keeping concrete examples.  The
// harness only classifies and records; TraceDispatch.tla decides.
//
// The exported C01* identifiers are shared with the socket-level harness in
// package dnsserver_test (c01sock_test.go).

import (
	"bytes"
	"context"
	"crypto/sha1"
	"encoding/base64"
	"encoding/binary"
	"encoding/hex"
	"encoding/json"
	"errors"
	"fmt"
	"hash/fnv"
	"io"
	"math/rand"
	"net"
	"net/http"
	"net/http/httptest"
	"net/url"
	"sort"
	"strings"
	"sync"
	"testing"
	"time"

	"github.com/AdguardTeam/golibs/log"
	"github.com/AdguardTeam/golibs/syncutil"
	"github.com/miekg/dns"
	"github.com/quic-go/quic-go"
)

// ---------------------------------------------------------------- events

// C01Item is one transport's reply to a query of the equivalence set.
type C01Item struct {
	T     string `json:"t"`
	N     int    `json:"n"`
	Rcode string `json:"rcode"`
	Ans   string `json:"ans"`
	Ns    string `json:"ns"`
	Extra string `json:"extra"`
	TC    bool   `json:"tc"`
}

// C01Event is one line of the trace.  Ev is "In" (one input on one transport)
// or "Eq" (one query of the equivalence set on all transports).
type C01Event struct {
	Ev   string `json:"ev"`
	Src  string `json:"src"` // "pkg" or "sock"
	T    string `json:"t"`
	Wire string `json:"wire"`
	QR   bool   `json:"qr"`
	Op   string `json:"op"`
	QD   int    `json:"qd"`
	AN   int    `json:"an"`
	NS   int    `json:"ns"`
	H    string `json:"h"` // handler outcome this input selects, "-" if it is not an acceptable query

	Kind   string `json:"kind"`   // abstract observation
	N      int    `json:"n"`      // number of DNS responses received
	Called int    `json:"called"` // how often the handler was entered
	Rcode  string `json:"rcode"`  // of the first response
	IDOK   bool   `json:"idok"`   // every response carries the request's ID
	QOK    bool   `json:"qok"`    // every response carries the request's question
	TC     bool   `json:"tc"`
	HWrote bool   `json:"hwrote"` // the handler wrote an answer
	RcEq   bool   `json:"rceq"`   // first response vs the handler's answer
	AnsEq  bool   `json:"anseq"`
	NsEq   bool   `json:"nseq"`
	ExtEq  bool   `json:"exteq"`
	Probe  string `json:"probe"` // valid query on the same lane afterwards: "ok", "fail", "na"

	Cnt    int       `json:"cnt"` // number of inputs merged into this line
	Status int       `json:"status"`
	Note   string    `json:"note"`
	Gen    string    `json:"gen"`
	Key    string    `json:"key"`
	Hex    string    `json:"hex"`  // concrete input (wire bytes, or the raw query string for GET/JSON inputs)
	More   []string  `json:"more"` // further concrete inputs with the same abstract line
	Detail string    `json:"detail"`
	Items  []C01Item `json:"items"`
}

// ---------------------------------------------------------------- handler

// C01Handler is the one deterministic handler: the answer is a pure function of
// the question; the first label selects the special behaviours.
type C01Handler struct {
	mu       sync.Mutex
	calls    int
	lastReq  *dns.Msg
	lastResp *dns.Msg
}

type c01NetErr struct{}

func (c01NetErr) Error() string   { return "c01: simulated network timeout" }
func (c01NetErr) Timeout() bool   { return true }
func (c01NetErr) Temporary() bool { return true }

var _ net.Error = c01NetErr{}

// C01Mode tells which handler outcome a question name selects.
func C01Mode(name string) string {
	n := strings.ToLower(name)
	switch {
	case strings.HasPrefix(n, "h-nothing"):
		return "nothing"
	case strings.HasPrefix(n, "h-error"):
		return "error"
	case strings.HasPrefix(n, "h-neterr"):
		return "neterror"
	case strings.HasPrefix(n, "h-panic"):
		return "panic"
	}
	return "writes"
}

// C01Answer is the resolver pipeline of the laboratory.
func C01Answer(req *dns.Msg) (resp *dns.Msg) {
	resp = new(dns.Msg).SetReply(req)
	resp.RecursionAvailable = true
	q := req.Question[0]
	hs := fnv.New64a()
	fmt.Fprintf(hs, "%s|%d|%d", strings.ToLower(q.Name), q.Qtype, q.Qclass)
	v := hs.Sum64()
	ttl := uint32(30 + v%3000)
	soa := &dns.SOA{Hdr: dns.RR_Header{Name: "c01.zone.", Rrtype: dns.TypeSOA, Class: dns.ClassINET, Ttl: ttl},
		Ns: "ns.c01.zone.", Mbox: "h.c01.zone.", Serial: uint32(v >> 8), Refresh: 1, Retry: 2, Expire: 3, Minttl: 4}
	hdr := func(t uint16) dns.RR_Header { return dns.RR_Header{Name: q.Name, Rrtype: t, Class: q.Qclass, Ttl: ttl} }
	switch v % 10 {
	case 0:
		resp.Rcode = dns.RcodeNameError
		resp.Ns = []dns.RR{soa}
	case 1:
		resp.Rcode = dns.RcodeRefused
	case 2:
		resp.Ns = []dns.RR{soa}
	default:
		n := 1 + int(v>>16)%3
		for i := 0; i < n; i++ {
			switch q.Qtype {
			case dns.TypeA:
				resp.Answer = append(resp.Answer, &dns.A{Hdr: hdr(dns.TypeA), A: net.IPv4(10, byte(v>>24), byte(v>>32), byte(i+1)).To4()})
			case dns.TypeAAAA:
				ip := net.ParseIP("2001:db8::")
				binary.BigEndian.PutUint32(ip[8:], uint32(v>>20))
				ip[15] = byte(i + 1)
				resp.Answer = append(resp.Answer, &dns.AAAA{Hdr: hdr(dns.TypeAAAA), AAAA: ip})
			default:
				resp.Answer = append(resp.Answer, &dns.TXT{Hdr: hdr(dns.TypeTXT), Txt: []string{fmt.Sprintf("c01-%016x-%d", v, i)}})
			}
		}
		if v>>40&1 == 1 {
			resp.Extra = append(resp.Extra, &dns.A{Hdr: dns.RR_Header{Name: "extra.c01.zone.", Rrtype: dns.TypeA, Class: dns.ClassINET, Ttl: ttl},
				A: net.IPv4(10, 9, byte(v>>48), 1).To4()})
		}
	}
	return resp
}

// ServeDNS implements Handler.
func (h *C01Handler) ServeDNS(ctx context.Context, rw ResponseWriter, req *dns.Msg) (err error) {
	h.mu.Lock()
	h.calls++
	h.lastReq = req.Copy()
	h.mu.Unlock()
	if len(req.Question) == 0 {
		return nil
	}
	switch C01Mode(req.Question[0].Name) {
	case "nothing":
		return nil
	case "error":
		return errors.New("c01: simulated handler error")
	case "neterror":
		return c01NetErr{}
	case "panic":
		panic("c01: simulated handler panic")
	}
	if strings.HasPrefix(strings.ToLower(req.Question[0].Name), "slow") {
		// an answer that takes a while (an upstream round trip)
		time.Sleep(60 * time.Millisecond)
	}
	resp := C01Answer(req)
	h.mu.Lock()
	h.lastResp = resp.Copy()
	h.mu.Unlock()
	_ = rw.WriteMsg(ctx, req, resp)
	return nil
}

// Take returns and resets what the handler saw since the last call.
func (h *C01Handler) Take() (calls int, req, resp *dns.Msg) {
	h.mu.Lock()
	defer h.mu.Unlock()
	calls, req, resp = h.calls, h.lastReq, h.lastResp
	h.calls, h.lastReq, h.lastResp = 0, nil, nil
	return calls, req, resp
}

// ---------------------------------------------------------------- abstraction

// C01Core is the comparable content of a response.
type C01Core struct {
	Rcode          string
	Ans, Ns, Extra string
	TC             bool
}

func c01RRDigest(rrs []dns.RR) string {
	var parts []string
	for _, rr := range rrs {
		hd := rr.Header()
		if hd.Rrtype == dns.TypeOPT {
			continue
		}
		data := strings.TrimLeft(strings.TrimPrefix(rr.String(), hd.String()), " ")
		parts = append(parts, fmt.Sprintf("%s|%d|%d|%d|%s", hd.Name, hd.Rrtype, hd.Class, hd.Ttl, data))
	}
	return C01Digest(parts)
}

// C01Digest hashes a list of record descriptions ("" for an empty list).
func C01Digest(parts []string) string {
	if len(parts) == 0 {
		return ""
	}
	s := sha1.Sum([]byte(strings.Join(parts, ";")))
	return hex.EncodeToString(s[:6])
}

// C01RcodeName names an rcode.
func C01RcodeName(rc int) string {
	if s, ok := dns.RcodeToString[rc]; ok {
		return s
	}
	return fmt.Sprintf("RCODE%d", rc)
}

// C01CoreOf abstracts a response message.
func C01CoreOf(m *dns.Msg) C01Core {
	return C01Core{Rcode: C01RcodeName(m.Rcode), Ans: c01RRDigest(m.Answer), Ns: c01RRDigest(m.Ns), Extra: c01RRDigest(m.Extra), TC: m.Truncated}
}

// C01Classify abstracts an input byte string (dns.Msg.Unpack is trusted).
func C01Classify(ev *C01Event, payload []byte) (req *dns.Msg) {
	ev.Op, ev.H = "QUERY", "-"
	m := new(dns.Msg)
	if err := m.Unpack(payload); err != nil {
		ev.Wire = "undec"
		if len(payload) < 12 {
			ev.Wire = "short"
		}
		return nil
	}
	ev.Wire, ev.QR = "dec", m.Response
	switch m.Opcode {
	case dns.OpcodeQuery:
	case dns.OpcodeNotify:
		ev.Op = "NOTIFY"
	default:
		ev.Op = "OTHER"
	}
	ev.QD, ev.AN, ev.NS = min(len(m.Question), 2), min(len(m.Answer), 2), min(len(m.Ns), 2)
	if !ev.QR && ev.Op != "OTHER" && ev.QD == 1 && ev.AN <= 1 && ev.NS <= 1 {
		ev.H = C01Mode(m.Question[0].Name)
	}
	return m
}

// C01Observe fills the observation part of ev from the raw replies.  reqID /
// reqQ describe the request (reqQ nil: not decodable), hresp is what the
// handler wrote.
func C01Observe(ev *C01Event, reqID uint16, reqQ []dns.Question, replies [][]byte, hresp *dns.Msg) {
	ev.N = len(replies)
	ev.Rcode = "-"
	ev.IDOK, ev.QOK = true, true
	ev.HWrote = hresp != nil
	for i, b := range replies {
		r := new(dns.Msg)
		if err := r.Unpack(b); err != nil {
			ev.IDOK, ev.QOK = false, false
			if i == 0 {
				ev.Rcode = "UNPARSEABLE"
			}
			ev.Detail += fmt.Sprintf("reply %d does not parse: %v; ", i, err)
			continue
		}
		if r.Id != reqID || !r.Response {
			ev.IDOK = false
		}
		if !c01QuestionEchoed(reqQ, r.Question, ev.H != "-") {
			ev.QOK = false
		}
		if i == 0 {
			c := C01CoreOf(r)
			ev.Rcode, ev.TC = c.Rcode, c.TC
			if hresp != nil {
				hc := C01CoreOf(hresp)
				ev.RcEq, ev.AnsEq, ev.NsEq, ev.ExtEq = c.Rcode == hc.Rcode, c.Ans == hc.Ans, c.Ns == hc.Ns, c.Extra == hc.Extra
			}
			ev.Detail += fmt.Sprintf("reply id=%d q=%v core=%+v; ", r.Id, r.Question, c)
		}
	}
}

// c01QuestionEchoed: an accepted query's question comes back exactly; a rejected
// message's response carries nothing but (a prefix of) its own question section.
func c01QuestionEchoed(reqQ, got []dns.Question, accepted bool) bool {
	if accepted {
		return len(got) == 1 && len(reqQ) == 1 && got[0] == reqQ[0]
	}
	if len(got) > len(reqQ) {
		return false
	}
	for i := range got {
		if got[i] != reqQ[i] {
			return false
		}
	}
	return true
}

// c01JSONReply parses a JSON API body into a synthetic wire reply so that the
// same observation code applies (the JSON form has no ID and no authority section).
func C01JSONToMsg(body []byte, reqID uint16, qclass uint16) (m *dns.Msg, ansDigest, extraDigest string, err error) {
	var jm JSONMsg
	if err = json.Unmarshal(body, &jm); err != nil {
		return nil, "", "", err
	}
	m = new(dns.Msg)
	m.Id, m.Response, m.Rcode, m.Truncated = reqID, true, jm.Status, jm.Truncated
	for _, q := range jm.Question {
		m.Question = append(m.Question, dns.Question{Name: q.Name, Qtype: q.Type, Qclass: qclass})
	}
	dig := func(as []JSONAnswer) string {
		var parts []string
		for _, a := range as {
			if a.Type == dns.TypeOPT {
				continue
			}
			parts = append(parts, fmt.Sprintf("%s|%d|%d|%d|%s", a.Name, a.Type, a.Class, a.TTL, a.Data))
		}
		return C01Digest(parts)
	}
	return m, dig(jm.Answer), dig(jm.Extra), nil
}

// ---------------------------------------------------------------- fakes

type c01Addr struct{ network string }

func (a c01Addr) addr() net.Addr {
	if a.network == "udp" {
		return &net.UDPAddr{IP: net.IPv4(127, 0, 0, 1), Port: 53000}
	}
	return &net.TCPAddr{IP: net.IPv4(127, 0, 0, 1), Port: 53000}
}

// c01RecWriter records every WriteMsg (lane "base").
type c01RecWriter struct{ out [][]byte }

func (w *c01RecWriter) LocalAddr() net.Addr  { return c01Addr{"udp"}.addr() }
func (w *c01RecWriter) RemoteAddr() net.Addr { return c01Addr{"udp"}.addr() }
func (w *c01RecWriter) WriteMsg(_ context.Context, _, resp *dns.Msg) error {
	b, err := resp.Pack()
	if err != nil {
		return err
	}
	w.out = append(w.out, b)
	return nil
}

// c01PacketConn delivers one datagram and records what is sent back.
type c01PacketConn struct {
	in  []byte
	out [][]byte
}

func (c *c01PacketConn) ReadFrom(p []byte) (int, net.Addr, error) {
	if c.in == nil {
		return 0, nil, io.EOF
	}
	n := copy(p, c.in)
	c.in = nil
	return n, c01Addr{"udp"}.addr(), nil
}
func (c *c01PacketConn) WriteTo(p []byte, _ net.Addr) (int, error) {
	c.out = append(c.out, append([]byte{}, p...))
	return len(p), nil
}
func (c *c01PacketConn) Close() error                     { return nil }
func (c *c01PacketConn) LocalAddr() net.Addr              { return c01Addr{"udp"}.addr() }
func (c *c01PacketConn) SetDeadline(time.Time) error      { return nil }
func (c *c01PacketConn) SetReadDeadline(time.Time) error  { return nil }
func (c *c01PacketConn) SetWriteDeadline(time.Time) error { return nil }

// c01Conn is a stream connection with scripted input.
type c01Conn struct {
	mu     sync.Mutex
	r      *bytes.Reader
	w      bytes.Buffer
	closed bool
}

func (c *c01Conn) Read(p []byte) (int, error) { return c.r.Read(p) }
func (c *c01Conn) Write(p []byte) (int, error) {
	c.mu.Lock()
	defer c.mu.Unlock()
	if c.closed {
		return 0, net.ErrClosed
	}
	return c.w.Write(p)
}
func (c *c01Conn) Close() error {
	c.mu.Lock()
	defer c.mu.Unlock()
	c.closed = true
	return nil
}
func (c *c01Conn) LocalAddr() net.Addr              { return c01Addr{"tcp"}.addr() }
func (c *c01Conn) RemoteAddr() net.Addr             { return c01Addr{"tcp"}.addr() }
func (c *c01Conn) SetDeadline(time.Time) error      { return nil }
func (c *c01Conn) SetReadDeadline(time.Time) error  { return nil }
func (c *c01Conn) SetWriteDeadline(time.Time) error { return nil }

// c01Stream / c01QConn fake the parts of quic-go that serveQUICStream uses.
type c01Stream struct {
	quic.Stream
	r      *bytes.Reader
	w      bytes.Buffer
	closed bool
}

func (s *c01Stream) Read(p []byte) (int, error)      { return s.r.Read(p) }
func (s *c01Stream) Write(p []byte) (int, error)     { return s.w.Write(p) }
func (s *c01Stream) Close() error                    { s.closed = true; return nil }
func (s *c01Stream) SetReadDeadline(time.Time) error { return nil }

type c01QConn struct {
	quic.Connection
	code int64 // -1: not closed
}

func (c *c01QConn) LocalAddr() net.Addr  { return c01Addr{"udp"}.addr() }
func (c *c01QConn) RemoteAddr() net.Addr { return c01Addr{"udp"}.addr() }
func (c *c01QConn) CloseWithError(code quic.ApplicationErrorCode, _ string) error {
	if c.code < 0 {
		c.code = int64(code)
	}
	return nil
}

// c01DCWriter fakes dnscrypt.ResponseWriter.
type c01DCWriter struct {
	network string
	out     [][]byte
}

func (w *c01DCWriter) LocalAddr() net.Addr  { return c01Addr{w.network}.addr() }
func (w *c01DCWriter) RemoteAddr() net.Addr { return c01Addr{w.network}.addr() }
func (w *c01DCWriter) WriteMsg(m *dns.Msg) error {
	b, err := m.Pack()
	if err != nil {
		return err
	}
	w.out = append(w.out, b)
	return nil
}

func c01SplitPrefixed(b []byte) (msgs [][]byte, ok bool) {
	for len(b) > 0 {
		if len(b) < 2 {
			return msgs, false
		}
		n := int(binary.BigEndian.Uint16(b))
		if len(b) < 2+n {
			return msgs, false
		}
		msgs = append(msgs, b[2:2+n])
		b = b[2+n:]
	}
	return msgs, true
}

func c01Prefixed(p []byte) []byte {
	return append(binary.BigEndian.AppendUint16(nil, uint16(len(p))), p...)
}

// ---------------------------------------------------------------- lanes

type c01Obs struct {
	replies  [][]byte
	kind     string // for a lane without replies
	status   int
	note     string
	loopDown bool // the accept loop of the listener would have ended
	jsonBody []byte
}

type c01Input struct {
	payload []byte
	raw     string // GET / JSON: raw query string used verbatim ("" = derive from payload)
	gen     string
	// JSON lane only
	jq *dns.Question
}

type c01Lane struct {
	name string
	run  func(in c01Input) c01Obs
}

func c01Guard(o *c01Obs) {
	if v := recover(); v != nil {
		o.kind, o.note = "escaped", fmt.Sprint(v)
	}
}

func c01Lanes(h Handler) (lanes []c01Lane) {
	base := ConfigBase{Name: "c01", Addr: "127.0.0.1:0", Handler: h}
	reqCtx := func(s *ServerBase) (context.Context, context.CancelFunc) {
		ctx, cancel := s.requestContext()
		return ContextWithRequestInfo(ctx, &RequestInfo{StartTime: time.Now()}), cancel
	}

	sb := newServerBase(ProtoDNS, base)
	lanes = append(lanes, c01Lane{"base", func(in c01Input) (o c01Obs) {
		defer c01Guard(&o)
		ctx, cancel := reqCtx(sb)
		defer cancel()
		rw := &c01RecWriter{}
		o.kind = "none"
		defer func() { o.replies = rw.out }()
		written := sb.serveDNS(ctx, in.payload, rw)
		o.note = fmt.Sprintf("written=%v", written)
		return o
	}})

	su := NewServerDNS(ConfigDNS{ConfigBase: base, MaxUDPRespSize: dns.MaxMsgSize})
	lanes = append(lanes, c01Lane{"udp", func(in c01Input) (o c01Obs) {
		defer c01Guard(&o)
		conn := &c01PacketConn{in: in.payload}
		err := su.acceptUDPMsg(context.Background(), conn)
		su.wg.Wait()
		if err != nil {
			o.loopDown, o.note = true, "acceptUDPMsg: "+err.Error()
		}
		o.replies, o.kind = conn.out, "drop"
		return o
	}})

	for _, p := range []struct {
		name  string
		proto Protocol
	}{{"tcp", ProtoDNS}, {"dot", ProtoDoT}} {
		st := newServerDNS(p.proto, ConfigDNS{ConfigBase: base})
		lanes = append(lanes, c01Lane{p.name, func(in c01Input) (o c01Obs) {
			defer c01Guard(&o)
			conn := &c01Conn{r: bytes.NewReader(c01Prefixed(in.payload))}
			wg := &sync.WaitGroup{}
			err := st.acceptTCPMsg(conn, wg, &sync.Mutex{}, time.Second, syncutil.EmptySemaphore{})
			wg.Wait()
			var ok bool
			o.replies, ok = c01SplitPrefixed(conn.w.Bytes())
			switch {
			case !ok:
				o.kind, o.note = "badframe", "reply stream is not a sequence of length-prefixed messages"
				o.replies = nil
			case err != nil:
				o.kind, o.note = "close", "acceptTCPMsg: "+err.Error() // serveTCPConn returns and closes
			case conn.closed:
				o.kind = "close"
			default:
				o.kind = "drop"
			}
			return o
		}})
	}

	sh := NewServerHTTPS(ConfigHTTPS{ConfigBase: base})
	hh := &httpHandler{srv: sh, localAddr: c01Addr{"tcp"}.addr()}
	doh := func(name string, mk func(in c01Input) *http.Request) c01Lane {
		return c01Lane{name, func(in c01Input) (o c01Obs) {
			defer c01Guard(&o)
			rec := httptest.NewRecorder()
			wrote := false
			hh.ServeHTTP(&c01HTTPWriter{ResponseWriter: rec, wrote: &wrote}, mk(in))
			o.status = rec.Code
			ct := rec.Header().Get("Content-Type")
			switch {
			case rec.Code == http.StatusOK && strings.HasPrefix(ct, MimeTypeDoH):
				o.replies = [][]byte{rec.Body.Bytes()}
			case rec.Code == http.StatusOK && strings.HasPrefix(ct, MimeTypeJSON) && wrote:
				o.jsonBody = rec.Body.Bytes()
			case rec.Code == http.StatusBadRequest:
				o.kind = "http400"
			case rec.Code == http.StatusInternalServerError:
				o.kind = "http500"
			case !wrote:
				o.kind = "httpempty"
			default:
				o.kind = fmt.Sprintf("http%d", rec.Code)
			}
			return o
		}}
	}
	lanes = append(lanes,
		doh("doh-post", func(in c01Input) *http.Request {
			r := httptest.NewRequest(http.MethodPost, "https://c01.example"+PathDoH, bytes.NewReader(in.payload))
			r.Header.Set("Content-Type", MimeTypeDoH)
			return r
		}),
		doh("doh-get", func(in c01Input) *http.Request {
			raw := in.raw
			if raw == "" {
				raw = "dns=" + base64.RawURLEncoding.EncodeToString(in.payload)
			}
			r := httptest.NewRequest(http.MethodGet, "https://c01.example"+PathDoH, nil)
			r.URL.RawQuery = raw
			return r
		}),
		doh("doh-json", func(in c01Input) *http.Request {
			r := httptest.NewRequest(http.MethodGet, "https://c01.example"+PathJSON, nil)
			r.URL.RawQuery = in.raw
			return r
		}))

	sq := NewServerQUIC(ConfigQUIC{ConfigBase: base})
	lanes = append(lanes, c01Lane{"doq", func(in c01Input) (o c01Obs) {
		defer c01Guard(&o)
		ctx, cancel := reqCtx(sq.ServerBase)
		defer cancel()
		stream := &c01Stream{r: bytes.NewReader(c01Prefixed(in.payload))}
		conn := &c01QConn{code: -1}
		wg := &sync.WaitGroup{}
		wg.Add(1)
		sq.serveQUICStreamAsync(ctx, stream, conn, wg)
		var ok bool
		o.replies, ok = c01SplitPrefixed(stream.w.Bytes())
		switch {
		case !ok:
			o.kind, o.replies = "badframe", nil
		case conn.code == int64(DOQCodeProtocolError):
			o.kind = "quicproto"
		case stream.closed || conn.code >= 0:
			o.kind = "close"
		default:
			o.kind = "drop"
		}
		return o
	}})

	sc := NewServerDNSCrypt(ConfigDNSCrypt{ConfigBase: base})
	dch := &dnsCryptHandler{srv: sc}
	for _, nw := range []string{"udp", "tcp"} {
		lanes = append(lanes, c01Lane{"dnscrypt-" + nw, func(in c01Input) (o c01Obs) {
			defer c01Guard(&o)
			m := new(dns.Msg)
			if err := m.Unpack(in.payload); err != nil {
				o.kind = "skip" // the library never hands over what it cannot decode
				return o
			}
			rw := &c01DCWriter{network: nw}
			o.kind = "drop"
			defer func() { o.replies = rw.out }()
			if err := dch.ServeDNS(rw, m); err != nil {
				o.note = "ServeDNS: " + err.Error()
			}
			return o
		}})
	}
	return lanes
}

// c01HTTPWriter notes whether anything was written at all.
type c01HTTPWriter struct {
	http.ResponseWriter
	wrote *bool
}

func (w *c01HTTPWriter) WriteHeader(c int) { *w.wrote = true; w.ResponseWriter.WriteHeader(c) }
func (w *c01HTTPWriter) Write(b []byte) (int, error) {
	*w.wrote = true
	return w.ResponseWriter.Write(b)
}

// ---------------------------------------------------------------- concretiser

var c01Types = []uint16{0, 1, 2, 5, 6, 12, 15, 16, 28, 33, 41, 43, 46, 48, 64, 65, 99, 249, 250, 251, 252, 253, 254, 255, 256, 257, 32768, 65280, 65534, 65535}
var c01Classes = []uint16{0, 1, 2, 3, 4, 254, 255, 256, 65280, 65535}

// C01Name draws a question name; kind selects the shape.
func C01Name(rnd *rand.Rand, kind int) string {
	label := func(n int) string {
		const al = "abcdefghijklmnopqrstuvwxyzABCDEFGHIJKLMNOPQRSTUVWXYZ0123456789-_"
		b := make([]byte, n)
		for i := range b {
			b[i] = al[rnd.Intn(len(al))]
		}
		return string(b)
	}
	switch kind % 8 {
	case 0: // plain lower case
		return strings.ToLower(label(1+rnd.Intn(12))) + ".example.org."
	case 1: // mixed case
		return label(3+rnd.Intn(20)) + ".ExAmPlE." + label(2) + "."
	case 2: // 255 octets on the wire: 63+63+63+61 -> 1+63 +1+63 +1+63 +1+61 +1 = 255
		return label(63) + "." + label(63) + "." + label(63) + "." + label(61) + "."
	case 3: // many one-octet labels (127 labels: 254 + root = 255)
		var sb strings.Builder
		for i := 0; i < 127; i++ {
			sb.WriteString(label(1) + ".")
		}
		return sb.String()
	case 4: // single label / root
		if rnd.Intn(3) == 0 {
			return "."
		}
		return label(1+rnd.Intn(63)) + "."
	case 5: // bytes that need escaping in the presentation form
		specials := []string{`\.`, `\ `, `\000`, `\255`, `\"`, `\\`, `\;`, `\@`, `\(`, `\$`}
		return "x" + specials[rnd.Intn(len(specials))] + label(2) + specials[rnd.Intn(len(specials))] + ".Esc.example."
	case 6: // 63-octet label
		return label(63) + ".org."
	default:
		return label(1+rnd.Intn(30)) + "." + label(1+rnd.Intn(30)) + ".test."
	}
}

// C01Canon returns the presentation form that dns.Msg.Unpack yields for name.
func C01Canon(name string) (string, bool) {
	m := new(dns.Msg)
	m.Question = []dns.Question{{Name: name, Qtype: 1, Qclass: 1}}
	b, err := m.Pack()
	if err != nil {
		return "", false
	}
	r := new(dns.Msg)
	if err = r.Unpack(b); err != nil || len(r.Question) != 1 {
		return "", false
	}
	return r.Question[0].Name, true
}

// C01AddEDNS adds an OPT record with a drawn set of options (never
// edns-tcp-keepalive: RFC 9250 makes it a protocol error on DoQ, and keep-alive
// belongs to C08).
func C01AddEDNS(rnd *rand.Rand, m *dns.Msg, variant int) {
	sizes := []uint16{0, 512, 1232, 4096, 65535}
	m.SetEdns0(sizes[rnd.Intn(len(sizes))], variant%2 == 1)
	o := m.IsEdns0()
	if variant&2 != 0 {
		o.Option = append(o.Option, &dns.EDNS0_COOKIE{Code: dns.EDNS0COOKIE, Cookie: "0102030405060708"})
	}
	if variant&4 != 0 {
		o.Option = append(o.Option, &dns.EDNS0_NSID{Code: dns.EDNS0NSID, Nsid: ""})
	}
	if variant&8 != 0 {
		o.Option = append(o.Option, &dns.EDNS0_SUBNET{Code: dns.EDNS0SUBNET, Family: 1, SourceNetmask: 24, Address: net.IPv4(192, 0, 2, 0).To4()})
	}
	if variant&16 != 0 {
		o.Option = append(o.Option, &dns.EDNS0_PADDING{Padding: make([]byte, rnd.Intn(40))})
	}
	if variant&32 != 0 {
		o.Option = append(o.Option, &dns.EDNS0_LOCAL{Code: 65001, Data: []byte{1, 2, 3}})
	}
	if variant&64 != 0 {
		o.SetVersion(1)
	}
}

// c01Structured builds a decodable message of the class (qr, op, qd, an, ns).
func c01Structured(rnd *rand.Rand, qr bool, op string, qd, an, ns int, mode string, rich bool) []byte {
	for {
		// a drawn combination that miekg/dns refuses to pack is drawn again
		if b := c01StructuredOnce(rnd, qr, op, qd, an, ns, mode, rich); b != nil {
			return b
		}
	}
}

func c01StructuredOnce(rnd *rand.Rand, qr bool, op string, qd, an, ns int, mode string, rich bool) []byte {
	m := new(dns.Msg)
	m.Id = uint16(rnd.Intn(65536))
	m.Response = qr
	switch op {
	case "QUERY":
		m.Opcode = dns.OpcodeQuery
	case "NOTIFY":
		m.Opcode = dns.OpcodeNotify
	default:
		others := []int{1, 2, 3, 5, 6, 7, 8, 9, 10, 11, 12, 13, 14, 15}
		m.Opcode = others[rnd.Intn(len(others))]
	}
	if rich {
		m.Authoritative, m.Truncated, m.RecursionDesired = rnd.Intn(4) == 0, rnd.Intn(8) == 0, rnd.Intn(2) == 0
		m.RecursionAvailable, m.Zero, m.AuthenticatedData, m.CheckingDisabled = rnd.Intn(4) == 0, rnd.Intn(4) == 0, rnd.Intn(4) == 0, rnd.Intn(4) == 0
		if rnd.Intn(6) == 0 {
			m.Rcode = rnd.Intn(16)
		}
	} else {
		m.RecursionDesired = true
	}
	for i := 0; i < qd; i++ {
		name := C01Name(rnd, []int{0, 1, 5, 7}[rnd.Intn(4)])
		if rich && qd == 1 && rnd.Intn(3) == 0 {
			name = C01Name(rnd, rnd.Intn(8))
		}
		if i == 0 && mode != "writes" && mode != "" {
			if len(name) > 200 {
				name = "Example."
			}
			name = map[string]string{"nothing": "h-nothing", "error": "H-Error", "neterror": "h-NetErr", "panic": "h-panic"}[mode] +
				fmt.Sprintf("%d.", rnd.Intn(1000)) + name
		}
		qt, qc := uint16(dns.TypeA), uint16(dns.ClassINET)
		if rich {
			qt, qc = c01Types[rnd.Intn(len(c01Types))], c01Classes[rnd.Intn(len(c01Classes))]
			if rnd.Intn(2) == 0 {
				qc = dns.ClassINET
			}
		}
		m.Question = append(m.Question, dns.Question{Name: name, Qtype: qt, Qclass: qc})
	}
	rr := func(i int) dns.RR {
		if i%2 == 0 {
			return &dns.SOA{Hdr: dns.RR_Header{Name: "z.example.", Rrtype: dns.TypeSOA, Class: dns.ClassINET, Ttl: 5}, Ns: "a.", Mbox: "b.", Serial: uint32(rnd.Intn(1000))}
		}
		return &dns.A{Hdr: dns.RR_Header{Name: "r.example.", Rrtype: dns.TypeA, Class: dns.ClassINET, Ttl: 5}, A: net.IPv4(192, 0, 2, byte(i)).To4()}
	}
	for i := 0; i < an; i++ {
		m.Answer = append(m.Answer, rr(i))
	}
	for i := 0; i < ns; i++ {
		m.Ns = append(m.Ns, rr(i+1))
	}
	if an == 2 && rnd.Intn(3) == 0 {
		m.Answer = append(m.Answer, rr(3)) // "two or more"
	}
	if rich && rnd.Intn(3) == 0 {
		C01AddEDNS(rnd, m, rnd.Intn(128))
	}
	b, err := m.Pack()
	if err != nil {
		return nil
	}
	return b
}

// c01Inputs draws the wire inputs of one run.
func c01Inputs(rnd *rand.Rand, perClass, nRandom int) (ins []c01Input) {
	add := func(gen string, b []byte) {
		if len(b) > 500 { // the plain UDP server reads into a 512-byte buffer by default (ConfigDNS.UDPSize)
			return
		}
		ins = append(ins, c01Input{payload: b, gen: gen})
	}
	ops := []string{"QUERY", "NOTIFY", "OTHER"}
	// every (qr, opcode, qd, an, ns) class
	for _, qr := range []bool{false, true} {
		for _, op := range ops {
			for qd := 0; qd <= 2; qd++ {
				for an := 0; an <= 2; an++ {
					for ns := 0; ns <= 2; ns++ {
						for i := 0; i < perClass; i++ {
							add("class", c01Structured(rnd, qr, op, qd, an, ns, "", i > 0))
						}
					}
				}
			}
		}
	}
	// accepted queries: every handler outcome, both accepted opcodes, the admitted single answer / authority record
	for _, mode := range []string{"writes", "nothing", "error", "neterror", "panic"} {
		for i := 0; i < 2*perClass; i++ {
			add("handler-"+mode, c01Structured(rnd, false, ops[i%2], 1, i/2%2, i/4%2, mode, i%3 == 2))
		}
	}
	valid := func(name string, qt, qc uint16) *dns.Msg {
		m := new(dns.Msg)
		m.Id = uint16(rnd.Intn(65536))
		m.RecursionDesired = true
		m.Question = []dns.Question{{Name: name, Qtype: qt, Qclass: qc}}
		return m
	}
	pack := func(m *dns.Msg) []byte {
		b, err := m.Pack()
		if err != nil {
			panic(err)
		}
		return b
	}
	// every header bit of a valid query, one at a time and all together
	hb := pack(valid("Flags.example.", dns.TypeA, dns.ClassINET))
	for bit := 0; bit < 16; bit++ {
		b := append([]byte{}, hb...)
		b[2+bit/8] ^= 0x80 >> (bit % 8)
		add(fmt.Sprintf("flagbit-%d", bit), b)
	}
	for _, fl := range [][2]byte{{0xff, 0xff}, {0x7f, 0xff}, {0x07, 0xff}, {0x00, 0x00}, {0x01, 0x20}, {0x03, 0x10}} {
		b := append([]byte{}, hb...)
		b[2], b[3] = fl[0], fl[1]
		add("flags-all", b)
	}
	// every opcode
	for opc := 0; opc < 16; opc++ {
		b := append([]byte{}, hb...)
		b[2] = b[2]&0x87 | byte(opc<<3)
		add(fmt.Sprintf("opcode-%d", opc), b)
	}
	// qtypes x qclasses
	for _, qt := range c01Types {
		for j, qc := range c01Classes {
			if perClass < 10 && qt != 0 && qt != 255 && qt != 65535 && qc != 1 && j%3 != int(qt)%3 {
				continue
			}
			add("qtype-qclass", pack(valid(C01Name(rnd, 1), qt, qc)))
		}
	}
	// name shapes
	for kind := 0; kind < 8; kind++ {
		for i := 0; i < max(1, perClass/4); i++ {
			add(fmt.Sprintf("name-%d", kind), pack(valid(C01Name(rnd, kind), dns.TypeA, dns.ClassINET)))
		}
	}
	// EDNS variants
	for v := 0; v < 128; v++ {
		if perClass < 10 && v%9 != 0 && v != 127 && v != 64 {
			continue
		}
		m := valid(C01Name(rnd, 1), dns.TypeAAAA, dns.ClassINET)
		C01AddEDNS(rnd, m, v)
		add("edns", pack(m))
	}
	// header counts rewritten without touching the body
	body := pack(valid("Counts.example.", dns.TypeA, dns.ClassINET))
	for qd := 0; qd <= 2; qd++ {
		for an := 0; an <= 2; an++ {
			for ns := 0; ns <= 2; ns++ {
				for ar := 0; ar <= 1; ar++ {
					b := append([]byte{}, body...)
					b[5], b[7], b[9], b[11] = byte(qd), byte(an), byte(ns), byte(ar)
					add("counts-rewritten", b)
				}
			}
		}
	}
	// truncations and extensions of valid messages
	em := valid("Cut.Example.", dns.TypeTXT, dns.ClassINET)
	C01AddEDNS(rnd, em, 2+8)
	eb := pack(em)
	for n := 0; n <= len(eb); n++ {
		if perClass < 10 && n > 14 && n%5 != 0 && n != len(eb)-1 {
			continue
		}
		add("truncated", eb[:n])
	}
	add("trailing-garbage", append(append([]byte{}, eb...), 0xde, 0xad, 0xbe, 0xef))
	add("compression-loop", append(append([]byte{}, hb[:12]...), 0xc0, 0x0c, 0, 1, 0, 1))
	add("pointer-forward", append(append([]byte{}, hb[:12]...), 0xc0, 0xff, 0, 1, 0, 1))
	add("label-too-long", append(append(append([]byte{}, hb[:12]...), 0x40), bytes.Repeat([]byte{'a'}, 70)...))
	// bit flips of a valid message
	for i := 0; i < 4*perClass; i++ {
		b := append([]byte{}, eb...)
		for j := 0; j <= rnd.Intn(3); j++ {
			b[rnd.Intn(len(b))] ^= 1 << rnd.Intn(8)
		}
		add("bitflip", b)
	}
	// arbitrary byte strings
	for i := 0; i < nRandom; i++ {
		var n int
		switch rnd.Intn(4) {
		case 0:
			n = rnd.Intn(13)
		case 1:
			n = 12 + rnd.Intn(20)
		case 2:
			n = rnd.Intn(80)
		default:
			n = rnd.Intn(500)
		}
		b := make([]byte, n)
		rnd.Read(b)
		if n >= 12 && rnd.Intn(2) == 0 { // a plausible header in front of noise
			b[2], b[3] = byte(rnd.Intn(2)), 0
			b[4], b[5], b[6], b[7], b[8], b[9], b[10], b[11] = 0, byte(rnd.Intn(3)), 0, byte(rnd.Intn(2)), 0, byte(rnd.Intn(2)), 0, byte(rnd.Intn(2))
		}
		add("random", b)
	}
	return ins
}

// C01JSONQuery renders the JSON API query string of a question.
func C01JSONQuery(q dns.Question, do, cd bool, numeric bool) string {
	v := url.Values{}
	v.Set("name", q.Name)
	if ts, ok := dns.TypeToString[q.Qtype]; ok && !numeric && q.Qtype != 0 && ts == strings.ToUpper(ts) {
		v.Set("type", strings.ToLower(ts))
	} else {
		v.Set("type", fmt.Sprint(q.Qtype))
	}
	if q.Qclass != dns.ClassINET || numeric {
		v.Set("qc", fmt.Sprint(q.Qclass))
	}
	if do {
		v.Set("do", "1")
	}
	if cd {
		v.Set("cd", "true")
	}
	return v.Encode()
}

// C01BadJSONQueries are requests the JSON API documents as invalid.
var C01BadJSONQueries = []string{
	"", "type=a", "name=", "name=example.org&type=nosuchtype", "name=example.org&type=65536", "name=example.org&type=-1",
	"name=example.org&qc=70000", "name=example.org&qc=nope", "name=example.org&cd=2", "name=example.org&do=yes",
	"name=example.org&sde=x", "name=" + strings.Repeat("a", 64) + ".org", "name=" + strings.Repeat("abcdefgh.", 40) + "org",
	"name=a..b",
}

// C01BadGetQueries are DoH GET requests without a usable dns parameter.
var C01BadGetQueries = []string{"", "dns=", "dns=%21%21%21", "dns=AAAA&dns=AAAA", "DNS=AAAA", "dns=AAA=", "dns=A", "dns=+/+/"}

// ---------------------------------------------------------------- the test

type c01Agg struct {
	ev *C01Event
}

func c01Sig(ev *C01Event) string {
	return fmt.Sprint(ev.T, ev.Wire, ev.QR, ev.Op, ev.QD, ev.AN, ev.NS, ev.H, ev.Kind, ev.N, ev.Called, ev.Rcode, ev.IDOK, ev.QOK,
		ev.TC, ev.HWrote, ev.RcEq, ev.AnsEq, ev.NsEq, ev.ExtEq, ev.Probe, ev.Gen)
}

func TestVerifC01Pkg(t *testing.T) {
	out := vhOpen(t)
	log.SetOutput(io.Discard) // recovered panics are logged with their stacks
	rnd := rand.New(rand.NewSource(vhSeed()))
	perClass := vhEnvInt("VERIF_PER_CLASS", 2)
	nRandom := vhEnvInt("VERIF_RANDOM", 400)
	h := &C01Handler{}
	lanes := c01Lanes(h)
	probeName := "probe.c01.example."

	agg := map[string]*c01Agg{}
	var order []string
	emit := func(ev *C01Event) {
		s := c01Sig(ev)
		if a, ok := agg[s]; ok {
			a.ev.Cnt++
			if len(a.ev.More) < 2 {
				a.ev.More = append(a.ev.More, ev.Hex)
			}
			return
		}
		ev.Cnt, ev.More, ev.Items = 1, []string{}, []C01Item{}
		agg[s] = &c01Agg{ev: ev}
		order = append(order, s)
	}

	// probe runs a valid query through the lane; ok iff it is answered with the handler's answer
	probe := func(l c01Lane) string {
		q := dns.Question{Name: probeName, Qtype: dns.TypeA, Qclass: dns.ClassINET}
		m := new(dns.Msg)
		m.Id, m.RecursionDesired, m.Question = uint16(rnd.Intn(65536)), true, []dns.Question{q}
		b, _ := m.Pack()
		o := l.run(c01Input{payload: b, raw: c01If(l.name == "doh-json", C01JSONQuery(q, false, false, false), "")})
		_, _, hresp := h.Take()
		pe := &C01Event{H: "writes"}
		if l.name == "doh-json" {
			if o.jsonBody == nil {
				return "fail"
			}
			jm, ans, _, err := C01JSONToMsg(o.jsonBody, 0, q.Qclass)
			if err != nil || hresp == nil || jm.Rcode != hresp.Rcode || ans != C01CoreOf(hresp).Ans {
				return "fail"
			}
			return "ok"
		}
		C01Observe(pe, m.Id, m.Question, o.replies, hresp)
		if o.loopDown || pe.N != 1 || !pe.IDOK || !pe.QOK || !pe.HWrote || !pe.RcEq || !pe.AnsEq {
			return "fail"
		}
		return "ok"
	}

	finish := func(l c01Lane, ev *C01Event, o c01Obs) {
		ev.Kind, ev.Status, ev.Note = o.kind, o.status, o.note
		if ev.N > 0 {
			ev.Kind = "resp"
		}
		ev.Probe = "na"
		if ev.H != "writes" || ev.Kind != "resp" || o.loopDown {
			ev.Probe = probe(l)
		}
		if o.loopDown {
			ev.Probe = "fail"
		}
		emit(ev)
	}

	ins := c01Inputs(rnd, perClass, nRandom)
	for _, in := range ins {
		for _, l := range lanes {
			if l.name == "doh-json" {
				continue
			}
			ev := &C01Event{Ev: "In", Src: "pkg", T: l.name, Gen: in.gen, Hex: hex.EncodeToString(in.payload)}
			req := C01Classify(ev, in.payload)
			h.Take()
			o := l.run(in)
			if o.kind == "skip" {
				continue
			}
			calls, _, hresp := h.Take()
			ev.Called = calls
			var id uint16
			if len(in.payload) >= 2 {
				id = binary.BigEndian.Uint16(in.payload)
			}
			var rq []dns.Question
			if req != nil {
				rq = req.Question
			}
			C01Observe(ev, id, rq, o.replies, hresp)
			finish(l, ev, o)
		}
	}

	// DoH GET requests without a usable dns parameter
	for _, l := range lanes {
		if l.name != "doh-get" {
			continue
		}
		for _, raw := range C01BadGetQueries {
			ev := &C01Event{Ev: "In", Src: "pkg", T: l.name, Gen: "get-bad-parameter", Hex: raw, Wire: "undec", Op: "QUERY", H: "-"}
			h.Take()
			o := l.run(c01Input{raw: raw + "&x=1"})
			ev.Called, _, _ = h.Take()
			C01Observe(ev, 0, nil, o.replies, nil)
			finish(l, ev, o)
		}
	}

	// the JSON API: synthesised queries
	for _, l := range lanes {
		if l.name != "doh-json" {
			continue
		}
		jsonCase := func(gen, raw string, q *dns.Question) {
			ev := &C01Event{Ev: "In", Src: "pkg", T: l.name, Gen: gen, Hex: raw, Wire: "undec", Op: "QUERY", H: "-"}
			if q != nil {
				ev.Wire, ev.QD, ev.H = "dec", 1, C01Mode(q.Name)
			}
			h.Take()
			o := l.run(c01Input{raw: raw})
			calls, hreq, hresp := h.Take()
			ev.Called = calls
			if o.jsonBody != nil && q != nil {
				// the synthesised query as the handler saw it must be the requested one
				jm, ans, extra, err := C01JSONToMsg(o.jsonBody, 0, q.Qclass)
				if err != nil {
					ev.Kind, ev.Note = "badjson", err.Error()
				} else {
					b, _ := jm.Pack()
					C01Observe(ev, 0, []dns.Question{*q}, [][]byte{b}, nil)
					ev.HWrote = hresp != nil
					if hresp != nil {
						hc := C01CoreOf(hresp)
						ev.RcEq, ev.AnsEq, ev.NsEq, ev.ExtEq = C01RcodeName(jm.Rcode) == hc.Rcode, ans == hc.Ans, true, extra == hc.Extra
					}
					if hreq == nil || len(hreq.Question) != 1 || hreq.Question[0] != *q {
						ev.QOK = false
						ev.Detail += fmt.Sprintf("handler saw %v, requested %v; ", hreq, *q)
					}
				}
			} else {
				C01Observe(ev, 0, nil, nil, hresp)
				if o.jsonBody != nil {
					ev.N, ev.QOK = 1, false // a JSON answer to an invalid request
				}
			}
			finish(l, ev, o)
		}
		for _, raw := range C01BadJSONQueries {
			jsonCase("json-bad-parameter", raw, nil)
		}
		n := 0
		for _, in := range ins {
			m := new(dns.Msg)
			if m.Unpack(in.payload) != nil || len(m.Question) != 1 || m.Response || m.Opcode != dns.OpcodeQuery || len(m.Answer)+len(m.Ns) > 0 {
				continue
			}
			q := m.Question[0]
			if cn, ok := C01Canon(q.Name); !ok || cn != q.Name || len(q.Name) > 254 {
				continue
			}
			o := m.IsEdns0()
			n++
			jsonCase("json-"+in.gen, C01JSONQuery(q, o != nil && o.Do(), m.CheckingDisabled, n%2 == 0), &q)
		}
	}

	for _, s := range order {
		out.Emit(agg[s].ev)
	}
}

func c01If(c bool, a, b string) string {
	if c {
		return a
	}
	return b
}

var _ = sort.Strings
