//go:build verif

package dnsserver_test

// EXT5 (extension check): server life cycle.  Every world is one REAL server
// of one transport on 127.0.0.1:0 with a gate handler.  The harness parks k
// requests inside the handler, calls Shutdown(ctx) in a goroutine and
//
//	(A) releases the handlers before the deadline of ctx,
//	(B) releases them only after Shutdown has returned (or hangs past the deadline),
//	(C) has no request in flight (C0: no traffic at all since Start),
//	(R) fires unparked queries at the moment Shutdown is called,
//
// then sends a late query to the old address, and makes the misuse calls
// (Shutdown before Start, Start twice, Shutdown twice, Start after Shutdown).
// One event per action of specs/Lifecycle.tla is appended under the world's
// mutex at the linearization point (handler entry / exit, return of a call);
// TraceLifecycle.tla decides.  Nothing is asserted here.
//
// External test package: only the exported API and dnsservertest are used.

import (
	"bytes"
	"context"
	"crypto/ed25519"
	"crypto/tls"
	"encoding/binary"
	"errors"
	"fmt"
	"io"
	"math/rand"
	"net"
	"net/http"
	"os"
	"sort"
	"strings"
	"sync"
	"testing"
	"time"

	"github.com/AdguardTeam/AdGuardDNS/internal/dnsserver"
	"github.com/AdguardTeam/AdGuardDNS/internal/dnsserver/dnsservertest"
	"github.com/ameshkov/dnscrypt/v2"
	"github.com/ameshkov/dnsstamps"
	"github.com/miekg/dns"
	"github.com/quic-go/quic-go"
	"github.com/quic-go/quic-go/http3"
	"golang.org/x/net/http2"
)

const (
	ext5Suffix    = ".ext5.example."
	ext5ProbeName = "probe" + ext5Suffix
	// ext5Grace is how long after the deadline of its context a Shutdown call
	// may take to return before the harness reports it as overdue.
	ext5Grace = 3 * time.Second
	// ext5Short bounds the exchange of a query that must not be served.
	ext5Short = 300 * time.Millisecond
)

// ---------------------------------------------------------------- world / gate

type ext5Result struct {
	answered bool
	note     string
	phase    string
}

type ext5World struct {
	mu       sync.Mutex
	ev       []map[string]any
	running  int
	maxRun   int
	handled  int // handler invocations for recorded queries
	probes   int // handler invocations for probe names (restart observation)
	park     map[int]bool
	release  map[int]chan struct{}
	entered  chan int
	results  map[int]ext5Result
	jitter   map[int]time.Duration
	deadline bool
	returned bool
}

func newExt5World() *ext5World {
	return &ext5World{park: map[int]bool{}, release: map[int]chan struct{}{}, entered: make(chan int, 64),
		results: map[int]ext5Result{}, jitter: map[int]time.Duration{}}
}

// emit appends an event; w.mu must be held.
func (w *ext5World) emit(m map[string]any) { w.ev = append(w.ev, m) }

func (w *ext5World) emitL(m map[string]any) {
	w.mu.Lock()
	defer w.mu.Unlock()
	w.emit(m)
}

// ServeDNS is the gate handler.
func (w *ext5World) ServeDNS(ctx context.Context, rw dnsserver.ResponseWriter, req *dns.Msg) (err error) {
	name := ""
	if len(req.Question) == 1 {
		name = req.Question[0].Name
	}
	var q int
	if n, _ := fmt.Sscanf(name, "q%d.", &q); n != 1 || !strings.HasSuffix(name, ext5Suffix) {
		// probe of a restarted server: answered at once, only counted
		w.mu.Lock()
		w.probes++
		w.mu.Unlock()
		return rw.WriteMsg(ctx, req, new(dns.Msg).SetReply(req))
	}
	ch := make(chan struct{})
	w.mu.Lock()
	w.handled++
	w.running++
	if w.running > w.maxRun {
		w.maxRun = w.running
	}
	park := w.park[q]
	jit := w.jitter[q]
	w.release[q] = ch
	w.emit(map[string]any{"ev": "Enter", "q": q})
	w.mu.Unlock()
	select {
	case w.entered <- q:
	default:
	}
	if park {
		<-ch
	} else if jit > 0 {
		time.Sleep(jit)
	}
	werr := rw.WriteMsg(ctx, req, new(dns.Msg).SetReply(req))
	w.mu.Lock()
	w.running--
	es := ""
	if werr != nil {
		es = ext5Trim(werr.Error())
	}
	w.emit(map[string]any{"ev": "Exit", "q": q, "wrote": werr == nil, "werr": es})
	w.mu.Unlock()
	return nil
}

func ext5Trim(s string) string {
	if len(s) > 160 {
		s = s[:160]
	}
	return s
}

func ext5Class(err error) string {
	switch {
	case err == nil:
		return "nil"
	case errors.Is(err, dnsserver.ErrServerNotStarted):
		return "notstarted"
	case errors.Is(err, dnsserver.ErrServerAlreadyStarted):
		return "already"
	case errors.Is(err, context.DeadlineExceeded), errors.Is(err, context.Canceled):
		return "ctx"
	case strings.Contains(err.Error(), "address already in use"):
		return "listenerr"
	}
	return "other"
}

// ext5Bounded runs a call that has to return at once (a misuse call, a call
// with a short context); hung reports that it had not returned after bound.
func ext5Bounded(bound time.Duration, f func() error) (err error, hung bool) {
	ch := make(chan error, 1)
	go func() { ch <- f() }()
	select {
	case err = <-ch:
		return err, false
	case <-time.After(bound):
		return nil, true
	}
}

// ext5SyncShutdown is a Shutdown call on a server that is not started: it has
// to return at once.
func ext5SyncShutdown(srv dnsserver.Server, st string) map[string]any {
	c, cancel := context.WithTimeout(context.Background(), time.Second)
	defer cancel()
	err, hung := ext5Bounded(ext5Grace+time.Second, func() error { return srv.Shutdown(c) })
	res := ext5Class(err)
	if hung {
		res = "hang"
	}
	return map[string]any{"ev": "ShutdownSync", "res": res, "err": ext5Err(err), "st": st}
}

func ext5Err(err error) string {
	if err == nil {
		return ""
	}
	return ext5Trim(err.Error())
}

func ext5Msg(q int) *dns.Msg {
	m := new(dns.Msg).SetQuestion(fmt.Sprintf("q%d%s", q, ext5Suffix), dns.TypeA)
	m.Id = uint16(4000 + q)
	return m
}

// ---------------------------------------------------------------- clients

// ext5Client talks to one started server.  Query blocks until the answer has
// arrived or ctx is done.  With fresh the query travels over a new socket /
// connection / session, otherwise over the lane's shared one.
type ext5Client interface {
	Query(ctx context.Context, m *dns.Msg, fresh bool) (answered bool, note string)
	Close()
}

// ext5Abort makes a blocked read or write on c return once ctx is done.
func ext5Abort(ctx context.Context, c interface{ SetDeadline(time.Time) error }) (stop func()) {
	done := make(chan struct{})
	go func() {
		select {
		case <-ctx.Done():
			_ = c.SetDeadline(time.Unix(1, 0))
		case <-done:
		}
	}()
	return func() { close(done) }
}

func ext5Note(err error) string {
	if err == nil {
		return ""
	}
	s := err.Error()
	switch {
	case strings.Contains(s, "refused"):
		return "refused"
	case strings.Contains(s, "timeout"), strings.Contains(s, "deadline"), strings.Contains(s, "canceled"):
		return "timeout"
	case errors.Is(err, io.EOF), strings.Contains(s, "EOF"), strings.Contains(s, "reset"), strings.Contains(s, "closed"):
		return "closed"
	}
	return "err:" + ext5Trim(s)
}

// --- plain UDP

type ext5UDP struct{ addr string }

func (c *ext5UDP) Close() {}

func (c *ext5UDP) Query(ctx context.Context, m *dns.Msg, _ bool) (bool, string) {
	conn, err := net.Dial("udp", c.addr)
	if err != nil {
		return false, ext5Note(err)
	}
	defer conn.Close()
	defer ext5Abort(ctx, conn)()
	b, _ := m.Pack()
	if _, err = conn.Write(b); err != nil {
		return false, ext5Note(err)
	}
	buf := make([]byte, 4096)
	for {
		n, rerr := conn.Read(buf)
		if rerr != nil {
			return false, ext5Note(rerr)
		}
		r := new(dns.Msg)
		if r.Unpack(buf[:n]) == nil && r.Id == m.Id && r.Response {
			return true, ""
		}
	}
}

// --- TCP / DoT (one connection per query, or one shared pipelined connection)

type ext5Stream struct {
	addr    string
	tlsConf *tls.Config
	pipe    bool

	mu      sync.Mutex
	shared  net.Conn
	waiters map[uint16]chan struct{}
	dead    chan struct{}
}

func (c *ext5Stream) dial() (net.Conn, error) {
	d := &net.Dialer{Timeout: 2 * time.Second}
	if c.tlsConf != nil {
		return tls.DialWithDialer(d, "tcp", c.addr, c.tlsConf.Clone())
	}
	return d.Dial("tcp", c.addr)
}

func ext5Frame(m *dns.Msg) []byte {
	b, _ := m.Pack()
	return append(binary.BigEndian.AppendUint16(nil, uint16(len(b))), b...)
}

func ext5ReadFrame(conn io.Reader) (*dns.Msg, error) {
	var l uint16
	if err := binary.Read(conn, binary.BigEndian, &l); err != nil {
		return nil, err
	}
	buf := make([]byte, l)
	if _, err := io.ReadFull(conn, buf); err != nil {
		return nil, err
	}
	r := new(dns.Msg)
	if err := r.Unpack(buf); err != nil {
		return nil, err
	}
	return r, nil
}

func (c *ext5Stream) Close() {
	c.mu.Lock()
	defer c.mu.Unlock()
	if c.shared != nil {
		_ = c.shared.Close()
	}
}

func (c *ext5Stream) Query(ctx context.Context, m *dns.Msg, fresh bool) (bool, string) {
	if c.pipe && !fresh {
		return c.queryShared(ctx, m)
	}
	conn, err := c.dial()
	if err != nil {
		return false, ext5Note(err)
	}
	defer conn.Close()
	defer ext5Abort(ctx, conn)()
	if _, err = conn.Write(ext5Frame(m)); err != nil {
		return false, ext5Note(err)
	}
	for {
		r, rerr := ext5ReadFrame(conn)
		if rerr != nil {
			return false, ext5Note(rerr)
		}
		if r.Id == m.Id && r.Response {
			return true, ""
		}
	}
}

func (c *ext5Stream) queryShared(ctx context.Context, m *dns.Msg) (bool, string) {
	c.mu.Lock()
	if c.shared == nil {
		conn, err := c.dial()
		if err != nil {
			c.mu.Unlock()
			return false, ext5Note(err)
		}
		c.shared, c.waiters, c.dead = conn, map[uint16]chan struct{}{}, make(chan struct{})
		go func() {
			defer close(c.dead)
			for {
				r, err := ext5ReadFrame(conn)
				if err != nil {
					return
				}
				c.mu.Lock()
				if ch := c.waiters[r.Id]; ch != nil && r.Response {
					close(ch)
					delete(c.waiters, r.Id)
				}
				c.mu.Unlock()
			}
		}()
	}
	ch := make(chan struct{})
	c.waiters[m.Id] = ch
	_, err := c.shared.Write(ext5Frame(m))
	dead := c.dead
	c.mu.Unlock()
	if err != nil {
		return false, ext5Note(err)
	}
	select {
	case <-ch:
		return true, ""
	case <-dead:
		select {
		case <-ch:
			return true, ""
		default:
		}
		return false, "closed"
	case <-ctx.Done():
		return false, "timeout"
	}
}

// --- DoH over HTTP/2 and HTTP/3

type ext5HTTP struct {
	mk func() (*http.Client, func())
	// mkFresh, if set, makes the clients of fresh queries (doh-mixed: parked
	// requests over HTTP/2, new ones over HTTP/3)
	mkFresh func() (*http.Client, func())
	shared  *http.Client
	closeF  func()
	mu      sync.Mutex
}

func (c *ext5HTTP) Close() {
	c.mu.Lock()
	defer c.mu.Unlock()
	if c.closeF != nil {
		c.closeF()
	}
}

func (c *ext5HTTP) Query(ctx context.Context, m *dns.Msg, fresh bool) (bool, string) {
	var cl *http.Client
	if fresh {
		var cf func()
		if c.mkFresh != nil {
			cl, cf = c.mkFresh()
		} else {
			cl, cf = c.mk()
		}
		defer cf()
	} else {
		c.mu.Lock()
		if c.shared == nil {
			c.shared, c.closeF = c.mk()
		}
		cl = c.shared
		c.mu.Unlock()
	}
	b, _ := m.Pack()
	req, err := http.NewRequestWithContext(ctx, http.MethodPost, "https://example.org"+dnsserver.PathDoH, bytes.NewReader(b))
	if err != nil {
		return false, ext5Note(err)
	}
	req.Header.Set("Content-Type", dnsserver.MimeTypeDoH)
	req.Header.Set("Accept", dnsserver.MimeTypeDoH)
	resp, err := cl.Do(req)
	if err != nil {
		return false, ext5Note(err)
	}
	defer resp.Body.Close()
	body, err := io.ReadAll(resp.Body)
	if err != nil {
		return false, ext5Note(err)
	}
	r := new(dns.Msg)
	if resp.StatusCode == http.StatusOK && r.Unpack(body) == nil && r.Id == m.Id && r.Response {
		return true, ""
	}
	return false, fmt.Sprintf("status:%d", resp.StatusCode)
}

func ext5H2Client(addr string, tlsConf *tls.Config) *ext5HTTP {
	return &ext5HTTP{mk: func() (*http.Client, func()) {
		ctls := tlsConf.Clone()
		ctls.NextProtos = []string{"h2", "http/1.1"}
		tr := &http.Transport{
			TLSClientConfig: ctls, DisableCompression: true, ForceAttemptHTTP2: true,
			DialContext: func(ctx context.Context, network, _ string) (net.Conn, error) {
				return (&net.Dialer{Timeout: 2 * time.Second}).DialContext(ctx, network, addr)
			},
		}
		_ = http2.ConfigureTransport(tr)
		return &http.Client{Transport: tr}, tr.CloseIdleConnections
	}}
}

func ext5H3Client(addr string, tlsConf *tls.Config) *ext5HTTP {
	return &ext5HTTP{mk: func() (*http.Client, func()) {
		ctls := tlsConf.Clone()
		ctls.NextProtos = []string{http3.NextProtoH3}
		tr := &http3.Transport{
			DisableCompression: true,
			TLSClientConfig:    ctls,
			QUICConfig:         &quic.Config{HandshakeIdleTimeout: 2 * time.Second},
			Dial: func(ctx context.Context, _ string, tc *tls.Config, qc *quic.Config) (quic.EarlyConnection, error) {
				return quic.DialAddrEarly(ctx, addr, tc, qc)
			},
		}
		return &http.Client{Transport: tr}, func() { _ = tr.Close() }
	}}
}

// --- DoQ

type ext5DoQ struct {
	addr    string
	tlsConf *tls.Config
	mu      sync.Mutex
	shared  quic.Connection
}

func (c *ext5DoQ) Close() {
	c.mu.Lock()
	defer c.mu.Unlock()
	if c.shared != nil {
		_ = c.shared.CloseWithError(0, "")
	}
}

func (c *ext5DoQ) dial(ctx context.Context) (quic.Connection, error) {
	cc := c.tlsConf.Clone()
	cc.NextProtos = dnsserver.NextProtoDoQ
	dctx, cancel := context.WithTimeout(ctx, 2*time.Second)
	defer cancel()
	return quic.DialAddr(dctx, c.addr, cc, &quic.Config{HandshakeIdleTimeout: 2 * time.Second})
}

func (c *ext5DoQ) Query(ctx context.Context, m *dns.Msg, fresh bool) (bool, string) {
	var conn quic.Connection
	var err error
	if fresh {
		if conn, err = c.dial(ctx); err != nil {
			return false, ext5Note(err)
		}
		defer func() { _ = conn.CloseWithError(0, "") }()
	} else {
		c.mu.Lock()
		if c.shared == nil {
			if c.shared, err = c.dial(ctx); err != nil {
				c.shared = nil
				c.mu.Unlock()
				return false, ext5Note(err)
			}
		}
		conn = c.shared
		c.mu.Unlock()
	}
	stream, err := conn.OpenStreamSync(ctx)
	if err != nil {
		return false, ext5Note(err)
	}
	mm := m.Copy()
	mm.Id = 0 // RFC 9250
	if _, err = stream.Write(ext5Frame(mm)); err != nil {
		return false, ext5Note(err)
	}
	_ = stream.Close()
	defer ext5Abort(ctx, stream)()
	r, err := ext5ReadFrame(stream)
	if err != nil {
		return false, ext5Note(err)
	}
	if r.Response && len(r.Question) == 1 && r.Question[0].Name == m.Question[0].Name {
		return true, ""
	}
	return false, "err:unexpected reply"
}

// --- DNSCrypt

type ext5DNSCrypt struct {
	network string
	addr    string
	ri      *dnscrypt.ResolverInfo
}

func (c *ext5DNSCrypt) Close() {}

func (c *ext5DNSCrypt) Query(ctx context.Context, m *dns.Msg, _ bool) (bool, string) {
	conn, err := (&net.Dialer{Timeout: 2 * time.Second}).Dial(c.network, c.addr)
	if err != nil {
		return false, ext5Note(err)
	}
	defer conn.Close()
	defer ext5Abort(ctx, conn)()
	cl := &dnscrypt.Client{Net: c.network}
	r, err := cl.ExchangeConn(conn, m, c.ri)
	if err != nil {
		return false, ext5Note(err)
	}
	if r.Id == m.Id && r.Response {
		return true, ""
	}
	return false, "err:unexpected reply"
}

// ---------------------------------------------------------------- lanes

type ext5Lane struct {
	name    string
	witness string // network of the begin witness: "tcp" or "udp"
	// quic: the UDP socket is handed to a quic.Transport, which does not close
	// a socket it has not created: no refusal is expected there, so a server
	// without a TCP listener (DoQ) falls back to a time bound earlier.
	quic   bool
	mk     func(h dnsserver.Handler) dnsserver.Server
	client func(srv dnsserver.Server) (ext5Client, error)
}

func ext5Lanes(tlsConf *tls.Config) []ext5Lane {
	dnsConf := func(h dnsserver.Handler, name string) dnsserver.ConfigDNS {
		return dnsserver.ConfigDNS{
			ConfigBase:  dnsserver.ConfigBase{Name: "ext5-" + name, Addr: "127.0.0.1:0", Handler: h},
			ReadTimeout: 2 * time.Second, TCPIdleTimeout: 2 * time.Second,
		}
	}
	mkDNS := func(h dnsserver.Handler) dnsserver.Server { return dnsserver.NewServerDNS(dnsConf(h, "dns")) }
	mkTLS := func(h dnsserver.Handler) dnsserver.Server {
		return dnsserver.NewServerTLS(dnsserver.ConfigTLS{ConfigDNS: dnsConf(h, "dot"), TLSConfig: tlsConf.Clone()})
	}
	mkHTTPS := func(h dnsserver.Handler) dnsserver.Server {
		t2, t3 := tlsConf.Clone(), tlsConf.Clone()
		t2.NextProtos, t3.NextProtos = dnsserver.NextProtoDoH, dnsserver.NextProtoDoH3
		return dnsserver.NewServerHTTPS(dnsserver.ConfigHTTPS{
			ConfigBase:     dnsserver.ConfigBase{Name: "ext5-doh", Addr: "127.0.0.1:0", Handler: h, Network: dnsserver.NetworkAny},
			TLSConfDefault: t2, TLSConfH3: t3,
		})
	}
	mkQUIC := func(h dnsserver.Handler) dnsserver.Server {
		tq := tlsConf.Clone()
		tq.NextProtos = dnsserver.NextProtoDoQ
		return dnsserver.NewServerQUIC(dnsserver.ConfigQUIC{
			TLSConfig:  tq,
			ConfigBase: dnsserver.ConfigBase{Name: "ext5-doq", Addr: "127.0.0.1:0", Handler: h},
		})
	}
	// DNSCrypt: provider keys are made once per lane list
	const provider = "2.dnscrypt-cert.ext5.example"
	rc, err := dnscrypt.GenerateResolverConfig(provider, nil)
	if err != nil {
		panic(err)
	}
	cert, err := rc.CreateCert()
	if err != nil {
		panic(err)
	}
	sk, err := dnscrypt.HexDecodeKey(rc.PrivateKey)
	if err != nil {
		panic(err)
	}
	pk := ed25519.PrivateKey(sk).Public().(ed25519.PublicKey)
	mkDC := func(h dnsserver.Handler) dnsserver.Server {
		return dnsserver.NewServerDNSCrypt(dnsserver.ConfigDNSCrypt{
			ConfigBase:           dnsserver.ConfigBase{Name: "ext5-dnscrypt", Addr: "127.0.0.1:0", Handler: h},
			DNSCryptProviderName: provider, DNSCryptResolverCert: cert,
		})
	}
	dcClient := func(network string) func(srv dnsserver.Server) (ext5Client, error) {
		return func(srv dnsserver.Server) (ext5Client, error) {
			addr := srv.LocalUDPAddr().String()
			if network == "tcp" {
				addr = srv.LocalTCPAddr().String()
			}
			cl := &dnscrypt.Client{Net: network, Timeout: 2 * time.Second}
			ri, derr := cl.DialStamp(dnsstamps.ServerStamp{ServerAddrStr: addr, ServerPk: pk, ProviderName: provider,
				Proto: dnsstamps.StampProtoTypeDNSCrypt})
			if derr != nil {
				return nil, derr
			}
			return &ext5DNSCrypt{network: network, addr: addr, ri: ri}, nil
		}
	}
	stream := func(useTLS, pipe bool) func(srv dnsserver.Server) (ext5Client, error) {
		return func(srv dnsserver.Server) (ext5Client, error) {
			c := &ext5Stream{addr: srv.LocalTCPAddr().String(), pipe: pipe}
			if useTLS {
				c.tlsConf = tlsConf
			}
			return c, nil
		}
	}
	return []ext5Lane{
		{"udp", "udp", false, mkDNS, func(srv dnsserver.Server) (ext5Client, error) {
			return &ext5UDP{addr: srv.LocalUDPAddr().String()}, nil
		}},
		{"tcp", "tcp", false, mkDNS, stream(false, false)},
		{"tcp-pipe", "tcp", false, mkDNS, stream(false, true)},
		{"dot", "tcp", false, mkTLS, stream(true, false)},
		{"dot-pipe", "tcp", false, mkTLS, stream(true, true)},
		{"doh-h2", "tcp", false, mkHTTPS, func(srv dnsserver.Server) (ext5Client, error) {
			return ext5H2Client(srv.LocalTCPAddr().String(), tlsConf), nil
		}},
		{"doh-h3", "udp", true, mkHTTPS, func(srv dnsserver.Server) (ext5Client, error) {
			return ext5H3Client(srv.LocalUDPAddr().String(), tlsConf), nil
		}},
		{"doh-mixed", "tcp", false, mkHTTPS, func(srv dnsserver.Server) (ext5Client, error) {
			c := ext5H2Client(srv.LocalTCPAddr().String(), tlsConf)
			c.mkFresh = ext5H3Client(srv.LocalUDPAddr().String(), tlsConf).mk
			return c, nil
		}},
		{"doq", "udp", true, mkQUIC, func(srv dnsserver.Server) (ext5Client, error) {
			return &ext5DoQ{addr: srv.LocalUDPAddr().String(), tlsConf: tlsConf}, nil
		}},
		{"dnscrypt-udp", "udp", false, mkDC, dcClient("udp")},
		{"dnscrypt-tcp", "tcp", false, mkDC, dcClient("tcp")},
	}
}

// ext5Witness polls the old address until the kernel reports that nothing
// listens there any more (connection refused), which proves that the
// listeners have been closed, i.e. that ShutdownBegin has happened.
func ext5Witness(network, addr string, bound time.Duration) (kind string, ms int64) {
	t0 := time.Now()
	for time.Since(t0) < bound {
		if network == "tcp" {
			c, err := net.DialTimeout("tcp", addr, 300*time.Millisecond)
			if err != nil {
				if strings.Contains(err.Error(), "refused") {
					return "refused", time.Since(t0).Milliseconds()
				}
			} else {
				_ = c.Close()
			}
		} else {
			c, err := net.Dial("udp", addr)
			if err == nil {
				refused := false
				for i := 0; i < 3 && !refused; i++ {
					_, werr := c.Write([]byte{0})
					_ = c.SetReadDeadline(time.Now().Add(3 * time.Millisecond))
					_, rerr := c.Read(make([]byte, 16))
					refused = (werr != nil && strings.Contains(werr.Error(), "refused")) ||
						(rerr != nil && strings.Contains(rerr.Error(), "refused"))
				}
				_ = c.Close()
				if refused {
					return "refused", time.Since(t0).Milliseconds()
				}
			}
		}
		time.Sleep(2 * time.Millisecond)
	}
	return "timeout", time.Since(t0).Milliseconds()
}

// ext5PortFree reports whether the old address can be bound again (without
// SO_REUSEPORT), i.e. whether the server's socket is gone.  Observation only.
func ext5PortFree(network, addr string) bool {
	for i := 0; i < 20; i++ {
		if network == "tcp" {
			if l, err := net.Listen("tcp", addr); err == nil {
				_ = l.Close()
				return true
			}
		} else if c, err := net.ListenPacket("udp", addr); err == nil {
			_ = c.Close()
			return true
		}
		time.Sleep(5 * time.Millisecond)
	}
	return false
}

// ---------------------------------------------------------------- one world

type ext5Scen struct {
	kind    string        // "A", "B", "C", "C0", "R"
	k       int           // parked requests
	r       int           // racing unparked requests (R)
	d       time.Duration // deadline of the Shutdown context (0: none)
	restart bool
}

func ext5RunWorld(t *testing.T, lane ext5Lane, sc ext5Scen, rng *rand.Rand) (ev []map[string]any, ok bool) {
	w := newExt5World()
	bg := context.Background()
	// fail ends a world that cannot be driven as planned (a server that does
	// not serve, ...).  What has been recorded so far is still handed to TLC;
	// the check script turns an aborted world without a verdict into exit 2.
	fail := func(format string, a ...any) ([]map[string]any, bool) {
		why := fmt.Sprintf(format, a...)
		t.Logf("ext5 %s %s k=%d: aborted: %s", lane.name, sc.kind, sc.k, why)
		w.mu.Lock()
		defer w.mu.Unlock()
		w.emit(map[string]any{"ev": "Abort", "why": ext5Trim(why)})
		return append([]map[string]any{}, w.ev...), false
	}
	w.emitL(map[string]any{"ev": "Reset", "tr": lane.name, "scen": sc.kind, "k": sc.k, "r": sc.r,
		"d_ms": sc.d.Milliseconds()})

	srv := lane.mk(w)
	// misuse: Shutdown on a server that was never started
	w.emitL(ext5SyncShutdown(srv, "new"))
	started := false
	for i := 0; i < 8 && !started; i++ {
		err := srv.Start(bg)
		res := ext5Class(err)
		if res == "nil" {
			res = "ok"
		}
		w.emitL(map[string]any{"ev": "Start", "res": res, "err": ext5Err(err)})
		switch res {
		case "ok":
			started = true
		case "listenerr":
			// lost the race for a UDP+TCP port pair: a new server object, as a caller would
			srv = lane.mk(w)
		default:
			return fail("Start: %v", err)
		}
	}
	if !started {
		return fail("no free port pair")
	}
	// whatever happens below, stop the server and free the handlers
	defer func() {
		w.mu.Lock()
		for q, ch := range w.release {
			if w.park[q] {
				w.park[q] = false
				close(ch)
			}
		}
		w.mu.Unlock()
		c, cancel := context.WithTimeout(bg, 500*time.Millisecond)
		defer cancel()
		_, _ = ext5Bounded(time.Second, func() error { return srv.Shutdown(c) })
	}()
	// misuse: Start on a started server
	{
		err := srv.Start(bg)
		res := ext5Class(err)
		if res == "nil" {
			res = "ok"
		}
		w.emitL(map[string]any{"ev": "Start", "res": res, "err": ext5Err(err)})
	}
	// the lane's own address (for the port observation) and the address whose
	// refusal of connections proves that shutdown() has closed the listeners:
	// the TCP listener wherever the server has one (it is closed in the same
	// critical section, and probing it does not wake up a UDP read loop)
	var laddr string
	if lane.witness == "tcp" {
		laddr = srv.LocalTCPAddr().String()
	} else {
		laddr = srv.LocalUDPAddr().String()
	}
	wnet, waddr := lane.witness, laddr
	if a := srv.LocalTCPAddr(); a != nil {
		wnet, waddr = "tcp", a.String()
	}

	var cl ext5Client
	var clients sync.WaitGroup
	cctx, ccancel := context.WithCancel(bg)
	defer ccancel()
	nextq := 0
	send := func(phase string, park, fresh bool, jitter, limit time.Duration) (q int, done chan struct{}) {
		nextq++
		q = nextq
		done = make(chan struct{})
		w.mu.Lock()
		w.park[q] = park
		w.jitter[q] = jitter
		w.emit(map[string]any{"ev": "Send", "q": q, "phase": phase})
		w.mu.Unlock()
		clients.Add(1)
		go func() {
			defer clients.Done()
			defer close(done)
			qctx, qcancel := context.WithTimeout(cctx, limit)
			defer qcancel()
			a, note := cl.Query(qctx, ext5Msg(q), fresh)
			w.mu.Lock()
			w.results[q] = ext5Result{answered: a, note: note, phase: phase}
			w.mu.Unlock()
		}()
		return q, done
	}

	if sc.kind != "C0" {
		var err error
		for i := 0; i < 3; i++ {
			// (the DNSCrypt client fetches the certificate here; a loaded machine may need a second try)
			if cl, err = lane.client(srv); err == nil {
				break
			}
		}
		if err != nil {
			return fail("client: %v", err)
		}
		defer cl.Close()
		// warm-up: an ordinary request that is served before anything else happens
		_, done := send("warm", false, false, 0, 3*time.Second)
		<-done
	}

	// park k requests
	parked := map[int]bool{}
	for i := 0; i < sc.k; i++ {
		q, _ := send("parked", true, false, 0, 20*time.Second)
		parked[q] = true
	}
	inside := map[int]bool{}
	to := time.After(10 * time.Second)
	for len(inside) < sc.k {
		select {
		case q := <-w.entered:
			if parked[q] {
				inside[q] = true
			}
		case <-to:
			return fail("only %d of %d requests reached the handler", len(inside), sc.k)
		}
	}

	// the Shutdown call
	sctx, scancel := bg, context.CancelFunc(func() {})
	kind := "nodeadline"
	if sc.d > 0 {
		sctx, scancel = context.WithTimeout(bg, sc.d)
		kind = "open"
	}
	defer scancel()
	ret := make(chan struct{})
	var racers []chan struct{}
	if sc.kind == "R" {
		// unparked queries that meet the Shutdown call
		for i := 0; i < sc.r; i++ {
			if rng.Intn(2) == 0 {
				time.Sleep(time.Duration(rng.Intn(300)) * time.Microsecond)
			}
			_, done := send("race", false, rng.Intn(2) == 0, time.Duration(rng.Intn(4000))*time.Microsecond, 600*time.Millisecond)
			racers = append(racers, done)
		}
	}
	w.emitL(map[string]any{"ev": "ShutdownCall", "ctx": kind})
	t0 := time.Now()
	go func() {
		err := srv.Shutdown(sctx)
		w.mu.Lock()
		if sctx.Err() != nil && !w.deadline {
			w.deadline = true
			w.emit(map[string]any{"ev": "Deadline"})
		}
		w.returned = true
		w.emit(map[string]any{"ev": "ShutdownRet", "res": ext5Class(err), "err": ext5Err(err),
			"ms": time.Since(t0).Milliseconds(), "running": w.running})
		w.mu.Unlock()
		close(ret)
	}()
	if sc.d > 0 {
		go func() {
			select {
			case <-sctx.Done():
				w.mu.Lock()
				if !w.deadline && !w.returned {
					w.deadline = true
					w.emit(map[string]any{"ev": "Deadline"})
				}
				w.mu.Unlock()
			case <-ret:
			}
		}()
	}
	if sc.kind == "R" {
		for i := 0; i < sc.r; i++ {
			_, done := send("race", false, rng.Intn(2) == 0, time.Duration(rng.Intn(4000))*time.Microsecond, 600*time.Millisecond)
			racers = append(racers, done)
			if rng.Intn(2) == 0 {
				time.Sleep(time.Duration(rng.Intn(200)) * time.Microsecond)
			}
		}
	}

	releaseAll := func() {
		qs := make([]int, 0, len(parked))
		for q := range parked {
			qs = append(qs, q)
		}
		sort.Ints(qs)
		rng.Shuffle(len(qs), func(i, j int) { qs[i], qs[j] = qs[j], qs[i] })
		for _, q := range qs {
			w.mu.Lock()
			ch := w.release[q]
			if w.park[q] {
				w.park[q] = false
				close(ch)
			}
			w.mu.Unlock()
			if rng.Intn(2) == 0 {
				time.Sleep(time.Duration(rng.Intn(3000)) * time.Microsecond)
			}
		}
	}

	if sc.k > 0 {
		// the listeners are closed: ShutdownBegin has happened
		bound := 2 * time.Second
		if lane.quic && wnet == "udp" {
			bound = 500 * time.Millisecond
		}
		wk, wms := ext5Witness(wnet, waddr, bound)
		w.emitL(map[string]any{"ev": "BeginWitness", "kind": wk, "ms": wms})
		// a new query while Shutdown is waiting
		_, done := send("mid", false, true, 0, ext5Short)
		<-done
	}
	overdue := false
	switch sc.kind {
	case "A", "R":
		// give a Shutdown that does not wait the time to return
		time.Sleep(time.Duration(20+rng.Intn(40)) * time.Millisecond)
		releaseAll()
		select {
		case <-ret:
		case <-time.After(sc.d + ext5Grace):
			overdue = true
		}
	case "B":
		select {
		case <-ret:
		case <-time.After(time.Until(t0.Add(sc.d + ext5Grace))):
			overdue = true
		}
	default:
		limit := 10 * time.Second
		if sc.d > 0 {
			limit = sc.d + ext5Grace
		}
		select {
		case <-ret:
		case <-time.After(limit):
			overdue = true
		}
	}
	if overdue {
		w.mu.Lock()
		if !w.returned {
			if sc.d > 0 {
				if !w.deadline {
					w.deadline = true
					w.emit(map[string]any{"ev": "Deadline"})
				}
				w.emit(map[string]any{"ev": "Overdue", "after_ms": time.Since(t0).Milliseconds(), "running": w.running})
			} else {
				w.emit(map[string]any{"ev": "Stall", "after_ms": time.Since(t0).Milliseconds(), "running": w.running})
			}
		}
		w.mu.Unlock()
	}
	releaseAll()
	select {
	case <-ret:
	case <-time.After(15 * time.Second):
		// every handler has been released long ago: the call will not return
		w.mu.Lock()
		w.emit(map[string]any{"ev": "Stall", "after_ms": time.Since(t0).Milliseconds(), "running": w.running})
		w.emit(map[string]any{"ev": "End", "handled": w.handled, "maxRunning": w.maxRun, "sent": nextq,
			"inflight": sc.k, "inflight_answered": 0, "port_free": false})
		ev = append([]map[string]any{}, w.ev...)
		w.mu.Unlock()
		return ev, true
	}
	for _, done := range racers {
		<-done
	}
	// let the released handlers finish
	for t1 := time.Now(); time.Since(t1) < 3*time.Second; time.Sleep(2 * time.Millisecond) {
		w.mu.Lock()
		n := w.running
		w.mu.Unlock()
		if n == 0 {
			break
		}
	}

	// nothing is handled after Shutdown has returned
	if cl != nil {
		_, done := send("late", false, true, 0, ext5Short)
		<-done
	}
	// misuse: Shutdown once more
	w.emitL(ext5SyncShutdown(srv, "stopped"))
	// clients of requests whose answer got lost do not have to wait for their own time-out
	time.Sleep(30 * time.Millisecond)
	ccancel()
	clients.Wait()

	portFree := ext5PortFree(lane.witness, laddr)
	if sc.restart {
		// only recorded: Start on a server that has been shut down
		err := srv.Start(bg)
		served := false
		if err == nil {
			if rcl, cerr := lane.client(srv); cerr == nil {
				pctx, pcancel := context.WithTimeout(bg, ext5Short)
				m := new(dns.Msg).SetQuestion(ext5ProbeName, dns.TypeA)
				m.Id = 3999
				served, _ = rcl.Query(pctx, m, true)
				pcancel()
				rcl.Close()
			}
		}
		res := ext5Class(err)
		if res == "nil" {
			res = "ok"
		}
		w.mu.Lock()
		w.emit(map[string]any{"ev": "Restart", "res": res, "err": ext5Err(err), "served": served, "probes": w.probes})
		w.mu.Unlock()
	}

	w.mu.Lock()
	defer w.mu.Unlock()
	qs := make([]int, 0, len(w.results))
	for q := range w.results {
		qs = append(qs, q)
	}
	sort.Ints(qs)
	inflightAnswered := 0
	for _, q := range qs {
		r := w.results[q]
		if r.phase == "parked" && r.answered {
			inflightAnswered++
		}
		w.emit(map[string]any{"ev": "Result", "q": q, "answered": r.answered, "note": r.note, "phase": r.phase})
	}
	w.emit(map[string]any{"ev": "End", "handled": w.handled, "maxRunning": w.maxRun, "sent": nextq,
		"inflight": sc.k, "inflight_answered": inflightAnswered, "port_free": portFree})
	return append([]map[string]any{}, w.ev...), true
}

// ---------------------------------------------------------------- the test

func TestVerifEXT5(t *testing.T) {
	out := vhOpen(t)
	seed := vhSeed()
	tlsConf := dnsservertest.CreateServerTLSConfig("example.org")
	lanes := ext5Lanes(tlsConf)
	only := strings.TrimSpace(strings.ToLower(os.Getenv("VERIF_EXT5_LANES")))
	reps := vhEnvInt("VERIF_EXT5_REPS", 1)
	maxK := vhEnvInt("VERIF_EXT5_MAXK", 3)
	races := vhEnvInt("VERIF_EXT5_RACES", 2)

	var flushMu sync.Mutex
	var wg sync.WaitGroup
	for li, lane := range lanes {
		if only != "" && !strings.Contains(","+only+",", ","+lane.name+",") {
			continue
		}
		wg.Add(1)
		go func(li int, lane ext5Lane) {
			defer wg.Done()
			rng := rand.New(rand.NewSource(seed*1000 + int64(li)))
			ds := []time.Duration{150 * time.Millisecond, 250 * time.Millisecond, 400 * time.Millisecond}
			for rep := 0; rep < reps; rep++ {
				var scs []ext5Scen
				scs = append(scs, ext5Scen{kind: "C0", d: []time.Duration{0, 5 * time.Second}[rng.Intn(2)]})
				scs = append(scs, ext5Scen{kind: "C", d: []time.Duration{0, 5 * time.Second}[rng.Intn(2)], restart: true})
				for k := 1; k <= maxK; k++ {
					scs = append(scs, ext5Scen{kind: "A", k: k, d: 8 * time.Second, restart: k == 1})
					scs = append(scs, ext5Scen{kind: "B", k: k, d: ds[rng.Intn(len(ds))]})
				}
				for i := 0; i < races; i++ {
					scs = append(scs, ext5Scen{kind: "R", k: rng.Intn(2), r: 1 + rng.Intn(3), d: 5 * time.Second})
				}
				rng.Shuffle(len(scs), func(i, j int) { scs[i], scs[j] = scs[j], scs[i] })
				for _, sc := range scs {
					ev, ok := ext5RunWorld(t, lane, sc, rng)
					flushMu.Lock()
					for _, e := range ev {
						out.Emit(e)
					}
					flushMu.Unlock()
					if !ok {
						// the rest of this transport's worlds would fail the same way
						return
					}
				}
			}
		}(li, lane)
	}
	wg.Wait()
}
