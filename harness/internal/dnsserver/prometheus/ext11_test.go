//go:build verif

package prometheus

// EXT11, part (b).  Event sequences (TLC-generated behaviours of
// MetricsLedger.tla from $VERIF_IN and seeded random ones) are delivered to the
// real ServerMetricsListener, RateLimitMetricsListener, CacheMetricsListener
// and ForwardMetricsListener.  Every behaviour gets a fresh default registry
// (the listeners register through promauto on prometheus.DefaultRegisterer)
// and server names of its own.  After every event every series of the registry
// is read back through prometheus.DefaultGatherer; the event line carries the
// per-series deltas, the absolute values and the gauges, with the concrete
// label values translated back to the abstract ones of the model.  Durations
// are exact: time.Since in server.go / forward.go reads VerifNow (build-time
// overlay written by the check script).  The verdict is TLC's
// (TraceMetricsLedger.tla).

import (
	"context"
	"errors"
	"fmt"
	"math"
	"math/rand"
	"net"
	"os"
	"sort"
	"strings"
	"sync"
	"testing"
	"time"

	"github.com/AdguardTeam/AdGuardDNS/internal/dnsserver"
	"github.com/AdguardTeam/AdGuardDNS/internal/dnsserver/forward"
	"github.com/miekg/dns"
	"github.com/prometheus/client_golang/prometheus"
	dto "github.com/prometheus/client_model/go"
)

const e11NS = "ext11"

type e11Ev struct {
	Kind string `json:"kind"`
	S    string `json:"s"`
	P    string `json:"p"`
	Nw   string `json:"nw"`
	Fam  string `json:"fam"`
	Qt   string `json:"qt"`
	Rc   string `json:"rc"`
	Rq   int    `json:"rq"`
	Rs   int    `json:"rs"`
	Dur  int    `json:"dur"`
	U    string `json:"u"`
	Err  string `json:"err"`
	N    int    `json:"n"`
}

type e11Series struct {
	M string   `json:"m"`
	K []string `json:"k"`
	D int      `json:"d"`
}

type e11Line struct {
	Ev     string      `json:"ev"`
	Beh    int         `json:"beh"`
	S      string      `json:"s"`
	P      string      `json:"p"`
	Nw     string      `json:"nw"`
	Fam    string      `json:"fam"`
	Qt     string      `json:"qt"`
	Rc     string      `json:"rc"`
	Rq     int         `json:"rq"`
	Rs     int         `json:"rs"`
	Dur    int         `json:"dur"`
	U      string      `json:"u"`
	Err    string      `json:"err"`
	N      int         `json:"n"`
	Conc   bool        `json:"conc"`
	Delta  []e11Series `json:"delta"`
	Abs    []e11Series `json:"abs"`
	Gauges []e11Series `json:"gauges"`
	Src    string      `json:"src,omitempty"`
	Note   string      `json:"note,omitempty"`
}

// the documented label names, in the documented order
var e11ReqLabels = []string{"name", "proto", "network", "addr", "type", "family"}
var e11SrvLabels = []string{"name", "proto", "addr"}
var e11LabelNames = map[string][]string{
	"server_request_total":                 e11ReqLabels,
	"ratelimit_dropped_total":              e11ReqLabels,
	"ratelimit_allowlisted_total":          e11ReqLabels,
	"server_request_duration_seconds":      e11SrvLabels,
	"server_request_size_bytes":            e11SrvLabels,
	"server_response_size_bytes":           e11SrvLabels,
	"server_error_total":                   e11SrvLabels,
	"server_panic_total":                   e11SrvLabels,
	"server_invalid_msg_total":             e11SrvLabels,
	"server_response_rcode_total":          {"name", "proto", "addr", "rcode"},
	"server_quic_addr_validation_lookups":  {"hit"},
	"cache_size":                           {"type"},
	"cache_hits_total":                     {"type"},
	"cache_misses_total":                   {"type"},
	"forward_request_total":                {"to", "network"},
	"forward_response_rcode_total":         {"to", "rcode"},
	"forward_request_duration_seconds":     {"to"},
	"forward_error_total":                  {"to", "type"},
	"forward_upstream_status":              {"to", "type"},
}

type e11Ups struct{ name string }

func (u *e11Ups) Exchange(context.Context, *dns.Msg) (*dns.Msg, forward.Network, error) {
	return nil, forward.NetworkAny, errors.New("ext11: not a real upstream")
}
func (u *e11Ups) Close() error   { return nil }
func (u *e11Ups) String() string { return u.name }

type e11Lab struct {
	srv   *ServerMetricsListener
	rl    *RateLimitMetricsListener
	cache *CacheMetricsListener
	fwd   *ForwardMetricsListener
	reg   *prometheus.Registry
	back  map[string]string // concrete label value -> abstract
	names map[string]string // abstract server -> concrete name
	addrs map[string]string
	ups   map[string]*e11Ups
	base  time.Time
	mu    sync.Mutex
	now   time.Time
	prev  map[string]float64
	nreq  int
}

var e11Cur *e11Lab

func e11NewLab(beh int) *e11Lab {
	reg := prometheus.NewRegistry()
	prometheus.DefaultRegisterer = reg
	prometheus.DefaultGatherer = reg
	lab := &e11Lab{
		reg:   reg,
		back:  map[string]string{},
		names: map[string]string{},
		addrs: map[string]string{"s1": "192.0.2.1:53", "s2": "[2001:db8::2]:853"},
		ups:   map[string]*e11Ups{},
		base:  time.Date(2026, 1, 2, 3, 4, 5, 0, time.UTC),
		prev:  map[string]float64{},
	}
	lab.now = lab.base
	for _, s := range []string{"s1", "s2"} {
		lab.names[s] = fmt.Sprintf("srv-%d-%s", beh, s)
		lab.back["name="+lab.names[s]] = s
		lab.back["addr="+lab.addrs[s]] = "@" + s
	}
	for u, a := range map[string]string{"u1": "192.0.2.53:53", "u2": "tls://fallback.example:853"} {
		lab.ups[u] = &e11Ups{name: a}
		lab.back["to="+a] = u
	}
	e11Cur = lab
	VerifNow = func() time.Time {
		lab.mu.Lock()
		defer lab.mu.Unlock()
		return lab.now
	}
	lab.srv = NewServerMetricsListener(e11NS)
	lab.rl = NewRateLimitMetricsListener(e11NS)
	lab.cache = NewCacheMetricsListener(e11NS)
	lab.fwd = NewForwardMetricsListener(e11NS, 2)
	return lab
}

func e11Proto(p string) dnsserver.Protocol {
	for _, x := range []dnsserver.Protocol{dnsserver.ProtoDNS, dnsserver.ProtoDoH, dnsserver.ProtoDoQ, dnsserver.ProtoDoT,
		dnsserver.ProtoDNSCrypt} {
		if x.String() == p {
			return x
		}
	}
	panic("ext11: unknown protocol " + p)
}

var e11QTypes = map[string]uint16{"A": dns.TypeA, "AAAA": dns.TypeAAAA, "HTTPS": dns.TypeHTTPS, "ANY": dns.TypeANY,
	"TXT": dns.TypeTXT, "TYPE65280": 65280}
var e11Rcodes = map[string]int{"NOERROR": dns.RcodeSuccess, "NXDOMAIN": dns.RcodeNameError,
	"SERVFAIL": dns.RcodeServerFailure, "3841": 3841}

func (lab *e11Lab) req(qt string) *dns.Msg {
	m := &dns.Msg{}
	m.Id = 77
	switch qt {
	case "NOQ":
		// not exactly one question: none, or two
		lab.nreq++
		if lab.nreq%2 == 0 {
			m.Question = []dns.Question{{Name: "a.example.", Qtype: dns.TypeA, Qclass: dns.ClassINET},
				{Name: "b.example.", Qtype: dns.TypeA, Qclass: dns.ClassINET}}
		}
	default:
		t, ok := e11QTypes[qt]
		if !ok {
			panic("ext11: unknown qtype " + qt)
		}
		m.Question = []dns.Question{{Name: "host.example.", Qtype: t, Qclass: dns.ClassINET}}
	}
	return m
}

func e11Resp(req *dns.Msg, rc string) *dns.Msg {
	if rc == "nil" {
		return nil
	}
	code, ok := e11Rcodes[rc]
	if !ok {
		panic("ext11: unknown rcode " + rc)
	}
	r := &dns.Msg{}
	r.Id = req.Id
	r.Response = true
	r.Question = req.Question
	r.Rcode = code
	return r
}

func (lab *e11Lab) ctxAndRW(e e11Ev) (context.Context, dnsserver.ResponseWriter) {
	ctx := dnsserver.ContextWithServerInfo(context.Background(), &dnsserver.ServerInfo{
		Name: lab.names[e.S], Addr: lab.addrs[e.S], Proto: e11Proto(e.P)})
	ctx = dnsserver.ContextWithRequestInfo(ctx, &dnsserver.RequestInfo{StartTime: lab.base})
	var local, remote net.Addr
	ip := net.IP(nil)
	switch e.Fam {
	case "1":
		ip = net.IPv4(198, 51, 100, 7).To4()
		if e.Rq == 40 || e.Qt == "AAAA" {
			// the 16-byte IPv4-mapped form, as a dual-stack socket reports an IPv4 client
			ip = net.ParseIP("198.51.100.7").To16()
		}
	case "2":
		ip = net.ParseIP("2001:db8::77")
	case "0", "-":
	default:
		panic("ext11: unknown family " + e.Fam)
	}
	switch e.Nw {
	case "udp":
		local, remote = &net.UDPAddr{IP: net.IPv4(192, 0, 2, 1), Port: 53}, &net.UDPAddr{IP: ip, Port: 40000}
	case "tcp":
		local, remote = &net.TCPAddr{IP: net.IPv4(192, 0, 2, 1), Port: 53}, &net.TCPAddr{IP: ip, Port: 40000}
	case "-":
		return ctx, nil
	default:
		panic("ext11: unknown network " + e.Nw)
	}
	return ctx, dnsserver.NewNonWriterResponseWriter(local, remote)
}

func e11Err(kind string) error {
	switch kind {
	case "none":
		return nil
	case "deadline":
		return fmt.Errorf("exchanging: %w", context.DeadlineExceeded)
	case "nettimeout":
		return &net.OpError{Op: "read", Net: "udp", Err: os.ErrDeadlineExceeded}
	case "network":
		return fmt.Errorf("dialing: %w", &net.OpError{Op: "dial", Net: "tcp", Err: errors.New("connection refused")})
	case "other":
		return errors.New("ext11: something else")
	}
	panic("ext11: unknown error kind " + kind)
}

// deliver performs the one listener call of the event.
func (lab *e11Lab) deliver(e e11Ev) {
	lab.mu.Lock()
	lab.now = lab.base.Add(time.Duration(e.Dur) * time.Millisecond)
	lab.mu.Unlock()
	lab.deliverNoClock(e)
}

func (lab *e11Lab) deliverNoClock(e e11Ev) {
	switch e.Kind {
	case "Request":
		ctx, rw := lab.ctxAndRW(e)
		req := lab.req(e.Qt)
		lab.srv.OnRequest(ctx, &dnsserver.QueryInfo{Request: req, Response: e11Resp(req, e.Rc), RequestSize: e.Rq,
			ResponseSize: e.Rs}, rw)
	case "InvalidMsg":
		ctx, _ := lab.ctxAndRW(e)
		lab.srv.OnInvalidMsg(ctx)
	case "Error":
		ctx, _ := lab.ctxAndRW(e)
		lab.srv.OnError(ctx, errors.New("ext11"))
	case "Panic":
		ctx, _ := lab.ctxAndRW(e)
		lab.srv.OnPanic(ctx, "ext11")
	case "Quic":
		lab.srv.OnQUICAddressValidation(e.Rc == "1")
	case "RateLimited":
		ctx, rw := lab.ctxAndRW(e)
		lab.rl.OnRateLimited(ctx, lab.req(e.Qt), rw)
	case "Allowlisted":
		ctx, rw := lab.ctxAndRW(e)
		lab.rl.OnAllowlisted(ctx, lab.req(e.Qt), rw)
	case "CacheHit":
		lab.cache.OnCacheHit(context.Background(), lab.req("A"))
	case "CacheMiss":
		lab.cache.OnCacheMiss(context.Background(), lab.req("A"))
	case "CacheAdded":
		lab.cache.OnCacheItemAdded(context.Background(), e11Resp(lab.req("A"), "NOERROR"), e.N)
	case "Forward":
		req := lab.req("A")
		lab.fwd.OnForwardRequest(context.Background(), lab.ups[e.U], req, e11Resp(req, e.Rc), forward.Network(e.Nw),
			lab.base, e11Err(e.Err))
	case "Status":
		lab.fwd.OnUpstreamStatusChanged(lab.ups[e.U], e.U == "u1", e.N == 1)
	default:
		panic("ext11: unknown event kind " + e.Kind)
	}
}

func e11Int(x float64) int {
	r := math.Round(x)
	if math.Abs(x-r) > 1e-6 || r < 0 || r > 2e9 {
		return -1
	}
	return int(r)
}

// snapshot reads every series back: series id -> value, and the decoded ids.
func (lab *e11Lab) snapshot(t testing.TB) (vals map[string]float64, ids map[string]e11Series, gauges map[string]bool) {
	mfs, err := prometheus.DefaultGatherer.Gather()
	if err != nil {
		t.Fatalf("ext11: gather: %v", err)
	}
	vals, ids, gauges = map[string]float64{}, map[string]e11Series{}, map[string]bool{}
	add := func(m string, k []string, v float64, isGauge bool) {
		id := m + "|" + strings.Join(k, "|")
		vals[id] += v
		ids[id] = e11Series{M: m, K: k}
		if isGauge {
			gauges[id] = true
		}
	}
	for _, mf := range mfs {
		fam := mf.GetName()
		if !strings.HasPrefix(fam, e11NS+"_") {
			fam = "foreign:" + fam
		} else {
			fam = strings.TrimPrefix(fam, e11NS+"_")
		}
		want, known := e11LabelNames[fam]
		for _, m := range mf.GetMetric() {
			got := map[string]string{}
			for _, lp := range m.GetLabel() {
				got[lp.GetName()] = lp.GetValue()
			}
			var k []string
			if known && len(got) == len(want) {
				for _, ln := range want {
					v, ok := got[ln]
					if !ok {
						k = nil
						break
					}
					if a, tr := lab.back[ln+"="+v]; tr {
						v = a
					}
					k = append(k, v)
				}
			}
			if k == nil {
				for ln, v := range got {
					k = append(k, "?"+ln+"="+v)
				}
				sort.Strings(k)
			}
			switch mf.GetType() {
			case dto.MetricType_COUNTER:
				add(fam, k, m.GetCounter().GetValue(), false)
			case dto.MetricType_GAUGE:
				add(fam, k, m.GetGauge().GetValue(), true)
			case dto.MetricType_HISTOGRAM:
				h := m.GetHistogram()
				add(fam+"_count", k, float64(h.GetSampleCount()), false)
				sum := h.GetSampleSum()
				if strings.HasSuffix(fam, "_seconds") {
					sum *= 1000 // the model counts milliseconds
				}
				add(fam+"_sum", k, sum, false)
			default:
				add("unexpected-type:"+fam, k, 1, false)
			}
		}
	}
	return vals, ids, gauges
}

func e11Sorted(x []e11Series) []e11Series {
	sort.Slice(x, func(i, j int) bool {
		a, b := x[i].M+"|"+strings.Join(x[i].K, "|"), x[j].M+"|"+strings.Join(x[j].K, "|")
		return a < b
	})
	return x
}

// observe fills delta / abs / gauges of the line from the registry.
func (lab *e11Lab) observe(t testing.TB, ln *e11Line) {
	vals, ids, gauges := lab.snapshot(t)
	ln.Delta, ln.Abs, ln.Gauges = []e11Series{}, []e11Series{}, []e11Series{}
	for id, v := range vals {
		s := ids[id]
		if gauges[id] {
			s.D = e11Int(v)
			ln.Gauges = append(ln.Gauges, s)
			continue
		}
		if d := v - lab.prev[id]; d != 0 {
			x := s
			x.D = e11Int(d)
			ln.Delta = append(ln.Delta, x)
		}
		if v != 0 {
			s.D = e11Int(v)
			ln.Abs = append(ln.Abs, s)
		}
	}
	for id, v := range lab.prev {
		if _, ok := vals[id]; !ok && v != 0 && !gauges[id] {
			ln.Delta = append(ln.Delta, e11Series{M: "vanished:" + id, K: []string{}, D: -1})
		}
	}
	e11Sorted(ln.Delta)
	e11Sorted(ln.Abs)
	e11Sorted(ln.Gauges)
	lab.prev = vals
}

func e11LineOf(e e11Ev, beh int, src string) *e11Line {
	return &e11Line{Ev: e.Kind, Beh: beh, S: e.S, P: e.P, Nw: e.Nw, Fam: e.Fam, Qt: e.Qt, Rc: e.Rc, Rq: e.Rq, Rs: e.Rs,
		Dur: e.Dur, U: e.U, Err: e.Err, N: e.N, Src: src}
}

var (
	e11Servers = []string{"s1", "s2"}
	e11Protos  = []string{"dns", "dot", "doq"}
	e11Nets    = []string{"udp", "tcp"}
	e11Fams    = []string{"0", "1", "2"}
	e11QT      = []string{"A", "AAAA", "HTTPS", "ANY", "TYPE65280", "NOQ"}
	e11RC      = []string{"NOERROR", "NXDOMAIN", "SERVFAIL", "3841", "nil"}
	e11Sizes   = []int{0, 40, 600}
	e11RSizes  = []int{0, 100, 5000}
	e11Durs    = []int{0, 5, 2500}
	e11Errs    = []string{"none", "deadline", "nettimeout", "network", "other"}
	e11UpsN    = []string{"u1", "u2"}
)

func e11Blank(kind string) e11Ev {
	return e11Ev{Kind: kind, S: "-", P: "-", Nw: "-", Fam: "-", Qt: "-", Rc: "-", U: "-", Err: "-"}
}

func e11RandomEv(rnd *rand.Rand, gaugesToo bool, dur int) e11Ev {
	ps := func(a []string) string { return a[rnd.Intn(len(a))] }
	pi := func(a []int) int { return a[rnd.Intn(len(a))] }
	if dur < 0 {
		dur = pi(e11Durs)
	}
	var e e11Ev
	switch x := rnd.Intn(100); {
	case x < 35:
		e = e11Blank("Request")
		e.S, e.P, e.Nw, e.Fam, e.Qt, e.Rc, e.Rq, e.Dur = ps(e11Servers), ps(e11Protos), ps(e11Nets), ps(e11Fams), ps(e11QT),
			ps(e11RC), pi(e11Sizes), dur
		if e.Rc != "nil" {
			e.Rs = pi(e11RSizes)
		}
	case x < 47:
		e = e11Blank([]string{"InvalidMsg", "Error", "Panic"}[rnd.Intn(3)])
		e.S, e.P = ps(e11Servers), ps(e11Protos)
	case x < 51:
		e = e11Blank("Quic")
		e.Rc = []string{"0", "1"}[rnd.Intn(2)]
	case x < 63:
		e = e11Blank([]string{"RateLimited", "Allowlisted"}[rnd.Intn(2)])
		e.S, e.P, e.Nw, e.Fam, e.Qt = ps(e11Servers), ps(e11Protos), ps(e11Nets), ps(e11Fams), ps(e11QT)
	case x < 73:
		e = e11Blank([]string{"CacheHit", "CacheMiss"}[rnd.Intn(2)])
	case x < 93 || !gaugesToo:
		e = e11Blank("Forward")
		e.U, e.Nw, e.Rc, e.Err, e.Dur = ps(e11UpsN), ps(e11Nets), ps(e11RC), ps(e11Errs), dur
	case x < 96:
		e = e11Blank("CacheAdded")
		e.N = []int{1, 3}[rnd.Intn(2)]
	default:
		e = e11Blank("Status")
		e.U, e.N = ps(e11UpsN), rnd.Intn(2)
	}
	return e
}

func TestVerifEXT11Ledger(t *testing.T) {
	out := vhOpen(t)
	var behs [][]e11Ev
	if p := os.Getenv("VERIF_IN"); p != "" {
		vhReadJSON(t, p, &behs)
	}
	nsim := len(behs)
	rnd := rand.New(rand.NewSource(vhSeed()))
	for i := 0; i < vhEnvInt("VERIF_NRANDOM", 30); i++ {
		var b []e11Ev
		for j, n := 0, 10+rnd.Intn(40); j < n; j++ {
			b = append(b, e11RandomEv(rnd, true, -1))
		}
		behs = append(behs, b)
	}
	for bi, b := range behs {
		src := "tlc"
		if bi >= nsim {
			src = "random"
		}
		lab := e11NewLab(bi)
		first := &e11Line{Ev: "Reset", Beh: bi, Src: src}
		lab.observe(t, first)
		if len(first.Abs) != 0 {
			first.Note = "a fresh registry already shows non-zero series"
		}
		out.Emit(first)
		for _, e := range b {
			lab.deliver(e)
			ln := e11LineOf(e, bi, src)
			lab.observe(t, ln)
			out.Emit(ln)
		}
		sum := &e11Line{Ev: "Summary", Beh: bi, Src: src}
		lab.observe(t, sum)
		out.Emit(sum)
	}
}

// TestVerifEXT11LedgerStress delivers the events of every round from several
// goroutines at once (race detector on); only the totals are compared.
func TestVerifEXT11LedgerStress(t *testing.T) {
	out := vhOpen(t)
	rnd := rand.New(rand.NewSource(vhSeed() + 1000))
	rounds := vhEnvInt("VERIF_NSTRESS", 6)
	const goroutines = 4
	for r := 0; r < rounds; r++ {
		lab := e11NewLab(100000 + r)
		plans := make([][]e11Ev, goroutines)
		for g := range plans {
			for j := 0; j < 20; j++ {
				// one duration for all: the clock is shared by the goroutines
				plans[g] = append(plans[g], e11RandomEv(rnd, false, 5))
			}
		}
		lab.mu.Lock()
		lab.now = lab.base.Add(5 * time.Millisecond)
		lab.mu.Unlock()
		start := make(chan struct{})
		wg := &sync.WaitGroup{}
		for g := 0; g < goroutines; g++ {
			wg.Add(1)
			go func(g int) {
				defer wg.Done()
				<-start
				for _, e := range plans[g] {
					lab.deliverConc(e)
				}
			}(g)
		}
		close(start)
		wg.Wait()
		out.Emit(&e11Line{Ev: "Reset", Beh: 100000 + r, Src: "stress", Delta: []e11Series{}, Abs: []e11Series{},
			Gauges: []e11Series{}})
		for g := range plans {
			for _, e := range plans[g] {
				ln := e11LineOf(e, 100000+r, "stress")
				ln.Conc = true
				ln.Delta, ln.Abs, ln.Gauges = []e11Series{}, []e11Series{}, []e11Series{}
				out.Emit(ln)
			}
		}
		sum := &e11Line{Ev: "Summary", Beh: 100000 + r, Src: "stress"}
		lab.observe(t, sum)
		out.Emit(sum)
	}
}

// deliverConc is deliver without touching the shared clock or the shared
// question counter.
func (lab *e11Lab) deliverConc(e e11Ev) {
	if e.Qt == "NOQ" {
		// lab.req alternates through a counter; build the message here
		switch e.Kind {
		case "Request":
			ctx, rw := lab.ctxAndRW(e)
			req := &dns.Msg{}
			lab.srv.OnRequest(ctx, &dnsserver.QueryInfo{Request: req, Response: e11Resp(req, e.Rc), RequestSize: e.Rq,
				ResponseSize: e.Rs}, rw)
		case "RateLimited":
			ctx, rw := lab.ctxAndRW(e)
			lab.rl.OnRateLimited(ctx, &dns.Msg{}, rw)
		case "Allowlisted":
			ctx, rw := lab.ctxAndRW(e)
			lab.rl.OnAllowlisted(ctx, &dns.Msg{}, rw)
		}
		return
	}
	lab.deliverNoClock(e)
}
