//go:build verif

package dnsserver

// C08 in-package harness.  Generated request / handler-response pairs are
// pushed through the REAL write paths -- udpResponseWriter.WriteMsg,
// tcpResponseWriter.WriteMsg (normalizeTCP + addTCPKeepAlive +
// packWithPrefix), httpHandler.writeResponse, and the normalize + pack steps
// of the DoQ and DNSCrypt writers -- with fake connections that capture the
// bytes.  Recorded per case: the request EDNS settings, the configured
// maximum, the handler response, the PACKED bytes that were written and what
// they decode to.  Nothing is asserted here; TraceNormalize.tla decides.
//
// The exported VerifC08* helpers (request / response builders and the
// observation function) are shared with the socket-level harness in
// c08sock_test.go (package dnsserver_test).

import (
	"bytes"
	"context"
	"encoding/binary"
	"fmt"
	"math/rand"
	"net"
	"net/http"
	"net/http/httptest"
	"strconv"
	"strings"
	"sync"
	"testing"
	"time"

	"github.com/AdguardTeam/AdGuardDNS/internal/dnsserver/netext"
	"github.com/AdguardTeam/golibs/syncutil"
	"github.com/miekg/dns"
)

// VerifC08Req describes the EDNS part of a generated request.
type VerifC08Req struct {
	Opt     bool   `json:"opt"`
	Size    uint16 `json:"size"`
	Do      bool   `json:"do"`
	Pad     bool   `json:"pad"`
	KA      bool   `json:"ka"`
	NSID    bool   `json:"nsid"`
	PadLen  int    `json:"padlen"`  // payload bytes of the client's padding option
	NSIDLen int    `json:"nsidlen"` // payload bytes of the client's NSID option (normally 0)
	Ver     int    `json:"ver"`     // EDNS version of the query's OPT record (normally 0)
}

// VerifC08BuildReq builds the query.
func VerifC08BuildReq(name string, id uint16, r VerifC08Req) (m *dns.Msg) {
	m = new(dns.Msg)
	m.SetQuestion(name, dns.TypeTXT)
	m.Id = id
	if !r.Opt {
		return m
	}
	o := &dns.OPT{Hdr: dns.RR_Header{Name: ".", Rrtype: dns.TypeOPT}}
	o.SetUDPSize(r.Size)
	if r.Ver != 0 {
		o.SetVersion(uint8(r.Ver))
	}
	if r.Do {
		o.SetDo()
	}
	if r.NSID {
		o.Option = append(o.Option, &dns.EDNS0_NSID{Code: dns.EDNS0NSID, Nsid: strings.Repeat("ab", r.NSIDLen)})
	}
	if r.KA {
		o.Option = append(o.Option, &dns.EDNS0_TCP_KEEPALIVE{Code: dns.EDNS0TCPKEEPALIVE})
	}
	if r.Pad {
		o.Option = append(o.Option, &dns.EDNS0_PADDING{Padding: make([]byte, r.PadLen)})
	}
	m.Extra = append(m.Extra, o)
	return m
}

// VerifC08Shape describes the handler response; it is carried in the first
// label of the question name so that the socket-level handler can rebuild it.
type VerifC08Shape struct {
	Kind   string `json:"kind"`   // single | manyA | bigtxt | mix
	Bulk   string `json:"bulk"`   // section of the bulk records: an | ns | ex
	Fill   string `json:"fill"`   // section of the exact-size filler TXT record
	HOpt   string `json:"hopt"`   // none | v0 | v1do | v0ka (OPT with an empty keep-alive option, as queries carry it)
	HTC    bool   `json:"htc"`    // the handler sets TC itself
	Target int    `json:"target"` // wanted packed size of the handler response
}

const verifC08Zone = "c08.test."

// Name encodes the shape and a serial number in a question name.
func (s VerifC08Shape) Name(serial int) string {
	tc := 0
	if s.HTC {
		tc = 1
	}
	return fmt.Sprintf("%s-%s-%s-%s-%d-%d-n%d.%s", strings.ToLower(s.Kind), s.Bulk, s.Fill, s.HOpt, tc, s.Target, serial, verifC08Zone)
}

// VerifC08ParseShape is the inverse of Name.
func VerifC08ParseShape(name string) (s VerifC08Shape, ok bool) {
	lbl, rest, found := strings.Cut(name, ".")
	if !found || !strings.EqualFold(rest, verifC08Zone) {
		return s, false
	}
	f := strings.Split(lbl, "-")
	if len(f) != 7 {
		return s, false
	}
	t, err := strconv.Atoi(f[5])
	if err != nil {
		return s, false
	}
	kind := map[string]string{"single": "single", "manya": "manyA", "bigtxt": "bigtxt", "mix": "mix"}[f[0]]
	return VerifC08Shape{Kind: kind, Bulk: f[1], Fill: f[2], HOpt: f[3], HTC: f[4] == "1", Target: t}, kind != ""
}

func verifC08PackLen(m *dns.Msg) int {
	c := m.Compress
	m.Compress = true
	b, err := m.Pack()
	m.Compress = c
	if err != nil {
		panic(fmt.Sprintf("c08: pack: %v", err))
	}
	return len(b)
}

func verifC08Sec(m *dns.Msg, s string) *[]dns.RR {
	switch s {
	case "an":
		return &m.Answer
	case "ns":
		return &m.Ns
	}
	return &m.Extra
}

func verifC08TXT(owner string, rdlen int) dns.RR {
	var txt []string
	for rdlen > 0 {
		c := min(rdlen, 256)
		txt = append(txt, strings.Repeat("x", c-1))
		rdlen -= c
	}
	return &dns.TXT{Hdr: dns.RR_Header{Name: owner, Rrtype: dns.TypeTXT, Class: dns.ClassINET, Ttl: 60}, Txt: txt}
}

// VerifC08BuildResp builds the handler's response for req: Kind/Bulk decide
// the records, a filler TXT record in section Fill brings the packed
// (compressed) length to exactly Target whenever Target is reachable.
func VerifC08BuildResp(req *dns.Msg, s VerifC08Shape) (m *dns.Msg) {
	m = new(dns.Msg).SetReply(req)
	m.Compress = true
	m.Truncated = s.HTC
	qn := req.Question[0].Name
	var opt *dns.OPT
	switch s.HOpt {
	case "v0":
		opt = &dns.OPT{Hdr: dns.RR_Header{Name: ".", Rrtype: dns.TypeOPT}}
		opt.SetUDPSize(4096)
	case "v1do":
		opt = &dns.OPT{Hdr: dns.RR_Header{Name: ".", Rrtype: dns.TypeOPT}}
		opt.SetUDPSize(1400)
		opt.SetVersion(1)
		opt.SetDo()
	case "v0ka":
		// a handler that hands the option of the query back (it is empty there: 4 bytes; the server fills in
		// its time-out: 6 bytes)
		opt = &dns.OPT{Hdr: dns.RR_Header{Name: ".", Rrtype: dns.TypeOPT}}
		opt.SetUDPSize(4096)
		opt.Option = append(opt.Option, &dns.EDNS0_TCP_KEEPALIVE{Code: dns.EDNS0TCPKEEPALIVE})
	}
	optLen := 0
	if opt != nil {
		optLen = 11 + 4*len(opt.Option)
	}
	hdr := func(name string, t uint16) dns.RR_Header {
		return dns.RR_Header{Name: name, Rrtype: t, Class: dns.ClassINET, Ttl: 60}
	}
	if s.Kind == "mix" {
		z := verifC08Zone
		m.Answer = append(m.Answer,
			&dns.CNAME{Hdr: hdr(qn, dns.TypeCNAME), Target: "a." + z},
			&dns.CNAME{Hdr: hdr("a."+z, dns.TypeCNAME), Target: "b." + z},
			&dns.A{Hdr: hdr("b."+z, dns.TypeA), A: net.IPv4(192, 0, 2, 1).To4()})
		m.Ns = append(m.Ns,
			&dns.NS{Hdr: hdr(z, dns.TypeNS), Ns: "ns1." + z},
			&dns.NS{Hdr: hdr(z, dns.TypeNS), Ns: "ns2." + z},
			&dns.SOA{Hdr: hdr(z, dns.TypeSOA), Ns: "ns1." + z, Mbox: "hostmaster." + z, Serial: 1, Refresh: 2, Retry: 3, Expire: 4, Minttl: 5})
		m.Extra = append(m.Extra,
			&dns.A{Hdr: hdr("ns1."+z, dns.TypeA), A: net.IPv4(192, 0, 2, 53).To4()},
			&dns.AAAA{Hdr: hdr("ns2."+z, dns.TypeAAAA), AAAA: net.ParseIP("2001:db8::53")},
			&dns.MX{Hdr: hdr(qn, dns.TypeMX), Preference: 10, Mx: "mail." + z})
	}
	cur := verifC08PackLen(m) + optLen
	bulk := verifC08Sec(m, s.Bulk)
	unit := 0
	switch s.Kind {
	case "manyA", "mix":
		unit = 16 // compressed owner (2) + fixed (10) + address (4)
		for i := 0; cur+unit+13 <= s.Target; i++ {
			*bulk = append(*bulk, &dns.A{Hdr: hdr(qn, dns.TypeA), A: net.IPv4(10, byte(i>>16), byte(i>>8), byte(i)).To4()})
			cur += unit
		}
	case "bigtxt":
		unit = 12 + 256
		for cur+unit+13 <= s.Target {
			*bulk = append(*bulk, verifC08TXT(qn, 256))
			cur += unit
		}
	}
	fill := verifC08Sec(m, s.Fill)
	for tries := 0; tries < 4; tries++ {
		need := s.Target - (verifC08PackLen(m) + optLen)
		if need <= 0 {
			break
		}
		if need < 13 {
			if unit == 0 || len(*bulk) == 0 {
				break // not reachable
			}
			*bulk = (*bulk)[:len(*bulk)-1]
			continue
		}
		for need >= 13 {
			rd := min(need-12, 60000)
			if rest := need - 12 - rd; rest > 0 && rest < 13 {
				rd -= 13
			}
			*fill = append(*fill, verifC08TXT(qn, rd))
			need -= 12 + rd
		}
	}
	if opt != nil {
		m.Extra = append(m.Extra, opt)
	}
	return m
}

// VerifC08Obs is one line of the trace: the abstract vector, the concrete
// inputs and the measured reply.
type VerifC08Obs struct {
	Src   string `json:"src"` // pkg | sock
	Via   string `json:"via"` // concrete path (e.g. doh-get)
	P     string `json:"p"`
	QOpt  bool   `json:"qopt"`
	QSize int    `json:"qsize"`
	QDo   bool   `json:"qdo"`
	QPad  bool   `json:"qpad"`
	QKA   bool   `json:"qka"`
	QNSID bool   `json:"qnsid"`
	Cfg   int    `json:"cfg"`
	HRec  int    `json:"hrec"`
	HAn   int    `json:"han"`
	HTC   bool   `json:"htc"`
	HOpt  string `json:"hopt"`
	HDo   bool   `json:"hdo"`
	HLen  int    `json:"hlen"`  // packed length of the handler response as built
	Full  int    `json:"full"`  // packed length of all handler records + the reply's OPT
	Slack int    `json:"slack"` // bytes of the limit the transport keeps free (DNSCrypt library: 64)
	HRc   int    `json:"hrcode"`
	Sent  bool   `json:"sent"`
	Rc    int    `json:"rcode"`
	NRep  int    `json:"nrep"`
	Wire  int    `json:"wire"`   // length of the reply as written / received
	Parse bool   `json:"parsed"` // the reply unpacks
	TC    bool   `json:"tc"`
	An    int    `json:"an"`
	Rec   int    `json:"rec"`
	Opt   bool   `json:"opt"`
	OSize int    `json:"osize"`
	OVer  int    `json:"over"`
	ODo   bool   `json:"odo"`
	Pad   bool   `json:"pad"`
	KA    bool   `json:"ka"`
	NSID  bool   `json:"nsid"`
	// concrete details for replay / description
	Name    string        `json:"name"`
	Req     VerifC08Req   `json:"req"`
	Shape   VerifC08Shape `json:"shape"`
	Attempt int           `json:"attempt"` // pkg: packed length of the normalised message (also when it was not sent)
	Enc     int           `json:"enc"`     // sock/dnscrypt: length of the encrypted packet
	Note    string        `json:"note"`
	Vec     string        `json:"vec"` // abstract vector
}

func verifC08SplitOPT(m *dns.Msg) (n int, opt *dns.OPT) {
	for _, rr := range m.Extra {
		if o, ok := rr.(*dns.OPT); ok {
			opt = o
		} else {
			n++
		}
	}
	return n, opt
}

// VerifC08Observe fills the observation from the original handler response
// (as built, untouched by the server) and the reply bytes.
func VerifC08Observe(src, via, proto string, name string, rq VerifC08Req, cfg int, sh VerifC08Shape, orig *dns.Msg, replies [][]byte) (o VerifC08Obs) {
	o = VerifC08Obs{Src: src, Via: via, P: proto, QOpt: rq.Opt, QSize: int(rq.Size), QDo: rq.Do, QPad: rq.Pad, QKA: rq.KA,
		QNSID: rq.NSID, Cfg: cfg, HTC: sh.HTC, HOpt: sh.HOpt, HDo: sh.HOpt == "v1do", Name: name, Req: rq, Shape: sh,
		Full: -1, NRep: len(replies), Sent: len(replies) > 0}
	switch proto {
	case "dnscrypt-udp":
		o.Slack = 64 // the library truncates to the limit minus 64
	case "dnscrypt-tcp":
		o.Slack = 65 // 65471 bytes, padded and framed, overflow the 2-byte TCP length prefix
	}
	o.HRc = orig.Rcode
	if !rq.Opt {
		o.QSize, o.QDo, o.QPad, o.QKA, o.QNSID = 0, false, false, false, false
	}
	hex, _ := verifC08SplitOPT(orig)
	o.HAn = len(orig.Answer)
	o.HRec = len(orig.Answer) + len(orig.Ns) + hex
	o.HLen = verifC08PackLen(orig)
	if len(replies) == 0 {
		return o
	}
	o.Wire = len(replies[0])
	r := new(dns.Msg)
	if err := r.Unpack(replies[0]); err != nil {
		o.Note = "unpack: " + err.Error()
		return o
	}
	o.Parse = true
	rex, ropt := verifC08SplitOPT(r)
	o.Rc = r.Rcode
	o.TC, o.An, o.Rec = r.Truncated, len(r.Answer), len(r.Answer)+len(r.Ns)+rex
	if ropt != nil {
		o.Opt, o.OSize, o.OVer, o.ODo = true, int(ropt.UDPSize()), int(ropt.Version()), ropt.Do()
		for _, e := range ropt.Option {
			switch e.Option() {
			case dns.EDNS0PADDING:
				o.Pad = true
			case dns.EDNS0TCPKEEPALIVE:
				o.KA = true
			case dns.EDNS0NSID:
				o.NSID = true
			}
		}
	}
	// the complete reply: every handler record plus the OPT the reply carries
	full := orig.Copy()
	var ex []dns.RR
	for _, rr := range full.Extra {
		if _, ok := rr.(*dns.OPT); !ok {
			ex = append(ex, rr)
		}
	}
	if ropt != nil {
		ex = append(ex, ropt)
	}
	full.Extra = ex
	o.Full = verifC08PackLen(full)
	return o
}

// VerifC08Limit is used by the generators to AIM response sizes at the
// boundaries; the verdict never uses it (TLC computes the limit itself).
func VerifC08Limit(proto string, rq VerifC08Req, cfg int) int {
	if proto != "dns-udp" && proto != "dnscrypt-udp" {
		return dns.MaxMsgSize
	}
	sz := 0
	if rq.Opt {
		sz = int(rq.Size)
	}
	return max(dns.MinMsgSize, min(sz, cfg))
}

// VerifC08Vec is the abstraction function: concrete case -> abstract class.
func VerifC08Vec(o *VerifC08Obs, limit int) string {
	cls := func(n int) string {
		switch {
		case n == 0:
			return "0"
		case n < dns.MinMsgSize:
			return "<MIN"
		case n == dns.MinMsgSize:
			return "MIN"
		case n == dns.MaxMsgSize:
			return "MAX"
		}
		return "mid"
	}
	rel := "n/a"
	if o.Full >= 0 {
		switch d := o.Full - limit; {
		case d < -40:
			rel = "<<"
		case d < 0:
			rel = "<" + strconv.Itoa(-d)
		case d == 0:
			rel = "="
		case d <= 40:
			rel = ">" + strconv.Itoa(d)
		default:
			rel = ">>"
		}
	}
	q := "noopt"
	if o.QOpt {
		q = fmt.Sprintf("opt(%s,do=%t,pad=%t,ka=%t,nsid=%t)", cls(o.QSize), o.QDo, o.QPad, o.QKA, o.QNSID)
	}
	return fmt.Sprintf("%s|%s|cfg=%s|h=%s/%s/%s/%s,tc=%t|full%slimit", o.P, q, cls(o.Cfg), o.Shape.Kind, o.Shape.Bulk,
		o.Shape.Fill, o.HOpt, o.HTC, rel)
}

// VerifC08Gen draws the cases; shared by both harnesses.
type VerifC08Gen struct {
	Rng *rand.Rand
	i   int
}

var verifC08Sizes = []uint16{0, 100, 511, 512, 513, 1232, 4096, 65535}
var verifC08Cfgs = []int{0, 512, 1024, 1232, 4096, 65535}

// Case is one generated input.
type VerifC08Case struct {
	Proto string
	Req   VerifC08Req
	Cfg   int
	Shape VerifC08Shape
}

// Next draws a case for proto.  sizes / cfgs may restrict the choice (socket
// level); maxLimit caps what a datagram socket can carry.
func (g *VerifC08Gen) Next(proto string, sizes []uint16, cfg int) (c VerifC08Case) {
	r := g.Rng
	g.i++
	i := g.i
	c.Proto, c.Cfg = proto, cfg
	udp := proto == "dns-udp" || proto == "dnscrypt-udp"
	stdenc := proto == "dot" || proto == "doh" || proto == "doq"
	katr := proto == "dns-tcp" || proto == "dot"
	if r.Intn(9) != 0 {
		c.Req.Opt = true
		c.Req.Size = sizes[r.Intn(len(sizes))]
		c.Req.Do = r.Intn(2) == 0
		c.Req.Ver = []int{0, 0, 0, 0, 1, 255}[r.Intn(6)] // the reply's OPT is version 0 whatever the query says
		c.Req.Pad = r.Intn(3) == 0 || (stdenc && r.Intn(2) == 0)
		c.Req.KA = r.Intn(3) == 0 || (katr && r.Intn(2) == 0)
		c.Req.NSID = r.Intn(3) == 0
		if c.Req.NSID && r.Intn(4) == 0 {
			// a query's NSID option is empty; some carry data nevertheless
			c.Req.NSIDLen = []int{4, 4, 4, 600}[r.Intn(4)]
		}
		if c.Req.Pad {
			c.Req.PadLen = []int{0, 1, 31, 100}[r.Intn(4)]
		}
	}
	sh := &c.Shape
	sh.Kind = []string{"single", "manyA", "manyA", "bigtxt", "mix", "mix"}[r.Intn(6)]
	sh.Bulk = []string{"an", "an", "ns", "ex"}[r.Intn(4)]
	sh.Fill = []string{"an", "ns", "ex"}[r.Intn(3)]
	sh.HOpt = []string{"none", "none", "none", "v0", "v0", "v1do"}[r.Intn(6)]
	if katr && c.Req.Opt && c.Req.KA && r.Intn(3) == 0 {
		// (only where a keep-alive option belongs: a stream transport, asked for by the query)
		sh.HOpt = "v0ka"
	}
	sh.HTC = r.Intn(25) == 0
	limit := VerifC08Limit(proto, c.Req, cfg)
	// bytes the server adds to the handler response before it is written
	add := 0
	if c.Req.Opt && sh.HOpt == "none" {
		add += 11
		if c.Req.NSID {
			add += 4 + c.Req.NSIDLen
		}
	}
	if c.Req.Opt && c.Req.KA && katr {
		add += 6
		if sh.HOpt == "v0ka" {
			add -= 4
		}
	}
	padded := c.Req.Opt && c.Req.Pad && stdenc
	var delta int
	switch i % 10 {
	case 0:
		delta = -1
	case 1:
		delta = 0
	case 2:
		delta = 1
	case 3, 4:
		delta = r.Intn(81) - 40
	case 5:
		delta = []int{-6, -5, -7, 6, -16, 16, -17, 15}[r.Intn(8)]
		if proto == "dnscrypt-udp" || proto == "dnscrypt-tcp" {
			// the boundary of the DNSCrypt library: the limit minus 64
			delta = []int{-66, -65, -64, -63}[r.Intn(4)]
		}
	case 6:
		// far above: twice the limit (capped), or just above 64 KiB
		if limit*2 < 70000 && r.Intn(3) != 0 {
			delta = limit
		} else {
			delta = dns.MaxMsgSize + 1 + r.Intn(3000) - limit
		}
	default:
		// small everyday answers
		sh.Target = 40 + r.Intn(420)
		if !udp && r.Intn(2) == 0 {
			sh.Target = 500 + r.Intn(3000)
		}
		return c
	}
	if padded && i%10 <= 5 && r.Intn(2) == 0 {
		// aim the PADDED size at the boundary (padding is 4 + 1..31 bytes)
		delta -= 5 + r.Intn(31)
	}
	sh.Target = max(limit+delta-add, 30)
	return c
}

// ---------------------------------------------------------------------------
// fake connections

type c08Addr struct{ network, s string }

func (a c08Addr) Network() string { return a.network }
func (a c08Addr) String() string  { return a.s }

type c08Conn struct {
	mu  sync.Mutex
	buf bytes.Buffer
}

func (c *c08Conn) Read([]byte) (int, error) { return 0, net.ErrClosed }
func (c *c08Conn) Write(b []byte) (int, error) {
	c.mu.Lock()
	defer c.mu.Unlock()
	return c.buf.Write(b)
}
func (c *c08Conn) Close() error                     { return nil }
func (c *c08Conn) LocalAddr() net.Addr              { return c08Addr{"tcp", "127.0.0.1:53"} }
func (c *c08Conn) RemoteAddr() net.Addr             { return c08Addr{"tcp", "127.0.0.1:5353"} }
func (c *c08Conn) SetDeadline(time.Time) error      { return nil }
func (c *c08Conn) SetReadDeadline(time.Time) error  { return nil }
func (c *c08Conn) SetWriteDeadline(time.Time) error { return nil }

type c08PacketConn struct {
	c08Conn
	pkts [][]byte
}

func (c *c08PacketConn) ReadFrom([]byte) (int, net.Addr, error) { return 0, nil, net.ErrClosed }
func (c *c08PacketConn) WriteTo(b []byte, _ net.Addr) (int, error) {
	c.pkts = append(c.pkts, append([]byte{}, b...))
	return len(b), nil
}

// c08DCWriter stands in for the DNSCrypt library's response writer.
type c08DCWriter struct {
	udp  bool
	msgs []*dns.Msg
}

func (w *c08DCWriter) LocalAddr() net.Addr {
	if w.udp {
		return &net.UDPAddr{IP: net.IPv4(127, 0, 0, 1), Port: 443}
	}
	return &net.TCPAddr{IP: net.IPv4(127, 0, 0, 1), Port: 443}
}

func (w *c08DCWriter) RemoteAddr() net.Addr {
	if w.udp {
		return &net.UDPAddr{IP: net.IPv4(127, 0, 0, 1), Port: 5353}
	}
	return &net.TCPAddr{IP: net.IPv4(127, 0, 0, 1), Port: 5353}
}

func (w *c08DCWriter) WriteMsg(m *dns.Msg) error {
	w.msgs = append(w.msgs, m.Copy())
	return nil
}

// c08Write pushes (req, resp) through the real write path of proto and
// returns what was put on the (fake) wire.
func c08Write(proto string, cfg int, req, resp *dns.Msg, pool *syncutil.Pool[[]byte]) (replies [][]byte, note string) {
	ctx := context.Background()
	switch proto {
	case "dns-udp":
		pc := &c08PacketConn{}
		la, ra := &net.UDPAddr{IP: net.IPv4(127, 0, 0, 1), Port: 53}, &net.UDPAddr{IP: net.IPv4(127, 0, 0, 1), Port: 5353}
		rw := &udpResponseWriter{respPool: pool, udpSession: netext.NewSimplePacketSession(la, ra), conn: pc,
			writeTimeout: time.Second, maxRespSize: uint16(cfg)}
		if err := rw.WriteMsg(ctx, req, resp); err != nil {
			note = "err: " + err.Error()
		}
		return pc.pkts, note
	case "dns-tcp", "dot":
		pr := ProtoDNS
		if proto == "dot" {
			pr = ProtoDoT
		}
		ctx = ContextWithServerInfo(ctx, &ServerInfo{Name: "c08", Addr: "127.0.0.1:53", Proto: pr})
		conn := &c08Conn{}
		rw := &tcpResponseWriter{respPool: pool, writeMu: &sync.Mutex{}, conn: conn, writeTimeout: time.Second,
			idleTimeout: 30 * time.Second}
		if err := rw.WriteMsg(ctx, req, resp); err != nil {
			note = "err: " + err.Error()
		}
		return c08Unprefix(conn.buf.Bytes(), &note), note
	case "doh":
		h := &httpHandler{}
		hr := httptest.NewRequest(http.MethodGet, "https://test.local"+PathDoH, nil)
		w := httptest.NewRecorder()
		if err := h.writeResponse(req, resp, hr, w); err != nil {
			return nil, "err: " + err.Error()
		}
		if w.Code != http.StatusOK {
			return nil, "status " + strconv.Itoa(w.Code)
		}
		return [][]byte{w.Body.Bytes()}, ""
	case "doq":
		// the tail of ServerQUIC.handleQUICStream
		normalizeTCP(ProtoDoQ, req, resp)
		bufPtr := pool.Get()
		defer pool.Put(bufPtr)
		b, err := packWithPrefix(resp, *bufPtr)
		if err != nil {
			return nil, "err: " + err.Error()
		}
		*bufPtr = b
		return c08Unprefix(append([]byte{}, b...), &note), note
	case "dnscrypt-udp", "dnscrypt-tcp":
		// the real dnsCryptHandler.ServeDNS with the library's writer replaced
		// by a recorder (the library then truncates further, pads and
		// encrypts; that part is covered at socket level)
		srv := NewServerDNSCrypt(ConfigDNSCrypt{ConfigBase: ConfigBase{Name: "c08", Addr: "127.0.0.1:0",
			Handler: HandlerFunc(func(ctx context.Context, rw ResponseWriter, r *dns.Msg) error {
				return rw.WriteMsg(ctx, r, resp)
			})}})
		w := &c08DCWriter{udp: proto == "dnscrypt-udp"}
		if err := (&dnsCryptHandler{srv: srv}).ServeDNS(w, req); err != nil {
			note = "err: " + err.Error()
		}
		for _, m := range w.msgs {
			b, err := m.Pack()
			if err != nil {
				note += " pack: " + err.Error()
				continue
			}
			replies = append(replies, b)
		}
		return replies, note
	}
	panic("c08: unknown proto " + proto)
}

func c08Unprefix(b []byte, note *string) (replies [][]byte) {
	for len(b) >= 2 {
		n := int(binary.BigEndian.Uint16(b))
		if len(b) < 2+n {
			*note += " short frame"
			return replies
		}
		replies = append(replies, append([]byte{}, b[2:2+n]...))
		b = b[2+n:]
	}
	if len(b) != 0 {
		*note += " trailing bytes"
	}
	return replies
}

var c08Protos = []string{"dns-udp", "dns-tcp", "dot", "doh", "doq", "dnscrypt-udp", "dnscrypt-tcp"}

func TestVerifC08Pkg(t *testing.T) {
	out := vhOpen(t)
	n := vhEnvInt("VERIF_N", 2000)
	g := &VerifC08Gen{Rng: rand.New(rand.NewSource(vhSeed()*7919 + 8))}
	pool := syncutil.NewSlicePool[byte](dns.MinMsgSize)
	for i := 0; i < n; i++ {
		proto := c08Protos[i%len(c08Protos)]
		if i%3 == 0 {
			proto = []string{"dns-udp", "dnscrypt-udp"}[(i/3)%2] // the UDP limits have the most distinct values
		}
		cfg := dns.MaxMsgSize
		if proto == "dns-udp" {
			cfg = verifC08Cfgs[g.Rng.Intn(len(verifC08Cfgs))]
		}
		c := g.Next(proto, verifC08Sizes, cfg)
		name := c.Shape.Name(i)
		req := VerifC08BuildReq(name, uint16(i), c.Req)
		resp := VerifC08BuildResp(req, c.Shape)
		orig := resp.Copy()
		replies, note := c08Write(proto, cfg, req.Copy(), resp, pool)
		o := VerifC08Observe("pkg", proto, proto, name, c.Req, cfg, c.Shape, orig, replies)
		o.Note = strings.TrimSpace(o.Note + " " + note)
		// what the server tried to write (also when packing was refused)
		if b, err := resp.Pack(); err == nil {
			o.Attempt = len(b)
		}
		o.Vec = VerifC08Vec(&o, VerifC08Limit(proto, c.Req, cfg))
		out.Emit(o)
	}
}
