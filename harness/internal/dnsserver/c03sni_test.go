//go:build verif

package dnsserver_test

// C03, binding lemma: the TLS server name that device recognition trusts
// (dnsserver.RequestInfo.TLSServerName) is the server name of the TLS handshake
// -- the empty string when the client sent none -- and nothing else: not the
// HTTP Host header, not the :authority, not the URL.  Real DoT, DoH and DoQ
// servers; a handler that records what it is given.  TLC (TraceServerName.tla)
// decides.

import (
	"bytes"
	"context"
	"crypto/tls"
	"encoding/binary"
	"fmt"
	"io"
	"net"
	"net/http"
	"sync"
	"testing"
	"time"

	"github.com/AdguardTeam/AdGuardDNS/internal/dnsserver"
	"github.com/miekg/dns"
	"github.com/quic-go/quic-go"
	"golang.org/x/net/http2"
)

type c03SNIHandler struct {
	mu   sync.Mutex
	seen map[string][2]string // question name -> (TLSServerName, URL host+path)
}

func (h *c03SNIHandler) ServeDNS(ctx context.Context, rw dnsserver.ResponseWriter, req *dns.Msg) error {
	ri := dnsserver.MustRequestInfoFromContext(ctx)
	u := ""
	if ri.URL != nil {
		u = ri.URL.Host + ri.URL.Path
	}
	h.mu.Lock()
	h.seen[req.Question[0].Name] = [2]string{ri.TLSServerName, u}
	h.mu.Unlock()
	return rw.WriteMsg(ctx, req, new(dns.Msg).SetReply(req))
}

type c03SNIEvent struct {
	Ev      string `json:"ev"`
	T       string `json:"t"`
	SNISent string `json:"sni_sent"`
	HostHdr string `json:"host_hdr"`
	Reached bool   `json:"reached"`
	SNISeen string `json:"sni_seen"`
	URLSeen string `json:"url_seen"`
}

func TestVerifC03ServerName(t *testing.T) {
	out := vhOpen(t)
	h := &c03SNIHandler{seen: map[string][2]string{}}
	l := vlabStart(t, h, vlabConf{NoDNSCrypt: true})
	n := 0
	q := func() (*dns.Msg, []byte) {
		n++
		m := new(dns.Msg).SetQuestion(fmt.Sprintf("q%d.c03sni.example.", n), dns.TypeA)
		b, _ := m.Pack()
		return m, b
	}
	emit := func(tr, sni, host string, m *dns.Msg) {
		h.mu.Lock()
		s, ok := h.seen[m.Question[0].Name]
		h.mu.Unlock()
		out.Emit(c03SNIEvent{Ev: "ServerName", T: tr, SNISent: sni, HostHdr: host, Reached: ok, SNISeen: s[0], URLSeen: s[1]})
	}
	const devDom = "dev12345.d.example.org"
	snis := []string{"", "example.org", devDom, "other.example.net"}
	hosts := []string{"", devDom, "abcd1234.d.example.org", "example.org", devDom + ":443"}
	for _, sni := range snis {
		conf := &tls.Config{ServerName: sni, InsecureSkipVerify: true}
		// DoT
		func() {
			m, b := q()
			c, err := tls.DialWithDialer(&net.Dialer{Timeout: 3 * time.Second}, "tcp", l.dot.String(), conf.Clone())
			if err != nil {
				return
			}
			defer c.Close()
			_, _ = c.Write(append(binary.BigEndian.AppendUint16(nil, uint16(len(b))), b...))
			_ = c.SetReadDeadline(time.Now().Add(3 * time.Second))
			var ln uint16
			if binary.Read(c, binary.BigEndian, &ln) == nil {
				_, _ = io.ReadFull(c, make([]byte, ln))
			}
			emit("dot", sni, "", m)
		}()
		// DoQ
		func() {
			m, b := q()
			cc := conf.Clone()
			cc.NextProtos = dnsserver.NextProtoDoQ
			ctx, cancel := context.WithTimeout(context.Background(), 5*time.Second)
			defer cancel()
			conn, err := quic.DialAddr(ctx, l.doq.String(), cc, &quic.Config{})
			if err != nil {
				return
			}
			defer func() { _ = conn.CloseWithError(0, "") }()
			st, err := conn.OpenStreamSync(ctx)
			if err != nil {
				return
			}
			_, _ = st.Write(append(binary.BigEndian.AppendUint16(nil, uint16(len(b))), b...))
			_ = st.Close()
			_ = st.SetReadDeadline(time.Now().Add(3 * time.Second))
			_, _ = io.ReadAll(st)
			emit("doq", sni, "", m)
		}()
		// DoH over HTTP/2 and HTTP/1.1, with every Host header
		for _, proto := range []string{"h2", "http/1.1"} {
			for _, host := range hosts {
				func() {
					m, b := q()
					cc := conf.Clone()
					cc.NextProtos = []string{proto}
					dohAddr := l.doh.String()
					tr := &http.Transport{TLSClientConfig: cc, DisableKeepAlives: true,
						DialContext: func(ctx context.Context, network, _ string) (net.Conn, error) {
							return (&net.Dialer{Timeout: 3 * time.Second}).DialContext(ctx, network, dohAddr)
						},
						DialTLSContext: func(ctx context.Context, network, _ string) (net.Conn, error) {
							// dial by address: the server name is exactly what cc says (none if empty)
							return tls.DialWithDialer(&net.Dialer{Timeout: 3 * time.Second}, network, dohAddr, cc)
						}}
					var rt http.RoundTripper = tr
					if proto == "h2" {
						rt = &http2.Transport{TLSClientConfig: cc, DialTLSContext: func(ctx context.Context, network, _ string, _ *tls.Config) (net.Conn, error) {
							return tls.DialWithDialer(&net.Dialer{Timeout: 3 * time.Second}, network, dohAddr, cc)
						}}
					}
					req, err := http.NewRequest(http.MethodPost, "https://"+dohAddr+dnsserver.PathDoH, bytes.NewReader(b))
					if err != nil {
						return
					}
					if host != "" {
						req.Host = host
					}
					req.Header.Set("Content-Type", dnsserver.MimeTypeDoH)
					resp, err := (&http.Client{Transport: rt, Timeout: 5 * time.Second}).Do(req)
					if err == nil {
						_, _ = io.ReadAll(resp.Body)
						_ = resp.Body.Close()
					}
					emit("doh-"+proto, sni, host, m)
				}()
			}
		}
	}
}
