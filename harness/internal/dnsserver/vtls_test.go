//go:build verif

package dnsserver

import (
	"crypto/ecdsa"
	"crypto/elliptic"
	"crypto/rand"
	"crypto/tls"
	"crypto/x509"
	"crypto/x509/pkix"
	"math/big"
	"net"
	"testing"
	"time"
)

// c18TLSConfig returns a self-signed server TLS configuration (the in-package
// harness cannot import dnsservertest: import cycle).
func c18TLSConfig(t testing.TB) *tls.Config {
	key, err := ecdsa.GenerateKey(elliptic.P256(), rand.Reader)
	if err != nil {
		t.Fatal(err)
	}
	tmpl := &x509.Certificate{
		SerialNumber: big.NewInt(1), Subject: pkix.Name{CommonName: "verif.example"},
		NotBefore: time.Now().Add(-time.Hour), NotAfter: time.Now().Add(24 * time.Hour),
		KeyUsage: x509.KeyUsageDigitalSignature | x509.KeyUsageCertSign, IsCA: true,
		ExtKeyUsage: []x509.ExtKeyUsage{x509.ExtKeyUsageServerAuth}, BasicConstraintsValid: true,
		DNSNames: []string{"verif.example", "*.verif.example", "*.d.verif.example"},
		IPAddresses: []net.IP{net.IPv4(127, 0, 0, 1)},
	}
	der, err := x509.CreateCertificate(rand.Reader, tmpl, tmpl, &key.PublicKey, key)
	if err != nil {
		t.Fatal(err)
	}
	return &tls.Config{
		Certificates: []tls.Certificate{{Certificate: [][]byte{der}, PrivateKey: key}},
		ServerName:   "verif.example",
		MinVersion:   tls.VersionTLS12,
	}
}
