//go:build verif

package dnsserver_test

// C06 on the server receive paths (UDP, TCP, DoT, DoQ stream, DoH POST body and
// GET parameter).  Two laboratories run the same real servers: the WARM one is
// flooded with sentinel queries (every pooled receive buffer ends up holding a
// sentinel question, a sentinel OPT record and "LEAK" filler), the FRESH one
// only ever sees all-zero filler.  Then the same `next` message -- a bare
// header that declares a question, a question cut in the middle of its name, a
// complete question that declares an OPT it does not carry, ..., and
// self-consistent controls -- is sent to both.  Recorded: every reply and what
// the handler decoded, on both.  TLC (TraceBufferReuse.tla) decides.

import (
	"context"
	"encoding/hex"
	"fmt"
	"net"
	"runtime"
	"sort"
	"strings"
	"sync"
	"testing"
	"time"

	"github.com/AdguardTeam/AdGuardDNS/internal/dnsserver"
	"github.com/miekg/dns"
)

type c06Side struct {
	Status  int      `json:"status"`
	Note    string   `json:"note"`
	Replies []string `json:"replies"`
	Decoded []string `json:"decoded"`
}

type c06Event struct {
	Ev      string  `json:"ev"`
	Path    string  `json:"path"`
	Variant string  `json:"variant"`
	Round   int     `json:"round"`
	NextHex string  `json:"nexthex"`
	Warm    c06Side `json:"warm"`
	Fresh   c06Side `json:"fresh"`
	Leak    bool    `json:"leak"`
	Same    bool    `json:"same"`
}

// c06Handler answers with a TXT record that spells out what it decoded.
type c06Handler struct {
	mu  sync.Mutex
	log []string
}

func c06Summary(req *dns.Msg) string {
	var sb strings.Builder
	fmt.Fprintf(&sb, "id=%d;qd=%d;an=%d;ns=%d;ar=%d", req.Id, len(req.Question), len(req.Answer), len(req.Ns), len(req.Extra))
	for _, q := range req.Question {
		fmt.Fprintf(&sb, ";q=%s/%d/%d", q.Name, q.Qtype, q.Qclass)
	}
	if o := req.IsEdns0(); o != nil {
		var codes []string
		for _, e := range o.Option {
			codes = append(codes, fmt.Sprint(e.Option()))
		}
		sort.Strings(codes)
		fmt.Fprintf(&sb, ";edns:size=%d,do=%v,opts=%s", o.UDPSize(), o.Do(), strings.Join(codes, "+"))
	}
	return sb.String()
}

func (h *c06Handler) ServeDNS(ctx context.Context, rw dnsserver.ResponseWriter, req *dns.Msg) error {
	s := c06Summary(req)
	h.mu.Lock()
	h.log = append(h.log, s)
	h.mu.Unlock()
	resp := new(dns.Msg).SetReply(req)
	if len(req.Question) > 0 {
		txt := s
		if len(txt) > 200 {
			txt = txt[:200]
		}
		resp.Answer = append(resp.Answer, &dns.TXT{Hdr: dns.RR_Header{Name: req.Question[0].Name, Rrtype: dns.TypeTXT, Class: dns.ClassINET, Ttl: 1},
			Txt: []string{txt}})
	}
	return rw.WriteMsg(ctx, req, resp)
}

func (h *c06Handler) take() []string {
	h.mu.Lock()
	defer h.mu.Unlock()
	l := h.log
	h.log = nil
	if l == nil {
		l = []string{}
	}
	return l
}

const (
	c06SentName = "xxxxxxxx.sentinel-leak.example."
	c06NextName = "yyyyyyyy.benign-name00.example." // same length, label by label
)

// c06Sentinel is a well-formed query whose question, OPT record (DO set, a
// cookie and LEAK-filled padding) will remain in the receive buffers.
func c06Sentinel(id uint16) []byte {
	m := new(dns.Msg)
	m.Id = id
	m.RecursionDesired = true
	m.Question = []dns.Question{{Name: c06SentName, Qtype: dns.TypeA, Qclass: dns.ClassINET}}
	m.SetEdns0(4096, true)
	o := m.IsEdns0()
	o.Option = append(o.Option, &dns.EDNS0_COOKIE{Code: dns.EDNS0COOKIE, Cookie: "4c45414b4c45414b"},
		&dns.EDNS0_PADDING{Padding: []byte(strings.Repeat("LEAK", 60))})
	b, err := m.Pack()
	if err != nil {
		panic(err)
	}
	return b
}

func c06Header(id uint16, qd, an, ns, ar uint16) []byte {
	return []byte{byte(id >> 8), byte(id), 0x01, 0x00, byte(qd >> 8), byte(qd), byte(an >> 8), byte(an), byte(ns >> 8), byte(ns), byte(ar >> 8), byte(ar)}
}

func c06Question(name string, qt uint16) []byte {
	var b []byte
	for _, l := range dns.SplitDomainName(name) {
		b = append(b, byte(len(l)))
		b = append(b, l...)
	}
	b = append(b, 0, byte(qt>>8), byte(qt), 0, 1)
	return b
}

type c06Variant struct {
	name string
	msg  []byte
}

// c06Variants builds the `next` messages: truncated, over-declaring, controls.
func c06Variants() (vs []c06Variant) {
	q := c06Question(c06NextName, dns.TypeA)
	full := append(c06Header(0x4242, 1, 0, 0, 0), q...)
	vs = append(vs,
		c06Variant{"control-plain", full},
		c06Variant{"hdr-only-qd1", c06Header(0x4243, 1, 0, 0, 0)},
		c06Variant{"cut-after-label1", append(c06Header(0x4244, 1, 0, 0, 0), q[:9]...)},
		c06Variant{"cut-in-label2", append(c06Header(0x4245, 1, 0, 0, 0), q[:15]...)},
		c06Variant{"cut-before-qtype", append(c06Header(0x4246, 1, 0, 0, 0), q[:len(q)-4]...)},
		c06Variant{"declares-opt", append(c06Header(0x4247, 1, 0, 0, 1), q...)},
		c06Variant{"declares-answer", append(c06Header(0x4248, 1, 1, 0, 0), q...)},
		c06Variant{"declares-2q", append(c06Header(0x4249, 2, 0, 0, 0), q...)},
		c06Variant{"declares-all", append(c06Header(0x424a, 1, 1, 1, 1), q...)},
		c06Variant{"hdr-only-ar1", c06Header(0x424b, 0, 0, 0, 1)},
	)
	// control with its own complete OPT
	m := new(dns.Msg)
	m.Id = 0x424c
	m.RecursionDesired = true
	m.Question = []dns.Question{{Name: c06NextName, Qtype: dns.TypeA, Qclass: dns.ClassINET}}
	m.SetEdns0(1232, false)
	b, _ := m.Pack()
	vs = append(vs, c06Variant{"control-edns", b})
	// a control that is LONGER than anything short that was processed before it
	ml := new(dns.Msg)
	ml.Id = 0x424d
	ml.RecursionDesired = true
	ml.Question = []dns.Question{{Name: strings.Repeat("benign-long-label-0123456789abcdef.", 6) + "example.", Qtype: dns.TypeAAAA, Qclass: dns.ClassINET}}
	ml.SetEdns0(1232, true)
	// (not a padding option: replies to padded queries are padded to a random length)
	ml.IsEdns0().Option = append(ml.IsEdns0().Option, &dns.EDNS0_LOCAL{Code: dns.EDNS0LOCALSTART, Data: make([]byte, 200)})
	bl, _ := ml.Pack()
	vs = append(vs, c06Variant{"control-long", bl})
	// an OPT cut in the middle of its RDATA
	vs = append(vs, c06Variant{"cut-in-opt", b[:len(b)-1]}, c06Variant{"cut-opt-rdlen", append(append([]byte{}, b[:len(b)-2]...), 0x00, 0x30)})
	return vs
}

func c06Flood(l *vlab, path string, payload func(i int) []byte, n int) {
	var wg sync.WaitGroup
	for g := 0; g < 8; g++ {
		wg.Add(1)
		go func(g int) {
			defer wg.Done()
			for i := 0; i < n/8; i++ {
				l.SendRaw(path, payload(g*1000+i))
			}
		}(g)
	}
	wg.Wait()
}

func c06Hex(bs [][]byte) []string {
	r := []string{}
	for _, b := range bs {
		r = append(r, hex.EncodeToString(b))
	}
	return r
}

func TestVerifC06Server(t *testing.T) {
	out := vhOpen(t)
	old := runtime.GOMAXPROCS(2) // fewer per-P pool caches: a dirtied buffer is more likely to be reused
	defer runtime.GOMAXPROCS(old)
	hw, hf := &c06Handler{}, &c06Handler{}
	warm := vlabStart(t, hw, vlabConf{NoDNSCrypt: true})
	fresh := vlabStart(t, hf, vlabConf{NoDNSCrypt: true})
	rounds := vhEnvInt("VERIF_ROUNDS", 3)
	flood := vhEnvInt("VERIF_FLOOD", 32)
	zero := make([]byte, 400)
	for _, path := range append(append([]string{}, vlabTransports...), "doh-get-wrapped", "doq-longprefix") {
		for round := 0; round < rounds; round++ {
			for _, v := range c06Variants() {
				c06Flood(warm, path, func(i int) []byte { return c06Sentinel(uint16(i)) }, flood)
				c06Flood(fresh, path, func(int) []byte { return zero }, 8)
				// ... and SHORT messages over the other plain transports and then over this one (whatever
				// was processed before: also messages shorter than `next`, also on another socket of the
				// same server)
				short := func(i int) []byte { return c06Header(uint16(0x3000+i), 0, 0, 0, 0) }
				for _, other := range []string{"tcp", "udp"} {
					if other != path {
						c06Flood(warm, other, short, 8)
					}
				}
				c06Flood(warm, path, short, 8)
				hw.take()
				hf.take()
				rw := warm.SendRaw(path, v.msg)
				dw := hw.take()
				rf := fresh.SendRaw(path, v.msg)
				df := hf.take()
				if len(rw.Replies) != len(rf.Replies) {
					// one side answered and the other did not within the short wait: before that counts as a
					// difference, both are asked once more, patiently (a machine shared with other jobs)
					ow, of := warm.Wait, fresh.Wait
					warm.Wait, fresh.Wait = 1500*time.Millisecond, 1500*time.Millisecond
					rw = warm.SendRaw(path, v.msg)
					dw = hw.take()
					rf = fresh.SendRaw(path, v.msg)
					df = hf.take()
					warm.Wait, fresh.Wait = ow, of
				}
				ev := c06Event{Ev: "Pair", Path: path, Variant: v.name, Round: round, NextHex: hex.EncodeToString(v.msg),
					Warm:  c06Side{Status: rw.Status, Note: rw.Note, Replies: c06Hex(rw.Replies), Decoded: dw},
					Fresh: c06Side{Status: rf.Status, Note: rf.Note, Replies: c06Hex(rf.Replies), Decoded: df}}
				all := strings.ToLower(strings.Join(dw, "|"))
				for _, r := range rw.Replies {
					all += "|" + strings.ToLower(string(r))
				}
				ev.Leak = strings.Contains(all, "sentinel-leak") || strings.Contains(all, "leakleak")
				// the exact way a silent transport ends (time-out, stream reset, connection
				// error) depends on timing; what counts is replies, status and decoding
				ev.Same = ev.Warm.Status == ev.Fresh.Status && fmt.Sprint(ev.Warm.Replies) == fmt.Sprint(ev.Fresh.Replies) &&
					fmt.Sprint(ev.Warm.Decoded) == fmt.Sprint(ev.Fresh.Decoded)
				out.Emit(ev)
			}
		}
	}
}

// c06BurstQuery is a well-formed query that identifies its sender and number
// in both the ID and the (variable-length) name.
func c06BurstQuery(client, i int) (b []byte, id uint16, name string) {
	id = uint16(client*4096 + i)
	name = fmt.Sprintf("c%d-q%d-%s.burst.example.", client, i, strings.Repeat("z", (client*7+i)%40))
	m := new(dns.Msg)
	m.Id = id
	m.RecursionDesired = true
	m.Question = []dns.Question{{Name: name, Qtype: dns.TypeA, Qclass: dns.ClassINET}}
	if i%3 == 0 {
		m.SetEdns0(1232, i%2 == 0)
	}
	b, _ = m.Pack()
	return b, id, name
}

// c06Own reports whether the reply bytes are an answer to one of the sender's
// own queries (ID and question) that spells out exactly that query as decoded.
func c06Own(reply []byte, own map[uint16]string) bool {
	r := new(dns.Msg)
	if r.Unpack(reply) != nil || len(r.Question) != 1 {
		return false
	}
	name, ok := own[r.Id]
	if !ok || r.Question[0].Name != name {
		return false
	}
	for _, rr := range r.Answer {
		if txt, isTXT := rr.(*dns.TXT); isTXT {
			want := fmt.Sprintf("id=%d;qd=1;", r.Id)
			if !strings.HasPrefix(strings.Join(txt.Txt, ""), want) || !strings.Contains(strings.Join(txt.Txt, ""), ";q="+name+"/1/1") {
				return false
			}
		}
	}
	return true
}

// TestVerifC06Burst: receive buffers shared by requests IN FLIGHT.  Several
// clients send different queries at the same time (over UDP also back to back
// from one socket each); every reply a client receives must answer one of its
// own queries, and the handler must have decoded only messages that were sent.
func TestVerifC06Burst(t *testing.T) {
	out := vhOpen(t)
	h := &c06Handler{}
	lab := vlabStart(t, h, vlabConf{NoDNSCrypt: true})
	rounds := vhEnvInt("VERIF_ROUNDS", 3)
	const clients = 8
	per := vhEnvInt("VERIF_BURST", 24)
	for _, path := range append([]string{"udp-burst"}, vlabTransports...) {
		for round := 0; round < rounds; round++ {
			h.take()
			sent := map[string]bool{}
			var mu sync.Mutex
			foreign, got := 0, 0
			var wg sync.WaitGroup
			for cl := 0; cl < clients; cl++ {
				own := map[uint16]string{}
				var msgs [][]byte
				for i := 0; i < per; i++ {
					b, id, name := c06BurstQuery(cl+1, i+round*per)
					own[id] = name
					msgs = append(msgs, b)
					sent[fmt.Sprintf("%d/%s", id, name)] = true
				}
				wg.Add(1)
				go func() {
					defer wg.Done()
					var replies [][]byte
					if path == "udp-burst" {
						c, err := net.Dial("udp", lab.udp.String())
						if err != nil {
							return
						}
						defer c.Close()
						for _, b := range msgs {
							_, _ = c.Write(b)
						}
						buf := make([]byte, 65536)
						for {
							_ = c.SetReadDeadline(time.Now().Add(300 * time.Millisecond))
							n, rerr := c.Read(buf)
							if rerr != nil {
								break
							}
							replies = append(replies, append([]byte{}, buf[:n]...))
						}
					} else {
						for _, b := range msgs[:per/3+1] {
							replies = append(replies, lab.SendRaw(path, b).Replies...)
						}
					}
					mu.Lock()
					defer mu.Unlock()
					for _, r := range replies {
						got++
						if !c06Own(r, own) {
							foreign++
						}
					}
				}()
			}
			wg.Wait()
			unsent := 0
			for _, s := range h.take() {
				// id=<id>;qd=1;an=0;ns=0;ar=<n>;q=<name>/1/1...
				var id int
				_, _ = fmt.Sscanf(s, "id=%d;", &id)
				i := strings.Index(s, ";q=")
				name := ""
				if i >= 0 {
					name = strings.SplitN(s[i+3:], "/", 2)[0]
				}
				if !sent[fmt.Sprintf("%d/%s", id, name)] {
					unsent++
				}
			}
			out.Emit(map[string]any{"ev": "Burst", "path": path, "variant": "burst", "round": round, "nexthex": "",
				"replies": got, "foreign": foreign, "unsent": unsent, "same": foreign == 0, "leak": unsent > 0})
		}
	}
}
