//go:build verif

package dnsserver_test

// C01, socket level.  The real servers (plain DNS over UDP and TCP, DoT, DoH,
// DoQ, DNSCrypt) run on 127.0.0.1 with ONE deterministic handler
// (dnsserver.C01Handler, defined in c01_test.go).  Part A sends one input per
// class over every transport and follows every input that is not an answered
// query with a valid probe on the same transport.  Part B sends the same query
// set over all nine transport variants and records the parsed replies for the
// cross-transport comparison.  Nothing is asserted here: TraceDispatch.tla
// decides.

import (
	"bufio"
	"bytes"
	"context"
	"crypto/tls"
	"encoding/binary"
	"encoding/hex"
	"encoding/json"
	"errors"
	"fmt"
	"io"
	"math/rand"
	"net"
	"net/http"
	"os"
	"os/exec"
	"strings"
	"testing"
	"time"

	"github.com/AdguardTeam/AdGuardDNS/internal/dnsserver"
	"github.com/AdguardTeam/AdGuardDNS/internal/dnsserver/dnsservertest"
	"github.com/AdguardTeam/golibs/log"
	"github.com/ameshkov/dnscrypt/v2"
	"github.com/ameshkov/dnsstamps"
	"github.com/miekg/dns"
	"github.com/quic-go/quic-go"
)

var c01AllTransports = []string{"udp", "tcp", "dot", "doh-post", "doh-get", "doh-json", "doq", "dnscrypt-udp", "dnscrypt-tcp"}

// c01DC is a raw DNSCrypt client: arbitrary plaintext is encrypted with the
// session keys, every reply is decrypted and returned as raw bytes.
type c01DC struct {
	ri   *dnscrypt.ResolverInfo
	addr string
}

func c01DialDNSCrypt(dc *dnsservertest.TestDNSCryptServer) (d *c01DC, err error) {
	cl := &dnscrypt.Client{Net: "udp", Timeout: 3 * time.Second}
	stamp := dnsstamps.ServerStamp{ServerAddrStr: dc.ServerAddr, ServerPk: dc.ResolverPk, ProviderName: dc.ProviderName,
		Proto: dnsstamps.StampProtoTypeDNSCrypt}
	for i := 0; i < 3; i++ {
		var ri *dnscrypt.ResolverInfo
		if ri, err = cl.DialStamp(stamp); err == nil {
			return &c01DC{ri: ri, addr: dc.ServerAddr}, nil
		}
	}
	return nil, err
}

func (d *c01DC) send(network string, payload []byte, wait time.Duration) (r vlabResult) {
	q := dnscrypt.EncryptedQuery{EsVersion: d.ri.ResolverCert.EsVersion, ClientMagic: d.ri.ResolverCert.ClientMagic, ClientPk: d.ri.PublicKey}
	enc, err := q.Encrypt(payload, d.ri.SharedKey)
	if err != nil {
		return vlabResult{Note: "err:encrypt:" + err.Error()}
	}
	conn, err := net.DialTimeout(network, d.addr, 2*time.Second)
	if err != nil {
		return vlabResult{Note: "err:" + err.Error()}
	}
	defer conn.Close()
	if network == "tcp" {
		enc = append(binary.BigEndian.AppendUint16(nil, uint16(len(enc))), enc...)
	}
	if _, err = conn.Write(enc); err != nil {
		return vlabResult{Note: "err:" + err.Error()}
	}
	first := 4 * wait
	buf := make([]byte, 65536)
	for {
		_ = conn.SetReadDeadline(time.Now().Add(first))
		var b []byte
		if network == "udp" {
			n, rerr := conn.Read(buf)
			if rerr != nil {
				if len(r.Replies) == 0 {
					r.Note = "timeout"
				}
				return r
			}
			b = buf[:n]
		} else {
			var n uint16
			if rerr := binary.Read(conn, binary.BigEndian, &n); rerr != nil {
				var ne net.Error
				if errors.As(rerr, &ne) && ne.Timeout() {
					if len(r.Replies) == 0 {
						r.Note = "timeout"
					}
				} else {
					r.Note = "closed"
				}
				return r
			}
			b = make([]byte, n)
			if _, rerr := io.ReadFull(conn, b); rerr != nil {
				r.Note = "err:short reply"
				return r
			}
		}
		er := dnscrypt.EncryptedResponse{EsVersion: d.ri.ResolverCert.EsVersion}
		plain, derr := er.Decrypt(b, d.ri.SharedKey)
		if derr != nil {
			r.Note = "err:decrypt:" + derr.Error()
			return r
		}
		r.Replies = append(r.Replies, append([]byte{}, plain...))
		first = wait
	}
}

// c01Lab sends one input over one transport variant and abstracts what came back.
type c01Lab struct {
	l  *vlab
	dc *c01DC
	h  *dnsserver.C01Handler
}

// c01Kind abstracts the way an exchange without a DNS response ended.
func c01Kind(t string, r vlabResult) string {
	if len(r.Replies) > 0 {
		return "resp"
	}
	if strings.HasPrefix(r.Note, "err:") {
		return "lab:" + r.Note // the laboratory failed, not the server
	}
	switch t {
	case "udp", "dnscrypt-udp":
		return "drop"
	case "tcp", "dot", "dnscrypt-tcp":
		if r.Note == "closed" {
			return "close"
		}
		return "drop"
	case "doh-post", "doh-get", "doh-json":
		switch r.Status {
		case 400:
			return "http400"
		case 500:
			return "http500"
		case 200:
			return "httpempty"
		}
		return fmt.Sprintf("http%d", r.Status)
	case "doq":
		switch {
		case r.Note == "closed:conn-error-2":
			return "quicproto"
		case r.Note == "timeout":
			return "drop"
		default:
			return "close"
		}
	}
	return "lab:unknown transport"
}

func (c *c01Lab) raw(t string, payload []byte) vlabResult {
	switch t {
	case "dnscrypt-udp":
		return c.dc.send("udp", payload, c.l.Wait)
	case "dnscrypt-tcp":
		return c.dc.send("tcp", payload, c.l.Wait)
	}
	return c.l.SendRaw(t, payload)
}

// exchange performs one input and fills the event.  q is the question for the
// JSON API (payload is ignored there), expectReply asks for patience.
func (c *c01Lab) exchange(ev *dnsserver.C01Event, payload []byte, jsonRaw string, jq *dns.Question, expectReply bool) {
	t := ev.T
	c.h.Take()
	var r vlabResult
	var jbody []byte
	do := func() {
		if t == "doh-json" {
			st, body, err := c.l.SendJSON(jsonRaw)
			r = vlabResult{Status: st}
			jbody = nil
			if err != nil {
				r.Note = "err:" + err.Error()
			} else if st == 200 && len(body) > 0 {
				jbody = body
			}
			return
		}
		r = c.raw(t, payload)
	}
	do()
	// A slow machine must not look like a silent server or like a connection
	// left hanging: when nothing at all happened within the short wait, ask once
	// more, patiently -- always where a reply is due, and on every transport on
	// which silence is distinguishable from a closed stream.
	patient := expectReply || (t != "udp" && t != "dnscrypt-udp")
	retried := false
	if patient && len(r.Replies) == 0 && jbody == nil && (r.Note == "timeout" || strings.HasPrefix(r.Note, "err:")) {
		old := c.l.Wait
		c.l.Wait = time.Duration(vhEnvInt("VERIF_PATIENT_MS", 600)) * time.Millisecond
		do()
		c.l.Wait = old
		ev.Note, retried = "retried;", true
	}
	calls, hreq, hresp := c.h.Take()
	if retried && calls > 1 {
		calls = 1 // the first copy of the input may have been served late
	}
	ev.Called, ev.Status, ev.Note = calls, r.Status, ev.Note+r.Note
	if t == "doh-json" {
		if jbody != nil && jq != nil {
			jm, ans, extra, err := dnsserver.C01JSONToMsg(jbody, 0, jq.Qclass)
			if err != nil {
				ev.Kind, ev.Rcode, ev.Note = "badjson", "-", ev.Note+err.Error()
				return
			}
			b, perr := jm.Pack()
			if perr != nil {
				ev.Kind, ev.Rcode, ev.Note = "badjson", "-", ev.Note+perr.Error()
				return
			}
			dnsserver.C01Observe(ev, 0, []dns.Question{*jq}, [][]byte{b}, nil)
			ev.HWrote = hresp != nil
			if hresp != nil {
				hc := dnsserver.C01CoreOf(hresp)
				ev.RcEq, ev.AnsEq, ev.NsEq, ev.ExtEq = dnsserver.C01RcodeName(jm.Rcode) == hc.Rcode, ans == hc.Ans, true, extra == hc.Extra
			}
			if hreq == nil || len(hreq.Question) != 1 || hreq.Question[0] != *jq {
				ev.QOK = false
				ev.Detail += fmt.Sprintf("handler saw %v, requested %v; ", hreq, *jq)
			}
			ev.Kind = "resp"
			ev.Items = []dnsserver.C01Item{{T: t, N: 1, Rcode: dnsserver.C01RcodeName(jm.Rcode), Ans: ans, Ns: "n/a", Extra: extra, TC: jm.Truncated}}
			return
		}
		dnsserver.C01Observe(ev, 0, nil, nil, hresp)
		if jbody != nil {
			ev.N, ev.QOK, ev.Kind = 1, false, "resp"
		} else {
			ev.Kind = c01Kind(t, r)
		}
		ev.Items = []dnsserver.C01Item{{T: t, N: ev.N, Rcode: "-", Ns: "n/a"}}
		return
	}
	var id uint16
	if len(payload) >= 2 {
		id = binary.BigEndian.Uint16(payload)
	}
	var rq []dns.Question
	m := new(dns.Msg)
	if m.Unpack(payload) == nil {
		rq = m.Question
	}
	dnsserver.C01Observe(ev, id, rq, r.Replies, hresp)
	ev.Kind = c01Kind(t, r)
	it := dnsserver.C01Item{T: t, N: ev.N, Rcode: ev.Rcode, TC: ev.TC}
	if len(r.Replies) > 0 {
		rm := new(dns.Msg)
		if rm.Unpack(r.Replies[0]) == nil {
			co := dnsserver.C01CoreOf(rm)
			it.Ans, it.Ns, it.Extra = co.Ans, co.Ns, co.Extra
		}
	}
	ev.Items = []dnsserver.C01Item{it}
}

func c01Query(rnd *rand.Rand, name string, qt, qc uint16) *dns.Msg {
	m := new(dns.Msg)
	m.Id = uint16(rnd.Intn(65536))
	m.RecursionDesired = true
	m.Question = []dns.Question{{Name: name, Qtype: qt, Qclass: qc}}
	return m
}

func c01Pack(m *dns.Msg) []byte {
	b, err := m.Pack()
	if err != nil {
		panic(err)
	}
	return b
}

// c01Garbage returns the part A inputs: label, payload.
func c01Garbage(rnd *rand.Rand, per, nRandom int) (res [][2]any) {
	add := func(gen string, b []byte) { res = append(res, [2]any{gen, b}) }
	rr := func(i int) dns.RR {
		return &dns.SOA{Hdr: dns.RR_Header{Name: "z.example.", Rrtype: dns.TypeSOA, Class: dns.ClassINET, Ttl: 5}, Ns: "a.", Mbox: "b.", Serial: uint32(i)}
	}
	for i := 0; i < per; i++ {
		name := dnsserver.C01Name(rnd, []int{1, 0, 7, 5, 6}[i%5])
		short := make([]byte, 1+rnd.Intn(11))
		rnd.Read(short)
		add("short", short)
		un := make([]byte, 14+rnd.Intn(60))
		rnd.Read(un)
		un[2], un[3], un[4], un[5], un[12] = 1, 0, 0, 1, 0x7f // a query whose question starts with a reserved label type
		add("undecodable", un)
		m := c01Query(rnd, name, dns.TypeA, dns.ClassINET)
		m.Response = true
		if i%2 == 1 {
			m.Answer = []dns.RR{rr(i)}
			m.RecursionAvailable = true
		}
		add("qr", c01Pack(m))
		m = c01Query(rnd, name, dns.TypeA, dns.ClassINET)
		m.Opcode = []int{dns.OpcodeStatus, dns.OpcodeUpdate, dns.OpcodeIQuery, 3, 6, 15}[i%6]
		add("opcode", c01Pack(m))
		m = c01Query(rnd, name, dns.TypeSOA, dns.ClassINET)
		m.Opcode = dns.OpcodeNotify
		if i%2 == 0 {
			m.Answer = []dns.RR{rr(i)}
		}
		add("notify", c01Pack(m))
		m = c01Query(rnd, name, dns.TypeA, dns.ClassINET)
		m.Question = nil
		add("qd0", c01Pack(m))
		m = c01Query(rnd, name, dns.TypeA, dns.ClassINET)
		m.Question = append(m.Question, dns.Question{Name: dnsserver.C01Name(rnd, 0), Qtype: dns.TypeAAAA, Qclass: dns.ClassINET})
		add("qd2", c01Pack(m))
		m = c01Query(rnd, name, dns.TypeA, dns.ClassINET)
		m.Answer = []dns.RR{rr(1), rr(2)}
		add("an2", c01Pack(m))
		m = c01Query(rnd, name, dns.TypeA, dns.ClassINET)
		m.Ns = []dns.RR{rr(1), rr(2)}
		add("ns2", c01Pack(m))
		m = c01Query(rnd, name, dns.TypeIXFR, dns.ClassINET)
		m.Ns = []dns.RR{rr(1)}
		add("ns1", c01Pack(m))
		for _, mode := range []string{"h-nothing", "H-Error", "h-neterr", "h-PANIC"} {
			m = c01Query(rnd, fmt.Sprintf("%s%d.%s", mode, i, "Example.org."), []uint16{dns.TypeA, dns.TypeTXT}[i%2], dns.ClassINET)
			if i%2 == 1 {
				dnsserver.C01AddEDNS(rnd, m, 1)
			}
			add("handler-"+strings.ToLower(mode[2:]), c01Pack(m))
		}
	}
	for i := 0; i < nRandom; i++ {
		n := []int{rnd.Intn(13), 12 + rnd.Intn(30), rnd.Intn(300)}[i%3]
		b := make([]byte, n)
		rnd.Read(b)
		add("random", b)
	}
	// byte strings longer than the plain-DNS server's datagram buffer (512 octets by default): over UDP
	// only the head of such a datagram is seen; whatever is made of it, the listener stays up
	for _, n := range []int{513, 600, 1400} {
		b := make([]byte, n)
		rnd.Read(b)
		b[2] &^= 0x80                   // a query, so that it is not simply ignored as a response
		b[4], b[5] = 0xff, 0xff         // more questions than any message can carry: never decodable
		add("random", b)
	}
	return res
}

func TestVerifC01Sock(t *testing.T) {
	out := vhOpen(t)
	// what the servers log (recovered panics with their stacks, and their last words before
	// handlePanicAndExit ends the process) is kept for the check
	log.SetOutput(io.Discard)
	if lf, lerr := os.Create(os.Getenv("VERIF_OUT") + ".serverlog"); lerr == nil {
		log.SetOutput(lf)
	}
	rnd := rand.New(rand.NewSource(vhSeed()))
	h := &dnsserver.C01Handler{}
	l := vlabStart(t, h, vlabConf{})
	l.Wait = time.Duration(vhEnvInt("VERIF_WAIT_MS", 25)) * time.Millisecond
	dc, err := c01DialDNSCrypt(l.dc)
	if err != nil {
		t.Fatalf("dnscrypt dial: %v", err)
	}
	lab := &c01Lab{l: l, dc: dc, h: h}
	per := vhEnvInt("VERIF_PER_CLASS", 1)
	nRandom := vhEnvInt("VERIF_RANDOM", 6)
	nEq := vhEnvInt("VERIF_EQ", 12)

	probe := func(tr string) string {
		q := dns.Question{Name: "Probe.c01.example.", Qtype: dns.TypeA, Qclass: dns.ClassINET}
		m := c01Query(rnd, q.Name, q.Qtype, q.Qclass)
		pe := &dnsserver.C01Event{T: tr, H: "writes"}
		lab.exchange(pe, c01Pack(m), dnsserver.C01JSONQuery(q, false, false, false), &q, true)
		if pe.N == 1 && pe.IDOK && pe.QOK && pe.HWrote && pe.RcEq && pe.AnsEq {
			return "ok"
		}
		return "fail"
	}
	emit := func(ev *dnsserver.C01Event) {
		ev.Cnt = 1
		if ev.More == nil {
			ev.More = []string{}
		}
		if ev.Items == nil {
			ev.Items = []dnsserver.C01Item{}
		}
		out.Emit(ev)
	}
	expectReply := func(ev *dnsserver.C01Event) bool {
		if ev.Wire != "dec" || ev.QR {
			return false
		}
		if strings.HasPrefix(ev.T, "dnscrypt") && ev.QD != 1 {
			return false // discarded by the DNSCrypt library
		}
		return ev.H == "-" || ev.H == "writes" || ev.H == "error" || ev.H == "neterror"
	}

	// ---- part A: one input, then a probe
	for _, g := range c01Garbage(rnd, per, nRandom) {
		gen, payload := g[0].(string), g[1].([]byte)
		for _, tr := range c01AllTransports {
			if tr == "doh-json" {
				continue
			}
			ev := &dnsserver.C01Event{Ev: "In", Src: "sock", T: tr, Gen: gen, Hex: hex.EncodeToString(payload)}
			dnsserver.C01Classify(ev, payload)
			if ev.H == "panic" && strings.HasPrefix(tr, "dnscrypt") {
				c01PanicChild(t, ev)
				emit(ev)
				continue
			}
			lab.exchange(ev, payload, "", nil, expectReply(ev))
			ev.Items = nil
			ev.Probe = "na"
			if !(ev.H == "writes" && ev.Kind == "resp") {
				ev.Probe = probe(tr)
			}
			emit(ev)
		}
	}
	// the JSON API: invalid requests and the handler outcomes
	for i, raw := range dnsserver.C01BadJSONQueries {
		if per < 3 && i%4 != 1 {
			continue
		}
		ev := &dnsserver.C01Event{Ev: "In", Src: "sock", T: "doh-json", Gen: "json-bad-parameter", Hex: raw, Wire: "undec", Op: "QUERY", H: "-"}
		lab.exchange(ev, nil, raw, nil, false)
		ev.Items = nil
		ev.Probe = probe("doh-json")
		emit(ev)
	}
	for i, raw := range dnsserver.C01BadGetQueries {
		if per < 3 && i%4 != 2 {
			continue
		}
		ev := &dnsserver.C01Event{Ev: "In", Src: "sock", T: "doh-get", Gen: "get-bad-parameter", Hex: raw, Wire: "undec", Op: "QUERY", H: "-"}
		st, _, jerr := c01RawGet(l, raw)
		ev.Status, ev.Rcode, ev.IDOK, ev.QOK = st, "-", true, true
		ev.Kind = c01Kind("doh-get", vlabResult{Status: st})
		if jerr != nil {
			ev.Kind = "lab:err:" + jerr.Error()
		}
		ev.Called, _, _ = h.Take()
		ev.Probe = probe("doh-get")
		emit(ev)
	}
	for i := 0; i < per; i++ {
		for _, mode := range []string{"h-nothing", "h-error", "H-NetErr", "h-panic"} {
			q := dns.Question{Name: fmt.Sprintf("%s%d.Json.example.", mode, i), Qtype: dns.TypeAAAA, Qclass: dns.ClassINET}
			raw := dnsserver.C01JSONQuery(q, i%2 == 1, false, false)
			ev := &dnsserver.C01Event{Ev: "In", Src: "sock", T: "doh-json", Gen: "json-handler", Hex: raw, Wire: "dec", Op: "QUERY", QD: 1, H: dnsserver.C01Mode(q.Name)}
			lab.exchange(ev, nil, raw, &q, ev.H == "error" || ev.H == "neterror")
			ev.Items = nil
			ev.Probe = probe("doh-json")
			emit(ev)
		}
	}

	// ---- part B: the same queries over all nine transport variants
	for i := 0; i < nEq; i++ {
		var name string
		for {
			name = dnsserver.C01Name(rnd, i)
			if cn, ok := dnsserver.C01Canon(name); ok && cn == name && len(name) <= 254 {
				break
			}
		}
		types := []uint16{1, 28, 16, 15, 65, 255, 0, 65535, 2, 5, 6, 12, 33, 43, 48, 257, 64, 99, 252, 41}
		classes := []uint16{1, 1, 1, 3, 1, 255, 1, 0, 1, 65535, 1, 4, 254}
		qt, qc := types[(i/2)%len(types)], classes[(i/3)%len(classes)]
		switch i % 16 {
		case 9:
			name = "h-error" + fmt.Sprint(i) + ".Eq.example."
		case 13:
			name = "H-NETERR" + fmt.Sprint(i) + ".eq.Example."
		}
		m := c01Query(rnd, name, qt, qc)
		do := false
		if i%3 == 1 {
			dnsserver.C01AddEDNS(rnd, m, i/3) // i/3 odd -> DO set
			do = m.IsEdns0().Do()
		}
		m.CheckingDisabled = i%5 == 4
		if i%7 == 6 {
			m.AuthenticatedData = true
		}
		payload := c01Pack(m)
		q := m.Question[0]
		key := fmt.Sprintf("q%d", i)
		eq := &dnsserver.C01Event{Ev: "Eq", Src: "sock", Key: key, Hex: hex.EncodeToString(payload), H: dnsserver.C01Mode(q.Name), Gen: "equivalence"}
		for _, tr := range c01AllTransports {
			ev := &dnsserver.C01Event{Ev: "In", Src: "sock", T: tr, Gen: "equivalence", Key: key, Hex: hex.EncodeToString(payload)}
			dnsserver.C01Classify(ev, payload)
			raw := ""
			if tr == "doh-json" {
				raw = dnsserver.C01JSONQuery(q, do, m.CheckingDisabled, i%2 == 0)
				ev.Hex = raw
			}
			lab.exchange(ev, payload, raw, &q, true)
			eq.Items = append(eq.Items, ev.Items...)
			ev.Items = nil
			ev.Probe = "na"
			if ev.Kind != "resp" {
				ev.Probe = probe(tr)
			}
			emit(ev)
		}
		emit(eq)
	}
	// ---- part C: long-lived connections: many well-formed queries over ONE connection, the way stub
	// resolvers and browsers use the stream transports (a DoQ client sends its FIN in a later frame than
	// the data; a TCP client one query after the other).  Every one of them is an accepted query.
	nReuse := vhEnvInt("VERIF_REUSE", 130)
	// ... and clients that half-close the connection right after their query (shutdown(SHUT_WR), TLS
	// close_notify) and then wait for the answer, which takes the handler a moment
	for _, tr := range []string{"tcp", "dot"} {
		const nHalf = 12
		got := 0
		for i := 0; i < nHalf; i++ {
			if c01HalfClose(l, tr, i) {
				got++
			}
		}
		ev := &dnsserver.C01Event{Ev: "Reuse", Src: "sock", T: tr, Gen: "halfclose", Kind: "resp", N: got, H: "writes", Probe: "na",
			Key: fmt.Sprintf("%d %s connections half-closed by the client right after a query whose answer takes 60 ms", nHalf, tr),
			More: []string{}, Items: []dnsserver.C01Item{}}
		ev.Cnt = nHalf
		out.Emit(ev)
	}
	for _, tr := range []string{"tcp", "dot", "doh", "doq"} {
		got := c01Reuse(l, tr, nReuse)
		ev := &dnsserver.C01Event{Ev: "Reuse", Src: "sock", T: tr, Gen: "reuse", Kind: "resp", N: got, H: "writes", Probe: "na",
			Key: fmt.Sprintf("%d queries over one %s connection", nReuse, tr), More: []string{}, Items: []dnsserver.C01Item{}}
		ev.Cnt = nReuse
		out.Emit(ev)
	}

}

func newC01Get(u string) (*http.Request, error) {
	req, err := http.NewRequest(http.MethodGet, u, nil)
	if err != nil {
		return nil, err
	}
	req.Header.Set("Accept", dnsserver.MimeTypeDoH)
	return req, nil
}

// c01RawGet performs a DoH GET with a verbatim query string.
func c01RawGet(l *vlab, raw string) (status int, body []byte, err error) {
	req, err := newC01Get("https://test.local" + dnsserver.PathDoH + "?" + raw)
	if err != nil {
		return 0, nil, err
	}
	resp, err := l.dohCl.Do(req)
	if err != nil {
		return 0, nil, err
	}
	defer resp.Body.Close()
	body, _ = io.ReadAll(resp.Body)
	return resp.StatusCode, body, nil
}

// ---------------------------------------------------------------- the child

// c01PanicChild sends the handler-panic query over DNSCrypt in a child process
// (nothing recovers a panic below dnsCryptHandler.ServeDNS in the library's
// goroutine, so the process may die) and records what the child reported.
func c01PanicChild(t *testing.T, ev *dnsserver.C01Event) {
	cmd := exec.Command(os.Args[0], "-test.run=^TestVerifC01Child$", "-test.timeout=60s")
	cmd.Env = append(os.Environ(), "VERIF_C01_CHILD="+ev.T, "VERIF_C01_CHILD_HEX="+ev.Hex)
	var ob bytes.Buffer
	cmd.Stdout, cmd.Stderr = &ob, &ob
	rerr := cmd.Run()
	got := map[string]dnsserver.C01Event{}
	sc := bufio.NewScanner(&ob)
	sc.Buffer(make([]byte, 1<<20), 1<<20)
	var tail []string
	for sc.Scan() {
		line := sc.Text()
		if rest, ok := strings.CutPrefix(line, "C01CHILD "); ok {
			var ce dnsserver.C01Event
			if json.Unmarshal([]byte(rest), &ce) == nil {
				got[ce.Gen] = ce
			}
		} else if len(tail) < 6 && strings.TrimSpace(line) != "" {
			tail = append(tail, line)
		}
	}
	in, okIn := got["in"]
	pr, okPr := got["probe"]
	gen, tr, hx := ev.Gen, ev.T, ev.Hex
	switch {
	case got["ready"].Gen == "" && rerr != nil:
		*ev = dnsserver.C01Event{Kind: "lab:child did not start: " + strings.Join(tail, " | ")}
	case okIn && okPr:
		*ev = in
		ev.Probe = pr.Probe
	default:
		// the process died while or right after handling the input
		*ev = dnsserver.C01Event{Kind: "escaped", Rcode: "-", IDOK: true, QOK: true, Called: 1, Probe: "fail",
			Note: fmt.Sprintf("child process ended (%v): %s", rerr, strings.Join(tail, " | "))}
		if okIn {
			ev.Kind = in.Kind
		}
	}
	ev.Ev, ev.Src, ev.T, ev.Gen, ev.Hex = "In", "sock", tr, gen, hx
	payload, _ := hex.DecodeString(hx)
	keep := *ev
	dnsserver.C01Classify(ev, payload)
	ev.Kind, ev.N, ev.Called, ev.Rcode, ev.IDOK, ev.QOK, ev.Probe, ev.Note = keep.Kind, keep.N, keep.Called, keep.Rcode, keep.IDOK, keep.QOK, keep.Probe, keep.Note
	if len(ev.Note) > 400 {
		ev.Note = ev.Note[:400]
	}
}

func TestVerifC01Child(t *testing.T) {
	tr := os.Getenv("VERIF_C01_CHILD")
	if tr == "" {
		t.Skip("not a child")
	}
	say := func(ev dnsserver.C01Event) {
		b, _ := json.Marshal(ev)
		fmt.Printf("\nC01CHILD %s\n", b)
		os.Stdout.Sync()
	}
	payload, _ := hex.DecodeString(os.Getenv("VERIF_C01_CHILD_HEX"))
	h := &dnsserver.C01Handler{}
	srv := dnsservertest.RunDNSCryptServer(t, h)
	dc, err := c01DialDNSCrypt(srv)
	if err != nil {
		t.Fatalf("dial: %v", err)
	}
	say(dnsserver.C01Event{Gen: "ready"})
	// (one input per child process: a generous wait costs little and keeps a loaded machine from
	// turning a late handler call into "the handler was not entered")
	lab := &c01Lab{l: &vlab{Wait: 1500 * time.Millisecond}, dc: dc, h: h}
	ev := dnsserver.C01Event{T: tr, Gen: "in"}
	dnsserver.C01Classify(&ev, payload)
	lab.exchange(&ev, payload, "", nil, false)
	time.Sleep(300 * time.Millisecond)
	ev.Gen, ev.Items = "in", nil
	say(ev)
	rnd := rand.New(rand.NewSource(1))
	m := c01Query(rnd, "Probe.c01.example.", dns.TypeA, dns.ClassINET)
	pe := dnsserver.C01Event{T: tr, H: "writes"}
	lab.l.Wait = 1500 * time.Millisecond
	lab.exchange(&pe, c01Pack(m), "", nil, true)
	pe.Gen, pe.Items, pe.Probe = "probe", nil, "fail"
	if pe.N == 1 && pe.IDOK && pe.QOK && pe.HWrote && pe.RcEq && pe.AnsEq {
		pe.Probe = "ok"
	}
	say(pe)
}

// c01Reuse sends n well-formed queries one after the other over ONE connection of the transport
// and returns how many got their own answer (ID and question).
func c01Reuse(l *vlab, tr string, n int) (answered int) {
	mk := func(i int) (*dns.Msg, []byte) {
		m := new(dns.Msg).SetQuestion(fmt.Sprintf("reuse%d.c01.example.", i), dns.TypeA)
		m.Id = uint16(20000 + i)
		b, _ := m.Pack()
		return m, b
	}
	own := func(m *dns.Msg, raw []byte) bool {
		r := new(dns.Msg)
		return r.Unpack(raw) == nil && r.Id == m.Id && len(r.Question) == 1 && r.Question[0] == m.Question[0]
	}
	switch tr {
	case "tcp", "dot":
		var c net.Conn
		var err error
		if tr == "tcp" {
			c, err = net.DialTimeout("tcp", l.tcp.String(), 2*time.Second)
		} else {
			c, err = tls.DialWithDialer(&net.Dialer{Timeout: 2 * time.Second}, "tcp", l.dot.String(), l.tlsConf.Clone())
		}
		if err != nil {
			return 0
		}
		defer c.Close()
		for i := 0; i < n; i++ {
			m, b := mk(i)
			if _, err = c.Write(append(binary.BigEndian.AppendUint16(nil, uint16(len(b))), b...)); err != nil {
				return answered
			}
			_ = c.SetReadDeadline(time.Now().Add(3 * time.Second))
			var ln uint16
			if binary.Read(c, binary.BigEndian, &ln) != nil {
				return answered
			}
			raw := make([]byte, ln)
			if _, err = io.ReadFull(c, raw); err != nil {
				return answered
			}
			if own(m, raw) {
				answered++
			}
		}
	case "doh":
		for i := 0; i < n; i++ {
			m, b := mk(i)
			r := l.sendDoH(true, b)
			if len(r.Replies) == 1 && own(m, r.Replies[0]) {
				answered++
			}
		}
	case "doq":
		cc := l.tlsConf.Clone()
		cc.NextProtos = dnsserver.NextProtoDoQ
		ctx, cancel := context.WithTimeout(context.Background(), 60*time.Second)
		defer cancel()
		conn, err := quic.DialAddr(ctx, l.doq.String(), cc, &quic.Config{})
		if err != nil {
			return 0
		}
		defer func() { _ = conn.CloseWithError(0, "") }()
		for i := 0; i < n; i++ {
			m, b := mk(i)
			m.Id = 0 // RFC 9250, 4.2.1
			b, _ = m.Pack()
			sctx, scancel := context.WithTimeout(ctx, 3*time.Second)
			stream, serr := conn.OpenStreamSync(sctx)
			scancel()
			if serr != nil {
				return answered // no stream credit left: the rest goes unanswered
			}
			if _, err = stream.Write(append(binary.BigEndian.AppendUint16(nil, uint16(len(b))), b...)); err != nil {
				return answered
			}
			time.Sleep(time.Millisecond) // the FIN travels in a later frame than the data
			_ = stream.Close()
			_ = stream.SetReadDeadline(time.Now().Add(3 * time.Second))
			all, _ := io.ReadAll(stream)
			if len(all) >= 2 && len(all) >= 2+int(binary.BigEndian.Uint16(all)) && own(m, all[2:2+int(binary.BigEndian.Uint16(all))]) {
				answered++
			}
		}
	}
	return answered
}

// c01HalfClose sends one query, closes the sending direction and reports whether the query's own
// answer arrives nevertheless.
func c01HalfClose(l *vlab, tr string, i int) bool {
	m := new(dns.Msg).SetQuestion(fmt.Sprintf("slow%d.c01.example.", i), dns.TypeA)
	m.Id = uint16(30000 + i)
	b, _ := m.Pack()
	var c net.Conn
	var err error
	if tr == "tcp" {
		c, err = net.DialTimeout("tcp", l.tcp.String(), 2*time.Second)
	} else {
		c, err = tls.DialWithDialer(&net.Dialer{Timeout: 2 * time.Second}, "tcp", l.dot.String(), l.tlsConf.Clone())
	}
	if err != nil {
		return false
	}
	defer c.Close()
	if _, err = c.Write(append(binary.BigEndian.AppendUint16(nil, uint16(len(b))), b...)); err != nil {
		return false
	}
	switch cc := c.(type) {
	case *net.TCPConn:
		_ = cc.CloseWrite()
	case *tls.Conn:
		_ = cc.CloseWrite()
	}
	_ = c.SetReadDeadline(time.Now().Add(3 * time.Second))
	var ln uint16
	if binary.Read(c, binary.BigEndian, &ln) != nil {
		return false
	}
	raw := make([]byte, ln)
	if _, err = io.ReadFull(c, raw); err != nil {
		return false
	}
	r := new(dns.Msg)
	return r.Unpack(raw) == nil && r.Id == m.Id && len(r.Question) == 1 && r.Question[0] == m.Question[0]
}
