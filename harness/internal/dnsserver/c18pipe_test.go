//go:build verif

package dnsserver

// C18 pipeline part: a real ServerDNS (plain TCP) and ServerTLS (DoT) with
// MaxPipelineCount = k; a burst of n queries is written on one connection;
// the handler is a gate.  Enter/Exit events are emitted by the handler under
// the harness mutex (so their order is the real order); TracePipeline.tla
// checks that no Enter happens with k handlers active.

import (
	"context"
	"crypto/tls"
	"encoding/binary"
	"fmt"
	"io"
	"math/rand"
	"net"
	"sync"
	"testing"
	"time"

	"github.com/miekg/dns"
)

type c18Gate struct {
	mu        sync.Mutex
	out       *vhOut
	active    int
	maxActive int
	release   map[int]chan struct{}
	entered   chan int
}

func (g *c18Gate) ServeDNS(ctx context.Context, rw ResponseWriter, req *dns.Msg) error {
	var q int
	fmt.Sscanf(req.Question[0].Name, "q%d.", &q)
	ch := make(chan struct{})
	g.mu.Lock()
	g.active++
	if g.active > g.maxActive {
		g.maxActive = g.active
	}
	g.release[q] = ch
	g.out.Emit(map[string]any{"ev": "Enter", "q": q})
	g.mu.Unlock()
	g.entered <- q
	<-ch
	resp := new(dns.Msg).SetReply(req)
	g.mu.Lock()
	g.active--
	g.out.Emit(map[string]any{"ev": "Exit", "q": q})
	g.mu.Unlock()
	return rw.WriteMsg(ctx, req, resp)
}

// c18CtxCons builds request contexts that expire, like dnssvc's constructor.
type c18CtxCons struct{ timeout time.Duration }

func (c c18CtxCons) New() (context.Context, context.CancelFunc) {
	return context.WithTimeout(context.Background(), c.timeout)
}

func c18PipeBurst(t *testing.T, out *vhOut, rng *rand.Rand, useTLS bool, k, n int) {
	c18PipeBurstCtx(t, out, rng, useTLS, k, n, 0, false)
}

// c18PipeBurstCtx: with ctxTimeout > 0 the request contexts expire after it and the
// handlers (which ignore the context, as a slow upstream exchange may) are
// released only after the deadline has passed and more queries have arrived.
//
// atOnce: the whole burst is written at once, so that queries beyond the limit wait for a
// slot until their own request context expires; otherwise they are written only after the
// contexts of the first k have expired.
func c18PipeBurstCtx(t *testing.T, out *vhOut, rng *rand.Rand, useTLS bool, k, n int, ctxTimeout time.Duration, atOnce bool) {
	g := &c18Gate{out: out, release: map[int]chan struct{}{}, entered: make(chan int, 1024)}
	conf := ConfigDNS{
		ConfigBase:         ConfigBase{Name: "pipe", Addr: "127.0.0.1:0", Handler: g, Network: NetworkTCP, RequestContext: c18ReqCtx(ctxTimeout)},
		MaxPipelineEnabled: true,
		MaxPipelineCount:   uint(k),
		ReadTimeout:        5 * time.Second,
		TCPIdleTimeout:     5 * time.Second,
	}
	var srv Server
	var addr string
	var tlsConf *tls.Config
	if useTLS {
		tlsConf = c18TLSConfig(t)
		s := NewServerTLS(ConfigTLS{ConfigDNS: conf, TLSConfig: tlsConf})
		if err := s.Start(context.Background()); err != nil {
			t.Fatal(err)
		}
		srv, addr = s, s.LocalTCPAddr().String()
	} else {
		s := NewServerDNS(conf)
		if err := s.Start(context.Background()); err != nil {
			t.Fatal(err)
		}
		srv, addr = s, s.LocalTCPAddr().String()
	}
	defer func() { _ = srv.Shutdown(context.Background()) }()
	var conn net.Conn
	var err error
	if useTLS {
		conn, err = tls.Dial("tcp", addr, &tls.Config{InsecureSkipVerify: true})
	} else {
		conn, err = net.Dial("tcp", addr)
	}
	if err != nil {
		t.Fatal(err)
	}
	defer conn.Close()
	out.Emit(map[string]any{"ev": "Reset", "k": k, "n": n, "tls": useTLS})
	var burst, late []byte
	for q := 1; q <= n; q++ {
		m := new(dns.Msg).SetQuestion(fmt.Sprintf("q%d.example.", q), dns.TypeA)
		m.Id = uint16(1000 + q)
		b, _ := m.Pack()
		if ctxTimeout > 0 && q > k && !atOnce {
			// sent only after the request contexts of the first k have expired
			late = binary.BigEndian.AppendUint16(late, uint16(len(b)))
			late = append(late, b...)
			continue
		}
		burst = binary.BigEndian.AppendUint16(burst, uint16(len(b)))
		burst = append(burst, b...)
	}
	g.mu.Lock()
	out.Emit(map[string]any{"ev": "Send", "n": n})
	g.mu.Unlock()
	if _, err = conn.Write(burst); err != nil {
		t.Fatal(err)
	}
	if len(late) > 0 {
		time.Sleep(ctxTimeout + 100*time.Millisecond)
		if _, err = conn.Write(late); err != nil {
			t.Fatal(err)
		}
	}
	// reader of responses
	answered := map[uint16]int{}
	rdone := make(chan struct{})
	go func() {
		defer close(rdone)
		for i := 0; i < n; i++ {
			var l uint16
			_ = conn.SetReadDeadline(time.Now().Add(20 * time.Second))
			if err := binary.Read(conn, binary.BigEndian, &l); err != nil {
				return
			}
			buf := make([]byte, l)
			if _, err := io.ReadFull(conn, buf); err != nil {
				return
			}
			r := new(dns.Msg)
			if r.Unpack(buf) == nil {
				answered[r.Id]++
			}
		}
	}()
	// release handlers in a random order, each time after letting the server
	// settle so that it has every chance to start more handlers than allowed
	inside := []int{}
	released := 0
	for released < n {
		wait := 150 * time.Millisecond
		if ctxTimeout > 0 {
			// hold the handlers past the deadline of their request contexts
			wait = ctxTimeout + 250*time.Millisecond
		}
		timeout := time.After(wait)
	collect:
		for {
			select {
			case q := <-g.entered:
				inside = append(inside, q)
				timeout = time.After(30 * time.Millisecond)
				if ctxTimeout > 0 {
					// (every handler that has got in is held past the deadlines of the queries waiting behind it)
					timeout = time.After(wait)
				}
			case <-timeout:
				break collect
			}
		}
		if len(inside) == 0 {
			if ctxTimeout > 0 {
				break // the rest of the burst was dropped with the connection
			}
			t.Fatalf("k=%d n=%d: no handler running but %d queries unreleased", k, n, n-released)
		}
		i := rng.Intn(len(inside))
		q := inside[i]
		inside = append(inside[:i], inside[i+1:]...)
		g.mu.Lock()
		ch := g.release[q]
		g.mu.Unlock()
		close(ch)
		released++
	}
	if ctxTimeout > 0 {
		_ = conn.SetReadDeadline(time.Now().Add(300 * time.Millisecond))
	}
	<-rdone
	dup, ok := 0, 0
	for q := 1; q <= n; q++ {
		switch c := answered[uint16(1000+q)]; {
		case c == 1:
			ok++
		case c > 1:
			dup++
		}
	}
	g.mu.Lock()
	// with expiring request contexts a query that waits for a slot longer than its deadline is
	// dropped with its connection: then only the bound is judged, not that all were answered
	out.Emit(map[string]any{"ev": "End", "answered": ok, "dup": dup, "maxActive": g.maxActive, "strict": ctxTimeout == 0})
	g.mu.Unlock()
}

func c18ReqCtx(d time.Duration) ContextConstructor {
	if d == 0 {
		return nil
	}
	return c18CtxCons{timeout: d}
}

func TestVerifC18Pipeline(t *testing.T) {
	out := vhOpen(t)
	rng := rand.New(rand.NewSource(vhSeed()))
	ks := []int{1, 2, 3}
	if vhThorough() {
		ks = []int{1, 2, 3, 5, 8}
	}
	for _, useTLS := range []bool{false, true} {
		for _, k := range ks {
			for _, n := range []int{k - 1, k, k + 1, 3 * k} {
				if n <= 0 {
					continue
				}
				c18PipeBurst(t, out, rng, useTLS, k, n)
			}
		}
		// expiring request contexts: the limit holds for as long as the handlers run
		c18PipeBurstCtx(t, out, rng, useTLS, 2, 5, 150*time.Millisecond, false)
		c18PipeBurstCtx(t, out, rng, useTLS, 2, 5, 150*time.Millisecond, true)
		c18PipeBurstCtx(t, out, rng, useTLS, 1, 3, 100*time.Millisecond, true)
	}
}
