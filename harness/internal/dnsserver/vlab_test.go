//go:build verif

package dnsserver_test

// vlab: a transport laboratory shared by the C01 / C06 / C08 harnesses.  It
// starts the real servers (plain DNS over UDP and TCP, DoT, DoH, DoQ, DNSCrypt)
// on 127.0.0.1 with one handler and sends RAW payloads over every transport,
// returning every reply that arrives (so "exactly one response" is observable).
// External test package: it may use dnsservertest.

import (
	"bytes"
	"context"
	"crypto/ed25519"
	"crypto/tls"
	"encoding/base64"
	"encoding/binary"
	"errors"
	"fmt"
	"io"
	"net"
	"net/http"
	"net/url"
	"os"
	"strings"
	"sync/atomic"
	"testing"
	"time"

	"github.com/AdguardTeam/AdGuardDNS/internal/dnsserver"
	"github.com/AdguardTeam/AdGuardDNS/internal/dnsserver/dnsservertest"
	dnssrvprom "github.com/AdguardTeam/AdGuardDNS/internal/dnsserver/prometheus"
	"github.com/ameshkov/dnscrypt/v2"
	"github.com/ameshkov/dnsstamps"
	"github.com/miekg/dns"
	"github.com/quic-go/quic-go"
	"golang.org/x/net/http2"
)

// vlabTransports lists the raw-capable transports.
var vlabTransports = []string{"udp", "tcp", "dot", "doh-post", "doh-get", "doq"}

type vlab struct {
	t       testing.TB
	udp     net.Addr
	tcp     net.Addr
	dot     *net.TCPAddr
	doh     net.Addr
	doq     *net.UDPAddr
	dc      *dnsservertest.TestDNSCryptServer
	tlsConf *tls.Config
	dohCl   *http.Client
	stops   []func()
	// Wait is how long SendRaw keeps listening for further replies.
	Wait time.Duration
}

type vlabConf struct {
	MaxUDPRespSize uint16
	// ZeroMaxUDP makes a zero MaxUDPRespSize the configured value (not "unset").
	ZeroMaxUDP bool
	NoDNSCrypt     bool
}

// vlabRetry retries a server start that lost the race for a UDP+TCP port pair.
func vlabRetry(f func() error) (err error) {
	for i := 0; i < 8; i++ {
		if err = f(); err == nil || !strings.Contains(err.Error(), "address already in use") {
			return err
		}
	}
	return err
}

func vlabStart(t testing.TB, h dnsserver.Handler, c vlabConf) (l *vlab) {
	l = &vlab{t: t, Wait: 100 * time.Millisecond}
	l.tlsConf = dnsservertest.CreateServerTLSConfig("example.org")
	ctx := context.Background()

	// the metrics decorator of the production wiring (dnssvc.New), one namespace per laboratory
	ml := dnssrvprom.NewServerMetricsListener(fmt.Sprintf("vlab%d_%d", os.Getpid(), vlabSeq.Add(1)))
	base := func(name string) dnsserver.ConfigBase {
		return dnsserver.ConfigBase{Name: name, Addr: "127.0.0.1:0", Handler: h, Metrics: ml}
	}
	maxUDP := c.MaxUDPRespSize
	if maxUDP == 0 && !c.ZeroMaxUDP {
		maxUDP = dns.MaxMsgSize
	}
	var s *dnsserver.ServerDNS
	if err := vlabRetry(func() error {
		s = dnsserver.NewServerDNS(dnsserver.ConfigDNS{
			ConfigBase:     base("vlab-dns"),
			MaxUDPRespSize: maxUDP,
			ReadTimeout:    2 * time.Second, TCPIdleTimeout: 2 * time.Second,
		})
		return s.Start(ctx)
	}); err != nil {
		t.Fatalf("dns: %v", err)
	}
	l.stops = append(l.stops, func() { _ = s.Shutdown(ctx) })
	l.udp, l.tcp = s.LocalUDPAddr(), s.LocalTCPAddr()

	st := dnsserver.NewServerTLS(dnsserver.ConfigTLS{
		ConfigDNS: dnsserver.ConfigDNS{ConfigBase: base("vlab-dot"),
			ReadTimeout: 2 * time.Second, TCPIdleTimeout: 2 * time.Second},
		TLSConfig: l.tlsConf.Clone(),
	})
	if err := st.Start(ctx); err != nil {
		t.Fatalf("dot: %v", err)
	}
	l.stops = append(l.stops, func() { _ = st.Shutdown(ctx) })
	l.dot = st.LocalTCPAddr().(*net.TCPAddr)

	var sh *dnsserver.ServerHTTPS
	err := vlabRetry(func() (e error) {
		tls2, tls3 := l.tlsConf.Clone(), l.tlsConf.Clone()
		tls2.NextProtos, tls3.NextProtos = dnsserver.NextProtoDoH, dnsserver.NextProtoDoH3
		cb := base("vlab-doh")
		cb.Network = dnsserver.NetworkAny
		sh = dnsserver.NewServerHTTPS(dnsserver.ConfigHTTPS{ConfigBase: cb, TLSConfDefault: tls2, TLSConfH3: tls3})
		return sh.Start(ctx)
	})
	if err != nil {
		t.Fatalf("doh: %v", err)
	}
	l.stops = append(l.stops, func() { _ = sh.Shutdown(ctx) })
	l.doh = sh.LocalTCPAddr()

	qtls := l.tlsConf.Clone()
	qtls.NextProtos = dnsserver.NextProtoDoQ
	var sq *dnsserver.ServerQUIC
	err = vlabRetry(func() error {
		sq = dnsserver.NewServerQUIC(dnsserver.ConfigQUIC{TLSConfig: qtls, ConfigBase: base("vlab-doq")})
		return sq.Start(ctx)
	})
	if err != nil {
		t.Fatalf("doq: %v", err)
	}
	l.stops = append(l.stops, func() { _ = sq.Shutdown(ctx) })
	l.doq = sq.LocalUDPAddr().(*net.UDPAddr)

	if !c.NoDNSCrypt {
		l.dc = vlabDNSCrypt(t, base("vlab-dnscrypt"))
		dcs := l.dc.Srv
		l.stops = append(l.stops, func() { _ = dcs.Shutdown(ctx) })
	}

	ctls := l.tlsConf.Clone()
	ctls.NextProtos = []string{"h2", "http/1.1"}
	dohAddr := l.doh.String()
	tr := &http.Transport{
		TLSClientConfig: ctls, DisableCompression: true, ForceAttemptHTTP2: true,
		DialContext: func(ctx context.Context, network, _ string) (net.Conn, error) {
			return (&net.Dialer{Timeout: 3 * time.Second}).DialContext(ctx, network, dohAddr)
		},
	}
	if err = http2.ConfigureTransport(tr); err != nil {
		t.Fatal(err)
	}
	l.dohCl = &http.Client{Transport: tr, Timeout: 5 * time.Second}
	t.Cleanup(l.Stop)
	return l
}

var vlabSeq atomic.Int64

// vlabDNSCrypt is dnsservertest.RunDNSCryptServer with a chosen base configuration.
func vlabDNSCrypt(t testing.TB, cb dnsserver.ConfigBase) (s *dnsservertest.TestDNSCryptServer) {
	s = &dnsservertest.TestDNSCryptServer{ProviderName: "example.org"}
	rc, err := dnscrypt.GenerateResolverConfig(s.ProviderName, nil)
	if err != nil {
		t.Fatalf("dnscrypt: %v", err)
	}
	cert, err := rc.CreateCert()
	if err != nil {
		t.Fatalf("dnscrypt: %v", err)
	}
	priv, err := dnscrypt.HexDecodeKey(rc.PrivateKey)
	if err != nil {
		t.Fatalf("dnscrypt: %v", err)
	}
	s.ResolverPk = ed25519.PrivateKey(priv).Public().(ed25519.PublicKey)
	err = vlabRetry(func() error {
		s.Srv = dnsserver.NewServerDNSCrypt(dnsserver.ConfigDNSCrypt{ConfigBase: cb, DNSCryptProviderName: s.ProviderName,
			DNSCryptResolverCert: cert})
		return s.Srv.Start(context.Background())
	})
	if err != nil {
		t.Fatalf("dnscrypt: %v", err)
	}
	s.ServerAddr = s.Srv.LocalUDPAddr().String()
	return s
}

func (l *vlab) Stop() {
	for _, f := range l.stops {
		f()
	}
	l.stops = nil
}

// vlabResult is what one raw exchange produced.
type vlabResult struct {
	Replies [][]byte // every complete reply received
	Status  int      // HTTP status for DoH, 0 otherwise
	Note    string   // "closed" (peer closed the stream/connection), "timeout", "err:..."
}

// SendRaw sends payload over the transport and collects the replies.
func (l *vlab) SendRaw(transport string, payload []byte) (r vlabResult) {
	switch transport {
	case "udp":
		return l.sendUDP(payload)
	case "tcp":
		c, err := net.DialTimeout("tcp", l.tcp.String(), 2*time.Second)
		if err != nil {
			return vlabResult{Note: "err:" + err.Error()}
		}
		defer c.Close()
		return l.sendStream(c, payload)
	case "dot":
		cc := l.tlsConf.Clone()
		c, err := tls.DialWithDialer(&net.Dialer{Timeout: 2 * time.Second}, "tcp", l.dot.String(), cc)
		if err != nil {
			return vlabResult{Note: "err:" + err.Error()}
		}
		defer c.Close()
		return l.sendStream(c, payload)
	case "doh-post", "doh-get":
		return l.sendDoH(transport == "doh-post", payload)
	case "doh-get-wrapped":
		// the dns= value with a line feed after every fourth character: base64 decoders skip
		// line breaks, so it decodes to fewer bytes than its length suggests
		return l.sendDoHGetValue(vlabWrap(base64.RawURLEncoding.EncodeToString(payload), 4))
	case "doq":
		return l.sendDoQ(payload, len(payload))
	case "doq-longprefix":
		// the 2-byte length prefix announces more bytes than the stream carries before FIN
		return l.sendDoQ(payload, len(payload)+33)
	}
	return vlabResult{Note: "err:unknown transport " + transport}
}

func (l *vlab) sendUDP(payload []byte) (r vlabResult) {
	c, err := net.Dial("udp", l.udp.String())
	if err != nil {
		return vlabResult{Note: "err:" + err.Error()}
	}
	defer c.Close()
	if _, err = c.Write(payload); err != nil {
		return vlabResult{Note: "err:" + err.Error()}
	}
	buf := make([]byte, 65536)
	wait := 4 * l.Wait
	for {
		_ = c.SetReadDeadline(time.Now().Add(wait))
		n, rerr := c.Read(buf)
		if rerr != nil {
			if len(r.Replies) == 0 {
				r.Note = "timeout"
			}
			return r
		}
		r.Replies = append(r.Replies, append([]byte{}, buf[:n]...))
		wait = l.Wait
	}
}

// sendStream writes one length-prefixed message and reads length-prefixed replies.
func (l *vlab) sendStream(c net.Conn, payload []byte) (r vlabResult) {
	msg := binary.BigEndian.AppendUint16(nil, uint16(len(payload)))
	msg = append(msg, payload...)
	// A stream carries bytes, not messages: the segment (TLS record) boundaries fall anywhere, also
	// between the two octets of the length prefix (RFC 7766, 8).  Which cut is used depends on the
	// message only, so that a warm and a fresh instance see the same sequence of writes.
	cut := 0
	if h := len(payload)*31 + int(msg[len(msg)-1]); len(msg) > 3 {
		switch h % 4 {
		case 0:
			cut = 1
		case 1:
			cut = 2
		case 2:
			cut = 3 + h%(len(msg)-3)
		}
	}
	if cut > 0 {
		if _, err := c.Write(msg[:cut]); err != nil {
			return vlabResult{Note: "err:" + err.Error()}
		}
		time.Sleep(3 * time.Millisecond)
	}
	if _, err := c.Write(msg[cut:]); err != nil {
		return vlabResult{Note: "err:" + err.Error()}
	}
	wait := 4 * l.Wait
	for {
		_ = c.SetReadDeadline(time.Now().Add(wait))
		var n uint16
		if err := binary.Read(c, binary.BigEndian, &n); err != nil {
			var ne net.Error
			switch {
			case errors.Is(err, io.EOF) || errors.Is(err, io.ErrUnexpectedEOF):
				r.Note = "closed"
			case errors.As(err, &ne) && ne.Timeout():
				if len(r.Replies) == 0 {
					r.Note = "timeout"
				}
			default:
				r.Note = "closed"
			}
			return r
		}
		b := make([]byte, n)
		if _, err := io.ReadFull(c, b); err != nil {
			r.Note = "err:short reply"
			return r
		}
		r.Replies = append(r.Replies, b)
		wait = l.Wait
	}
}

func vlabWrap(s string, n int) string {
	var sb strings.Builder
	for i := 0; i < len(s); i += n {
		sb.WriteString(s[i:min(i+n, len(s))])
		sb.WriteString("\n")
	}
	return sb.String()
}

func (l *vlab) sendDoHGetValue(v string) (r vlabResult) {
	req, err := http.NewRequest(http.MethodGet, "https://test.local"+dnsserver.PathDoH+"?dns="+url.QueryEscape(v), nil)
	if err != nil {
		return vlabResult{Note: "err:" + err.Error()}
	}
	return l.doDoH(req)
}

func (l *vlab) sendDoH(post bool, payload []byte) (r vlabResult) {
	var req *http.Request
	var err error
	u := "https://test.local" + dnsserver.PathDoH
	if post {
		req, err = http.NewRequest(http.MethodPost, u, bytes.NewReader(payload))
	} else {
		req, err = http.NewRequest(http.MethodGet, u+"?dns="+base64.RawURLEncoding.EncodeToString(payload), nil)
	}
	if err != nil {
		return vlabResult{Note: "err:" + err.Error()}
	}
	return l.doDoH(req)
}

func (l *vlab) doDoH(req *http.Request) (r vlabResult) {
	var err error
	if err != nil {
		return vlabResult{Note: "err:" + err.Error()}
	}
	req.Header.Set("Content-Type", dnsserver.MimeTypeDoH)
	req.Header.Set("Accept", dnsserver.MimeTypeDoH)
	resp, err := l.dohCl.Do(req)
	if err != nil {
		return vlabResult{Note: "err:" + err.Error()}
	}
	defer resp.Body.Close()
	body, _ := io.ReadAll(resp.Body)
	r.Status = resp.StatusCode
	if resp.StatusCode == http.StatusOK && strings.HasPrefix(resp.Header.Get("Content-Type"), dnsserver.MimeTypeDoH) {
		r.Replies = append(r.Replies, body)
	}
	return r
}

// SendJSON performs a JSON-API request with the given raw query string.
func (l *vlab) SendJSON(rawQuery string) (status int, body []byte, err error) {
	req, err := http.NewRequest(http.MethodGet, "https://test.local"+dnsserver.PathJSON+"?"+rawQuery, nil)
	if err != nil {
		return 0, nil, err
	}
	req.Header.Set("Accept", dnsserver.MimeTypeJSON)
	resp, err := l.dohCl.Do(req)
	if err != nil {
		return 0, nil, err
	}
	defer resp.Body.Close()
	body, _ = io.ReadAll(resp.Body)
	return resp.StatusCode, body, nil
}

func (l *vlab) sendDoQ(payload []byte, declared int) (r vlabResult) {
	cc := l.tlsConf.Clone()
	cc.NextProtos = dnsserver.NextProtoDoQ
	ctx, cancel := context.WithTimeout(context.Background(), 3*time.Second)
	defer cancel()
	conn, err := quic.DialAddr(ctx, l.doq.String(), cc, &quic.Config{})
	if err != nil {
		return vlabResult{Note: "err:" + err.Error()}
	}
	defer func() { _ = conn.CloseWithError(0, "") }()
	stream, err := conn.OpenStreamSync(ctx)
	if err != nil {
		return vlabResult{Note: "err:" + err.Error()}
	}
	msg := binary.BigEndian.AppendUint16(nil, uint16(declared))
	msg = append(msg, payload...)
	if _, err = stream.Write(msg); err != nil {
		return vlabResult{Note: "err:" + err.Error()}
	}
	_ = stream.Close() // FIN
	_ = stream.SetReadDeadline(time.Now().Add(6 * l.Wait))
	all, rerr := io.ReadAll(stream)
	for len(all) >= 2 {
		n := int(binary.BigEndian.Uint16(all))
		if len(all) < 2+n {
			r.Note = "err:short reply"
			break
		}
		r.Replies = append(r.Replies, all[2:2+n])
		all = all[2+n:]
	}
	if rerr != nil && r.Note == "" {
		var se *quic.StreamError
		var ae *quic.ApplicationError
		switch {
		case errors.As(rerr, &se):
			r.Note = fmt.Sprintf("closed:stream-error-%d", se.ErrorCode)
		case errors.As(rerr, &ae):
			r.Note = fmt.Sprintf("closed:conn-error-%d", ae.ErrorCode)
		default:
			if len(r.Replies) == 0 {
				r.Note = "timeout"
			}
		}
	}
	return r
}

// SendDNSCrypt exchanges a well-formed message over DNSCrypt (the payload is
// encrypted by the client library, so raw bytes cannot be injected).
func (l *vlab) SendDNSCrypt(network string, m *dns.Msg) (resp *dns.Msg, err error) {
	if l.dc == nil {
		return nil, errors.New("no dnscrypt server")
	}
	cl := &dnscrypt.Client{Net: network, Timeout: 2 * time.Second}
	stamp := dnsstamps.ServerStamp{ServerAddrStr: l.dc.ServerAddr, ServerPk: l.dc.ResolverPk, ProviderName: l.dc.ProviderName,
		Proto: dnsstamps.StampProtoTypeDNSCrypt}
	ri, err := cl.DialStamp(stamp)
	if err != nil {
		return nil, err
	}
	return cl.Exchange(m, ri)
}
