//go:build verif

package dnscheck

// EXT3 recorder on the real RemoteKV: Check with real *dns.Msg and
// agd.RequestInfo, ServeHTTP through httptest.  Two nodes (two RemoteKV objects,
// each with its own local cache) share one store:
//   - "ttl":  remotekv.KeyNamespace -> fault injector -> ext3Store, the harness's
//     stand-in for Consul/Redis (entries live ttl seconds on the virtual clock);
//   - "lru":  [remotekv.KeyNamespace ->] fault injector -> the real
//     remotekv.Cache over agdcache.LRU(cap).
// A second namespace writes junk under the same ids.  The local cache
// (patrickmn/go-cache) runs on the virtual clock (overlay rewrite of time.Now).
// Histories come from TLC's simulation of DNSCheck.tla (VERIF_IN) and from a
// seeded generator; names are concretised with boundary lengths, look-alike
// ids, 0x20 case randomisation, ports, and the whole family of names that are
// NOT check names.  One event per call; TLC (TraceDNSCheck.tla) decides.

import (
	"context"
	"encoding/json"
	"fmt"
	"math/rand"
	"net/http"
	"net/http/httptest"
	"net/netip"
	"os"
	"strings"
	"sync"
	"testing"
	"time"

	"github.com/AdguardTeam/AdGuardDNS/internal/agd"
	"github.com/AdguardTeam/AdGuardDNS/internal/agdcache"
	"github.com/AdguardTeam/AdGuardDNS/internal/agdnet"
	"github.com/AdguardTeam/AdGuardDNS/internal/dnsmsg"
	"github.com/AdguardTeam/AdGuardDNS/internal/remotekv"
	"github.com/AdguardTeam/AdGuardDNS/internal/remotekv/consulkv"
	"github.com/AdguardTeam/golibs/logutil/slogutil"
	"github.com/miekg/dns"
	gocache "github.com/patrickmn/go-cache"
)

const ext3Inf = 1000000

var ext3Epoch = time.Unix(1_800_000_000, 0)

type ext3Clock struct{ sec int64 }

func (c *ext3Clock) Now() time.Time { return ext3Epoch.Add(time.Duration(c.sec) * time.Second) }

// ext3Store is the fake remote store with a TTL (what Consul sessions / Redis
// EXPIRE provide): an entry is readable while now < written + ttl.
type ext3Store struct {
	mu  sync.Mutex
	clk *ext3Clock
	m   map[string]ext3Entry
	ttl int64
}

type ext3Entry struct {
	val []byte
	exp int64
}

func (s *ext3Store) Get(_ context.Context, key string) (val []byte, ok bool, err error) {
	s.mu.Lock()
	defer s.mu.Unlock()
	e, ok := s.m[key]
	if !ok || s.clk.sec >= e.exp {
		return nil, false, nil
	}

	return e.val, true, nil
}

func (s *ext3Store) Set(_ context.Context, key string, val []byte) (err error) {
	s.mu.Lock()
	defer s.mu.Unlock()
	s.m[key] = ext3Entry{val: append([]byte(nil), val...), exp: s.clk.sec + s.ttl}

	return nil
}

// ext3Faulty sits between the namespace and the store: it records the raw key
// and fails on request.
type ext3Faulty struct {
	mu      sync.Mutex
	inner   remotekv.Interface
	setFail bool
	getMode string
	rawSet  string
	nSet    int
	nGet    int
}

func (f *ext3Faulty) Get(ctx context.Context, key string) (val []byte, ok bool, err error) {
	f.mu.Lock()
	f.nGet++
	f.mu.Unlock()
	switch f.getMode {
	case "err":
		return nil, false, fmt.Errorf("ext3: injected store failure")
	case "rl":
		return nil, false, fmt.Errorf("ext3: %w", consulkv.ErrRateLimited)
	}

	return f.inner.Get(ctx, key)
}

func (f *ext3Faulty) Set(ctx context.Context, key string, val []byte) (err error) {
	f.mu.Lock()
	f.rawSet = key
	f.nSet++
	f.mu.Unlock()
	if f.setFail {
		return fmt.Errorf("ext3: injected store failure")
	}

	return f.inner.Set(ctx, key, val)
}

type ext3ErrColl struct{}

func (ext3ErrColl) Collect(_ context.Context, _ error) {}

type ext3Par struct {
	TTL int `json:"ttl"`
	Cap int `json:"cap"`
}

type ext3NodeInfo struct {
	Name string `json:"name"`
	Loc  string `json:"loc"`
}

type ext3Inp struct {
	IP      string `json:"ip"`
	Dev     string `json:"dev"`
	Prof    string `json:"prof"`
	Rec     bool   `json:"rec"`
	Result  string `json:"result"`
	Grp     string `json:"grp"`
	Srv     string `json:"srv"`
	Private bool   `json:"private"`
	Proto   string `json:"proto"`
}

type ext3Body struct {
	ClientIP        string `json:"client_ip"`
	DeviceID        string `json:"device_id"`
	ProfileID       string `json:"profile_id"`
	ServerGroupName string `json:"server_group_name"`
	ServerName      string `json:"server_name"`
	ServerType      string `json:"server_type"`
	Protocol        string `json:"protocol"`
	NodeLocation    string `json:"node_location"`
	NodeName        string `json:"node_name"`
}

type ext3Event struct {
	Ev  string `json:"ev"`
	Seg int    `json:"seg"`
	Src string `json:"src"`
	T   int64  `json:"t"`
	// Reset
	Par     *ext3Par                 `json:"par,omitempty"`
	Domains [][]string               `json:"domains,omitempty"`
	DomStr  []string                 `json:"domstr,omitempty"`
	Prefix  string                   `json:"prefix"`
	IPv4    []string                 `json:"ipv4"`
	IPv6    []string                 `json:"ipv6"`
	Nodes   map[string]ext3NodeInfo `json:"nodes,omitempty"`
	// T
	D int `json:"d"`
	// Q
	Node    string    `json:"node"`
	Name    []string  `json:"name"`
	NameStr string    `json:"namestr"`
	QT      string    `json:"qt"`
	QType   int       `json:"qtype"`
	Inp     *ext3Inp  `json:"inp,omitempty"`
	SetFail bool      `json:"setFail"`
	Kind    string    `json:"kind"`
	Rcode   int       `json:"rcode"`
	Ans     []string  `json:"ans"`
	HdrOK   bool      `json:"hdrok"`
	Raw     string    `json:"raw"`
	Err     string    `json:"err"`
	Class   string    `json:"class"`
	// W
	Host    []string  `json:"host"`
	HostHdr string    `json:"hosthdr"`
	Path    string    `json:"path"`
	Target  string    `json:"target"`
	GM      string    `json:"gm"`
	Status  int       `json:"status"`
	CType   string    `json:"ctype"`
	ACAO    string    `json:"acao"`
	Body    *ext3Body `json:"body,omitempty"`
	BodyOK  bool      `json:"bodyok"`
	BodyRaw string    `json:"bodyraw"`
	NGet    int       `json:"nget"`
	// F
	ID []string `json:"id"`
}

func ext3Chars(s string) (res []string) {
	res = []string{}
	for _, r := range s {
		res = append(res, string(r))
	}

	return res
}

type ext3World struct {
	t      *testing.T
	out    *vhOut
	clk    *ext3Clock
	rng    *rand.Rand
	seg    int
	src    string
	msgs   *dnsmsg.Constructor
	fttl   uint32
	nodes  map[string]*RemoteKV
	faulty *ext3Faulty
	other  remotekv.Interface
	doms   []string
	ids    map[string]string
	qid    uint16
}

const ext3FTTL = 37

func ext3NewWorld(t *testing.T, out *vhOut, clk *ext3Clock, rng *rand.Rand, seg int, src string, ttl, capacity int) (w *ext3World) {
	msgs, err := dnsmsg.NewConstructor(&dnsmsg.ConstructorConfig{
		Cloner:              dnsmsg.NewCloner(dnsmsg.EmptyClonerStat{}),
		BlockingMode:        &dnsmsg.BlockingModeNullIP{},
		StructuredErrors:    &dnsmsg.StructuredDNSErrorsConfig{Enabled: false},
		FilteredResponseTTL: ext3FTTL * time.Second,
	})
	if err != nil {
		t.Fatal(err)
	}
	w = &ext3World{t: t, out: out, clk: clk, rng: rng, seg: seg, src: src, msgs: msgs, fttl: ext3FTTL,
		nodes: map[string]*RemoteKV{}, ids: map[string]string{}}

	domSets := [][]string{
		{"dnscheck.example.com"},
		{"dnscheck.example.com", "checkdns.example.com"},
		{"check.adguard-dns.test", "dnscheck.example.com"},
		{"chk", "dnscheck.example.com"},
		{"dnscheck.example.com", "my-dnscheck.example.net"},
		{"dnscheck.example.com", "my-dnscheck.example.com"},
	}
	w.doms = domSets[rng.Intn(len(domSets))]

	var backing remotekv.Interface
	var prefix string
	if ttl < ext3Inf {
		backing = &ext3Store{clk: clk, m: map[string]ext3Entry{}, ttl: int64(ttl)}
		prefix = []string{"consul:check:", "redis-prefix:check:", "backend:check:"}[rng.Intn(3)]
		w.other = remotekv.NewKeyNamespace(&remotekv.KeyNamespaceConfig{KV: backing, Prefix: "other:" + prefix})
	} else {
		backing = remotekv.NewCache(&remotekv.CacheConfig{
			Cache: agdcache.NewLRU[string, []byte](&agdcache.LRUConfig{Count: capacity}),
		})
		prefix = []string{"", "cache:check:"}[rng.Intn(2)]
	}
	w.faulty = &ext3Faulty{inner: backing}
	var kv remotekv.Interface = w.faulty
	if prefix != "" {
		kv = remotekv.NewKeyNamespace(&remotekv.KeyNamespaceConfig{KV: w.faulty, Prefix: prefix})
	}

	v4sets := [][]string{{"1.2.3.4"}, {"1.2.3.4", "5.6.7.8"}, {}}
	v6sets := [][]string{{"1234::cdee"}, {"1234::cdee", "1234::cdef"}, {}}
	v4, v6 := v4sets[rng.Intn(3)], v6sets[rng.Intn(3)]
	var ip4, ip6 []netip.Addr
	for _, s := range v4 {
		ip4 = append(ip4, netip.MustParseAddr(s))
	}
	for _, s := range v6 {
		ip6 = append(ip6, netip.MustParseAddr(s))
	}
	ninfo := map[string]ext3NodeInfo{
		"A": {Name: fmt.Sprintf("eu-%d.dns.example.com", 1+rng.Intn(9)), Loc: "ams"},
		"B": {Name: fmt.Sprintf("us-%d.dns.example.com", 1+rng.Intn(9)), Loc: "nyc"},
	}
	for n, inf := range ninfo {
		w.nodes[n] = NewRemoteKV(&RemoteKVConfig{
			Logger:       slogutil.NewDiscardLogger(),
			Messages:     msgs,
			RemoteKV:     kv,
			ErrColl:      ext3ErrColl{},
			Domains:      w.doms,
			NodeLocation: inf.Loc,
			NodeName:     inf.Name,
			IPv4:         ip4,
			IPv6:         ip6,
		})
	}
	doms := [][]string{}
	for _, d := range w.doms {
		doms = append(doms, ext3Chars(d))
	}
	out.Emit(ext3Event{Ev: "Reset", Seg: seg, Src: src, T: clk.sec, Par: &ext3Par{TTL: ttl, Cap: capacity},
		Domains: doms, DomStr: w.doms, Prefix: prefix, IPv4: v4, IPv6: v6, Nodes: ninfo})

	return w
}

const ext3IDChars = "abcdefghijklmnopqrstuvwxyz0123456789-"

func (w *ext3World) randID(n int) string {
	b := make([]byte, n)
	for i := range b {
		b[i] = ext3IDChars[w.rng.Intn(len(ext3IDChars))]
	}

	return string(b)
}

// concrete id of an abstract id: boundary lengths and look-alikes of the ids
// already chosen in this segment
func (w *ext3World) id(abs string) string {
	if s, ok := w.ids[abs]; ok {
		return s
	}
	var s string
	for {
		var prev []string
		for _, p := range w.ids {
			prev = append(prev, p)
		}
		k := w.rng.Intn(10)
		switch {
		case k < 5 || len(prev) == 0:
			s = w.randID([]int{4, 4, 5, 8, 16, 33, 62, 63, 63}[w.rng.Intn(9)])
		case k == 5:
			s = prev[w.rng.Intn(len(prev))] + "-" + strings.SplitN(w.doms[0], ".", 2)[0]
		case k == 6:
			s = prev[w.rng.Intn(len(prev))] + "x"
		case k == 7:
			s = "x" + prev[w.rng.Intn(len(prev))]
		case k == 8:
			p := prev[w.rng.Intn(len(prev))]
			s = p[:len(p)-1]
		default:
			s = prev[w.rng.Intn(len(prev))] + "-" + w.randID(3)
		}
		if len(s) < 4 || len(s) > 63 {
			continue
		}
		dup := false
		for _, p := range w.ids {
			dup = dup || p == s
		}
		if !dup {
			break
		}
	}
	w.ids[abs] = s

	return s
}

func ext3RandCase(rng *rand.Rand, s string) string {
	b := []byte(s)
	for i, c := range b {
		if c >= 'a' && c <= 'z' && rng.Intn(2) == 0 {
			b[i] = c - 'a' + 'A'
		}
	}

	return string(b)
}

// a name that is not a well-formed check name; class names the family
func (w *ext3World) nonCheckName() (name, class string) {
	d := w.doms[w.rng.Intn(len(w.doms))]
	known := "abcd"
	for _, p := range w.ids {
		known = p
		break
	}
	first, rest, _ := strings.Cut(d, ".")
	switch w.rng.Intn(20) {
	case 0:
		return d, "bare"
	case 1:
		return "-" + d, "emptyid"
	case 2:
		return w.randID(1+w.rng.Intn(3)) + "-" + d, "short"
	case 3:
		return w.randID(64) + "-" + d, "long64"
	case 4:
		return w.randID(65+w.rng.Intn(30)) + "-" + d, "long"
	case 5:
		return "ab_cd-" + d, "underscore"
	case 6:
		return []string{"abc*-", "ab cd-", "abcdé-", "ab/cd-", "ab:cd-", "abcd+-", "ab\\cd-"}[w.rng.Intn(7)] + d, "badchar"
	case 7:
		return known + "." + d, "subdomain"
	case 8:
		return "www." + known + "-" + d, "deeper"
	case 9:
		return known + d, "glued"
	case 10:
		return known + "-" + d + ".evil.org", "suffixed"
	case 11:
		if rest == "" {
			return known + "-" + first + ".example", "otherdomain"
		}
		return known + "-" + first + ".evil.org", "otherdomain"
	case 12:
		return "example.org", "unrelated"
	case 13:
		return known, "idonly"
	case 14:
		return known + "-", "idhyphen"
	case 15:
		return known + "-" + d[:len(d)-1], "truncated"
	case 16:
		return known + "-x" + d, "gluedhyphen"
	case 17:
		return known + "_" + d, "underscoresep"
	case 18:
		return "ab.cd-" + d, "dotinid"
	default:
		return known + "-" + d + "x", "extended"
	}
}

var ext3Protos = []struct {
	name string
	p    agd.Protocol
}{{"ProtoDNS", agd.ProtoDNS}, {"ProtoDoH", agd.ProtoDoH}, {"ProtoDoQ", agd.ProtoDoQ}, {"ProtoDoT", agd.ProtoDoT},
	{"ProtoDNSCrypt", agd.ProtoDNSCrypt}}

func (w *ext3World) randInp(rng *rand.Rand) (inp *ext3Inp, ri *agd.RequestInfo) {
	ips := []string{"1.2.3.4", "192.0.2.77", "2001:db8::1", "::ffff:10.0.0.1", "fe80::1", "203.0.113.200"}
	pr := ext3Protos[rng.Intn(len(ext3Protos))]
	inp = &ext3Inp{
		IP:      ips[rng.Intn(len(ips))],
		Dev:     fmt.Sprintf("dev%04x", rng.Intn(1<<16)),
		Prof:    fmt.Sprintf("prof%04x", rng.Intn(1<<16)),
		Grp:     []string{"adguard_dns_default", "adguard_dns_family", "private_group"}[rng.Intn(3)],
		Srv:     []string{"default_dns", "default_dot", "family_doh"}[rng.Intn(3)],
		Private: rng.Intn(2) == 0,
		Proto:   pr.name,
	}
	ri = &agd.RequestInfo{
		ServerGroup: &agd.ServerGroup{Name: agd.ServerGroupName(inp.Grp), ProfilesEnabled: inp.Private},
		Server:      agd.ServerName(inp.Srv),
		RemoteIP:    netip.MustParseAddr(inp.IP),
		QClass:      dns.ClassINET,
		Messages:    w.msgs,
		Proto:       pr.p,
	}
	switch k := rng.Intn(8); {
	case k < 4:
		inp.Rec, inp.Result = true, "ok"
		ri.DeviceResult = &agd.DeviceResultOK{
			Device:  &agd.Device{ID: agd.DeviceID(inp.Dev)},
			Profile: &agd.Profile{ID: agd.ProfileID(inp.Prof)},
		}
	case k == 4:
		inp.Result = "authfail"
		ri.DeviceResult = &agd.DeviceResultAuthenticationFailure{Err: fmt.Errorf("ext3")}
	case k == 5:
		inp.Result = "unknowndedicated"
		ri.DeviceResult = &agd.DeviceResultUnknownDedicated{Err: fmt.Errorf("ext3")}
	case k == 6:
		inp.Result = "error"
		ri.DeviceResult = &agd.DeviceResultError{Err: fmt.Errorf("ext3")}
	default:
		inp.Result = "none"
	}

	return inp, ri
}

// query sends one DNS question for name (no trailing dot) to node n.
func (w *ext3World) query(n, name, class string, setFail bool) {
	rng := w.rng
	qtypes := []uint16{dns.TypeA, dns.TypeA, dns.TypeAAAA, dns.TypeAAAA, dns.TypeHTTPS, dns.TypeCNAME, dns.TypeANY, dns.TypeMX,
		dns.TypeSVCB, dns.TypeNS}
	qt := qtypes[rng.Intn(len(qtypes))]
	qts := "other"
	if qt == dns.TypeA {
		qts = "A"
	} else if qt == dns.TypeAAAA {
		qts = "AAAA"
	}
	qname := ext3RandCase(rng, name)
	w.qid++
	req := &dns.Msg{
		MsgHdr:   dns.MsgHdr{Id: w.qid, RecursionDesired: true},
		Question: []dns.Question{{Name: qname + ".", Qtype: qt, Qclass: dns.ClassINET}},
	}
	inp, ri := w.randInp(rng)
	ri.Host = agdnet.NormalizeDomain(req.Question[0].Name)
	ri.QType = qt
	w.faulty.setFail, w.faulty.rawSet, w.faulty.nSet = setFail, "", 0
	resp, err := w.nodes[n].Check(context.Background(), req, ri)
	w.faulty.setFail = false
	e := ext3Event{Ev: "Q", Seg: w.seg, Src: w.src, T: w.clk.sec, Node: n, Name: ext3Chars(qname), NameStr: qname, QT: qts,
		QType: int(qt), Inp: inp, SetFail: setFail, Rcode: -1, Ans: []string{}, Raw: w.faulty.rawSet, Class: class}
	if w.faulty.nSet > 1 {
		e.Raw += fmt.Sprintf(" (+%d more writes)", w.faulty.nSet-1)
	}
	switch {
	case err != nil:
		e.Kind, e.Err = "error", err.Error()
		if resp != nil {
			e.Kind = "error+answer"
		}
	case resp == nil:
		e.Kind = "ignore"
	default:
		e.Kind, e.Rcode = "answer", resp.Rcode
		e.HdrOK = resp.Response && resp.Id == req.Id && len(resp.Question) == 1 && resp.Question[0] == req.Question[0]
		for _, rr := range resp.Answer {
			h := rr.Header()
			e.HdrOK = e.HdrOK && h.Name == req.Question[0].Name && h.Class == dns.ClassINET && h.Ttl == w.fttl &&
				h.Rrtype == qt
			switch a := rr.(type) {
			case *dns.A:
				ip, _ := netip.AddrFromSlice(a.A)
				e.Ans = append(e.Ans, ip.Unmap().String())
			case *dns.AAAA:
				ip, _ := netip.AddrFromSlice(a.AAAA)
				e.Ans = append(e.Ans, ip.String())
			default:
				e.Ans = append(e.Ans, "?"+dns.TypeToString[h.Rrtype])
			}
		}
	}
	w.out.Emit(e)
}

// web sends GET target with the given Host header to node n.
func (w *ext3World) web(n, host, port, target, gm, class string) {
	hdr := host
	if port != "" {
		hdr += ":" + port
	}
	r := httptest.NewRequest(http.MethodGet, "http://placeholder.invalid"+target, nil)
	r.Host = hdr
	rw := httptest.NewRecorder()
	w.faulty.getMode, w.faulty.nGet = gm, 0
	w.nodes[n].ServeHTTP(rw, r)
	w.faulty.getMode = "ok"
	e := ext3Event{Ev: "W", Seg: w.seg, Src: w.src, T: w.clk.sec, Node: n, Host: ext3Chars(host), HostHdr: hdr, Path: r.URL.Path,
		Target: target, GM: gm, Status: rw.Code, CType: rw.Header().Get("Content-Type"),
		ACAO: rw.Header().Get("Access-Control-Allow-Origin"), Body: &ext3Body{}, Class: class, Ans: []string{},
		NGet: w.faulty.nGet}
	if rw.Code == http.StatusOK {
		e.BodyRaw = rw.Body.String()
		e.Body, e.BodyOK = ext3ParseBody(rw.Body.Bytes())
	}
	w.out.Emit(e)
}

func ext3ParseBody(raw []byte) (b *ext3Body, ok bool) {
	b = &ext3Body{}
	var m map[string]any
	if json.Unmarshal(raw, &m) != nil || len(m) != 9 {
		return b, false
	}
	ok = true
	get := func(k string) string {
		s, isStr := m[k].(string)
		ok = ok && isStr

		return s
	}
	b = &ext3Body{ClientIP: get("client_ip"), DeviceID: get("device_id"), ProfileID: get("profile_id"),
		ServerGroupName: get("server_group_name"), ServerName: get("server_name"), ServerType: get("server_type"),
		Protocol: get("protocol"), NodeLocation: get("node_location"), NodeName: get("node_name")}

	return b, ok
}

func (w *ext3World) tick(d int) {
	w.clk.sec += int64(d)
	w.out.Emit(ext3Event{Ev: "T", Seg: w.seg, Src: w.src, T: w.clk.sec, D: d, Ans: []string{}})
}

func (w *ext3World) foreign(id string) {
	if w.other == nil {
		return
	}
	_ = w.other.Set(context.Background(), id, []byte(`{"client_ip":"6.6.6.6","device_id":"intruder","profile_id":"intruder",`+
		`"server_group_name":"x","server_name":"x","server_type":"public","protocol":"dns","node_location":"x","node_name":"x"}`))
	w.out.Emit(ext3Event{Ev: "F", Seg: w.seg, Src: w.src, T: w.clk.sec, ID: ext3Chars(id), Ans: []string{}})
}

func (w *ext3World) checkName(abs string) string {
	return w.id(abs) + "-" + w.doms[w.rng.Intn(len(w.doms))]
}

// the Host header of a check request.  Hosts are sent lower-case, as browsers
// do; VERIF_EXT3_CASE=1 also sends mixed-case hosts (on the pinned tree the
// web side does not fold the case although the DNS side stores under the
// lower-cased id -- recorded as an observation, see the check's notes)
func (w *ext3World) webHost(name string) (host, port string) {
	host = name
	if vhEnvInt("VERIF_EXT3_CASE", 0) != 0 && w.rng.Intn(6) == 0 {
		host = ext3RandCase(w.rng, name)
	}
	port = []string{"", "", "", "80", "443", "8443"}[w.rng.Intn(6)]

	return host, port
}

var ext3Paths = []string{"/dnscheck/test/", "/dnscheck", "/", "/dnscheck/test2", "/dnscheck/Test", "/test", "//dnscheck/test",
	"/dnscheck/test/x"}

type ext3Step struct {
	A   string `json:"a"`
	N   string `json:"n"`
	I   string `json:"i"`
	D   int    `json:"d"`
	OK  bool   `json:"ok"`
	HC  string `json:"hc"`
	GM  string `json:"gm"`
	TTL int    `json:"ttl"`
	Cap int    `json:"cap"`
}

func (w *ext3World) foreignWeb(n, gm string) {
	if w.rng.Intn(3) == 0 {
		// a well-formed check host on another path
		h, p := w.webHost(w.checkName([]string{"x", "y", "z"}[w.rng.Intn(3)]))
		w.web(n, h, p, ext3Paths[w.rng.Intn(len(ext3Paths))], gm, "otherpath")

		return
	}
	name, class := w.nonCheckName()
	h, p := w.webHost(name)
	w.web(n, h, p, "/dnscheck/test", gm, class)
}

func TestVerifEXT3DNSCheck(t *testing.T) {
	out := vhOpen(t)
	clk := &ext3Clock{}
	gocache.VerifNow = clk.Now
	rng := rand.New(rand.NewSource(vhSeed()*104729 + 11))
	seg := 0
	if p := os.Getenv("VERIF_IN"); p != "" {
		var behs [][]ext3Step
		vhReadJSON(t, p, &behs)
		for _, b := range behs {
			if len(b) == 0 {
				continue
			}
			seg++
			w := ext3NewWorld(t, out, clk, rng, seg, "tlc", b[0].TTL, b[0].Cap)
			for _, s := range b {
				switch s.A {
				case "Tick":
					w.tick(s.D)
				case "DNS":
					w.query(s.N, w.checkName(s.I), "check", !s.OK)
					if rng.Intn(4) == 0 {
						name, class := w.nonCheckName()
						w.query(s.N, name, class, false)
					}
				case "Web":
					target := "/dnscheck/test"
					if rng.Intn(5) == 0 {
						target += "?cb=" + fmt.Sprint(rng.Intn(1000))
					}
					if s.HC == "check" {
						h, p := w.webHost(w.checkName(s.I))
						w.web(s.N, h, p, target, s.GM, "check")
					} else {
						w.foreignWeb(s.N, s.GM)
					}
				case "Foreign":
					w.foreign(w.id(s.I))
				default:
					t.Fatalf("unknown action %q", s.A)
				}
			}
		}
	}
	nrand := vhEnvInt("VERIF_NRANDOM", 200)
	ttls := []int{10, 29, 30, 59, 60, 61, 90, 120}
	caps := []int{1, 2, 3, 1000}
	abs := []string{"x", "y", "z", "u"}
	for i := 0; i < nrand; i++ {
		seg++
		ttl, capacity := ext3Inf, ext3Inf
		if rng.Intn(3) == 0 {
			capacity = caps[rng.Intn(len(caps))]
		} else {
			ttl = ttls[rng.Intn(len(ttls))]
		}
		w := ext3NewWorld(t, out, clk, rng, seg, "rand", ttl, capacity)
		nodes := []string{"A", "B"}
		if rng.Intn(3) == 0 {
			nodes = []string{"A", "A"}
		}
		nid := 1 + rng.Intn(len(abs))
		gaps := []int{1, 1, 2, 5, 28, 29, 30, 31, 58, 59, 60, 61}
		if ttl < ext3Inf {
			gaps = append(gaps, ttl-1, ttl, ttl+1, ttl-1, ttl, ttl+1)
		}
		nops := 10 + rng.Intn(40)
		for j := 0; j < nops; j++ {
			n := nodes[rng.Intn(2)]
			id := abs[rng.Intn(nid)]
			gm := "ok"
			if k := rng.Intn(12); k == 0 {
				gm = "err"
			} else if k == 1 {
				gm = "rl"
			}
			switch k := rng.Intn(100); {
			case k < 22:
				w.tick(gaps[rng.Intn(len(gaps))])
			case k < 47:
				w.query(n, w.checkName(id), "check", rng.Intn(7) == 0)
			case k < 57:
				name, class := w.nonCheckName()
				w.query(n, name, class, false)
			case k < 88:
				target := "/dnscheck/test"
				if rng.Intn(6) == 0 {
					target += "?x=1"
				}
				h, p := w.webHost(w.checkName(id))
				w.web(n, h, p, target, gm, "check")
			case k < 97:
				w.foreignWeb(n, gm)
			default:
				w.foreign(w.id(id))
			}
		}
	}
}

// TestVerifEXT3Stress: free-running goroutines query and read the same few ids
// on both nodes (run under the race detector).  Every id is recorded once
// sequentially first, so every concurrent read must be answered, and with a
// record of a query for THAT id.  The inputs of all concurrent queries are
// emitted first (SQ), then the observations of all reads (SW): membership does
// not depend on the order.
func TestVerifEXT3Stress(t *testing.T) {
	out := vhOpen(t)
	clk := &ext3Clock{}
	gocache.VerifNow = clk.Now
	rng := rand.New(rand.NewSource(vhSeed()*15485863 + 5))
	rounds := vhEnvInt("VERIF_NSTRESS", 10)
	abs := []string{"x", "y", "z", "u"}
	for round := 1; round <= rounds; round++ {
		ttl, capacity := 90, ext3Inf
		if round%2 == 0 {
			ttl, capacity = ext3Inf, 1000
		}
		w := ext3NewWorld(t, out, clk, rng, round, "stress", ttl, capacity)
		names := []string{}
		for _, a := range abs {
			names = append(names, w.checkName(a))
			w.query("A", names[len(names)-1], "check", false)
		}
		const workers, perWorker = 8, 60
		sq := make([][]ext3Event, workers)
		sw := make([][]ext3Event, workers)
		wg := &sync.WaitGroup{}
		for g := 0; g < workers; g++ {
			wg.Add(1)
			go func(g int, r *rand.Rand) {
				defer wg.Done()
				for i := 0; i < perWorker; i++ {
					n := []string{"A", "B"}[r.Intn(2)]
					name := names[r.Intn(len(names))]
					if r.Intn(2) == 0 {
						qname := ext3RandCase(r, name)
						req := &dns.Msg{
							MsgHdr:   dns.MsgHdr{Id: uint16(r.Intn(65536))},
							Question: []dns.Question{{Name: qname + ".", Qtype: dns.TypeA, Qclass: dns.ClassINET}},
						}
						inp, ri := w.randInp(r)
						ri.Host, ri.QType = agdnet.NormalizeDomain(req.Question[0].Name), dns.TypeA
						resp, err := w.nodes[n].Check(context.Background(), req, ri)
						kind := "answer"
						if err != nil || resp == nil {
							kind = "noanswer"
						}
						sq[g] = append(sq[g], ext3Event{Ev: "SQ", Seg: round, Src: "stress", T: clk.sec, Node: n,
							Name: ext3Chars(qname), NameStr: qname, QT: "A", Inp: inp, Kind: kind, Ans: []string{}, Class: "check"})
					} else {
						r2 := httptest.NewRequest(http.MethodGet, "http://placeholder.invalid/dnscheck/test", nil)
						r2.Host = name
						rw := httptest.NewRecorder()
						w.nodes[n].ServeHTTP(rw, r2)
						e := ext3Event{Ev: "SW", Seg: round, Src: "stress", T: clk.sec, Node: n, Host: ext3Chars(name), HostHdr: name,
							Path: "/dnscheck/test", Target: "/dnscheck/test", GM: "ok", Status: rw.Code, Body: &ext3Body{},
							Ans: []string{}, Class: "check", BodyRaw: rw.Body.String()}
						if rw.Code == http.StatusOK {
							e.Body, e.BodyOK = ext3ParseBody(rw.Body.Bytes())
						}
						sw[g] = append(sw[g], e)
					}
				}
			}(g, rand.New(rand.NewSource(rng.Int63())))
		}
		wg.Wait()
		for _, evs := range sq {
			for _, e := range evs {
				out.Emit(e)
			}
		}
		for _, evs := range sw {
			for _, e := range evs {
				out.Emit(e)
			}
		}
	}
}
