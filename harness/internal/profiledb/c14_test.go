//go:build verif

package profiledb

// C14 stepper.  Executes action sequences (TLC behaviours of ProfileDB.tla and
// seeded random ones) on the real profiledb.Default with a scripted Storage
// that delivers whole profiles like backendpb.  The `go db.remove*(..)`
// statements of profiledb.go are routed through VerifGo (overlay rewrite), so
// a clean-up is an explicit step that runs exactly when the schedule says.
// After every step all four look-ups are probed for the whole key universe
// (probe mode discards the clean-ups the probes would spawn); TLC
// (TraceProfileDB.tla) compares every probe with the owner in the last synced
// backend data.

import (
	"context"
	"errors"
	"fmt"
	"io"
	"log/slog"
	"math/rand"
	"net/netip"
	"os"
	"path/filepath"
	"reflect"
	"sort"
	"strings"
	"testing"
	"time"

	"github.com/AdguardTeam/AdGuardDNS/internal/access"
	"github.com/AdguardTeam/AdGuardDNS/internal/agd"
	"github.com/AdguardTeam/AdGuardDNS/internal/agdpasswd"
	"github.com/AdguardTeam/AdGuardDNS/internal/dnsmsg"
	"github.com/AdguardTeam/AdGuardDNS/internal/filter"
	"github.com/AdguardTeam/AdGuardDNS/internal/geoip"
	"github.com/AdguardTeam/AdGuardDNS/internal/profiledb/internal"
	"github.com/c2h5oh/datasize"
	"github.com/miekg/dns"
)

type c14Step struct {
	A string `json:"a"`
	D string `json:"d"`
	P string `json:"p"`
	K string `json:"k"`
}

type c14Res struct {
	Found   bool     `json:"found"`
	P       string   `json:"p"`
	D       string   `json:"d"`
	Deleted bool     `json:"deleted"`
	Linked  string   `json:"linked"`
	Ded     []string `json:"ded"`
	Human   string   `json:"human"`
	Devs    []string `json:"devs"`
}

type c14Event struct {
	Ev      string               `json:"ev"`
	D       string               `json:"d"`
	P       string               `json:"p"`
	K       string               `json:"k"`
	Beh     int                  `json:"beh"`
	Dev     map[string]c14Res    `json:"pdev"`
	Linked  map[string]c14Res    `json:"plinked"`
	Ded     map[string]c14Res    `json:"pded"`
	Human   map[string]c14Res    `json:"phuman"`
	Pending []string             `json:"pending"`
	Restore string               `json:"restore"`
	TProf   map[string]c14TProf  `json:"tprof"`
	TDev    map[string]c14TDevJS `json:"tdev"`
}

type c14TProf struct {
	Devs    []string `json:"devs"`
	Deleted bool     `json:"deleted"`
}
type c14TDevJS struct {
	Linked string   `json:"linked"`
	Ded    []string `json:"ded"`
	Human  string   `json:"human"`
}

var (
	c14Profs  = []string{"p1", "p2"}
	c14Devs   = []string{"d1", "d2", "d3"}
	c14Linked = map[string]netip.Addr{"i1": netip.MustParseAddr("192.0.2.1"), "i2": netip.MustParseAddr("fe80::1234%eth0")} // a zoned link-local address: the zone is part of the key
	c14Ded    = map[string]netip.Addr{"e1": netip.MustParseAddr("198.51.100.1"), "e2": netip.MustParseAddr("::ffff:198.51.100.2")}
	c14Humans = []string{"h1", "h2"}
)

func c14Name(m map[string]netip.Addr, a netip.Addr) string {
	for k, v := range m {
		if v == a {
			return k
		}
	}
	if a == (netip.Addr{}) {
		return "none"
	}
	return a.String()
}

// ghost backend ------------------------------------------------------------

type c14TDev struct {
	linked string // "none" or key of c14Linked
	ded    map[string]bool
	human  string // "none" or human id
	salt   int
}

type c14Backend struct {
	profDevs map[string]map[string]bool
	deleted  map[string]bool
	dev      map[string]*c14TDev
	dirty    map[string]bool
	salt     map[string]int // bumped whenever a profile is touched: varies the profile settings
	rng      *rand.Rand
	syncs    int
	lastResp *StorageProfilesResponse
	full     bool
	quiet    bool // a quiet move has not been delivered yet
}

func newC14Backend(rng *rand.Rand) *c14Backend {
	b := &c14Backend{profDevs: map[string]map[string]bool{}, deleted: map[string]bool{}, dev: map[string]*c14TDev{},
		dirty: map[string]bool{}, salt: map[string]int{}, rng: rng}
	for _, p := range c14Profs {
		b.profDevs[p] = map[string]bool{}
	}
	for _, d := range c14Devs {
		b.dev[d] = &c14TDev{linked: "none", ded: map[string]bool{}, human: "none"}
	}
	return b
}

func (b *c14Backend) profOf(d string) string {
	for p, ds := range b.profDevs {
		if ds[d] {
			return p
		}
	}
	return "none"
}

func (b *c14Backend) touch(ps ...string) {
	for _, p := range ps {
		if p != "none" && p != "" {
			b.dirty[p] = true
			b.salt[p]++
		}
	}
}

func (b *c14Backend) humanClash(d, p, h string) bool {
	if h == "none" {
		return false
	}
	for e := range b.profDevs[p] {
		if e != d && b.dev[e].human == h {
			return true
		}
	}
	return false
}

// apply performs a ghost mutation; returns false if its guard does not hold.
func (b *c14Backend) apply(s c14Step) bool {
	if b.quiet {
		// a quiet move is the last change before the next delivery (ProfileDB.tla, Mut)
		return false
	}
	switch s.A {
	case "Attach":
		if b.profOf(s.D) != "none" || b.humanClash(s.D, s.P, b.dev[s.D].human) {
			return false
		}
		b.profDevs[s.P][s.D] = true
		b.touch(s.P)
	case "Detach":
		p := b.profOf(s.D)
		if p == "none" {
			return false
		}
		delete(b.profDevs[p], s.D)
		b.touch(p)
	case "Move":
		p := b.profOf(s.D)
		if p == "none" || p == s.P || b.humanClash(s.D, s.P, b.dev[s.D].human) {
			return false
		}
		delete(b.profDevs[p], s.D)
		b.profDevs[s.P][s.D] = true
		b.touch(p, s.P)
	case "MoveQuiet":
		// the backend reports the move with the device's NEW profile only
		p := b.profOf(s.D)
		if p == "none" || p == s.P || b.humanClash(s.D, s.P, b.dev[s.D].human) || b.dirty[p] {
			return false
		}
		delete(b.profDevs[p], s.D)
		b.profDevs[s.P][s.D] = true
		b.touch(s.P)
		b.quiet = true
	case "SetLinked":
		if b.dev[s.D].linked == s.K {
			return false
		}
		if s.K != "none" {
			for e, td := range b.dev {
				if e != s.D && td.linked == s.K {
					td.linked = "none"
					b.touch(b.profOf(e))
				}
			}
		}
		b.dev[s.D].linked = s.K
		b.touch(b.profOf(s.D))
	case "SwapLinked":
		e := s.K
		if e == s.D || b.dev[s.D].linked == b.dev[e].linked {
			return false
		}
		b.dev[s.D].linked, b.dev[e].linked = b.dev[e].linked, b.dev[s.D].linked
		b.touch(b.profOf(s.D), b.profOf(e))
	case "ToggleDed":
		for e, td := range b.dev {
			if e != s.D && td.ded[s.K] {
				delete(td.ded, s.K)
				b.touch(b.profOf(e))
			}
		}
		if b.dev[s.D].ded[s.K] {
			delete(b.dev[s.D].ded, s.K)
		} else {
			b.dev[s.D].ded[s.K] = true
		}
		b.touch(b.profOf(s.D))
	case "SetHuman":
		if b.dev[s.D].human == s.K {
			return false
		}
		if p := b.profOf(s.D); p != "none" && b.humanClash(s.D, p, s.K) {
			return false
		}
		b.dev[s.D].human = s.K
		b.touch(b.profOf(s.D))
	case "SetDeleted":
		b.deleted[s.P] = !b.deleted[s.P]
		b.touch(s.P)
	default:
		return false
	}
	return true
}

// buildProfile renders a backend profile as a fully populated agd.Profile whose
// settings vary with the profile's salt (so that store/load fidelity is
// exercised over many field combinations).
func (b *c14Backend) buildProfile(p string) *agd.Profile {
	salt := b.salt[p]*31 + int(p[1])
	r := rand.New(rand.NewSource(int64(salt)))
	var devIDs []agd.DeviceID
	for _, d := range c14Devs {
		if b.profDevs[p][d] {
			devIDs = append(devIDs, agd.DeviceID(d))
		}
	}
	var bm dnsmsg.BlockingMode
	switch r.Intn(5) {
	case 0:
		bm = &dnsmsg.BlockingModeNullIP{}
	case 1:
		bm = &dnsmsg.BlockingModeNXDOMAIN{}
	case 2:
		bm = &dnsmsg.BlockingModeREFUSED{}
	case 3:
		bm = &dnsmsg.BlockingModeCustomIP{IPv4: []netip.Addr{netip.MustParseAddr("10.0.0.1")}}
	default:
		bm = &dnsmsg.BlockingModeCustomIP{IPv4: []netip.Addr{netip.MustParseAddr("10.0.0.2")},
			IPv6: []netip.Addr{netip.MustParseAddr([]string{"fd00::1", "::ffff:10.0.0.3"}[r.Intn(2)])}}
	}
	var acc access.Profile = access.EmptyProfile{}
	if r.Intn(3) > 0 {
		acc = access.NewDefaultProfile(&access.ProfileConfig{
			AllowedNets: []netip.Prefix{netip.MustParsePrefix(fmt.Sprintf("10.%d.0.0/16", r.Intn(200))),
				netip.MustParsePrefix([]string{"192.0.2.7/32", "2001:db8::7/128", "10.0.0.0/8", "fd00::/8"}[r.Intn(4)])},
			// boundary prefix lengths: "block everybody" (allow-list mode), single hosts
			BlockedNets: [][]netip.Prefix{{netip.MustParsePrefix("2.2.2.0/24")},
				{netip.MustParsePrefix("0.0.0.0/0"), netip.MustParsePrefix("::/0")},
				{netip.MustParsePrefix("::/0")}, {netip.MustParsePrefix("203.0.113.9/32"), netip.MustParsePrefix("2.0.0.0/7")}}[r.Intn(4)],
			AllowedASN: []geoip.ASN{geoip.ASN(1 + r.Intn(100))},
			BlockedASN: []geoip.ASN{[]geoip.ASN{2, 65535, 65536, 4294967295}[r.Intn(4)]},
			BlocklistDomainRules: []string{fmt.Sprintf("block%d.test", r.Intn(10))},
		})
	}
	var rl agd.Ratelimiter = agd.GlobalRatelimiter{}
	if r.Intn(2) == 0 {
		rl = agd.NewDefaultRatelimiter(&agd.RatelimitConfig{
			ClientSubnets: [][]netip.Prefix{{netip.MustParsePrefix("5.5.5.0/24")}, {netip.MustParsePrefix("0.0.0.0/0")},
				{netip.MustParsePrefix("2001:db8:5::/48"), netip.MustParsePrefix("5.5.5.5/32")}}[r.Intn(3)],
			RPS:           uint32(1 + r.Intn(500)),
			Enabled:       true,
		}, 1*datasize.KB)
	}
	fc := &filter.ConfigClient{
		Custom: &filter.ConfigCustom{
			ID:         p,
			UpdateTime: time.Unix(1_700_000_000+int64(salt), 0).UTC(),
			Rules:      []filter.RuleText{filter.RuleText(fmt.Sprintf("||custom%d.example^", r.Intn(10)))},
			Enabled:    r.Intn(2) == 0,
		},
		Parental: &filter.ConfigParental{
			Enabled:                  r.Intn(2) == 0,
			AdultBlockingEnabled:     r.Intn(2) == 0,
			SafeSearchGeneralEnabled: r.Intn(2) == 0,
			SafeSearchYouTubeEnabled: r.Intn(2) == 0,
			BlockedServices:          []filter.BlockedServiceID{filter.BlockedServiceID(fmt.Sprintf("svc%d", r.Intn(5)))},
		},
		RuleList: &filter.ConfigRuleList{
			IDs:     []filter.ID{filter.ID(fmt.Sprintf("list_%d", r.Intn(5)))},
			Enabled: r.Intn(2) == 0,
		},
		SafeBrowsing: &filter.ConfigSafeBrowsing{
			Enabled:                       r.Intn(2) == 0,
			DangerousDomainsEnabled:       r.Intn(2) == 0,
			NewlyRegisteredDomainsEnabled: r.Intn(2) == 0,
		},
	}
	return &agd.Profile{
		FilterConfig:        fc,
		Access:              acc,
		BlockingMode:        bm,
		Ratelimiter:         rl,
		ID:                  agd.ProfileID(p),
		DeviceIDs:           devIDs,
		FilteredResponseTTL: time.Duration(1+r.Intn(100)) * time.Second,
		AutoDevicesEnabled:  false,
		BlockChromePrefetch: r.Intn(2) == 0,
		BlockFirefoxCanary:  r.Intn(2) == 0,
		BlockPrivateRelay:   r.Intn(2) == 0,
		Deleted:             b.deleted[p],
		FilteringEnabled:    r.Intn(2) == 0,
		IPLogEnabled:        r.Intn(2) == 0,
		QueryLogEnabled:     r.Intn(2) == 0,
	}
}

func (b *c14Backend) buildDevice(d string, salt int) *agd.Device {
	td := b.dev[d]
	r := rand.New(rand.NewSource(int64(salt*17 + int(d[1]))))
	dev := &agd.Device{
		Auth:             &agd.AuthSettings{Enabled: false, DoHAuthOnly: false, PasswordHash: agdpasswd.AllowAuthenticator{}},
		ID:               agd.DeviceID(d),
		Name:             agd.DeviceName(fmt.Sprintf("name-%s-%d", d, r.Intn(100))),
		FilteringEnabled: r.Intn(2) == 0,
	}
	switch r.Intn(4) {
	case 0, 1:
		dev.Auth = &agd.AuthSettings{Enabled: true, DoHAuthOnly: r.Intn(2) == 0,
			PasswordHash: agdpasswd.NewPasswordHashBcrypt([]byte(fmt.Sprintf("$2a$04$hash%d", r.Intn(9))))}
	case 2:
		// authentication required, DoH only, no password: identified by the basic-auth user name alone
		dev.Auth = &agd.AuthSettings{Enabled: true, DoHAuthOnly: r.Intn(3) != 0, PasswordHash: agdpasswd.AllowAuthenticator{}}
	}
	if td.linked != "none" {
		dev.LinkedIP = c14Linked[td.linked]
	}
	var ks []string
	for k := range td.ded {
		ks = append(ks, k)
	}
	sort.Strings(ks)
	for _, k := range ks {
		dev.DedicatedIPs = append(dev.DedicatedIPs, c14Ded[k])
	}
	if td.human != "none" {
		dev.HumanIDLower = agd.HumanIDLower(td.human)
	}
	return dev
}

// Profiles implements Storage: whole dirty profiles with all their devices; a
// zero SyncTime in the request means a full sync.
func (b *c14Backend) Profiles(_ context.Context, req *StorageProfilesRequest) (*StorageProfilesResponse, error) {
	full := req.SyncTime.IsZero()
	b.full = full
	b.syncs++
	// the backend's snapshot time is not the local time at which the answer has been applied (streaming takes
	// time, clocks differ): it is the backend's time that the next incremental request must carry, also after
	// a restart from the file cache
	resp := &StorageProfilesResponse{SyncTime: VerifNow().UTC().Add(-1500 * time.Millisecond)}
	pristine := &StorageProfilesResponse{SyncTime: resp.SyncTime}
	for _, p := range c14Profs {
		if !full && !b.dirty[p] {
			continue
		}
		resp.Profiles = append(resp.Profiles, b.buildProfile(p))
		pristine.Profiles = append(pristine.Profiles, b.buildProfile(p))
		for _, d := range c14Devs {
			if b.profDevs[p][d] {
				resp.Devices = append(resp.Devices, b.buildDevice(d, b.salt[p]))
				pristine.Devices = append(pristine.Devices, b.buildDevice(d, b.salt[p]))
			}
		}
	}
	// order inside a response is not guaranteed by the backend
	b.rng.Shuffle(len(resp.Profiles), func(i, j int) { resp.Profiles[i], resp.Profiles[j] = resp.Profiles[j], resp.Profiles[i] })
	b.rng.Shuffle(len(resp.Devices), func(i, j int) { resp.Devices[i], resp.Devices[j] = resp.Devices[j], resp.Devices[i] })
	b.dirty = map[string]bool{}
	b.quiet = false
	// what the database is handed is used by it (and by the queries it serves); the settings that were
	// sent are kept separately, in objects nobody touches
	b.lastResp = pristine
	return resp, nil
}

func (b *c14Backend) CreateAutoDevice(context.Context, *StorageCreateAutoDeviceRequest) (*StorageCreateAutoDeviceResponse, error) {
	return nil, errors.New("not scripted")
}

type c14ErrColl struct{}

func (c14ErrColl) Collect(context.Context, error) {}

// world --------------------------------------------------------------------

type c14Cleanup struct {
	kind, key string
	f         func()
}

type c14World struct {
	broken bool
	t       *testing.T
	be      *c14Backend
	db      *Default
	now     time.Time
	path    string
	queue   []c14Cleanup
	probing bool
	stored  *StorageProfilesResponse // response that was written to the cache file
	nfull   int
}

func (w *c14World) newDB() {
	db, err := New(&Config{
		Logger:               slog.New(slog.NewTextHandler(io.Discard, nil)),
		Storage:              w.be,
		ErrColl:              c14ErrColl{},
		Metrics:              EmptyMetrics{},
		CacheFilePath:        w.path,
		FullSyncIvl:          time.Hour,
		FullSyncRetryIvl:     time.Hour,
		ResponseSizeEstimate: 1 * datasize.KB,
	})
	if err != nil {
		w.t.Fatal(err)
	}
	db.cache = &c14UsedCache{FileCacheStorage: db.cache}
	w.db = db
}

// c14UsedCache lets a query of every profile be processed in the window
// between the publication of the new profiles and their being written to the
// cache file (Refresh stores outside of the maps' lock).
type c14UsedCache struct {
	internal.FileCacheStorage
}

func (c *c14UsedCache) Store(ctx context.Context, fc *internal.FileCache) error {
	for _, p := range fc.Profiles {
		c14UseProfile(ctx, p)
	}
	return c.FileCacheStorage.Store(ctx, fc)
}

// c14UseProfile does with a looked-up profile what the processing of a query does.
func c14UseProfile(ctx context.Context, p *agd.Profile) {
	req := new(dns.Msg).SetQuestion("block1.test.", dns.TypeA)
	addr := netip.MustParseAddrPort("198.51.100.7:5353")
	_ = p.Access.IsBlocked(req, addr, &geoip.Location{ASN: 7, Country: "NL"})
	_ = p.Ratelimiter.Check(ctx, req, addr.Addr())
	p.Ratelimiter.CountResponses(ctx, req, addr.Addr())
}

func c14KindOf(name string, key any) (kind, k string) {
	// key holds all arguments of the clean-up; the one that names the map entry is found by its type
	args, _ := key.([]any)
	var addr netip.Addr
	var hk humanIDKey
	var dev agd.DeviceID
	var haveAddr, haveHK, haveDev bool
	for _, a := range args {
		switch v := a.(type) {
		case netip.Addr:
			if !haveAddr {
				addr, haveAddr = v, true
			}
		case humanIDKey:
			if !haveHK {
				hk, haveHK = v, true
			}
		case agd.DeviceID:
			if !haveDev {
				dev, haveDev = v, true
			}
		}
	}
	switch {
	case name == "removeDevice" && haveDev:
		return "dev", string(dev)
	case name == "removeLinkedIP" && haveAddr:
		return "linked", c14Name(c14Linked, addr)
	case name == "removeDedicatedIP" && haveAddr:
		return "ded", c14Name(c14Ded, addr)
	case name == "removeHumanID" && haveHK:
		return "human", string(hk.lower) + "|" + string(hk.profile)
	}
	return name, fmt.Sprint(key)
}

func (w *c14World) install() {
	VerifNow = func() time.Time { return w.now }
	VerifGo = func(name string, key any, f func()) {
		if w.probing {
			return
		}
		kind, k := c14KindOf(name, key)
		w.queue = append(w.queue, c14Cleanup{kind, k, f})
	}
}

func (w *c14World) res(p *agd.Profile, d *agd.Device, err error) c14Res {
	r := c14Res{Ded: []string{}, Devs: []string{}, P: "", D: "", Linked: "none", Human: "none"}
	if err != nil {
		return r
	}
	r.Found, r.P, r.D, r.Deleted = true, string(p.ID), string(d.ID), p.Deleted
	r.Linked = c14Name(c14Linked, d.LinkedIP)
	for _, a := range d.DedicatedIPs {
		r.Ded = append(r.Ded, c14Name(c14Ded, a))
	}
	sort.Strings(r.Ded)
	if d.HumanIDLower != "" {
		r.Human = string(d.HumanIDLower)
	}
	for _, id := range p.DeviceIDs {
		r.Devs = append(r.Devs, string(id))
	}
	sort.Strings(r.Devs)
	return r
}

func (w *c14World) probe(ev *c14Event) {
	ctx := context.Background()
	w.probing = true
	defer func() { w.probing = false }()
	ev.Dev, ev.Linked, ev.Ded, ev.Human = map[string]c14Res{}, map[string]c14Res{}, map[string]c14Res{}, map[string]c14Res{}
	for _, d := range c14Devs {
		ev.Dev[d] = w.res(w.db.ProfileByDeviceID(ctx, agd.DeviceID(d)))
	}
	for k, a := range c14Linked {
		ev.Linked[k] = w.res(w.db.ProfileByLinkedIP(ctx, a))
	}
	for k, a := range c14Ded {
		ev.Ded[k] = w.res(w.db.ProfileByDedicatedIP(ctx, a))
	}
	for _, h := range c14Humans {
		for _, p := range c14Profs {
			ev.Human[h+"|"+p] = w.res(w.db.ProfileByHumanID(ctx, agd.ProfileID(p), agd.HumanIDLower(h)))
		}
	}
	ev.Pending = []string{}
	for _, c := range w.queue {
		ev.Pending = append(ev.Pending, c.kind+":"+c.key)
	}
	ev.TProf, ev.TDev = map[string]c14TProf{}, map[string]c14TDevJS{}
	for _, p := range c14Profs {
		tp := c14TProf{Devs: []string{}, Deleted: w.be.deleted[p]}
		for _, d := range c14Devs {
			if w.be.profDevs[p][d] {
				tp.Devs = append(tp.Devs, d)
			}
		}
		ev.TProf[p] = tp
	}
	for _, d := range c14Devs {
		td := w.be.dev[d]
		js := c14TDevJS{Linked: td.linked, Human: td.human, Ded: []string{}}
		for k := range td.ded {
			js.Ded = append(js.Ded, k)
		}
		sort.Strings(js.Ded)
		ev.TDev[d] = js
	}
}

// do performs one step; returns false if the step is not applicable.
func (w *c14World) do(s c14Step, ev *c14Event) bool {
	ctx := context.Background()
	switch s.A {
	case "FullSync", "PartialSync":
		if s.A == "FullSync" {
			w.now = w.now.Add(2 * time.Hour)
		} else {
			if w.db.lastFullSync.IsZero() {
				return false // the first refresh of a database without cache is always full
			}
			w.now = w.now.Add(time.Minute)
		}
		// every fourth full sync finds the cache file's place taken by a non-empty directory: the file cannot
		// be replaced, the refresh says so (the synchronised data are in memory all the same), and whatever
		// that attempt left behind must not leak into the file written by the next successful sync
		storeFails := false
		if s.A == "FullSync" {
			w.nfull++
			storeFails = w.nfull%4 == 2
		}
		if storeFails {
			_ = os.RemoveAll(w.path)
			if err := os.MkdirAll(filepath.Join(w.path, "in-the-way"), 0o700); err != nil {
				w.t.Fatal(err)
			}
		}
		err := w.db.Refresh(ctx)
		if storeFails {
			_ = os.RemoveAll(w.path)
			// (a refresh that reports nothing here did not try to write the file: either way there is no
			// cache file now, which is what the bookkeeping below assumes)
			if err != nil && !strings.Contains(err.Error(), "saving cache") {
				w.t.Fatalf("refresh with an unwritable cache file: %v", err)
			}
			err = nil
		}
		if err != nil {
			w.t.Fatalf("refresh: %v", err)
		}
		if (s.A == "FullSync") != w.be.full {
			// the database asked for another kind of sync than its own sync times (as written, and as
			// restored from the file cache) call for: an observation about the code, recorded and judged
			// by the trace spec; the behaviour ends here because the stepper's bookkeeping no longer applies
			ev.Restore = fmt.Sprintf("sync kind: the schedule calls for a %s, the storage was asked full=%v", s.A, w.be.full)
			w.broken = true
			return true
		}
		if w.be.full {
			w.stored = w.be.lastResp
			if storeFails {
				w.stored = nil // there is no cache file now
			}
		}
	case "Restart":
		if w.stored == nil {
			return false
		}
		w.queue = nil
		w.newDB()
		ev.Restore = w.compareRestored()
		// everything may have changed since the file was written
		for _, p := range c14Profs {
			w.be.dirty[p] = true
		}
		w.be.quiet = false
	case "LookupDev":
		if p, _, err := w.db.ProfileByDeviceID(ctx, agd.DeviceID(s.D)); err == nil {
			c14UseProfile(ctx, p)
		}
	case "LookupLinked":
		_, _, _ = w.db.ProfileByLinkedIP(ctx, c14Linked[s.K])
	case "LookupDed":
		_, _, _ = w.db.ProfileByDedicatedIP(ctx, c14Ded[s.K])
	case "LookupHuman":
		_, _, _ = w.db.ProfileByHumanID(ctx, agd.ProfileID(s.P), agd.HumanIDLower(s.K))
	case "RunCleanup":
		// d = kind, k = key, p = profile (human only)
		key := s.K
		if s.D == "human" {
			key = s.K + "|" + s.P
		}
		for i, c := range w.queue {
			if c.kind == s.D && c.key == key {
				w.queue = append(w.queue[:i:i], w.queue[i+1:]...)
				c.f()
				return true
			}
		}
		return false
	default:
		return w.be.apply(s)
	}
	return true
}

// compareRestored deep-compares what the restarted database holds with what
// was written (every profile and device setting must be preserved).
func (w *c14World) compareRestored() string {
	want := w.stored
	usable := len(want.Profiles) > 0 && len(want.Devices) > 0
	w.db.mapsMu.RLock()
	defer w.db.mapsMu.RUnlock()
	if !usable {
		if len(w.db.profiles) != 0 {
			return "database not empty after loading an unusable cache"
		}
		return "ok"
	}
	if len(w.db.profiles) != len(want.Profiles) || len(w.db.devices) != len(want.Devices) {
		return fmt.Sprintf("restored %d profiles / %d devices, stored %d / %d", len(w.db.profiles), len(w.db.devices),
			len(want.Profiles), len(want.Devices))
	}
	for _, p := range want.Profiles {
		got := w.db.profiles[p.ID]
		if got == nil {
			return "profile " + string(p.ID) + " missing after restart"
		}
		if diff := c14Diff("profile["+string(p.ID)+"]", reflect.ValueOf(p), reflect.ValueOf(got), 0); diff != "" {
			return diff
		}
	}
	for _, d := range want.Devices {
		got := w.db.devices[d.ID]
		if got == nil {
			return "device " + string(d.ID) + " missing after restart"
		}
		if diff := c14Diff("device["+string(d.ID)+"]", reflect.ValueOf(d), reflect.ValueOf(got), 0); diff != "" {
			return diff
		}
	}
	if !w.db.syncTime.Equal(want.SyncTime) {
		return fmt.Sprintf("sync time %v restored as %v", want.SyncTime, w.db.syncTime)
	}
	return "ok"
}

// c14Diff is a structural comparison that treats nil and empty slices/maps as
// equal, skips funcs and sync primitives, and reads unexported fields.
func c14Diff(path string, a, b reflect.Value, depth int) string {
	if depth > 40 {
		return ""
	}
	if !a.IsValid() || !b.IsValid() {
		if a.IsValid() != b.IsValid() {
			return path + ": one side invalid"
		}
		return ""
	}
	if a.Type() != b.Type() {
		return fmt.Sprintf("%s: type %s vs %s", path, a.Type(), b.Type())
	}
	if strings.HasPrefix(a.Type().PkgPath(), "sync") {
		return ""
	}
	switch a.Kind() {
	case reflect.Ptr, reflect.Interface:
		if a.IsNil() || b.IsNil() {
			if a.IsNil() != b.IsNil() {
				return path + ": nil vs non-nil"
			}
			return ""
		}
		return c14Diff(path, a.Elem(), b.Elem(), depth+1)
	case reflect.Struct:
		if a.Type() == reflect.TypeOf(time.Time{}) {
			ta := reflect.NewAt(a.Type(), nil)
			_ = ta
			// compare instants through UnixNano of a copy obtained with Field access
			return c14TimeDiff(path, a, b)
		}
		if a.Type() == reflect.TypeOf(netip.Addr{}) || a.Type() == reflect.TypeOf(netip.Prefix{}) {
			if fmt.Sprint(c14Iface(a)) != fmt.Sprint(c14Iface(b)) {
				return fmt.Sprintf("%s: %v vs %v", path, c14Iface(a), c14Iface(b))
			}
			return ""
		}
		for i := 0; i < a.NumField(); i++ {
			if d := c14Diff(path+"."+a.Type().Field(i).Name, a.Field(i), b.Field(i), depth+1); d != "" {
				return d
			}
		}
		return ""
	case reflect.Slice, reflect.Array:
		if a.Len() != b.Len() {
			return fmt.Sprintf("%s: len %d vs %d", path, a.Len(), b.Len())
		}
		for i := 0; i < a.Len(); i++ {
			if d := c14Diff(fmt.Sprintf("%s[%d]", path, i), a.Index(i), b.Index(i), depth+1); d != "" {
				return d
			}
		}
		return ""
	case reflect.Map:
		if a.Len() != b.Len() {
			return fmt.Sprintf("%s: map len %d vs %d", path, a.Len(), b.Len())
		}
		it := a.MapRange()
		for it.Next() {
			bv := b.MapIndex(it.Key())
			if !bv.IsValid() {
				return fmt.Sprintf("%s: key %v missing", path, it.Key())
			}
			if d := c14Diff(fmt.Sprintf("%s[%v]", path, it.Key()), it.Value(), bv, depth+1); d != "" {
				return d
			}
		}
		return ""
	case reflect.Func, reflect.Chan, reflect.UnsafePointer:
		return ""
	case reflect.Bool:
		if a.Bool() != b.Bool() {
			return fmt.Sprintf("%s: %v vs %v", path, a.Bool(), b.Bool())
		}
	case reflect.Int, reflect.Int8, reflect.Int16, reflect.Int32, reflect.Int64:
		if a.Int() != b.Int() {
			return fmt.Sprintf("%s: %d vs %d", path, a.Int(), b.Int())
		}
	case reflect.Uint, reflect.Uint8, reflect.Uint16, reflect.Uint32, reflect.Uint64, reflect.Uintptr:
		if a.Uint() != b.Uint() {
			return fmt.Sprintf("%s: %d vs %d", path, a.Uint(), b.Uint())
		}
	case reflect.Float32, reflect.Float64:
		if a.Float() != b.Float() {
			return fmt.Sprintf("%s: %v vs %v", path, a.Float(), b.Float())
		}
	case reflect.String:
		if a.String() != b.String() {
			return fmt.Sprintf("%s: %q vs %q", path, a.String(), b.String())
		}
	}
	return ""
}

func c14Iface(v reflect.Value) any {
	if v.CanInterface() {
		return v.Interface()
	}
	if v.CanAddr() {
		return reflect.NewAt(v.Type(), v.Addr().UnsafePointer()).Elem().Interface()
	}
	c := reflect.New(v.Type()).Elem()
	// copy field-wise is not possible for unexported; fall back to formatted value
	_ = c
	return fmt.Sprintf("%#v", v)
}

func c14TimeDiff(path string, a, b reflect.Value) string {
	ia, ib := c14Iface(a), c14Iface(b)
	ta, ok1 := ia.(time.Time)
	tb, ok2 := ib.(time.Time)
	if ok1 && ok2 {
		if !ta.Equal(tb) {
			return fmt.Sprintf("%s: %v vs %v", path, ta, tb)
		}
		return ""
	}
	if fmt.Sprint(ia) != fmt.Sprint(ib) {
		return fmt.Sprintf("%s: %v vs %v", path, ia, ib)
	}
	return ""
}

func c14Run(t *testing.T, out *vhOut, beh int, rng *rand.Rand, steps []c14Step, gen func(w *c14World) (c14Step, bool)) {
	dir, err := os.MkdirTemp(os.Getenv("VERIF_SCRATCH"), "c14-")
	if err != nil {
		t.Fatal(err)
	}
	defer os.RemoveAll(dir)
	w := &c14World{t: t, be: newC14Backend(rng), now: time.Unix(1_760_000_000, 0), path: filepath.Join(dir, "profiles.pb")}
	w.install()
	w.newDB()
	ev := c14Event{Ev: "Reset", Beh: beh}
	w.probe(&ev)
	out.Emit(ev)
	i := 0
	for {
		var s c14Step
		if gen != nil {
			var ok bool
			if s, ok = gen(w); !ok {
				break
			}
		} else {
			if i >= len(steps) {
				break
			}
			s = steps[i]
			i++
		}
		ev := c14Event{Ev: s.A, D: s.D, P: s.P, K: s.K, Beh: beh, Restore: ""}
		if !w.do(s, &ev) {
			continue
		}
		if w.broken {
			// keep the probes of the previous event: the spec's ghost is not advanced for this step
			ev.Ev = "Diverged"
			w.probe(&ev)
			out.Emit(ev)
			break
		}
		w.probe(&ev)
		out.Emit(ev)
	}
}

func c14RandomStep(rng *rand.Rand, w *c14World) c14Step {
	d := c14Devs[rng.Intn(len(c14Devs))]
	p := c14Profs[rng.Intn(len(c14Profs))]
	lk := []string{"i1", "i2", "none"}
	dk := []string{"e1", "e2"}
	hk := []string{"h1", "h2", "none"}
	switch r := rng.Intn(100); {
	case r < 8:
		return c14Step{A: "Attach", D: d, P: p}
	case r < 12:
		return c14Step{A: "Detach", D: d}
	case r < 15:
		return c14Step{A: "Move", D: d, P: p}
	case r < 18:
		return c14Step{A: "MoveQuiet", D: d, P: p}
	case r < 26:
		return c14Step{A: "SetLinked", D: d, K: lk[rng.Intn(3)]}
	case r < 29:
		return c14Step{A: "SwapLinked", D: d, K: c14Devs[rng.Intn(len(c14Devs))]}
	case r < 35:
		return c14Step{A: "ToggleDed", D: d, K: dk[rng.Intn(2)]}
	case r < 42:
		return c14Step{A: "SetHuman", D: d, K: hk[rng.Intn(3)]}
	case r < 45:
		return c14Step{A: "SetDeleted", P: p}
	case r < 52:
		return c14Step{A: "FullSync"}
	case r < 66:
		return c14Step{A: "PartialSync"}
	case r < 69:
		return c14Step{A: "Restart"}
	case r < 74:
		return c14Step{A: "LookupDev", D: d}
	case r < 80:
		return c14Step{A: "LookupLinked", K: lk[rng.Intn(2)]}
	case r < 84:
		return c14Step{A: "LookupDed", K: dk[rng.Intn(2)]}
	case r < 90:
		return c14Step{A: "LookupHuman", P: p, K: hk[rng.Intn(2)]}
	default:
		if len(w.queue) == 0 {
			return c14Step{A: "LookupDev", D: d}
		}
		c := w.queue[rng.Intn(len(w.queue))]
		if c.kind == "human" {
			parts := strings.SplitN(c.key, "|", 2)
			return c14Step{A: "RunCleanup", D: "human", K: parts[0], P: parts[1]}
		}
		return c14Step{A: "RunCleanup", D: c.kind, K: c.key}
	}
}

func TestVerifC14Stepper(t *testing.T) {
	out := vhOpen(t)
	rng := rand.New(rand.NewSource(vhSeed()))
	beh := 0
	if p := os.Getenv("VERIF_IN"); p != "" {
		var behs [][]c14Step
		vhReadJSON(t, p, &behs)
		for _, b := range behs {
			c14Run(t, out, beh, rng, b, nil)
			beh++
		}
	}
	nrand := vhEnvInt("VERIF_NRANDOM", 100)
	for k := 0; k < nrand; k++ {
		n := 15 + rng.Intn(45)
		cnt := 0
		c14Run(t, out, beh, rng, nil, func(w *c14World) (c14Step, bool) {
			if cnt >= n {
				return c14Step{}, false
			}
			cnt++
			if cnt == 1 {
				return c14Step{A: "FullSync"}, true
			}
			return c14RandomStep(rng, w), true
		})
		beh++
	}
}
