//go:build verif

package profiledb

// C14 crash points: child and verifier modes, run as separate processes by
// tools/checks/c14.py (the child under strace with SIGKILL injection).

import (
	"context"
	"fmt"
	"io"
	"log/slog"
	"math/rand"
	"os"
	"runtime"
	"strings"
	"testing"
	"time"

	"github.com/c2h5oh/datasize"
)

func c14CrashDB(t *testing.T, be Storage) *Default {
	db, err := New(&Config{
		Logger: slog.New(slog.NewTextHandler(io.Discard, nil)), Storage: be, ErrColl: c14ErrColl{}, Metrics: EmptyMetrics{},
		CacheFilePath: os.Getenv("VERIF_CRASH_FILE"), FullSyncIvl: 0, FullSyncRetryIvl: 0,
		ResponseSizeEstimate: 1 * datasize.KB,
	})
	if err != nil {
		t.Fatal(err)
	}
	return db
}

// TestVerifC14CrashChild writes version $VERIF_CRASH_VERSION of the profile
// cache through a real full synchronisation.
func TestVerifC14CrashChild(t *testing.T) {
	if os.Getenv("VERIF_CRASH_FILE") == "" {
		t.Skip()
	}
	// all system calls of the replacement on one OS thread: strace counts
	// injected calls per thread
	runtime.LockOSThread()
	ver := vhEnvInt("VERIF_CRASH_VERSION", 1)
	be := newC14Backend(rand.New(rand.NewSource(1)))
	// a few profiles' worth of data; the version is visible in a human id
	for i, d := range c14Devs {
		be.apply(c14Step{A: "Attach", D: d, P: c14Profs[i%2]})
	}
	be.apply(c14Step{A: "SetHuman", D: "d1", K: fmt.Sprintf("ver%d", ver)})
	be.apply(c14Step{A: "SetLinked", D: "d2", K: "i1"})
	be.apply(c14Step{A: "ToggleDed", D: "d3", K: "e1"})
	db := c14CrashDB(t, be)
	if err := db.Refresh(context.Background()); err != nil {
		t.Fatal(err)
	}
}

// TestVerifC14CrashVerify classifies the cache file: absent, ver<N>, corrupt.
func TestVerifC14CrashVerify(t *testing.T) {
	path := os.Getenv("VERIF_CRASH_FILE")
	if path == "" {
		t.Skip()
	}
	out := vhOpen(t)
	if _, err := os.Stat(path); os.IsNotExist(err) {
		out.Emit(map[string]any{"state": "absent"})
		return
	}
	db := c14CrashDB(t, newC14Backend(rand.New(rand.NewSource(1))))
	fc, err := db.cache.Load(context.Background())
	if err != nil || fc == nil {
		out.Emit(map[string]any{"state": "corrupt", "err": fmt.Sprint(err)})
		return
	}
	state := "corrupt"
	for _, d := range fc.Devices {
		if d.ID == "d1" && strings.HasPrefix(string(d.HumanIDLower), "ver") {
			state = string(d.HumanIDLower)
		}
	}
	// the restarted database must answer from it
	if _, d, lerr := db.ProfileByDeviceID(context.Background(), "d1"); lerr != nil || string(d.HumanIDLower) != state {
		state = "corrupt"
	}
	_ = time.Now
	out.Emit(map[string]any{"state": state, "profiles": len(fc.Profiles), "devices": len(fc.Devices)})
}
