//go:build verif && linux

package bindtodevice

// EXT4 harness for internal/bindtodevice.
//
// Stepper (TestVerifEXT4Stepper): executes action sequences -- behaviours
// printed by TLC from specs/BindToDevice.tla and seeded random ones -- on a real
// Manager (fake InterfaceStorage), its real interfaceListeners, chanListeners
// and chanPacketConns:
//
//	Add / ListenConfig  Manager.Add / Manager.ListenConfig with concretised arguments
//	Dispatch tcp        interfaceListener.processConn with a recording net.Conn whose
//	                    LocalAddr is the concretised destination
//	Dispatch udp        a datagram sent over loop-back to the concretised destination
//	                    (every address of 127.0.0.0/8 is local) and ONE call of
//	                    interfaceListener.readUDP on a real socket with
//	                    IP_RECVORIGDSTADDR (real control-message parsing)
//	Recv / Close        Accept / ReadFromSession / Close of the channel endpoints
//	WriteBack           chanPacketConn.WriteToSession served by the real
//	                    writeUDPResponses loop; the client socket reports the source
//
// Every call runs in its own goroutine; after each action the harness waits
// until every goroutine it started has returned or is parked in a channel
// operation / mutex (goroutine states from runtime.Stack), then records the
// outcome and the observable state.  Nothing is judged here: TLC decides
// (specs/TraceBindToDevice.tla).
//
// End to end (TestVerifEXT4E2E): Manager.Start with the real listenTCP /
// listenUDP loops on 0.0.0.0:<port>; only the SO_BINDTODEVICE socket option is
// left out (the net.ListenConfig of the interface listener is replaced by one
// that sets IP_RECVORIGDSTADDR only).  Connections and datagrams are sent to
// addresses below 127.0.0.0/8; a marker item sent behind each one tells when
// the single-threaded loop has dealt with it.

import (
	"bytes"
	"context"
	"encoding/binary"
	"errors"
	"fmt"
	"io"
	"log/slog"
	"math/rand"
	"net"
	"net/netip"
	"os"
	"regexp"
	"runtime"
	"strings"
	"sync/atomic"
	"syscall"
	"testing"
	"time"

	"github.com/AdguardTeam/AdGuardDNS/internal/dnsserver/netext"
	"golang.org/x/sys/unix"
)

const ext4W = 3

// ---------------------------------------------------------------- addresses

// ext4Map concretises bit paths: level i of a path occupies `stride` address
// bits behind the base prefix; chunk[i][b] is the value of that chunk for bit b.
type ext4Map struct {
	fam    string // lo4 | v4 | v6
	base   netip.Prefix
	stride int
	chunk  [ext4W][2]uint32
	nbits  int
}

func ext4SetBits(b []byte, off, n int, v uint32) {
	for i := 0; i < n; i++ {
		bit := (v >> uint(n-1-i)) & 1
		pos := off + i
		if bit == 1 {
			b[pos/8] |= 1 << uint(7-pos%8)
		} else {
			b[pos/8] &^= 1 << uint(7-pos%8)
		}
	}
}

func ext4GetBits(b []byte, off, n int) (v uint32) {
	for i := 0; i < n; i++ {
		pos := off + i
		v = v<<1 | uint32(b[pos/8]>>uint(7-pos%8)&1)
	}
	return v
}

func ext4NewMap(r *rand.Rand, fam string) *ext4Map {
	m := &ext4Map{fam: fam}
	var raw []byte
	var bl int
	switch fam {
	case "lo4":
		bl = 10 + r.Intn(5)
		m.stride = 2 + r.Intn(3)
		raw = []byte{127, byte(r.Intn(256)), byte(r.Intn(256)), 0}
		raw[1] |= 0x40 // keeps clear of 127.0.0.x
		m.nbits = 32
	case "v4":
		bl = 8 + r.Intn(9)
		m.stride = 2 + r.Intn(3)
		raw = []byte{[]byte{10, 100, 172, 192, 198}[r.Intn(5)], byte(r.Intn(256)), byte(r.Intn(256)), 0}
		m.nbits = 32
	default:
		bl = 32 + r.Intn(33)
		m.stride = 2 + r.Intn(15)
		raw = make([]byte, 16)
		r.Read(raw)
		raw[0], raw[1], raw[2], raw[3] = 0x20, 0x01, 0x0d, 0xb8
		m.nbits = 128
	}
	a, _ := netip.AddrFromSlice(raw)
	m.base = netip.PrefixFrom(a, bl).Masked()
	for i := 0; i < ext4W; i++ {
		n := uint32(1) << uint(m.stride)
		c0 := uint32(r.Intn(int(n)))
		c1 := (c0 + 1 + uint32(r.Intn(int(n)-1))) % n
		m.chunk[i] = [2]uint32{c0, c1}
	}
	return m
}

func (m *ext4Map) raw() []byte {
	if m.nbits == 32 {
		a := m.base.Addr().As4()
		return a[:]
	}
	a := m.base.Addr().As16()
	return a[:]
}

// prefix returns the masked concrete prefix of a path.
func (m *ext4Map) prefix(path []int) netip.Prefix {
	b := m.raw()
	for i, bit := range path {
		ext4SetBits(b, m.base.Bits()+i*m.stride, m.stride, m.chunk[i][bit])
	}
	a, _ := netip.AddrFromSlice(b)
	return netip.PrefixFrom(a, m.base.Bits()+len(path)*m.stride)
}

// unmasked returns the prefix of path with some host bits set.
func (m *ext4Map) unmasked(r *rand.Rand, path []int) netip.Prefix {
	p := m.prefix(path)
	b := p.Addr().AsSlice()
	host := m.nbits - p.Bits()
	n := 1 + r.Intn(host)
	ext4SetBits(b, m.nbits-n, 1, 1)
	for i := m.nbits - n + 1; i < m.nbits; i++ {
		ext4SetBits(b, i, 1, uint32(r.Intn(2)))
	}
	a, _ := netip.AddrFromSlice(b)
	return netip.PrefixFrom(a, p.Bits())
}

// addr returns a concrete address for a destination path ([2] = outside the base).
func (m *ext4Map) addr(r *rand.Rand, path []int) netip.Addr {
	b := m.raw()
	if len(path) == 1 && path[0] == 2 {
		// flip one bit of the base prefix (not inside 127/8's first octet)
		lo := 0
		if m.fam == "lo4" {
			lo = 8
		}
		pos := lo + r.Intn(m.base.Bits()-lo)
		ext4SetBits(b, pos, 1, 1-ext4GetBits(b, pos, 1))
		for i := m.base.Bits(); i < m.nbits; i++ {
			ext4SetBits(b, i, 1, uint32(r.Intn(2)))
		}
		if m.fam == "lo4" && b[1] == 0 && b[2] == 0 {
			b[2] = 1
		}
		a, _ := netip.AddrFromSlice(b)
		return a
	}
	off := m.base.Bits()
	for i, bit := range path {
		ext4SetBits(b, off+i*m.stride, m.stride, m.chunk[i][bit])
	}
	pos := off + len(path)*m.stride
	if len(path) < ext4W {
		// leave the modelled paths: a chunk value that is neither of the two
		n := uint32(1) << uint(m.stride)
		for {
			v := uint32(r.Intn(int(n)))
			if v != m.chunk[len(path)][0] && v != m.chunk[len(path)][1] {
				ext4SetBits(b, pos, m.stride, v)
				break
			}
		}
		pos += m.stride
	}
	for i := pos; i < m.nbits; i++ {
		ext4SetBits(b, i, 1, uint32(r.Intn(2)))
	}
	a, _ := netip.AddrFromSlice(b)
	return a
}

// abs is the abstraction function: concrete address -> path.
func (m *ext4Map) abs(a netip.Addr) []int {
	a = a.Unmap().WithZone("")
	if !a.IsValid() || !m.base.Contains(a) {
		return []int{2}
	}
	b := a.AsSlice()
	path := []int{}
	for i := 0; i < ext4W; i++ {
		v := ext4GetBits(b, m.base.Bits()+i*m.stride, m.stride)
		if v == m.chunk[i][0] {
			path = append(path, 0)
		} else if v == m.chunk[i][1] {
			path = append(path, 1)
		} else {
			break
		}
	}
	return path
}

func ext4AddrOf(a net.Addr) netip.Addr {
	switch v := a.(type) {
	case *net.TCPAddr:
		x, _ := netip.AddrFromSlice(v.IP)
		return x.Unmap()
	case *net.UDPAddr:
		x, _ := netip.AddrFromSlice(v.IP)
		return x.Unmap()
	}
	return netip.Addr{}
}

// ---------------------------------------------------------------- fakes

type ext4Ifaces struct {
	names map[string]string // concrete name -> abstract name
	mp    *ext4Map
	r     *rand.Rand
}

type ext4Iface struct{ nets []netip.Prefix }

func (i *ext4Iface) Subnets() ([]netip.Prefix, error) { return i.nets, nil }

func (s *ext4Ifaces) InterfaceByName(name string) (NetInterface, error) {
	abs, ok := s.names[name]
	if !ok {
		return nil, fmt.Errorf("looking up interface %s: no such network interface", name)
	}
	path := []int{}
	if abs == "eth0" {
		path = []int{0}
	}
	// like a real interface: address with host bits / prefix length, plus unrelated networks
	own := s.mp.unmasked(s.r, path)
	nets := []netip.Prefix{netip.MustParsePrefix("169.254.7.9/16"), own, netip.MustParsePrefix("fe80::1234/64")}
	if s.r.Intn(2) == 0 {
		nets[0], nets[1] = nets[1], nets[0]
	}
	return &ext4Iface{nets: nets}, nil
}

type ext4ErrColl struct{ n atomic.Int64 }

func (c *ext4ErrColl) Collect(_ context.Context, _ error) { c.n.Add(1) }

type ext4Conn struct {
	net.Conn
	item   int
	laddr  net.Addr
	raddr  net.Addr
	closes atomic.Int32
}

func (c *ext4Conn) LocalAddr() net.Addr  { return c.laddr }
func (c *ext4Conn) RemoteAddr() net.Addr { return c.raddr }
func (c *ext4Conn) Close() error         { c.closes.Add(1); return nil }

// ---------------------------------------------------------------- events

type ext4Obs struct {
	ID     string `json:"id"`
	Pfx    []int  `json:"pfx"`
	K      string `json:"k"`
	Qlen   int    `json:"qlen"`
	Closed bool   `json:"closed"`
	Parked bool   `json:"parked"`
	Cpend  bool   `json:"cpend"`
}

type ext4Hold struct {
	ID   string `json:"id"`
	K    string `json:"k"`
	Item int    `json:"item"`
}

type ext4Woke struct {
	ID  string `json:"id"`
	Pfx []int  `json:"pfx"`
	K   string `json:"k"`
	Got int    `json:"got"`
	OK    bool  `json:"ok"`    // what the woken receiver got is intact
	Laddr []int `json:"laddr"` // abstract LocalAddr of what it got
}

type ext4Done struct {
	ID  string `json:"id"`
	Pfx []int  `json:"pfx"`
	K   string `json:"k"`
	Res string `json:"res"`
}

type ext4Ev struct {
	Ev     string     `json:"ev"`
	World  int        `json:"world"`
	Src    string     `json:"src"`
	Buf    int        `json:"buf"`
	ID     string     `json:"id"`
	Ifn    string     `json:"ifn"`
	Port   int        `json:"port"`
	Pfx    []int      `json:"pfx"`
	Masked bool       `json:"masked"`
	K      string     `json:"k"`
	Dst    []int      `json:"dst"`
	Item   int        `json:"item"`
	Res    string     `json:"res"`
	Got    int        `json:"got"`
	Cl     bool       `json:"cl"`
	Laddr  []int      `json:"laddr"`
	BodyOK bool       `json:"bodyok"`
	Wsrc   []int      `json:"wsrc"`
	Woke   []ext4Woke `json:"woke"`
	Cdone  []ext4Done `json:"cdone"`
	Obs    []ext4Obs  `json:"obs"`
	Hold   []ext4Hold `json:"hold"`
	Conc   string     `json:"conc"`
	Err    string     `json:"err"`
}

func ext4NewEv(ev string, w *ext4World) *ext4Ev {
	return &ext4Ev{Ev: ev, World: w.n, Src: w.src, Buf: w.buf, Pfx: []int{}, Dst: []int{}, Laddr: []int{}, Wsrc: []int{},
		Woke: []ext4Woke{}, Cdone: []ext4Done{}, Obs: []ext4Obs{}, Hold: []ext4Hold{}, Masked: true}
}

// ext4Step is one action of a behaviour (field names of BindToDevice!H).
type ext4Step struct {
	A      string `json:"a"`
	ID     string `json:"id"`
	Ifn    string `json:"ifn"`
	Port   int    `json:"port"`
	Pfx    []int  `json:"pfx"`
	Masked bool   `json:"masked"`
	K      string `json:"k"`
	Dst    []int  `json:"dst"`
	I      int    `json:"i"`
	Buf    int    `json:"buf"`
}

// ---------------------------------------------------------------- world

type ext4LC struct {
	id  string
	pfx []int
	lc  *ListenConfig
}

type ext4Item struct {
	n       int
	k       string
	id      string
	dst     []int
	conc    netip.Addr
	conn    *ext4Conn
	payload []byte
	sess    netext.PacketSession
	via     *chanPacketConn
	recvd   bool
	ans     bool
}

type ext4Op struct {
	what string // dispatch | recv | close
	id   string
	pfx  []int
	k    string
	item int
	gid  string
	done chan struct{}
	// results
	conn net.Conn
	sess netext.PacketSession
	body []byte
	err  error
}

type ext4World struct {
	t       *testing.T
	out     *vhOut
	r       *rand.Rand
	n       int
	src     string
	buf     int
	mp      *ext4Map
	m       *Manager
	ifnames map[string]string // abstract -> concrete
	ports   map[int]uint16
	lcs     []*ext4LC
	items   []*ext4Item
	srv     map[string]*net.UDPConn
	cli     *net.UDPConn
	ops     []*ext4Op
	started bool
	shut    bool
	nshut   int
	ctx     context.Context
	logger  *slog.Logger
	dead    bool
}

var ext4Logger = slog.New(slog.NewTextHandler(io.Discard, nil))

func ext4NewWorld(t *testing.T, out *vhOut, r *rand.Rand, n int, src, fam string, buf int) *ext4World {
	w := &ext4World{t: t, out: out, r: r, n: n, src: src, buf: buf, mp: ext4NewMap(r, fam),
		ifnames: map[string]string{"eth0": "eth0", "eth1": []string{"ens4", "eth1", "wlp3s0", "lo"}[r.Intn(4)], "nx": "nx9"},
		ports:   map[int]uint16{0: 0, 53: uint16(1024 + r.Intn(30000)), 54: uint16(40000 + r.Intn(20000))},
		srv:     map[string]*net.UDPConn{}, ctx: context.Background(), logger: ext4Logger}
	st := &ext4Ifaces{names: map[string]string{w.ifnames["eth0"]: "eth0", w.ifnames["eth1"]: "eth1"}, mp: w.mp,
		r: rand.New(rand.NewSource(r.Int63()))}
	w.m = NewManager(&ManagerConfig{Logger: ext4Logger, InterfaceStorage: st, ErrColl: &ext4ErrColl{}, ChannelBufferSize: buf})
	e := ext4NewEv("Reset", w)
	e.Conc = fmt.Sprintf("family %s base %s stride %d chunks %v", fam, w.mp.base, w.mp.stride, w.mp.chunk)
	out.Emit(e)
	return w
}

func (w *ext4World) kinds() []string {
	if w.mp.fam == "lo4" {
		return []string{"tcp", "udp"}
	}
	return []string{"tcp"}
}

func ext4Key(id string, pfx []int) string { return fmt.Sprint(id, pfx) }

func (w *ext4World) find(id string, pfx []int) *ext4LC {
	for _, l := range w.lcs {
		if ext4Key(l.id, l.pfx) == ext4Key(id, pfx) {
			return l
		}
	}
	return nil
}

func (w *ext4World) outstanding(what, id string, pfx []int, k string) *ext4Op {
	for _, o := range w.ops {
		if o.what == what && o.id == id && o.k == k && (what == "dispatch" || ext4Key(id, o.pfx) == ext4Key(id, pfx)) {
			return o
		}
	}
	return nil
}

var ext4GidRe = regexp.MustCompile(`^goroutine (\d+) \[([^\],]*)`)

func ext4Gid() string {
	buf := make([]byte, 64)
	n := runtime.Stack(buf, false)
	m := ext4GidRe.FindSubmatch(buf[:n])
	return string(m[1])
}

// ext4States returns the wait state of every goroutine.
func ext4States() map[string]string {
	buf := make([]byte, 1<<20)
	for {
		n := runtime.Stack(buf, true)
		if n < len(buf) {
			buf = buf[:n]
			break
		}
		buf = make([]byte, 2*len(buf))
	}
	res := map[string]string{}
	for _, g := range strings.Split(string(buf), "\n\n") {
		if m := ext4GidRe.FindStringSubmatch(g); m != nil {
			res[m[1]] = m[2]
		}
	}
	return res
}

func ext4Parked(state string) bool {
	switch state {
	case "chan send", "chan receive", "select", "sync.Mutex.Lock", "semacquire", "chan send (nil chan)", "chan receive (nil chan)":
		return true
	}
	return false
}

func (w *ext4World) run(op *ext4Op, fn func()) {
	op.done = make(chan struct{})
	st := make(chan string, 1)
	go func() {
		st <- ext4Gid()
		fn()
		close(op.done)
	}()
	op.gid = <-st
	w.ops = append(w.ops, op)
}

// settle waits until every outstanding call has returned or is parked, and
// returns the calls that have returned (removed from w.ops).
func (w *ext4World) settle() (finished []*ext4Op) {
	deadline := time.Now().Add(30 * time.Second)
	for spin := 0; ; spin++ {
		quiet := true
		var states map[string]string
		for _, o := range w.ops {
			select {
			case <-o.done:
				continue
			default:
			}
			if states == nil {
				states = ext4States()
			}
			if s, ok := states[o.gid]; !ok || !ext4Parked(s) {
				quiet = false
				break
			}
		}
		if quiet {
			// a call seen as parked may have been released by one that finished meanwhile: look twice
			again := ext4States()
			for _, o := range w.ops {
				select {
				case <-o.done:
				default:
					if s, ok := again[o.gid]; !ok || !ext4Parked(s) {
						quiet = false
					}
				}
			}
		}
		if quiet {
			break
		}
		if time.Now().After(deadline) {
			w.t.Fatalf("EXT4 harness: calls do not settle: %v", ext4States())
		}
		if spin < 50 {
			runtime.Gosched()
		} else {
			time.Sleep(100 * time.Microsecond)
		}
	}
	rest := w.ops[:0]
	for _, o := range w.ops {
		select {
		case <-o.done:
			finished = append(finished, o)
		default:
			rest = append(rest, o)
		}
	}
	w.ops = rest
	return finished
}

func (w *ext4World) observe(e *ext4Ev) {
	for _, l := range w.lcs {
		for _, k := range w.kinds() {
			o := ext4Obs{ID: l.id, Pfx: l.pfx, K: k}
			if k == "tcp" {
				o.Qlen, o.Closed = len(l.lc.listener.conns), l.lc.listener.isClosed
			} else {
				o.Qlen, o.Closed = len(l.lc.packetConn.sessions), l.lc.packetConn.isClosed
			}
			o.Parked = w.outstanding("recv", l.id, l.pfx, k) != nil
			o.Cpend = w.outstanding("close", l.id, l.pfx, k) != nil
			e.Obs = append(e.Obs, o)
		}
	}
	for _, o := range w.ops {
		if o.what == "dispatch" {
			e.Hold = append(e.Hold, ext4Hold{ID: o.id, K: o.k, Item: o.item})
		}
	}
}

// recvResult turns a finished Accept / ReadFromSession into an item number (-1: error).
func (w *ext4World) recvResult(o *ext4Op, e *ext4Ev, primary bool) (int, bool, []int) {
	got := -1
	var laddr []int
	bodyok := false
	if o.err == nil {
		if o.k == "tcp" {
			if c, ok := o.conn.(*ext4Conn); ok {
				got = c.item
				laddr = w.mp.abs(ext4AddrOf(c.LocalAddr()))
				bodyok = true
			}
		} else if len(o.body) >= 8 && o.sess != nil {
			if int(binary.BigEndian.Uint32(o.body[0:4])) == w.n {
				got = int(binary.BigEndian.Uint32(o.body[4:8]))
			}
			if got >= 1 && got <= len(w.items) {
				it := w.items[got-1]
				bodyok = bytes.Equal(it.payload, o.body) && ext4AddrOf(o.sess.RemoteAddr()) == ext4AddrOf(w.cli.LocalAddr())
				it.sess = o.sess
				it.via = w.find(o.id, o.pfx).lc.packetConn
			}
			laddr = w.mp.abs(ext4AddrOf(o.sess.LocalAddr()))
		}
		if got >= 1 && got <= len(w.items) {
			w.items[got-1].recvd = true
		}
	} else if !errors.Is(o.err, net.ErrClosed) {
		e.Err += "recv: " + o.err.Error() + "; "
		got = -2
	}
	if primary {
		e.Got = got
		if laddr != nil {
			e.Laddr = laddr
		}
		e.BodyOK = bodyok
	}
	if laddr == nil {
		laddr = []int{}
	}
	return got, bodyok, laddr
}

func ext4Class(err error, table [][2]string) string {
	if err == nil {
		return "ok"
	}
	for _, p := range table {
		if strings.Contains(err.Error(), p[0]) {
			return p[1]
		}
	}
	return "other"
}

var ext4AddErrs = [][2]string{{"looking up interface", "iface"}, {"listener for interface with id", "dup_id"},
	{"already exists with id", "dup_addr"}}
var ext4LCErrs = [][2]string{{"no interface listener found", "no_listener"}, {"subnet not masked", "unmasked"},
	{"does not contain subnet", "not_in_iface"}, {"already registered", "dup"}}

// exec performs one step; false: the step cannot be performed in the harness' state (behaviour truncated).
func (w *ext4World) exec(s ext4Step) bool {
	e := ext4NewEv(s.A, w)
	switch s.A {
	case "Add":
		if w.started {
			return false
		}
		e.ID, e.Ifn, e.Port = s.ID, s.Ifn, s.Port
		cn, ok := w.ifnames[s.Ifn]
		if !ok {
			cn = w.ifnames["nx"]
		}
		var cc *ControlConfig
		if w.r.Intn(2) == 0 {
			cc = &ControlConfig{RcvBufSize: w.r.Intn(2) * 65536}
		}
		err := w.m.Add(ID(s.ID), cn, w.ports[s.Port], cc)
		e.Res = ext4Class(err, ext4AddErrs)
		e.Conc = fmt.Sprintf("Add(%q, %q, %d)", s.ID, cn, w.ports[s.Port])
		if err != nil {
			e.Err = err.Error()
		}
	case "ListenConfig":
		if w.started {
			return false
		}
		e.ID, e.Pfx, e.Masked = s.ID, s.Pfx, s.Masked
		p := w.mp.prefix(s.Pfx)
		if !s.Masked {
			p = w.mp.unmasked(w.r, s.Pfx)
		}
		lc, err := w.m.ListenConfig(ID(s.ID), p)
		e.Res = ext4Class(err, ext4LCErrs)
		e.Conc = fmt.Sprintf("ListenConfig(%q, %s)", s.ID, p)
		if err != nil {
			e.Err = err.Error()
		} else {
			w.lcs = append(w.lcs, &ext4LC{id: s.ID, pfx: s.Pfx, lc: lc})
			// the listen config hands out its two endpoints
			l, _ := lc.Listen(w.ctx, "tcp", "")
			pc, _ := lc.ListenPacket(w.ctx, "udp", "")
			if l != net.Listener(lc.listener) || pc != net.PacketConn(lc.packetConn) || lc.Addr().Prefix != p {
				e.Res = "other"
				e.Err = "ListenConfig does not hand out its own endpoints"
			}
		}
	case "Start":
		if w.started {
			return false
		}
		w.started = true
		e.Res = "ok"
		if w.mp.fam == "lo4" {
			if err := w.startUDP(); err != nil {
				w.t.Fatalf("EXT4 harness: %v", err)
			}
		}
	case "Shutdown":
		if !w.started || w.nshut >= 2 {
			return false
		}
		w.nshut++
		err := w.m.Shutdown(w.ctx)
		e.Res = "ok"
		if err != nil {
			e.Res = "err"
			e.Err = err.Error()
		}
		w.shut = true
	case "Dispatch":
		il := w.m.ifaceListeners[ID(s.ID)]
		if !w.started || w.shut || il == nil || w.outstanding("dispatch", s.ID, nil, s.K) != nil || !w.hasKind(s.K) {
			return false
		}
		it := &ext4Item{n: len(w.items) + 1, k: s.K, id: s.ID, dst: s.Dst, conc: w.mp.addr(w.r, s.Dst)}
		w.items = append(w.items, it)
		e.ID, e.K, e.Dst, e.Item = s.ID, s.K, s.Dst, it.n
		e.Conc = fmt.Sprintf("%s to %s", s.K, it.conc)
		op := &ext4Op{what: "dispatch", id: s.ID, k: s.K, item: it.n}
		if s.K == "tcp" {
			ip := net.IP(it.conc.AsSlice())
			if it.conc.Is4() && w.r.Intn(2) == 0 {
				ip = ip.To16() // v4-mapped form, as a dual-stack socket reports it
			}
			it.conn = &ext4Conn{item: it.n, laddr: &net.TCPAddr{IP: ip, Port: int(il.port)},
				raddr: &net.TCPAddr{IP: net.IPv4(192, 0, 2, byte(1+w.r.Intn(250))), Port: 1024 + w.r.Intn(60000)}}
			w.run(op, func() { il.processConn(w.ctx, w.logger, it.conn) })
		} else {
			it.payload = make([]byte, 8+w.r.Intn(500))
			w.r.Read(it.payload)
			binary.BigEndian.PutUint32(it.payload[0:4], uint32(w.n))
			binary.BigEndian.PutUint32(it.payload[4:8], uint32(it.n))
			srv := w.srv[s.ID]
			to := &net.UDPAddr{IP: it.conc.AsSlice(), Port: srv.LocalAddr().(*net.UDPAddr).Port}
			if _, err := w.cli.WriteToUDP(it.payload, to); err != nil {
				w.t.Fatalf("EXT4 harness: sending to %s: %v", to, err)
			}
			w.run(op, func() { op.err = il.readUDP(w.ctx, w.logger, srv) })
		}
		fin := w.settle()
		e.Res = "blocked"
		for _, o := range fin {
			switch {
			case o == op:
				e.Res = "returned"
				if o.err != nil {
					e.Res = "error"
					e.Err += o.err.Error()
				}
			case o.what == "recv":
				g, ok, la := w.recvResult(o, e, false)
				e.Woke = append(e.Woke, ext4Woke{ID: o.id, Pfx: o.pfx, K: o.k, Got: g, OK: ok, Laddr: la})
			default:
				e.Err += "unexpected call finished: " + o.what + "; "
			}
		}
		if it.conn != nil {
			e.Cl = it.conn.closes.Load() > 0
		}
	case "Recv":
		l := w.find(s.ID, s.Pfx)
		if l == nil || !w.started || w.outstanding("recv", s.ID, s.Pfx, s.K) != nil || !w.hasKind(s.K) {
			return false
		}
		e.ID, e.Pfx, e.K = s.ID, s.Pfx, s.K
		op := &ext4Op{what: "recv", id: s.ID, pfx: s.Pfx, k: s.K}
		if s.K == "tcp" {
			w.run(op, func() { op.conn, op.err = l.lc.listener.Accept() })
		} else {
			b := make([]byte, 2048)
			w.run(op, func() {
				var n int
				n, op.sess, op.err = l.lc.packetConn.ReadFromSession(b)
				op.body = b[:n]
			})
		}
		fin := w.settle()
		e.Got = 0
		for _, o := range fin {
			switch {
			case o == op:
				w.recvResult(o, e, true)
			case o.what == "dispatch":
				if o.err != nil {
					e.Err += "released dispatch: " + o.err.Error() + "; "
				}
			case o.what == "close":
				d := ext4Done{ID: o.id, Pfx: o.pfx, K: o.k, Res: "ok"}
				if o.err != nil {
					d.Res = "err"
				}
				e.Cdone = append(e.Cdone, d)
			default:
				e.Err += "unexpected call finished: " + o.what + "; "
			}
		}
	case "Close":
		l := w.find(s.ID, s.Pfx)
		if l == nil || !w.started || w.outstanding("close", s.ID, s.Pfx, s.K) != nil || !w.hasKind(s.K) {
			return false
		}
		e.ID, e.Pfx, e.K = s.ID, s.Pfx, s.K
		op := &ext4Op{what: "close", id: s.ID, pfx: s.Pfx, k: s.K}
		if s.K == "tcp" {
			w.run(op, func() { op.err = l.lc.listener.Close() })
		} else {
			w.run(op, func() { op.err = l.lc.packetConn.Close() })
		}
		fin := w.settle()
		e.Res = "blocked"
		for _, o := range fin {
			switch {
			case o == op:
				e.Res = "ok"
				if o.err != nil {
					e.Res = "err"
					if !errors.Is(o.err, net.ErrClosed) {
						e.Res = "other"
						e.Err += o.err.Error()
					}
				}
			case o.what == "recv":
				g, ok, la := w.recvResult(o, e, false)
				e.Woke = append(e.Woke, ext4Woke{ID: o.id, Pfx: o.pfx, K: o.k, Got: g, OK: ok, Laddr: la})
			default:
				e.Err += "unexpected call finished: " + o.what + "; "
			}
		}
	case "WriteBack":
		if s.I < 1 || s.I > len(w.items) || w.shut {
			return false
		}
		it := w.items[s.I-1]
		if it.k != "udp" || !it.recvd || it.ans || it.sess == nil {
			return false
		}
		it.ans = true
		e.Item, e.K = it.n, "udp"
		resp := make([]byte, 8+w.r.Intn(300))
		w.r.Read(resp)
		copy(resp, it.payload[:8])
		_ = it.via.SetWriteDeadline(time.Now().Add(10 * time.Second))
		n, err := it.via.WriteToSession(resp, it.sess)
		_ = it.via.SetWriteDeadline(time.Time{})
		e.Wsrc = []int{9}
		if err != nil || n != len(resp) {
			e.Err = fmt.Sprintf("WriteToSession: n=%d err=%v", n, err)
		} else {
			_ = w.cli.SetReadDeadline(time.Now().Add(5 * time.Second))
			b := make([]byte, 2048)
			rn, from, rerr := w.cli.ReadFromUDP(b)
			if rerr != nil {
				e.Err = "client: " + rerr.Error()
			} else if !bytes.Equal(b[:rn], resp) {
				e.Err = "client got another datagram"
			} else {
				e.Wsrc = w.mp.abs(ext4AddrOf(from))
				e.Conc = fmt.Sprintf("reply from %s (query went to %s)", from, it.conc)
			}
		}
	default:
		return false
	}
	if s.A != "Add" && s.A != "ListenConfig" && s.A != "WriteBack" {
		w.observe(e)
	}
	if s.A == "Start" || s.A == "Shutdown" {
		e.Obs, e.Hold = []ext4Obs{}, []ext4Hold{}
	}
	w.out.Emit(e)
	return true
}

func (w *ext4World) hasKind(k string) bool {
	for _, x := range w.kinds() {
		if x == k {
			return true
		}
	}
	return false
}

func ext4ListenUDP(ctx context.Context, addr string) (*net.UDPConn, error) {
	lc := &net.ListenConfig{Control: func(_, _ string, c syscall.RawConn) (err error) {
		var opErr error
		err = c.Control(func(fd uintptr) {
			opErr = unix.SetsockoptInt(int(fd), unix.IPPROTO_IP, unix.IP_RECVORIGDSTADDR, 1)
		})
		return errors.Join(err, opErr)
	}}
	pc, err := lc.ListenPacket(ctx, "udp", addr)
	if err != nil {
		return nil, err
	}
	return pc.(*net.UDPConn), nil
}

// startUDP opens the loop-back stand-ins of the device sockets and starts the
// real response writers.
func (w *ext4World) startUDP() (err error) {
	w.cli, err = net.ListenUDP("udp4", &net.UDPAddr{IP: net.IPv4(127, 0, 0, 1)})
	if err != nil {
		return err
	}
	for id, il := range w.m.ifaceListeners {
		var c *net.UDPConn
		c, err = ext4ListenUDP(w.ctx, "0.0.0.0:0")
		if err != nil {
			return err
		}
		w.srv[string(id)] = c
		go il.writeUDPResponses(w.ctx, w.logger, c)
	}
	return nil
}

// finish releases whatever is parked and closes the sockets.
func (w *ext4World) finish() {
	w.out.Emit(ext4NewEv("End", w))
	if w.started && !w.shut {
		_ = w.m.Shutdown(w.ctx)
	}
	deadline := time.Now().Add(10 * time.Second)
	for len(w.ops) > 0 && time.Now().Before(deadline) {
		for _, l := range w.lcs {
			for len(l.lc.listener.conns) > 0 {
				<-l.lc.listener.conns
			}
			for len(l.lc.packetConn.sessions) > 0 {
				<-l.lc.packetConn.sessions
			}
		}
		time.Sleep(time.Millisecond)
		for _, o := range w.ops {
			if o.what == "recv" {
				l := w.find(o.id, o.pfx)
				if o.k == "tcp" && !l.lc.listener.isClosed {
					go l.lc.listener.Close()
				} else if o.k == "udp" && !l.lc.packetConn.isClosed {
					go l.lc.packetConn.Close()
				}
			}
		}
		time.Sleep(time.Millisecond)
		rest := w.ops[:0]
		for _, o := range w.ops {
			select {
			case <-o.done:
			default:
				rest = append(rest, o)
			}
		}
		w.ops = rest
	}
	for _, c := range w.srv {
		c.Close()
	}
	if w.cli != nil {
		w.cli.Close()
	}
}

// ---------------------------------------------------------------- generation

func ext4RandPath(r *rand.Rand, n int) []int {
	p := make([]int, n)
	for i := range p {
		p[i] = r.Intn(2)
	}
	return p
}

// ext4RandomBehaviour draws a biased random action sequence; it only looks at
// the harness' own bookkeeping, never at what the code answered.
func ext4RandomWorld(w *ext4World) {
	r := w.r
	ids := []string{"a", "b", "c"}[:1+r.Intn(3)]
	ifn := []string{"eth0", "eth1"}
	var steps []ext4Step
	for i, id := range ids {
		st := ext4Step{A: "Add", ID: id, Ifn: ifn[r.Intn(2)], Port: []int{53, 54, 0}[r.Intn(3)]}
		if r.Intn(8) == 0 {
			st.Ifn = "nx"
		}
		steps = append(steps, st)
		if r.Intn(4) == 0 { // a second attempt: same id, or same interface and port under another id
			st2 := st
			if r.Intn(2) == 0 && i+1 < len(ids) {
				st2.ID = ids[i+1]
			}
			steps = append(steps, st2)
		}
	}
	var regd [][]int
	for n := 2 + r.Intn(6); n > 0; n-- {
		st := ext4Step{A: "ListenConfig", ID: ids[r.Intn(len(ids))], Masked: r.Intn(8) != 0}
		switch c := r.Intn(10); {
		case c < 3 && len(regd) > 0: // nest below / above / beside something registered
			p := regd[r.Intn(len(regd))]
			switch {
			case len(p) < ext4W && r.Intn(2) == 0:
				st.Pfx = append(append([]int{}, p...), r.Intn(2))
			case len(p) > 0 && r.Intn(2) == 0:
				st.Pfx = append([]int{}, p[:len(p)-1]...)
			case len(p) > 0:
				st.Pfx = append([]int{}, p...)
				st.Pfx[len(p)-1] ^= 1
			default:
				st.Pfx = p
			}
		case c < 4 && len(regd) > 0:
			st.Pfx = regd[r.Intn(len(regd))]
		default:
			st.Pfx = ext4RandPath(r, r.Intn(ext4W+1))
		}
		if r.Intn(12) == 0 {
			st.ID = "c"
		}
		regd = append(regd, st.Pfx)
		steps = append(steps, st)
	}
	steps = append(steps, ext4Step{A: "Start"})
	for _, s := range steps {
		w.exec(s)
	}
	kinds := w.kinds()
	var hot *ext4LC
	if len(w.lcs) > 0 {
		hot = w.lcs[r.Intn(len(w.lcs))]
	}
	for n := 12 + r.Intn(40); n > 0 && !w.shut; n-- {
		var s ext4Step
		c := r.Intn(100)
		if len(w.ops) > 0 && r.Intn(10) < 7 {
			// something is parked: work on a full endpoint of a blocked read loop
			for _, o := range w.ops {
				if o.what != "dispatch" {
					continue
				}
				for _, l := range w.lcs {
					full := (o.k == "tcp" && len(l.lc.listener.conns) == w.buf) || (o.k == "udp" && len(l.lc.packetConn.sessions) == w.buf)
					if l.id == o.id && full && r.Intn(2) == 0 {
						s = ext4Step{A: []string{"Recv", "Recv", "Close"}[r.Intn(3)], ID: l.id, Pfx: l.pfx, K: o.k}
					}
				}
			}
			if s.A != "" {
				w.exec(s)
				continue
			}
		}
		switch {
		case c < 48:
			s = ext4Step{A: "Dispatch", ID: ids[r.Intn(len(ids))], K: kinds[r.Intn(len(kinds))]}
			switch d := r.Intn(20); {
			case d < 15 && len(w.lcs) > 0:
				l := w.lcs[r.Intn(len(w.lcs))]
				if hot != nil && r.Intn(2) == 0 {
					l = hot
				}
				s.ID = l.id
				s.Dst = append([]int{}, l.pfx...)
				for len(s.Dst) < ext4W && r.Intn(3) != 0 {
					s.Dst = append(s.Dst, r.Intn(2))
				}
			case d < 16:
				s.Dst = []int{2}
			default:
				s.Dst = ext4RandPath(r, r.Intn(ext4W+1))
			}
		case c < 78 && len(w.lcs) > 0:
			l := w.lcs[r.Intn(len(w.lcs))]
			s = ext4Step{A: "Recv", ID: l.id, Pfx: l.pfx, K: kinds[r.Intn(len(kinds))]}
			// prefer endpoints that have something, or a blocked loop
			for try := 0; try < 4; try++ {
				l2 := w.lcs[r.Intn(len(w.lcs))]
				k2 := kinds[r.Intn(len(kinds))]
				if (k2 == "tcp" && len(l2.lc.listener.conns) > 0) || (k2 == "udp" && len(l2.lc.packetConn.sessions) > 0) {
					s = ext4Step{A: "Recv", ID: l2.id, Pfx: l2.pfx, K: k2}
					break
				}
			}
		case c < 86 && len(w.lcs) > 0:
			l := w.lcs[r.Intn(len(w.lcs))]
			s = ext4Step{A: "Close", ID: l.id, Pfx: l.pfx, K: kinds[r.Intn(len(kinds))]}
		case c < 98:
			var cand []int
			for _, it := range w.items {
				if it.k == "udp" && it.recvd && !it.ans {
					cand = append(cand, it.n)
				}
			}
			if len(cand) == 0 {
				continue
			}
			s = ext4Step{A: "WriteBack", I: cand[r.Intn(len(cand))]}
		default:
			s = ext4Step{A: "Shutdown"}
		}
		w.exec(s)
	}
	if r.Intn(3) == 0 {
		w.exec(ext4Step{A: "Shutdown"})
		if r.Intn(2) == 0 {
			w.exec(ext4Step{A: "Shutdown"})
		}
	}
}

func TestVerifEXT4Stepper(t *testing.T) {
	out := vhOpen(t)
	r := rand.New(rand.NewSource(vhSeed()*7919 + 4))
	n := 0
	if p := os.Getenv("VERIF_IN"); p != "" {
		var behs [][]ext4Step
		vhReadJSON(t, p, &behs)
		for _, b := range behs {
			if len(b) == 0 {
				continue
			}
			n++
			w := ext4NewWorld(t, out, r, n, "sim", "lo4", b[0].Buf)
			for _, s := range b {
				if !w.exec(s) {
					break
				}
			}
			w.finish()
		}
	}
	fams := []string{"lo4", "lo4", "lo4", "v4", "v6"}
	for i := vhEnvInt("VERIF_NRANDOM", 100); i > 0; i-- {
		n++
		w := ext4NewWorld(t, out, r, n, "rand", fams[r.Intn(len(fams))], []int{1, 1, 1, 2, 2, 3}[r.Intn(6)])
		ext4RandomWorld(w)
		w.finish()
	}
}

// TestVerifEXT4RegTable enumerates registration call sequences completely:
// every sequence of VERIF_DEPTH calls of Manager.Add (2 ids x {eth0, eth1,
// unknown} x ports {0, 53}) and Manager.ListenConfig (2 ids x the 7 prefixes of
// at most two path bits x masked / unmasked); with depth 3 the first call is a
// successful Add.
func TestVerifEXT4RegTable(t *testing.T) {
	out := vhOpen(t)
	r := rand.New(rand.NewSource(vhSeed()*31337 + 9))
	var calls []ext4Step
	for _, id := range []string{"a", "b"} {
		for _, ifn := range []string{"eth0", "eth1", "nx"} {
			for _, port := range []int{0, 53} {
				calls = append(calls, ext4Step{A: "Add", ID: id, Ifn: ifn, Port: port})
			}
		}
		for _, p := range [][]int{{}, {0}, {1}, {0, 0}, {0, 1}, {1, 0}, {1, 1}} {
			for _, m := range []bool{true, false} {
				calls = append(calls, ext4Step{A: "ListenConfig", ID: id, Pfx: p, Masked: m})
			}
		}
	}
	depth := vhEnvInt("VERIF_DEPTH", 2)
	n := 100000
	fams := []string{"lo4", "v4", "v6"}
	var rec func(prefix []ext4Step)
	rec = func(prefix []ext4Step) {
		if len(prefix) == depth {
			n++
			w := ext4NewWorld(t, out, r, n, "table", fams[r.Intn(len(fams))], 1)
			for _, s := range prefix {
				w.exec(s)
			}
			w.finish()
			return
		}
		for _, c := range calls {
			if depth >= 3 && len(prefix) == 0 && (c.A != "Add" || c.Ifn == "nx") {
				continue
			}
			rec(append(append([]ext4Step{}, prefix...), c))
		}
	}
	rec(nil)
}

// ---------------------------------------------------------------- end to end

type ext4Line struct {
	Ev     string  `json:"ev"`
	World  int     `json:"world"`
	ID     string  `json:"id"`
	Lcs    [][]int `json:"lcs"`
	K      string  `json:"k"`
	Dst    []int   `json:"dst"`
	Has    bool    `json:"has"`
	Pfx    []int   `json:"pfx"`
	Laddr  []int   `json:"laddr"`
	Echo   bool    `json:"echo"`
	Closed bool    `json:"closed"`
	Src    []int   `json:"src"`
	Conc   string  `json:"conc"`
}

func ext4FreePort() (uint16, error) {
	for try := 0; try < 50; try++ {
		l, err := net.Listen("tcp4", "0.0.0.0:0")
		if err != nil {
			return 0, err
		}
		port := l.Addr().(*net.TCPAddr).Port
		u, err := net.ListenUDP("udp4", &net.UDPAddr{Port: port})
		l.Close()
		if err == nil {
			u.Close()
			return uint16(port), nil
		}
	}
	return 0, errors.New("no port free for both tcp and udp")
}

func TestVerifEXT4E2E(t *testing.T) {
	out := vhOpen(t)
	r := rand.New(rand.NewSource(vhSeed()*104729 + 44))
	worlds := vhEnvInt("VERIF_NWORLDS", 3)
	per := vhEnvInt("VERIF_PER", 14)
	for n := 1; n <= worlds; n++ {
		ok := false
		for try := 0; try < 4 && !ok; try++ {
			ok = ext4E2EWorld(t, out, r, n, per)
		}
		if !ok {
			t.Fatalf("EXT4 harness: cannot start the manager on loop-back (ports busy)")
		}
	}
}

type ext4Tcp struct {
	c     net.Conn
	local string
}

func ext4E2EWorld(t *testing.T, out *vhOut, r *rand.Rand, n, per int) bool {
	w := &ext4World{t: t, out: out, r: r, n: 1000 + n, src: "e2e", buf: 8, mp: ext4NewMap(r, "lo4"),
		ifnames: map[string]string{"eth0": "eth0", "eth1": "lo"}, ctx: context.Background(), logger: ext4Logger}
	st := &ext4Ifaces{names: map[string]string{"eth0": "eth0", "lo": "eth1"}, mp: w.mp, r: rand.New(rand.NewSource(r.Int63()))}
	w.m = NewManager(&ManagerConfig{Logger: ext4Logger, InterfaceStorage: st, ErrColl: &ext4ErrColl{}, ChannelBufferSize: w.buf})
	ids := []string{"a", "b"}[:1+r.Intn(2)]
	ports := map[string]uint16{}
	for _, id := range ids {
		p, err := ext4FreePort()
		if err != nil {
			t.Fatalf("EXT4 harness: %v", err)
		}
		ports[id] = p
		if err = w.m.Add(ID(id), "lo", p, nil); err != nil {
			t.Fatalf("EXT4 harness: Add: %v", err)
		}
	}
	regs := map[string][][]int{}
	for _, id := range ids {
		top := ext4RandPath(r, r.Intn(2))
		cands := [][]int{top}
		for len(cands) < 2+r.Intn(4) {
			p := cands[r.Intn(len(cands))]
			if len(p) < ext4W {
				cands = append(cands, append(append([]int{}, p...), r.Intn(2)))
			} else {
				cands = append(cands, ext4RandPath(r, 1+r.Intn(ext4W)))
			}
		}
		r.Shuffle(len(cands), func(i, j int) { cands[i], cands[j] = cands[j], cands[i] })
		for _, p := range cands {
			lc, err := w.m.ListenConfig(ID(id), w.mp.prefix(p))
			if err == nil {
				w.lcs = append(w.lcs, &ext4LC{id: id, pfx: p, lc: lc})
				regs[id] = append(regs[id], p)
			}
		}
	}
	// everything of the real interface listener except SO_BINDTODEVICE
	for _, il := range w.m.ifaceListeners {
		il.listenConf = &net.ListenConfig{Control: func(network, _ string, c syscall.RawConn) (err error) {
			var opErr error
			err = c.Control(func(fd uintptr) {
				if strings.HasPrefix(network, "udp") {
					opErr = unix.SetsockoptInt(int(fd), unix.IPPROTO_IP, unix.IP_RECVORIGDSTADDR, 1)
				}
			})
			return errors.Join(err, opErr)
		}}
	}
	if err := w.m.Start(w.ctx); err != nil {
		_ = w.m.Shutdown(w.ctx)
		return false
	}
	cli, err := net.ListenUDP("udp4", &net.UDPAddr{IP: net.IPv4(127, 0, 0, 1)})
	if err != nil {
		t.Fatalf("EXT4 harness: %v", err)
	}
	defer cli.Close()

	// poll drains every endpoint of the id until the item tagged `marker` shows up
	type got struct {
		lc   *ext4LC
		conn net.Conn
		sess netext.PacketSession
		body []byte
	}
	pollTCP := func(id, marker string) (res map[string]got) {
		res = map[string]got{}
		deadline := time.Now().Add(10 * time.Second)
		for time.Now().Before(deadline) {
			for _, l := range w.lcs {
				for l.id == id && len(l.lc.listener.conns) > 0 {
					c, aerr := l.lc.listener.Accept()
					if aerr == nil {
						res[c.RemoteAddr().String()] = got{lc: l, conn: c}
					}
				}
			}
			if _, ok := res[marker]; ok {
				return res
			}
			time.Sleep(200 * time.Microsecond)
		}
		return res
	}
	pollUDP := func(id string, marker uint32) (res map[uint32]got) {
		res = map[uint32]got{}
		deadline := time.Now().Add(10 * time.Second)
		for time.Now().Before(deadline) {
			for _, l := range w.lcs {
				for l.id == id && len(l.lc.packetConn.sessions) > 0 {
					b := make([]byte, 2048)
					var (
						k    int
						s    netext.PacketSession
						rerr error
					)
					if r.Intn(2) == 0 {
						k, s, rerr = l.lc.packetConn.ReadFromSession(b)
					} else {
						var ra net.Addr
						k, ra, rerr = l.lc.packetConn.ReadFrom(b)
						_ = ra
						s = nil
					}
					if rerr == nil && k >= 8 {
						res[binary.BigEndian.Uint32(b[4:8])] = got{lc: l, sess: s, body: b[:k]}
					}
				}
			}
			if _, ok := res[marker]; ok {
				return res
			}
			time.Sleep(200 * time.Microsecond)
		}
		return res
	}

	seq := uint32(0)
	for i := 0; i < per; i++ {
		id := ids[r.Intn(len(ids))]
		if len(regs[id]) == 0 {
			continue
		}
		var dst []int
		switch d := r.Intn(10); {
		case d < 6:
			p := regs[id][r.Intn(len(regs[id]))]
			dst = append([]int{}, p...)
			for len(dst) < ext4W && r.Intn(3) != 0 {
				dst = append(dst, r.Intn(2))
			}
		case d < 7:
			dst = []int{2}
		default:
			dst = ext4RandPath(r, r.Intn(ext4W+1))
		}
		conc := w.mp.addr(r, dst)
		mp := regs[id][r.Intn(len(regs[id]))]
		mconc := w.mp.addr(r, append(append([]int{}, mp...), ext4RandPath(r, ext4W-len(mp))...))
		line := &ext4Line{Ev: "E2E", World: w.n, ID: id, Lcs: regs[id], Dst: dst, Pfx: []int{}, Laddr: []int{9}, Src: []int{9}}
		if r.Intn(2) == 0 {
			line.K = "tcp"
			c1, derr := net.DialTimeout("tcp4", netip.AddrPortFrom(conc, ports[id]).String(), 5*time.Second)
			if derr != nil {
				t.Fatalf("EXT4 harness: dial %s: %v", conc, derr)
			}
			c2, derr := net.DialTimeout("tcp4", netip.AddrPortFrom(mconc, ports[id]).String(), 5*time.Second)
			if derr != nil {
				t.Fatalf("EXT4 harness: dial %s: %v", mconc, derr)
			}
			res := pollTCP(id, c2.LocalAddr().String())
			if _, ok := res[c2.LocalAddr().String()]; !ok {
				line.Conc = "the marker connection never arrived at any listener"
			}
			if g, ok := res[c1.LocalAddr().String()]; ok {
				line.Has, line.Pfx = true, g.lc.pfx
				line.Laddr = w.mp.abs(ext4AddrOf(g.conn.LocalAddr()))
				tag := []byte{byte(i), 0x5a}
				_, _ = g.conn.Write(tag)
				b := make([]byte, 2)
				_ = c1.SetReadDeadline(time.Now().Add(5 * time.Second))
				_, rerr := io.ReadFull(c1, b)
				line.Echo = rerr == nil && bytes.Equal(b, tag)
				line.Closed = rerr != nil && !errors.Is(rerr, os.ErrDeadlineExceeded)
				g.conn.Close()
			} else {
				_ = c1.SetReadDeadline(time.Now().Add(2 * time.Second))
				_, rerr := c1.Read(make([]byte, 1))
				line.Closed = rerr != nil && !errors.Is(rerr, os.ErrDeadlineExceeded)
			}
			for _, g := range res {
				g.conn.Close()
			}
			c1.Close()
			c2.Close()
			line.Conc += fmt.Sprintf("tcp to %s:%d (marker to %s)", conc, ports[id], mconc)
		} else {
			line.K = "udp"
			seq++
			me := seq
			seq++
			marker := seq
			p1 := make([]byte, 8+r.Intn(400))
			r.Read(p1)
			binary.BigEndian.PutUint32(p1[4:8], me)
			p2 := make([]byte, 8)
			binary.BigEndian.PutUint32(p2[4:8], marker)
			if _, werr := cli.WriteToUDP(p1, net.UDPAddrFromAddrPort(netip.AddrPortFrom(conc, ports[id]))); werr != nil {
				t.Fatalf("EXT4 harness: %v", werr)
			}
			if _, werr := cli.WriteToUDP(p2, net.UDPAddrFromAddrPort(netip.AddrPortFrom(mconc, ports[id]))); werr != nil {
				t.Fatalf("EXT4 harness: %v", werr)
			}
			res := pollUDP(id, marker)
			if _, ok := res[marker]; !ok {
				line.Conc = "the marker datagram never arrived at any packet connection"
			}
			if g, ok := res[me]; ok {
				line.Has, line.Pfx = true, g.lc.pfx
				line.Echo = bytes.Equal(g.body, p1)
				if g.sess != nil {
					line.Laddr = w.mp.abs(ext4AddrOf(g.sess.LocalAddr()))
					resp := append([]byte{}, p1[:8]...)
					_ = g.lc.lc.packetConn.SetWriteDeadline(time.Now().Add(5 * time.Second))
					_, werr := g.lc.lc.packetConn.WriteToSession(resp, g.sess)
					if werr == nil {
						_ = cli.SetReadDeadline(time.Now().Add(5 * time.Second))
						b := make([]byte, 64)
						k, from, rerr := cli.ReadFromUDP(b)
						if rerr == nil && bytes.Equal(b[:k], resp) {
							line.Src = w.mp.abs(ext4AddrOf(from))
						}
					}
				} else {
					// read through plain ReadFrom: no session, nothing to answer with
					line.Laddr, line.Src = dst, dst
				}
			}
			line.Conc += fmt.Sprintf("udp to %s:%d (marker to %s)", conc, ports[id], mconc)
		}
		out.Emit(line)
	}
	// Shutdown, then one more item per loop lets it notice
	serr := w.m.Shutdown(w.ctx)
	serr2 := w.m.Shutdown(w.ctx)
	out.Emit(map[string]any{"ev": "E2EEnd", "world": w.n, "first": serr == nil, "second": errors.Is(serr2, net.ErrClosed)})
	for _, id := range ids {
		if c, derr := net.DialTimeout("tcp4", fmt.Sprintf("127.0.0.1:%d", ports[id]), time.Second); derr == nil {
			c.Close()
		}
		_, _ = cli.WriteToUDP([]byte{0}, &net.UDPAddr{IP: net.IPv4(127, 0, 0, 1), Port: int(ports[id])})
	}
	return true
}
