//go:build verif

package dnsdb

// EXT2, part 2.  Stepper, decision-table sweep and stress for the real
// dnsdb.Default (Record, buffer, reset, ServeHTTP).
//
// The stepper executes action sequences (TLC-generated behaviours of DNSDB.tla
// from $VERIF_IN and seeded random ones).  Dumps go through a real httptest
// server in front of the real handler and a real HTTP client (gzip and
// identity).  Two identity hooks inserted by the check's overlay rewrite --
// verifLoaded between db.buffer.Load() and buffer.add, verifSwapped between
// db.buffer.Swap and prevBuf.all() -- are the gates with which the stepper
// forces the interleaving TLC chose (a Record parked after Load while a dump
// runs, a dump parked after Swap while Records run).  After every action the
// entries of the current buffer (read under its lock), the gauge and, for
// dumps, the CSV rows grouped by key are written as one event; the verdict is
// TLC's (TraceDNSDB.tla).

import (
	"compress/gzip"
	"context"
	"encoding/csv"
	"fmt"
	"io"
	"log/slog"
	"math/rand"
	"net"
	"net/http"
	"net/http/httptest"
	"net/netip"
	"os"
	"sort"
	"strconv"
	"strings"
	"sync"
	"sync/atomic"
	"testing"
	"time"

	"github.com/AdguardTeam/AdGuardDNS/internal/agd"
	"github.com/AdguardTeam/AdGuardDNS/internal/metrics"
	"github.com/miekg/dns"
	dto "github.com/prometheus/client_model/go"
)

type ext2Step struct {
	A  string   `json:"a"`
	P  string   `json:"p"`
	K  string   `json:"k"`
	Rs []string `json:"rs"`
	D  string   `json:"d"`
}

// ext2Vec is the abstract vector of PART A of DNSDB.tla.
type ext2Vec struct {
	Nil    bool   `json:"nil"`
	Resp   bool   `json:"resp"`
	NQ     int    `json:"nq"`
	RCode  string `json:"rcode"`
	QType  string `json:"qtype"`
	QClass string `json:"qclass"`
	Name   string `json:"name"`
	Ans    string `json:"ans"`
}

type ext2Answer struct {
	Kind string `json:"kind"`
	Val  string `json:"val"`
}

type ext2Row struct {
	Type   string `json:"type"`
	Answer string `json:"answer"`
}

type ext2Taken struct {
	Hits int       `json:"hits"`
	Rows []ext2Row `json:"rows"`
}

type ext2Event struct {
	Ev        string               `json:"ev"`
	P         string               `json:"p"`
	K         string               `json:"k"`
	D         string               `json:"d"`
	V         ext2Vec              `json:"v"`
	Answers   []ext2Answer         `json:"answers"`
	QName     string               `json:"qname"`
	Host      string               `json:"host"`
	QTypeN    int                  `json:"qtypeN"`
	QClassN   int                  `json:"qclassN"`
	RCodeN    int                  `json:"rcodeN"`
	MaxSize   int                  `json:"maxSize"`
	Buf       map[string]int       `json:"buf"`
	Gauge     int                  `json:"gauge"`
	Taken     map[string]ext2Taken `json:"taken"`
	Into      int                  `json:"into"`
	LoadedCur bool                 `json:"loadedCur"`
	TookCur   bool                 `json:"tookCur"`
	Enc       string               `json:"enc"`
	Foreign   int                  `json:"foreign"`
	Why       string               `json:"why"`
	Beh       int                  `json:"beh"`
}

type ext2ErrColl struct{}

func (ext2ErrColl) Collect(_ context.Context, _ error) {}

var ext2Keys = []string{"k1", "k2", "k3", "k4", "k5", "k6"}

// Target host names as the initial middleware leaves them in RequestInfo.Host
// (lower case, no final dot); some need CSV quoting, one ends in the Android
// metric suffix without being a probe name.
var ext2HostPool = []string{
	"domain.example", "sub.domain.example", "xn--e1afmkfd.xn--p1ai", "a.b.c.d.e.f.example.org",
	"with,comma.example", `with"quote.example`, "with space.example", "foo-ds.metric.gstatic.com",
	"dnsotls-ds.metric.gstatic.com", "1.0.0.127.in-addr.arpa", "x", "_dns.resolver.arpa",
	strings.Repeat("a", 63) + ".example", "trailing-hyphen-.example", "пример.рф",
}

var ext2RCodes = map[string][]int{"NOERROR": {0}, "NXDOMAIN": {3}, "SERVFAIL": {2}, "REFUSED": {5},
	"OTHER": {1, 4, 6, 9, 16, 23, 4095}}
var ext2QTypes = map[string][]uint16{"A": {1}, "AAAA": {28}, "CNAME": {5}, "HTTPS": {65}, "TXT": {16}, "ANY": {255},
	"OTHER": {0, 2, 6, 12, 15, 27, 29, 33, 64, 257, 65535}}
var ext2QClasses = map[string][]uint16{"IN": {1}, "CH": {3}, "ANY": {255}}

var (
	ext2VRCodes   = []string{"NOERROR", "NXDOMAIN", "SERVFAIL", "REFUSED", "OTHER"}
	ext2VQTypes   = []string{"A", "AAAA", "CNAME", "HTTPS", "TXT", "ANY", "OTHER"}
	ext2VQClasses = []string{"IN", "CH", "ANY"}
	ext2VNames    = []string{"normal", "androidDoT", "androidDoH", "androidUpper", "androidSub", "androidOther"}
	ext2VAns      = []string{"none", "A", "AAAA", "CNAME", "other", "A+CNAME", "other+A", "CNAMEroot"}
)

type ext2Key struct {
	target string
	qt     uint16
}

// ext2World is the concretisation of one segment: keys and answer values.
type ext2World struct {
	keys  map[string]ext2Key // abstract key -> (target, question type)
	byKey map[ext2Key]string
	byVal map[string]string // answer value -> abstract key
	nval  int

	noGzip bool // colliding dumps: a gzip writer costs more than the dump itself
}

func ext2NewWorld(rng *rand.Rand) (w *ext2World) {
	w = &ext2World{keys: map[string]ext2Key{}, byKey: map[ext2Key]string{}, byVal: map[string]string{}}
	perm := rng.Perm(len(ext2HostPool))
	for i, k := range ext2Keys {
		key := ext2Key{target: ext2HostPool[perm[i/2]], qt: dns.TypeA}
		if i%2 == 1 {
			key.qt = dns.TypeAAAA
		}
		w.keys[k], w.byKey[key] = key, k
	}
	return w
}

func ext2Pick[T any](rng *rand.Rand, xs []T) T { return xs[rng.Intn(len(xs))] }

// answers builds the answer section of the shape for key k with values that
// are unique in the world, and the abstract list the model gets.
func (w *ext2World) answers(rng *rand.Rand, k, shape, owner string) (rrs []dns.RR, abs []ext2Answer) {
	abs = []ext2Answer{}
	hdr := func(t uint16) dns.RR_Header {
		return dns.RR_Header{Name: owner, Rrtype: t, Class: dns.ClassINET, Ttl: uint32(rng.Intn(1000))}
	}
	add := func(kind string) {
		w.nval++
		n := w.nval
		switch kind {
		case "A":
			a := netip.AddrFrom4([4]byte{10, byte(n >> 16), byte(n >> 8), byte(n)})
			rrs = append(rrs, &dns.A{Hdr: hdr(dns.TypeA), A: net.IP(a.AsSlice())})
			abs = append(abs, ext2Answer{Kind: "A", Val: a.String()})
			w.byVal[a.String()] = k
		case "AAAA":
			b := [16]byte{0x20, 0x01, 0x0d, 0xb8, 12: byte(n >> 24), 13: byte(n >> 16), 14: byte(n >> 8), 15: byte(n)}
			a := netip.AddrFrom16(b)
			rrs = append(rrs, &dns.AAAA{Hdr: hdr(dns.TypeAAAA), AAAA: net.IP(a.AsSlice())})
			abs = append(abs, ext2Answer{Kind: "AAAA", Val: a.String()})
			w.byVal[a.String()] = k
		case "CNAME":
			t := fmt.Sprintf("cname-%d.Target.example", n)
			rrs = append(rrs, &dns.CNAME{Hdr: hdr(dns.TypeCNAME), Target: t + "."})
			abs = append(abs, ext2Answer{Kind: "CNAME", Val: t})
			w.byVal[t] = k
		case "CNAMEROOT":
			rrs = append(rrs, &dns.CNAME{Hdr: hdr(dns.TypeCNAME), Target: "."})
			abs = append(abs, ext2Answer{Kind: "CNAMEROOT", Val: ""})
		case "OTHER":
			switch rng.Intn(3) {
			case 0:
				rrs = append(rrs, &dns.TXT{Hdr: hdr(dns.TypeTXT), Txt: []string{fmt.Sprintf("txt-%d", n)}})
			case 1:
				rrs = append(rrs, &dns.HTTPS{SVCB: dns.SVCB{Hdr: hdr(dns.TypeHTTPS), Priority: 1, Target: "."}})
			default:
				rrs = append(rrs, &dns.NS{Hdr: hdr(dns.TypeNS), Ns: fmt.Sprintf("ns-%d.example.", n)})
			}
			abs = append(abs, ext2Answer{Kind: "OTHER", Val: ""})
		}
	}
	switch shape {
	case "none":
	case "A", "AAAA", "CNAME":
		add(shape)
		if rng.Intn(3) == 0 { // the same record twice, and a second value
			rrs = append(rrs, dns.Copy(rrs[0]))
			abs = append(abs, abs[0])
			if shape != "CNAME" {
				add(shape)
			}
		}
	case "other":
		add("OTHER")
	case "A+CNAME":
		add("CNAME")
		add("A")
	case "other+A":
		add("OTHER")
		add("A")
	case "CNAMEroot":
		add("CNAMEROOT")
	default:
		panic("shape " + shape)
	}
	return rrs, abs
}

func ext2AndroidName(rng *rand.Rand, class string) string {
	id := fmt.Sprintf("%06x", rng.Intn(1<<24))
	switch class {
	case "androidDoT":
		return id + "-dnsotls-ds.metric.gstatic.com."
	case "androidDoH":
		return id + "-dnsohttps-ds.metric.gstatic.com."
	case "androidUpper":
		return ext2Pick(rng, []string{strings.ToUpper(id) + "-DNSOTLS-DS.METRIC.GSTATIC.COM.", id + "-dnsohttps-ds.Metric.GStatic.Com.",
			id + "-DnsOtls-ds.metric.gstatic.com."})
	case "androidSub":
		return ext2Pick(rng, []string{"x." + id + "-dnsotls-ds.metric.gstatic.com.", "a.b." + id + "-dnsohttps-ds.metric.gstatic.com.",
			"-dnsotls-ds.metric.gstatic.com."})
	case "androidOther":
		return ext2Pick(rng, []string{id + "-dnsoquic-ds.metric.gstatic.com.", "dnsotls-ds.metric.gstatic.com.",
			id + "-ds.metric.gstatic.com.", id + "-dnsotls-ds.metric.gstatic.com.example.", id + "-dnsotls.ds.metric.gstatic.com.",
			id + "-dnsotls-ds.metric.gstatic.co."})
	}
	panic(class)
}

// concretise builds the message for vector v recorded under key k.
func (w *ext2World) concretise(rng *rand.Rand, v ext2Vec, k string, ev *ext2Event) (m *dns.Msg, ri *agd.RequestInfo) {
	key := w.keys[k]
	ri = &agd.RequestInfo{Host: key.target}
	ev.Host, ev.V, ev.K, ev.Answers = key.target, v, k, []ext2Answer{}
	if v.Nil {
		return nil, ri
	}
	qname := dns.Fqdn(key.target)
	if v.Name != "normal" {
		qname = ext2AndroidName(rng, v.Name)
	}
	qt := key.qt
	if !(v.QType == "A" && qt == dns.TypeA) && !(v.QType == "AAAA" && qt == dns.TypeAAAA) {
		qt = ext2Pick(rng, ext2QTypes[v.QType])
	}
	qc := ext2Pick(rng, ext2QClasses[v.QClass])
	m = &dns.Msg{}
	m.Id = uint16(rng.Intn(1 << 16))
	m.Response = v.Resp
	m.Rcode = ext2Pick(rng, ext2RCodes[v.RCode])
	m.RecursionAvailable = rng.Intn(2) == 0
	for i := 0; i < v.NQ; i++ {
		m.Question = append(m.Question, dns.Question{Name: qname, Qtype: qt, Qclass: qc})
	}
	m.Answer, ev.Answers = w.answers(rng, k, v.Ans, qname)
	ev.QName, ev.QTypeN, ev.QClassN, ev.RCodeN = qname, int(qt), int(qc), m.Rcode
	return m, ri
}

// accepted base vector for key k with answer shape.
func (w *ext2World) baseVec(k, shape string) ext2Vec {
	qt := "A"
	if w.keys[k].qt == dns.TypeAAAA {
		qt = "AAAA"
	}
	return ext2Vec{Resp: true, NQ: 1, RCode: "NOERROR", QType: qt, QClass: "IN", Name: "normal", Ans: shape}
}

func ext2Accept(v ext2Vec) bool { // only used to steer generation, never to judge
	return !v.Nil && v.Resp && v.NQ == 1 && v.RCode == "NOERROR" && (v.QType == "A" || v.QType == "AAAA") &&
		(v.Name == "normal" || v.Name == "androidOther")
}

// ext2Distance is the number of fields that keep v from being accepted.
func ext2Distance(v ext2Vec) (n int) {
	for _, bad := range []bool{v.Nil, !v.Resp, v.NQ != 1, v.RCode != "NOERROR", v.QType != "A" && v.QType != "AAAA",
		v.Name != "normal" && v.Name != "androidOther"} {
		if bad {
			n++
		}
	}
	return n
}

// a vector the table rejects, one or two fields away from an accepted one
func (w *ext2World) ignoredVec(rng *rand.Rand, k string) (v ext2Vec) {
	for {
		v = w.baseVec(k, ext2Pick(rng, ext2VAns))
		for i := 0; i <= rng.Intn(2); i++ {
			switch rng.Intn(6) {
			case 0:
				v.Resp = false
			case 1:
				v.NQ = 2 * rng.Intn(2)
			case 2:
				v.RCode = ext2Pick(rng, ext2VRCodes)
			case 3:
				v.QType = ext2Pick(rng, ext2VQTypes)
			case 4:
				v.Name = ext2Pick(rng, ext2VNames)
			case 5:
				v.Nil = true
			}
		}
		if !ext2Accept(v) {
			return v
		}
	}
}

var ext2Shapes = map[string]string{"ra": "A", "rb": "A+CNAME", "rc": "none"}

func ext2Gauge() int {
	m := &dto.Metric{}
	if err := metrics.DNSDBBufferSize.Write(m); err != nil {
		panic(err)
	}
	return int(m.GetGauge().GetValue())
}

// project reads a buffer under its lock.
func (w *ext2World) project(b *buffer) (m map[string]int, foreign int) {
	m = map[string]int{}
	for _, k := range ext2Keys {
		m[k] = 0
	}
	b.mu.Lock()
	defer b.mu.Unlock()
	for key, val := range b.entries {
		k, ok := w.byKey[ext2Key{target: key.target, qt: key.qt}]
		if !ok {
			foreign++
			continue
		}
		m[k] += int(val.hits)
	}
	return m, foreign
}

// ext2Dump performs one request against the real handler and groups the CSV
// rows by key.
func (w *ext2World) dump(cl *http.Client, url string, rng *rand.Rand) (taken map[string]ext2Taken, enc string, foreign int, why string) {
	return w.dumpVia(func(req *http.Request) (*http.Response, error) { return cl.Do(req) }, url, rng)
}

// dumpDirect calls the handler without a socket (used where many dumps must collide).
func (w *ext2World) dumpDirect(db *Default, rng *rand.Rand) (taken map[string]ext2Taken, enc string, foreign int, why string) {
	return w.dumpVia(func(req *http.Request) (*http.Response, error) {
		rec := httptest.NewRecorder()
		db.ServeHTTP(rec, req)
		return rec.Result(), nil
	}, "http://dnsdb.example/dnsdb/csv", rng)
}

func (w *ext2World) dumpVia(do func(*http.Request) (*http.Response, error), url string, rng *rand.Rand) (taken map[string]ext2Taken, enc string, foreign int, why string) {
	taken = map[string]ext2Taken{}
	for _, k := range ext2Keys {
		taken[k] = ext2Taken{Rows: []ext2Row{}}
	}
	method := ext2Pick(rng, []string{http.MethodPost, http.MethodGet})
	req, err := http.NewRequest(method, url, nil)
	if err != nil {
		panic(err)
	}
	enc = "identity"
	if rng.Intn(2) == 0 && !w.noGzip {
		enc = "gzip"
		req.Header.Set("Accept-Encoding", "gzip")
	}
	resp, err := do(req)
	if err != nil {
		return taken, enc, 1, "request: " + err.Error()
	}
	defer resp.Body.Close()
	var body io.Reader = resp.Body
	bad := func(format string, a ...any) {
		foreign++
		if why == "" {
			why = fmt.Sprintf(format, a...)
		}
	}
	if resp.StatusCode != http.StatusOK {
		bad("status %d", resp.StatusCode)
	}
	if ct := resp.Header.Get("Content-Type"); ct != "text/csv" {
		bad("content type %q", ct)
	}
	if got := resp.Header.Get("Content-Encoding"); (got == "gzip") != (enc == "gzip") {
		bad("content encoding %q for Accept-Encoding %s", got, enc)
	} else if got == "gzip" {
		zr, zerr := gzip.NewReader(resp.Body)
		if zerr != nil {
			// an empty dump still must be a valid gzip stream
			bad("gzip: %v", zerr)
			return taken, enc, foreign, why
		}
		body = zr
	}
	cr := csv.NewReader(body)
	cr.FieldsPerRecord = -1
	recs, err := cr.ReadAll()
	if err != nil {
		bad("csv: %v", err)
	}
	_, _ = io.Copy(io.Discard, resp.Body) // trailers arrive after the body
	if xe := resp.Trailer.Get("X-Error"); xe != "" {
		bad("X-Error trailer %q", xe)
	}
	hitsOf := map[string]map[int]bool{}
	for _, r := range recs {
		if len(r) != 5 {
			bad("row with %d fields: %q", len(r), r)
			continue
		}
		target, typ, rcode, answer := r[0], r[1], r[2], r[3]
		hits, perr := strconv.Atoi(r[4])
		if perr != nil || hits <= 0 {
			bad("hits %q in row %q", r[4], r)
			continue
		}
		if rcode != "NOERROR" {
			bad("rcode %q in row %q", rcode, r)
		}
		var k string
		ok := false
		if answer == "" {
			k, ok = w.byKey[ext2Key{target: target, qt: dns.StringToType[typ]}]
		} else if k, ok = w.byVal[answer]; ok && w.keys[k].target != target {
			ok = false
		}
		if !ok {
			bad("row %q belongs to no key", r)
			continue
		}
		tk := taken[k]
		tk.Rows = append(tk.Rows, ext2Row{Type: typ, Answer: answer})
		tk.Hits = hits
		taken[k] = tk
		if hitsOf[k] == nil {
			hitsOf[k] = map[int]bool{}
		}
		hitsOf[k][hits] = true
	}
	for k, hs := range hitsOf {
		if len(hs) > 1 {
			bad("rows of key %s carry different hit counts %v", k, hs)
		}
		tk := taken[k]
		sort.Slice(tk.Rows, func(i, j int) bool { return tk.Rows[i].Type+tk.Rows[i].Answer < tk.Rows[j].Type+tk.Rows[j].Answer })
		for i := 1; i < len(tk.Rows); i++ {
			if tk.Rows[i] == tk.Rows[i-1] {
				bad("key %s: row %v written twice", k, tk.Rows[i])
			}
		}
	}
	return taken, enc, foreign, why
}

// ext2Tok is one call parked at a gate.
type ext2Tok struct {
	b       *buffer
	release chan struct{}
}

type ext2Gate struct {
	on      atomic.Bool
	entered chan *ext2Tok
}

func (g *ext2Gate) hook(b *buffer) *buffer {
	if g.on.Load() {
		tok := &ext2Tok{b: b, release: make(chan struct{})}
		g.entered <- tok
		<-tok.release
	}
	return b
}

var (
	ext2LoadGate = &ext2Gate{entered: make(chan *ext2Tok)}
	ext2SwapGate = &ext2Gate{entered: make(chan *ext2Tok)}
)

func ext2InstallHooks() {
	verifLoaded = ext2LoadGate.hook
	verifSwapped = ext2SwapGate.hook
}

// ext2SafeRecord calls Record; a panic is recorded, not propagated.
func ext2SafeRecord(db *Default, m *dns.Msg, ri *agd.RequestInfo, ev *ext2Event) {
	defer func() {
		if r := recover(); r != nil {
			ev.Foreign++
			ev.Why = fmt.Sprintf("Record panicked: %v", r)
		}
	}()
	db.Record(context.Background(), m, ri)
}

func ext2NewDB(maxSize int) *Default {
	return New(&DefaultConfig{Logger: slog.New(slog.NewTextHandler(io.Discard, nil)), ErrColl: ext2ErrColl{}, MaxSize: maxSize})
}

type ext2Rec struct {
	tok  *ext2Tok
	done chan struct{}
	k    string
}

type ext2Dmp struct {
	tok  *ext2Tok
	done chan struct{}
	ev   *ext2Event
}

// ext2Run executes one behaviour.
func ext2Run(t *testing.T, out *vhOut, rng *rand.Rand, cl *http.Client, beh, maxSize int, steps []ext2Step) {
	w := ext2NewWorld(rng)
	db := ext2NewDB(maxSize)
	srv := httptest.NewServer(db)
	defer srv.Close()
	ctx := context.Background()
	metrics.DNSDBBufferSize.Set(0) // the gauge is process-global; every segment starts from a clean one
	recs := map[string]*ext2Rec{}
	dmps := map[string]*ext2Dmp{}
	emit := func(ev *ext2Event) {
		var f int
		ev.Buf, f = w.project(db.buffer.Load())
		ev.Foreign += f
		ev.Gauge = ext2Gauge()
		if ev.Taken == nil {
			ev.Taken = map[string]ext2Taken{}
			for _, k := range ext2Keys {
				ev.Taken[k] = ext2Taken{Rows: []ext2Row{}}
			}
		}
		if ev.Answers == nil {
			ev.Answers = []ext2Answer{}
		}
		ev.Beh, ev.MaxSize = beh, maxSize
		out.Emit(ev)
	}
	emit(&ext2Event{Ev: "Reset"})
	shapeOf := func(st ext2Step) string {
		if len(st.Rs) == 1 {
			if s, ok := ext2Shapes[st.Rs[0]]; ok {
				if s == "A" && w.keys[st.K].qt == dns.TypeAAAA {
					return "AAAA"
				}
				return s
			}
			return st.Rs[0]
		}
		return "none"
	}
	acceptedVec := func(st ext2Step) ext2Vec {
		v := w.baseVec(st.K, shapeOf(st))
		// the fields the decision does not depend on, and the accepted name classes, vary
		v.QClass = ext2Pick(rng, ext2VQClasses)
		if rng.Intn(6) == 0 {
			v.Name = "androidOther"
		}
		return v
	}
	for _, st := range steps {
		ev := &ext2Event{Ev: st.A, P: st.P, K: st.K, D: st.D}
		switch st.A {
		case "Record":
			m, ri := w.concretise(rng, acceptedVec(st), st.K, ev)
			ext2SafeRecord(db, m, ri, ev)
		case "RecordIgnored":
			ev.Ev, ev.P = "Record", "p1"
			k := ext2Pick(rng, ext2Keys)
			m, ri := w.concretise(rng, w.ignoredVec(rng, k), k, ev)
			ext2SafeRecord(db, m, ri, ev)
		case "RecLoad":
			m, ri := w.concretise(rng, acceptedVec(st), st.K, ev)
			r := &ext2Rec{done: make(chan struct{}), k: st.K}
			cur := db.buffer.Load()
			ext2LoadGate.on.Store(true)
			go func() { defer close(r.done); db.Record(ctx, m, ri) }()
			select {
			case r.tok = <-ext2LoadGate.entered:
				ev.LoadedCur = r.tok.b == cur
				recs[st.P] = r
			case <-r.done:
				ev.Ev = "RecNoLoad"
			case <-time.After(20 * time.Second):
				t.Fatalf("behaviour %d: Record neither loaded the buffer nor returned", beh)
			}
			ext2LoadGate.on.Store(false)
		case "RecAdd":
			r := recs[st.P]
			if r == nil {
				continue // its RecLoad has already been rejected
			}
			close(r.tok.release)
			<-r.done
			m, _ := w.project(r.tok.b)
			ev.K, ev.Into = r.k, m[r.k]
			delete(recs, st.P)
		case "Swap":
			d := &ext2Dmp{done: make(chan struct{}), ev: &ext2Event{}}
			cur := db.buffer.Load()
			ext2SwapGate.on.Store(true)
			go func() {
				defer close(d.done)
				d.ev.Taken, d.ev.Enc, d.ev.Foreign, d.ev.Why = w.dump(cl, srv.URL, rand.New(rand.NewSource(int64(beh))))
			}()
			select {
			case d.tok = <-ext2SwapGate.entered:
				ev.TookCur = d.tok.b == cur
				dmps[st.D] = d
			case <-d.done:
				ev.Why = "the handler answered without taking a buffer out: " + d.ev.Why
			case <-time.After(20 * time.Second):
				t.Fatalf("behaviour %d: dump neither swapped nor returned", beh)
			}
			ext2SwapGate.on.Store(false)
		case "All":
			d := dmps[st.D]
			if d == nil {
				continue
			}
			close(d.tok.release)
			<-d.done
			ev.Taken, ev.Enc, ev.Foreign, ev.Why = d.ev.Taken, d.ev.Enc, d.ev.Foreign, d.ev.Why
			delete(dmps, st.D)
		case "Dump":
			ev.Taken, ev.Enc, ev.Foreign, ev.Why = w.dump(cl, srv.URL, rng)
		default:
			t.Fatalf("unknown action %q", st.A)
		}
		emit(ev)
	}
	for _, r := range recs {
		close(r.tok.release)
		<-r.done
	}
	for _, d := range dmps {
		close(d.tok.release)
		<-d.done
	}
}

func ext2Random(rng *rand.Rand, n int, splitRec, splitDump bool) (steps []ext2Step) {
	recs := []string{"p1", "p2", "p3"}
	dmps := []string{"d1", "d2"}
	loaded, swapped := map[string]bool{}, map[string]bool{}
	shapes := ext2VAns
	nkeys := 2 + rng.Intn(len(ext2Keys)-1)
	for len(steps) < n {
		k := ext2Keys[rng.Intn(nkeys)]
		rs := []string{ext2Pick(rng, shapes)}
		x := rng.Intn(20)
		switch {
		case x < 9 || (!splitRec && x < 13):
			p := ext2Pick(rng, recs)
			if !loaded[p] {
				steps = append(steps, ext2Step{A: "Record", P: p, K: k, Rs: rs})
			}
		case x < 13:
			p := ext2Pick(rng, recs)
			if loaded[p] {
				steps = append(steps, ext2Step{A: "RecAdd", P: p})
			} else {
				steps = append(steps, ext2Step{A: "RecLoad", P: p, K: k, Rs: rs})
			}
			loaded[p] = !loaded[p]
		case x < 15:
			steps = append(steps, ext2Step{A: "RecordIgnored"})
		case x < 18 || !splitDump:
			d := ext2Pick(rng, dmps)
			if !swapped[d] {
				steps = append(steps, ext2Step{A: "Dump", D: d})
			}
		default:
			d := ext2Pick(rng, dmps)
			if swapped[d] {
				steps = append(steps, ext2Step{A: "All", D: d})
			} else {
				steps = append(steps, ext2Step{A: "Swap", D: d})
			}
			swapped[d] = !swapped[d]
		}
	}
	return steps
}

func ext2Client() *http.Client {
	return &http.Client{Transport: &http.Transport{DisableCompression: true}, Timeout: 60 * time.Second}
}

func TestVerifEXT2Stepper(t *testing.T) {
	out := vhOpen(t)
	ext2InstallHooks()
	splitRec, splitDump := vhEnvInt("VERIF_HOOK_LOAD", 0) == 1, vhEnvInt("VERIF_HOOK_SWAP", 0) == 1
	var behs [][]ext2Step
	if p := os.Getenv("VERIF_IN"); p != "" && splitRec && splitDump {
		vhReadJSON(t, p, &behs)
	}
	nsim := len(behs)
	rng := rand.New(rand.NewSource(vhSeed()))
	for i := 0; i < vhEnvInt("VERIF_NRANDOM", 100); i++ {
		behs = append(behs, ext2Random(rng, 8+rng.Intn(30), splitRec, splitDump))
	}
	cl := ext2Client()
	for i, b := range behs {
		maxSize := vhEnvInt("VERIF_SIMMAX", 3)
		if i >= nsim {
			maxSize = []int{0, 1, 2, 2, 3, 3, 4, 6, 100}[rng.Intn(9)]
		}
		ext2Run(t, out, rng, cl, i, maxSize, b)
	}
}

// TestVerifEXT2Table: the decision table.  Every abstract vector (or a seeded
// sample of VERIF_NTABLE of them) is concretised, recorded in a database and
// dumped; segments of 40 vectors.
func TestVerifEXT2Table(t *testing.T) {
	out := vhOpen(t)
	ext2InstallHooks()
	rng := rand.New(rand.NewSource(vhSeed() + 77))
	var vecs []ext2Vec
	for _, nilv := range []bool{false, true} {
		for _, resp := range []bool{true, false} {
			for nq := 0; nq <= 2; nq++ {
				for _, rc := range ext2VRCodes {
					for _, qt := range ext2VQTypes {
						for _, qc := range ext2VQClasses {
							for _, nm := range ext2VNames {
								for _, an := range ext2VAns {
									vecs = append(vecs, ext2Vec{Nil: nilv, Resp: resp, NQ: nq, RCode: rc, QType: qt, QClass: qc, Name: nm, Ans: an})
								}
							}
						}
					}
				}
			}
		}
	}
	var chosen []ext2Vec
	if n := vhEnvInt("VERIF_NTABLE", 0); n > 0 && n < len(vecs) {
		// every accepted vector, every vector one field away from an accepted one, and a
		// seeded sample of the rest
		for _, v := range vecs {
			if ext2Distance(v) <= 1 || rng.Intn(len(vecs)) < n {
				chosen = append(chosen, v)
			}
		}
	} else {
		chosen = vecs
	}
	cl := ext2Client()
	const segLen = 40
	for i := 0; i < len(chosen); i += segLen {
		seg := chosen[i:min(i+segLen, len(chosen))]
		w := ext2NewWorld(rng)
		db := ext2NewDB(100)
		srv := httptest.NewServer(db)
		metrics.DNSDBBufferSize.Set(0)
		emit := func(ev *ext2Event) {
			var f int
			ev.Buf, f = w.project(db.buffer.Load())
			ev.Foreign += f
			ev.Gauge = ext2Gauge()
			if ev.Taken == nil {
				ev.Taken = map[string]ext2Taken{}
				for _, k := range ext2Keys {
					ev.Taken[k] = ext2Taken{Rows: []ext2Row{}}
				}
			}
			if ev.Answers == nil {
				ev.Answers = []ext2Answer{}
			}
			ev.Beh, ev.MaxSize = i/segLen, 100
			out.Emit(ev)
		}
		emit(&ext2Event{Ev: "Reset"})
		for j, v := range seg {
			k := ext2Keys[rng.Intn(len(ext2Keys))]
			// a vector's question type decides which key can carry it
			if v.QType == "A" || v.QType == "AAAA" {
				for (w.keys[k].qt == dns.TypeA) != (v.QType == "A") {
					k = ext2Keys[rng.Intn(len(ext2Keys))]
				}
			}
			ev := &ext2Event{Ev: "Record", P: "p1"}
			m, ri := w.concretise(rng, v, k, ev)
			ext2SafeRecord(db, m, ri, ev)
			emit(ev)
			if j%2 == 1 || j == len(seg)-1 {
				dv := &ext2Event{Ev: "Dump", D: "d1"}
				dv.Taken, dv.Enc, dv.Foreign, dv.Why = w.dump(cl, srv.URL, rng)
				emit(dv)
			}
		}
		srv.Close()
	}
}

// TestVerifEXT2Stress: free-running Record calls and one free-running dumper
// through the real server; the event carries totals.  late is measured on the
// retired buffers after everything has stopped.
func TestVerifEXT2Stress(t *testing.T) {
	out := vhOpen(t)
	ext2InstallHooks()
	rounds := vhEnvInt("VERIF_NSTRESS", 6)
	cl := ext2Client()
	for round := 0; round < rounds; round++ {
		rng := rand.New(rand.NewSource(vhSeed()*1000 + int64(round)))
		w := ext2NewWorld(rng)
		maxSize, exact := 100, true
		if round%3 == 2 {
			maxSize, exact = 2+rng.Intn(3), false
		}
		db := ext2NewDB(maxSize)
		srv := httptest.NewServer(db)
		const nRec, nDumps = 8, 30
		// every third round several dumpers call the handler directly and as fast as they can while
		// more Record calls run: dumps collide; which buffer a dump took out is not attributable, so
		// late is not measured; decidable are "no buffer is taken out twice" (seen at the swap hook)
		// and "nothing is served that was not recorded"
		nDumpers, perG := 1, 500
		if round%3 == 1 {
			nDumpers, perG, exact = 4, 2500, false
			w.noGzip = true
		}
		var tmu sync.Mutex
		takenOut := map[*buffer]int{}
		verifSwapped = func(b *buffer) *buffer {
			tmu.Lock()
			takenOut[b]++
			tmu.Unlock()
			return b
		}
		type call struct {
			m  *dns.Msg
			ri *agd.RequestInfo
		}
		plans := make([][]call, nRec)
		recorded := map[string]int{}
		for _, k := range ext2Keys {
			recorded[k] = 0
		}
		for g := range plans {
			for i := 0; i < perG; i++ {
				k := ext2Pick(rng, ext2Keys)
				ev := &ext2Event{}
				var v ext2Vec
				if rng.Intn(4) == 0 {
					v = w.ignoredVec(rng, k)
				} else {
					v = w.baseVec(k, ext2Pick(rng, ext2VAns))
					recorded[k]++
				}
				m, ri := w.concretise(rng, v, k, ev)
				plans[g] = append(plans[g], call{m, ri})
			}
		}
		var wg, recWG sync.WaitGroup
		var recDone atomic.Bool
		for g := 0; g < nRec; g++ {
			recWG.Add(1)
			go func(g int) {
				defer recWG.Done()
				for _, c := range plans[g] {
					db.Record(context.Background(), c.m, c.ri)
				}
			}(g)
		}
		go func() { recWG.Wait(); recDone.Store(true) }()
		served, late := map[string]int{}, map[string]int{}
		for _, k := range ext2Keys {
			served[k], late[k] = 0, 0
		}
		type retired struct {
			b     *buffer
			taken map[string]ext2Taken
		}
		var rets []retired
		var dmu sync.Mutex
		foreign, maxKeys, why := 0, 0, ""
		for dg := 0; dg < nDumpers; dg++ {
			drng := rand.New(rand.NewSource(int64(round*10 + dg)))
			wg.Add(1)
			go func() {
				defer wg.Done()
				for i := 0; i < nDumps || (nDumpers > 1 && !recDone.Load() && i < 5000); i++ {
					var r retired
					var f int
					var wh string
					if nDumpers == 1 {
						r.b = db.buffer.Load()
						r.taken, _, f, wh = w.dump(cl, srv.URL, drng)
						time.Sleep(time.Duration(drng.Intn(300)) * time.Microsecond)
					} else {
						r.taken, _, f, wh = w.dumpDirect(db, drng)
					}
					dmu.Lock()
					foreign += f
					if why == "" {
						why = wh
					}
					rets = append(rets, r)
					dmu.Unlock()
				}
			}()
		}
		wg.Wait()
		recWG.Wait()
		for _, r := range rets {
			after := map[string]int{}
			if r.b != nil {
				var f int
				after, f = w.project(r.b)
				foreign += f
			}
			nk := 0
			for _, k := range ext2Keys {
				served[k] += r.taken[k].Hits
				if r.b != nil {
					late[k] += after[k] - r.taken[k].Hits
				}
				if r.taken[k].Hits > 0 {
					nk++
				}
			}
			maxKeys = max(maxKeys, nk)
		}
		dup := 0
		for _, n := range takenOut {
			if n > 1 {
				dup++
			}
		}
		pending, f := w.project(db.buffer.Load())
		srv.Close()
		out.Emit(map[string]any{"ev": "Summary", "beh": round, "recorded": recorded, "served": served, "pending": pending,
			"late": late, "exact": exact, "maxSize": maxSize, "maxKeys": maxKeys, "recorders": nRec, "dumps": len(rets),
			"dumpers": nDumpers, "dupTaken": dup,
			"foreign": foreign + f, "why": why})
	}
}
