//go:build verif

package rulestat

// EXT2, part 1.  Stepper and stress for the real rulestat.HTTP.
//
// The stepper executes action sequences (TLC-generated behaviours of
// RuleStat.tla from $VERIF_IN and seeded random ones) on a real collector whose
// upload endpoint is a real httptest server.  The server's handler is the gate
// between replaceStats and the end of Refresh: it parks every POST until the
// stepper answers it (200, 500, 204 or a closed connection).  After every
// action the abstract state (s.stats and s.recordedHits read under s.mu, the
// gauge, the body the endpoint received, what the endpoint has answered so
// far) is written as one event; the verdict is TLC's (TraceRuleStat.tla).

import (
	"context"
	"encoding/json"
	"fmt"
	"io"
	"log/slog"
	"math/rand"
	"net/http"
	"net/http/httptest"
	"net/url"
	"os"
	"sort"
	"strings"
	"sync"
	"testing"
	"time"

	"github.com/AdguardTeam/AdGuardDNS/internal/filter"
	"github.com/AdguardTeam/AdGuardDNS/internal/metrics"
	dto "github.com/prometheus/client_model/go"
)

type ext2Step struct {
	A string `json:"a"`
	L string `json:"l"`
	T string `json:"t"`
	R string `json:"r"`
}

type ext2Event struct {
	Ev        string         `json:"ev"`
	L         string         `json:"l"`
	T         string         `json:"t"`
	R         string         `json:"r"`
	ListID    string         `json:"listID"`
	Text      string         `json:"text"`
	Mode      string         `json:"mode"`
	Cur       map[string]int `json:"cur"`
	Hits      int            `json:"hits"`
	Gauge     int            `json:"gauge"`
	Delivered map[string]int `json:"delivered"`
	Dropped   map[string]int `json:"dropped"`
	Taken     map[string]int `json:"taken"`
	IDs       []string       `json:"ids"`
	Shape     string         `json:"shape"`
	Err       bool           `json:"err"`
	Foreign   int            `json:"foreign"`
	Beh       int            `json:"beh"`
}

type ext2ErrColl struct{}

func (ext2ErrColl) Collect(_ context.Context, _ error) {}

var ext2Texts = []string{"t1", "t2", "t3"}

// Concrete rule texts: several scripts, JSON-special characters, the empty
// text, the legacy id and the JSON property name as texts.
var ext2TextPool = []string{
	"||example.org^", "||example.com^", "||пример.рф^", "@@||allow.example^$important",
	`a"quoted"rule`, `back\slash\`, "<b>&amp;</b>", "", " ", "15", "filters", "adguard_dns_filter",
	"rule\nwith\nnewlines", "tab\there", " sep", "||emoji-😀.example^", "/regex[0-9]+\\.example/",
	"||" + strings.Repeat("long-label.", 40) + "example^", "||EXAMPLE.org^", "||example.org^ ",
}

// Concrete list ids that must NOT be counted.
var ext2OtherLists = []string{
	"15", "", "ADGUARD_DNS_FILTER", "adguard_dns_filter ", " adguard_dns_filter", "adguard_dns_filte",
	"adguard_dns_filterx", "adguard_dns_filter\x00", "custom", "blocked_service", "adult_blocking", "safe_browsing",
	"newly_registered_domains", "general_safe_search", "youtube_safe_search", "adguard_popup_filter", "some_list_1",
}

// ext2World is the concretisation of one segment.
type ext2World struct {
	text map[string]string // abstract -> concrete
	abs  map[string]string // concrete -> abstract
}

func ext2NewWorld(rng *rand.Rand) (w *ext2World) {
	w = &ext2World{text: map[string]string{}, abs: map[string]string{}}
	perm := rng.Perm(len(ext2TextPool))
	for i, t := range ext2Texts {
		c := ext2TextPool[perm[i]]
		w.text[t], w.abs[c] = c, t
	}
	return w
}

func (w *ext2World) list(rng *rand.Rand, l string) string {
	if l == "adguard" {
		return string(filter.IDAdGuardDNS)
	}
	return ext2OtherLists[rng.Intn(len(ext2OtherLists))]
}

// project maps a concrete statistics set to the abstract one; entries that are
// not explained by the world are counted as foreign.
func (w *ext2World) project(set map[string]map[string]uint64) (m map[string]int, ids []string, foreign int) {
	m = map[string]int{}
	for _, t := range ext2Texts {
		m[t] = 0
	}
	ids = []string{}
	for id, texts := range set {
		ids = append(ids, id)
		for text, n := range texts {
			a, ok := w.abs[text]
			if !ok {
				foreign++
				continue
			}
			m[a] += int(n)
		}
	}
	sort.Strings(ids)
	return m, ids, foreign
}

func ext2Gauge() int {
	m := &dto.Metric{}
	if err := metrics.RuleStatCacheSize.Write(m); err != nil {
		panic(err)
	}
	return int(m.GetGauge().GetValue())
}

// ext2State reads the collector's state under its lock.
func ext2State(s *HTTP, w *ext2World) (cur map[string]int, hits, foreign int) {
	s.mu.Lock()
	defer s.mu.Unlock()
	set := map[string]map[string]uint64{}
	for id, texts := range s.stats {
		if id != statFilterListLegacyID {
			foreign++
		}
		set[string(id)] = map[string]uint64{}
		for text, n := range texts {
			set[string(id)][string(text)] = n
		}
	}
	cur, _, f := w.project(set)
	return cur, int(s.recordedHits), foreign + f
}

// ext2Body parses an upload body; shape is "object" when "filters" is a JSON
// object keyed by list id (what the collector's own tests expect), "array" when
// it is an array of such objects (what doc/externalhttp.md shows).
func ext2Body(b []byte) (set map[string]map[string]uint64, shape string, err error) {
	var req struct {
		Filters json.RawMessage `json:"filters"`
	}
	if err = json.Unmarshal(b, &req); err != nil {
		return nil, "invalid", err
	}
	set = map[string]map[string]uint64{}
	raw := strings.TrimSpace(string(req.Filters))
	switch {
	case strings.HasPrefix(raw, "{"):
		shape = "object"
		err = json.Unmarshal(req.Filters, &set)
	case strings.HasPrefix(raw, "["):
		shape = "array"
		var arr []map[string]map[string]uint64
		err = json.Unmarshal(req.Filters, &arr)
		for _, el := range arr {
			for id, texts := range el {
				if set[id] == nil {
					set[id] = map[string]uint64{}
				}
				for t, n := range texts {
					set[id][t] += n
				}
			}
		}
	default:
		shape = "other"
	}
	return set, shape, err
}

// ext2Upload is one parked POST.
type ext2Upload struct {
	body    []byte
	ctype   string
	method  string
	release chan string
}

func ext2Server(t *testing.T, entered chan *ext2Upload) (srv *httptest.Server, u *url.URL) {
	srv = httptest.NewServer(http.HandlerFunc(func(rw http.ResponseWriter, r *http.Request) {
		b, err := io.ReadAll(r.Body)
		if err != nil {
			panic(err)
		}
		up := &ext2Upload{body: b, ctype: r.Header.Get("Content-Type"), method: r.Method, release: make(chan string, 1)}
		entered <- up
		ext2Answer(rw, <-up.release)
	}))
	u, err := url.Parse(srv.URL)
	if err != nil {
		t.Fatal(err)
	}
	return srv, u
}

func ext2Answer(rw http.ResponseWriter, mode string) {
	switch mode {
	case "200":
		rw.WriteHeader(http.StatusOK)
	case "500":
		rw.WriteHeader(http.StatusInternalServerError)
	case "204":
		rw.WriteHeader(http.StatusNoContent)
	case "hangup":
		conn, _, err := rw.(http.Hijacker).Hijack()
		if err != nil {
			panic(err)
		}
		_ = conn.Close()
	default:
		panic("mode " + mode)
	}
}

var ext2FailModes = []string{"500", "204", "hangup"}

func ext2Run(t *testing.T, out *vhOut, rng *rand.Rand, beh int, steps []ext2Step) {
	w := ext2NewWorld(rng)
	entered := make(chan *ext2Upload)
	srv, u := ext2Server(t, entered)
	defer srv.Close()
	s := NewHTTP(&HTTPConfig{Logger: slog.New(slog.NewTextHandler(io.Discard, nil)), ErrColl: ext2ErrColl{}, URL: u})
	ctx := context.Background()
	inflight := map[string]*ext2Upload{}
	taken := map[string]map[string]int{}
	done := map[string]chan error{}
	delivered, dropped := map[string]int{}, map[string]int{}
	for _, x := range ext2Texts {
		delivered[x], dropped[x] = 0, 0
	}
	emit := func(ev ext2Event) {
		var f int
		ev.Cur, ev.Hits, f = ext2State(s, w)
		ev.Foreign += f
		ev.Gauge = ext2Gauge()
		ev.Delivered, ev.Dropped = map[string]int{}, map[string]int{}
		for _, x := range ext2Texts {
			ev.Delivered[x], ev.Dropped[x] = delivered[x], dropped[x]
		}
		if ev.Taken == nil {
			ev.Taken = map[string]int{}
			for _, x := range ext2Texts {
				ev.Taken[x] = 0
			}
		}
		if ev.IDs == nil {
			ev.IDs = []string{}
		}
		ev.Beh = beh
		out.Emit(ev)
	}
	emit(ext2Event{Ev: "Reset"})
	for _, st := range steps {
		ev := ext2Event{Ev: st.A, L: st.L, T: st.T, R: st.R}
		switch st.A {
		case "Collect":
			ev.ListID, ev.Text = w.list(rng, st.L), w.text[st.T]
			s.Collect(ctx, filter.ID(ev.ListID), filter.RuleText(ev.Text))
		case "RefreshSwap":
			ch := make(chan error, 1)
			done[st.R] = ch
			go func() { ch <- s.Refresh(ctx) }()
			select {
			case up := <-entered:
				inflight[st.R] = up
				set, shape, err := ext2Body(up.body)
				if err != nil || up.method != http.MethodPost || !strings.HasPrefix(up.ctype, "application/json") {
					ev.Foreign++ // not a JSON POST of the documented envelope
				}
				ev.Shape = shape
				var f int
				ev.Taken, ev.IDs, f = w.project(set)
				ev.Foreign += f
				taken[st.R] = ev.Taken
			case err := <-ch:
				t.Fatalf("behaviour %d: refresh %s returned %v without reaching the endpoint", beh, st.R, err)
			case <-time.After(20 * time.Second):
				t.Fatalf("behaviour %d: refresh %s did not reach the endpoint", beh, st.R)
			}
		case "UploadOK", "DropFailed":
			up := inflight[st.R]
			if up == nil {
				t.Fatalf("behaviour %d: %s of idle refresh %s", beh, st.A, st.R)
			}
			ev.Mode = "200"
			if st.A == "DropFailed" {
				ev.Mode = ext2FailModes[rng.Intn(len(ext2FailModes))]
			}
			// the ledger of what the endpoint has answered
			for x, n := range taken[st.R] {
				if st.A == "UploadOK" {
					delivered[x] += n
				} else {
					dropped[x] += n
				}
			}
			up.release <- ev.Mode
			select {
			case err := <-done[st.R]:
				ev.Err = err != nil
			case <-time.After(40 * time.Second):
				t.Fatalf("behaviour %d: refresh %s did not return", beh, st.R)
			}
			delete(inflight, st.R)
		default:
			t.Fatalf("unknown action %q", st.A)
		}
		emit(ev)
	}
	for rid, up := range inflight {
		up.release <- "200"
		<-done[rid]
	}
}

func ext2Random(rng *rand.Rand, refs []string, n int) (steps []ext2Step) {
	busy := map[string]bool{}
	for len(steps) < n {
		switch k := rng.Intn(10); {
		case k < 6:
			l := "adguard"
			if rng.Intn(3) == 0 {
				l = "other"
			}
			steps = append(steps, ext2Step{A: "Collect", L: l, T: ext2Texts[rng.Intn(len(ext2Texts))]})
		default:
			r := refs[rng.Intn(len(refs))]
			if !busy[r] {
				busy[r] = true
				steps = append(steps, ext2Step{A: "RefreshSwap", R: r})
			} else {
				busy[r] = false
				a := "UploadOK"
				if rng.Intn(2) == 0 {
					a = "DropFailed"
				}
				steps = append(steps, ext2Step{A: a, R: r})
			}
		}
	}
	return steps
}

func TestVerifEXT2Stepper(t *testing.T) {
	out := vhOpen(t)
	var behs [][]ext2Step
	if p := os.Getenv("VERIF_IN"); p != "" {
		vhReadJSON(t, p, &behs)
	}
	rng := rand.New(rand.NewSource(vhSeed()))
	nrand := vhEnvInt("VERIF_NRANDOM", 100)
	refs := []string{"r1", "r2"}
	for i := 0; i < nrand; i++ {
		behs = append(behs, ext2Random(rng, refs, 8+rng.Intn(30)))
	}
	for i, b := range behs {
		ext2Run(t, out, rng, i, b)
	}
}

// TestVerifEXT2Stress: free-running collectors and refreshers against a
// free-running endpoint that fails some uploads; only the quiescent totals are
// observable, so the event carries totals (validated by TraceSummary).
func TestVerifEXT2Stress(t *testing.T) {
	out := vhOpen(t)
	rounds := vhEnvInt("VERIF_NSTRESS", 10)
	for round := 0; round < rounds; round++ {
		rng := rand.New(rand.NewSource(vhSeed()*1000 + int64(round)))
		w := ext2NewWorld(rng)
		var mu sync.Mutex
		delivered, dropped := map[string]int{}, map[string]int{}
		foreign, calls := 0, 0
		failEvery := 2 + rng.Intn(3)
		srv := httptest.NewServer(http.HandlerFunc(func(rw http.ResponseWriter, r *http.Request) {
			b, err := io.ReadAll(r.Body)
			if err != nil {
				panic(err)
			}
			set, _, err := ext2Body(b)
			m, ids, f := w.project(set)
			mu.Lock()
			calls++
			mode := "200"
			if calls%failEvery == 0 {
				mode = ext2FailModes[calls/failEvery%len(ext2FailModes)]
			}
			if err != nil {
				foreign++
			}
			foreign += f
			for _, id := range ids {
				if id != "15" {
					foreign++
				}
			}
			for x, n := range m {
				if mode == "200" {
					delivered[x] += n
				} else {
					dropped[x] += n
				}
			}
			mu.Unlock()
			ext2Answer(rw, mode)
		}))
		u, err := url.Parse(srv.URL)
		if err != nil {
			t.Fatal(err)
		}
		s := NewHTTP(&HTTPConfig{Logger: slog.New(slog.NewTextHandler(io.Discard, nil)), ErrColl: ext2ErrColl{}, URL: u})
		ctx := context.Background()
		var wg sync.WaitGroup
		counted := map[string]int{}
		for _, x := range ext2Texts {
			counted[x] = 0
		}
		const nCollectors, perG = 8, 600
		plans := make([][]ext2Step, nCollectors)
		lids := make([][]string, nCollectors)
		for g := range plans {
			for i := 0; i < perG; i++ {
				st := ext2Step{A: "Collect", L: "adguard", T: ext2Texts[rng.Intn(len(ext2Texts))]}
				if rng.Intn(3) == 0 {
					st.L = "other"
				} else {
					counted[st.T]++
				}
				plans[g] = append(plans[g], st)
				lids[g] = append(lids[g], w.list(rng, st.L))
			}
		}
		for g := 0; g < nCollectors; g++ {
			wg.Add(1)
			go func(g int) {
				defer wg.Done()
				for i, st := range plans[g] {
					s.Collect(ctx, filter.ID(lids[g][i]), filter.RuleText(w.text[st.T]))
				}
			}(g)
		}
		for g := 0; g < 2; g++ {
			wg.Add(1)
			go func() {
				defer wg.Done()
				for i := 0; i < 25; i++ {
					_ = s.Refresh(ctx)
				}
			}()
		}
		wg.Wait()
		srv.Close()
		cur, hits, f := ext2State(s, w)
		ev := map[string]any{"ev": "Summary", "beh": round, "counted": counted, "cur": cur, "hits": hits,
			"delivered": map[string]int{}, "dropped": map[string]int{}, "foreign": foreign + f, "uploads": calls,
			"texts": fmt.Sprintf("%q", w.text)}
		for _, x := range ext2Texts {
			ev["delivered"].(map[string]int)[x] = delivered[x]
			ev["dropped"].(map[string]int)[x] = dropped[x]
		}
		out.Emit(ev)
	}
}
