//go:build verif

package billstat

// C16 stepper.  Executes action sequences (TLC-generated behaviours of
// BillStat.tla from $VERIF_IN and seeded random ones) on the real
// RuntimeRecorder.  The scripted Uploader is the gate between resetRecords and
// remergeRecords.  After every action the abstract state (r.records read under
// r.mu, what successful uploads delivered) is written as one event; the
// verdict is TLC's (TraceBillStat.tla).

import (
	"context"
	"errors"
	"fmt"
	"io"
	"log/slog"
	"math/rand"
	"os"
	"sync"
	"testing"
	"time"

	"github.com/AdguardTeam/AdGuardDNS/internal/agd"
	"github.com/AdguardTeam/AdGuardDNS/internal/geoip"
)

type c16Step struct {
	A string `json:"a"`
	D string `json:"d"`
	R string `json:"r"`
	// C: the refresh is called with a context that is already cancelled (a
	// shutdown, a debug request whose client has gone)
	C bool `json:"c"`
}

type c16Rec struct {
	N    int `json:"n"`
	Meta int `json:"meta"`
}

type c16Event struct {
	Ev        string            `json:"ev"`
	D         string            `json:"d"`
	R         string            `json:"r"`
	Pending   map[string]c16Rec `json:"pending"`
	Delivered map[string]int    `json:"delivered"`
	DelivMeta map[string]int    `json:"delivMeta"`
	Taken     map[string]c16Rec `json:"taken"`
	Mutated   bool              `json:"mutated"`
	Beh       int               `json:"beh"`
}

type c16ErrColl struct{}

func (c16ErrColl) Collect(_ context.Context, _ error) {}

// c16Upload is one parked Upload call.
type c16Upload struct {
	recs    Records
	atEntry map[string]c16Rec
	release chan error
}

type c16Uploader struct {
	entered chan *c16Upload
}

func (u *c16Uploader) Upload(_ context.Context, records Records) (err error) {
	up := &c16Upload{recs: records, atEntry: c16Project(records), release: make(chan error)}
	u.entered <- up
	return <-up.release
}

var c16Base = time.Unix(1_700_000_000, 0)

// meta serial k is encoded in every metadata field so that a partial copy of
// the metadata is visible.
func c16Meta(k int) (ctry geoip.Country, asn geoip.ASN, tm time.Time, p agd.Protocol) {
	return geoip.Country(fmt.Sprintf("%c%c", 'A'+byte(k/26%26), 'A'+byte(k%26))), geoip.ASN(k),
		c16Base.Add(time.Duration(k) * time.Second), agd.Protocol(k%7 + 1)
}

func c16Project(recs Records) (m map[string]c16Rec) {
	m = map[string]c16Rec{}
	for id, r := range recs {
		k := int(r.Time.Sub(c16Base) / time.Second)
		ctry, asn, _, p := c16Meta(k)
		if r.Country != ctry || r.ASN != asn || r.Proto != p {
			k = -1 // mixed metadata: belongs to no single query
		}
		m[string(id)] = c16Rec{N: int(r.Queries), Meta: k}
	}
	return m
}

func c16Fill(m map[string]c16Rec, devs []string) map[string]c16Rec {
	for _, d := range devs {
		if _, ok := m[d]; !ok {
			m[d] = c16Rec{}
		}
	}
	return m
}

func c16Run(t *testing.T, out *vhOut, beh int, steps []c16Step, devs []string) {
	up := &c16Uploader{entered: make(chan *c16Upload)}
	r := NewRuntimeRecorder(&RuntimeRecorderConfig{
		Logger:   slog.New(slog.NewTextHandler(io.Discard, nil)),
		ErrColl:  c16ErrColl{},
		Uploader: up,
		Metrics:  EmptyMetrics{},
	})
	ctx := context.Background()
	inflight := map[string]*c16Upload{}
	aborted := map[string]bool{}
	done := map[string]chan error{}
	delivered := map[string]int{}
	delivMeta := map[string]int{}
	for _, d := range devs {
		delivered[d], delivMeta[d] = 0, 0
	}
	clock := 0
	out.Emit(c16Event{Ev: "Reset", Beh: beh})
	for _, s := range steps {
		ev := c16Event{Ev: s.A, D: s.D, R: s.R, Beh: beh}
		switch s.A {
		case "Record":
			clock++
			ctry, asn, tm, p := c16Meta(clock)
			r.Record(ctx, agd.DeviceID(s.D), ctry, asn, tm, p)
		case "RefreshReset":
			ch := make(chan error, 1)
			done[s.R] = ch
			rctx := ctx
			if s.C {
				var cancel context.CancelFunc
				rctx, cancel = context.WithCancel(ctx)
				cancel()
			}
			go func() { ch <- r.Refresh(rctx) }()
			select {
			case u := <-up.entered:
				inflight[s.R] = u
				ev.Taken = c16Fill(u.atEntry, devs)
			case rerr := <-ch:
				// the refresh returned without having handed anything to the uploader
				if rerr == nil {
					t.Fatalf("refresh %s returned nil without an upload", s.R)
				}
				ev.Ev = "RefreshAborted"
				aborted[s.R] = true
				// ... unless an upload of that refresh turns up after all: the refresh has told its caller that
				// it failed (and has put everything back) while the batch is still on its way to the backend
				select {
				case u := <-up.entered:
					ev.Ev = "UploadOutlivesRefresh"
					ev.Taken = c16Fill(u.atEntry, devs)
					go func() { u.release <- nil }()
				case <-time.After(300 * time.Millisecond):
				}
			case <-time.After(10 * time.Second):
				t.Fatalf("refresh %s did not reach Upload", s.R)
			}
		case "UploadOK", "UploadFail":
			u := inflight[s.R]
			if u == nil && aborted[s.R] {
				delete(aborted, s.R)
				continue
			}
			if u == nil {
				t.Fatalf("behaviour %d: %s of idle refresh %s", beh, s.A, s.R)
			}
			now := c16Fill(c16Project(u.recs), devs)
			ev.Mutated = fmt.Sprint(now) != fmt.Sprint(u.atEntry)
			var uerr error
			if s.A == "UploadFail" {
				uerr = errors.New("scripted upload failure")
			} else {
				// The backend receives what the map holds when it is sent.
				for d, rec := range now {
					delivered[d] += rec.N
					if rec.N > 0 {
						delivMeta[d] = rec.Meta
					}
				}
			}
			u.release <- uerr
			select {
			case err := <-done[s.R]:
				// (a refresh that reports something else than its upload did is judged by what it leaves
				// behind: the pending records observed after this step)
				_ = err
			case <-time.After(10 * time.Second):
				t.Fatalf("refresh %s did not return", s.R)
			}
			delete(inflight, s.R)
		default:
			t.Fatalf("unknown action %q", s.A)
		}
		r.mu.Lock()
		ev.Pending = c16Fill(c16Project(r.records), devs)
		r.mu.Unlock()
		ev.Delivered = map[string]int{}
		ev.DelivMeta = map[string]int{}
		for _, d := range devs {
			ev.Delivered[d] = delivered[d]
			ev.DelivMeta[d] = delivMeta[d]
		}
		out.Emit(ev)
	}
	// Let parked refreshes finish so that no goroutine leaks.
	for rid, u := range inflight {
		u.release <- nil
		<-done[rid]
	}
}

func c16Random(rng *rand.Rand, devs, refs []string, n int) (steps []c16Step) {
	busy := map[string]bool{}
	for len(steps) < n {
		switch k := rng.Intn(10); {
		case k < 5:
			steps = append(steps, c16Step{A: "Record", D: devs[rng.Intn(len(devs))]})
		default:
			r := refs[rng.Intn(len(refs))]
			if !busy[r] {
				busy[r] = true
				steps = append(steps, c16Step{A: "RefreshReset", R: r, C: rng.Intn(4) == 0})
			} else {
				busy[r] = false
				a := "UploadOK"
				if rng.Intn(2) == 0 {
					a = "UploadFail"
				}
				steps = append(steps, c16Step{A: a, R: r})
			}
		}
	}
	return steps
}

func TestVerifC16Stepper(t *testing.T) {
	out := vhOpen(t)
	devs := []string{"d1", "d2", "d3"}
	var behs [][]c16Step
	if p := os.Getenv("VERIF_IN"); p != "" {
		vhReadJSON(t, p, &behs)
	}
	rng := rand.New(rand.NewSource(vhSeed()))
	nrand := vhEnvInt("VERIF_NRANDOM", 100)
	nref := vhEnvInt("VERIF_NREF", 2)
	refs := []string{"r1", "r2"}[:nref]
	for i := 0; i < nrand; i++ {
		behs = append(behs, c16Random(rng, devs, refs, 10+rng.Intn(30)))
	}
	for i, b := range behs {
		c16Run(t, out, i, b, devs)
	}
}

// TestVerifC16Stress: free-running recorders and refreshes with random upload
// failures; only the quiescent summary is observable without a lock-level
// hook, so the event carries totals (validated against QuiescentConservation).
func TestVerifC16Stress(t *testing.T) {
	out := vhOpen(t)
	devs := []string{"d1", "d2", "d3"}
	rounds := vhEnvInt("VERIF_NSTRESS", 20)
	for round := 0; round < rounds; round++ {
		rng := rand.New(rand.NewSource(vhSeed()*1000 + int64(round)))
		var mu sync.Mutex
		delivered := map[string]int{}
		failEvery := 2 + rng.Intn(3)
		calls := 0
		upl := uploaderFunc(func(_ context.Context, recs Records) error {
			mu.Lock()
			defer mu.Unlock()
			calls++
			if calls%failEvery == 0 {
				return errors.New("scripted")
			}
			for id, r := range recs {
				delivered[string(id)] += int(r.Queries)
			}
			return nil
		})
		r := NewRuntimeRecorder(&RuntimeRecorderConfig{
			Logger: slog.New(slog.NewTextHandler(io.Discard, nil)), ErrColl: c16ErrColl{}, Uploader: upl,
			Metrics: EmptyMetrics{},
		})
		ctx := context.Background()
		var wg sync.WaitGroup
		recorded := map[string]int{}
		const perG = 400
		for g := 0; g < 6; g++ {
			d := devs[g%len(devs)]
			recorded[d] += perG
			wg.Add(1)
			go func(g int, d string) {
				defer wg.Done()
				for i := 0; i < perG; i++ {
					ctry, asn, tm, p := c16Meta(i)
					r.Record(ctx, agd.DeviceID(d), ctry, asn, tm, p)
				}
			}(g, d)
		}
		for g := 0; g < 2; g++ {
			wg.Add(1)
			go func() {
				defer wg.Done()
				for i := 0; i < 40; i++ {
					_ = r.Refresh(ctx)
				}
			}()
		}
		wg.Wait()
		r.mu.Lock()
		pend := c16Project(r.records)
		r.mu.Unlock()
		ev := map[string]any{"ev": "Summary", "beh": round, "recorded": recorded, "delivered": map[string]int{},
			"pending": map[string]int{}}
		for _, d := range devs {
			ev["delivered"].(map[string]int)[d] = delivered[d]
			ev["pending"].(map[string]int)[d] = pend[d].N
		}
		out.Emit(ev)
	}
}

type uploaderFunc func(ctx context.Context, recs Records) error

func (f uploaderFunc) Upload(ctx context.Context, recs Records) error { return f(ctx, recs) }
