//go:build verif

package websvc

// EXT6 harness for the web service (specs/WebSvc.tla, specs/BlockPage.tla).
//
// TestVerifEXT6Table      for every configuration of the decision table a real
//                         Service is built with New, refreshed and started on
//                         loop-back ports (non-DoH plain + TLS, the three block-page
//                         servers, the linked-IP server); every request vector is
//                         sent as a RAW HTTP/1.1 request to the listener it names;
//                         one NDJSON line per request.
// TestVerifEXT6BlockPage  steps behaviours printed by TLC (file writes / removals,
//                         Refresh, Start, Shutdown) on a real Service and records
//                         what every block-page server serves after each step.
// TestVerifEXT6BlockPageConc (-race) readers against the block-page handlers
//                         while Refresh swaps the content.
//
// Nothing is judged here: TLC decides (TraceWebSvc.tla, TraceBlockPage.tla).

import (
	"bufio"
	"bytes"
	"compress/gzip"
	"context"
	"crypto/ecdsa"
	"crypto/elliptic"
	"crypto/rand"
	"crypto/tls"
	"crypto/x509"
	"crypto/x509/pkix"
	"fmt"
	"io"
	"math/big"
	mrand "math/rand"
	"net"
	"net/http"
	"net/http/httptest"
	"net/netip"
	"net/url"
	"os"
	"path/filepath"
	"sort"
	"strings"
	"sync"
	"sync/atomic"
	"testing"
	"time"

	"github.com/AdguardTeam/AdGuardDNS/internal/agdhttp"
	"github.com/AdguardTeam/AdGuardDNS/internal/agdtest"
)

const (
	ext6Page404  = "<html><body>verif custom 404 page</body></html>\n"
	ext6Page500  = "<html><body>verif custom 500 page</body></html>\n"
	ext6Redirect = "https://redirect.example/landing?x=1"
	ext6DCBody   = "{\"dnscheck\":\"verif\"}\n"
)

var ext6Static = map[string]struct {
	class string
	ct    string
	body  string
}{
	"/favicon.ico": {"favicon", "image/x-icon", "\x00\x00\x01\x00verif-icon"},
	"/file.bin":    {"octet", "application/octet-stream", "verif octet stream body\n"},
	"/page.html":   {"html", "text/html", "<html>verif static page</html>\n"},
	"/notype":      {"nohdr", "", "verif static body without a content type\n"},
}

const ext6StaticRobots = "User-agent: *\nAllow: /verif-static\n"

type ext6Counter struct {
	h http.Handler
	n atomic.Int64
}

func (c *ext6Counter) ServeHTTP(w http.ResponseWriter, r *http.Request) {
	c.n.Add(1)
	c.h.ServeHTTP(w, r)
}

type ext6Conf struct {
	Redir bool   `json:"redir"`
	E404  bool   `json:"e404"`
	E500  bool   `json:"e500"`
	DC    string `json:"dc"`
	SC    string `json:"sc"`
}

func ext6FreePorts(tb testing.TB, n int) []netip.AddrPort {
	var lns []net.Listener
	var res []netip.AddrPort
	for i := 0; i < n; i++ {
		ln, err := net.Listen("tcp", "127.0.0.1:0")
		if err != nil {
			tb.Fatal(err)
		}
		lns = append(lns, ln)
		res = append(res, netip.MustParseAddrPort(ln.Addr().String()))
	}
	for _, ln := range lns {
		ln.Close()
	}
	return res
}

func ext6SelfSigned(tb testing.TB) *tls.Config {
	key, err := ecdsa.GenerateKey(elliptic.P256(), rand.Reader)
	if err != nil {
		tb.Fatal(err)
	}
	tmpl := &x509.Certificate{SerialNumber: big.NewInt(6), Subject: pkix.Name{CommonName: "verif.example"},
		DNSNames: []string{"verif.example"}, NotBefore: time.Now().Add(-time.Hour), NotAfter: time.Now().Add(24 * time.Hour)}
	der, err := x509.CreateCertificate(rand.Reader, tmpl, tmpl, &key.PublicKey, key)
	if err != nil {
		tb.Fatal(err)
	}
	return &tls.Config{Certificates: []tls.Certificate{{Certificate: [][]byte{der}, PrivateKey: key}}}
}

// ext6World is one started Service.
type ext6World struct {
	tb      testing.TB
	dir     string
	conf    ext6Conf
	svc     *Service
	dc      *ext6Counter
	st      *ext6Counter
	addr    map[string]netip.AddrPort // listener name -> address
	content map[string]string         // block listener -> current page
	nilSrv  *http.Server
	started bool
}

func ext6BlockContent(name string, v int) string {
	var sb strings.Builder
	fmt.Fprintf(&sb, "<html><head><title>%s v%d</title></head><body>\n", name, v)
	for i := 0; i < 40; i++ {
		fmt.Fprintf(&sb, "<p>verif block page %s version %d line %d</p>\n", name, v, i)
	}
	sb.WriteString("</body></html>\n")
	return sb.String()
}

func newExt6World(tb testing.TB, conf ext6Conf, tlsConf *tls.Config, block []string) *ext6World {
	dir, err := os.MkdirTemp(os.Getenv("VERIF_SCRATCH"), "ext6web-")
	if err != nil {
		tb.Fatal(err)
	}
	w := &ext6World{tb: tb, dir: dir, conf: conf, addr: map[string]netip.AddrPort{}, content: map[string]string{}}
	ports := ext6FreePorts(tb, 7)
	w.addr["web"], w.addr["webtls"], w.addr["safe"], w.addr["adult"], w.addr["general"], w.addr["linkip"], w.addr["nilsvc"] =
		ports[0], ports[1], ports[2], ports[3], ports[4], ports[5], ports[6]

	var dcH http.HandlerFunc
	dcH = func(rw http.ResponseWriter, _ *http.Request) {
		rw.Header().Set("Content-Type", "application/json")
		rw.Header().Set("X-Dc", "1")
		switch conf.DC {
		case "nf404":
			rw.WriteHeader(http.StatusNotFound)
		case "err500":
			rw.WriteHeader(http.StatusInternalServerError)
		}
		_, _ = io.WriteString(rw, ext6DCBody)
	}
	w.dc = &ext6Counter{h: dcH}

	var inner http.Handler = http.NotFoundHandler()
	if conf.SC != "none" {
		sc := StaticContent{}
		for p, f := range ext6Static {
			hdr := http.Header{}
			if f.ct != "" {
				hdr.Set("Content-Type", f.ct)
			}
			if f.class == "html" {
				hdr.Set("X-Custom", "1")
			}
			sc[p] = &StaticFile{Headers: hdr, Content: []byte(f.body)}
		}
		if conf.SC == "maprobots" {
			sc["/robots.txt"] = &StaticFile{Headers: http.Header{"Content-Type": {"text/plain"}}, Content: []byte(ext6StaticRobots)}
		}
		inner = sc
	}
	w.st = &ext6Counter{h: inner}

	bp := func(name string) *BlockPageServerConfig {
		ok := false
		for _, b := range block {
			ok = ok || b == name
		}
		if !ok {
			return nil
		}
		w.content[name] = ext6BlockContent(name, 1)
		path := filepath.Join(dir, name+".html")
		if err = os.WriteFile(path, []byte(w.content[name]), 0o600); err != nil {
			tb.Fatal(err)
		}
		return &BlockPageServerConfig{ContentFilePath: path, Bind: []*BindData{{Address: w.addr[name]}}}
	}
	backend, _ := url.Parse("http://127.0.0.1:1/")
	c := &Config{
		AdultBlocking:   bp("adult"),
		GeneralBlocking: bp("general"),
		SafeBrowsing:    bp("safe"),
		LinkedIP:        &LinkedIPServer{TargetURL: backend, Bind: []*BindData{{Address: w.addr["linkip"]}}},
		StaticContent:   w.st,
		DNSCheck:        w.dc,
		ErrColl:         agdtest.NewErrorCollector(),
		NonDoHBind:      []*BindData{{Address: w.addr["web"]}, {Address: w.addr["webtls"], TLS: tlsConf}},
		Timeout:         10 * time.Second,
	}
	if conf.Redir {
		c.RootRedirectURL, _ = url.Parse(ext6Redirect)
	}
	if conf.E404 {
		c.Error404 = []byte(ext6Page404)
	}
	if conf.E500 {
		c.Error500 = []byte(ext6Page500)
	}
	w.svc = New(c)
	return w
}

func (w *ext6World) reachable(name string) bool {
	c, err := net.DialTimeout("tcp", w.addr[name].String(), 2*time.Second)
	if err != nil {
		return false
	}
	c.Close()
	return true
}

// up returns the listeners that accept connections.  want is what the caller
// waits for (Start does not wait for the servers to go online).
func (w *ext6World) up(names []string, want bool) []string {
	deadline := time.Now().Add(10 * time.Second)
	if !want {
		// Shutdown is synchronous: the listeners are closed when it returns
		deadline = time.Now().Add(300 * time.Millisecond)
	}
	for {
		res := []string{}
		for _, n := range names {
			if w.reachable(n) {
				res = append(res, n)
			}
		}
		if (want && len(res) == len(names)) || (!want && len(res) == 0) || time.Now().After(deadline) {
			sort.Strings(res)
			return res
		}
		time.Sleep(2 * time.Millisecond)
	}
}

func (w *ext6World) start(names []string) []string {
	if err := w.svc.Start(context.Background()); err != nil {
		w.tb.Fatalf("start: %v", err)
	}
	w.started = true
	return w.up(names, true)
}

func (w *ext6World) shutdown(names []string) (string, []string) {
	ctx, cancel := context.WithTimeout(context.Background(), 10*time.Second)
	defer cancel()
	err := w.svc.Shutdown(ctx)
	w.started = false
	ret := "ok"
	if err != nil {
		ret = "err: " + err.Error()
	}
	return ret, w.up(names, false)
}

func (w *ext6World) close() {
	if w.started {
		w.shutdown(nil)
	}
	if w.nilSrv != nil {
		w.nilSrv.Close()
	}
	os.RemoveAll(w.dir)
}

type ext6Resp struct {
	St   int
	Body []byte
	Hdr  http.Header
	Err  string
}

// ext6Raw sends one raw request over a new connection.
func ext6Raw(addr string, useTLS bool, method, target string, hdrs map[string]string) (res ext6Resp) {
	var conn net.Conn
	var err error
	d := &net.Dialer{Timeout: 5 * time.Second}
	if useTLS {
		conn, err = tls.DialWithDialer(d, "tcp", addr, &tls.Config{InsecureSkipVerify: true, ServerName: "verif.example"})
	} else {
		conn, err = d.Dial("tcp", addr)
	}
	if err != nil {
		return ext6Resp{St: -1, Err: "dial: " + err.Error()}
	}
	defer conn.Close()
	_ = conn.SetDeadline(time.Now().Add(15 * time.Second))
	var sb strings.Builder
	fmt.Fprintf(&sb, "%s %s HTTP/1.1\r\nHost: verif.example\r\nConnection: close\r\n", method, target)
	keys := make([]string, 0, len(hdrs))
	for k := range hdrs {
		keys = append(keys, k)
	}
	sort.Strings(keys)
	for _, k := range keys {
		fmt.Fprintf(&sb, "%s: %s\r\n", k, hdrs[k])
	}
	if method == "POST" || method == "PUT" {
		sb.WriteString("Content-Length: 0\r\n")
	}
	sb.WriteString("\r\n")
	if _, err = conn.Write([]byte(sb.String())); err != nil {
		return ext6Resp{St: -1, Err: "write: " + err.Error()}
	}
	req, _ := http.NewRequest(method, "http://verif.example/", nil)
	resp, err := http.ReadResponse(bufio.NewReader(conn), req)
	if err != nil {
		return ext6Resp{St: -1, Err: "read: " + err.Error()}
	}
	defer resp.Body.Close()
	body, err := io.ReadAll(resp.Body)
	if err != nil {
		return ext6Resp{St: -1, Err: "body: " + err.Error()}
	}
	return ext6Resp{St: resp.StatusCode, Body: body, Hdr: resp.Header}
}

func ext6Gunzip(b []byte) (string, bool) {
	zr, err := gzip.NewReader(bytes.NewReader(b))
	if err != nil {
		return "", false
	}
	out, err := io.ReadAll(zr)
	if err != nil {
		return "", false
	}
	return string(out), true
}

// classify names the body by comparing it with everything the world can serve.
func (w *ext6World) classify(body []byte) string {
	s := string(body)
	switch s {
	case "":
		return "empty"
	case agdhttp.RobotsDisallowAll:
		return "robots"
	case "404 page not found\n":
		return "plain404"
	case ext6Page404:
		return "page404"
	case ext6Page500:
		return "page500"
	case ext6DCBody:
		return "dnscheck"
	case ext6StaticRobots:
		return "static:robots"
	case "<a href=\"" + strings.ReplaceAll(ext6Redirect, "&", "&amp;") + "\">Found</a>.\n\n":
		return "redirect"
	}
	for _, f := range ext6Static {
		if s == f.body {
			return "static:" + f.class
		}
	}
	for name, c := range w.content {
		if s == c {
			return "block:" + name
		}
	}
	if un, ok := ext6Gunzip(body); ok {
		for name, c := range w.content {
			if un == c {
				return "blockgz:" + name
			}
		}
		return "gzip-of-unknown"
	}
	if len(s) > 40 {
		s = s[:40]
	}
	return "other:" + s
}

func ext6Hdrs(h http.Header) []string {
	res := []string{}
	add := func(cond bool, name string) {
		if cond {
			res = append(res, name)
		}
	}
	if v, ok := h["Server"]; ok {
		add(len(v) == 1 && v[0] == agdhttp.UserAgent(), "server")
		add(!(len(v) == 1 && v[0] == agdhttp.UserAgent()), "server_wrong")
	}
	if v := h.Get("Location"); v != "" {
		add(v == ext6Redirect, "location")
		add(v != ext6Redirect, "location_wrong")
	}
	if v := h.Get("Content-Encoding"); v != "" {
		add(v == "gzip", "gzip")
		add(v != "gzip", "encoding_other")
	}
	add(h.Get("X-Custom") == "1", "xcustom")
	add(h.Get("X-Dc") != "", "xdc")
	add(h.Get("X-Content-Type-Options") == "nosniff", "nosniff")
	sort.Strings(res)
	return res
}

var ext6Paths = map[string][]string{
	"root":     {"/", "/?q=1"},
	"robots":   {"/robots.txt", "/robots.txt?x=/other", "/%72obots.txt"},
	"dnscheck": {"/dnscheck/test", "/dnscheck/test?id=abcd-1234", "/dnscheck%2Ftest"},
	"favicon":  {"/favicon.ico", "/favicon.ico?v=2"},
	"octet":    {"/file.bin", "/file.bin?download"},
	"html":     {"/page.html"},
	"nohdr":    {"/notype"},
	"miss": {"/nothing", "/a/b/c", "/dns-query", "/linkip/dev/enc/extra/more", "/index.html", "/static/page.html",
		"/favicon.png", "/apple-touch-icon.png", "/sitemap.xml", "/.well-known/security.txt", "/humans.txt"},
	"near": {"/robots.txt/", "/Robots.txt", "/ROBOTS.TXT", "/dnscheck/test/", "/dnscheck", "/dnscheck/Test", "//",
		"/favicon.ico/", "/Favicon.ico", "/file.bin/", "//robots.txt", "/./robots.txt", "/page.html/", "/PAGE.HTML",
		"/dnscheck/test/x", "/robots.txt%20", "/favicon", "/robots", "/favicon.ico.bak", "/dnscheck/test.json"},
}

var ext6PathOrder = []string{"root", "robots", "dnscheck", "favicon", "octet", "html", "nohdr", "miss", "near"}

var ext6AE = map[string]string{
	"none": "", "gzip": "gzip", "multi": "deflate, gzip;q=0.5, br", "q0": "gzip;q=0", "other": "br, deflate",
	"upper": "GZIP", "ident": "identity",
}

var ext6AEOrder = []string{"none", "gzip", "multi", "q0", "other", "upper", "ident"}

var ext6Methods = []string{"GET", "HEAD", "POST", "PUT", "DELETE", "OPTIONS"}

type ext6Line struct {
	Ev     string   `json:"ev"`
	Conf   ext6Conf `json:"conf"`
	Lst    string   `json:"lst"`
	Via    string   `json:"via"`
	M      string   `json:"m"`
	P      string   `json:"p"`
	Raw    string   `json:"raw"`
	AE     string   `json:"ae"`
	St     int      `json:"st"`
	Body   string   `json:"body"`
	CT     string   `json:"ct"`
	Hdr    []string `json:"hdr"`
	Target string   `json:"target"`
	Err    string   `json:"err"`
}

func (w *ext6World) request(out *vhOut, lst, via, m, pclass, raw, ae string) {
	addr := w.addr[lst]
	if via == "tls" {
		addr = w.addr["webtls"]
	}
	hdrs := map[string]string{}
	if v := ext6AE[ae]; v != "" {
		hdrs["Accept-Encoding"] = v
	}
	d0, s0 := w.dc.n.Load(), w.st.n.Load()
	r := ext6Raw(addr.String(), via == "tls", m, raw, hdrs)
	d1, s1 := w.dc.n.Load(), w.st.n.Load()
	target := "none"
	switch {
	case d1 != d0 && s1 != s0:
		target = "both"
	case d1 != d0:
		target = "dnscheck"
	case s1 != s0:
		target = "static"
	}
	ln := ext6Line{Ev: "Req", Conf: w.conf, Lst: lst, Via: via, M: m, P: pclass, Raw: raw, AE: ae, St: r.St, Target: target,
		Err: r.Err, Hdr: []string{}}
	if r.St >= 0 {
		ln.Body = w.classify(r.Body)
		ln.CT = r.Hdr.Get("Content-Type")
		ln.Hdr = ext6Hdrs(r.Hdr)
	}
	out.Emit(ln)
}

func TestVerifEXT6Table(t *testing.T) {
	out := vhOpen(t)
	rng := mrand.New(mrand.NewSource(vhSeed()))
	th := vhThorough()
	tlsConf := ext6SelfSigned(t)
	var confs []ext6Conf
	for _, sc := range []string{"none", "map", "maprobots"} {
		for _, dc := range []string{"ok200", "nf404", "err500"} {
			for mask := 0; mask < 8; mask++ {
				confs = append(confs, ext6Conf{Redir: mask&1 != 0, E404: mask&2 != 0, E500: mask&4 != 0, DC: dc, SC: sc})
			}
		}
	}
	pick := func(class string) []string {
		all := ext6Paths[class]
		if th {
			return all
		}
		return []string{all[rng.Intn(len(all))]}
	}
	blockNames := []string{"safe", "adult", "general"}
	allNames := []string{"web", "webtls", "safe", "adult", "general", "linkip"}
	for ci, conf := range confs {
		w := newExt6World(t, conf, tlsConf, blockNames)
		if err := w.svc.Refresh(context.Background()); err != nil {
			t.Fatalf("refresh: %v", err)
		}
		upNow := w.start(allNames)
		if len(upNow) != len(allNames) {
			t.Fatalf("servers did not come up: %v", upNow)
		}
		// the web handler on the plain listener: the complete product
		for _, m := range ext6Methods {
			for _, pc := range ext6PathOrder {
				for _, raw := range pick(pc) {
					ae := "none"
					if rng.Intn(4) == 0 {
						ae = ext6AEOrder[rng.Intn(len(ext6AEOrder))]
					}
					w.request(out, "web", "plain", m, pc, raw, ae)
					if th || rng.Intn(8) == 0 {
						w.request(out, "web", "tls", m, pc, raw, ae)
					}
				}
			}
		}
		// the block-page and linked-IP listeners do not depend on these settings
		if th || ci%24 == int(vhSeed())%24 || ci == 0 {
			for _, lst := range blockNames {
				for _, m := range ext6Methods {
					for _, pc := range ext6PathOrder {
						for _, raw := range pick(pc) {
							for _, ae := range ext6AEOrder {
								if !th && ae != "none" && ae != "gzip" && rng.Intn(3) != 0 {
									continue
								}
								w.request(out, lst, "plain", m, pc, raw, ae)
							}
						}
					}
				}
			}
			for _, m := range ext6Methods {
				for _, pc := range []string{"root", "robots", "favicon", "octet", "html", "miss", "near"} {
					for _, raw := range pick(pc) {
						w.request(out, "linkip", "plain", m, pc, raw, "none")
					}
				}
			}
		}
		ret, still := w.shutdown(allNames)
		out.Emit(map[string]any{"ev": "Down", "ret": ret, "up": still})
		w.close()
	}
	// a nil *Service is a handler as well (the DoH servers use it when no web
	// configuration is present)
	{
		w := newExt6World(t, ext6Conf{DC: "ok200", SC: "none"}, tlsConf, nil)
		ln, err := net.Listen("tcp", w.addr["nilsvc"].String())
		if err != nil {
			t.Fatal(err)
		}
		w.nilSrv = &http.Server{Handler: (*Service)(nil)}
		go func() { _ = w.nilSrv.Serve(ln) }()
		for _, m := range ext6Methods {
			for _, pc := range ext6PathOrder {
				for _, raw := range ext6Paths[pc] {
					w.request(out, "nilsvc", "plain", m, pc, raw, "none")
				}
			}
		}
		var nilSvc *Service
		ctx := context.Background()
		out.Emit(map[string]any{"ev": "Nil", "start": fmt.Sprint(nilSvc.Start(ctx)), "refresh": fmt.Sprint(nilSvc.Refresh(ctx)),
			"shutdown": fmt.Sprint(nilSvc.Shutdown(ctx)), "new": New(nil) == nil})
		w.close()
	}
	// observations, no verdict: the configuration comment does not say whether
	// DNSCheck may be nil (cmd leaves it nil when the checker is no http.Handler)
	{
		w := newExt6World(t, ext6Conf{DC: "ok200", SC: "map"}, tlsConf, nil)
		w.svc.dnsCheck = nil
		names := []string{"web", "webtls", "linkip"}
		w.start(names)
		r := ext6Raw(w.addr["web"].String(), false, "GET", "/dnscheck/test", nil)
		r2 := ext6Raw(w.addr["web"].String(), false, "GET", "/file.bin", nil)
		out.Emit(map[string]any{"ev": "Obs", "what": "GET /dnscheck/test on a service whose DNSCheck handler is nil",
			"st": r.St, "err": r.Err, "next_st": r2.St})
		w.shutdown(names)
		w.close()
	}
}

// ------------------------------------------------------------------ block pages

type ext6BPStep struct {
	A string `json:"a"`
	S string `json:"s"`
	V int    `json:"v"`
}

type ext6Seen struct {
	S     string `json:"s"`
	Plain int    `json:"plain"`
	Gz    int    `json:"gz"`
	St    int    `json:"st"`
}

// ext6ServeDirect asks the handler of a block-page server directly (the
// servers need not be started).
func ext6ServeDirect(h http.Handler, gz bool) (int, []byte, http.Header) {
	r := httptest.NewRequest(http.MethodGet, "/blocked", nil)
	if gz {
		r.Header.Set("Accept-Encoding", "gzip")
	}
	rec := httptest.NewRecorder()
	h.ServeHTTP(rec, r)
	return rec.Code, rec.Body.Bytes(), rec.Header()
}

func (w *ext6World) handlerOf(name string) http.Handler {
	var srvs []*http.Server
	switch name {
	case "safe":
		srvs = w.svc.safeBrowsing
	case "adult":
		srvs = w.svc.adultBlocking
	case "general":
		srvs = w.svc.generalBlocking
	}
	if len(srvs) == 0 {
		return nil
	}
	return srvs[0].Handler
}

// version names what a body is: k for the complete version k, 0 empty, -1 torn
// (neither empty nor a complete version), -2 compressed answer without the header.
func ext6Version(name string, body []byte, gz bool, maxV int) int {
	s := string(body)
	if gz {
		un, ok := ext6Gunzip(body)
		if !ok {
			if len(body) == 0 {
				return 0
			}
			return -1
		}
		s = un
	}
	if s == "" {
		return 0
	}
	// the version the body claims to be, then the complete comparison
	i := strings.Index(s, " v")
	j := strings.Index(s, "</title>")
	v := 0
	if i > 0 && j > i {
		fmt.Sscanf(s[i+2:j], "%d", &v)
	}
	if v >= 1 && v <= maxV && s == ext6BlockContent(name, v) {
		return v
	}
	return -1
}

func (w *ext6World) seen(names []string, maxV int) []ext6Seen {
	res := []ext6Seen{}
	for _, n := range names {
		h := w.handlerOf(n)
		if h == nil {
			continue
		}
		st, b, _ := ext6ServeDirect(h, false)
		_, bz, hz := ext6ServeDirect(h, true)
		gzv := ext6Version(n, bz, true, maxV)
		if hz.Get("Content-Encoding") != "gzip" {
			gzv = -2
		}
		res = append(res, ext6Seen{S: n, Plain: ext6Version(n, b, false, maxV), Gz: gzv, St: st})
	}
	return res
}

func TestVerifEXT6BlockPage(t *testing.T) {
	out := vhOpen(t)
	var worlds []struct {
		Conf  []string     `json:"conf"`
		Steps []ext6BPStep `json:"steps"`
	}
	vhReadJSON(t, os.Getenv("VERIF_IN"), &worlds)
	tlsConf := ext6SelfSigned(t)
	names := []string{"adult", "general", "safe"}
	const maxV = 9
	for _, wd := range worlds {
		w := newExt6World(t, ext6Conf{DC: "ok200", SC: "none"}, tlsConf, wd.Conf)
		// New does not read the files; start from "no file"
		for _, n := range wd.Conf {
			os.Remove(filepath.Join(w.dir, n+".html"))
		}
		listeners := append([]string{"web", "webtls", "linkip"}, wd.Conf...)
		sort.Strings(listeners)
		conf := append([]string{}, wd.Conf...)
		sort.Strings(conf)
		out.Emit(map[string]any{"ev": "Reset", "conf": conf, "seen": w.seen(names, maxV)})
		for _, st := range wd.Steps {
			path := filepath.Join(w.dir, st.S+".html")
			switch st.A {
			case "Write":
				tmp := path + ".tmp"
				if err := os.WriteFile(tmp, []byte(ext6BlockContent(st.S, st.V)), 0o600); err != nil {
					t.Fatal(err)
				}
				if err := os.Rename(tmp, path); err != nil {
					t.Fatal(err)
				}
				out.Emit(map[string]any{"ev": "Write", "s": st.S, "v": st.V})
			case "Remove":
				os.Remove(path)
				out.Emit(map[string]any{"ev": "Remove", "s": st.S})
			case "Refresh":
				var err error
				pan := ""
				func() {
					defer func() {
						if p := recover(); p != nil {
							pan = fmt.Sprint(p)
						}
					}()
					err = w.svc.Refresh(context.Background())
				}()
				ret, msg := "ok", ""
				if pan != "" {
					ret, msg = "panic", pan
				}
				failed := []string{}
				if err != nil {
					ret, msg = "err", err.Error()
					for short, long := range map[string]string{"adult": adultBlockingName, "general": generalBlockingName, "safe": safeBrowsingName} {
						if strings.Contains(msg, "refreshing "+long+" block page server") {
							failed = append(failed, short)
						}
					}
					sort.Strings(failed)
				}
				out.Emit(map[string]any{"ev": "Refresh", "ret": ret, "failed": failed, "err": msg, "seen": w.seen(names, maxV)})
			case "Start":
				up := w.start(listeners)
				out.Emit(map[string]any{"ev": "Start", "up": up, "want": listeners})
			case "Shutdown":
				ret, up := w.shutdown(listeners)
				out.Emit(map[string]any{"ev": "Shutdown", "ret": ret, "up": up})
			case "RefreshRead", "RefreshSwap", "RefreshDone":
				// parts of the Refresh call already executed
			default:
				t.Fatalf("unknown step %q", st.A)
			}
		}
		out.Emit(map[string]any{"ev": "End"})
		w.close()
	}
}

// TestVerifEXT6BlockPageConc: readers against the handlers while Refresh swaps
// versions.  Each read is recorded with the number of refreshes completed
// before it started (v0) and started before it ended (v1).
func TestVerifEXT6BlockPageConc(t *testing.T) {
	out := vhOpen(t)
	nRefresh := vhEnvInt("VERIF_NREFRESH", 60)
	keep := vhEnvInt("VERIF_KEEPREADS", 400)
	tlsConf := ext6SelfSigned(t)
	names := []string{"adult", "general", "safe"}
	w := newExt6World(t, ext6Conf{DC: "ok200", SC: "none"}, tlsConf, names)
	defer w.close()
	if err := w.svc.Refresh(context.Background()); err != nil {
		t.Fatal(err)
	}
	out.Emit(map[string]any{"ev": "ConcReset", "n": nRefresh})
	var started, completed, total atomic.Int64
	var stop atomic.Bool
	var wg sync.WaitGroup
	var mu sync.Mutex
	kept := 0
	for g := 0; g < 6; g++ {
		wg.Add(1)
		go func(g int) {
			defer wg.Done()
			name := names[g%3]
			h := w.handlerOf(name)
			for n := 0; !stop.Load(); n++ {
				gz := (g+n)%2 == 0
				v0 := completed.Load()
				_, b, _ := ext6ServeDirect(h, gz)
				v1 := started.Load()
				total.Add(1)
				ver := ext6Version(name, b, gz, nRefresh+2)
				overlap := v0 != v1
				mu.Lock()
				if overlap || kept < keep {
					kept++
					mu.Unlock()
					out.Emit(map[string]any{"ev": "ConcRead", "s": name, "gz": gz, "ver": ver, "v0": v0 + 1, "v1": v1 + 1})
				} else {
					mu.Unlock()
				}
			}
		}(g)
	}
	for k := 1; k <= nRefresh; k++ {
		for _, n := range names {
			path := filepath.Join(w.dir, n+".html")
			tmp := path + ".tmp"
			_ = os.WriteFile(tmp, []byte(ext6BlockContent(n, k+1)), 0o600)
			_ = os.Rename(tmp, path)
		}
		started.Add(1)
		if err := w.svc.Refresh(context.Background()); err != nil {
			t.Fatal(err)
		}
		completed.Add(1)
		n0, t0 := total.Load(), time.Now()
		for total.Load() < n0+20 && time.Since(t0) < 20*time.Second {
			time.Sleep(100 * time.Microsecond)
		}
	}
	stop.Store(true)
	wg.Wait()
	out.Emit(map[string]any{"ev": "ConcEnd", "n": nRefresh, "total": total.Load()})
}
