//go:build verif

package websvc

// C19 recorder.  Every vector (method, raw path, header set) is sent as a RAW
// HTTP/1.1 request over a TCP socket -- no client-side path cleaning -- to the
// real linkedIPHandler served by net/http exactly as websvc.New mounts it, with
// a recording backend behind it.  One NDJSON line per request; TLC
// (TraceLinkedIP.tla) decides.

import (
	"bufio"
	"fmt"
	"math/rand"
	"net"
	"net/http"
	"net/http/httptest"
	"net/url"
	"strings"
	"sync"
	"testing"
	"time"

	"github.com/AdguardTeam/AdGuardDNS/internal/agdtest"
)

type c19Backend struct {
	mu   sync.Mutex
	last *c19Seen
	n    int
}

type c19Seen struct {
	Method string
	Path   string // decoded
	Raw    string // RequestURI
	Hdr    http.Header
}

func (b *c19Backend) ServeHTTP(w http.ResponseWriter, r *http.Request) {
	b.mu.Lock()
	b.last = &c19Seen{Method: r.Method, Path: r.URL.Path, Raw: r.RequestURI, Hdr: r.Header.Clone()}
	b.n++
	n := b.n
	b.mu.Unlock()
	if n%4 == 0 && !strings.HasPrefix(r.URL.Path, "/internal/") {
		// a backend that answers with a redirection (a login page, a canonical host): the answer is the
		// client's business; the proxy has made its one request
		w.Header().Set("Location", "/internal/admin/devices")
		w.WriteHeader([]int{http.StatusFound, http.StatusMovedPermanently, http.StatusSeeOther, http.StatusTemporaryRedirect,
			http.StatusPermanentRedirect}[n/4%5])
		return
	}
	w.WriteHeader(http.StatusOK)
	_, _ = w.Write([]byte("backend"))
}

var c19Forged = []string{"X-Connecting-Ip", "X-Real-Ip", "X-Forwarded-For", "Forwarded", "Cf-Connecting-Ip",
	"True-Client-Ip"}

type c19Event struct {
	ID        int      `json:"id"`
	Method    string   `json:"method"`
	RawPath   string   `json:"rawpath"`
	Segs      []string `json:"segs"`
	Hdrs      []string `json:"hdrs"`
	Peer      string   `json:"peer"`
	Status    int      `json:"status"`
	Contacted bool     `json:"contacted"`
	BMethod   string   `json:"bmethod"`
	BRaw      string   `json:"braw"`
	BSegs     []string `json:"bsegs"`
	XConn     []string `json:"xconn"`
	Fwd       []string `json:"fwd"`
	Robots    bool     `json:"robots"`
}

func c19Split(p string) []string {
	p = strings.TrimPrefix(p, "/")
	if p == "" {
		return []string{}
	}
	return strings.Split(p, "/")
}

func TestVerifC19(t *testing.T) {
	out := vhOpen(t)
	rng := rand.New(rand.NewSource(vhSeed()))
	be := &c19Backend{}
	bsrv := httptest.NewServer(be)
	defer bsrv.Close()
	apiURL, _ := url.Parse(bsrv.URL)
	h := linkedIPHandler(apiURL, agdtest.NewErrorCollector(), "verif", 5*time.Second)
	ln, err := net.Listen("tcp", "127.0.0.1:0")
	if err != nil {
		t.Fatal(err)
	}
	srv := &http.Server{Handler: h, ReadTimeout: 5 * time.Second, WriteTimeout: 5 * time.Second}
	go func() { _ = srv.Serve(ln) }()
	defer srv.Close()

	methods := []string{"GET", "POST", "HEAD", "PUT", "DELETE", "OPTIONS"}
	// concretisations of the abstract alphabet
	conc := map[string][]string{
		"linkip": {"linkip"}, "ddns": {"ddns"}, "status": {"status"},
		"x":  {"abcd1234", "dev-1", "ENCRYPTED0123456789abcdef", "example.org", "Status", "LINKIP", "a%2Fb", "%41",
			// doubly encoded: after the one decoding the server performs these are ordinary segments "%2e%2e", "%2f"
			"%252e%252e", "%252E", "a%252fb"},
		"":   {""},
		".":  {".", "%2e", "%2E"},
		"..": {"..", "%2e%2e", ".%2E", "%2E."},
	}
	alphabet := []string{"linkip", "ddns", "status", "x", "", ".", ".."}
	type vec struct {
		method string
		abs    []string
	}
	var vecs []vec
	// complete product up to 4 segments and all 5-segment paths that start with
	// an API prefix; seeded sample of the rest in the quick tier
	var gen func(prefix []string, n int)
	gen = func(prefix []string, n int) {
		if len(prefix) == n {
			for _, m := range methods {
				vecs = append(vecs, vec{m, append([]string{}, prefix...)})
			}
			return
		}
		for _, a := range alphabet {
			gen(append(prefix, a), n)
		}
	}
	for n := 0; n <= 5; n++ {
		gen(nil, n)
	}
	budget := vhEnvInt("VERIF_N", 3000)
	if !vhThorough() && len(vecs) > budget {
		// always keep vectors that touch the API prefixes with GET/POST; sample the rest
		var keep, rest []vec
		for _, v := range vecs {
			api := len(v.abs) > 0 && (v.abs[0] == "linkip" || v.abs[0] == "ddns") && (v.method == "GET" || v.method == "POST") && len(v.abs) <= 4
			if api {
				keep = append(keep, v)
			} else {
				rest = append(rest, v)
			}
		}
		rng.Shuffle(len(rest), func(i, j int) { rest[i], rest[j] = rest[j], rest[i] })
		if len(keep) < budget {
			keep = append(keep, rest[:budget-len(keep)]...)
		}
		vecs = keep
	}
	// a few extra concrete oddities
	extra := []struct{ m, p string }{
		{"GET", "/robots.txt"}, {"GET", "/"}, {"GET", "/linkip/a/b?x=/../.."}, {"GET", "/linkip/a/b/status/"},
		{"POST", "/ddns/a/b/c/"}, {"GET", "//linkip/a/b"}, {"GET", "/linkip/a/b/status?../../x"},
		{"GET", "/linkip/%2e%2e/secret"}, {"GET", "/linkip/../secret"}, {"POST", "/ddns/../../secret/x"},
		{"GET", "/linkip/a/..%2f..%2fsecret"}, {"POST", "/linkip/a/%2e%2e"}, {"GET", "/LINKIP/a/b"},
		{"GET", "/linkip/a/b/STATUS"}, {"POST", "/ddns/a/b/.."},
		{"GET", "/linkip/%252e%252e/admin"}, {"POST", "/ddns/%252e%252e/%252e%252e/admin"}, {"GET", "///linkip/a/b"},
		{"POST", "///ddns/a/b/example.org"},
	}
	id := 0
	send := func(method, rawPath string, abs []string) {
		id++
		// header subset
		var hdrs []string
		for _, hn := range c19Forged {
			if rng.Intn(3) == 0 {
				hdrs = append(hdrs, hn)
			}
		}
		local := fmt.Sprintf("127.0.0.%d", 2+rng.Intn(200))
		d := net.Dialer{LocalAddr: &net.TCPAddr{IP: net.ParseIP(local)}, Timeout: 5 * time.Second}
		conn, derr := d.Dial("tcp", ln.Addr().String())
		if derr != nil {
			t.Fatal(derr)
		}
		defer conn.Close()
		be.mu.Lock()
		be.last = nil
		be.mu.Unlock()
		var sb strings.Builder
		// a client may also name headers in Connection to have a proxy strip them as hop-by-hop
		// (also spread over several field lines, the first of which may be empty)
		connLines := [][]string{{"close"}, {"close"}, {"close, X-Connecting-Ip"}, {"close, X-Connecting-IP, X-Request-Id"},
			{"X-Connecting-Ip, close"}, {"", "X-Connecting-Ip", "close"}, {" ", "X-Request-Id, X-Connecting-Ip", "close"},
			{"close", "X-Connecting-Ip"}}[rng.Intn(8)]
		connHdr := strings.Join(connLines, " | ")
		if connHdr != "close" {
			hdrs = append(hdrs, "Connection:"+connHdr)
		}
		fmt.Fprintf(&sb, "%s %s HTTP/1.1\r\nHost: verif.example\r\n", method, rawPath)
		for _, cl := range connLines {
			fmt.Fprintf(&sb, "Connection: %s\r\n", cl)
		}
		for _, hn := range hdrs {
			if strings.HasPrefix(hn, "Connection:") {
				continue
			}
			val := fmt.Sprintf("6.6.6.%d", 1+rng.Intn(200))
			if hn == "Forwarded" {
				val = "for=" + val
			}
			fmt.Fprintf(&sb, "%s: %s\r\n", hn, val)
			if hn == "X-Connecting-Ip" && rng.Intn(2) == 0 {
				fmt.Fprintf(&sb, "X-Connecting-IP: 7.7.7.7\r\n")
			}
		}
		if method == "POST" || method == "PUT" {
			sb.WriteString("Content-Length: 0\r\n")
		}
		sb.WriteString("\r\n")
		_ = conn.SetDeadline(time.Now().Add(10 * time.Second))
		if _, werr := conn.Write([]byte(sb.String())); werr != nil {
			t.Fatal(werr)
		}
		req, _ := http.NewRequest(method, "http://x/", nil)
		resp, rerr := http.ReadResponse(bufio.NewReader(conn), req)
		ev := c19Event{ID: id, Method: method, RawPath: rawPath, Hdrs: hdrs, Peer: local, BSegs: []string{},
			XConn: []string{}, Fwd: []string{}}
		if hdrs == nil {
			ev.Hdrs = []string{}
		}
		if rerr != nil {
			ev.Status = -1
		} else {
			ev.Status = resp.StatusCode
			body := make([]byte, 256)
			n, _ := resp.Body.Read(body)
			ev.Robots = strings.Contains(string(body[:n]), "Disallow")
			resp.Body.Close()
		}
		// what the server matched on: the percent-decoded path without query
		// (parsed the way any net/http server parses a request target; net/url
		// is trusted, it is not the code under test)
		pu, uerr := url.ParseRequestURI(rawPath)
		if uerr != nil {
			return // net/http answers 400 before the handler is reached
		}
		ev.Segs = c19Split(pu.Path)
		be.mu.Lock()
		if s := be.last; s != nil {
			ev.Contacted = true
			ev.BMethod = s.Method
			ev.BRaw = s.Raw
			ev.BSegs = c19Split(s.Path)
			ev.XConn = append(ev.XConn, s.Hdr.Values("X-Connecting-Ip")...)
			for _, hn := range []string{"X-Real-Ip", "X-Forwarded-For", "Forwarded", "Cf-Connecting-Ip", "True-Client-Ip"} {
				// X-Forwarded-For may legitimately be (re)written by the proxy itself
				// with the peer; only client-supplied (forged) values count.
				for _, v := range s.Hdr.Values(hn) {
					if strings.Contains(v, "6.6.6.") || strings.Contains(v, "7.7.7.") {
						ev.Fwd = append(ev.Fwd, hn)
					}
				}
			}
		}
		be.mu.Unlock()
		out.Emit(ev)
	}
	for _, v := range vecs {
		parts := make([]string, len(v.abs))
		for i, a := range v.abs {
			c := conc[a]
			parts[i] = c[rng.Intn(len(c))]
		}
		send(v.method, "/"+strings.Join(parts, "/"), v.abs)
	}
	for _, e := range extra {
		send(e.m, e.p, nil)
	}
}
