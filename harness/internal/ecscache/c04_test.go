//go:build verif

package ecscache

// C04 on the ECS-aware cache: same histories as for the simple cache, warm
// instance vs cold instance, virtual clock; clients sit in one of two regions
// (C05 owns the multi-client / ECS-option behaviour).

import (
	"context"
	"io"
	"log/slog"
	"math/rand"
	"net"
	"net/netip"
	"os"
	"strings"
	"testing"
	"time"

	"github.com/AdguardTeam/AdGuardDNS/internal/agd"
	"github.com/AdguardTeam/AdGuardDNS/internal/agdcache"
	"github.com/AdguardTeam/AdGuardDNS/internal/agdtest"
	"github.com/AdguardTeam/AdGuardDNS/internal/dnsmsg"
	"github.com/AdguardTeam/AdGuardDNS/internal/dnsserver"
	"github.com/AdguardTeam/AdGuardDNS/internal/geoip"
	"github.com/AdguardTeam/golibs/netutil"
	"github.com/bluele/gcache"
	"github.com/miekg/dns"
)

type c04RW struct{ msg *dns.Msg }

func (w *c04RW) LocalAddr() net.Addr  { return &net.UDPAddr{IP: net.IPv4(127, 0, 0, 1), Port: 53} }
func (w *c04RW) RemoteAddr() net.Addr { return &net.UDPAddr{IP: net.IPv4(10, 1, 2, 3), Port: 4000} }
func (w *c04RW) WriteMsg(_ context.Context, _, resp *dns.Msg) error {
	w.msg = resp.Copy()
	// A written response belongs to the writer: the real ones edit it in place
	// (OPT, padding, truncation) and hand its parts to the message pools.
	c04Scribble(resp)
	return nil
}

var c04Geo = map[string]netip.Prefix{
	"AU": netip.MustParsePrefix("1.2.0.0/16"),
	"BE": netip.MustParsePrefix("5.6.0.0/16"),
}

type c04Inst struct {
	h      dnsserver.Handler
	called *bool
}

func c04New(override bool, minTTL int) c04Inst {
	called := new(bool)
	up := dnsserver.HandlerFunc(func(ctx context.Context, rw dnsserver.ResponseWriter, req *dns.Msg) error {
		*called = true
		// the answer is a function of the question only (scope zero)
		return rw.WriteMsg(ctx, req, c04Upstream(req))
	})
	g := agdtest.NewGeoIP()
	g.OnSubnetByLocation = func(l *geoip.Location, fam netutil.AddrFamily) (netip.Prefix, error) {
		if p, ok := c04Geo[string(l.Country)]; ok && fam == netutil.AddrFamilyIPv4 {
			return p, nil
		}
		return netutil.ZeroPrefix(fam), nil
	}
	mw := NewMiddleware(&MiddlewareConfig{
		Cloner: agdtest.NewCloner(), Logger: slog.New(slog.NewTextHandler(io.Discard, nil)),
		CacheManager: agdcache.EmptyManager{}, GeoIP: g, MinTTL: time.Duration(minTTL) * time.Second,
		NoECSCount: 1000, ECSCount: 1000, OverrideTTL: override,
	})
	return c04Inst{h: mw.Wrap(up), called: called}
}

func (i c04Inst) ask(t *testing.T, q c04Q, id uint16) (a c04Ans, up bool) {
	*i.called = false
	rw := &c04RW{}
	req := c04Req(q, id)
	ri := &agd.RequestInfo{
		Location: &geoip.Location{Country: geoip.Country(q.Loc)},
		Host:     strings.ToLower(strings.TrimSuffix(q.Name, ".")),
		RemoteIP: netip.MustParseAddr("10.1.2.3"),
		QType:    q.QType,
		QClass:   q.QClass,
	}
	if q.AD == q.DO && id%2 == 0 {
		// the client sent an ECS option of its own (the subnet of its own region): the answer echoes it
		if pr, ok := c04Geo[q.Loc]; ok {
			ri.ECS = &dnsmsg.ECS{Location: ri.Location, Subnet: pr, Scope: 0}
		}
	}
	ctx := agd.ContextWithRequestInfo(context.Background(), ri)
	// the server stamps every request with its time of ARRIVAL; the cache's clock is the time of
	// processing, which may be later (worker queue, rate limiting, filtering)
	ctx = dnsserver.ContextWithRequestInfo(ctx, &dnsserver.RequestInfo{
		StartTime: VerifNow().Add(-[]time.Duration{0, 250 * time.Millisecond, 2 * time.Second, 5 * time.Second}[int(id)%4])})
	if err := i.h.ServeDNS(ctx, rw, req); err != nil {
		t.Fatalf("ServeDNS: %v", err)
	}
	return c04Digest(rw.msg), *i.called
}

func c04RunHistory(t *testing.T, out *vhOut, beh int, steps []c04Step, override bool, minTTL int) {
	clk := &c04Clock{}
	VerifNow = clk.Now
	gcache.VerifNow = clk.Now
	warm := c04New(override, minTTL)
	empty := c04Ans{TTLs: []int{}}
	out.Emit(c04Event{Ev: "Reset", Cache: "ecs", Override: override, MinTTL: minTTL, Beh: beh, Fresh: empty, Got: empty})
	id := uint16(100)
	for _, s := range steps {
		switch s.A {
		case "Tick":
			clk.q += s.D
			out.Emit(c04Event{Ev: "Tick", D: s.D, Now: clk.q, Beh: beh, Fresh: empty, Got: empty})
		case "Query":
			q := s.Q
			if q == nil {
				qq := c04Abstract(s.K)
				q = &qq
			}
			id++
			fresh, _ := c04New(override, minTTL).ask(t, *q, id)
			// what the upstream returns for the request the middleware forwards
			// (DNSSEC records are stripped for non-DO clients before caching)
			rawUp := c04Upstream(c04Req(*q, id))
			if !q.DO {
				rmHopToHopData(rawUp, q.QType, false)
			}
			cacheable, life := c04Oracle(rawUp, override, minTTL)
			got, up := warm.ask(t, *q, id)
			out.Emit(c04Event{Ev: "Query", Now: clk.q, Key: c04Key(*q, false), Q: *q, Up: up, Cacheable: cacheable,
				Life: life, Fresh: fresh, Got: got, Beh: beh, Cache: "ecs"})
		}
	}
}

func TestVerifC04ECS(t *testing.T) {
	out := vhOpen(t)
	c04DigestOPT = true
	rng := rand.New(rand.NewSource(vhSeed() + 1000))
	beh := 0
	if p := os.Getenv("VERIF_IN"); p != "" {
		var behs [][]c04Step
		vhReadJSON(t, p, &behs)
		for _, b := range behs {
			c04RunHistory(t, out, beh, b, false, 0)
			beh++
		}
	}
	n := vhEnvInt("VERIF_NRANDOM", 100)
	for i := 0; i < n; i++ {
		override := rng.Intn(3) == 0
		c04RunHistory(t, out, beh, c04RandomHistory(rng, []string{"AU", "BE"}), override, 1+rng.Intn(8))
		beh++
	}
}

