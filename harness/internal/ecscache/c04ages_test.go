//go:build verif

package ecscache

// C04, ECS cache, the item-level part (unexported functions; kept apart from
// the middleware-level harness, see the simple cache's counterpart).

import (
	"testing"

	"github.com/AdguardTeam/AdGuardDNS/internal/agdtest"
	"github.com/bluele/gcache"
	"github.com/miekg/dns"
)

// TestVerifC04ECSAges: fromCacheItem at every age from 0 to ttl in quarter seconds.
func TestVerifC04ECSAges(t *testing.T) {
	out := vhOpen(t)
	clk := &c04Clock{}
	VerifNow = clk.Now
	gcache.VerifNow = clk.Now
	cloner := agdtest.NewCloner()
	empty := c04Ans{TTLs: []int{}}
	beh := 0
	for _, name := range []string{"a.1.k.example.", "a.2.k.example.", "c.3.k.example.", "n.2.k.example.", "x.1.k.example.", "g.3.k.example."} {
		q := c04Q{Name: name, QType: dns.TypeA, QClass: dns.ClassINET, Loc: "AU"}
		req := c04Req(q, 7)
		resp := c04Upstream(req)
		cacheable, life := c04Oracle(resp, false, 0)
		fresh := c04Digest(resp)
		out.Emit(c04Event{Ev: "Reset", Cache: "ecs-item", Beh: beh, Fresh: empty, Got: empty})
		clk.q = 0
		item := toCacheItem(cloner.Clone(resp), "host")
		out.Emit(c04Event{Ev: "Query", Now: 0, Key: c04Key(q, false), Q: q, Up: true, Cacheable: cacheable, Life: life,
			Fresh: fresh, Got: fresh, Beh: beh, Cache: "ecs-item"})
		for age := 0; age <= life*4; age++ {
			clk.q = age
			got := c04Digest(fromCacheItem(item, cloner, req, false))
			out.Emit(c04Event{Ev: "Query", Now: age, Key: c04Key(q, false), Q: q, Up: false, Cacheable: cacheable, Life: life,
				Fresh: fresh, Got: got, Beh: beh, Cache: "ecs-item"})
			out.Emit(c04Event{Ev: "Tick", D: 1, Now: age + 1, Beh: beh, Fresh: empty, Got: empty})
		}
		beh++
	}
}
