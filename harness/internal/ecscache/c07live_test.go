//go:build verif

package ecscache

// C07 at the level of the ECS cache: "recycling never lets a message that is
// still in use be overwritten, and releasing one message never alters
// another", with the production cloner shared by the middleware and by the
// one who releases the responses (the server does, after writing them).  The
// responses the middleware hands to the writer are kept in use for a while
// (as a DoH / DoQ server does until it has serialised them) and are released
// in a random order; every step records the addresses of the poolable parts
// of the response (the message, its address records, its OPT record, the
// client-subnet option and the array behind the option's address) and the
// messages in use whose content changed.  TraceMsgPool.tla judges the
// history: no two messages in use own the same object, nothing in use changes.

import (
	"context"
	"fmt"
	"log/slog"
	"io"
	"math/rand"
	"net"
	"net/netip"
	"strings"
	"testing"
	"unsafe"

	"github.com/AdguardTeam/AdGuardDNS/internal/agd"
	"github.com/AdguardTeam/AdGuardDNS/internal/agdcache"
	"github.com/AdguardTeam/AdGuardDNS/internal/agdtest"
	"github.com/AdguardTeam/AdGuardDNS/internal/dnsmsg"
	"github.com/AdguardTeam/AdGuardDNS/internal/dnsserver"
	"github.com/AdguardTeam/AdGuardDNS/internal/geoip"
	"github.com/AdguardTeam/golibs/netutil"
	"github.com/miekg/dns"
)

type c07LEvent struct {
	Ev      string   `json:"ev"`
	Beh     int      `json:"beh"`
	M       string   `json:"m"`
	Src     string   `json:"src"`
	Objs    []string `json:"objs"`
	Damaged []string `json:"damaged"`
	Equal   bool     `json:"equal"`
	What    string   `json:"what"`
}

type c07LRW struct{ msg *dns.Msg }

func (w *c07LRW) LocalAddr() net.Addr  { return &net.UDPAddr{IP: net.IPv4(127, 0, 0, 1), Port: 53} }
func (w *c07LRW) RemoteAddr() net.Addr { return &net.UDPAddr{IP: net.IPv4(10, 1, 2, 3), Port: 4000} }
func (w *c07LRW) WriteMsg(_ context.Context, _, resp *dns.Msg) error {
	w.msg = resp
	return nil
}

func c07LAddr(p unsafe.Pointer) string { return fmt.Sprintf("%x", uintptr(p)) }

// c07LObjs lists the addresses of everything in m that a pool may hand out again.
func c07LObjs(m *dns.Msg) (objs []string) {
	add := func(p unsafe.Pointer) {
		if p != nil {
			objs = append(objs, c07LAddr(p))
		}
	}
	add(unsafe.Pointer(m))
	for _, rrs := range [][]dns.RR{m.Answer, m.Ns, m.Extra} {
		for _, rr := range rrs {
			switch rr := rr.(type) {
			case *dns.A:
				add(unsafe.Pointer(rr))
				if len(rr.A) > 0 {
					add(unsafe.Pointer(&rr.A[0]))
				}
			case *dns.AAAA:
				add(unsafe.Pointer(rr))
				if len(rr.AAAA) > 0 {
					add(unsafe.Pointer(&rr.AAAA[0]))
				}
			case *dns.OPT:
				add(unsafe.Pointer(rr))
				for _, o := range rr.Option {
					if sn, ok := o.(*dns.EDNS0_SUBNET); ok {
						add(unsafe.Pointer(sn))
						if len(sn.Address) > 0 {
							add(unsafe.Pointer(&sn.Address[0]))
						}
					}
				}
			}
		}
	}
	return objs
}

// c07LSnap is the content of m as it is in memory (the address of a client-subnet option byte for byte: packing
// would mask it to the prefix length).
func c07LSnap(m *dns.Msg) string {
	var sb strings.Builder
	fmt.Fprintf(&sb, "%+v|", m.MsgHdr)
	for _, q := range m.Question {
		fmt.Fprintf(&sb, "Q%s/%d/%d|", q.Name, q.Qtype, q.Qclass)
	}
	for si, rrs := range [][]dns.RR{m.Answer, m.Ns, m.Extra} {
		for _, rr := range rrs {
			if o, ok := rr.(*dns.OPT); ok {
				fmt.Fprintf(&sb, "%d:OPT %d %v", si, o.UDPSize(), o.Do())
				for _, e := range o.Option {
					if sn, ok := e.(*dns.EDNS0_SUBNET); ok {
						fmt.Fprintf(&sb, " ecs%d/%d/%d/%x", sn.Family, sn.SourceNetmask, sn.SourceScope, []byte(sn.Address))
					} else {
						fmt.Fprintf(&sb, " %d:%s", e.Option(), e.String())
					}
				}
				sb.WriteString("|")
				continue
			}
			fmt.Fprintf(&sb, "%d:%s|", si, rr.String())
		}
	}
	return sb.String()
}

func TestVerifC07EcsLive(t *testing.T) {
	out := vhOpen(t)
	rng := rand.New(rand.NewSource(vhSeed()*131 + 7))
	nbeh := vhEnvInt("VERIF_NBEH", 20)
	nsteps := vhEnvInt("VERIF_NSTEPS", 60)
	for beh := 0; beh < nbeh; beh++ {
		out.Emit(c07LEvent{Ev: "Reset", Beh: beh, Objs: []string{}, Damaged: []string{}})
		cloner := dnsmsg.NewCloner(dnsmsg.EmptyClonerStat{})
		g := agdtest.NewGeoIP()
		g.OnSubnetByLocation = func(l *geoip.Location, fam netutil.AddrFamily) (netip.Prefix, error) {
			if l != nil && l.Country == "AU" {
				if fam == netutil.AddrFamilyIPv6 {
					return netip.MustParsePrefix("2a00:1::/32"), nil
				}
				return netip.MustParsePrefix("1.2.0.0/16"), nil
			}
			return netutil.ZeroPrefix(fam), nil
		}
		up := dnsserver.HandlerFunc(func(ctx context.Context, rw dnsserver.ResponseWriter, req *dns.Msg) error {
			resp := new(dns.Msg).SetReply(req)
			resp.RecursionAvailable = true
			name := req.Question[0].Name
			resp.Answer = append(resp.Answer, &dns.A{Hdr: dns.RR_Header{Name: name, Rrtype: dns.TypeA, Class: dns.ClassINET, Ttl: 300},
				A: net.IPv4(192, 0, 2, byte(len(name))).To4()})
			if o := req.IsEdns0(); o != nil {
				resp.SetEdns0(1232, o.Do())
				for _, e := range o.Option {
					if sn, ok := e.(*dns.EDNS0_SUBNET); ok && strings.HasPrefix(name, "s") {
						// a scoped answer
						resp.IsEdns0().Option = append(resp.IsEdns0().Option, &dns.EDNS0_SUBNET{Code: dns.EDNS0SUBNET, Family: sn.Family,
							SourceNetmask: sn.SourceNetmask, SourceScope: sn.SourceNetmask, Address: append(net.IP{}, sn.Address...)})
					}
				}
			}
			return rw.WriteMsg(ctx, req, resp)
		})
		h := dnsserver.WithMiddlewares(up, NewMiddleware(&MiddlewareConfig{
			Cloner: cloner, Logger: slog.New(slog.NewTextHandler(io.Discard, nil)), CacheManager: agdcache.EmptyManager{},
			GeoIP: g, NoECSCount: 100, ECSCount: 100,
		}))
		type liveMsg struct {
			id   string
			m    *dns.Msg
			snap string
		}
		var live []*liveMsg
		damaged := func() (d []string) {
			d = []string{}
			for _, x := range live {
				if c07LSnap(x.m) != x.snap {
					d = append(d, x.id)
				}
			}
			return d
		}
		for step := 0; step < nsteps; step++ {
			if len(live) > 0 && (rng.Intn(3) == 0 || len(live) > 6) {
				// the one who wrote the response releases it
				k := rng.Intn(len(live))
				x := live[k]
				live = append(live[:k], live[k+1:]...)
				cloner.Dispose(x.m)
				out.Emit(c07LEvent{Ev: "Dispose", Beh: beh, M: x.id, Objs: []string{}, Damaged: damaged(), What: "release"})
				continue
			}
			client := rng.Intn(4)
			ctry := []geoip.Country{"AU", "", "AU", ""}[client]
			name := fmt.Sprintf("%s%d.c07.example.", []string{"s", "n"}[rng.Intn(2)], rng.Intn(5))
			req := new(dns.Msg).SetQuestion(name, dns.TypeA)
			req.Id = uint16(rng.Intn(65536))
			ri := &agd.RequestInfo{Location: &geoip.Location{Country: ctry}, Host: strings.TrimSuffix(name, "."), QType: dns.TypeA, QClass: dns.ClassINET,
				RemoteIP: netip.AddrFrom4([4]byte{198, 51, 100, byte(10 + client)})}
			what := "no option"
			switch rng.Intn(5) {
			case 0:
				req.SetEdns0(1232, rng.Intn(2) == 0)
				what = "OPT only"
			case 1:
				// the client declines the use of its subnet
				req.SetEdns0(1232, false)
				req.IsEdns0().Option = append(req.IsEdns0().Option, &dns.EDNS0_SUBNET{Code: dns.EDNS0SUBNET, Family: 1, Address: net.IPv4zero.To4()})
				ri.ECS = &dnsmsg.ECS{Subnet: netip.MustParsePrefix("0.0.0.0/0")}
				what = "declined v4"
			case 2:
				req.SetEdns0(1232, false)
				req.IsEdns0().Option = append(req.IsEdns0().Option, &dns.EDNS0_SUBNET{Code: dns.EDNS0SUBNET, Family: 2, Address: net.IPv6zero})
				ri.ECS = &dnsmsg.ECS{Subnet: netip.MustParsePrefix("::/0")}
				what = "declined v6"
			case 3:
				req.SetEdns0(1232, false)
				a := net.IPv4(203, 0, byte(113+client), 0).To4()
				req.IsEdns0().Option = append(req.IsEdns0().Option, &dns.EDNS0_SUBNET{Code: dns.EDNS0SUBNET, Family: 1, SourceNetmask: 24, Address: a})
				ri.ECS = &dnsmsg.ECS{Subnet: netip.PrefixFrom(netip.AddrFrom4([4]byte(a)), 24), Location: &geoip.Location{Country: ctry}}
				what = "subnet v4"
			}
			rw := &c07LRW{}
			ctx := agd.ContextWithRequestInfo(context.Background(), ri)
			if err := h.ServeDNS(ctx, rw, req); err != nil || rw.msg == nil {
				// a valid request that the cache fails to serve: no action of the specification explains that
				out.Emit(c07LEvent{Ev: "Failed", Beh: beh, M: fmt.Sprintf("m%d", step), Objs: []string{}, Damaged: damaged(),
					What: fmt.Sprintf("%s %s: %v", what, name, err)})
				continue
			}
			x := &liveMsg{id: fmt.Sprintf("m%d", step), m: rw.msg, snap: c07LSnap(rw.msg)}
			d := damaged()
			live = append(live, x)
			out.Emit(c07LEvent{Ev: "New", Beh: beh, M: x.id, Objs: c07LObjs(rw.msg), Damaged: d, What: what + " " + name})
		}
	}
}
