//go:build verif

package hashprefix

// C11, lock-free side.  The check rewrites every `s.hashSuffixes.Load()` of
// storage.go into verifLoadSuffixes(s), which calls VerifOnLoad first.  The
// harness makes the k-th load of ONE reader call execute a complete
// Storage.Reset to another list (the reader holds no lock, so this is exactly
// the interleaving "Reset lands between two steps of the reader"), for every k
// the call reaches.  Recorded: the answer, and the answers of the old and of
// the new list.  TLC (TraceHashSnapshot.tla) decides.

import (
	"crypto/sha256"
	"fmt"
	"math/rand"
	"reflect"
	"sort"
	"strings"
	"testing"
)

type c11SnapEvent struct {
	Ev       string   `json:"ev"`
	Reader   string   `json:"reader"`
	K        int      `json:"k"`
	Loads    int      `json:"loads"`
	Fired    bool     `json:"fired"`
	Panicked bool     `json:"panicked"`
	Panic    string   `json:"panic"`
	IsOld    bool     `json:"isold"`
	IsNew    bool     `json:"isnew"`
	Old      []string `json:"old"`
	New      []string `json:"new"`
	Got      []string `json:"got"`
	ListOld  []string `json:"list_old"`
	ListNew  []string `json:"list_new"`
	Query    string   `json:"query"`
}

func c11SnapNorm(s []string) []string {
	r := append([]string{}, s...)
	sort.Strings(r)
	return r
}

func TestVerifC11Snapshot(t *testing.T) {
	out := vhOpen(t)
	rng := rand.New(rand.NewSource(vhSeed()))
	rounds := vhEnvInt("VERIF_ROUNDS", 40)
	for round := 0; round < rounds; round++ {
		// two lists over one pool of names: some names in both, some in one only
		var pool []string
		for i := 0; i < 6+rng.Intn(8); i++ {
			pool = append(pool, fmt.Sprintf("n%d-%d.snap.c11.example", round, i))
		}
		pickList := func() (l []string) {
			for _, n := range pool {
				if rng.Intn(2) == 0 {
					l = append(l, n)
				}
			}
			return l
		}
		la, lb := pickList(), pickList()
		if rng.Intn(4) == 0 {
			lb = nil // the refresh empties the list
		}
		text := func(l []string) string { return strings.Join(l, "\n") + "\n" }
		// the query: prefixes of up to 4 names of the pool (a client asks for the names it is about to visit)
		rng.Shuffle(len(pool), func(i, j int) { pool[i], pool[j] = pool[j], pool[i] })
		qn := pool[:1+rng.Intn(4)]
		var prefs []Prefix
		for _, n := range qn {
			sum := sha256.Sum256([]byte(n))
			prefs = append(prefs, Prefix(sum[:PrefixLen]))
		}
		readers := map[string]func(s *Storage) []string{
			"Hashes": func(s *Storage) []string { return c11SnapNorm(s.Hashes(prefs)) },
			"Matches": func(s *Storage) []string {
				var r []string
				for _, n := range qn {
					r = append(r, fmt.Sprintf("%s=%v", n, s.Matches(n)))
				}
				return r
			},
		}
		for name, read := range readers {
			ref := func(l []string) []string {
				s, err := NewStorage(text(l))
				if err != nil {
					t.Fatal(err)
				}
				return read(s)
			}
			oldAns, newAns := ref(la), ref(lb)
			for k := 1; ; k++ {
				s, err := NewStorage(text(la))
				if err != nil {
					t.Fatal(err)
				}
				loads, fired, inHook := 0, false, false
				VerifOnLoad = func() {
					if inHook {
						return // the Reset's own load
					}
					loads++
					if loads == k {
						inHook, fired = true, true
						if _, rerr := s.Reset(text(lb)); rerr != nil {
							t.Errorf("reset: %v", rerr)
						}
						inHook = false
					}
				}
				ev := c11SnapEvent{Ev: "Snap", Reader: name, K: k, ListOld: la, ListNew: lb, Query: strings.Join(qn, ","), Old: oldAns, New: newAns}
				func() {
					defer func() {
						if v := recover(); v != nil {
							ev.Panicked, ev.Panic = true, fmt.Sprint(v)
						}
					}()
					if name == "Matches" {
						// one call per name: the reset lands in the k-th call
						ev.Got = read(s)
					} else {
						ev.Got = read(s)
					}
				}()
				VerifOnLoad = nil
				ev.Loads, ev.Fired = loads, fired
				if ev.Got == nil {
					ev.Got = []string{}
				}
				ev.IsOld = reflect.DeepEqual(ev.Got, oldAns) || (len(ev.Got) == 0 && len(oldAns) == 0)
				ev.IsNew = reflect.DeepEqual(ev.Got, newAns) || (len(ev.Got) == 0 && len(newAns) == 0)
				if name == "Matches" && !ev.Panicked {
					// a sequence of independent calls: each single verdict must be old or new
					ev.IsOld, ev.IsNew = true, true
					for i := range ev.Got {
						if ev.Got[i] != oldAns[i] && ev.Got[i] != newAns[i] {
							ev.IsOld, ev.IsNew = false, false
						}
					}
					if !fired {
						ev.IsOld = reflect.DeepEqual(ev.Got, oldAns)
					}
				}
				out.Emit(ev)
				if !fired {
					break // k is beyond the loads the call makes
				}
			}
		}
	}
}
