//go:build verif

package hashprefix

// C02, secondary configuration: hash-prefix safety filters whose replacement
// host is an IP address.  One FilterRequest of the real Filter per (replacement
// family, blocking mode, question type, listed or not).  TLC
// (TraceSafetyIP.tla) decides.

import (
	"context"
	"fmt"
	"io"
	"log/slog"
	"math/rand"
	"net/http"
	"net/http/httptest"
	"net/netip"
	"net/url"
	"os"
	"testing"
	"time"

	"github.com/AdguardTeam/AdGuardDNS/internal/agdcache"
	"github.com/AdguardTeam/AdGuardDNS/internal/agdtest"
	"github.com/AdguardTeam/AdGuardDNS/internal/dnsmsg"
	"github.com/AdguardTeam/AdGuardDNS/internal/filter/internal"
	"github.com/miekg/dns"
)

type c02IPRes struct {
	Type   string `json:"type"`
	Rcode  int    `json:"rcode"`
	NAns   int    `json:"nans"`
	AnsV   string `json:"ansv"`
	AnsT   string `json:"anst"`
	ATTL   int    `json:"attl"`
	SOA    bool   `json:"soa"`
	SOATTL int    `json:"soattl"`
	Err    string `json:"err"`
}

type c02IPEvent struct {
	Ev     string   `json:"ev"`
	Fam    string   `json:"fam"`
	Repl   string   `json:"repl"`
	Mode   string   `json:"mode"`
	QT     string   `json:"qt"`
	Host   string   `json:"host"`
	Listed bool     `json:"listed"`
	TTL    int      `json:"ttl"`
	Res    c02IPRes `json:"res"`
}

func TestVerifC02SafetyIP(t *testing.T) {
	out := vhOpen(t)
	rng := rand.New(rand.NewSource(vhSeed()))
	reps := vhEnvInt("VERIF_REPS", 2)
	dir, err := os.MkdirTemp(os.Getenv("VERIF_SCRATCH"), "c02ip")
	if err != nil {
		t.Fatal(err)
	}
	defer os.RemoveAll(dir)
	listed := []string{"bad1.c02ip.example", "bad2.c02ip.example"}
	srv := httptest.NewServer(http.HandlerFunc(func(w http.ResponseWriter, _ *http.Request) {
		for _, h := range listed {
			fmt.Fprintln(w, h)
		}
	}))
	defer srv.Close()
	u, _ := url.Parse(srv.URL + "/hp")
	qts := map[string]uint16{"A": dns.TypeA, "AAAA": dns.TypeAAAA, "HTTPS": dns.TypeHTTPS, "TXT": dns.TypeTXT, "MX": dns.TypeMX}
	modes := map[string]func() dnsmsg.BlockingMode{
		"null":     func() dnsmsg.BlockingMode { return &dnsmsg.BlockingModeNullIP{} },
		"custom4":  func() dnsmsg.BlockingMode { return &dnsmsg.BlockingModeCustomIP{IPv4: []netip.Addr{netip.MustParseAddr("203.0.113.44")}} },
		"custom46": func() dnsmsg.BlockingMode {
			return &dnsmsg.BlockingModeCustomIP{IPv4: []netip.Addr{netip.MustParseAddr("203.0.113.44")}, IPv6: []netip.Addr{netip.MustParseAddr("2001:db8:44::1")}}
		},
		"nxdomain": func() dnsmsg.BlockingMode { return &dnsmsg.BlockingModeNXDOMAIN{} },
		"refused":  func() dnsmsg.BlockingMode { return &dnsmsg.BlockingModeREFUSED{} },
	}
	n := 0
	for _, fam := range []string{"4", "6"} {
		repl := fmt.Sprintf("192.0.2.%d", 1+rng.Intn(250))
		if fam == "6" {
			repl = fmt.Sprintf("2001:db8:99::%x", 1+rng.Intn(60000))
		}
		n++
		hs, herr := NewStorage("")
		if herr != nil {
			t.Fatal(herr)
		}
		cloner := dnsmsg.NewCloner(dnsmsg.EmptyClonerStat{})
		f, ferr := NewFilter(&FilterConfig{
			Logger: c02IPLogger(), Cloner: cloner, CacheManager: c02IPCacheMgr(), Hashes: hs, URL: u, ErrColl: c12GErrs{},
			Metrics: internal.EmptyMetrics{}, ID: internal.IDSafeBrowsing, CachePath: fmt.Sprintf("%s/hp%d", dir, n), ReplacementHost: repl,
			Staleness: time.Hour, CacheTTL: time.Hour, RefreshTimeout: 10 * time.Second, CacheCount: 100, MaxSize: 1 << 20,
		})
		if ferr != nil {
			t.Fatal(ferr)
		}
		if ferr = f.RefreshInitial(context.Background()); ferr != nil {
			t.Fatal(ferr)
		}
		for rep := 0; rep < reps; rep++ {
			for mode, mk := range modes {
				ttl := 5 + rng.Intn(600)
				msgs, merr := dnsmsg.NewConstructor(&dnsmsg.ConstructorConfig{Cloner: cloner, BlockingMode: mk(),
					StructuredErrors: agdtest.NewSDEConfig(true), FilteredResponseTTL: time.Duration(ttl) * time.Second, EDEEnabled: true})
				if merr != nil {
					t.Fatal(merr)
				}
				for qtn, qt := range qts {
					for _, isListed := range []bool{true, false} {
						host := listed[rng.Intn(len(listed))]
						if rng.Intn(2) == 0 {
							host = "www." + host // sub-domains of a listed name are covered
						}
						if !isListed {
							host = fmt.Sprintf("fine%d.c02ip.example", rng.Intn(1000))
						}
						req := new(dns.Msg).SetQuestion(dns.Fqdn(host), qt)
						req.Id = uint16(rng.Intn(65536))
						r, rerr := f.FilterRequest(context.Background(), &internal.Request{DNS: req, Messages: msgs,
							RemoteIP: netip.MustParseAddr("192.0.2.1"), Host: host, QType: qt, QClass: dns.ClassINET})
						ev := c02IPEvent{Ev: "SafetyIP", Fam: fam, Repl: repl, Mode: mode, QT: qtn, Host: host, Listed: isListed, TTL: ttl,
							Res: c02IPRes{Type: "none"}}
						if rerr != nil {
							ev.Res.Type, ev.Res.Err = "error", rerr.Error()
						}
						switch r := r.(type) {
						case nil:
						case *internal.ResultModifiedRequest:
							ev.Res.Type = "modreq"
						case *internal.ResultModifiedResponse:
							ev.Res.Type, ev.Res.Rcode, ev.Res.NAns = "modresp", r.Msg.Rcode, len(r.Msg.Answer)
							for _, rr := range r.Msg.Answer {
								ev.Res.AnsT, ev.Res.ATTL = dns.TypeToString[rr.Header().Rrtype], int(rr.Header().Ttl)
								switch rr := rr.(type) {
								case *dns.A:
									ev.Res.AnsV = rr.A.String()
								case *dns.AAAA:
									ev.Res.AnsV = rr.AAAA.String()
								}
							}
							for _, rr := range r.Msg.Ns {
								if soa, ok := rr.(*dns.SOA); ok {
									ev.Res.SOA, ev.Res.SOATTL = true, int(soa.Hdr.Ttl)
								}
							}
						default:
							ev.Res.Type = fmt.Sprintf("%T", r)
						}
						out.Emit(ev)
					}
				}
			}
		}
	}
}

func c02IPLogger() *slog.Logger { return slog.New(slog.NewTextHandler(io.Discard, nil)) }

func c02IPCacheMgr() agdcache.Manager { return agdcache.EmptyManager{} }
