//go:build verif

package hashprefix

// C12 interleaving: one request against one refresh on the real Filter.  The
// result cache is wrapped (in-package) by a gate so that a request can be parked
// between computing its result and storing it; the refresh (new list, cache
// clear) then runs to completion -- or is found to wait for the request, when a
// lock protects the pair -- the request is released, and a FRESH request is
// issued.  Recorded: what the fresh request got and what a brand-new filter on
// the new list answers.  TLC (TraceFilterCache.tla) decides.

import (
	"context"
	"fmt"
	"io"
	"log/slog"
	"net/http"
	"net/http/httptest"
	"net/netip"
	"net/url"
	"os"
	"path/filepath"
	"strings"
	"sync"
	"testing"
	"time"

	"github.com/AdguardTeam/AdGuardDNS/internal/agdcache"
	"github.com/AdguardTeam/AdGuardDNS/internal/agdtest"
	"github.com/AdguardTeam/AdGuardDNS/internal/dnsmsg"
	"github.com/AdguardTeam/AdGuardDNS/internal/filter/internal"
	"github.com/c2h5oh/datasize"
	"github.com/miekg/dns"
)

type c12Gate struct {
	agdcache.Interface[internal.CacheKey, *cacheItem]
	mu      sync.Mutex
	armed   bool
	atGate  chan struct{}
	release chan struct{}
}

func (g *c12Gate) Set(k internal.CacheKey, v *cacheItem) {
	g.mu.Lock()
	armed := g.armed
	g.armed = false
	g.mu.Unlock()
	if armed {
		g.atGate <- struct{}{}
		<-g.release
	}
	g.Interface.Set(k, v)
}

type c12GErrs struct{}

func (c12GErrs) Collect(context.Context, error) {}

type c12GEvent struct {
	Ev     string            `json:"ev"`
	What   string            `json:"what"`
	Q      map[string]string `json:"q"`
	Cached string            `json:"cached"`
	Plain  string            `json:"plain"`
	Waited bool              `json:"refresh_waited"`
}

func c12GAbs(r internal.Result) string {
	switch r := r.(type) {
	case nil:
		return "none"
	case *internal.ResultModifiedRequest:
		return fmt.Sprintf("modreq|%s|%s|%s", r.List, r.Rule, r.Msg.Question[0].Name)
	case *internal.ResultModifiedResponse:
		return fmt.Sprintf("modresp|%s|%s|%d", r.List, r.Rule, r.Msg.Rcode)
	}
	return fmt.Sprintf("%T", r)
}

func c12GNew(t *testing.T, u *url.URL, dir, name string) *Filter {
	hs, err := NewStorage("")
	if err != nil {
		t.Fatal(err)
	}
	f, err := NewFilter(&FilterConfig{
		Logger: slog.New(slog.NewTextHandler(io.Discard, nil)), Cloner: dnsmsg.NewCloner(dnsmsg.EmptyClonerStat{}),
		CacheManager: agdcache.EmptyManager{}, Hashes: hs, URL: u, ErrColl: c12GErrs{}, Metrics: internal.EmptyMetrics{},
		ID: internal.IDSafeBrowsing, CachePath: filepath.Join(dir, name), ReplacementHost: "block.c12.example",
		Staleness: time.Nanosecond, CacheTTL: time.Hour, RefreshTimeout: 10 * time.Second, CacheCount: 100, MaxSize: 16 * datasize.MB,
	})
	if err != nil {
		t.Fatal(err)
	}
	ctx, cancel := context.WithTimeout(context.Background(), 10*time.Second)
	defer cancel()
	if err = f.RefreshInitial(ctx); err != nil {
		t.Fatal(err)
	}
	return f
}

func TestVerifC12Gate(t *testing.T) {
	out := vhOpen(t)
	rounds := vhEnvInt("VERIF_ROUNDS", 6)
	dir, err := os.MkdirTemp(os.Getenv("VERIF_SCRATCH"), "c12gate")
	if err != nil {
		t.Fatal(err)
	}
	defer os.RemoveAll(dir)
	var mu sync.Mutex
	text := ""
	srv := httptest.NewServer(http.HandlerFunc(func(w http.ResponseWriter, _ *http.Request) {
		mu.Lock()
		defer mu.Unlock()
		_, _ = w.Write([]byte(text))
	}))
	defer srv.Close()
	u, _ := url.Parse(srv.URL + "/hp")
	msgs := agdtest.NewConstructor(t)
	ask := func(f *Filter, host string) internal.Result {
		req := new(dns.Msg).SetQuestion(dns.Fqdn(host), dns.TypeA)
		r, ferr := f.FilterRequest(context.Background(), &internal.Request{DNS: req, Messages: msgs, RemoteIP: netip.MustParseAddr("192.0.2.1"),
			Host: host, QType: dns.TypeA, QClass: dns.ClassINET})
		if ferr != nil {
			t.Fatal(ferr)
		}
		return r
	}
	for round := 0; round < rounds; round++ {
		host := fmt.Sprintf("h%d.gate.c12.example", round)
		// no interleaving at all: a host cached as listed, then a refresh to another version of the
		// list -- shorter, empty of hosts (comments only), or without that host -- then the same host again
		for k, v2 := range []string{"other.c12.example\n", "# nothing is listed any more\n", "# c\n\n", "x" + host + "\n"} {
			mu.Lock()
			text = "other.c12.example\n" + host + "\n"
			mu.Unlock()
			f := c12GNew(t, u, dir, fmt.Sprintf("s%d_%d", round, k))
			_ = ask(f, host)
			mu.Lock()
			text = v2
			mu.Unlock()
			ctx, cancel := context.WithTimeout(context.Background(), 10*time.Second)
			rerr := f.Refresh(ctx)
			cancel()
			if rerr != nil {
				t.Fatalf("refresh: %v", rerr)
			}
			late := ask(f, host)
			want := ask(c12GNew(t, u, dir, fmt.Sprintf("t%d_%d", round, k)), host)
			out.Emit(c12GEvent{Ev: "Gate", What: fmt.Sprintf("hashprefix: cached host, then refresh to %q (sequential)", v2),
				Q: map[string]string{"host": host}, Cached: c12GAbs(late), Plain: c12GAbs(want)})
		}
		// a refresh whose text is downloaded completely but cannot be taken over (a line longer than the
		// scanner's limit after hosts that differ from the previous version): whatever the refresh does to
		// the list, the filter with the result cache and its twin without one must keep agreeing
		{
			host2 := "new-" + host
			mu.Lock()
			text = "other.c12.example\n" + host + "\n"
			mu.Unlock()
			f := c12GNew(t, u, dir, fmt.Sprintf("b%d", round))
			twin := c12GNew(t, u, dir, fmt.Sprintf("bt%d", round))
			twin.resCache = agdcache.Empty[internal.CacheKey, *cacheItem]{}
			_, _ = ask(f, host), ask(f, host2)
			_, _ = ask(twin, host), ask(twin, host2)
			mu.Lock()
			text = host2 + "\n" + strings.Repeat("x", 70_000) + "\n" + "other.c12.example\n"
			mu.Unlock()
			var failed []bool
			for _, x := range []*Filter{f, twin} {
				ctx, cancel := context.WithTimeout(context.Background(), 10*time.Second)
				failed = append(failed, x.Refresh(ctx) != nil)
				cancel()
			}
			for _, h := range []string{host, host2} {
				out.Emit(c12GEvent{Ev: "Gate", What: fmt.Sprintf("hashprefix: cached hosts, then a refresh to an unusable text (failed: %v)", failed),
					Q: map[string]string{"host": h}, Cached: c12GAbs(ask(f, h)), Plain: c12GAbs(ask(twin, h))})
			}
		}
		for _, dirn := range []string{"removed", "added"} {
			hostB := "b-" + host
			with, without := "other.c12.example\n"+host+"\n"+hostB+"\n", "other.c12.example\n"
			v1, v2 := with, without
			if dirn == "added" {
				v1, v2 = without, with
			}
			mu.Lock()
			text = v1
			mu.Unlock()
			f := c12GNew(t, u, dir, fmt.Sprintf("f%d%s", round, dirn))
			g := &c12Gate{Interface: f.resCache, atGate: make(chan struct{}), release: make(chan struct{})}
			f.resCache = g
			g.mu.Lock()
			g.armed = true
			g.mu.Unlock()
			reqDone := make(chan struct{})
			go func() { ask(f, host); close(reqDone) }()
			select {
			case <-g.atGate:
			case <-time.After(5 * time.Second):
				t.Fatalf("the request did not reach the cache write")
			}
			mu.Lock()
			text = v2
			mu.Unlock()
			refDone := make(chan error, 1)
			go func() {
				ctx, cancel := context.WithTimeout(context.Background(), 10*time.Second)
				defer cancel()
				refDone <- f.Refresh(ctx)
			}()
			waited := false
			select {
			case rerr := <-refDone:
				if rerr != nil {
					t.Fatalf("refresh: %v", rerr)
				}
				refDone = nil
			case <-time.After(300 * time.Millisecond):
				waited = true // the refresh waits for the request: a common lock
			}
			// while the refresh is pending (it waits for the parked request), a SECOND request starts: it must
			// not be able to match against the old list and store its outcome after the refresh either
			parkedB := false
			reqBDone := make(chan struct{})
			if waited {
				g.mu.Lock()
				g.armed = true
				g.mu.Unlock()
				go func() { ask(f, hostB); close(reqBDone) }()
				select {
				case <-g.atGate:
					parkedB = true
				case <-time.After(300 * time.Millisecond):
				}
			}
			g.release <- struct{}{}
			<-reqDone
			if refDone != nil {
				if rerr := <-refDone; rerr != nil {
					t.Fatalf("refresh: %v", rerr)
				}
			}
			if waited {
				if parkedB {
					g.release <- struct{}{}
				} else {
					select {
					case <-g.atGate:
						g.release <- struct{}{}
					case <-reqBDone:
					case <-time.After(10 * time.Second):
						t.Fatalf("the second request neither finished nor reached the cache write")
					}
				}
				<-reqBDone
				lateB := ask(f, hostB)
				wantB := ask(c12GNew(t, u, dir, fmt.Sprintf("gb%d%s", round, dirn)), hostB)
				out.Emit(c12GEvent{Ev: "Gate", What: "hashprefix: second host " + dirn + " by a refresh that was pending when its request started",
					Q: map[string]string{"host": hostB}, Cached: c12GAbs(lateB), Plain: c12GAbs(wantB), Waited: parkedB})
			}
			late := ask(f, host) // starts after Refresh has returned
			fresh := c12GNew(t, u, dir, fmt.Sprintf("g%d%s", round, dirn))
			want := ask(fresh, host)
			out.Emit(c12GEvent{Ev: "Gate", What: "hashprefix: host " + dirn + " by the refresh", Q: map[string]string{"host": host},
				Cached: c12GAbs(late), Plain: c12GAbs(want), Waited: waited})
		}
	}
}
