//go:build verif

package filterstorage

// C07 at the filter layer: several profiles with different rule-list sets and
// custom rules ask the same real storage (shared rule lists with their result
// caches enabled) at the same time.  Every verdict is compared with the verdict
// the same (profile, host, type) gets when it is asked alone.  Run under the
// race detector.  TLC (TraceMsgPool.tla, action TFlt) decides.

import (
	"context"
	"encoding/json"
	"fmt"
	"math/rand"
	"net/http"
	"net/http/httptest"
	"net/netip"
	"sync"
	"testing"
	"time"

	"github.com/AdguardTeam/AdGuardDNS/internal/agdtest"
	"github.com/AdguardTeam/AdGuardDNS/internal/dnsmsg"
	"github.com/AdguardTeam/AdGuardDNS/internal/filter"
	"github.com/miekg/dns"
)

type c07FltEvent struct {
	Ev    string `json:"ev"`
	Prof  string `json:"prof"`
	Host  string `json:"host"`
	QType uint16 `json:"qtype"`
	Conc  string `json:"conc"`
	Seq   string `json:"seq"`
	Same  bool   `json:"same"`
	Round int    `json:"round"`
}

func TestVerifC07Filters(t *testing.T) {
	out := vhOpen(t)
	rng := rand.New(rand.NewSource(vhSeed()))
	// hosts matched by one, two and three rules of a list (several rules per list and host give the
	// result slices spare capacity), by rules of two lists, and by nothing
	// (3 rules found in different look-up tables, 3 IPv4 hosts rules, 5 rules of one table: the result
	// slices urlfilter builds for these have spare capacity)
	l1 := "! one\n||ads.shared.c07.example^\n||shared.c07.example^\n/^ads\\./\n||one.c07.example^\n" +
		"0.0.0.0 hosts.c07.example\n192.0.2.77 hosts.c07.example\n127.0.0.1 hosts.c07.example\n" +
		"||multi.c07.example^\n||multi.c07.example^$dnstype=A\n||multi.c07.example^$dnstype=~TXT\n|multi.c07.example^\n" +
		"||multi.c07.example^$dnstype=A|MX\n||c07.example^$dnstype=MX\n"
	l2 := "! two\n||two.c07.example^\n||multi.c07.example^$dnstype=A\n||ads.shared.c07.example^$dnstype=AAAA\n@@||allowed2.c07.example^\n" +
		"||allowed2.c07.example^\n"
	l3 := "! three\n||ads.shared.c07.example^\n||three.c07.example^\n||hosts.c07.example^\n||multi.c07.example^$dnstype=A\n0.0.0.0 hosts.c07.example\n"
	svc, _ := json.Marshal(map[string]any{"blocked_services": []map[string]any{{"id": "c07svc", "name": "svc", "rules": []string{"||svc.c07.example^", "||ads.shared.c07.example^"}}}})
	srv := httptest.NewServer(http.HandlerFunc(func(w http.ResponseWriter, r *http.Request) {
		switch r.URL.Path {
		case "/index.json":
			base := "http://" + r.Host
			ij, _ := json.Marshal(map[string]any{"filters": []map[string]string{{"filterKey": "c07_l1", "downloadUrl": base + "/l1"},
				{"filterKey": "c07_l2", "downloadUrl": base + "/l2"}, {"filterKey": "c07_l3", "downloadUrl": base + "/l3"}}})
			_, _ = w.Write(ij)
		case "/l1":
			_, _ = w.Write([]byte(l1))
		case "/l2":
			_, _ = w.Write([]byte(l2))
		case "/l3":
			_, _ = w.Write([]byte(l3))
		case "/services.json":
			_, _ = w.Write(svc)
		case "/ss_general":
			_, _ = w.Write([]byte("! ss\n|search.c07.example^$dnsrewrite=NOERROR;CNAME;safe.c07.example\n"))
		case "/hp_dangerous":
			_, _ = w.Write([]byte("danger.c07.example\n"))
		default:
			_, _ = w.Write([]byte("adult.c07.example\n"))
		}
	}))
	defer srv.Close()
	tw := c12Build(t, "c07flt", false, srv.URL, false)
	cloner := agdtest.NewCloner()
	type prof struct {
		id   string
		conf *filter.ConfigClient
		msgs *dnsmsg.Constructor
	}
	mk := func(id string, lists []filter.ID, custom []filter.RuleText, svcOn bool) *prof {
		msgs, err := dnsmsg.NewConstructor(&dnsmsg.ConstructorConfig{Cloner: cloner, BlockingMode: &dnsmsg.BlockingModeNullIP{},
			StructuredErrors: agdtest.NewSDEConfig(true), FilteredResponseTTL: 10 * time.Second, EDEEnabled: true})
		if err != nil {
			t.Fatal(err)
		}
		var bs []filter.BlockedServiceID
		if svcOn {
			bs = []filter.BlockedServiceID{"c07svc"}
		}
		return &prof{id: id, msgs: msgs, conf: &filter.ConfigClient{
			Custom:       &filter.ConfigCustom{ID: id, UpdateTime: time.Unix(1_700_000_000, 0), Rules: custom, Enabled: len(custom) > 0},
			Parental:     &filter.ConfigParental{Enabled: true, SafeSearchGeneralEnabled: true, BlockedServices: bs},
			RuleList:     &filter.ConfigRuleList{IDs: lists, Enabled: len(lists) > 0},
			SafeBrowsing: &filter.ConfigSafeBrowsing{Enabled: true, DangerousDomainsEnabled: true},
		}}
	}
	profs := []*prof{
		mk("x1", []filter.ID{"c07_l1"}, []filter.RuleText{"@@||ads.shared.c07.example^", "||own1.c07.example^"}, false),
		mk("x2", []filter.ID{"c07_l1", "c07_l2"}, nil, false),
		mk("x3", []filter.ID{"c07_l1", "c07_l3"}, []filter.RuleText{"||hosts.c07.example^$dnsrewrite=192.0.2.3"}, true),
		mk("x4", []filter.ID{"c07_l2", "c07_l3", "c07_l1"}, []filter.RuleText{"@@||multi.c07.example^"}, true),
		mk("x5", []filter.ID{"c07_l3"}, []filter.RuleText{"@@||three.c07.example^$dnstype=A"}, false),
		mk("x6", nil, []filter.RuleText{"||ads.shared.c07.example^$dnsrewrite=NOERROR;CNAME;own6.c07.example"}, true),
	}
	hosts := []string{"ads.shared.c07.example", "x.ads.shared.c07.example", "shared.c07.example", "one.c07.example", "hosts.c07.example",
		"multi.c07.example", "two.c07.example", "three.c07.example", "allowed2.c07.example", "svc.c07.example", "own1.c07.example",
		"search.c07.example", "danger.c07.example", "clean.c07.example", "mail.c07.example"}
	qts := []uint16{dns.TypeA, dns.TypeAAAA, dns.TypeHTTPS, dns.TypeMX}
	ctx := context.Background()
	ask := func(p *prof, host string, qt uint16) (res string) {
		defer func() {
			if v := recover(); v != nil {
				res = fmt.Sprintf("panic|%v", v)
			}
		}()
		req := new(dns.Msg).SetQuestion(dns.Fqdn(host), qt)
		f := tw.s.ForConfig(ctx, p.conf)
		r, err := f.FilterRequest(ctx, &filter.Request{DNS: req, Messages: p.msgs, RemoteIP: netip.MustParseAddr("192.0.2.9"),
			ClientName: "dev-" + p.id, Host: host, QType: qt, QClass: dns.ClassINET})
		return c12AbsResult(req, r, err)
	}
	// the reference: every case asked alone (the caches are warm afterwards, as in production)
	type key struct {
		p  int
		h  string
		qt uint16
	}
	ref := map[key]string{}
	for pi, p := range profs {
		for _, h := range hosts {
			for _, qt := range qts {
				ref[key{pi, h, qt}] = ask(p, h, qt)
			}
		}
	}
	rounds := vhEnvInt("VERIF_ROUNDS", 3)
	per := vhEnvInt("VERIF_PER", 400)
	for round := 0; round < rounds; round++ {
		type job struct {
			k   key
			got string
		}
		jobs := make([][]job, 12)
		for g := range jobs {
			for i := 0; i < per; i++ {
				k := key{rng.Intn(len(profs)), hosts[rng.Intn(len(hosts))], qts[rng.Intn(len(qts))]}
				if round%2 == 1 {
					// focused rounds: the few (host, type) pairs that several lists of several profiles match, so
					// that requests of different profiles work on the same cached results at the same moment
					k.h, k.qt = hosts[[]int{0, 0, 4, 5}[rng.Intn(4)]], qts[rng.Intn(2)]
				}
				jobs[g] = append(jobs[g], job{k: k})
			}
		}
		var wg sync.WaitGroup
		for g := range jobs {
			wg.Add(1)
			go func(g int) {
				defer wg.Done()
				for i := range jobs[g] {
					k := jobs[g][i].k
					jobs[g][i].got = ask(profs[k.p], k.h, k.qt)
				}
			}(g)
		}
		wg.Wait()
		for g := range jobs {
			for _, j := range jobs[g] {
				out.Emit(c07FltEvent{Ev: "Flt", Prof: profs[j.k.p].id, Host: j.k.h, QType: j.k.qt, Conc: j.got, Seq: ref[j.k],
					Same: j.got == ref[j.k], Round: round})
			}
		}
	}
}
