//go:build verif

package filterstorage

// C02: the package-specific names used by the shared c02_world_test.go.

type (
	c02FSDefault               = Default
	c02FSConfig                = Config
	c02FSConfigBlockedServices = ConfigBlockedServices
	c02FSConfigCustom          = ConfigCustom
	c02FSConfigHashPrefix      = ConfigHashPrefix
	c02FSConfigRuleLists       = ConfigRuleLists
	c02FSConfigSafeSearch      = ConfigSafeSearch
)

var c02FSNew = New
