//go:build verif

package filterstorage

// C13 crash points: server, child and verifier modes, run as separate
// processes by tools/checks/c13.py (the child under strace with SIGKILL
// injected at file-related system calls, see tools/killpoints.py).
//
//	server    stateless HTTP server: /[dead-<list>/]v<k>/<list> is the complete
//	          text of version k of the list; a request for <list> under
//	          dead-<list> is cut off without an answer
//	child     refreshes a storage (or only the hash-prefix filter) whose cache
//	          directory is $VERIF_C13_DIR to version $VERIF_CRASH_VERSION
//	verifier  classifies the cache file of $VERIF_C13_TARGET (and every other
//	          cache file), then starts a storage on the directory with the
//	          target's server dead and asks it about the target's probe hosts

import (
	"bytes"
	"context"
	"fmt"
	"io"
	"log/slog"
	"net"
	"net/http"
	"net/url"
	"os"
	"path/filepath"
	"regexp"
	"runtime"
	"strconv"
	"strings"
	"testing"
	"time"

	"github.com/AdguardTeam/AdGuardDNS/internal/agdcache"
	"github.com/AdguardTeam/AdGuardDNS/internal/dnsmsg"
	"github.com/AdguardTeam/AdGuardDNS/internal/filter"
	"github.com/AdguardTeam/AdGuardDNS/internal/filter/hashprefix"
	"github.com/c2h5oh/datasize"
)

var c13CrashPath = regexp.MustCompile(`^/(?:dead-(\w+)/)?v(\d+)/(\w+)$`)

func c13CrashURLs(base, prefix string, ver int) func(list string) *url.URL {
	return func(list string) *url.URL {
		u, err := url.Parse(fmt.Sprintf("%s%s/v%d/%s", base, prefix, ver, list))
		if err != nil {
			panic(err)
		}
		return u
	}
}

func c13CrashBody(base, prefix, list string, ver int) []byte {
	return c13Body(list, ver, "ok", 0, 0, func(l string, iv int) string {
		return fmt.Sprintf("%s%s/v%d/%s?iv=%d", base, prefix, iv, l, iv)
	})
}

// TestVerifC13CrashServer serves until it is killed.
func TestVerifC13CrashServer(t *testing.T) {
	af := os.Getenv("VERIF_C13_SRV_ADDR_FILE")
	if af == "" {
		t.Skip()
	}
	ln, err := net.Listen("tcp", "127.0.0.1:0")
	if err != nil {
		t.Fatal(err)
	}
	base := "http://" + ln.Addr().String()
	h := http.HandlerFunc(func(w http.ResponseWriter, r *http.Request) {
		m := c13CrashPath.FindStringSubmatch(r.URL.Path)
		if m == nil {
			w.WriteHeader(404)
			return
		}
		ver, _ := strconv.Atoi(m[2])
		if m[1] == m[3] {
			if conn, _, herr := w.(http.Hijacker).Hijack(); herr == nil {
				_ = conn.Close()
			}
			return
		}
		prefix := ""
		if m[1] != "" {
			prefix = "/dead-" + m[1]
		}
		body := c13CrashBody(base, prefix, m[3], ver)
		w.Header().Set("Content-Length", fmt.Sprint(len(body)))
		_, _ = w.Write(body)
	})
	srv := &http.Server{Handler: h}
	if err = os.WriteFile(af+".tmp", []byte(base), 0o600); err != nil {
		t.Fatal(err)
	}
	if err = os.Rename(af+".tmp", af); err != nil {
		t.Fatal(err)
	}
	_ = srv.Serve(ln)
}

func c13CrashHP(dir string, urls func(string) *url.URL, errs *c13Errs) (*hashprefix.Filter, error) {
	hashes, err := hashprefix.NewStorage("")
	if err != nil {
		return nil, err
	}
	hpPath := c13Paths(dir)["hp"]
	if err = os.MkdirAll(filepath.Dir(hpPath), 0o700); err != nil {
		return nil, err
	}
	return hashprefix.NewFilter(&hashprefix.FilterConfig{
		Logger: slog.New(slog.NewTextHandler(io.Discard, nil)), Cloner: dnsmsg.NewCloner(dnsmsg.EmptyClonerStat{}),
		CacheManager: agdcache.EmptyManager{}, Hashes: hashes, URL: urls("hp"), ErrColl: errs,
		Metrics: filter.EmptyMetrics{}, ID: filter.IDSafeBrowsing, CachePath: hpPath, ReplacementHost: "repl.c13.example",
		Staleness: time.Nanosecond, CacheTTL: time.Hour, RefreshTimeout: 10 * time.Second, CacheCount: 100,
		MaxSize: c13MaxSize * datasize.B,
	})
}

// TestVerifC13CrashChild refreshes everything to version
// $VERIF_CRASH_VERSION with ordinary (not initial) refreshes: every file is
// downloaded and replaces whatever is in the cache directory.
func TestVerifC13CrashChild(t *testing.T) {
	dir, base := os.Getenv("VERIF_C13_DIR"), os.Getenv("VERIF_C13_SRV")
	if dir == "" || base == "" {
		t.Skip()
	}
	// the file system calls of the refresh on one OS thread: strace counts
	// injected calls per thread
	runtime.LockOSThread()
	ver := vhEnvInt("VERIF_CRASH_VERSION", 1)
	urls := c13CrashURLs(base, "", ver)
	errs := &c13Errs{}
	ctx := context.Background()
	if os.Getenv("VERIF_C13_TARGET") == "hp" {
		hp, err := c13CrashHP(dir, urls, errs)
		if err != nil {
			t.Fatal(err)
		}
		if err = hp.Refresh(ctx); err != nil {
			t.Fatal(err)
		}
		return
	}
	s, err := c13CrashStorage(dir, urls, errs, nil)
	if err != nil {
		t.Fatal(err)
	}
	if err = s.Refresh(ctx); err != nil {
		t.Fatal(err)
	}
	if es := errs.take(); len(es) > 0 {
		t.Fatalf("refresh reported errors: %v", es)
	}
}

func c13CrashStorage(dir string, urls func(string) *url.URL, errs *c13Errs, hp *hashprefix.Filter) (*Default, error) {
	logger := slog.New(slog.NewTextHandler(io.Discard, nil))
	const stale = time.Nanosecond
	const timeout = 10 * time.Second
	return New(&Config{
		BaseLogger: logger, Logger: logger,
		BlockedServices: &ConfigBlockedServices{
			IndexURL: urls("sidx"), IndexMaxSize: c13MaxSize * datasize.B, IndexRefreshTimeout: timeout,
			IndexStaleness: stale, ResultCacheCount: 100, ResultCacheEnabled: true, Enabled: true,
		},
		Custom:     &ConfigCustom{CacheCount: 10},
		HashPrefix: &ConfigHashPrefix{Dangerous: hp},
		RuleLists: &ConfigRuleLists{
			IndexURL: urls("ridx"), IndexMaxSize: c13MaxSize * datasize.B, MaxSize: c13MaxSize * datasize.B,
			IndexRefreshTimeout: timeout, IndexStaleness: stale, RefreshTimeout: timeout, Staleness: stale,
			ResultCacheCount: 100, ResultCacheEnabled: true,
		},
		SafeSearchGeneral: &ConfigSafeSearch{
			URL: urls("ss"), ID: filter.IDGeneralSafeSearch, MaxSize: c13MaxSize * datasize.B, ResultCacheTTL: time.Hour,
			RefreshTimeout: timeout, Staleness: stale, ResultCacheCount: 100, Enabled: true,
		},
		SafeSearchYouTube: &ConfigSafeSearch{ID: filter.IDYoutubeSafeSearch, Enabled: false},
		CacheManager:      agdcache.EmptyManager{},
		Clock:             c13Clock{},
		ErrColl:           errs,
		Metrics:           filter.EmptyMetrics{},
		CacheDir:          dir,
	})
}

type c13Clock struct{}

func (c13Clock) Now() time.Time { return time.Now() }

// TestVerifC13CrashVerify: state of the target's cache file = absent | ver<k>
// | corrupt (not byte-equal to a complete version, another cache file is not
// a complete version, or the restarted storage does not filter with it).
func TestVerifC13CrashVerify(t *testing.T) {
	dir, base, target := os.Getenv("VERIF_C13_DIR"), os.Getenv("VERIF_C13_SRV"), os.Getenv("VERIF_C13_TARGET")
	if dir == "" || base == "" || target == "" {
		t.Skip()
	}
	out := vhOpen(t)
	known := map[string]map[int][]byte{}
	for _, l := range c13Lists {
		known[l] = map[int][]byte{1: c13CrashBody(base, "", l, 1), 2: c13CrashBody(base, "", l, 2)}
	}
	// an index stored by an earlier verifier run names the lists under the
	// dead-<target> prefix: the same version
	for v := 1; v <= 2; v++ {
		known["ridx"][1000+v] = c13CrashBody(base, "/dead-"+target, "ridx", v)
	}
	disk, odd := c13Disk(dir, known)
	if disk["ridx"] > 1000 {
		disk["ridx"] -= 1000
	}
	ev := map[string]any{"ev": "Verify", "target": target, "disk": disk, "odd_disk": odd}
	state := "corrupt"
	switch v := disk[target]; {
	case v == 0:
		state = "absent"
	case v > 0:
		state = fmt.Sprintf("ver%d", v)
	}
	for l, v := range disk {
		if v < 0 && l != target {
			state = "corrupt"
			ev["why"] = "cache file of " + l + " is not a complete version"
		}
	}
	if strings.HasPrefix(state, "ver") {
		// a new process, the target's server unreachable
		p, err := c13Start(dir, c13CrashURLs(base, "/dead-"+target, 1), 10*time.Second)
		if err != nil {
			state = "corrupt"
			ev["why"] = "restart failed: " + err.Error()
		} else {
			served, sodd := c13Probe(t, p, 3)
			ev["served"], ev["odd_served"] = served, sodd
			if target != "ridx" && served[target] != disk[target] {
				state = "corrupt"
				ev["why"] = fmt.Sprintf("restarted storage serves version %d of %s, the file is version %d", served[target], target, disk[target])
			}
			if target == "ridx" && (served["rl1"] <= 0 || served["rl2"] <= 0) {
				state = "corrupt"
				ev["why"] = "restarted storage does not serve the lists of the stored index"
			}
		}
	}
	ev["state"] = state
	out.Emit(ev)
	_ = bytes.Equal
}
