//go:build verif

package filterstorage

// C02 verdict recorder.  For every abstract vector the concretiser
// (c02_world_test.go) writes rule texts with a known meaning into the shared
// rule lists, the blocked-service index, the hash-prefix files, the
// safe-search lists and the profile's custom rules; a REAL Default storage is
// built from an httptest server, the per-client filter is obtained with
// ForConfig and the results of FilterRequest and (with a scripted upstream
// answer) FilterResponse are recorded.  One NDJSON line per vector;
// TraceFiltering.tla decides.

import (
	"context"
	"fmt"
	"math/rand"
	"net/netip"
	"testing"
	"time"

	"github.com/AdguardTeam/AdGuardDNS/internal/dnsmsg"
	"github.com/AdguardTeam/AdGuardDNS/internal/filter"
	"github.com/miekg/dns"
)

func TestVerifC02Flt(t *testing.T) {
	out := vhOpen(t)
	rng := rand.New(rand.NewSource(vhSeed()))

	rules := c02RuleVectors()
	budget := vhEnvInt("VERIF_N", 600)
	if !vhThorough() && len(rules) > budget {
		rng.Shuffle(len(rules), func(i, j int) { rules[i], rules[j] = rules[j], rules[i] })
		rules = rules[:budget]
	}
	vecs := append(rules, c02SafetyVectors(rng, vhThorough())...)
	// several concretisations per abstract vector
	reps := vhEnvInt("VERIF_REPS", 1)
	for r, n := 1, len(vecs); r < reps; r++ {
		vecs = append(vecs, vecs[:n]...)
	}
	var cases []*c02Case
	for i, v := range vecs {
		c := &c02Case{V: v, Mode: c02Modes[i%len(c02Modes)], Ups: []string{"cname", "addr"}[i%2]}
		if v.anyMatch() {
			c.QT = c02QTName[rng.Intn(3)]
		} else {
			c.QT = c02QTName[rng.Intn(4)]
		}
		if c.QT == "TXT" || c.QT == "AAAA" {
			c.Ups = "cname"
		}
		cases = append(cases, c)
	}
	nw := vhEnvInt("VERIF_WORLDS", 2)
	ws := c02Worlds(t, rng, nw, cases)

	cloner := dnsmsg.NewCloner(dnsmsg.EmptyClonerStat{})
	for _, c := range cases {
		w := ws[c.K.World]
		msgs, err := dnsmsg.NewConstructor(&dnsmsg.ConstructorConfig{
			Cloner: cloner, StructuredErrors: &dnsmsg.StructuredDNSErrorsConfig{Enabled: false},
			BlockingMode: c02BlockingMode(c), FilteredResponseTTL: time.Duration(c.K.TTL) * time.Second,
			EDEEnabled: true,
		})
		// every (mode, TTL >= 0) of a profile is a valid configuration: a refusal to build its message
		// constructor is an observation about the code (recorded as an error of the request stage)
		consErr := err
		ctx, cancel := context.WithTimeout(context.Background(), 10*time.Second)
		flt := w.strg.ForConfig(ctx, c.Conf)
		req := &dns.Msg{}
		req.SetQuestion(c.K.QName, uint16(c.K.QType))
		req.Id = uint16(c.ID)
		if c.ID%2 == 0 {
			req.SetEdns0(1232, false)
		}
		client := netip.AddrFrom4([4]byte{192, 0, 2, byte(1 + c.ID%200)})
		var r filter.Result
		var ferr error
		if consErr != nil {
			ferr = fmt.Errorf("message constructor of the profile: %w", consErr)
		} else {
			r, ferr = flt.FilterRequest(ctx, &filter.Request{DNS: req, Messages: msgs, RemoteIP: client,
				ClientName: "c02 device", Host: c.K.Host, QType: uint16(c.K.QType), QClass: dns.ClassINET})
		}
		ev := c02Event{H: "flt", ID: c.ID, V: c.V, Mode: c.Mode, QT: c.QT, Ups: c.Ups, K: c.K, Msg: c02EmptyMsg()}
		ev.Req = c02AbsResult(&c.K, r, ferr, false)
		ups := c02UpsAnswer(c, req)
		r, ferr = flt.FilterResponse(ctx, &filter.Response{DNS: ups, RemoteIP: client, ClientName: "c02 device"})
		ev.Resp = c02AbsResult(&c.K, r, ferr, true)
		cancel()
		out.Emit(ev)
	}
}
