//go:build verif

package filterstorage

// C02 world: abstract vectors, the concretiser (rule texts with a known
// meaning), the lists / indexes / hash files served over HTTP and the REAL
// filterstorage.Default built from them, and the abstraction of a filtering
// result.  This file is package-agnostic (it reaches the storage through the
// aliases of c02_pkg_test.go); tools/checks/c02.py injects a copy with the
// package clause replaced into internal/dnssvc/internal/mainmw for the
// full-stack harness, so that both harnesses share one concretiser.
//
// Nothing here decides the property: events are checked by TraceFiltering.tla.

import (
	"context"
	"encoding/json"
	"fmt"
	"math/rand"
	"net"
	"net/http"
	"net/http/httptest"
	"net/netip"
	"net/url"
	"os"
	"path/filepath"
	"sort"
	"strconv"
	"strings"
	"testing"
	"time"

	"github.com/AdguardTeam/AdGuardDNS/internal/agdcache"
	"github.com/AdguardTeam/AdGuardDNS/internal/agdtime"
	"github.com/AdguardTeam/AdGuardDNS/internal/dnsmsg"
	"github.com/AdguardTeam/AdGuardDNS/internal/filter"
	"github.com/AdguardTeam/AdGuardDNS/internal/filter/hashprefix"
	"github.com/AdguardTeam/golibs/logutil/slogutil"
	"github.com/c2h5oh/datasize"
	"github.com/miekg/dns"
)

// ---------------------------------------------------------------- abstract

// c02Vec is the abstract verdict vector of Filtering.tla.
type c02Vec struct {
	C   string   `json:"c"`
	R1  string   `json:"r1"`
	R2  string   `json:"r2"`
	S   string   `json:"s"`
	SF  []string `json:"sf"`
	RC  string   `json:"rc"`
	RR  string   `json:"rr"`
	Pen bool     `json:"pen"`
	Den bool     `json:"den"`
	// Paused: the profile's parental protection is switched on with every feature of it, and paused right now
	// by its weekly schedule.  For the specification that is a profile whose parental features are off.
	Paused bool `json:"paused"`
}

var (
	c02RuleClasses = []string{"none", "block", "allow", "hosts", "rwip", "rwcname", "rwrcode"}
	c02SvcClasses  = []string{"none", "block"}
	c02RespClasses = []string{"none", "block", "allow"}
	c02Safety      = []string{"dangerous", "adult", "ssgen", "ssyt", "newreg"}
	c02SafetyID    = map[string]filter.ID{"dangerous": filter.IDSafeBrowsing, "adult": filter.IDAdultBlocking,
		"ssgen": filter.IDGeneralSafeSearch, "ssyt": filter.IDYoutubeSafeSearch, "newreg": filter.IDNewRegDomains}
	c02QTypes = map[string]uint16{"A": dns.TypeA, "AAAA": dns.TypeAAAA, "HTTPS": dns.TypeHTTPS, "TXT": dns.TypeTXT}
	c02QTName = []string{"A", "AAAA", "HTTPS", "TXT"}
	c02Modes  = []string{"null", "custom4", "custom46", "nxdomain", "refused"}
	c02UpsCls = []string{"addr", "cname", "nodata", "nxdomain"}
)

const (
	c02UpsTTL = 7777 // TTL of every scripted upstream record
	c02DefTTL = 555  // TTL of the server-wide (anonymous) message constructor
)

func c02SF(states ...string) []string { return append([]string{}, states...) }

func c02AllOff() []string { return c02SF("off", "off", "off", "off", "off") }

// c02FirstMatch: filters before f (1-based) do not match, f and the later ones
// do; f = 6: none matches.
func c02FirstMatch(f int) []string {
	sf := make([]string, 5)
	for k := range sf {
		if k+1 < f {
			sf[k] = "nomatch"
		} else {
			sf[k] = "match"
		}
	}
	return sf
}

func (v c02Vec) anyMatch() bool {
	for _, s := range v.SF {
		if s == "match" {
			return true
		}
	}
	return false
}

// ---------------------------------------------------------------- cases

type c02Slots struct {
	Custom []string `json:"custom"`
	RL1    []string `json:"rl1"`
	RL2    []string `json:"rl2"`
	Svc    []string `json:"svc"`
}

type c02SlotStr struct {
	Custom string `json:"custom"`
	RL1    string `json:"rl1"`
	RL2    string `json:"rl2"`
}

type c02Repl struct {
	Dangerous string `json:"dangerous"`
	Adult     string `json:"adult"`
	SSGen     string `json:"ssgen"`
	SSYT      string `json:"ssyt"`
	NewReg    string `json:"newreg"`
}

type c02RSlots struct {
	Custom []string `json:"custom"`
	RL1    []string `json:"rl1"`
}

type c02Flags struct {
	Custom    bool `json:"custom"`
	RuleList  bool `json:"rulelist"`
	Parental  bool `json:"parental"`
	SafeBr    bool `json:"safebrowsing"`
	Adult     bool `json:"adult"`
	SSGen     bool `json:"ssgen"`
	SSYT      bool `json:"ssyt"`
	Dangerous bool `json:"dangerous"`
	NewReg    bool `json:"newreg"`
}

// c02Conc is the concrete input of a case; it is logged with every event so
// that a line is replayable from the event alone.
type c02Conc struct {
	World   int        `json:"world"`
	Host    string     `json:"host"`
	QName   string     `json:"qname"`
	QType   int        `json:"qtype"`
	Order   []string   `json:"order"`   // ConfigRuleList.IDs as configured
	OffList string     `json:"offlist"` // a list of the storage that the profile has not enabled
	Rules   c02Slots   `json:"rules"`   // rule texts written for this host, per slot (svc: service ids)
	RwV     c02SlotStr `json:"rwv"`     // value of the $dnsrewrite of the slot: IP / target / rcode
	RwFam   c02SlotStr `json:"rwfam"`   // "4" / "6" for an IP rewrite
	RRules  c02RSlots  `json:"rrules"`  // response-side rule texts
	RSubj   string     `json:"rsubj"`   // what the response rules match: CNAME target or address
	Repl    c02Repl    `json:"repl"`    // replacement (block page / safe search) hosts of the world
	CustomR []string   `json:"customrules"`
	Svcs    []string   `json:"svcs"`
	Flags   c02Flags   `json:"flags"`
	Listed  []string   `json:"listed"` // safety sources that list the host (enabled or not)
	Decoys  []string   `json:"decoys"`
	TTL     int        `json:"ttl"` // the profile's FilteredResponseTTL, seconds
	CIP4    []string   `json:"cip4"`
	CIP6    []string   `json:"cip6"`
	NullIP  string     `json:"nullip"`
	UpsTTL  int        `json:"upsttl"`
	DefTTL  int        `json:"defttl"`
	CNAME   string     `json:"cname"`  // CNAME target in the upstream answer
	Marker  string     `json:"marker"` // address / text in the upstream answer
}

type c02Case struct {
	ID   int
	V    c02Vec
	Mode string
	QT   string
	Ups  string
	K    c02Conc
	// run-time
	Conf *filter.ConfigClient
}

// c02Obs is the abstraction of a filter.Result.
type c02Obs struct {
	Type  string `json:"type"` // none | blocked | allowed | modresp | modreq | error
	List  string `json:"list"`
	Src   string `json:"src"` // slot of the list: custom rl1 rl2 svc dangerous adult ssgen ssyt newreg | "-" | other:<id>
	Rule  string `json:"rule"`
	Rcode int    `json:"rcode"`
	NAns  int    `json:"nans"`
	Val   string `json:"val"`    // modresp: rcode (non-zero) or the answer addresses; modreq: the new question name
	ATTL  int    `json:"attl"`   // modresp: TTL of the first answer, else -1
	QName string `json:"qname2"` // modresp: question of the synthesised message
}

type c02RR struct {
	T   string `json:"t"`
	N   string `json:"n"`
	V   string `json:"v"`
	TTL int    `json:"ttl"`
}

// c02Msg is the abstraction of the written message.
type c02Msg struct {
	Written  bool    `json:"written"`
	Rcode    int     `json:"rcode"`
	Ans      []c02RR `json:"ans"`
	SOA      bool    `json:"soa"`    // AdGuard's negative-caching SOA is in the authority section
	SOATTL   int     `json:"soattl"` // its TTL, else -1
	NNs      int     `json:"nns"`
	Marker   bool    `json:"marker"`   // a record obtained from upstream appears in any section
	SameUps  bool    `json:"sameups"`  // rcode, answer, authority equal the upstream message
	RestUps  bool    `json:"restups"`  // answer[1:] equals the upstream answer
	UpsRcode int     `json:"upsrcode"` // what upstream answered (last upstream exchange)
	UpsQ     string  `json:"upsq"`     // the name upstream was asked for
	QName    string  `json:"qname"`    // question of the written message
	QID      bool    `json:"idok"`     // id equals the request's
	Err      string  `json:"err"`
}

type c02Event struct {
	H    string  `json:"h"` // flt | full
	ID   int     `json:"id"`
	V    c02Vec  `json:"v"`
	Mode string  `json:"mode"`
	QT   string  `json:"qt"`
	Ups  string  `json:"ups"`
	K    c02Conc `json:"conc"`
	Req  c02Obs  `json:"req"`
	Resp c02Obs  `json:"resp"`
	Msg  c02Msg  `json:"msg"`
}

func c02EmptyMsg() c02Msg { return c02Msg{Ans: []c02RR{}, SOATTL: -1} }

// ---------------------------------------------------------------- world

type c02World struct {
	idx      int
	listIDs  []string // physical rule lists of the storage
	svcIDs   []string
	lists    map[string]*strings.Builder
	svcs     map[string][]string
	hp       map[string]*strings.Builder // dangerous adult newreg
	ss       map[string]*strings.Builder // ssgen ssyt
	repl     c02Repl
	rlCache  bool
	cases    []*c02Case
	strg     *c02FSDefault
	srv      *httptest.Server
	served   map[string]int
	cacheDir string
}

func c02NewWorld(idx int) *c02World {
	w := &c02World{idx: idx, lists: map[string]*strings.Builder{}, svcs: map[string][]string{},
		hp: map[string]*strings.Builder{}, ss: map[string]*strings.Builder{}, served: map[string]int{}}
	switch idx % 2 {
	case 0:
		w.listIDs = []string{"c02_list_a", "c02_list_b", "c02_list_c"}
		w.svcIDs = []string{"c02svc_one", "c02svc_two", "c02svc_three"}
		w.rlCache = true
	default:
		// ids whose sorted order differs from the order they are used in
		w.listIDs = []string{"zz_c02.first", "adguard_dns_filter", "c02-list:3"}
		w.svcIDs = []string{"youtube", "9gag", "c02_svc"}
		w.rlCache = false
	}
	w.repl = c02Repl{
		Dangerous: fmt.Sprintf("block-dangerous.w%d.c02repl.example", idx),
		Adult:     fmt.Sprintf("block-adult.w%d.c02repl.example", idx),
		SSGen:     fmt.Sprintf("safe-search.w%d.c02repl.example", idx),
		SSYT:      fmt.Sprintf("restrict.video.w%d.c02repl.example", idx),
		NewReg:    fmt.Sprintf("block-newreg.w%d.c02repl.example", idx),
	}
	for _, id := range w.listIDs {
		w.lists[id] = &strings.Builder{}
		fmt.Fprintf(w.lists[id], "! Title: C02 list %s\n||always-blocked-by-%d.c02.example^\n", id, idx)
	}
	for _, id := range w.svcIDs {
		w.svcs[id] = []string{"||svc-" + id + ".c02.example^"}
	}
	for _, n := range []string{"dangerous", "adult", "newreg"} {
		w.hp[n] = &strings.Builder{}
		fmt.Fprintf(w.hp[n], "always-%s.c02.example\n", n)
	}
	for _, n := range []string{"ssgen", "ssyt"} {
		w.ss[n] = &strings.Builder{}
		fmt.Fprintf(w.ss[n], "! safe search %s\n", n)
	}
	return w
}

func (w *c02World) replOf(name string) string {
	switch name {
	case "dangerous":
		return w.repl.Dangerous
	case "adult":
		return w.repl.Adult
	case "ssgen":
		return w.repl.SSGen
	case "ssyt":
		return w.repl.SSYT
	default:
		return w.repl.NewReg
	}
}

// ---------------------------------------------------------------- concretiser

func c02Pick(rng *rand.Rand, xs ...string) string { return xs[rng.Intn(len(xs))] }

func c02OtherType(rng *rand.Rand, qt string) string {
	for {
		o := c02Pick(rng, "A", "AAAA", "HTTPS", "TXT", "MX", "CNAME")
		if o != qt {
			return o
		}
	}
}

// c02Parent: the host without its first label when that still identifies the
// case (the case label v<ID> is kept).
func c02Parent(host string) (string, bool) {
	i := strings.IndexByte(host, '.')
	if i < 0 || !strings.HasPrefix(host[i+1:], "v") {
		return "", false
	}
	return host[i+1:], true
}

// c02SlotRules writes the rule texts that give a rule slot the class cls for
// (host, qt).  The meaning of every template is the documented one of the
// AdGuard DNS filtering syntax: ||h^ (h and subdomains), |h^ (exactly h), @@
// (exception), $dnstype (restricts the query types), $dnsrewrite (IP, CNAME
// target or RCODE keyword), "IP h" (/etc/hosts line), "h" (domain-only line).
func c02SlotRules(rng *rand.Rand, cls, host, qt string, id int, slot string) (rules []string, rwv, rwfam string) {
	other := c02OtherType(rng, qt)
	par, hasPar := c02Parent(host)
	anchor := c02Pick(rng, "||", "||", "|")
	dom := host
	if hasPar && anchor == "||" && rng.Intn(3) == 0 {
		dom = par
	}
	pat := anchor + dom + "^"
	switch cls {
	case "none":
		switch rng.Intn(9) {
		case 0, 1:
			return []string{}, "", ""
		case 2:
			return []string{"||x" + host + "^"}, "", ""
		case 3:
			return []string{"||sub." + host + "^", "@@||sub2." + host + "^"}, "", ""
		case 4:
			return []string{pat + "$dnstype=" + other}, "", ""
		case 5:
			return []string{"@@" + pat + "$dnstype=" + other}, "", ""
		case 6:
			return []string{pat + "$dnstype=~" + qt}, "", ""
		case 7:
			return []string{pat + "$dnstype=" + other + ",dnsrewrite=192.0.2.200"}, "", ""
		default:
			return []string{"! " + pat, "# 0.0.0.0 " + host}, "", ""
		}
	case "block":
		switch rng.Intn(6) {
		case 0, 1, 2:
			return []string{pat}, "", ""
		case 3:
			return []string{pat + "$dnstype=" + qt}, "", ""
		case 4:
			return []string{pat + "$dnstype=~" + other}, "", ""
		default:
			return []string{"/^" + strings.ReplaceAll(host, ".", `\.`) + "$/"}, "", ""
		}
	case "allow":
		switch rng.Intn(5) {
		case 0, 1, 2:
			return []string{"@@" + pat}, "", ""
		case 3:
			return []string{"@@" + pat + "$dnstype=" + qt}, "", ""
		default:
			return []string{"@@" + pat + "$dnstype=~" + other}, "", ""
		}
	case "hosts":
		switch rng.Intn(6) {
		case 0:
			return []string{"0.0.0.0 " + host}, "", ""
		case 1:
			return []string{fmt.Sprintf("192.0.2.%d %s", 1+id%250, host)}, "", ""
		case 2:
			return []string{":: " + host}, "", ""
		case 3:
			return []string{fmt.Sprintf("2001:db8:7::%x %s", id, host)}, "", ""
		case 4:
			return []string{fmt.Sprintf("127.0.0.1 alias%d.c02.example %s", id, host)}, "", ""
		default:
			return []string{"0.0.0.0 " + host, ":: " + host}, "", ""
		}
	case "rwip":
		v6 := rng.Intn(3) == 0
		if qt == "AAAA" {
			v6 = rng.Intn(3) != 0
		}
		var ip, typ string
		mapped := false
		if v6 {
			ip, typ, rwfam = fmt.Sprintf("2001:db8:1::%x", id), "AAAA", "6"
			if rng.Intn(4) == 0 {
				// an IPv4-mapped IPv6 address is an IPv6 address (explicit record type only)
				ip, mapped = fmt.Sprintf("::ffff:203.0.113.%d", 1+id%250), true
			}
		} else {
			ip, typ, rwfam = fmt.Sprintf("192.0.2.%d", 1+(id*7+len(slot))%250), "A", "4"
		}
		tmpl := rng.Intn(3)
		if mapped {
			tmpl = 1
		}
		switch tmpl {
		case 0:
			return []string{pat + "$dnsrewrite=" + ip}, ip, rwfam
		case 1:
			return []string{pat + "$dnsrewrite=NOERROR;" + typ + ";" + ip}, ip, rwfam
		default:
			return []string{pat + "$dnstype=" + qt + ",dnsrewrite=" + ip}, ip, rwfam
		}
	case "rwcname":
		tgt := fmt.Sprintf("rw%d-%s.c02rw.example", id, slot)
		if rng.Intn(2) == 0 {
			return []string{pat + "$dnsrewrite=" + tgt}, tgt, ""
		}
		return []string{pat + "$dnsrewrite=NOERROR;CNAME;" + tgt}, tgt, ""
	case "rwrcode":
		code := c02Pick(rng, "REFUSED", "NXDOMAIN", "SERVFAIL")
		return []string{pat + "$dnsrewrite=" + code}, strconv.Itoa(dns.StringToRcode[code]), ""
	}
	panic("c02: bad class " + cls)
}

// c02Contrary: a rule that would change the verdict if its (disabled) source
// were consulted.
func c02Contrary(rng *rand.Rand, host string) string {
	return c02Pick(rng, "||"+host+"^", "@@||"+host+"^", "||"+host+"^$dnsrewrite=192.0.2.251",
		"0.0.0.0 "+host, "||"+host+"^$dnsrewrite=REFUSED")
}

// concretise fills c.K and registers the case's rules with the world.
func (w *c02World) concretise(rng *rand.Rand, c *c02Case) {
	v, k := c.V, &c.K
	k.World = w.idx
	pre := c02Pick(rng, "", "", "www.", "a-b.")
	k.Host = fmt.Sprintf("%sv%d.c02.example", pre, c.ID)
	k.QName = k.Host + "."
	k.QType = int(c02QTypes[c.QT])
	k.UpsTTL, k.DefTTL = c02UpsTTL, c02DefTTL
	k.TTL = []int{10, 0, 1, 37, 300, 3600, 86399}[rng.Intn(7)]
	k.Repl = w.repl
	k.Decoys = []string{}
	k.Listed = []string{}

	// --- rule lists: a permutation of the physical lists gives rl1, rl2 and a
	// list the profile has not enabled
	perm := rng.Perm(len(w.listIDs))
	rl1, rl2, off := w.listIDs[perm[0]], w.listIDs[perm[1]], w.listIDs[perm[2]]
	k.Order = []string{rl1, rl2}
	if rng.Intn(4) == 0 {
		// an id that the storage does not know is ignored
		k.Order = []string{rl1, "c02_unknown_list", rl2}
	}
	k.OffList = off
	k.Rules.Custom, k.RwV.Custom, k.RwFam.Custom = c02SlotRules(rng, v.C, k.Host, c.QT, c.ID, "custom")
	k.Rules.RL1, k.RwV.RL1, k.RwFam.RL1 = c02SlotRules(rng, v.R1, k.Host, c.QT, c.ID, "rl1")
	k.Rules.RL2, k.RwV.RL2, k.RwFam.RL2 = c02SlotRules(rng, v.R2, k.Host, c.QT, c.ID, "rl2")
	k.Flags.RuleList = true
	if v.R1 == "none" && v.R2 == "none" && v.RR == "none" && rng.Intn(3) == 0 {
		// the rule-list group switched off: whatever the lists say is irrelevant
		k.Flags.RuleList = false
		r := c02Contrary(rng, k.Host)
		k.Rules.RL1 = append(k.Rules.RL1, r)
		k.Decoys = append(k.Decoys, "rule lists disabled, "+rl1+": "+r)
	}
	for _, r := range k.Rules.RL1 {
		fmt.Fprintln(w.lists[rl1], r)
	}
	for _, r := range k.Rules.RL2 {
		fmt.Fprintln(w.lists[rl2], r)
	}
	if rng.Intn(2) == 0 {
		r := c02Contrary(rng, k.Host)
		fmt.Fprintln(w.lists[off], r)
		k.Decoys = append(k.Decoys, "not enabled "+off+": "+r)
	}

	// --- upstream answer and the response-side rules
	k.CNAME = fmt.Sprintf("cdn%d.c02tgt.example.", c.ID)
	m4 := fmt.Sprintf("198.18.%d.%d", (c.ID>>8)&255, c.ID&255)
	m6 := fmt.Sprintf("2001:db8:c02::%x", c.ID+1)
	switch c.QT {
	case "A", "HTTPS":
		k.Marker = m4
	case "AAAA":
		k.Marker = m6
	default:
		k.Marker = fmt.Sprintf("c02-upstream-%d", c.ID)
	}
	k.RRules = c02RSlots{Custom: []string{}, RL1: []string{}}
	// the response rules match the CNAME target or, for an IPv4 address in an
	// A record or an HTTPS hint, the address
	canIP, hasCNAME := c.QT == "A" || c.QT == "HTTPS", c.Ups == "cname"
	switch {
	case hasCNAME && !(canIP && rng.Intn(2) == 0):
		k.RSubj = strings.TrimSuffix(k.CNAME, ".")
	case canIP && (c.Ups == "addr" || c.Ups == "cname"):
		k.RSubj = k.Marker
	default:
		if v.RC != "none" || v.RR != "none" {
			panic(fmt.Sprintf("c02: case %d: response rules need an upstream answer they can match", c.ID))
		}
		k.RSubj = ""
	}
	rrule := func(cls string) []string {
		a := c02Pick(rng, "||", "||", "|")
		switch cls {
		case "block":
			return []string{a + k.RSubj + "^"}
		case "allow":
			return []string{"@@" + a + k.RSubj + "^"}
		}
		return []string{}
	}
	k.RRules.Custom = rrule(v.RC)
	k.RRules.RL1 = rrule(v.RR)
	for _, r := range k.RRules.RL1 {
		fmt.Fprintln(w.lists[rl1], r)
	}

	// --- custom rules
	k.Flags.Custom = true
	k.CustomR = append([]string{}, k.Rules.Custom...)
	k.CustomR = append(k.CustomR, k.RRules.Custom...)
	if v.C == "none" && v.RC == "none" && rng.Intn(3) == 0 {
		k.Flags.Custom = false
		r := c02Contrary(rng, k.Host)
		k.CustomR = append(k.CustomR, r)
		k.Decoys = append(k.Decoys, "custom rules disabled: "+r)
	}
	if rng.Intn(2) == 0 {
		k.CustomR = append(k.CustomR, "||unrelated"+strconv.Itoa(c.ID)+".example^", "! comment")
	}
	rng.Shuffle(len(k.CustomR), func(i, j int) { k.CustomR[i], k.CustomR[j] = k.CustomR[j], k.CustomR[i] })

	// --- blocked services and the parental group
	k.Svcs = []string{}
	k.Rules.Svc = []string{}
	sperm := rng.Perm(len(w.svcIDs))
	if v.S == "block" {
		id := w.svcIDs[sperm[0]]
		w.svcs[id] = append(w.svcs[id], "||"+k.Host+"^")
		k.Svcs = append(k.Svcs, id)
		k.Rules.Svc = append(k.Rules.Svc, id)
		if rng.Intn(3) == 0 {
			// a second enabled service that does not list the host
			k.Svcs = append(k.Svcs, w.svcIDs[sperm[1]])
		}
	} else if rng.Intn(3) == 0 {
		k.Svcs = append(k.Svcs, w.svcIDs[sperm[0]])
	}
	if rng.Intn(3) == 0 {
		id := w.svcIDs[sperm[2]]
		w.svcs[id] = append(w.svcs[id], "||"+k.Host+"^")
		k.Decoys = append(k.Decoys, "service not blocked by the profile "+id+": ||"+k.Host+"^")
	}
	st := map[string]string{}
	for i, n := range c02Safety {
		st[n] = v.SF[i]
	}
	parentalUsed := v.S == "block" || st["adult"] != "off" || st["ssgen"] != "off" || st["ssyt"] != "off"
	k.Flags.Parental = parentalUsed || rng.Intn(2) == 0
	if v.Paused {
		k.Flags.Parental = false
	}
	sbUsed := st["dangerous"] != "off" || st["newreg"] != "off"
	k.Flags.SafeBr = sbUsed || rng.Intn(2) == 0
	flag := func(n string, groupOn bool) bool {
		if st[n] != "off" {
			return true
		}
		// "off": either the feature flag is off, or the flag is on and the
		// whole group is off
		return !groupOn && rng.Intn(2) == 0
	}
	k.Flags.Adult = flag("adult", k.Flags.Parental)
	k.Flags.SSGen = flag("ssgen", k.Flags.Parental)
	k.Flags.SSYT = flag("ssyt", k.Flags.Parental)
	if v.Paused {
		k.Flags.Adult, k.Flags.SSGen, k.Flags.SSYT = true, true, true
	}
	k.Flags.Dangerous = flag("dangerous", k.Flags.SafeBr)
	k.Flags.NewReg = flag("newreg", k.Flags.SafeBr)
	if !k.Flags.Parental && v.S == "none" && (v.Paused || rng.Intn(2) == 0) {
		id := w.svcIDs[sperm[1]]
		w.svcs[id] = append(w.svcs[id], "||"+k.Host+"^")
		k.Svcs = append(k.Svcs, id)
		k.Decoys = append(k.Decoys, "parental group disabled, service "+id+" lists the host")
	}

	// --- safety sources: listed when "match"; for "off" listed at random.
	// TXT queries are kept away from listed hosts (the safety filters only
	// look at A, AAAA and HTTPS queries, which the property does not claim).
	for _, n := range c02Safety {
		listed := st[n] == "match" || (st[n] == "off" && c.QT != "TXT" && (rng.Intn(2) == 0 || (v.Paused && n != "dangerous" && n != "newreg")))
		if !listed {
			continue
		}
		k.Listed = append(k.Listed, n)
		entry := k.Host
		if par, ok := c02Parent(k.Host); ok && rng.Intn(2) == 0 {
			entry = par
		}
		switch n {
		case "dangerous", "adult", "newreg":
			fmt.Fprintln(w.hp[n], entry)
		default:
			fmt.Fprintf(w.ss[n], "|%s^$dnsrewrite=NOERROR;CNAME;%s\n", k.Host, w.replOf(n))
		}
	}

	// --- blocking mode
	k.CIP4, k.CIP6 = []string{}, []string{}
	switch c.Mode {
	case "custom4":
		k.CIP4 = []string{fmt.Sprintf("192.0.2.%d", 100+c.ID%100)}
		if rng.Intn(2) == 0 {
			k.CIP4 = append(k.CIP4, "192.0.2.99")
		}
	case "custom46":
		k.CIP4 = []string{fmt.Sprintf("192.0.2.%d", 100+c.ID%100)}
		k.CIP6 = []string{fmt.Sprintf("2001:db8:99::%x", c.ID)}
		switch rng.Intn(4) {
		case 0, 1:
			k.CIP6 = append(k.CIP6, "2001:db8:99::ffff")
		case 2:
			// the profile's custom IPv6 block address may be an IPv4-mapped one
			k.CIP6 = []string{fmt.Sprintf("::ffff:198.51.100.%d", 1+c.ID%250)}
		}
	}
	k.NullIP = ""
	if c.QT == "A" {
		k.NullIP = "0.0.0.0"
	} else if c.QT == "AAAA" {
		k.NullIP = "::"
	}

	// --- the client configuration
	rules := make([]filter.RuleText, 0, len(k.CustomR))
	for _, r := range k.CustomR {
		rules = append(rules, filter.RuleText(r))
	}
	ids := make([]filter.ID, 0, len(k.Order))
	for _, id := range k.Order {
		ids = append(ids, filter.ID(id))
	}
	svcs := make([]filter.BlockedServiceID, 0, len(k.Svcs))
	for i, id := range k.Svcs {
		if (c.ID+i)%3 == 0 {
			// an ID the current service index does not know (a removed or renamed service) in front of a
			// known one: it blocks nothing and must not change what the others block
			svcs = append(svcs, filter.BlockedServiceID(fmt.Sprintf("c02_gone_service_%d", i)))
		}
		svcs = append(svcs, filter.BlockedServiceID(id))
	}
	parentalOn, pause := c02Pause(c.ID, k.Flags.Parental, v.Paused)
	c.Conf = &filter.ConfigClient{
		Custom: &filter.ConfigCustom{ID: fmt.Sprintf("c02prof%d", c.ID), UpdateTime: time.Unix(1700000000+int64(c.ID), 0),
			Rules: rules, Enabled: k.Flags.Custom},
		Parental: &filter.ConfigParental{BlockedServices: svcs, Enabled: parentalOn,
			AdultBlockingEnabled: k.Flags.Adult, SafeSearchGeneralEnabled: k.Flags.SSGen,
			SafeSearchYouTubeEnabled: k.Flags.SSYT, PauseSchedule: pause},
		RuleList: &filter.ConfigRuleList{IDs: ids, Enabled: k.Flags.RuleList},
		SafeBrowsing: &filter.ConfigSafeBrowsing{Enabled: k.Flags.SafeBr, DangerousDomainsEnabled: k.Flags.Dangerous,
			NewlyRegisteredDomainsEnabled: k.Flags.NewReg},
	}
	w.cases = append(w.cases, c)
}

// c02Pause concretises "parental protection in effect": a profile whose
// protection is not in effect has it switched off, or has it switched on and
// PAUSED right now by its weekly schedule (in which case the flag is set);
// one whose protection is in effect may have a schedule that does not cover
// the present moment.  Everything that is not parental protection (safe
// browsing, newly registered domains, rule lists, custom rules) is unaffected.
func c02Pause(id int, inEffect, paused bool) (enabled bool, s *filter.ConfigSchedule) {
	now := time.Now().UTC()
	allDay := &filter.DayInterval{Start: 0, End: filter.MaxDayIntervalEndMinutes}
	tz := &agdtime.Location{Location: *time.UTC}
	switch {
	case !inEffect && (paused || id%3 == 1):
		return true, &filter.ConfigSchedule{Week: &filter.WeeklySchedule{allDay, allDay, allDay, allDay, allDay, allDay, allDay}, TimeZone: tz}
	case inEffect && id%3 == 2:
		// a pause on a day that is neither today nor one of its neighbours
		w := &filter.WeeklySchedule{}
		w[(int(now.Weekday())+3)%7] = allDay
		return true, &filter.ConfigSchedule{Week: w, TimeZone: tz}
	}
	return inEffect, nil
}

// ---------------------------------------------------------------- building

type c02ErrColl struct{ tb testing.TB }

func (e c02ErrColl) Collect(_ context.Context, err error) { e.tb.Errorf("c02: collected error: %v", err) }

func (w *c02World) build(tb testing.TB) {
	dir, err := os.MkdirTemp(os.Getenv("VERIF_SCRATCH"), "c02world")
	if err != nil {
		tb.Fatal(err)
	}
	tb.Cleanup(func() { _ = os.RemoveAll(dir) })
	w.cacheDir = dir
	texts := map[string]string{}
	mux := http.NewServeMux()
	w.srv = httptest.NewServer(http.HandlerFunc(func(rw http.ResponseWriter, r *http.Request) {
		w.served[r.URL.Path]++
		mux.ServeHTTP(rw, r)
	}))
	tb.Cleanup(w.srv.Close)
	serve := func(path, text string) *url.URL {
		texts[path] = text
		mux.HandleFunc(path, func(rw http.ResponseWriter, _ *http.Request) {
			rw.Header().Set("Server", "c02/1.0")
			_, _ = rw.Write([]byte(text))
		})
		u, perr := url.Parse(w.srv.URL + path)
		if perr != nil {
			tb.Fatal(perr)
		}
		return u
	}
	// the rule-list index (deliberately not in sorted order) and the lists
	var idx []map[string]string
	for i := len(w.listIDs) - 1; i >= 0; i-- {
		id := w.listIDs[i]
		u := serve("/lists/"+strconv.Itoa(i)+".txt", w.lists[id].String())
		idx = append(idx, map[string]string{"filterKey": id, "downloadUrl": u.String()})
	}
	idxJSON, _ := json.Marshal(map[string]any{"filters": idx})
	idxURL := serve("/index.json", string(idxJSON))
	var svcs []map[string]any
	for _, id := range w.svcIDs {
		svcs = append(svcs, map[string]any{"id": id, "name": "Service " + id, "rules": w.svcs[id]})
	}
	svcJSON, _ := json.Marshal(map[string]any{"blocked_services": svcs})
	svcURL := serve("/services.json", string(svcJSON))
	ssGenURL := serve("/ss_general.txt", w.ss["ssgen"].String())
	ssYTURL := serve("/ss_youtube.txt", w.ss["ssyt"].String())

	const maxSize = 256 * datasize.MB
	cloner := dnsmsg.NewCloner(dnsmsg.EmptyClonerStat{})
	hpf := func(name string, id filter.ID) *hashprefix.Filter {
		u := serve("/hp_"+name+".txt", w.hp[name].String())
		strg, herr := hashprefix.NewStorage("")
		if herr != nil {
			tb.Fatal(herr)
		}
		f, herr := hashprefix.NewFilter(&hashprefix.FilterConfig{
			Logger: slogutil.NewDiscardLogger(), Cloner: cloner, CacheManager: agdcache.EmptyManager{},
			Hashes: strg, URL: u, ErrColl: c02ErrColl{tb}, Metrics: filter.EmptyMetrics{}, ID: id,
			CachePath: filepath.Join(dir, "hp_"+name), ReplacementHost: w.replOf(name), Staleness: time.Hour,
			CacheTTL: time.Hour, RefreshTimeout: 30 * time.Second, CacheCount: 64, MaxSize: maxSize,
		})
		if herr != nil {
			tb.Fatal(herr)
		}
		ctx, cancel := context.WithTimeout(context.Background(), time.Minute)
		defer cancel()
		if herr = f.RefreshInitial(ctx); herr != nil {
			tb.Fatal(herr)
		}
		return f
	}
	ssConf := func(u *url.URL, id filter.ID) *c02FSConfigSafeSearch {
		return &c02FSConfigSafeSearch{URL: u, ID: id, MaxSize: maxSize, ResultCacheTTL: time.Hour,
			RefreshTimeout: 30 * time.Second, Staleness: time.Hour, ResultCacheCount: 64, Enabled: true}
	}
	conf := &c02FSConfig{
		BaseLogger: slogutil.NewDiscardLogger(),
		Logger:     slogutil.NewDiscardLogger(),
		BlockedServices: &c02FSConfigBlockedServices{IndexURL: svcURL, IndexMaxSize: maxSize,
			IndexRefreshTimeout: 30 * time.Second, IndexStaleness: time.Hour, ResultCacheCount: 64,
			ResultCacheEnabled: w.rlCache, Enabled: true},
		Custom: &c02FSConfigCustom{CacheCount: 16},
		HashPrefix: &c02FSConfigHashPrefix{Adult: hpf("adult", filter.IDAdultBlocking),
			Dangerous: hpf("dangerous", filter.IDSafeBrowsing), NewlyRegistered: hpf("newreg", filter.IDNewRegDomains)},
		RuleLists: &c02FSConfigRuleLists{IndexURL: idxURL, IndexMaxSize: maxSize, MaxSize: maxSize,
			IndexRefreshTimeout: 30 * time.Second, IndexStaleness: time.Hour, RefreshTimeout: 30 * time.Second,
			Staleness: time.Hour, ResultCacheCount: 64, ResultCacheEnabled: w.rlCache},
		SafeSearchGeneral: ssConf(ssGenURL, filter.IDGeneralSafeSearch),
		SafeSearchYouTube: ssConf(ssYTURL, filter.IDYoutubeSafeSearch),
		CacheManager:      agdcache.EmptyManager{},
		Clock:             agdtime.SystemClock{},
		ErrColl:           c02ErrColl{tb},
		Metrics:           filter.EmptyMetrics{},
		CacheDir:          dir,
	}
	s, err := c02FSNew(conf)
	if err != nil {
		tb.Fatal(err)
	}
	ctx, cancel := context.WithTimeout(context.Background(), 2*time.Minute)
	defer cancel()
	if err = s.RefreshInitial(ctx); err != nil {
		tb.Fatal(err)
	}
	for _, id := range w.listIDs {
		if !s.HasListID(filter.ID(id)) {
			tb.Fatalf("c02: storage has no list %q after the initial refresh", id)
		}
	}
	for p := range texts {
		if w.served[p] != 1 {
			tb.Fatalf("c02: %s served %d times", p, w.served[p])
		}
	}
	w.strg = s
}

// ---------------------------------------------------------------- abstraction

// c02Src maps the list id of a result to the slot of the vector.
func c02Src(k *c02Conc, id filter.ID, respSide bool) string {
	switch id {
	case filter.IDCustom:
		return "custom"
	case filter.IDBlockedService:
		return "svc"
	}
	for n, sid := range c02SafetyID {
		if sid == id {
			return n
		}
	}
	// the enabled lists in their configured order, unknown ids skipped
	pos := 0
	for _, o := range k.Order {
		if o == "c02_unknown_list" {
			continue
		}
		pos++
		if o == string(id) {
			return "rl" + strconv.Itoa(pos)
		}
	}
	return "other:" + string(id)
}

func c02AbsResult(k *c02Conc, r filter.Result, err error, respSide bool) (o c02Obs) {
	o = c02Obs{Type: "none", Src: "-", ATTL: -1}
	if err != nil {
		o.Type, o.Val = "error", err.Error()
		return o
	}
	set := func(id filter.ID, rule filter.RuleText) {
		o.List, o.Rule, o.Src = string(id), string(rule), c02Src(k, id, respSide)
	}
	switch r := r.(type) {
	case nil:
	case *filter.ResultBlocked:
		o.Type = "blocked"
		set(r.List, r.Rule)
	case *filter.ResultAllowed:
		o.Type = "allowed"
		set(r.List, r.Rule)
	case *filter.ResultModifiedRequest:
		o.Type = "modreq"
		set(r.List, r.Rule)
		if r.Msg != nil && len(r.Msg.Question) == 1 {
			o.Val = strings.ToLower(strings.TrimSuffix(r.Msg.Question[0].Name, "."))
		}
	case *filter.ResultModifiedResponse:
		o.Type = "modresp"
		set(r.List, r.Rule)
		if r.Msg != nil {
			o.Rcode, o.NAns = r.Msg.Rcode, len(r.Msg.Answer)
			if len(r.Msg.Question) == 1 {
				o.QName = strings.ToLower(r.Msg.Question[0].Name)
			}
			if r.Msg.Rcode != 0 {
				o.Val = strconv.Itoa(r.Msg.Rcode)
			} else {
				var vs []string
				for i, rr := range r.Msg.Answer {
					x := c02AbsRR(rr)
					vs = append(vs, x.V)
					if i == 0 {
						o.ATTL = x.TTL
					}
				}
				o.Val = strings.Join(vs, ",")
			}
		}
	default:
		o.Type, o.Val = "error", fmt.Sprintf("unknown result type %T", r)
	}
	return o
}

func c02AbsRR(rr dns.RR) c02RR {
	h := rr.Header()
	x := c02RR{T: dns.TypeToString[h.Rrtype], N: strings.ToLower(h.Name), TTL: int(h.Ttl)}
	switch v := rr.(type) {
	case *dns.A:
		if a, ok := netip.AddrFromSlice(v.A.To4()); ok {
			x.V = a.String()
		}
	case *dns.AAAA:
		if a, ok := netip.AddrFromSlice(v.AAAA); ok {
			x.V = a.String()
		}
	case *dns.CNAME:
		x.V = strings.ToLower(strings.TrimSuffix(v.Target, "."))
	case *dns.TXT:
		x.V = strings.Join(v.Txt, "|")
	case *dns.SOA:
		x.V = v.Ns
	default:
		s := rr.String()
		x.V = s[strings.LastIndexByte(s, '\t')+1:]
	}
	return x
}

// c02UpsAnswer scripts the upstream answer for a question of the case.  Every
// record carries the marker (address in 198.18.0.0/15 or 2001:db8:c02::/48,
// TXT "c02-upstream-...", CNAME target under c02tgt.example, SOA mbox) and
// the upstream TTL.
func c02UpsAnswer(c *c02Case, req *dns.Msg) *dns.Msg {
	m := &dns.Msg{}
	m.SetReply(req)
	m.RecursionAvailable = true
	q := req.Question[0]
	hdr := func(name string, t uint16) dns.RR_Header {
		return dns.RR_Header{Name: name, Rrtype: t, Class: dns.ClassINET, Ttl: c02UpsTTL}
	}
	soa := &dns.SOA{Hdr: hdr("c02.example.", dns.TypeSOA), Ns: "ns.c02-upstream.example.",
		Mbox: "c02-upstream.example.", Serial: 1, Refresh: 2, Retry: 3, Expire: 4, Minttl: 5}
	addr := func(owner string) dns.RR {
		switch q.Qtype {
		case dns.TypeA:
			return &dns.A{Hdr: hdr(owner, dns.TypeA), A: netip.MustParseAddr(c.K.Marker).AsSlice()}
		case dns.TypeAAAA:
			return &dns.AAAA{Hdr: hdr(owner, dns.TypeAAAA), AAAA: netip.MustParseAddr(c.K.Marker).AsSlice()}
		case dns.TypeHTTPS:
			return &dns.HTTPS{SVCB: dns.SVCB{Hdr: hdr(owner, dns.TypeHTTPS), Priority: 1, Target: ".",
				Value: []dns.SVCBKeyValue{&dns.SVCBAlpn{Alpn: []string{"h2"}},
					&dns.SVCBIPv4Hint{Hint: []net.IP{netip.MustParseAddr(c.K.Marker).AsSlice()}}}}}
		default:
			return &dns.TXT{Hdr: hdr(owner, dns.TypeTXT), Txt: []string{c.K.Marker}}
		}
	}
	switch c.Ups {
	case "addr":
		m.Answer = []dns.RR{addr(q.Name)}
	case "cname":
		m.Answer = []dns.RR{&dns.CNAME{Hdr: hdr(q.Name, dns.TypeCNAME), Target: c.K.CNAME}, addr(c.K.CNAME)}
	case "nodata":
		m.Ns = []dns.RR{soa}
	case "nxdomain":
		m.Rcode = dns.RcodeNameError
		m.Ns = []dns.RR{soa}
	}
	return m
}

func c02IsMarker(x c02RR) bool {
	if strings.Contains(x.V, "c02-upstream") || strings.HasSuffix(x.V, "c02tgt.example") ||
		strings.HasSuffix(strings.TrimSuffix(x.N, "."), "c02tgt.example") {
		return true
	}
	if a, err := netip.ParseAddr(x.V); err == nil {
		return netip.MustParsePrefix("198.18.0.0/15").Contains(a) || netip.MustParsePrefix("2001:db8:c02::/48").Contains(a)
	}
	return strings.Contains(x.V, "198.18.") // HTTPS hints
}

func c02RRsEqual(a, b []dns.RR) bool {
	if len(a) != len(b) {
		return false
	}
	for i := range a {
		if a[i].String() != b[i].String() {
			return false
		}
	}
	return true
}

// c02AbsMsg abstracts the written message m given the last upstream answer.
func c02AbsMsg(req, m, ups *dns.Msg) (o c02Msg) {
	o = c02EmptyMsg()
	if m == nil {
		return o
	}
	o.Written, o.Rcode, o.NNs = true, m.Rcode, len(m.Ns)
	o.QID = m.Id == req.Id
	if len(m.Question) == 1 {
		o.QName = strings.ToLower(m.Question[0].Name)
	}
	for _, rr := range m.Answer {
		x := c02AbsRR(rr)
		o.Ans = append(o.Ans, x)
		o.Marker = o.Marker || c02IsMarker(x) || x.TTL == c02UpsTTL
	}
	for _, rr := range append(append([]dns.RR{}, m.Ns...), m.Extra...) {
		if _, ok := rr.(*dns.OPT); ok {
			continue
		}
		x := c02AbsRR(rr)
		if soa, ok := rr.(*dns.SOA); ok && soa.Ns == "fake-for-negative-caching.adguard.com." {
			o.SOA, o.SOATTL = true, x.TTL
			continue
		}
		o.Marker = o.Marker || c02IsMarker(x) || x.TTL == c02UpsTTL
		if soa, ok := rr.(*dns.SOA); ok && strings.Contains(soa.Mbox, "c02-upstream") {
			o.Marker = true
		}
	}
	if ups != nil {
		o.UpsRcode = ups.Rcode
		if len(ups.Question) == 1 {
			o.UpsQ = strings.ToLower(ups.Question[0].Name)
		}
		o.SameUps = m.Rcode == ups.Rcode && c02RRsEqual(m.Answer, ups.Answer) && c02RRsEqual(m.Ns, ups.Ns)
		o.RestUps = len(m.Answer) >= 1 && c02RRsEqual(m.Answer[1:], ups.Answer) && c02RRsEqual(m.Ns, ups.Ns)
	}
	return o
}

func c02BlockingMode(c *c02Case) dnsmsg.BlockingMode {
	addrs := func(ss []string) (as []netip.Addr) {
		for _, s := range ss {
			as = append(as, netip.MustParseAddr(s))
		}
		return as
	}
	switch c.Mode {
	case "null":
		return &dnsmsg.BlockingModeNullIP{}
	case "nxdomain":
		return &dnsmsg.BlockingModeNXDOMAIN{}
	case "refused":
		return &dnsmsg.BlockingModeREFUSED{}
	default:
		return &dnsmsg.BlockingModeCustomIP{IPv4: addrs(c.K.CIP4), IPv6: addrs(c.K.CIP6)}
	}
}

// ---------------------------------------------------------------- vectors

func c02RuleVectors() (vs []c02Vec) {
	i := 0
	for _, c := range c02RuleClasses {
		for _, r1 := range c02RuleClasses {
			for _, r2 := range c02RuleClasses {
				for _, s := range c02SvcClasses {
					for f := 0; f <= 6; f++ {
						sf := c02AllOff()
						if f > 0 {
							sf = c02FirstMatch(f)
						}
						vs = append(vs, c02Vec{C: c, R1: r1, R2: r2, S: s, SF: sf,
							RC: c02RespClasses[i%3], RR: c02RespClasses[(i/3)%3], Pen: true, Den: true})
						i++
					}
				}
			}
		}
	}
	return vs
}

func c02SafetyVectors(rng *rand.Rand, all bool) (vs []c02Vec) {
	ctxs := [][4]string{{"none", "none", "none", "none"}, {"none", "allow", "none", "none"},
		{"allow", "none", "none", "none"}, {"allow", "allow", "none", "none"}, {"none", "allow", "hosts", "block"},
		{"none", "none", "allow", "none"}, {"none", "none", "none", "block"}, {"block", "none", "allow", "none"}}
	states := []string{"off", "nomatch", "match"}
	for n := 0; n < 243; n++ {
		sf := make([]string, 5)
		x := n
		for k := range sf {
			sf[k] = states[x%3]
			x /= 3
		}
		use := ctxs
		if !all {
			use = [][4]string{ctxs[rng.Intn(len(ctxs))]}
		}
		for _, cx := range use {
			vs = append(vs, c02Vec{C: cx[0], R1: cx[1], R2: cx[2], S: cx[3], SF: append([]string{}, sf...),
				RC: "none", RR: "none", Pen: true, Den: true})
		}
	}
	// parental protection paused by the schedule: everything parental is off, whatever is switched on and
	// listed; dangerous and newly registered domains in all their states
	for n := 0; n < 9; n++ {
		for _, cx := range ctxs {
			if cx[3] == "block" {
				continue
			}
			vs = append(vs, c02Vec{C: cx[0], R1: cx[1], R2: cx[2], S: "none", SF: []string{states[n%3], "off", "off", "off", states[n/3]},
				RC: "none", RR: "none", Pen: true, Den: true, Paused: true})
		}
	}
	return vs
}

// c02Worlds distributes the cases over n worlds, concretises them and builds
// one real storage per world.
func c02Worlds(tb testing.TB, rng *rand.Rand, n int, cases []*c02Case) (ws []*c02World) {
	for i := 0; i < n; i++ {
		ws = append(ws, c02NewWorld(i))
	}
	for i, c := range cases {
		c.ID = i + 1
		ws[i%n].concretise(rng, c)
	}
	for _, w := range ws {
		w.build(tb)
	}
	sort.SliceStable(cases, func(i, j int) bool { return cases[i].ID < cases[j].ID })
	return ws
}
