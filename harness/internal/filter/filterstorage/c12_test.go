//go:build verif

package filterstorage

// C12 differential twin.  Two real storages are fed the same seeded history of
// filter queries from several profiles (different blocking modes, TTLs, list
// selections, custom rules) interleaved with refreshes of rule lists, blocked
// services, safe search and hash-prefix lists and with custom-rule updates:
//   CACHED   every result cache enabled
//   PLAIN    rule-list / service result caches disabled and every managed cache
//            (safe search, hash prefix, custom) cleared before each query
// After every query both results (verdict, list, rule, and the shaped message or
// modified request) are recorded; TLC (TraceFilterCache.tla) decides.

import (
	"context"
	"encoding/json"
	"fmt"
	"io"
	"log/slog"
	"math/rand"
	"net/http"
	"net/http/httptest"
	"net/netip"
	"net/url"
	"os"
	"path/filepath"
	"sort"
	"strings"
	"sync"
	"testing"
	"time"

	"github.com/AdguardTeam/AdGuardDNS/internal/agdcache"
	"github.com/AdguardTeam/AdGuardDNS/internal/agdtest"
	"github.com/AdguardTeam/AdGuardDNS/internal/agdtime"
	"github.com/AdguardTeam/AdGuardDNS/internal/dnsmsg"
	"github.com/AdguardTeam/AdGuardDNS/internal/filter"
	"github.com/AdguardTeam/AdGuardDNS/internal/filter/hashprefix"
	"github.com/c2h5oh/datasize"
	"github.com/miekg/dns"
)

type c12Mgr struct {
	mu     sync.Mutex
	caches []agdcache.Clearer
}

func (m *c12Mgr) Add(_ string, c agdcache.Clearer) {
	m.mu.Lock()
	defer m.mu.Unlock()
	m.caches = append(m.caches, c)
}
func (m *c12Mgr) ClearByID(string) {}
func (m *c12Mgr) clearAll() {
	m.mu.Lock()
	defer m.mu.Unlock()
	for _, c := range m.caches {
		c.Clear()
	}
}

type c12Errs struct{ errs []string }

func (e *c12Errs) Collect(_ context.Context, err error) { e.errs = append(e.errs, err.Error()) }

// c12Content is the mutable "remote" content served to both twins.
type c12Content struct {
	mu    sync.Mutex
	texts map[string]string
}

func (c *c12Content) get(k string) string {
	c.mu.Lock()
	defer c.mu.Unlock()
	return c.texts[k]
}
func (c *c12Content) set(k, v string) {
	c.mu.Lock()
	defer c.mu.Unlock()
	c.texts[k] = v
}

type c12Twin struct {
	name  string
	s     *Default
	hp    map[string]*hashprefix.Filter
	mgr   *c12Mgr
	plain bool
	errs  *c12Errs
}

const c12Max = 64 * datasize.MB

func c12Build(t *testing.T, name string, plain bool, base string, ipMode bool) *c12Twin {
	dir, err := os.MkdirTemp(os.Getenv("VERIF_SCRATCH"), "c12-"+name)
	if err != nil {
		t.Fatal(err)
	}
	t.Cleanup(func() { _ = os.RemoveAll(dir) })
	tw := &c12Twin{name: name, hp: map[string]*hashprefix.Filter{}, mgr: &c12Mgr{}, plain: plain, errs: &c12Errs{}}
	logger := slog.New(slog.NewTextHandler(io.Discard, nil))
	u := func(p string) *url.URL {
		x, _ := url.Parse(base + p)
		return x
	}
	const stale = time.Nanosecond
	cloner := dnsmsg.NewCloner(dnsmsg.EmptyClonerStat{})
	repl := map[string]string{"dangerous": "block-dangerous.c12.example", "adult": "block-adult.c12.example"}
	if ipMode {
		repl = map[string]string{"dangerous": "192.0.2.66", "adult": "2001:db8::66"}
	}
	for n, id := range map[string]filter.ID{"dangerous": filter.IDSafeBrowsing, "adult": filter.IDAdultBlocking} {
		hs, herr := hashprefix.NewStorage("")
		if herr != nil {
			t.Fatal(herr)
		}
		_ = os.MkdirAll(filepath.Join(dir, "hp"), 0o700)
		f, herr := hashprefix.NewFilter(&hashprefix.FilterConfig{
			Logger: logger, Cloner: cloner, CacheManager: tw.mgr, Hashes: hs, URL: u("/hp_" + n), ErrColl: tw.errs,
			Metrics: filter.EmptyMetrics{}, ID: id, CachePath: filepath.Join(dir, "hp", n), ReplacementHost: repl[n],
			Staleness: stale, CacheTTL: time.Hour, RefreshTimeout: 10 * time.Second, CacheCount: 100, MaxSize: c12Max,
		})
		if herr != nil {
			t.Fatal(herr)
		}
		ctx, cancel := context.WithTimeout(context.Background(), 20*time.Second)
		if herr = f.RefreshInitial(ctx); herr != nil {
			t.Fatal(herr)
		}
		cancel()
		tw.hp[n] = f
	}
	s, err := New(&Config{
		BaseLogger: logger, Logger: logger,
		BlockedServices: &ConfigBlockedServices{IndexURL: u("/services.json"), IndexMaxSize: c12Max, IndexRefreshTimeout: 10 * time.Second,
			IndexStaleness: stale, ResultCacheCount: 100, ResultCacheEnabled: !plain, Enabled: true},
		Custom:     &ConfigCustom{CacheCount: 10},
		HashPrefix: &ConfigHashPrefix{Dangerous: tw.hp["dangerous"], Adult: tw.hp["adult"]},
		RuleLists: &ConfigRuleLists{IndexURL: u("/index.json"), IndexMaxSize: c12Max, MaxSize: c12Max, IndexRefreshTimeout: 10 * time.Second,
			IndexStaleness: stale, RefreshTimeout: 10 * time.Second, Staleness: stale, ResultCacheCount: 100, ResultCacheEnabled: !plain},
		SafeSearchGeneral: &ConfigSafeSearch{URL: u("/ss_general"), ID: filter.IDGeneralSafeSearch, MaxSize: c12Max, ResultCacheTTL: time.Hour,
			RefreshTimeout: 10 * time.Second, Staleness: stale, ResultCacheCount: 100, Enabled: true},
		SafeSearchYouTube: &ConfigSafeSearch{ID: filter.IDYoutubeSafeSearch, Enabled: false},
		CacheManager:      tw.mgr,
		Clock:             agdtime.SystemClock{},
		ErrColl:           tw.errs,
		Metrics:           filter.EmptyMetrics{},
		CacheDir:          dir,
	})
	if err != nil {
		t.Fatal(err)
	}
	ctx, cancel := context.WithTimeout(context.Background(), 30*time.Second)
	defer cancel()
	if err = s.RefreshInitial(ctx); err != nil {
		t.Fatalf("%s: initial refresh: %v", name, err)
	}
	tw.s = s
	return tw
}

type c12Profile struct {
	id     string
	mode   dnsmsg.BlockingMode
	ttl    time.Duration
	conf   *filter.ConfigClient
	msgs   *dnsmsg.Constructor
	custom int // version of the custom rules
}

type c12Query struct {
	Prof  string `json:"prof"`
	Host  string `json:"host"`
	QType uint16 `json:"qtype"`
	DO    bool   `json:"do"`
	CD    bool   `json:"cd"`
	AD    bool   `json:"ad"`
	EDNS  int    `json:"edns"`
	// RespTarget is the CNAME target of the upstream answer given to FilterResponse.
	RespTarget string `json:"resptarget"`
}

type c12Event struct {
	Ev     string   `json:"ev"`
	Beh    int      `json:"beh"`
	What   string   `json:"what"`
	Q      c12Query `json:"q"`
	Cached string   `json:"cached"`
	Plain  string   `json:"plain"`
	CachedR string  `json:"cachedr"`
	PlainR  string  `json:"plainr"`
	Errs   []string `json:"errs"`
}

func c12AbsMsg(req, m *dns.Msg) string {
	if m == nil {
		return "nil"
	}
	var parts []string
	parts = append(parts, fmt.Sprintf("rcode=%d;idok=%v;resp=%v;rd=%v;cd=%v;ad=%v;ra=%v;aa=%v", m.Rcode, m.Id == req.Id, m.Response,
		m.RecursionDesired, m.CheckingDisabled, m.AuthenticatedData, m.RecursionAvailable, m.Authoritative))
	for _, q := range m.Question {
		parts = append(parts, fmt.Sprintf("q=%s/%d/%d", strings.ToLower(q.Name), q.Qtype, q.Qclass))
	}
	for si, rrs := range [][]dns.RR{m.Answer, m.Ns, m.Extra} {
		for _, rr := range rrs {
			if o, ok := rr.(*dns.OPT); ok {
				var codes []string
				for _, e := range o.Option {
					if ede, ok := e.(*dns.EDNS0_EDE); ok {
						codes = append(codes, fmt.Sprintf("ede%d:%s", ede.InfoCode, ede.ExtraText))
					} else {
						codes = append(codes, fmt.Sprint(e.Option()))
					}
				}
				sort.Strings(codes)
				parts = append(parts, fmt.Sprintf("%d:OPT size=%d do=%v opts=%s", si, o.UDPSize(), o.Do(), strings.Join(codes, "+")))
				continue
			}
			parts = append(parts, fmt.Sprintf("%d:%s", si, strings.Join(strings.Fields(rr.String()), " ")))
		}
	}
	return strings.Join(parts, ";")
}

func c12AbsResult(req *dns.Msg, r filter.Result, err error) string {
	if err != nil {
		return "error:" + err.Error()
	}
	switch r := r.(type) {
	case nil:
		return "none"
	case *filter.ResultAllowed:
		return fmt.Sprintf("allowed|%s|%s", r.List, r.Rule)
	case *filter.ResultBlocked:
		return fmt.Sprintf("blocked|%s|%s", r.List, r.Rule)
	case *filter.ResultModifiedResponse:
		return fmt.Sprintf("modresp|%s|%s|%s", r.List, r.Rule, c12AbsMsg(req, r.Msg))
	case *filter.ResultModifiedRequest:
		m := r.Msg
		// the modified request gets a fresh random ID by design
		s := fmt.Sprintf("modreq|%s|%s|rd=%v;cd=%v;ad=%v;resp=%v", r.List, r.Rule, m.RecursionDesired, m.CheckingDisabled, m.AuthenticatedData, m.Response)
		for _, q := range m.Question {
			s += fmt.Sprintf(";q=%s/%d/%d", strings.ToLower(q.Name), q.Qtype, q.Qclass)
		}
		if o := m.IsEdns0(); o != nil {
			s += fmt.Sprintf(";edns size=%d do=%v nopts=%d", o.UDPSize(), o.Do(), len(o.Option))
		} else {
			s += ";noedns"
		}
		return s
	}
	return fmt.Sprintf("unknown %T", r)
}

func TestVerifC12Twin(t *testing.T) {
	out := vhOpen(t)
	rng := rand.New(rand.NewSource(vhSeed()))
	nhist := vhEnvInt("VERIF_NHIST", 6)
	nsteps := vhEnvInt("VERIF_NSTEPS", 120)
	hosts := []string{"b1.c12.example", "b2.c12.example", "al.c12.example", "danger.c12.example", "sub.danger.c12.example", "adult.c12.example",
		"svc.c12.example", "svc2.c12.example", "www.search.c12.example", "cust.c12.example", "rw.c12.example", "clean.c12.example", "danger2.c12.example"}
	for beh := 0; beh < nhist; beh++ {
		ver := map[string]int{}
		content := &c12Content{texts: map[string]string{}}
		render := func() {
			v := ver
			l1 := "! list one\n||always1.c12.example^\n"
			if v["l1"]%2 == 0 {
				l1 += "||b1.c12.example^\n||al.c12.example^\n"
			} else {
				l1 += "||b2.c12.example^\n"
			}
			if v["l1"]%3 == 2 {
				l1 += "||rw.c12.example^$dnsrewrite=198.51.100.7\n"
			}
			l2 := "! list two\n||always2.c12.example^\n"
			if v["l2"]%2 == 0 {
				l2 += "@@||al.c12.example^\n"
			} else {
				l2 += "||b1.c12.example^$dnstype=AAAA\n||b2.c12.example^$dnstype=A\n"
			}
			content.set("/lists/1", l1)
			content.set("/lists/2", l2)
			svc := []string{"||svc-static.c12.example^"}
			if v["svc"]%2 == 0 {
				svc = append(svc, "||svc.c12.example^")
			}
			// a second service, chosen by other profiles, that lists the same host in the other versions
			svc2 := []string{"||svc2.c12.example^"}
			if v["svc"]%2 == 1 {
				svc2 = append(svc2, "||svc.c12.example^")
			}
			sj, _ := json.Marshal(map[string]any{"blocked_services": []map[string]any{{"id": "c12svc", "name": "svc", "rules": svc},
				{"id": "c12svc2", "name": "svc2", "rules": svc2}}})
			content.set("/services.json", string(sj))
			ss := "! safe search\n"
			if v["ss"]%2 == 0 {
				ss += "|www.search.c12.example^$dnsrewrite=NOERROR;CNAME;safe.search.c12.example\n"
			} else {
				ss += "|www.search.c12.example^$dnsrewrite=NOERROR;CNAME;safer.search.c12.example\n"
			}
			content.set("/ss_general", ss)
			d := "always-danger.c12.example\n"
			if v["dangerous"]%2 == 0 {
				d += "danger.c12.example\n"
			} else {
				d += "danger2.c12.example\n"
			}
			content.set("/hp_dangerous", d)
			a := "always-adult.c12.example\n"
			if v["adult"]%2 == 0 {
				a += "adult.c12.example\n"
			}
			content.set("/hp_adult", a)
		}
		render()
		var hookMu sync.Mutex
		var hook func()
		srv := httptest.NewServer(http.HandlerFunc(func(rw http.ResponseWriter, r *http.Request) {
			p := r.URL.Path
			if p == "/index.json" {
				base := "http://" + r.Host
				ij, _ := json.Marshal(map[string]any{"filters": []map[string]string{
					{"filterKey": "c12_l1", "downloadUrl": base + "/lists/1"}, {"filterKey": "c12_l2", "downloadUrl": base + "/lists/2"}}})
				_, _ = rw.Write(ij)
				return
			}
			// a request that arrives WHILE the storage is being refreshed (between the download of one
			// list and the moment the refreshed set is put into service)
			hookMu.Lock()
			h := hook
			hookMu.Unlock()
			if h != nil {
				h()
			}
			_, _ = rw.Write([]byte(content.get(p)))
		}))
		ipMode := beh%2 == 1
		cached := c12Build(t, "cached", false, srv.URL, ipMode)
		plain := c12Build(t, "plain", true, srv.URL, ipMode)
		cloner := agdtest.NewCloner()
		mkProf := func(id string, mode dnsmsg.BlockingMode, ttl int, lists []filter.ID, adult, ss, danger bool, svc bool) *c12Profile {
			p := &c12Profile{id: id, mode: mode, ttl: time.Duration(ttl) * time.Second}
			msgs, err := dnsmsg.NewConstructor(&dnsmsg.ConstructorConfig{Cloner: cloner, BlockingMode: mode,
				StructuredErrors: agdtest.NewSDEConfig(true), FilteredResponseTTL: p.ttl, EDEEnabled: true})
			if err != nil {
				t.Fatal(err)
			}
			p.msgs = msgs
			var bs []filter.BlockedServiceID
			if svc {
				bs = []filter.BlockedServiceID{"c12svc"}
			}
			p.conf = &filter.ConfigClient{
				Custom:       &filter.ConfigCustom{ID: id, UpdateTime: time.Unix(1_700_000_000, 0), Enabled: true},
				Parental:     &filter.ConfigParental{Enabled: true, AdultBlockingEnabled: adult, SafeSearchGeneralEnabled: ss, BlockedServices: bs},
				RuleList:     &filter.ConfigRuleList{IDs: lists, Enabled: len(lists) > 0},
				SafeBrowsing: &filter.ConfigSafeBrowsing{Enabled: danger, DangerousDomainsEnabled: danger},
			}
			return p
		}
		profs := []*c12Profile{
			mkProf("p1", &dnsmsg.BlockingModeNullIP{}, 11, []filter.ID{"c12_l1"}, true, true, true, true),
			mkProf("p2", &dnsmsg.BlockingModeREFUSED{}, 99, []filter.ID{"c12_l1", "c12_l2"}, true, false, true, false),
			mkProf("p3", &dnsmsg.BlockingModeNXDOMAIN{}, 33, []filter.ID{"c12_l2"}, false, true, true, true),
			mkProf("p4", &dnsmsg.BlockingModeCustomIP{IPv4: []netip.Addr{netip.MustParseAddr("10.9.8.7")}}, 5, []filter.ID{"c12_l2", "c12_l1"}, true, true, true, false),
		}
		// the profiles choose different sets of services: p1, p3 the first one, p2 the second one, p4 both
		for i, ids := range map[int][]filter.BlockedServiceID{1: {"c12svc2"}, 3: {"c12svc2", "c12svc"}} {
			pc := *profs[i].conf.Parental
			pc.BlockedServices = ids
			nc := *profs[i].conf
			nc.Parental = &pc
			profs[i].conf = &nc
		}
		setCustom := func(p *c12Profile) {
			p.custom++
			rules := []filter.RuleText{}
			switch p.custom % 3 {
			case 0:
				rules = append(rules, "||cust.c12.example^")
			case 1:
				rules = append(rules, "@@||b1.c12.example^", "||clean.c12.example^")
			default:
				rules = append(rules, "||cust.c12.example^$dnsrewrite=203.0.113.9")
			}
			c := *p.conf.Custom
			c.Rules = rules
			// (the backend stamps an update with the time it was received: two of them may be a second or a nanosecond apart)
			c.UpdateTime = c.UpdateTime.Add([]time.Duration{1, time.Microsecond, time.Millisecond, 300 * time.Millisecond, time.Second,
				time.Hour}[rng.Intn(6)])
			nc := *p.conf
			nc.Custom = &c
			p.conf = &nc
		}
		for _, p := range profs {
			setCustom(p)
		}
		out.Emit(c12Event{Ev: "Reset", Beh: beh, What: fmt.Sprintf("ipmode=%v", ipMode), Errs: []string{}})
		ctx := context.Background()
		for i := 0; i < nsteps; i++ {
			switch r := rng.Intn(100); {
			case r < 70:
				p := profs[rng.Intn(len(profs))]
				q := c12Query{Prof: p.id, Host: hosts[rng.Intn(len(hosts))], // (also types 256 above another one: a cache key that packs the type into too few bits)
					QType: []uint16{dns.TypeA, dns.TypeA, dns.TypeAAAA, dns.TypeHTTPS, dns.TypeCAA, dns.TypeAAAA + 256, dns.TypeHTTPS + 256, dns.TypeAAAA}[rng.Intn(8)],
					DO: rng.Intn(3) == 0, CD: rng.Intn(4) == 0, AD: rng.Intn(4) == 0, EDNS: []int{0, 0, 1232, 4096}[rng.Intn(4)]}
				ev := c12Event{Ev: "Query", Beh: beh, Q: q, Errs: []string{}}
				// the CNAME target in the upstream's answer, in the spelling the upstream used (answers are not
				// lower-cased): whatever the filter makes of each spelling, the cache must not change it
				respTarget := []string{"b2.c12.example.", "b2.c12.example.", "B2.C12.Example.", "b2.C12.EXAMPLE."}[rng.Intn(4)]
				ev.Q.RespTarget = respTarget
				for _, tw := range []*c12Twin{cached, plain} {
					if tw.plain {
						tw.mgr.clearAll()
					}
					req := new(dns.Msg).SetQuestion(dns.Fqdn(q.Host), q.QType)
					req.Id = uint16(4000 + i)
					req.CheckingDisabled, req.AuthenticatedData = q.CD, q.AD
					if q.EDNS > 0 || q.DO {
						sz := q.EDNS
						if sz == 0 {
							sz = 1232
						}
						req.SetEdns0(uint16(sz), q.DO)
					}
					f := tw.s.ForConfig(ctx, p.conf)
					fr := &filter.Request{DNS: req, Messages: p.msgs, RemoteIP: netip.MustParseAddr("192.0.2.9"), ClientName: "dev-" + p.id,
						Host: q.Host, QType: q.QType, QClass: dns.ClassINET}
					a, ra := "", ""
					func() {
						// a panic of the filter is an observation about the code, not a failure of the harness
						defer func() {
							if v := recover(); v != nil {
								a = fmt.Sprintf("panic|%v", v)
							}
						}()
						res, ferr := f.FilterRequest(ctx, fr)
						a = c12AbsResult(req, res, ferr)
					}()
					// response side: an upstream answer with a CNAME into the lists
					resp := new(dns.Msg).SetReply(req)
					resp.Answer = append(resp.Answer, &dns.CNAME{Hdr: dns.RR_Header{Name: dns.Fqdn(q.Host), Rrtype: dns.TypeCNAME, Class: dns.ClassINET, Ttl: 60},
						Target: respTarget})
					func() {
						defer func() {
							if v := recover(); v != nil {
								ra = fmt.Sprintf("panic|%v", v)
							}
						}()
						rres, rerr := f.FilterResponse(ctx, &filter.Response{DNS: resp, RemoteIP: fr.RemoteIP, ClientName: fr.ClientName})
						ra = c12AbsResult(req, rres, rerr)
					}()
					if tw.plain {
						ev.Plain, ev.PlainR = a, ra
					} else {
						ev.Cached, ev.CachedR = a, ra
					}
				}
				out.Emit(ev)
			case r < 90:
				what := []string{"l1", "l2", "svc", "ss", "dangerous", "adult"}[rng.Intn(6)]
				ver[what]++
				render()
				ev := c12Event{Ev: "Refresh", Beh: beh, What: fmt.Sprintf("%s=v%d", what, ver[what]), Errs: []string{}}
				for _, tw := range []*c12Twin{cached, plain} {
					rctx, cancel := context.WithTimeout(ctx, 20*time.Second)
					var err error
					if what == "dangerous" || what == "adult" {
						err = tw.hp[what].Refresh(rctx)
					} else {
						if !tw.plain && rng.Intn(2) == 0 {
							// queries for every host served in the middle of this refresh: whatever they are
							// answered, nothing computed now may be served once Refresh has returned
							st := tw.s
							hookMu.Lock()
							hook = func() {
								for _, p := range profs {
									f := st.ForConfig(ctx, p.conf)
									for _, h := range hosts {
										req := new(dns.Msg).SetQuestion(dns.Fqdn(h), dns.TypeA)
										func() {
											defer func() { _ = recover() }()
											_, _ = f.FilterRequest(ctx, &filter.Request{DNS: req, Messages: p.msgs, RemoteIP: netip.MustParseAddr("192.0.2.9"),
												ClientName: "dev-" + p.id, Host: h, QType: dns.TypeA, QClass: dns.ClassINET})
										}()
									}
								}
							}
							hookMu.Unlock()
						}
						err = tw.s.Refresh(rctx)
						hookMu.Lock()
						hook = nil
						hookMu.Unlock()
					}
					cancel()
					if err != nil {
						ev.Errs = append(ev.Errs, tw.name+": "+err.Error())
					}
				}
				out.Emit(ev)
			default:
				p := profs[rng.Intn(len(profs))]
				setCustom(p)
				out.Emit(c12Event{Ev: "Custom", Beh: beh, What: fmt.Sprintf("%s custom v%d", p.id, p.custom), Errs: []string{}})
			}
		}
		// a profile whose custom rules are updated while a request that still carries the previous snapshot of
		// the profile is having its (large) custom filter compiled: the request with the new snapshot is
		// filtered by the new rules
		for k := 0; k < 3; k++ {
			base := *profs[k%len(profs)].conf
			mk := func(ver int, block bool) *filter.ConfigClient {
				rules := make([]filter.RuleText, 0, 6001)
				for j := 0; j < 6000; j++ {
					rules = append(rules, filter.RuleText(fmt.Sprintf("||filler-%d-%d-%d.c12.example^", ver, k, j)))
				}
				if block {
					rules = append(rules, "||race.c12.example^")
				}
				c := base
				c.Custom = &filter.ConfigCustom{ID: fmt.Sprintf("c12race%d_%d", beh, k), UpdateTime: time.Unix(1_700_000_000, int64(ver)*1000),
					Rules: rules, Enabled: true}
				return &c
			}
			oldConf, newConf := mk(1, k%2 == 0), mk(2, k%2 == 1)
			ask := func(st *Default, conf *filter.ConfigClient) (a string) {
				defer func() {
					if v := recover(); v != nil {
						a = fmt.Sprintf("panic|%v", v)
					}
				}()
				req := new(dns.Msg).SetQuestion("race.c12.example.", dns.TypeA)
				res, ferr := st.ForConfig(ctx, conf).FilterRequest(ctx, &filter.Request{DNS: req, Messages: profs[0].msgs,
					RemoteIP: netip.MustParseAddr("192.0.2.9"), ClientName: "dev-race", Host: "race.c12.example", QType: dns.TypeA, QClass: dns.ClassINET})
				return c12AbsResult(req, res, ferr)
			}
			var wg sync.WaitGroup
			wg.Add(1)
			go func() { defer wg.Done(); _ = ask(cached.s, oldConf) }()
			time.Sleep(time.Duration(500+rng.Intn(2500)) * time.Microsecond)
			got := ask(cached.s, newConf)
			wg.Wait()
			plain.mgr.clearAll()
			want := ask(plain.s, newConf)
			out.Emit(c12Event{Ev: "Query", Beh: beh, Q: c12Query{Prof: "race", Host: "race.c12.example", QType: dns.TypeA}, Errs: []string{},
				Cached: got, Plain: want, CachedR: "n/a", PlainR: "n/a"})
		}
		srv.Close()
	}
}
