//go:build verif

package filterstorage

// C13 harness.  A real filterstorage.Default (rule-list index, two rule lists,
// blocked-service index, general safe search) plus a real hashprefix.Filter
// are refreshed against scripted HTTP endpoints -- one listener per list --
// that produce every fault for real.  After every round the served version of
// every list is revealed by filtering queries (every version of every list
// blocks two hosts unique to it, one from the head and one from the tail of
// its text) and the cache files are read back and compared byte by byte with
// the complete versions.  The harness only records; TLC decides
// (TraceFilterRefresh.tla).

import (
	"bytes"
	"context"
	"encoding/json"
	"fmt"
	"io"
	"log/slog"
	"math/rand"
	"net"
	"net/http"
	"net/url"
	"os"
	"path/filepath"
	"sort"
	"strings"
	"sync"
	"testing"
	"time"

	"github.com/AdguardTeam/AdGuardDNS/internal/agdcache"
	"github.com/AdguardTeam/AdGuardDNS/internal/agdtime"
	"github.com/AdguardTeam/AdGuardDNS/internal/dnsmsg"
	"github.com/AdguardTeam/AdGuardDNS/internal/filter"
	"github.com/AdguardTeam/AdGuardDNS/internal/filter/hashprefix"
	"github.com/AdguardTeam/AdGuardDNS/internal/filter/internal/filtertest"
	"github.com/c2h5oh/datasize"
)

var c13Lists = []string{"ridx", "rl1", "rl2", "sidx", "ss", "hp"}

const (
	c13MaxSize  = 16 * 1024
	c13PadLines = 40
)

// c13ListID is the identifier under which errors of a list are reported.
var c13ListID = map[string]string{
	"ridx": string(FilterIDRuleListIndex), "rl1": "rl1", "rl2": "rl2",
	"sidx": string(FilterIDBlockedServiceIndex), "ss": string(filter.IDGeneralSafeSearch),
	"hp": string(filter.IDSafeBrowsing),
}

func c13Host(list string, ver int, part string) string {
	return fmt.Sprintf("%s-v%d-%s.c13.example", list, ver, part)
}

// c13Text returns the complete text of a non-index list.  pad > 0 adds that
// many bytes of comments in the middle (oversized bodies).
func c13Text(list string, ver int, pad int) []byte {
	b := &bytes.Buffer{}
	line := func(host string) {
		switch list {
		case "hp":
			fmt.Fprintf(b, "%s\n", host)
		case "ss":
			fmt.Fprintf(b, "|%s^$dnsrewrite=NOERROR;CNAME;safe.c13.example\n", host)
		default:
			fmt.Fprintf(b, "||%s^\n", host)
		}
	}
	comment := "! "
	if list == "hp" {
		comment = "# "
	}
	fmt.Fprintf(b, "%s%s version %d\n", comment, list, ver)
	line(c13Host(list, ver, "head"))
	for i := 0; i < c13PadLines; i++ {
		line(fmt.Sprintf("pad%d.%s-v%d.c13pad.example", i, list, ver))
	}
	for n := 0; n < pad; n += 64 {
		fmt.Fprintf(b, "%s%s\n", comment, strings.Repeat("x", 61))
	}
	line(c13Host(list, ver, "tail"))
	return b.Bytes()
}

var c13BadFilters = []string{
	`{"filterKey":"","downloadUrl":"http://127.0.0.1:1/none"}`,
	`{"filterKey":"bad key","downloadUrl":"http://127.0.0.1:1/none"}`,
	`{"filterKey":"bad/key","downloadUrl":"http://127.0.0.1:1/none"}`,
	`{"filterKey":"` + strings.Repeat("k", 300) + `","downloadUrl":"http://127.0.0.1:1/none"}`,
	`{"filterKey":"c13_nourl","downloadUrl":""}`,
	`{"filterKey":"c13_ftp","downloadUrl":"ftp://127.0.0.1/list.txt"}`,
	`{"filterKey":"c13_rel","downloadUrl":"/relative/list.txt"}`,
	`{"filterKey":"c13_garbage","downloadUrl":"http://[::1"}`,
	`{"filterKey":"kéy","downloadUrl":"http://127.0.0.1:1/none"}`,
	`null`,
	`{}`,
	`{"filterKey":"rl1","downloadUrl":"http://127.0.0.1:1/duplicate-of-rl1"}`,
}

var c13BadOwnURLs = []string{``, `ftp://127.0.0.1/rl2.txt`, `http://[::1`, `/rl2.txt`, `mailto:rl2@c13.example`}

var c13BadServices = []string{
	`{"id":"","rules":["||bad-empty.c13.example^"]}`,
	`{"id":"bad id","rules":["||bad-space.c13.example^"]}`,
	`{"id":"bad/id","rules":["||bad-slash.c13.example^"]}`,
	`{"id":"` + strings.Repeat("s", 300) + `","rules":["||bad-long.c13.example^"]}`,
	`{"id":"svç","rules":["||bad-rune.c13.example^"]}`,
	`null`,
}

// c13RuleIndex returns the text of the rule-list index of version ver.  kind
// is "ok", "inv" (invalid entries mixed with the valid ones) or "invown" (in
// addition the entry of rl2 itself has a valid key and an unusable URL).
func c13RuleIndex(ver int, kind string, variant int, pad int, rlURL func(list string, iv int) string) []byte {
	rng := rand.New(rand.NewSource(int64(variant)*7919 + int64(ver)))
	var ents []string
	ents = append(ents, fmt.Sprintf(`{"filterKey":"rl1","downloadUrl":%q}`, rlURL("rl1", ver)))
	if kind == "invown" {
		ents = append(ents, fmt.Sprintf(`{"filterKey":"rl2","downloadUrl":%q}`, c13BadOwnURLs[variant%len(c13BadOwnURLs)]))
	} else {
		ents = append(ents, fmt.Sprintf(`{"filterKey":"rl2","downloadUrl":%q}`, rlURL("rl2", ver)))
	}
	if kind != "ok" {
		n := 1 + rng.Intn(3)
		for i := 0; i < n; i++ {
			bad := c13BadFilters[(variant+i*5)%len(c13BadFilters)]
			// anywhere after the valid entry of rl1 (a duplicate key must
			// come after the entry it duplicates to be the invalid one)
			pos := 1 + rng.Intn(len(ents))
			ents = append(ents[:pos], append([]string{bad}, ents[pos:]...)...)
		}
	}
	s := fmt.Sprintf(`{"c13version":%d,"filters":[`+"\n%s\n]", ver, strings.Join(ents, ",\n"))
	if pad > 0 {
		s += fmt.Sprintf(`,"c13pad":%q`, strings.Repeat("x", pad))
	}
	return []byte(s + "}\n")
}

func c13SvcIndex(ver int, kind string, variant int, pad int) []byte {
	rng := rand.New(rand.NewSource(int64(variant)*104729 + int64(ver)))
	ents := []string{fmt.Sprintf(`{"id":"svc_head","name":"head","rules":["||%s^"]}`, c13Host("sidx", ver, "head"))}
	for i := 0; i < 6; i++ {
		ents = append(ents, fmt.Sprintf(`{"id":"svc_pad%d","name":"pad","rules":["||pad%d.sidx-v%d.c13pad.example^"]}`, i, i, ver))
	}
	ents = append(ents, fmt.Sprintf(`{"id":"svc_tail","name":"tail","rules":["||%s^"]}`, c13Host("sidx", ver, "tail")))
	if kind == "inv" {
		n := 1 + rng.Intn(2)
		for i := 0; i < n; i++ {
			bad := c13BadServices[(variant+i*3)%len(c13BadServices)]
			pos := rng.Intn(len(ents) + 1)
			ents = append(ents[:pos], append([]string{bad}, ents[pos:]...)...)
		}
	}
	s := fmt.Sprintf(`{"c13version":%d,"blocked_services":[`+"\n%s\n]", ver, strings.Join(ents, ",\n"))
	if pad > 0 {
		s += fmt.Sprintf(`,"c13pad":%q`, strings.Repeat("x", pad))
	}
	return []byte(s + "}\n")
}

// c13Limit is the configured size limit of a list: the two indexes have limits of
// their own, different from each other and from that of the lists.
func c13Limit(list string) int {
	switch list {
	case "ridx":
		return c13MaxSize / 2
	case "sidx":
		return c13MaxSize * 3 / 4
	}
	return c13MaxSize
}

// c13Body returns the text of version ver of a list.
func c13Body(list string, ver int, kind string, variant int, pad int, rlURL func(list string, iv int) string) []byte {
	switch list {
	case "ridx":
		return c13RuleIndex(ver, kind, variant, pad, rlURL)
	case "sidx":
		return c13SvcIndex(ver, kind, variant, pad)
	default:
		return c13Text(list, ver, pad)
	}
}

// ---------------------------------------------------------------- endpoints

type c13Req struct {
	Path    string
	Outcome string
}

type c13EP struct {
	name    string
	addr    string
	mu      sync.Mutex
	ln      net.Listener
	srv     *http.Server
	fault   string
	variant int
	body    []byte // complete text of the current remote version
	over    []byte // oversized variant of it
	log     []c13Req
	cancel  func() // cancels the context of the refresh that is downloading this list
}

// record notes the outcome of the request that begin registered.
func (ep *c13EP) record(path, outcome string) {
	ep.mu.Lock()
	for i := range ep.log {
		if ep.log[i].Path == path && ep.log[i].Outcome == "pending" {
			ep.log[i].Outcome = outcome
			break
		}
	}
	ep.mu.Unlock()
}

func (ep *c13EP) snapshot() (log []c13Req) {
	for i := 0; ; i++ {
		ep.mu.Lock()
		log = append([]c13Req(nil), ep.log...)
		ep.mu.Unlock()
		pending := false
		for _, r := range log {
			pending = pending || r.Outcome == "pending"
		}
		if !pending || i > 10000 {
			return log
		}
		time.Sleep(time.Millisecond)
	}
}

var c13StatusCodes = []int{404, 500, 503, 403, 204, 202, 429, 410, 206}

func (ep *c13EP) ServeHTTP(w http.ResponseWriter, r *http.Request) {
	ep.mu.Lock()
	fault, variant, body, over := ep.fault, ep.variant, ep.body, ep.over
	path := r.URL.RequestURI()
	ep.log = append(ep.log, c13Req{Path: path, Outcome: "pending"})
	ep.mu.Unlock()
	w.Header().Set("Server", "c13/1.0")
	w.Header().Set("Content-Type", "text/plain")
	switch fault {
	case "ok", "inv", "invown":
		w.Header().Set("Content-Length", fmt.Sprint(len(body)))
		n, err := w.Write(body)
		if err != nil || n != len(body) {
			ep.record(path, fmt.Sprintf("short:%d/%d:%v", n, len(body), err))
			return
		}
		ep.record(path, "full")
	case "status":
		code := c13StatusCodes[variant%len(c13StatusCodes)]
		w.WriteHeader(code)
		if code != 204 {
			_, _ = w.Write(body) // the new text, should the status be ignored
		}
		ep.record(path, fmt.Sprintf("status:%d", code))
	case "empty":
		if variant%2 == 0 {
			w.Header().Set("Content-Length", "0")
			w.WriteHeader(200)
		} else {
			w.WriteHeader(200)
			w.(http.Flusher).Flush() // chunked, no data
		}
		ep.record(path, "empty")
	case "oversize":
		n, err := w.Write(over)
		ep.record(path, fmt.Sprintf("oversize:%d/%d:%v", n, len(over), err != nil))
	case "trunc":
		cut := []int{len(body) - 1, len(body) / 2, 1, len(body) - 20, 0}[variant%5]
		conn, buf, err := w.(http.Hijacker).Hijack()
		if err != nil {
			ep.record(path, "hijack-failed")
			return
		}
		fmt.Fprintf(buf, "HTTP/1.1 200 OK\r\nServer: c13/1.0\r\nContent-Type: text/plain\r\nContent-Length: %d\r\nConnection: close\r\n\r\n", len(body))
		_, _ = buf.Write(body[:cut])
		_ = buf.Flush()
		if variant%2 == 1 {
			if tc, ok := conn.(*net.TCPConn); ok {
				_ = tc.SetLinger(0) // reset instead of an orderly close
			}
		}
		_ = conn.Close()
		ep.record(path, fmt.Sprintf("trunc:%d/%d", cut, len(body)))
	case "cancel":
		// the refresh as a whole is cancelled while this list is in transfer
		if variant%2 == 1 {
			w.Header().Set("Content-Length", fmt.Sprint(len(body)))
			_, _ = w.Write(body[:len(body)/2])
			w.(http.Flusher).Flush()
		}
		ep.mu.Lock()
		cancel := ep.cancel
		ep.mu.Unlock()
		if cancel == nil {
			ep.record(path, "cancel:no-context")
			return
		}
		cancel()
		select {
		case <-r.Context().Done():
			ep.record(path, "cancel:gone")
		case <-time.After(8 * time.Second):
			ep.record(path, "cancel:guard")
		}
	case "timeout":
		if variant%2 == 1 {
			// headers and half of the text, then silence
			w.Header().Set("Content-Length", fmt.Sprint(len(body)))
			_, _ = w.Write(body[:len(body)/2])
			w.(http.Flusher).Flush()
		}
		select {
		case <-r.Context().Done():
			ep.record(path, "timeout:gone")
		case <-time.After(8 * time.Second):
			ep.record(path, "timeout:guard")
		}
	default:
		ep.record(path, "unexpected-request:"+fault)
		w.WriteHeader(599)
	}
}

func (ep *c13EP) listen() error {
	var err error
	for i := 0; i < 50; i++ {
		var ln net.Listener
		a := ep.addr
		if a == "" {
			a = "127.0.0.1:0"
		}
		ln, err = net.Listen("tcp", a)
		if err == nil {
			ep.ln = ln
			ep.addr = ln.Addr().String()
			ep.srv = &http.Server{Handler: ep, ErrorLog: slog.NewLogLogger(slog.NewTextHandler(io.Discard, nil), slog.LevelError)}
			ep.srv.SetKeepAlivesEnabled(false)
			go func(s *http.Server, l net.Listener) { _ = s.Serve(l) }(ep.srv, ln)
			return nil
		}
		time.Sleep(10 * time.Millisecond)
	}
	return err
}

func (ep *c13EP) stop() {
	if ep.srv != nil {
		_ = ep.srv.Close()
		ep.srv, ep.ln = nil, nil
	}
}

type c13Net struct {
	t       testing.TB
	eps     map[string]*c13EP
	remote  map[string]int
	known   map[string]map[int][]byte // complete texts that were ever on offer
	ownBad  map[int]bool
	timeout time.Duration
}

func c13NewNet(t testing.TB) *c13Net {
	nw := &c13Net{t: t, eps: map[string]*c13EP{}, remote: map[string]int{}, known: map[string]map[int][]byte{},
		ownBad: map[int]bool{}, timeout: time.Duration(vhEnvInt("VERIF_C13_TIMEOUT_MS", 150)) * time.Millisecond}
	for _, l := range c13Lists {
		ep := &c13EP{name: l, fault: "ok"}
		if err := ep.listen(); err != nil {
			t.Fatalf("listen: %v", err)
		}
		nw.eps[l] = ep
		nw.known[l] = map[int][]byte{}
	}
	t.Cleanup(nw.close)
	return nw
}

func (nw *c13Net) close() {
	for _, ep := range nw.eps {
		ep.stop()
	}
	http.DefaultTransport.(*http.Transport).CloseIdleConnections()
}

func (nw *c13Net) url(list string) *url.URL {
	return &url.URL{Scheme: "http", Host: nw.eps[list].addr, Path: "/" + list}
}

func (nw *c13Net) rlURL(list string, iv int) string {
	return fmt.Sprintf("http://%s/%s?iv=%d", nw.eps[list].addr, list, iv)
}

// set scripts every endpoint for one round.  down closes every listener.
func (nw *c13Net) set(ver map[string]int, faults map[string]string, variants map[string]int, down bool) {
	for _, l := range c13Lists {
		ep := nw.eps[l]
		f := faults[l]
		if down {
			f = "refused"
		}
		kind := "ok"
		if f == "inv" || f == "invown" {
			kind = f
		}
		v := ver[l]
		body := c13Body(l, v, kind, variants[l], 0, nw.rlURL)
		lim := c13Limit(l)
		extra := []int{lim - len(body) + 1, lim, 3 * lim}[variants[l]%3]
		over := c13Body(l, v, kind, variants[l], extra, nw.rlURL)
		ep.mu.Lock()
		ep.fault, ep.variant, ep.body, ep.over, ep.log = f, variants[l], body, over, nil
		ep.mu.Unlock()
		nw.remote[l] = v
		if f != "refused" {
			// only a text that can be downloaded completely is a version
			if old, ok := nw.known[l][v]; ok && !bytes.Equal(old, body) && (f == "ok" || f == "inv" || f == "invown") {
				nw.t.Fatalf("two different texts for %s version %d", l, v)
			}
			if f == "ok" || f == "inv" || f == "invown" {
				nw.known[l][v] = body
			}
		}
		if l == "ridx" && f == "invown" {
			nw.ownBad[v] = true
		}
		if f == "refused" {
			ep.stop()
		} else if ep.srv == nil {
			if err := ep.listen(); err != nil {
				nw.t.Fatalf("cannot listen again on %s: %v", ep.addr, err)
			}
		}
	}
	http.DefaultTransport.(*http.Transport).CloseIdleConnections()
}

// ---------------------------------------------------------------- storage

type c13Errs struct {
	mu   sync.Mutex
	errs []string
}

func (e *c13Errs) Collect(_ context.Context, err error) {
	e.mu.Lock()
	e.errs = append(e.errs, err.Error())
	e.mu.Unlock()
}

func (e *c13Errs) take() []string {
	e.mu.Lock()
	defer e.mu.Unlock()
	r := e.errs
	e.errs = nil
	return r
}

type c13Proc struct {
	s      *Default
	hp     *hashprefix.Filter
	errs   *c13Errs
	probes int
}

func c13Paths(dir string) map[string]string {
	return map[string]string{
		"ridx": filepath.Join(dir, indexFileNameRuleLists),
		"rl1":  filepath.Join(dir, "rl1"),
		"rl2":  filepath.Join(dir, "rl2"),
		"sidx": filepath.Join(dir, indexFileNameBlockedServices),
		"ss":   filepath.Join(dir, string(filter.IDGeneralSafeSearch)),
		"hp":   filepath.Join(dir, "hashprefix", string(filter.IDSafeBrowsing)),
	}
}

// c13Start builds a new "process": hash-prefix filter and storage with their
// initial refreshes, in the order cmd uses.
// c13SvcFresh: the blocked-service index and the safe-search list are considered fresh for an hour (so a
// round does not download them again): then a round whose context ends while a rule list is being
// downloaded (fault "cancel"; in production the context and each download share one time-out) still
// reaches the end of the refresh.
var c13SvcFresh bool

func c13Start(dir string, urls func(list string) *url.URL, timeout time.Duration) (p *c13Proc, err error) {
	logger := slog.New(slog.NewTextHandler(io.Discard, nil))
	errs := &c13Errs{}
	const stale = 1 * time.Nanosecond
	svcStale := stale
	if c13SvcFresh {
		svcStale = time.Hour
	}
	paths := c13Paths(dir)
	if err = os.MkdirAll(filepath.Dir(paths["hp"]), 0o700); err != nil {
		return nil, err
	}
	hashes, err := hashprefix.NewStorage("")
	if err != nil {
		return nil, err
	}
	hp, err := hashprefix.NewFilter(&hashprefix.FilterConfig{
		Logger: logger, Cloner: dnsmsg.NewCloner(dnsmsg.EmptyClonerStat{}), CacheManager: agdcache.EmptyManager{},
		Hashes: hashes, URL: urls("hp"), ErrColl: errs, Metrics: filter.EmptyMetrics{}, ID: filter.IDSafeBrowsing,
		CachePath: paths["hp"], ReplacementHost: "repl.c13.example", Staleness: stale, CacheTTL: time.Hour,
		RefreshTimeout: timeout, CacheCount: 100, MaxSize: c13MaxSize * datasize.B,
	})
	if err != nil {
		return nil, err
	}
	s, err := New(&Config{
		BaseLogger: logger, Logger: logger,
		BlockedServices: &ConfigBlockedServices{
			IndexURL: urls("sidx"), IndexMaxSize: datasize.ByteSize(c13Limit("sidx")) * datasize.B, IndexRefreshTimeout: timeout,
			IndexStaleness: svcStale, ResultCacheCount: 100, ResultCacheEnabled: true, Enabled: true,
		},
		Custom:     &ConfigCustom{CacheCount: 10},
		HashPrefix: &ConfigHashPrefix{Dangerous: hp},
		RuleLists: &ConfigRuleLists{
			IndexURL: urls("ridx"), IndexMaxSize: datasize.ByteSize(c13Limit("ridx")) * datasize.B, MaxSize: c13MaxSize * datasize.B,
			IndexRefreshTimeout: timeout, IndexStaleness: stale, RefreshTimeout: timeout, Staleness: stale,
			ResultCacheCount: 100, ResultCacheEnabled: true,
		},
		SafeSearchGeneral: &ConfigSafeSearch{
			URL: urls("ss"), ID: filter.IDGeneralSafeSearch, MaxSize: c13MaxSize * datasize.B, ResultCacheTTL: time.Hour,
			RefreshTimeout: timeout, Staleness: svcStale, ResultCacheCount: 100, Enabled: true,
		},
		SafeSearchYouTube: &ConfigSafeSearch{ID: filter.IDYoutubeSafeSearch, Enabled: false},
		CacheManager:      agdcache.EmptyManager{},
		Clock:             agdtime.SystemClock{},
		ErrColl:           errs,
		Metrics:           filter.EmptyMetrics{},
		CacheDir:          dir,
	})
	if err != nil {
		return nil, err
	}
	p = &c13Proc{s: s, hp: hp, errs: errs}
	ctx, cancel := context.WithTimeout(context.Background(), 30*time.Second)
	defer cancel()
	if err = c13NoPanic(func() error { return hp.RefreshInitial(ctx) }); err != nil {
		return p, fmt.Errorf("hashprefix initial refresh: %w", err)
	}
	if err = c13NoPanic(func() error { return s.RefreshInitial(ctx) }); err != nil {
		return p, fmt.Errorf("storage initial refresh: %w", err)
	}
	return p, nil
}

// round runs one refresh of the storage and one of the hash-prefix filter.
func (p *c13Proc) round(nw *c13Net) (serr, herr error) {
	sctx, scancel := context.WithTimeout(context.Background(), 60*time.Second)
	defer scancel()
	hctx, hcancel := context.WithTimeout(context.Background(), 60*time.Second)
	defer hcancel()
	for l, ep := range nw.eps {
		ep.mu.Lock()
		if l == "hp" {
			ep.cancel = hcancel
		} else {
			ep.cancel = scancel
		}
		ep.mu.Unlock()
	}
	serr = c13NoPanic(func() error { return p.s.Refresh(sctx) })
	herr = c13NoPanic(func() error { return p.hp.Refresh(hctx) })
	return serr, herr
}

// c13NoPanic turns a panic of the code under test into an error (in
// production it would take the process down; for the round it is a failure).
func c13NoPanic(f func() error) (err error) {
	defer func() {
		if r := recover(); r != nil {
			err = fmt.Errorf("PANIC: %v", r)
		}
	}()
	return f()
}

var c13FltConf = &filter.ConfigClient{
	Custom: &filter.ConfigCustom{Enabled: false},
	Parental: &filter.ConfigParental{
		Enabled: true, SafeSearchGeneralEnabled: true,
		BlockedServices: []filter.BlockedServiceID{"svc_head", "svc_tail"},
	},
	RuleList:     &filter.ConfigRuleList{Enabled: true, IDs: []filter.ID{"rl1", "rl2"}},
	SafeBrowsing: &filter.ConfigSafeBrowsing{Enabled: true, DangerousDomainsEnabled: true},
}

var c13ResultID = map[string]filter.ID{
	"rl1": "rl1", "rl2": "rl2", "sidx": filter.IDBlockedService, "ss": filter.IDGeneralSafeSearch, "hp": filter.IDSafeBrowsing,
}

// c13Probe asks the real filters about the probe hosts of versions 1..maxVer
// of every list: 0 nothing of the list is served, k exactly version k
// completely, -1 anything else.
func c13Probe(t testing.TB, p *c13Proc, maxVer int) (served map[string]int, detail string) {
	served = map[string]int{}
	// besides the first and the last host of a text, one host from its middle
	// that this process was never asked about (no result cache can know it)
	p.probes++
	parts := []string{"head", "tail", fmt.Sprintf("pad%d", p.probes%c13PadLines)}
	ctx := context.Background()
	f := p.s.ForConfig(ctx, c13FltConf)
	var odd []string
	for _, l := range c13Lists[1:] {
		var hits []string
		vers := map[int]int{}
		for v := 1; v <= maxVer; v++ {
			for _, part := range parts {
				host := c13Host(l, v, part)
				if strings.HasPrefix(part, "pad") {
					if l == "sidx" {
						continue
					}
					host = fmt.Sprintf("%s.%s-v%d.c13pad.example", part, l, v)
				}
				r, err := f.FilterRequest(ctx, filtertest.NewARequest(t, host))
				if err != nil {
					hits = append(hits, fmt.Sprintf("%s:error:%v", host, err))
					vers[-1]++
					continue
				}
				if r == nil {
					continue
				}
				id, _ := r.MatchedRule()
				if id != c13ResultID[l] {
					hits = append(hits, fmt.Sprintf("%s:by:%s", host, id))
					vers[-1]++
					continue
				}
				hits = append(hits, host)
				vers[v]++
			}
		}
		switch {
		case len(vers) == 0:
			served[l] = 0
		case len(vers) == 1 && vers[-1] == 0:
			for v, n := range vers {
				if n == len(parts) || (l == "sidx" && n == 2) {
					served[l] = v
				} else {
					served[l] = -1
				}
			}
		default:
			served[l] = -1
		}
		if served[l] == -1 {
			odd = append(odd, fmt.Sprintf("%s:%v", l, hits))
		}
	}
	return served, strings.Join(odd, ";")
}

// c13Disk classifies the cache files: 0 absent, k byte-equal to complete
// version k, -1 anything else.
func c13Disk(dir string, known map[string]map[int][]byte) (disk map[string]int, detail string) {
	disk = map[string]int{}
	var odd []string
	for l, path := range c13Paths(dir) {
		b, err := os.ReadFile(path)
		if err != nil {
			if os.IsNotExist(err) {
				disk[l] = 0
			} else {
				disk[l] = -1
				odd = append(odd, fmt.Sprintf("%s:%v", l, err))
			}
			continue
		}
		disk[l] = -1
		for v, text := range known[l] {
			if bytes.Equal(text, b) {
				disk[l] = v
			}
		}
		if disk[l] == -1 {
			odd = append(odd, fmt.Sprintf("%s:%d bytes:%q", l, len(b), c13Clip(b)))
		}
	}
	sort.Strings(odd)
	return disk, strings.Join(odd, ";")
}

func c13Clip(b []byte) string {
	if len(b) > 80 {
		return string(b[:40]) + "..." + string(b[len(b)-30:])
	}
	return string(b)
}

// ---------------------------------------------------------------- stepper

type c13Step struct {
	A      string            `json:"a"` // Round | Crash | Restart
	Faults map[string]string `json:"faults"`
	Up     bool              `json:"up"`
}

type c13Beh struct {
	Absent []string  `json:"absent"`
	Steps  []c13Step `json:"steps"`
}

var c13AllFaults = []string{"ok", "refused", "timeout", "status", "empty", "oversize", "trunc", "cancel", "inv", "invown"}

func c13FaultsOf(l string) []string {
	switch l {
	case "ridx":
		return c13AllFaults
	case "sidx":
		return c13AllFaults[:9]
	default:
		return c13AllFaults[:8]
	}
}

func c13RandomBeh(rng *rand.Rand, rounds int) (b c13Beh) {
	b.Absent = []string{}
	switch rng.Intn(6) {
	case 0:
		b.Absent = []string{"rl2"}
	case 1:
		b.Absent = []string{"rl1"}
	}
	pOK := []float64{0.3, 0.55, 0.8}[rng.Intn(3)]
	for r := 0; r < rounds; r++ {
		fs := map[string]string{}
		for _, l := range c13Lists {
			if rng.Float64() < pOK {
				fs[l] = "ok"
			} else {
				opts := c13FaultsOf(l)
				fs[l] = opts[1+rng.Intn(len(opts)-1)]
			}
		}
		b.Steps = append(b.Steps, c13Step{A: "Round", Faults: fs})
		if rng.Intn(4) == 0 {
			b.Steps = append(b.Steps, c13Step{A: "Crash"}, c13Step{A: "Restart", Up: rng.Intn(3) == 0})
		}
	}
	return b
}

func c13AllOK() map[string]string {
	m := map[string]string{}
	for _, l := range c13Lists {
		m[l] = "ok"
	}
	return m
}

// c13Realised reports what really happened to the download of every list in
// the last round: the outcome the endpoint recorded, "refused" when the
// client reported a refused connection, "unreached" when nothing happened.
func c13Realised(nw *c13Net, errs []string) (real map[string]string, reached map[string]bool, staleIV bool) {
	real, reached = map[string]string{}, map[string]bool{}
	for _, l := range c13Lists {
		ep := nw.eps[l]
		log := ep.snapshot()
		real[l] = "unreached"
		if len(log) > 0 {
			real[l] = log[len(log)-1].Outcome
			if len(log) > 1 {
				real[l] += fmt.Sprintf("(+%d requests)", len(log)-1)
			}
			reached[l] = true
			if l == "rl1" || l == "rl2" {
				for _, rq := range log {
					if !strings.HasSuffix(rq.Path, fmt.Sprintf("?iv=%d", nw.remote["ridx"])) {
						staleIV = true
					}
				}
			}
			continue
		}
		for _, e := range errs {
			if strings.Contains(e, `"`+c13ListID[l]+`"`) || strings.Contains(e, c13ListID[l]+":") {
				reached[l] = true
				if strings.Contains(e, "connection refused") {
					real[l] = "refused"
				} else if real[l] == "unreached" {
					real[l] = "error-without-request:" + e
				}
			}
		}
	}
	return real, reached, staleIV
}

func c13RunBeh(t *testing.T, out *vhOut, nw *c13Net, rng *rand.Rand, id int, b c13Beh) {
	dir := t.TempDir()
	ver := map[string]int{}
	for _, l := range c13Lists {
		ver[l] = 1
		nw.known[l] = map[int][]byte{}
	}
	nw.ownBad = map[int]bool{}
	variants := map[string]int{}
	// first start: everything at version 1; absent rule lists cannot be reached
	f0 := c13AllOK()
	for _, l := range b.Absent {
		f0[l] = "refused"
	}
	nw.set(ver, f0, variants, false)
	c13SvcFresh = id%3 == 2
	p, err := c13Start(dir, nw.url, nw.timeout)
	if err != nil {
		t.Fatalf("behaviour %d: first start failed: %v", id, err)
	}
	out.Emit(map[string]any{"ev": "Reset", "beh": id, "absent": b.Absent, "fresh": c13SvcFresh})
	emitProbe := func(applied bool, extra map[string]any) {
		served, sd := c13Probe(t, p, ver["ridx"]+1)
		disk, dd := c13Disk(dir, nw.known)
		ev := map[string]any{"ev": "Probe", "beh": id, "served": served, "disk": disk, "applied": applied,
			"odd_served": sd, "odd_disk": dd}
		for k, v := range extra {
			ev[k] = v
		}
		out.Emit(ev)
	}
	p.errs.take()
	emitProbe(false, nil)
	lastFaults := map[string]string{}
	for _, st := range b.Steps {
		switch st.A {
		case "Round":
			if p == nil {
				return // the process is down for good (start failed); nothing more to drive
			}
			for _, l := range c13Lists {
				ver[l]++
				variants[l] = rng.Intn(1000)
			}
			nw.set(ver, st.Faults, variants, false)
			lastFaults = st.Faults
			remote := map[string]int{}
			for l, v := range ver {
				remote[l] = v
			}
			t0 := time.Now()
			serr, herr := p.round(nw)
			errs := p.errs.take()
			real, reached, staleIV := c13Realised(nw, errs)
			out.Emit(map[string]any{"ev": "Round", "beh": id, "faults": st.Faults, "remote": remote,
				"variants": c13Copy(variants), "real": real, "ms": time.Since(t0).Milliseconds(),
				"storage_err": fmt.Sprint(serr), "hp_err": fmt.Sprint(herr), "errors": c13ClipAll(errs)})
			emitProbe((reached["rl1"] || reached["rl2"]) && !staleIV, map[string]any{"stale_iv": staleIV})
		case "Crash":
			if p == nil {
				continue // already down (a start failed)
			}
			// the process vanishes: nothing of it is used any more
			p = nil
			disk, dd := c13Disk(dir, nw.known)
			out.Emit(map[string]any{"ev": "Crash", "beh": id, "disk": disk, "odd_disk": dd})
		case "Restart":
			// the servers keep offering the same texts as in the last round
			fs := c13AllOK()
			for l, f := range lastFaults {
				if f == "inv" || f == "invown" {
					fs[l] = f
				}
			}
			nw.set(ver, fs, variants, !st.Up)
			var serr error
			p, serr = c13Start(dir, nw.url, nw.timeout)
			ev := map[string]any{"ev": "Restart", "beh": id, "up": st.Up, "ok": serr == nil, "err": fmt.Sprint(serr)}
			served := map[string]int{}
			for _, l := range c13Lists[1:] {
				served[l] = 0
			}
			if serr == nil {
				p.errs.take()
				served, ev["odd_served"] = c13Probe(t, p, ver["ridx"]+1)
			} else {
				p = nil
			}
			ev["served"] = served
			ev["disk"], ev["odd_disk"] = c13Disk(dir, nw.known)
			out.Emit(ev)
		default:
			t.Fatalf("unknown step %q", st.A)
		}
	}
}

func c13Copy(m map[string]int) map[string]int {
	r := map[string]int{}
	for k, v := range m {
		r[k] = v
	}
	return r
}

func c13ClipAll(errs []string) []string {
	r := []string{}
	for _, e := range errs {
		if len(e) > 300 {
			e = e[:300]
		}
		r = append(r, e)
	}
	return r
}

// c13Directed returns the systematic part: after a fault-free round, every
// fault kind at every list position with all other lists fault-free, followed
// by a process drop and a restart without network.
func c13Directed() (behs []c13Beh) {
	for _, l := range c13Lists {
		for _, f := range c13FaultsOf(l)[1:] {
			fs := c13AllOK()
			fs[l] = f
			behs = append(behs, c13Beh{Absent: []string{}, Steps: []c13Step{
				{A: "Round", Faults: c13AllOK()}, {A: "Round", Faults: fs}, {A: "Crash"}, {A: "Restart", Up: false},
				{A: "Round", Faults: c13AllOK()},
			}})
		}
	}
	return behs
}

// TestVerifC13Stepper replays TLC-generated behaviours ($VERIF_IN) and seeded
// random fault sequences.
func TestVerifC13Stepper(t *testing.T) {
	out := vhOpen(t)
	behs := c13Directed()
	if p := os.Getenv("VERIF_IN"); p != "" {
		var fromTLC []c13Beh
		vhReadJSON(t, p, &fromTLC)
		behs = append(behs, fromTLC...)
	}
	rng := rand.New(rand.NewSource(vhSeed()))
	for i, n := 0, vhEnvInt("VERIF_NRANDOM", 10); i < n; i++ {
		rounds := 2 + rng.Intn(2)
		if vhThorough() {
			rounds = 2 + rng.Intn(4)
		}
		behs = append(behs, c13RandomBeh(rng, rounds))
	}
	nw := c13NewNet(t)
	for i, b := range behs {
		c13RunBeh(t, out, nw, rng, i, b)
	}
	_ = json.Marshal
}
