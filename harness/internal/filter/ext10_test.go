//go:build verif

package filter

// EXT10 (b): the real DayInterval.Validate and ConfigSchedule.Contains evaluated on every row of the
// table TLC enumerated from specs/Schedule.tla (VERIF_IN), plus a seeded random leg.  One NDJSON event
// per row; the trace spec TraceSchedule re-derives the expected result of every line.

import (
	"math/rand"
	"os"
	"testing"
	"time"
	_ "time/tzdata"

	"github.com/AdguardTeam/AdGuardDNS/internal/agdtime"
	"github.com/AdguardTeam/golibs/errors"
)

type ext10Row struct {
	K     string   `json:"k"`
	Zone  string   `json:"zone"`
	Week  string   `json:"week"`
	Ivs   [][2]int `json:"ivs"`
	T     int64    `json:"t"`
	IsNil bool     `json:"isnil"`
	S     int      `json:"s"`
	E     int      `json:"e"`
}

type ext10CEv struct {
	Ev    string   `json:"ev"`
	Src   string   `json:"src"`
	Zone  string   `json:"zone"`
	Week  string   `json:"week"`
	Ivs   [][2]int `json:"ivs"`
	T     int64    `json:"t"`
	Off   int      `json:"off"`   // the offset the Go runtime applies in this zone at this instant
	Ok    bool     `json:"ok"`    // Contains(t), t expressed in UTC
	OkLoc bool     `json:"okloc"` // Contains(t), the same instant expressed in another location
	OkNew bool     `json:"oknew"` // Contains(t) of a freshly built equal schedule
	Again bool     `json:"again"` // the first call repeated
	Rep   bool     `json:"rep"`   // this line repeats the inputs of the previous line
	Local string   `json:"local"` // for the reader: the local time
}

type ext10VEv struct {
	Ev    string `json:"ev"`
	Src   string `json:"src"`
	IsNil bool   `json:"isnil"`
	S     int    `json:"s"`
	E     int    `json:"e"`
	Ok    bool   `json:"ok"`
	Range bool   `json:"range"` // the error is errors.ErrOutOfRange
	Again bool   `json:"again"`
	Err   string `json:"err"`
}

// 2023-12-31T00:00:00Z, a Sunday: the epoch of the specification
var ext10Epoch = time.Date(2023, 12, 31, 0, 0, 0, 0, time.UTC)

func ext10Week(ivs [][2]int) *WeeklySchedule {
	w := &WeeklySchedule{}
	for i, iv := range ivs {
		if iv[0] < 0 {
			continue
		}
		w[i] = &DayInterval{Start: uint16(iv[0]), End: uint16(iv[1])}
	}
	return w
}

func ext10Contains(t *testing.T, locs map[string]*agdtime.Location, others []*time.Location, src string, r ext10Row, rep bool) ext10CEv {
	loc := locs[r.Zone]
	if loc == nil {
		var err error
		loc, err = agdtime.LoadLocation(r.Zone)
		if err != nil {
			t.Fatalf("zone %q: %v", r.Zone, err)
		}
		locs[r.Zone] = loc
	}
	if len(r.Ivs) != 7 {
		t.Fatalf("row with %d intervals", len(r.Ivs))
	}
	s := &ConfigSchedule{Week: ext10Week(r.Ivs), TimeZone: loc}
	inst := ext10Epoch.Add(time.Duration(r.T) * time.Second)
	ev := ext10CEv{Ev: "C", Src: src, Zone: r.Zone, Week: r.Week, Ivs: r.Ivs, T: r.T, Rep: rep}
	_, ev.Off = inst.In(&loc.Location).Zone()
	ev.Local = inst.In(&loc.Location).Format("Mon 2006-01-02 15:04:05 -0700")
	ev.Ok = s.Contains(inst)
	ev.OkLoc = s.Contains(inst.In(others[int(r.T%int64(len(others))+int64(len(others)))%len(others)]))
	loc2, err := agdtime.LoadLocation(r.Zone)
	if err != nil {
		t.Fatal(err)
	}
	ev.OkNew = (&ConfigSchedule{Week: ext10Week(r.Ivs), TimeZone: loc2}).Contains(inst)
	ev.Again = s.Contains(inst)
	return ev
}

func ext10Validate(src string, isnil bool, s, e int) ext10VEv {
	var iv *DayInterval
	if !isnil {
		iv = &DayInterval{Start: uint16(s), End: uint16(e)}
	}
	err := iv.Validate()
	ev := ext10VEv{Ev: "V", Src: src, IsNil: isnil, S: s, E: e, Ok: err == nil}
	if err != nil {
		ev.Err = err.Error()
		ev.Range = errors.Is(err, errors.ErrOutOfRange)
	}
	ev.Again = iv.Validate() == nil
	return ev
}

func TestVerifEXT10Schedule(t *testing.T) {
	out := vhOpen(t)
	var rows []ext10Row
	vhReadJSON(t, os.Getenv("VERIF_IN"), &rows)
	locs := map[string]*agdtime.Location{}
	var others []*time.Location
	for _, n := range []string{"UTC", "Asia/Tokyo", "America/Los_Angeles", "Europe/London", "Pacific/Chatham"} {
		l, err := time.LoadLocation(n)
		if err != nil {
			t.Fatal(err)
		}
		others = append(others, l)
	}
	others = append(others, time.FixedZone("x", -3*3600-1800))
	for i, r := range rows {
		switch r.K {
		case "C":
			out.Emit(ext10Contains(t, locs, others, "table", r, false))
			if i%97 == 0 { // determinism across lines: the same inputs once more
				out.Emit(ext10Contains(t, locs, others, "table", r, true))
			}
		case "V":
			out.Emit(ext10Validate("table", r.IsNil, r.S, r.E))
		default:
			t.Fatalf("row kind %q", r.K)
		}
	}

	// the random leg
	rng := rand.New(rand.NewSource(vhSeed()*7919 + 10))
	zones := []string{"UTC", "Asia/Kolkata", "Asia/Kathmandu", "Pacific/Kiritimati", "Etc/GMT+12", "America/Phoenix",
		"Europe/Berlin", "America/New_York", "Australia/Lord_Howe"}
	// the days the clocks change in one of the zones (local days), and plain days
	dst := []int64{70, 91, 97, 98, 279, 280, 301, 308}
	n := vhEnvInt("VERIF_NRANDOM", 500)
	randIv := func() [2]int {
		switch rng.Intn(8) {
		case 0:
			return [2]int{-1, -1}
		case 1:
			return [2]int{0, 0}
		case 2:
			return [2]int{0, 1440}
		case 3:
			a := rng.Intn(1440)
			return [2]int{a, a}
		default:
			a := rng.Intn(1440)
			return [2]int{a, a + rng.Intn(1441-a)}
		}
	}
	var prev ext10Row
	for i := 0; i < n; i++ {
		if i > 0 && rng.Intn(20) == 0 {
			out.Emit(ext10Contains(t, locs, others, "random", prev, true))
			continue
		}
		r := ext10Row{K: "C", Zone: zones[rng.Intn(len(zones))], Week: "random", Ivs: make([][2]int, 7)}
		for d := range r.Ivs {
			r.Ivs[d] = randIv()
		}
		var day int64
		if rng.Intn(2) == 0 {
			day = dst[rng.Intn(len(dst))] + int64(rng.Intn(3)) - 1
		} else {
			day = 3 + int64(rng.Intn(360))
		}
		sec := int64(rng.Intn(86400))
		if rng.Intn(3) == 0 { // on a boundary of some interval of the week, or next to it
			iv := r.Ivs[rng.Intn(7)]
			if iv[0] >= 0 {
				sec = int64(iv[rng.Intn(2)])*60 + int64(rng.Intn(3)) - 1
			}
		}
		r.T = day*86400 + sec - int64(rng.Intn(27)-12)*3600
		if r.T < 2*86400 {
			r.T = 2 * 86400
		}
		if r.T >= 365*86400 {
			r.T = 365*86400 - 1
		}
		out.Emit(ext10Contains(t, locs, others, "random", r, false))
		prev = r
	}
	for i := 0; i < n/4; i++ {
		var s, e int
		switch rng.Intn(4) {
		case 0:
			s, e = rng.Intn(65536), rng.Intn(65536)
		case 1:
			s, e = 1436+rng.Intn(8), 1436+rng.Intn(8)
		default:
			s, e = rng.Intn(1445), rng.Intn(1445)
		}
		out.Emit(ext10Validate("random", false, s, e))
	}
}
