//go:build verif

// C13, on-disk clause with two refreshes of ONE refreshable in flight at once
// (the periodic worker and a refresh asked for through the debug API are
// serialised by nothing): AtomicFile2.tla.  The first refresh is held after
// the first half of its download has reached its temporary file; the second
// one runs to completion; then the first one is let go.  The cache file is
// read after each of these moments: it must hold a complete version.
package refreshable

import (
	"context"
	"fmt"
	"io"
	"log/slog"
	"net/http"
	"net/http/httptest"
	"net/url"
	"os"
	"path/filepath"
	"strings"
	"sync"
	"testing"
	"time"

	"github.com/c2h5oh/datasize"
)

type c13OvEvent struct {
	Ev     string `json:"ev"`
	Round  int    `json:"round"`
	Chunk  int    `json:"chunk"`
	AfterB string `json:"after_b"`
	Final  string `json:"final"`
	ErrA   string `json:"err_a"`
	ErrB   string `json:"err_b"`
}

func c13OvText(ver string, chunk int) (first, second string) {
	line := func(part string, i int) string { return fmt.Sprintf("||%s-%s-%05d.c13.example^\n", ver, part, i) }
	var a, b strings.Builder
	for i := 0; a.Len() < chunk; i++ {
		a.WriteString(line("head", i))
	}
	for i := 0; b.Len() < chunk; i++ {
		b.WriteString(line("tail", i))
	}
	return a.String(), b.String()
}

func TestVerifC13Overlap(t *testing.T) {
	out := vhOpen(t)
	rounds := vhEnvInt("VERIF_ROUNDS", 4)
	dir, err := os.MkdirTemp(os.Getenv("VERIF_SCRATCH"), "c13overlap")
	if err != nil {
		t.Fatal(err)
	}
	defer os.RemoveAll(dir)
	for round := 0; round < rounds; round++ {
		chunk := []int{4 << 10, 64 << 10, 300 << 10, 1 << 10}[round%4]
		var mu sync.Mutex
		n := 0
		hold := make(chan struct{})
		half := make(chan struct{}, 4)
		texts := map[string]string{}
		srv := httptest.NewServer(http.HandlerFunc(func(w http.ResponseWriter, _ *http.Request) {
			mu.Lock()
			n++
			k := n
			mu.Unlock()
			ver := []string{"old", "va", "vb"}[(k-1)%3]
			first, second := c13OvText(ver, chunk)
			mu.Lock()
			texts[ver] = first + second
			mu.Unlock()
			w.Header().Set("Content-Length", fmt.Sprint(len(first)+len(second)))
			_, _ = io.WriteString(w, first)
			if f, ok := w.(http.Flusher); ok {
				f.Flush()
			}
			if k == 2 {
				// the second download ("va") stops half-way until it is let go
				half <- struct{}{}
				<-hold
			}
			_, _ = io.WriteString(w, second)
		}))
		u, _ := url.Parse(srv.URL + "/list")
		path := filepath.Join(dir, fmt.Sprintf("list%d", round))
		r, nerr := New(&Config{Logger: slog.New(slog.NewTextHandler(io.Discard, nil)), URL: u, ID: "c13_overlap", CachePath: path,
			Staleness: time.Nanosecond, Timeout: 20 * time.Second, MaxSize: 16 * datasize.MB})
		if nerr != nil {
			t.Fatal(nerr)
		}
		ctx := context.Background()
		if _, err = r.Refresh(ctx, false); err != nil {
			t.Fatalf("initial refresh: %v", err)
		}
		classify := func() string {
			b, rerr := os.ReadFile(path)
			if rerr != nil {
				return "absent"
			}
			mu.Lock()
			defer mu.Unlock()
			for ver, txt := range texts {
				if string(b) == txt {
					return ver
				}
			}
			return "corrupt"
		}
		ev := c13OvEvent{Ev: "Overlap", Round: round, Chunk: chunk}
		doneA := make(chan error, 1)
		go func() { _, e := r.Refresh(ctx, false); doneA <- e }()
		select {
		case <-half:
		case <-time.After(10 * time.Second):
			t.Fatal("the held download did not start")
		}
		time.Sleep(150 * time.Millisecond) // the first half reaches the temporary file
		if _, errB := r.Refresh(ctx, false); errB != nil {
			ev.ErrB = errB.Error()
		}
		ev.AfterB = classify()
		close(hold)
		if errA := <-doneA; errA != nil {
			ev.ErrA = errA.Error()
		}
		ev.Final = classify()
		out.Emit(ev)
		srv.Close()
	}
}
