//go:build verif

package rulelist_test

// C12 interleavings of ONE request against ONE refresh on the real
// rulelist.Refreshable (the object behind safesearch.Filter, which is refreshed
// in place while it is queried).  The result cache handed to the filter is
// wrapped by a gate that can park its caller at Get, at Set and before/after
// Clear: the actor that reaches the armed point is parked, the other actor is
// started and given time to finish (or found to wait: a common lock), the
// parked one is released, and a LATE request is issued after Refresh returned.
// Recorded: what the late request got and what a brand-new cache-less filter
// on the new list answers.  TLC (TraceFilterCache.tla) decides.

import (
	"context"
	"fmt"
	"io"
	"log/slog"
	"net/http"
	"net/http/httptest"
	"net/netip"
	"net/url"
	"os"
	"path/filepath"
	"sync"
	"testing"
	"time"

	"github.com/AdguardTeam/AdGuardDNS/internal/agdcache"
	"github.com/AdguardTeam/AdGuardDNS/internal/filter/internal"
	"github.com/AdguardTeam/AdGuardDNS/internal/filter/internal/refreshable"
	"github.com/AdguardTeam/AdGuardDNS/internal/filter/internal/rulelist"
	"github.com/AdguardTeam/urlfilter"
	"github.com/c2h5oh/datasize"
	"github.com/miekg/dns"
)

type c12RLGate struct {
	agdcache.Interface[internal.CacheKey, *rulelist.CacheItem]
	mu      sync.Mutex
	armed   string // "", "get", "set", "pre-clear", "post-clear"
	atGate  chan struct{}
	release chan struct{}
}

func (g *c12RLGate) park(point string) {
	g.mu.Lock()
	hit := g.armed == point
	if hit {
		g.armed = ""
	}
	g.mu.Unlock()
	if hit {
		g.atGate <- struct{}{}
		<-g.release
	}
}

func (g *c12RLGate) Get(k internal.CacheKey) (v *rulelist.CacheItem, ok bool) {
	g.park("get")

	return g.Interface.Get(k)
}

func (g *c12RLGate) Set(k internal.CacheKey, v *rulelist.CacheItem) {
	g.park("set")
	g.Interface.Set(k, v)
}

func (g *c12RLGate) Clear() {
	g.park("pre-clear")
	g.Interface.Clear()
	g.park("post-clear")
}

type c12RLEvent struct {
	Ev         string            `json:"ev"`
	What       string            `json:"what"`
	Q          map[string]string `json:"q"`
	Cached     string            `json:"cached"`
	Plain      string            `json:"plain"`
	Waited     bool              `json:"other_waited"`
	Concurrent string            `json:"concurrent"`
}

func c12RLAbs(r *urlfilter.DNSResult) string {
	if r == nil {
		return "none"
	}
	s := "match"
	for _, nr := range r.NetworkRules {
		s += "|" + nr.RuleText
	}
	for _, nr := range r.DNSRewritesAll() {
		s += "|rw:" + nr.RuleText
	}
	return s
}

func TestVerifC12GateRL(t *testing.T) {
	out := vhOpen(t)
	rounds := vhEnvInt("VERIF_ROUNDS", 4)
	dir, err := os.MkdirTemp(os.Getenv("VERIF_SCRATCH"), "c12rl")
	if err != nil {
		t.Fatal(err)
	}
	defer os.RemoveAll(dir)
	logger := slog.New(slog.NewTextHandler(io.Discard, nil))
	ip := netip.MustParseAddr("192.0.2.1")
	srv := httptest.NewServer(http.HandlerFunc(func(w http.ResponseWriter, r *http.Request) {
		b, rerr := os.ReadFile(filepath.Join(dir, filepath.Base(r.URL.Path)))
		if rerr != nil {
			w.WriteHeader(http.StatusNotFound)

			return
		}
		_, _ = w.Write(b)
	}))
	defer srv.Close()
	n := 0
	newRL := func(src string, cache rulelist.ResultCache) *rulelist.Refreshable {
		n++
		f, ferr := rulelist.NewRefreshable(&refreshable.Config{
			Logger: logger, URL: c12RLURL(srv.URL, src), ID: internal.ID(fmt.Sprintf("c12rl%d", n)),
			CachePath: filepath.Join(dir, fmt.Sprintf("cache%d", n)), Staleness: time.Nanosecond, Timeout: 10 * time.Second,
			MaxSize: 16 * datasize.MB,
		}, cache)
		if ferr != nil {
			t.Fatal(ferr)
		}
		if ferr = f.Refresh(context.Background(), false); ferr != nil {
			t.Fatal(ferr)
		}
		return f
	}
	for round := 0; round < rounds; round++ {
		host := fmt.Sprintf("h%d.gate.c12.example", round)
		for _, dirn := range []string{"removed", "added", "rewritten"} {
			for _, sc := range []struct{ parked, point string }{
				{"request", "get"}, {"request", "set"}, {"refresh", "pre-clear"}, {"refresh", "post-clear"},
			} {
				with, without := "||other.c12.example^\n||"+host+"^\n", "||other.c12.example^\n"
				v1, v2 := with, without
				switch dirn {
				case "added":
					v1, v2 = without, with
				case "rewritten":
					v1, v2 = "|"+host+"^$dnsrewrite=NOERROR;A;192.0.2.10\n", "|"+host+"^$dnsrewrite=NOERROR;A;192.0.2.20\n"
				}
				src := filepath.Join(dir, fmt.Sprintf("src-%d-%s-%s-%s", round, dirn, sc.parked, sc.point))
				if err = os.WriteFile(src, []byte(v1), 0o600); err != nil {
					t.Fatal(err)
				}
				g := &c12RLGate{Interface: rulelist.NewResultCache(100, true), atGate: make(chan struct{}), release: make(chan struct{})}
				f := newRL(src, g)
				if sc.point != "get" {
					// nothing cached yet for the host: the request will compute and store
				}
				if err = os.WriteFile(src, []byte(v2), 0o600); err != nil {
					t.Fatal(err)
				}
				ask := func() *urlfilter.DNSResult { return f.DNSResult(ip, "", host, dns.TypeA, false) }
				refresh := func() {
					if rerr := f.Refresh(context.Background(), false); rerr != nil {
						t.Errorf("refresh: %v", rerr)
					}
				}
				first, second := ask2(ask), refresh
				if sc.parked == "refresh" {
					first, second = refresh, ask2(ask)
				}
				g.mu.Lock()
				g.armed = sc.point
				g.mu.Unlock()
				firstDone, secondDone := make(chan struct{}), make(chan struct{})
				go func() { first(); close(firstDone) }()
				select {
				case <-g.atGate:
				case <-time.After(5 * time.Second):
					t.Fatalf("%s did not reach %s", sc.parked, sc.point)
				}
				go func() { second(); close(secondDone) }()
				waited := false
				select {
				case <-secondDone:
				case <-time.After(250 * time.Millisecond):
					waited = true // the other actor waits for the parked one: a common lock
				}
				g.release <- struct{}{}
				<-firstDone
				<-secondDone
				late := ask() // starts after Refresh has returned
				fresh := newRL(src, rulelist.ResultCacheEmpty{})
				want := fresh.DNSResult(ip, "", host, dns.TypeA, false)
				out.Emit(c12RLEvent{Ev: "Gate", What: fmt.Sprintf("rulelist: host %s by the refresh, %s parked at %s", dirn, sc.parked, sc.point),
					Q: map[string]string{"host": host}, Cached: c12RLAbs(late), Plain: c12RLAbs(want), Waited: waited})
			}
		}
	}
}

func ask2(ask func() *urlfilter.DNSResult) func() { return func() { _ = ask() } }

func c12RLURL(base, src string) *url.URL {
	u, err := url.Parse(base + "/" + filepath.Base(src))
	if err != nil {
		panic(err)
	}
	return u
}
