//go:build verif

package geoip_test

// C05, GeoIP side (internal/geoip/file.go): the location -- and with it the
// subnet sent upstream and the cache region -- of an address must be a function
// of the address alone, whatever was looked up before: the IP cache of
// geoip.File (keyed by /24 and /56) is invisible.  A WARM File answers a random
// sequence of look-ups (IPv4, IPv6 and IPv4-mapped IPv6 addresses as they
// arrive in family-2 ECS options); every answer is compared with the answer of
// a COLD File that has never seen another address.  One address per cache key,
// so that the documented /24 and /56 granularity plays no role.  TLC
// (TraceGeoIPCache.tla) decides.

import (
	"context"
	"fmt"
	"math/rand"
	"net/netip"
	"testing"
	"time"

	"github.com/AdguardTeam/AdGuardDNS/internal/agdcache"
	"github.com/AdguardTeam/AdGuardDNS/internal/geoip"
	"github.com/AdguardTeam/golibs/container"
	"github.com/AdguardTeam/golibs/logutil/slogutil"
	"github.com/AdguardTeam/golibs/netutil"
)

type c05GeoEvent struct {
	Ev     string `json:"ev"`
	IP     string `json:"ip"`
	Mapped bool   `json:"mapped"`
	Warm   string `json:"warm"`
	Cold   string `json:"cold"`
	Step   int    `json:"step"`
}

func c05GeoFile(t testing.TB, ipCache int) *geoip.File {
	tops := map[geoip.Country]geoip.ASN{geoip.CountryAU: 1221, geoip.CountryJP: 2516, geoip.CountryUS: 7922}
	all := container.NewMapSet[geoip.ASN](1221, 2516, 7922)
	g := geoip.NewFile(&geoip.FileConfig{Logger: slogutil.NewDiscardLogger(), CacheManager: agdcache.EmptyManager{},
		ASNPath: "./testdata/GeoIP2-ISP-Test.mmdb", CountryPath: "./testdata/GeoIP2-Country-Test.mmdb",
		HostCacheCount: 0, IPCacheCount: ipCache, AllTopASNs: all, CountryTopASNs: tops})
	ctx, cancel := context.WithTimeout(context.Background(), 10*time.Second)
	defer cancel()
	if err := g.Refresh(ctx); err != nil {
		t.Fatal(err)
	}
	return g
}

func c05GeoDigest(g *geoip.File, ip netip.Addr) string {
	l, err := g.Data("", ip)
	if err != nil {
		return "err:" + err.Error()
	}
	if l == nil {
		return "nil"
	}
	fam := netutil.AddrFamilyIPv4
	if ip.Is6() && !ip.Is4In6() {
		fam = netutil.AddrFamilyIPv6
	}
	// what Data said, read BEFORE the location is handed on (ecscache passes it to SubnetByLocation,
	// access control reads its ASN, the query log and billing record it)
	loc := fmt.Sprintf("%s/%s/%s/%d", l.Country, l.Continent, l.TopSubdivision, l.ASN)
	sn, serr := g.SubnetByLocation(l, fam)
	return fmt.Sprintf("%s subnet=%v err=%v", loc, sn, serr)
}

func TestVerifC05GeoIPCache(t *testing.T) {
	out := vhOpen(t)
	rng := rand.New(rand.NewSource(vhSeed()))
	// addresses of the MaxMind test databases (different countries / ASNs) and a few unknown ones;
	// one address per /24 resp. /56
	v4 := []string{"1.128.0.0", "216.160.83.56", "76.128.0.0", "81.2.69.142", "89.160.20.112", "175.16.199.0", "2.125.160.216",
		"67.43.156.1", "202.196.224.1", "12.81.92.0", "1.0.0.1", "149.101.100.0", "203.0.113.9", "198.51.100.7"}
	v6 := []string{"2001:218::", "240f::", "2001:256::", "2a02:f540::", "2c0f:ff80::", "2001:db8:77::1", "2a02:d140::"}
	var pool []netip.Addr
	for _, s := range v4 {
		a := netip.MustParseAddr(s)
		pool = append(pool, a, netip.AddrFrom16(a.As16())) // plain and IPv4-mapped
	}
	for _, s := range v6 {
		pool = append(pool, netip.MustParseAddr(s))
	}
	// for some IPv4 addresses the IPv6 address that starts with the same three octets followed by zeros
	// (a.b.c.0/24 and aabb:cc00::/56 written as raw bytes look alike): another family, another place
	for _, s := range v4[:6] {
		a := netip.MustParseAddr(s).As4()
		var b [16]byte
		b[0], b[1], b[2], b[15] = a[0], a[1], a[2], 1
		pool = append(pool, netip.AddrFrom16(b))
	}
	cold := map[netip.Addr]string{}
	for _, a := range pool {
		cold[a] = c05GeoDigest(c05GeoFile(t, 1), a)
	}
	rounds := vhEnvInt("VERIF_ROUNDS", 6)
	step := 0
	for r := 0; r < rounds; r++ {
		warm := c05GeoFile(t, 1000)
		for i := 0; i < 4*len(pool); i++ {
			a := pool[rng.Intn(len(pool))]
			step++
			out.Emit(c05GeoEvent{Ev: "Geo", IP: a.String(), Mapped: a.Is4In6(), Warm: c05GeoDigest(warm, a), Cold: cold[a], Step: step})
		}
	}
}
